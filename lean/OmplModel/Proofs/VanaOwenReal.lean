import OmplModel.Proofs.VanaOwenAF
import OmplModel.Proofs.VanaReal
import OmplModel.Props.C14O
import Mathlib.Analysis.SpecialFunctions.Trigonometric.Bounds
import Mathlib.Analysis.SpecialFunctions.Sqrt
import Mathlib.Tactic.Linarith
import Mathlib.Tactic.Ring
import Mathlib.Tactic.LinearCombination
import Mathlib.Tactic.FieldSimp
/-!
[EX] helper lemmas about `Model/VanaOwen.lean` (C14, VanaOwenStateSpace) over ℝ (instance of `Proofs/DubinsReal.lean`):
closed forms of Owen's `turn`, the circle it stays on, the chord it spans, the helix at whole circles, the state the
interior branch of `interpolate` assembles at the end of the path (`voEnd`) for a pair of solver words through the
world-frame Dubins theorem, and the straight-line bounds on `PathType::length()`.
-/
namespace OmplModel.VanaOwen
open OmplModel OmplModel.Dubins OmplModel.Owen OmplModel.Vana DubinsR
attribute [-instance] Num.instOfNat

/-! ## the model's constants and tests over ℝ -/

theorem isZero_real (x : ℝ) : isZero x = true ↔ x = 0 := by
  rw [isZero_iff]
  simp only [ofNat_zero]
  constructor
  · rintro ⟨h1, h2⟩
    exact le_antisymm (not_lt.mp h2) (not_lt.mp h1)
  · rintro rfl
    exact ⟨lt_irrefl _, lt_irrefl _⟩

theorem isZero_real_false (x : ℝ) : isZero x = false ↔ x ≠ 0 := by
  rw [Ne, ← isZero_real, Bool.not_eq_true]

theorem lengthSpiral_eq (p : VOPath ℝ) : lengthSpiral p = 2 * Real.pi * p.rh * p.k := by
  unfold lengthSpiral; rw [twopi_eq]

theorem lengthTurn_eq (p : VOPath ℝ) : lengthTurn p = |p.phi| * p.rh := rfl

/-- `voInterp` for `0 < t < 1` (Mathlib numerals) is the interior branch -/
theorem voInterp_mid (frm tgt : St5 ℝ) (t : ℝ) (p : VOPath ℝ) (h0 : 0 < t) (h1 : t < 1) :
    voInterp frm tgt t p = voBranch frm t p :=
  voInterp_interior frm tgt t p (by rw [ofNat_one]; exact not_le.mpr h1) (by rw [ofNat_zero]; exact not_le.mpr h0)

/-- high altitude, during the helix -/
theorem voInterp_high_spiral_real (frm tgt : St5 ℝ) (t : ℝ) (p : VOPath ℝ) (h0 : 0 < t) (h1 : t < 1)
    (hphi : p.phi = 0) (hk : p.k ≠ 0)
    (hsp : t * (2 * Real.pi * p.rh * p.k + p.rh * p.xy.len) ≤ 2 * Real.pi * p.rh * p.k) :
    voInterp frm tgt t p =
      voFin p t (turn (hpose frm) p.rh (t * (2 * Real.pi * p.rh * p.k + p.rh * p.xy.len) / p.rh)) := by
  rw [voInterp_mid frm tgt t p h0 h1,
    voBranch_high_spiral frm t p ((isZero_real _).mpr hphi) ((isZero_real_false _).mpr hk)
      (by rw [lengthSpiral_eq]; exact not_lt.mpr hsp), lengthSpiral_eq]
  rfl

/-- medium altitude, during the initial turn: the angle driven so far has the sign of `phi_`, magnitude `dist / rh` -/
theorem voInterp_medium_turn_real (frm tgt : St5 ℝ) (t : ℝ) (p : VOPath ℝ) (h0 : 0 < t) (h1 : t < 1)
    (hphi : p.phi ≠ 0) (hturn : t * (|p.phi| * p.rh + p.rh * p.xy.len) ≤ |p.phi| * p.rh) :
    voInterp frm tgt t p =
      voFin p t (turn (hpose frm) p.rh
        (if p.phi < 0 then -(t * (|p.phi| * p.rh + p.rh * p.xy.len) / p.rh)
          else t * (|p.phi| * p.rh + p.rh * p.xy.len) / p.rh)) := by
  rw [voInterp_mid frm tgt t p h0 h1,
    voBranch_medium_turn frm t p ((isZero_real_false _).mpr hphi) (by rw [lengthTurn_eq]; exact not_lt.mpr hturn),
    lengthTurn_eq]
  simp only [ofNat_zero]
  rfl

/-! ## Owen's `turn` -/

theorem turn_of_pos (frm : Pose ℝ) (r a : ℝ) (h : 0 < a) :
    turn frm r a = ⟨frm.x + r * (Real.sin (frm.th + a) - Real.sin frm.th),
      frm.y + r * (-Real.cos (frm.th + a) + Real.cos frm.th), frm.th + a⟩ := by
  unfold turn
  simp only [sin_eq, cos_eq]
  have h' : @LT.lt ℝ instNumRealD.toLT (@OfNat.ofNat ℝ 0 (Num.instOfNat 0)) a := by rw [ofNat_zero]; exact h
  rw [if_pos h']

theorem turn_of_nonpos (frm : Pose ℝ) (r a : ℝ) (h : ¬ 0 < a) :
    turn frm r a = ⟨frm.x + -r * (Real.sin (frm.th + a) - Real.sin frm.th),
      frm.y + -r * (-Real.cos (frm.th + a) + Real.cos frm.th), frm.th + a⟩ := by
  unfold turn
  simp only [sin_eq, cos_eq]
  have h' : ¬ @LT.lt ℝ instNumRealD.toLT (@OfNat.ofNat ℝ 0 (Num.instOfNat 0)) a := by rw [ofNat_zero]; exact h
  rw [if_neg h']

theorem turn_th (frm : Pose ℝ) (r a : ℝ) : (turn frm r a).th = frm.th + a := rfl

/-- a positive angle keeps the pose on the circle of radius `|r|` to the LEFT of the start pose -/
theorem turn_on_left_circle (frm : Pose ℝ) (r a : ℝ) (h : 0 < a) :
    ((turn frm r a).x - (frm.x - r * Real.sin frm.th)) ^ 2 +
      ((turn frm r a).y - (frm.y + r * Real.cos frm.th)) ^ 2 = r ^ 2 := by
  rw [turn_of_pos frm r a h]
  simp only
  linear_combination r ^ 2 * Real.sin_sq_add_cos_sq (frm.th + a)

/-- a non-positive angle keeps the pose on the circle of radius `|r|` to the RIGHT of the start pose -/
theorem turn_on_right_circle (frm : Pose ℝ) (r a : ℝ) (h : ¬ 0 < a) :
    ((turn frm r a).x - (frm.x + r * Real.sin frm.th)) ^ 2 +
      ((turn frm r a).y - (frm.y - r * Real.cos frm.th)) ^ 2 = r ^ 2 := by
  rw [turn_of_nonpos frm r a h]
  simp only
  linear_combination r ^ 2 * Real.sin_sq_add_cos_sq (frm.th + a)

/-- `turn` as ONE unit-radius arc of the Dubins vehicle model of length `|a|` (left for `a > 0`, right otherwise),
scaled by the radius and translated -/
theorem turn_is_abs_arc (frm : Pose ℝ) (r a : ℝ) :
    turn frm r a =
      ⟨frm.x + r * (stepFwd (if 0 < a then Seg.L else Seg.R) |a| ⟨0, 0, frm.th⟩).x,
       frm.y + r * (stepFwd (if 0 < a then Seg.L else Seg.R) |a| ⟨0, 0, frm.th⟩).y,
       (stepFwd (if 0 < a then Seg.L else Seg.R) |a| ⟨0, 0, frm.th⟩).th⟩ := by
  rw [Props.C14O.owen_turn_is_arc]
  by_cases h : 0 < a
  · rw [if_pos h, if_pos h, abs_of_pos h]
  · rw [if_neg h, if_neg h, abs_of_nonpos (not_lt.mp h)]

/-- the squared chord between the start and the turned position is `2 r² (1 − cos a)` -/
theorem turn_chord_sq (frm : Pose ℝ) (r a : ℝ) :
    ((turn frm r a).x - frm.x) * ((turn frm r a).x - frm.x) +
      ((turn frm r a).y - frm.y) * ((turn frm r a).y - frm.y) = 2 * r ^ 2 * (1 - Real.cos a) := by
  have hc : Real.cos a = Real.cos (frm.th + a) * Real.cos frm.th + Real.sin (frm.th + a) * Real.sin frm.th := by
    have := Real.cos_sub (frm.th + a) frm.th
    rw [add_sub_cancel_left] at this
    exact this
  by_cases h : 0 < a
  · rw [turn_of_pos frm r a h]
    simp only
    rw [hc]
    linear_combination r ^ 2 * Real.sin_sq_add_cos_sq (frm.th + a) + r ^ 2 * Real.sin_sq_add_cos_sq frm.th
  · rw [turn_of_nonpos frm r a h]
    simp only
    rw [hc]
    linear_combination r ^ 2 * Real.sin_sq_add_cos_sq (frm.th + a) + r ^ 2 * Real.sin_sq_add_cos_sq frm.th

/-- chord ≤ arc: the turned position is at most `r·|a|` away from the start -/
theorem turn_chord_le (frm : Pose ℝ) (r a : ℝ) (hr : 0 ≤ r) :
    Real.sqrt (((turn frm r a).x - frm.x) * ((turn frm r a).x - frm.x) +
      ((turn frm r a).y - frm.y) * ((turn frm r a).y - frm.y)) ≤ r * |a| := by
  rw [turn_chord_sq, Real.sqrt_le_left (mul_nonneg hr (abs_nonneg a)), mul_pow, sq_abs]
  have h := Real.one_sub_sq_div_two_le_cos (x := a)
  nlinarith [sq_nonneg r]

/-! ## the triangle inequality for `√(dx·dx + dy·dy)` -/

theorem sqrt_triangle (a b c d : ℝ) :
    Real.sqrt ((a + c) * (a + c) + (b + d) * (b + d)) ≤ Real.sqrt (a * a + b * b) + Real.sqrt (c * c + d * d) := by
  have hu : 0 ≤ a * a + b * b := add_nonneg (mul_self_nonneg _) (mul_self_nonneg _)
  have hv : 0 ≤ c * c + d * d := add_nonneg (mul_self_nonneg _) (mul_self_nonneg _)
  have h1 := Real.sq_sqrt hu
  have h2 := Real.sq_sqrt hv
  have hcs : a * c + b * d ≤ Real.sqrt (a * a + b * b) * Real.sqrt (c * c + d * d) := by
    rw [← Real.sqrt_mul hu]
    refine le_trans (le_abs_self _) (Real.abs_le_sqrt ?_)
    nlinarith [sq_nonneg (a * d - b * c)]
  rw [Real.sqrt_le_left (add_nonneg (Real.sqrt_nonneg _) (Real.sqrt_nonneg _))]
  nlinarith

/-! ## the helix (high altitude) -/

/-- at the horizontal distance `2π·rh·j` the spiral has closed `j` whole circles -/
theorem turn_whole_circles (fp : Pose ℝ) (rh : ℝ) (hrh : 0 < rh) (j : ℕ) (dist : ℝ)
    (hd : dist = 2 * Real.pi * rh * j) :
    turn fp rh (dist / rh) = ⟨fp.x, fp.y, fp.th + (j : ℝ) * (2 * Real.pi)⟩ := by
  have e : dist / rh = (j : ℝ) * (2 * Real.pi) := by
    rw [hd]; field_simp
  rw [e, Props.C14O.owen_turn_full_circles]

/-! ## the end of the interior branch -/

theorem so2Enforce_idem (x : ℝ) : so2Enforce (so2Enforce x) = so2Enforce x :=
  so2Enforce_of_mem _ (so2Enforce_mem x).1 (so2Enforce_mem x).2

theorem voEnd_eq (frm : St5 ℝ) (p : VOPath ℝ) :
    voEnd frm p = voFin p 1 (interpPath p.rh (voStart frm p) p.xy 1) := by
  unfold voEnd
  simp only [ofNat_one]

/-- for a horizontal word of positive length the interior branch, evaluated at `t = 1`, is `voEnd` -/
theorem voBranch_one (frm : St5 ℝ) (p : VOPath ℝ) (hlen : 0 < lengthPath p) : voBranch frm 1 p = voEnd frm p := by
  rw [voEnd_eq]
  cases hphi : isZero p.phi
  · have hlt : lengthTurn p < 1 * (lengthTurn p + lengthPath p) := by linarith
    rw [voBranch_medium_word frm 1 p hphi hlt, voStart_of_nonzero frm p hphi]
    have e : (1 * (lengthTurn p + lengthPath p) - lengthTurn p) / lengthPath p = 1 := by
      field_simp; ring
    rw [e]
  · rw [voStart_of_zero frm p hphi]
    cases hk : isZero p.k
    · have hlt : lengthSpiral p < 1 * (lengthSpiral p + lengthPath p) := by linarith
      rw [voBranch_high_word frm 1 p hphi hk hlt]
      have e : (1 * (lengthSpiral p + lengthPath p) - lengthSpiral p) / lengthPath p = 1 := by
        field_simp; ring
      rw [e]
    · rw [voBranch_low frm 1 p hphi hk]

/-- both words driven to their ends: the horizontal word is a solver output for the problem from `s = voStart frm p`
to the target's horizontal pose, the profile word a solver output for the problem from `startSZ_` to
`(S, z(to), pitch(to))` -/
theorem voEnd_reaches (m2p m2p' : ℝ → ℝ) (hm : Exact m2p) (hnn : ∀ x, 0 ≤ m2p x)
    (hm' : Exact m2p') (hnn' : ∀ x, 0 ≤ m2p' x) (w w' : Word)
    (frm tgt : St5 ℝ) (p : VOPath ℝ) (hrh : 0 < p.rh) (hrv : 0 < p.rv) (s : Pose ℝ) (hs : voStart frm p = s)
    (S α β α' β' : ℝ)
    (hα : ∃ k₁ : ℤ, α = s.th - Complex.arg ⟨tgt.x - s.x, tgt.y - s.y⟩ + k₁ * (2 * Real.pi))
    (hβ : ∃ k₂ : ℤ, β = tgt.yaw - Complex.arg ⟨tgt.x - s.x, tgt.y - s.y⟩ + k₂ * (2 * Real.pi))
    (hb : NoClamp w (Real.sqrt ((tgt.x - s.x) * (tgt.x - s.x) + (tgt.y - s.y) * (tgt.y - s.y)) / p.rh) α β)
    (h : solve m2p w (Real.sqrt ((tgt.x - s.x) * (tgt.x - s.x) + (tgt.y - s.y) * (tgt.y - s.y)) / p.rh) α β
      = some p.xy)
    (hα' : ∃ k₁ : ℤ, α' = p.startSZ.th - Complex.arg ⟨S - p.startSZ.x, tgt.z - p.startSZ.y⟩ + k₁ * (2 * Real.pi))
    (hβ' : ∃ k₂ : ℤ, β' = tgt.pitch - Complex.arg ⟨S - p.startSZ.x, tgt.z - p.startSZ.y⟩ + k₂ * (2 * Real.pi))
    (hb' : NoClamp w' (Real.sqrt ((S - p.startSZ.x) * (S - p.startSZ.x) +
      (tgt.z - p.startSZ.y) * (tgt.z - p.startSZ.y)) / p.rv) α' β')
    (h' : solve m2p' w' (Real.sqrt ((S - p.startSZ.x) * (S - p.startSZ.x) +
      (tgt.z - p.startSZ.y) * (tgt.z - p.startSZ.y)) / p.rv) α' β' = some p.sz) :
    voEnd frm p = ⟨tgt.x, tgt.y, tgt.z, so2Enforce tgt.pitch, so2Enforce tgt.yaw⟩ := by
  obtain ⟨k', hk'⟩ := dubins_interp_one_world m2p hm hnn w p.rh hrh s ⟨tgt.x, tgt.y, tgt.yaw⟩ α β hα hβ p.xy hb h
  obtain ⟨k, hk⟩ := dubins_interp_one_world m2p' hm' hnn' w' p.rv hrv p.startSZ ⟨S, tgt.z, tgt.pitch⟩ α' β'
    hα' hβ' p.sz hb' h'
  rw [voEnd_eq]
  unfold voFin
  rw [hs, hk, hk']
  simp only [so2Enforce_add_int, so2Enforce_idem]

/-! ## straight-line bounds on `length()` -/

/-- the profile word is at least as long as the straight line of the profile problem it solves -/
theorem voLen_ge_profile (m2p' : ℝ → ℝ) (hm' : Exact m2p') (hnn' : ∀ x, 0 ≤ m2p' x) (w' : Word)
    (p : VOPath ℝ) (hrv : 0 < p.rv) (S dz α' β' : ℝ)
    (hb' : NoClamp w' (Real.sqrt (S * S + dz * dz) / p.rv) α' β')
    (h' : solve m2p' w' (Real.sqrt (S * S + dz * dz) / p.rv) α' β' = some p.sz) :
    Real.sqrt (S * S + dz * dz) ≤ p.len :=
  dubins_world_len_ge m2p' hm' hnn' w' p.rv hrv _ α' β' (Real.sqrt_nonneg _) p.sz hb' h'

/-- the pose the horizontal word starts from is at most `rh·|phi|` away from `from` -/
theorem voStart_dist_le (frm : St5 ℝ) (p : VOPath ℝ) (hrh : 0 ≤ p.rh) :
    Real.sqrt (((voStart frm p).x - frm.x) * ((voStart frm p).x - frm.x) +
      ((voStart frm p).y - frm.y) * ((voStart frm p).y - frm.y)) ≤ p.rh * |p.phi| := by
  cases hphi : isZero p.phi
  · rw [voStart_of_nonzero frm p hphi]
    exact turn_chord_le (hpose frm) p.rh p.phi hrh
  · rw [voStart_of_zero frm p hphi]
    have e : (hpose frm).x - frm.x = 0 := sub_self _
    have e' : (hpose frm).y - frm.y = 0 := sub_self _
    rw [e, e']
    simp only [mul_zero, add_zero, Real.sqrt_zero]
    exact mul_nonneg hrh (abs_nonneg _)

/-- the horizontal straight-line distance is at most `rh · (|pathXY_| + 2π·numTurns_ + |phi_|)` -/
theorem voHoriz_le (m2p : ℝ → ℝ) (hm : Exact m2p) (hnn : ∀ x, 0 ≤ m2p x) (w : Word)
    (frm tgt : St5 ℝ) (p : VOPath ℝ) (hrh : 0 < p.rh) (hk : 0 ≤ p.k) (s : Pose ℝ) (hs : voStart frm p = s) (α β : ℝ)
    (hb : NoClamp w (Real.sqrt ((tgt.x - s.x) * (tgt.x - s.x) + (tgt.y - s.y) * (tgt.y - s.y)) / p.rh) α β)
    (h : solve m2p w (Real.sqrt ((tgt.x - s.x) * (tgt.x - s.x) + (tgt.y - s.y) * (tgt.y - s.y)) / p.rh) α β
      = some p.xy) :
    Real.sqrt ((tgt.x - frm.x) * (tgt.x - frm.x) + (tgt.y - frm.y) * (tgt.y - frm.y)) ≤
      p.rh * (p.xy.len + 2 * Real.pi * p.k + |p.phi|) := by
  have h1 := dubins_world_len_ge m2p hm hnn w p.rh hrh _ α β (Real.sqrt_nonneg _) p.xy hb h
  have h2 := voStart_dist_le frm p hrh.le
  rw [hs] at h2
  have h3 := sqrt_triangle (tgt.x - s.x) (tgt.y - s.y) (s.x - frm.x) (s.y - frm.y)
  rw [sub_add_sub_cancel, sub_add_sub_cancel] at h3
  have h4 : 0 ≤ p.rh * (2 * Real.pi * p.k) := mul_nonneg hrh.le (mul_nonneg twopi_pos.le hk)
  nlinarith

/-- from `√(S·S + Δz·Δz) ≤ L` and a horizontal straight-line distance `≤ S`: the 3D straight line is `≤ L` -/
theorem three_d_le (dx dy dz S L : ℝ) (hS : Real.sqrt (dx * dx + dy * dy) ≤ S)
    (hL : Real.sqrt (S * S + dz * dz) ≤ L) : Real.sqrt (dx ^ 2 + dy ^ 2 + dz ^ 2) ≤ L := by
  refine le_trans (Real.sqrt_le_sqrt ?_) hL
  have h0 : 0 ≤ dx * dx + dy * dy := add_nonneg (mul_self_nonneg _) (mul_self_nonneg _)
  have hsq := Real.mul_self_sqrt h0
  have hle := mul_self_le_mul_self (Real.sqrt_nonneg _) hS
  nlinarith

theorem abs_le_of_sqrt_le (S dz L : ℝ) (hL : Real.sqrt (S * S + dz * dz) ≤ L) : |dz| ≤ L :=
  le_trans (Real.abs_le_sqrt (by nlinarith [mul_self_nonneg S])) hL

end OmplModel.VanaOwen
