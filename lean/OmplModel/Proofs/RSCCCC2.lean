import OmplModel.Proofs.RSCCCC
import OmplModel.Proofs.RSExamples
import Mathlib.Analysis.SpecialFunctions.Complex.Arg
/-!
Concrete evaluations of `tauOmega` and the two CCCC solvers over ℝ (C14, round 3), used as non-vacuity
witnesses by `Props/C14RS.lean`.  These are tests on instances, not properties.
-/
namespace OmplModel.RS
open OmplModel OmplModel.Dubins DubinsR RSR
attribute [-instance] Num.instOfNat

/-- `tauOmega(0, 0, 2, 0, φ) = (π/2, mod2pi(π/2 − φ))` -/
theorem tauOmega_0_0_2_0 (phi : ℝ) :
    tauOmega (0 : ℝ) 0 2 0 phi = (Real.pi / 2, rmod2pi (Real.pi / 2 - phi)) := by
  unfold tauOmega
  simp only [sin_eq, cos_eq, atan2_eq, ofNat_zero, ofNat_one, ofNat_two, ofNat_three, rpi_eq, sub_self,
    rmod2pi_zero, Real.sin_zero, Real.cos_zero]
  have harg : Complex.arg ⟨2 * 0 + 0 * (0 - 1), 0 * 0 - 2 * (0 - 1)⟩ = Real.pi / 2 :=
    Complex.arg_eq_pi_div_two_iff.mpr ⟨by norm_num, by norm_num⟩
  have hpi := Real.pi_pos
  have hm : rmod2pi (Real.pi / 2) = Real.pi / 2 := rmod2pi_of_mem _ (by linarith) (by linarith)
  rw [harg, if_neg (by norm_num), sub_zero, add_zero, hm]

/-- `tauOmega(0, 0, 2, 0, 0) = (π/2, π/2)` -/
theorem tauOmega_ex : tauOmega (0 : ℝ) 0 2 0 0 = (Real.pi / 2, Real.pi / 2) := by
  have hpi := Real.pi_pos
  rw [tauOmega_0_0_2_0, sub_zero, rmod2pi_of_mem _ (by linarith) (by linarith)]

/-- formula 8.8 on the goal `(2, 2, 0)`: `ρ = 1`, `u = 0`, two quarter turns `L π/2 · R 0 · L 0 · R π/2` -/
theorem LpRumLumRp_ex : LpRumLumRp (2 : ℝ) 2 0 = some (Real.pi / 2, 0, Real.pi / 2) := by
  unfold LpRumLumRp
  simp only [sin_eq, cos_eq, acos_eq, ofNat_zero, ofNat_one, ofNat_sixteen, ofNat_twenty, rhalf_eq, rpi_eq,
    Real.sin_zero, Real.cos_zero]
  have hxi : (2 : ℝ) + 0 = 2 := by norm_num
  have heta : (2 : ℝ) - 1 - 1 = 0 := by norm_num
  have hrho : ((20 : ℝ) - 2 * 2 - 0 * 0) / 16 = 1 := by norm_num
  have hpi := Real.pi_pos
  have hz := rzero_pos
  rw [hxi, heta, hrho, Real.arccos_one, neg_zero, tauOmega_ex]
  rw [if_pos ⟨by norm_num, le_rfl⟩, if_pos (by linarith)]
  show (if -rzero ≤ Real.pi / 2 ∧ -rzero ≤ Real.pi / 2 then some (Real.pi / 2, (0 : ℝ), Real.pi / 2) else none) = _
  rw [if_pos ⟨by linarith, by linarith⟩]

/-- formula 8.7 on the goal `(1, 1, π/2)`: `ρ = 1`, `u = 0`, one quarter turn `L π/2 · R 0 · L 0 · R 0` -/
theorem LpRupLumRm_ex : LpRupLumRm (1 : ℝ) 1 (Real.pi / 2) = some (Real.pi / 2, 0, 0) := by
  unfold LpRupLumRm
  simp only [sin_eq, cos_eq, sqrt_eq, acos_eq, ofNat_one, ofNat_two, ofDec_25_2, Real.sin_pi_div_two,
    Real.cos_pi_div_two]
  have hxi : (1 : ℝ) + 1 = 2 := by norm_num
  have heta : (1 : ℝ) - 1 - 0 = 0 := by norm_num
  have hs : Real.sqrt (2 * 2 + 0 * 0) = 2 := by
    rw [show (2 : ℝ) * 2 + 0 * 0 = 2 ^ 2 by norm_num]; exact Real.sqrt_sq (by norm_num)
  have hrho : (1 : ℝ) / 4 * (2 + 2) = 1 := by norm_num
  have hpi := Real.pi_pos
  have hz := rzero_pos
  rw [hxi, heta, hs, hrho, Real.arccos_one, neg_zero, tauOmega_0_0_2_0, sub_self, rmod2pi_zero]
  rw [if_pos le_rfl]
  show (if -rzero ≤ Real.pi / 2 ∧ (0 : ℝ) ≤ rzero then some (Real.pi / 2, (0 : ℝ), (0 : ℝ)) else none) = _
  rw [if_pos ⟨by linarith, by linarith⟩]

/-- `tauOmega(π/3, −π/3, 0, 0, 0) = (0, −2π/3)` -/
theorem tauOmega_ex2 :
    tauOmega (Real.pi / 3) (-(Real.pi / 3)) 0 0 0 = (0, -(2 * Real.pi / 3)) := by
  unfold tauOmega
  simp only [sin_eq, cos_eq, atan2_eq, ofNat_zero, ofNat_one, ofNat_two, ofNat_three, rpi_eq, zero_mul,
    add_zero, sub_zero]
  have hpi := Real.pi_pos
  have hd : rmod2pi (Real.pi / 3 - -(Real.pi / 3)) = Real.pi - Real.pi / 3 := by
    rw [show Real.pi / 3 - -(Real.pi / 3) = Real.pi - Real.pi / 3 by ring]
    exact rmod2pi_of_mem _ (by linarith) (by linarith)
  have ha : Complex.arg ⟨0, 0⟩ = 0 := Complex.arg_zero
  rw [hd, Real.cos_pi_sub, Real.cos_neg, Real.cos_pi_div_three, ha, rmod2pi_zero]
  rw [if_neg (by norm_num), show (0 : ℝ) - Real.pi / 3 + -(Real.pi / 3) = -(2 * Real.pi / 3) by ring,
    rmod2pi_of_mem _ (by linarith) (by linarith)]

/-- formula 8.7 on the goal `(0, 2, 0)` (the parallel pose two radii to the left): `ρ = 1/2`, `u = π/3`,
the four-arc word `L 0 · R π/3 · L (−π/3) · R (−2π/3)` -/
theorem LpRupLumRm_ex2 :
    LpRupLumRm (0 : ℝ) 2 0 = some (0, Real.pi / 3, -(2 * Real.pi / 3)) := by
  unfold LpRupLumRm
  simp only [sin_eq, cos_eq, sqrt_eq, acos_eq, ofNat_one, ofNat_two, ofDec_25_2, Real.sin_zero,
    Real.cos_zero]
  have hxi : (0 : ℝ) + 0 = 0 := by norm_num
  have heta : (2 : ℝ) - 1 - 1 = 0 := by norm_num
  have hs : Real.sqrt (0 * 0 + 0 * 0) = 0 := by norm_num
  have hrho : (1 : ℝ) / 4 * (2 + 0) = 1 / 2 := by norm_num
  have hpi := Real.pi_pos
  have hz := rzero_pos
  have hu : Real.arccos (1 / 2) = Real.pi / 3 := by
    rw [← Real.cos_pi_div_three]; exact Real.arccos_cos (by positivity) (by linarith)
  rw [hxi, heta, hs, hrho, hu, tauOmega_ex2]
  rw [if_pos (by norm_num)]
  show (if -rzero ≤ (0 : ℝ) ∧ -(2 * Real.pi / 3) ≤ rzero then
    some ((0 : ℝ), Real.pi / 3, -(2 * Real.pi / 3)) else none) = _
  rw [if_pos ⟨by linarith, by linarith⟩]

end OmplModel.RS
