import OmplModel.Proofs.PlannerProtoRoots
import OmplModel.Proofs.PlannerProtoInterm
/-!
C03, round 10: the tree invariants of `Proofs/PlannerProtoRoots.lean` (parent < index, roots are valid start states of
the current problem definition, `lastGoalMotion_` inside the tree) for EVERY core that keeps its motions in a `Tree`
and walks parent pointers — `TreeCore` — instead of the geometric RRT core only; instances: `rrtCore`, `crrtCore`
(control::RRT with intermediate states) and `rrtiCore` (geometric::RRT with intermediate states).  Also: a resumed
`solve` keeps every motion of the tree it found (`iterate_prefix`).  Core Lean only, arithmetic-free.
-/
namespace OmplModel.PlannerProto

variable {σ δ D : Type}

/-- a core whose motions live in a `Tree`, whose roots are the consumed start states and whose loop body only
appends child motions below existing ones -/
structure TreeCore (cs : CoreSpec σ δ D (Tree σ)) : Prop where
  lawful : LawfulCore cs
  size_eq : ∀ t, cs.size t = t.size
  init_eq : cs.init = #[]
  addRoot_eq : ∀ t i s, cs.addRoot t i s = t.push ⟨s, none, i⟩
  pathTo_eq : ∀ t i, cs.pathTo t i = walk t i []
  iterate_wf : ∀ t i d, TreeWf t → TreeWf (cs.iterate t i d).core
  iterate_roots : ∀ (S : σ → Prop) t i d, RootsIn t S → RootsIn (cs.iterate t i d).core S
  iterate_prefix : ∀ t i d, t.toList <+: (cs.iterate t i d).core.toList

namespace TG

theorem consumeStarts_inv (cs : CoreSpec σ δ D (Tree σ)) (ht : TreeCore cs) (S : σ → Prop) (ss : List (σ × Bool)) :
    ∀ (c : Tree σ) (n : Nat), TreeWf c → RootsIn c S → (∀ s, (s, true) ∈ ss → S s) →
      TreeWf (consumeStarts cs ss c n).1 ∧ RootsIn (consumeStarts cs ss c n).1 S ∧
        c.size ≤ (consumeStarts cs ss c n).1.size ∧ c.toList <+: (consumeStarts cs ss c n).1.toList := by
  induction ss with
  | nil => intro c n h1 h2 _; exact ⟨h1, h2, Nat.le_refl _, List.prefix_refl _⟩
  | cons a r ih =>
    intro c n h1 h2 h3
    obtain ⟨s, v⟩ := a
    cases v with
    | false =>
      simp only [consumeStarts]
      exact ih c n h1 h2 (fun s hs => h3 s (List.mem_cons_of_mem _ hs))
    | true =>
      simp only [consumeStarts, ht.addRoot_eq]
      have := ih (c.push ⟨s, none, n⟩) (n + 1) (wf_push_root c s n h1)
        (roots_push_root c s n S h2 (h3 s List.mem_cons_self)) (fun s hs => h3 s (List.mem_cons_of_mem _ hs))
      refine ⟨this.1, this.2.1, ?_, ?_⟩
      · have h := this.2.2.1
        have e : (c.push (⟨s, none, n⟩ : Motion σ)).size = c.size + 1 := Array.size_push _
        exact Nat.le_trans (by omega) h
      · refine List.IsPrefix.trans ?_ this.2.2.2
        rw [Array.toList_push]
        exact List.prefix_append _ _

theorem loop_inv (cs : CoreSpec σ δ D (Tree σ)) (ht : TreeCore cs) (S : σ → Prop) (ltD : δ → δ → Bool) :
    ∀ (k : Nat) (ds : List D) (c : Tree σ) (s : Search δ) (n : Nat), TreeWf c → RootsIn c S →
      TreeWf (loop cs ltD k ds c s n).core ∧ RootsIn (loop cs ltD k ds c s n).core S ∧
        c.toList <+: (loop cs ltD k ds c s n).core.toList := by
  intro k
  induction k with
  | zero => intro ds c s n h1 h2; exact ⟨by simpa [loop] using h1, by simpa [loop] using h2, by simp [loop]⟩
  | succ k ih =>
    intro ds c s n h1 h2
    cases ds with
    | nil => exact ⟨by simpa [loop] using h1, by simpa [loop] using h2, by simp [loop]⟩
    | cons d ds =>
      have I1 := ht.iterate_wf c n d h1
      have I2 := ht.iterate_roots S c n d h2
      have I3 := ht.iterate_prefix c n d
      simp only [loop]
      split
      · exact ⟨I1, I2, I3⟩
      · have := ih ds _ (applyRes ltD s (cs.iterate c n d).res).1 (cs.iterate c n d).next I1 I2
        exact ⟨this.1, this.2.1, I3.trans this.2.2⟩

abbrev TM (σ δ : Type) := M σ δ (Tree σ)

theorem prologue_core (cs : CoreSpec σ δ D (Tree σ)) (m : TM σ δ) (pd : Pdef σ δ) :
    (prologue cs m pd).1.core = (consumeStarts cs (pd.starts.drop m.pis.added) m.core m.next).1 := rfl

theorem solve_wf (cs : CoreSpec σ δ D (Tree σ)) (ht : TreeCore cs) (P : Params σ δ) (m : TM σ δ) (k : Nat) (ds : List D)
    (h : TreeWf m.core) : TreeWf (solve cs P m k ds).m.core := by
  rcases solve_shape cs ht.lawful P m k ds with ⟨_, hm, _⟩ | ⟨pd, hpd, hc | ⟨r, hr, hc, _⟩⟩
  · rw [hm]; exact h
  · rw [hc.1, prologue_core]
    exact (consumeStarts_inv cs ht (fun _ => True) _ m.core m.next h (fun _ _ _ => trivial) (fun _ _ => trivial)).1
  · rw [hc, hr]
    have c := consumeStarts_inv cs ht (fun _ => True) (pd.starts.drop m.pis.added) m.core m.next h
      (fun _ _ _ => trivial) (fun _ _ => trivial)
    exact (loop_inv cs ht (fun _ => True) P.ltD k ds _ _ _ (by rw [prologue_core]; exact c.1)
      (by rw [prologue_core]; exact c.2.1)).1

/-- **a resumed solve continues the preserved search**: every motion of the tree it found is still there, at the
same index, with the same state and parent -/
theorem solve_prefix (cs : CoreSpec σ δ D (Tree σ)) (ht : TreeCore cs) (P : Params σ δ) (m : TM σ δ) (k : Nat) (ds : List D)
    (h : TreeWf m.core) : m.core.toList <+: (solve cs P m k ds).m.core.toList := by
  rcases solve_shape cs ht.lawful P m k ds with ⟨_, hm, _⟩ | ⟨pd, hpd, hc | ⟨r, hr, hc, _⟩⟩
  · rw [hm]; exact List.prefix_refl _
  · rw [hc.1, prologue_core]
    exact (consumeStarts_inv cs ht (fun _ => True) _ m.core m.next h (fun _ _ _ => trivial) (fun _ _ => trivial)).2.2.2
  · rw [hc, hr]
    have c := consumeStarts_inv cs ht (fun _ => True) (pd.starts.drop m.pis.added) m.core m.next h
      (fun _ _ _ => trivial) (fun _ _ => trivial)
    have l := loop_inv cs ht (fun _ => True) P.ltD k ds (prologue cs m pd).1.core ⟨none, none, P.inf⟩
      ((prologue cs m pd).1.next + 2) (by rw [prologue_core]; exact c.1) (by rw [prologue_core]; exact c.2.1)
    refine List.IsPrefix.trans ?_ l.2.2
    rw [prologue_core]
    exact c.2.2.2

theorem solve_lg (cs : CoreSpec σ δ D (Tree σ)) (ht : TreeCore cs) (P : Params σ δ) (m : TM σ δ) (k : Nat) (ds : List D)
    (hw : TreeWf m.core) (h : LGok m) : LGok (solve cs P m k ds).m := by
  rcases solve_shape cs ht.lawful P m k ds with ⟨_, hm, _⟩ | ⟨pd, hpd, hc | ⟨r, hr, hc, _, hl, _⟩⟩
  · rw [hm]; exact h
  · intro i hi
    rw [hc.2.1] at hi
    rw [hc.1, prologue_core]
    have c := consumeStarts_inv cs ht (fun _ => True) (pd.starts.drop m.pis.added) m.core m.next hw
      (fun _ _ _ => trivial) (fun _ _ => trivial)
    exact Nat.lt_of_lt_of_le (h i hi) c.2.2.1
  · intro i hi
    rw [hc]
    rcases hl i hi with h1 | h1
    · have c := consumeStarts_inv cs ht (fun _ => True) (pd.starts.drop m.pis.added) m.core m.next hw
        (fun _ _ _ => trivial) (fun _ _ => trivial)
      have L := loop_idx cs ht.lawful P.ltD k ds (prologue cs m pd).1.core ⟨none, none, P.inf⟩
        ((prologue cs m pd).1.next + 2) (by simp) (by simp)
      rw [hr]
      have a : i < (prologue cs m pd).1.core.size := by
        rw [prologue_core]; exact Nat.lt_of_lt_of_le (h i h1) c.2.2.1
      have L2 := L.2.2
      rw [ht.size_eq, ht.size_eq] at L2
      exact Nat.lt_of_lt_of_le a L2
    · rw [ht.size_eq] at h1; exact h1

theorem solve_pure (cs : CoreSpec σ δ D (Tree σ)) (ht : TreeCore cs) (P : Params σ δ) (m : TM σ δ) (k : Nat) (ds : List D)
    (hw : TreeWf m.core) (h : Pure m) : Pure (solve cs P m k ds).m := by
  rcases solve_shape cs ht.lawful P m k ds with ⟨_, hm, _⟩ | ⟨pd, hpd, hc | ⟨r, hr, hc, ⟨pd', hp', hs'⟩, _, _⟩⟩
  · rw [hm]; exact h
  · have h0 : RootsIn m.core (fun s => (s, true) ∈ pd.starts) :=
      roots_mono _ _ _ h (by
        rintro s ⟨pd0, h1, h2⟩
        rw [hpd] at h1
        cases h1
        exact h2)
    have c := consumeStarts_inv cs ht (fun s => (s, true) ∈ pd.starts) (pd.starts.drop m.pis.added) m.core m.next hw h0
      (fun s hs => List.mem_of_mem_drop hs)
    unfold Pure
    rw [hc.1, prologue_core]
    exact roots_mono _ _ _ c.2.1 (fun s hs => ⟨pd, hc.2.2.1, hs⟩)
  · have h0 : RootsIn m.core (fun s => (s, true) ∈ pd.starts) :=
      roots_mono _ _ _ h (by
        rintro s ⟨pd0, h1, h2⟩
        rw [hpd] at h1
        cases h1
        exact h2)
    have c := consumeStarts_inv cs ht (fun s => (s, true) ∈ pd.starts) (pd.starts.drop m.pis.added) m.core m.next hw h0
      (fun s hs => List.mem_of_mem_drop hs)
    have l := loop_inv cs ht (fun s => (s, true) ∈ pd.starts) P.ltD k ds (prologue cs m pd).1.core ⟨none, none, P.inf⟩
      ((prologue cs m pd).1.next + 2) (by rw [prologue_core]; exact c.1) (by rw [prologue_core]; exact c.2.1)
    unfold Pure
    rw [hc, hr]
    exact roots_mono _ _ _ l.2.1 (fun s hs => ⟨pd', hp', by rw [hs']; exact hs⟩)

/-- a reported path begins at a valid start state of the current problem definition -/
theorem solve_head (cs : CoreSpec σ δ D (Tree σ)) (ht : TreeCore cs) (P : Params σ δ) (m : TM σ δ) (k : Nat) (ds : List D)
    (hw : TreeWf m.core) (h : Pure m) :
    ∀ s ∈ (solve cs P m k ds).added, ∃ st, s.path.head? = some st ∧ validStart (solve cs P m k ds).m st := by
  intro s hs
  obtain ⟨_, i, hi, hp⟩ := solve_added cs ht.lawful P m k ds s hs
  rw [ht.size_eq] at hi
  rw [ht.pathTo_eq] at hp
  obtain ⟨j, hj, hroot, hh⟩ := walk_head _ (solve_wf cs ht P m k ds hw) i [] hi
  refine ⟨_, by rw [hp]; exact hh, ?_⟩
  exact solve_pure cs ht P m k ds hw h j hj hroot

/-- `true` iff, after the history, the tree may still hold motions of a query that was replaced
(`setProblemDefinition` / `setStartAndGoalStates` on a non-empty tree) with no `clear()` since. -/
def dirtyAfter (cs : CoreSpec σ δ D (Tree σ)) (P : Params σ δ) : TM σ δ → Bool → List (Op σ D) → Bool
  | _, d, [] => d
  | m, d, op :: r =>
    dirtyAfter cs P (step cs P m op)
      (if op.clears then false else if op.replacesQuery then d || decide (m.core.size ≠ 0) else d) r

theorem step_wf (cs : CoreSpec σ δ D (Tree σ)) (ht : TreeCore cs) (P : Params σ δ) (m : TM σ δ) (op : Op σ D)
    (h : TreeWf m.core) : TreeWf (step cs P m op).core := by
  cases op with
  | solve k ds => exact solve_wf cs ht P m k ds h
  | clear => simp only [step, clear, ht.init_eq]; exact wf_empty
  | clearQuery => simp only [step, clear, ht.init_eq]; exact wf_empty
  | destroy => simp only [step, ht.init_eq]; exact wf_empty
  | setProblemDefinition id ss =>
    simp only [step, setProblemDefinition]
    split
    · split <;> exact h
    · exact h
  | getPlannerData => exact h
  | addStart s v => exact h
  | setStartGoal ss => exact h
  | clearSolutionPaths => exact h

theorem step_lg (cs : CoreSpec σ δ D (Tree σ)) (ht : TreeCore cs) (P : Params σ δ) (m : TM σ δ) (op : Op σ D)
    (hw : TreeWf m.core) (h : LGok m) : LGok (step cs P m op) := by
  cases op with
  | solve k ds => exact solve_lg cs ht P m k ds hw h
  | clear => intro i hi; simp [step, clear] at hi
  | clearQuery => intro i hi; simp [step, clear] at hi
  | destroy => intro i hi; simp [step] at hi
  | setProblemDefinition id ss =>
    simp only [step, setProblemDefinition]
    split
    · split <;> exact h
    · exact h
  | getPlannerData => exact h
  | addStart s v => exact h
  | setStartGoal ss => exact h
  | clearSolutionPaths => exact h

theorem step_core_of_not_solve (cs : CoreSpec σ δ D (Tree σ)) (P : Params σ δ) (m : TM σ δ) (op : Op σ D)
    (h1 : op.clears = false) (h2 : ∀ k ds, op ≠ .solve k ds) : (step cs P m op).core = m.core := by
  cases op with
  | solve k ds => exact absurd rfl (h2 k ds)
  | clear => simp [Op.clears] at h1
  | clearQuery => simp [Op.clears] at h1
  | destroy => simp [Op.clears] at h1
  | setProblemDefinition id ss =>
    simp only [step, setProblemDefinition]
    split
    · split <;> rfl
    · rfl
  | getPlannerData => rfl
  | addStart s v => rfl
  | setStartGoal ss => rfl
  | clearSolutionPaths => rfl

theorem pure_of_init (cs : CoreSpec σ δ D (Tree σ)) (ht : TreeCore cs) (m : TM σ δ) (h : m.core = cs.init) : Pure m := by
  apply pure_of_empty
  rw [h, ht.init_eq]
  rfl

theorem step_pure (cs : CoreSpec σ δ D (Tree σ)) (ht : TreeCore cs) (P : Params σ δ) (m : TM σ δ) (op : Op σ D)
    (hw : TreeWf m.core)
    (hp : Pure m ∨ (op.clears = true) ∨ (op.replacesQuery = true ∧ m.core.size = 0))
    (hq : op.replacesQuery = true → m.core.size = 0 ∨ op.clears = true) :
    Pure (step cs P m op) := by
  cases op with
  | solve k ds =>
    rcases hp with hp | hp | hp
    · exact solve_pure cs ht P m k ds hw hp
    · simp [Op.clears] at hp
    · simp [Op.replacesQuery] at hp
  | clear => exact pure_of_init cs ht _ rfl
  | clearQuery => exact pure_of_init cs ht _ rfl
  | destroy => exact pure_of_init cs ht _ rfl
  | setProblemDefinition id ss =>
    have h0 : m.core.size = 0 := by
      rcases hq rfl with h | h
      · exact h
      · simp [Op.clears] at h
    apply pure_of_empty
    rw [step_core_of_not_solve cs P m _ rfl (by intro k ds h; cases h)]
    exact h0
  | setStartGoal ss =>
    have h0 : m.core.size = 0 := by
      rcases hq rfl with h | h
      · exact h
      · simp [Op.clears] at h
    exact pure_of_empty _ h0
  | getPlannerData =>
    rcases hp with hp | hp | hp
    · exact hp
    · simp [Op.clears] at hp
    · simp [Op.replacesQuery] at hp
  | addStart s v =>
    rcases hp with hp | hp | hp
    · intro i hi hr
      obtain ⟨pd, h1, h2⟩ := hp i hi hr
      exact ⟨{ pd with starts := pd.starts ++ [(s, v)] }, by simp [step, h1], List.mem_append_left _ h2⟩
    · simp [Op.clears] at hp
    · simp [Op.replacesQuery] at hp
  | clearSolutionPaths =>
    rcases hp with hp | hp | hp
    · intro i hi hr
      obtain ⟨pd, h1, h2⟩ := hp i hi hr
      exact ⟨{ pd with sols := [] }, by simp [step, h1], h2⟩
    · simp [Op.clears] at hp
    · simp [Op.replacesQuery] at hp

theorem run_inv (cs : CoreSpec σ δ D (Tree σ)) (ht : TreeCore cs) (P : Params σ δ) (ops : List (Op σ D)) :
    ∀ (m : TM σ δ) (d : Bool), TreeWf m.core → LGok m → (d = false → Pure m) →
      TreeWf (run cs P m ops).core ∧ LGok (run cs P m ops) ∧
        (dirtyAfter cs P m d ops = false → Pure (run cs P m ops)) := by
  induction ops with
  | nil => intro m d h1 h2 h3; exact ⟨h1, h2, by simpa [dirtyAfter, run] using h3⟩
  | cons op r ih =>
    intro m d h1 h2 h3
    have := ih (step cs P m op)
      (if op.clears then false else if op.replacesQuery then d || decide (m.core.size ≠ 0) else d)
      (step_wf cs ht P m op h1) (step_lg cs ht P m op h1 h2)
      (by
        intro hd
        by_cases hc : op.clears = true
        · exact step_pure cs ht P m op h1 (Or.inr (Or.inl hc)) (fun _ => Or.inr hc)
        · simp only [hc, Bool.false_eq_true, if_false] at hd
          by_cases hq : op.replacesQuery = true
          · simp only [hq, if_true, Bool.or_eq_false_iff, decide_eq_false_iff_not, ne_eq, Decidable.not_not] at hd
            exact step_pure cs ht P m op h1 (Or.inr (Or.inr ⟨hq, hd.2⟩)) (fun _ => Or.inl hd.2)
          · simp only [hq, Bool.false_eq_true, if_false] at hd
            exact step_pure cs ht P m op h1 (Or.inl (h3 hd)) (fun h => absurd h hq))
    simpa [run, dirtyAfter] using this

theorem init_inv (cs : CoreSpec σ δ D (Tree σ)) (ht : TreeCore cs) :
    TreeWf (M.init cs : TM σ δ).core ∧ LGok (M.init cs : TM σ δ) ∧ Pure (M.init cs : TM σ δ) := by
  refine ⟨?_, ?_, pure_of_init cs ht _ rfl⟩
  · simp only [M.init, ht.init_eq]; exact wf_empty
  · intro i hi; simp [M.init] at hi

end TG

/-! ## the three tree cores -/

theorem chain_wf : ∀ (zs : List (Nat × σ)) (t : Tree σ) (p : Nat), p < t.size → TreeWf t → TreeWf (chain t p zs) := by
  intro zs
  induction zs with
  | nil => intro t p _ h; exact h
  | cons z r ih =>
    intro t p hp h
    obtain ⟨id, st⟩ := z
    simp only [chain]
    exact ih _ _ (by simp) (wf_push_child t st p id hp h)

theorem chain_roots (S : σ → Prop) : ∀ (zs : List (Nat × σ)) (t : Tree σ) (p : Nat), RootsIn t S → RootsIn (chain t p zs) S := by
  intro zs
  induction zs with
  | nil => intro t p h; exact h
  | cons z r ih =>
    intro t p h
    obtain ⟨id, st⟩ := z
    simp only [chain]
    exact ih _ _ (roots_push_child t st p id S h)

theorem chain_prefix : ∀ (zs : List (Nat × σ)) (t : Tree σ) (p : Nat), t.toList <+: (chain t p zs).toList := by
  intro zs
  induction zs with
  | nil => intro t p; exact List.prefix_refl _
  | cons z r ih =>
    intro t p
    obtain ⟨id, st⟩ := z
    simp only [chain]
    refine List.IsPrefix.trans ?_ (ih _ _)
    rw [Array.toList_push]
    exact List.prefix_append _ _

theorem adopt_wf : ∀ (zs : List (Nat × σ × Bool × δ)) (t : Tree σ) (p : Nat), p < t.size → TreeWf t →
    TreeWf (adopt t p zs).1 := by
  intro zs
  induction zs with
  | nil => intro t p _ h; simpa [adopt] using h
  | cons z r ih =>
    intro t p hp h
    obtain ⟨id, st, sat, dist⟩ := z
    cases sat with
    | true => simp only [adopt, if_true]; exact wf_push_child t st p id hp h
    | false =>
      simp only [adopt, Bool.false_eq_true, if_false]
      exact ih _ _ (by simp) (wf_push_child t st p id hp h)

theorem adopt_roots (S : σ → Prop) : ∀ (zs : List (Nat × σ × Bool × δ)) (t : Tree σ) (p : Nat), RootsIn t S →
    RootsIn (adopt t p zs).1 S := by
  intro zs
  induction zs with
  | nil => intro t p h; simpa [adopt] using h
  | cons z r ih =>
    intro t p h
    obtain ⟨id, st, sat, dist⟩ := z
    cases sat with
    | true => simp only [adopt, if_true]; exact roots_push_child t st p id S h
    | false =>
      simp only [adopt, Bool.false_eq_true, if_false]
      exact ih _ _ (roots_push_child t st p id S h)

theorem adopt_prefix : ∀ (zs : List (Nat × σ × Bool × δ)) (t : Tree σ) (p : Nat), t.toList <+: (adopt t p zs).1.toList := by
  intro zs
  induction zs with
  | nil => intro t p; simp [adopt]
  | cons z r ih =>
    intro t p
    obtain ⟨id, st, sat, dist⟩ := z
    cases sat with
    | true =>
      simp only [adopt, if_true]
      rw [Array.toList_push]
      exact List.prefix_append _ _
    | false =>
      simp only [adopt, Bool.false_eq_true, if_false]
      refine List.IsPrefix.trans ?_ (ih _ _)
      rw [Array.toList_push]
      exact List.prefix_append _ _

theorem rrt_treeCore : TreeCore (rrtCore : CoreSpec σ δ (Draw σ δ) (Tree σ)) where
  lawful := rrt_lawful
  size_eq := fun _ => rfl
  init_eq := rfl
  addRoot_eq := fun _ _ _ => rfl
  pathTo_eq := fun _ _ => rfl
  iterate_wf := by
    intro t i d h
    by_cases hv : (d.valid && decide (d.near < t.size)) = true
    · have hn : d.near < t.size := by
        simp only [Bool.and_eq_true, decide_eq_true_eq] at hv; exact hv.2
      simp only [rrtCore, hv, if_true]
      exact wf_push_child t d.st d.near i hn h
    · simp only [rrtCore, hv, if_false, Bool.false_eq_true]
      exact h
  iterate_roots := by
    intro S t i d h
    by_cases hv : (d.valid && decide (d.near < t.size)) = true
    · simp only [rrtCore, hv, if_true]
      exact roots_push_child t d.st d.near i S h
    · simp only [rrtCore, hv, if_false, Bool.false_eq_true]
      exact h
  iterate_prefix := by
    intro t i d
    by_cases hv : (d.valid && decide (d.near < t.size)) = true
    · simp only [rrtCore, hv, if_true]
      rw [Array.toList_push]
      exact List.prefix_append _ _
    · simp only [rrtCore, hv, if_false, Bool.false_eq_true]
      exact List.prefix_refl _

theorem crrt_treeCore : TreeCore (crrtCore : CoreSpec σ δ (CDraw σ δ) (Tree σ)) where
  lawful := crrt_lawful
  size_eq := fun _ => rfl
  init_eq := rfl
  addRoot_eq := fun _ _ _ => rfl
  pathTo_eq := fun _ _ => rfl
  iterate_wf := by
    intro t i d h
    simp only [crrtCore]
    split
    · rename_i hn
      have hn' : d.near < t.size := by simpa using hn
      split
      · exact adopt_wf _ t d.near hn' h
      · exact h
    · exact h
  iterate_roots := by
    intro S t i d h
    simp only [crrtCore]
    split
    · split
      · exact adopt_roots S _ t d.near h
      · exact h
    · exact h
  iterate_prefix := by
    intro t i d
    simp only [crrtCore]
    split
    · split
      · exact adopt_prefix _ t d.near
      · exact List.prefix_refl _
    · exact List.prefix_refl _

theorem rrti_treeCore (G : Geom σ) : TreeCore (rrtiCore G : CoreSpec σ δ (Draw σ δ) (Tree σ)) where
  lawful := rrti_lawful G
  size_eq := fun _ => rfl
  init_eq := rfl
  addRoot_eq := fun _ _ _ => rfl
  pathTo_eq := fun _ _ => rfl
  iterate_wf := by
    intro t i d h
    simp only [rrtiCore]
    split
    · rename_i hn
      split
      · exact chain_wf _ t d.near hn h
      · exact h
    · exact h
  iterate_roots := by
    intro S t i d h
    simp only [rrtiCore]
    split
    · split
      · exact chain_roots S _ t d.near h
      · exact h
    · exact h
  iterate_prefix := by
    intro t i d
    simp only [rrtiCore]
    split
    · split
      · exact chain_prefix _ t d.near
      · exact List.prefix_refl _
    · exact List.prefix_refl _

end OmplModel.PlannerProto
