import OmplModel.Model.Soln
import Mathlib.Algebra.Order.Monoid.Defs
import Mathlib.Order.Defs.LinearOrder
/-! Helper lemmas for C04: `Soln.lt` is a strict weak order on homogeneous records, the insertion
sort yields a sorted permutation, the cost loop is a fold, path length dominates the straight line. -/
namespace OmplModel.Soln

variable {α : Type}

/-- strict weak order, as asymmetry + negative transitivity of a `Bool`-valued relation. -/
structure IsSWO {β : Type} (r : β → β → Bool) : Prop where
  asymm : ∀ a b, r a b = true → r b a = false
  negtrans : ∀ a b c, r a c = true → r a b = true ∨ r b c = true

theorem IsSWO.irrefl {β : Type} {r : β → β → Bool} (h : IsSWO r) (a : β) : r a a = false := by
  cases hr : r a a with
  | false => rfl
  | true => have := h.asymm a a hr; simp_all

theorem IsSWO.trans {β : Type} {r : β → β → Bool} (h : IsSWO r) {a b c : β}
    (hab : r a b = true) (hbc : r b c = true) : r a c = true := by
  rcases h.negtrans a c b hab with h1 | h1
  · exact h1
  · have := h.asymm b c hbc; simp_all

/-- incomparability is transitive. -/
theorem IsSWO.incomp_trans {β : Type} {r : β → β → Bool} (h : IsSWO r) {a b c : β}
    (hab : r a b = false) (hbc : r b c = false) : r a c = false := by
  cases hac : r a c with
  | false => rfl
  | true => rcases h.negtrans a b c hac with h1 | h1 <;> simp_all

/-- a linear order gives the two comparisons used at `double` (NaN-free). -/
theorem isSWO_of_linearOrder [LinearOrder α] : IsSWO (fun a b : α => decide (a < b)) where
  asymm a b h := by
    simp only [decide_eq_true_eq] at h
    simp only [decide_eq_false_iff_not, not_lt]
    exact le_of_lt h
  negtrans a b c h := by
    simp only [decide_eq_true_eq] at h ⊢
    rcases lt_or_ge a b with h1 | h1
    · exact Or.inl h1
    · exact Or.inr (lt_of_le_of_lt h1 h)

theorem isSWO_flip {β : Type} {r : β → β → Bool} (h : IsSWO r) : IsSWO (fun a b => r b a) where
  asymm a b hab := h.asymm b a hab
  negtrans a b c hac := by
    rcases h.negtrans c b a hac with h1 | h1
    · exact Or.inr h1
    · exact Or.inl h1

/-! ### `Soln.lt` on homogeneous records -/

theorem lt_asymm {o : Cmp α} (hl : IsSWO o.lt) (hb : IsSWO o.better) (a b : Soln α)
    (hh : a.hasOpt = b.hasOpt) (hab : Soln.lt o a b = true) : Soln.lt o b a = false := by
  unfold Soln.lt at hab ⊢
  rcases a with ⟨ai, aa, ad, ao, ah, ac, al⟩
  rcases b with ⟨bi, ba, bd, bo, bh, bc, bl⟩
  simp only at hh
  subst hh
  cases aa <;> cases ba <;> cases ao <;> cases bo <;> cases ah <;>
    simp_all <;> first | exact hl.asymm _ _ hab | exact hb.asymm _ _ hab

theorem lt_negtrans {o : Cmp α} (hl : IsSWO o.lt) (hb : IsSWO o.better) (a b c : Soln α)
    (h1 : a.hasOpt = b.hasOpt) (hac : Soln.lt o a c = true) :
    Soln.lt o a b = true ∨ Soln.lt o b c = true := by
  unfold Soln.lt at hac ⊢
  rcases a with ⟨ai, aa, ad, ao, ah, ac, al⟩
  rcases b with ⟨bi, ba, bd, bo, bh, bc, bl⟩
  rcases c with ⟨ci, ca, cd, co, ch, cc, cl⟩
  simp only at h1
  subst h1
  cases aa <;> cases ba <;> cases ca <;> cases ao <;> cases bo <;> cases co <;> cases ah <;>
    simp_all <;> first | exact hl.negtrans _ _ _ hac | exact hb.negtrans _ _ _ hac

/-- all records of a list carry an objective (`h = true`) or none does (`h = false`). -/
def Homog (h : Bool) (l : List (Soln α)) : Prop := ∀ x ∈ l, x.hasOpt = h

/-- no inversion: no later element ranks strictly before an earlier one. -/
def Sorted (o : Cmp α) (l : List (Soln α)) : Prop := l.Pairwise (fun a b => Soln.lt o b a = false)

theorem lt_irrefl {o : Cmp α} (hl : IsSWO o.lt) (hb : IsSWO o.better) (a : Soln α) :
    Soln.lt o a a = false := by
  cases h : Soln.lt o a a with
  | false => rfl
  | true => have := lt_asymm hl hb a a rfl h; simp_all

theorem insertSorted_perm (o : Cmp α) (x : Soln α) (l : List (Soln α)) :
    (insertSorted o x l).Perm (x :: l) := by
  induction l with
  | nil => simp [insertSorted]
  | cons y ys ih =>
    unfold insertSorted
    split
    · exact List.Perm.refl _
    · exact (List.Perm.cons y ih).trans (List.Perm.swap x y ys)

theorem insertSorted_sorted {o : Cmp α} (hl : IsSWO o.lt) (hb : IsSWO o.better) {h : Bool}
    (x : Soln α) (hx : x.hasOpt = h) (l : List (Soln α)) (hh : Homog h l) (hs : Sorted o l) :
    Sorted o (insertSorted o x l) := by
  induction l with
  | nil => simp [insertSorted, Sorted]
  | cons y ys ih =>
    have hy : y.hasOpt = h := hh y (by simp)
    have hys : Homog h ys := fun z hz => hh z (by simp [hz])
    have hs' : (∀ z ∈ ys, Soln.lt o z y = false) ∧ Sorted o ys := by
      simpa [Sorted, List.pairwise_cons] using hs
    unfold insertSorted
    split
    next hxy =>
      -- x :: y :: ys
      refine List.pairwise_cons.mpr ⟨?_, hs⟩
      intro z hz
      rcases List.mem_cons.mp hz with rfl | hz
      · exact lt_asymm hl hb x z (hx.trans hy.symm) hxy
      · cases hzx : Soln.lt o z x with
        | false => rfl
        | true =>
          have hzh : z.hasOpt = h := hys z hz
          rcases lt_negtrans hl hb z y x (hzh.trans hy.symm) hzx with h1 | h1
          · have := hs'.1 z hz; simp_all
          · have := lt_asymm hl hb x y (hx.trans hy.symm) hxy; simp_all
    next hxy =>
      -- y :: insertSorted x ys
      refine List.pairwise_cons.mpr ⟨?_, ih hys hs'.2⟩
      intro z hz
      have hz' : z ∈ x :: ys := (insertSorted_perm o x ys).mem_iff.mp hz
      rcases List.mem_cons.mp hz' with rfl | hz'
      · simpa using hxy
      · exact hs'.1 z hz'

theorem insertSorted_homog {o : Cmp α} {h : Bool} (x : Soln α) (hx : x.hasOpt = h)
    (l : List (Soln α)) (hh : Homog h l) : Homog h (insertSorted o x l) := by
  intro z hz
  have hz' : z ∈ x :: l := (insertSorted_perm o x l).mem_iff.mp hz
  rcases List.mem_cons.mp hz' with rfl | hz'
  · exact hx
  · exact hh z hz'

theorem foldl_insert_perm (o : Cmp α) (l acc : List (Soln α)) :
    (l.foldl (fun acc x => insertSorted o x acc) acc).Perm (acc ++ l) := by
  induction l generalizing acc with
  | nil => simp
  | cons x xs ih =>
    simp only [List.foldl_cons]
    refine (ih _).trans ?_
    have h1 : (insertSorted o x acc ++ xs).Perm ((x :: acc) ++ xs) :=
      List.Perm.append_right xs (insertSorted_perm o x acc)
    refine h1.trans ?_
    simpa using (List.perm_middle (a := x) (l₁ := acc) (l₂ := xs)).symm

theorem foldl_insert_sorted {o : Cmp α} (hl : IsSWO o.lt) (hb : IsSWO o.better) {h : Bool}
    (l acc : List (Soln α)) (hhl : Homog h l) (hha : Homog h acc) (hs : Sorted o acc) :
    Sorted o (l.foldl (fun acc x => insertSorted o x acc) acc) := by
  induction l generalizing acc with
  | nil => simpa using hs
  | cons x xs ih =>
    simp only [List.foldl_cons]
    have hx : x.hasOpt = h := hhl x (by simp)
    exact ih _ (fun z hz => hhl z (by simp [hz])) (insertSorted_homog x hx acc hha)
      (insertSorted_sorted hl hb x hx acc hha hs)

theorem sort_perm (o : Cmp α) (l : List (Soln α)) : (sort o l).Perm l := by
  simpa [sort] using foldl_insert_perm o l []

theorem sort_sorted {o : Cmp α} (hl : IsSWO o.lt) (hb : IsSWO o.better) {h : Bool}
    (l : List (Soln α)) (hh : Homog h l) : Sorted o (sort o l) := by
  unfold sort
  exact foldl_insert_sorted hl hb l [] hh (fun _ hz => by simp at hz) (by simp [Sorted])

/-- records stamped with their insertion index, starting at `k`. -/
def stamp (k : Nat) : List (Soln α) → List (Soln α)
  | [] => []
  | x :: xs => { x with idx := k } :: stamp (k + 1) xs

theorem stamp_homog {h : Bool} (k : Nat) (l : List (Soln α)) (hh : Homog h l) : Homog h (stamp k l) := by
  induction l generalizing k with
  | nil => intro z hz; simp [stamp] at hz
  | cons x xs ih =>
    intro z hz
    simp only [stamp, List.mem_cons] at hz
    rcases hz with rfl | hz
    · exact hh x (by simp)
    · exact ih (k + 1) (fun w hw => hh w (by simp [hw])) z hz

theorem add_perm (o : Cmp α) (s : SolnSet α) (x : Soln α) :
    (SolnSet.add o s x).Perm (s ++ [{ x with idx := s.length }]) := sort_perm o _

theorem add_length (o : Cmp α) (s : SolnSet α) (x : Soln α) :
    (SolnSet.add o s x).length = s.length + 1 := by
  simpa using (add_perm o s x).length_eq

theorem addAll_perm (o : Cmp α) (s : SolnSet α) (xs : List (Soln α)) :
    (SolnSet.addAll o s xs).Perm (s ++ stamp s.length xs) := by
  induction xs generalizing s with
  | nil => simp [SolnSet.addAll, stamp]
  | cons x xs ih =>
    have h1 := ih (SolnSet.add o s x)
    rw [add_length] at h1
    have h2 : (SolnSet.add o s x ++ stamp (s.length + 1) xs).Perm
        ((s ++ [{ x with idx := s.length }]) ++ stamp (s.length + 1) xs) :=
      List.Perm.append_right _ (add_perm o s x)
    simpa [SolnSet.addAll, stamp] using h1.trans h2

theorem add_homog {o : Cmp α} {h : Bool} (s : SolnSet α) (x : Soln α) (hs : Homog h s)
    (hx : x.hasOpt = h) : Homog h (SolnSet.add o s x) := by
  intro z hz
  have hz' := (add_perm o s x).mem_iff.mp hz
  rcases List.mem_append.mp hz' with hz' | hz'
  · exact hs z hz'
  · simp only [List.mem_singleton] at hz'
    subst hz'
    exact hx

theorem add_sorted {o : Cmp α} (hl : IsSWO o.lt) (hb : IsSWO o.better) {h : Bool}
    (s : SolnSet α) (x : Soln α) (hs : Homog h s) (hx : x.hasOpt = h) :
    Sorted o (SolnSet.add o s x) := by
  unfold SolnSet.add
  refine sort_sorted (h := h) hl hb _ ?_
  intro z hz
  rcases List.mem_append.mp hz with hz | hz
  · exact hs z hz
  · simp only [List.mem_singleton] at hz
    subst hz
    exact hx

theorem addAll_homog {o : Cmp α} {h : Bool} (s : SolnSet α) (xs : List (Soln α)) (hs : Homog h s)
    (hx : Homog h xs) : Homog h (SolnSet.addAll o s xs) := by
  induction xs generalizing s with
  | nil => simpa [SolnSet.addAll] using hs
  | cons x xs ih =>
    simp only [SolnSet.addAll, List.foldl_cons]
    exact ih _ (add_homog s x hs (hx x (by simp))) (fun z hz => hx z (by simp [hz]))

theorem addAll_sorted {o : Cmp α} (hl : IsSWO o.lt) (hb : IsSWO o.better) {h : Bool}
    (s : SolnSet α) (xs : List (Soln α)) (hs : Homog h s) (hss : Sorted o s) (hx : Homog h xs) :
    Sorted o (SolnSet.addAll o s xs) := by
  induction xs generalizing s with
  | nil => simpa [SolnSet.addAll] using hss
  | cons x xs ih =>
    simp only [SolnSet.addAll, List.foldl_cons]
    have hxh := hx x (by simp)
    exact ih _ (add_homog s x hs hxh) (add_sorted hl hb s x hs hxh) (fun z hz => hx z (by simp [hz]))

/-- the head of a sorted list is not ranked after any element. -/
theorem head_best {o : Cmp α} (hl : IsSWO o.lt) (hb : IsSWO o.better) {t : Soln α}
    {l : List (Soln α)} (hs : Sorted o (t :: l)) : ∀ x ∈ t :: l, Soln.lt o x t = false := by
  intro x hx
  rcases List.mem_cons.mp hx with rfl | hx
  · exact lt_irrefl hl hb _
  · exact (List.pairwise_cons.mp hs).1 x hx

/-! ### cost fold and path length -/

section Fold
variable {σ : Type}

theorem costLoop_eq_foldl (A : CostAlg α) (mc : σ → σ → α) (c : α) (l : List σ) :
    costLoop A mc c l = (l.zip l.tail).foldl (fun c p => A.combine c (mc p.1 p.2)) c := by
  induction l generalizing c with
  | nil => simp [costLoop]
  | cons a l ih =>
    cases l with
    | nil => simp [costLoop]
    | cons b rest =>
      rw [costLoop, ih]
      simp

/-- the last motion is part of the cost. -/
theorem costLoop_snoc (A : CostAlg α) (mc : σ → σ → α) (c : α) (l : List σ) (a b : σ) :
    costLoop A mc c (l ++ [a, b]) = A.combine (costLoop A mc c (l ++ [a])) (mc a b) := by
  induction l generalizing c with
  | nil => simp [costLoop]
  | cons x l ih =>
    cases l with
    | nil => simp [costLoop]
    | cons y rest =>
      have := ih (A.combine c (mc x y))
      simpa [costLoop] using this

theorem lengthLoop_eq_costLoop (zero : α) (add : α → α → α) (better : α → α → Bool) (d : σ → σ → α)
    (c : α) (l : List σ) : lengthLoop add d c l = costLoop ⟨zero, add, better⟩ d c l := by
  induction l generalizing c with
  | nil => simp [lengthLoop, costLoop]
  | cons a l ih =>
    cases l with
    | nil => simp [lengthLoop, costLoop]
    | cons b rest => simp only [lengthLoop, costLoop]; exact ih _

theorem lengthLoop_ge [AddCommMonoid α] [PartialOrder α] [IsOrderedAddMonoid α] (d : σ → σ → α)
    (hself : ∀ a, d a a ≤ 0) (tri : ∀ a b c, d a c ≤ d a b + d b c) (c : α) (a : σ) (l : List σ) :
    c + d a ((a :: l).getLast (by simp)) ≤ lengthLoop (· + ·) d c (a :: l) := by
  induction l generalizing c a with
  | nil =>
    simp only [lengthLoop, List.getLast_singleton]
    calc c + d a a ≤ c + 0 := add_le_add (le_refl c) (hself a)
      _ = c := add_zero c
  | cons b l ih =>
    simp only [lengthLoop]
    have h1 := ih (c + d a b) b
    have hl : (a :: b :: l).getLast (by simp) = (b :: l).getLast (by simp) := by
      simp [List.getLast_cons]
    rw [hl]
    calc c + d a ((b :: l).getLast (by simp))
        ≤ c + (d a b + d b ((b :: l).getLast (by simp))) := add_le_add (le_refl c) (tri _ _ _)
      _ = c + d a b + d b ((b :: l).getLast (by simp)) := (add_assoc _ _ _).symm
      _ ≤ _ := h1

end Fold

end OmplModel.Soln
