import OmplModel.Proofs.SpaceInterpReal
/-!
C07, leaves other than SO(2)/SO(3) over ℝ: R^n (`rvInterp`, bounds predicate `rvInB` with its ±eps
slack, `sqSum`), time, discrete.
-/
open scoped OmplModel.SpaceInterp.RealNum
attribute [-instance] OmplModel.Num.instOfNat

namespace OmplModel.SpaceInterp
open OmplModel Real RealNum

/-! ### lerp -/

theorem lerp_eq (a b t : ℝ) : lerp a b t = a + (b - a) * t := rfl

theorem lerp_zero (a b : ℝ) : lerp a b 0 = a := by rw [lerp_eq]; ring
theorem lerp_one (a b : ℝ) : lerp a b 1 = b := by rw [lerp_eq]; ring
theorem lerp_reparam (a b s u : ℝ) : lerp (lerp a b s) b u = lerp a b (s + (1 - s) * u) := by
  simp only [lerp_eq]; ring

/-- `lerp` is a convex combination: upper bounds carry over -/
theorem lerp_le {a b t h : ℝ} (ha : a ≤ h) (hb : b ≤ h) (ht0 : 0 ≤ t) (ht1 : t ≤ 1) :
    lerp a b t ≤ h := by
  rw [lerp_eq]
  nlinarith [mul_nonneg (sub_nonneg.mpr ht1) (sub_nonneg.mpr ha), mul_nonneg ht0 (sub_nonneg.mpr hb)]

theorem le_lerp {a b t l : ℝ} (ha : l ≤ a) (hb : l ≤ b) (ht0 : 0 ≤ t) (ht1 : t ≤ 1) :
    l ≤ lerp a b t := by
  rw [lerp_eq]
  nlinarith [mul_nonneg (sub_nonneg.mpr ht1) (sub_nonneg.mpr ha), mul_nonneg ht0 (sub_nonneg.mpr hb)]

theorem abs_sub_lerp (a b : ℝ) {t : ℝ} (ht0 : 0 ≤ t) : |a - lerp a b t| = t * |a - b| := by
  have e : a - lerp a b t = t * (a - b) := by rw [lerp_eq]; ring
  rw [e, abs_mul, abs_of_nonneg ht0]

/-! ### R^n -/

theorem rvInterp_zero (xs ys : List ℝ) (h : ys.length = xs.length) : rvInterp xs ys 0 = xs := by
  induction xs generalizing ys with
  | nil => cases ys <;> simp [rvInterp]
  | cons x xs ih =>
    cases ys with
    | nil => simp at h
    | cons y ys => simp only [rvInterp, lerp_zero, ih ys (by simpa using h)]

theorem rvInterp_one (xs ys : List ℝ) (h : ys.length = xs.length) : rvInterp xs ys 1 = ys := by
  induction xs generalizing ys with
  | nil => cases ys <;> simp_all [rvInterp]
  | cons x xs ih =>
    cases ys with
    | nil => simp at h
    | cons y ys => simp only [rvInterp, lerp_one, ih ys (by simpa using h)]

theorem rvInterp_reparam (xs ys : List ℝ) (s u : ℝ) :
    rvInterp (rvInterp xs ys s) ys u = rvInterp xs ys (s + (1 - s) * u) := by
  induction xs generalizing ys with
  | nil => cases ys <;> simp [rvInterp]
  | cons x xs ih =>
    cases ys with
    | nil => simp [rvInterp]
    | cons y ys => simp only [rvInterp, lerp_reparam, ih ys]

/-- one coordinate of `rvInB`, as inequalities -/
theorem rvInB_cons (x : ℝ) (xs : List ℝ) (l : ℝ) (lo : List ℝ) (h : ℝ) (hi : List ℝ) :
    rvInB (x :: xs) (l :: lo) (h :: hi) = true ↔
      (x - dblEps ≤ h ∧ l ≤ x + dblEps) ∧ rvInB xs lo hi = true := by
  simp only [rvInB, Bool.and_eq_true, Bool.not_eq_true', Bool.or_eq_false_iff,
    decide_eq_false_iff_not, not_lt]

/-- convexity of the as-coded bounds predicate (any `lo`, `hi`; the slack is the same on both sides) -/
theorem rvInB_interp {xs ys lo hi : List ℝ} {t : ℝ} (hx : rvInB xs lo hi = true)
    (hy : rvInB ys lo hi = true) (ht0 : 0 ≤ t) (ht1 : t ≤ 1) :
    rvInB (rvInterp xs ys t) lo hi = true := by
  induction xs generalizing ys lo hi with
  | nil => simp [rvInterp, rvInB]
  | cons x xs ih =>
    cases ys with
    | nil => simp [rvInterp, rvInB]
    | cons y ys =>
      cases lo with
      | nil => simp [rvInB] at hx
      | cons l lo =>
        cases hi with
        | nil => simp [rvInB] at hx
        | cons h hi =>
          rw [rvInB_cons] at hx hy
          simp only [rvInterp]
          rw [rvInB_cons]
          refine ⟨⟨?_, ?_⟩, ih hx.2 hy.2⟩
          · have := lerp_le (a := x) (b := y) (h := h + dblEps) (by linarith [hx.1.1]) (by linarith [hy.1.1]) ht0 ht1
            linarith
          · have := le_lerp (a := x) (b := y) (l := l - dblEps) (by linarith [hx.1.2]) (by linarith [hy.1.2]) ht0 ht1
            linarith

theorem sqSum_interp (xs ys : List ℝ) (t : ℝ) :
    sqSum xs (rvInterp xs ys t) = t * t * sqSum xs ys := by
  induction xs generalizing ys with
  | nil => cases ys <;> simp [sqSum]
  | cons x xs ih =>
    cases ys with
    | nil => simp [rvInterp, sqSum]
    | cons y ys =>
      simp only [rvInterp, sqSum, ih ys, lerp_eq]; ring

theorem sqrt_sqSum_interp (xs ys : List ℝ) {t : ℝ} (ht0 : 0 ≤ t) :
    Real.sqrt (sqSum xs (rvInterp xs ys t)) = t * Real.sqrt (sqSum xs ys) := by
  rw [sqSum_interp, Real.sqrt_mul (mul_self_nonneg t), Real.sqrt_mul_self ht0]

/-! ### time -/

theorem timeInB_interp {bd : Bool} {lo hi a b t : ℝ}
    (ha : inBounds (.time bd lo hi) (.time a) = true) (hb : inBounds (.time bd lo hi) (.time b) = true)
    (ht0 : 0 ≤ t) (ht1 : t ≤ 1) : inBounds (.time bd lo hi) (.time (lerp a b t)) = true := by
  cases bd with
  | false => simp [inBounds]
  | true =>
    simp only [inBounds, Bool.not_true, Bool.false_or, Bool.and_eq_true, decide_eq_true_eq] at *
    exact ⟨le_lerp ha.1 hb.1 ht0 ht1, lerp_le ha.2 hb.2 ht0 ht1⟩

/-! ### discrete -/

theorem discInterp_eq (a b : Int) (t : ℝ) :
    discInterp a b t = ⌊(a : ℝ) + ((b - a : Int) : ℝ) * t + 1 / 2⌋ := by
  simp only [discInterp, toInt_eq, floor_eq, ofInt_eq, half_eq]
  split_ifs <;> simp

theorem discInterp_zero (a b : Int) : discInterp a b (0 : ℝ) = a := by
  rw [discInterp_eq, Int.floor_eq_iff]; constructor <;> norm_num

theorem discInterp_one (a b : Int) : discInterp a b (1 : ℝ) = b := by
  rw [discInterp_eq, Int.floor_eq_iff]; push_cast; constructor <;> linarith

theorem discInterp_inB {a b lo hi : Int} {t : ℝ} (ha1 : lo ≤ a) (ha2 : a ≤ hi) (hb1 : lo ≤ b)
    (hb2 : b ≤ hi) (ht0 : 0 ≤ t) (ht1 : t ≤ 1) :
    lo ≤ discInterp a b t ∧ discInterp a b t ≤ hi := by
  rw [discInterp_eq]
  have ha1' : (lo : ℝ) ≤ a := by exact_mod_cast ha1
  have ha2' : (a : ℝ) ≤ hi := by exact_mod_cast ha2
  have hb1' : (lo : ℝ) ≤ b := by exact_mod_cast hb1
  have hb2' : (b : ℝ) ≤ hi := by exact_mod_cast hb2
  have e : (a : ℝ) + ((b - a : Int) : ℝ) * t = lerp (a : ℝ) (b : ℝ) t := by
    rw [lerp_eq]; push_cast; ring
  rw [e]
  have l1 := le_lerp ha1' hb1' ht0 ht1
  have l2 := lerp_le ha2' hb2' ht0 ht1
  constructor
  · rw [Int.le_floor]; linarith
  · rw [← Int.lt_add_one_iff, Int.floor_lt]; push_cast; linarith

end OmplModel.SpaceInterp
