import OmplModel.Model.HeapFull
import OmplModel.Proofs.HeapPos
import OmplModel.Proofs.HeapHole
/-! The class as coded (`Model/HeapFull.lean`: hole-moving percolation with every `->position` store, callbacks, all
member functions) computes what the handle-search / swap model of `Model/Heap.lean` computes, and keeps every position
field equal to the element's index.  Core Lean only. -/
namespace OmplModel.Heap
variable {κ : Type}

/-- loop invariant of both percolate loops: every slot except the hole is in sync with the position table, the handles
outside the hole are pairwise distinct and differ from the saved element's handle -/
structure HoleSync (a : Array (Elem κ)) (pos : Array Nat) (tmp : Elem κ) (hole : Nat) : Prop where
  sync : ∀ j, (hj : j < a.size) → j ≠ hole → a[j].h < pos.size ∧ pos.getD a[j].h 0 = j
  dist : ∀ i j, (hi : i < a.size) → (hj : j < a.size) → i ≠ hole → j ≠ hole → a[i].h = a[j].h → i = j
  ntmp : ∀ j, (hj : j < a.size) → j ≠ hole → a[j].h ≠ tmp.h
  tsz : tmp.h < pos.size

theorem holeSync_start (a : Array (Elem κ)) (pos : Array Nat) (p : Nat) (hp : p < a.size)
    (S : PosSync a pos) (D : Hdist a) : HoleSync a pos a[p] p := by
  refine ⟨fun j hj _ => S j hj, fun i j hi hj _ _ h => D i j hi hj h, ?_, (S p hp).1⟩
  intro j hj hne he
  exact hne (D j p hj hp he)

/-- writing the saved element into the hole (with its position store) restores full sync -/
theorem holeSync_fill (a : Array (Elem κ)) (pos : Array Nat) (tmp : Elem κ) (hole : Nat) (hh : hole < a.size)
    (I : HoleSync a pos tmp hole) :
    PosSync (a.setIfInBounds hole tmp) (pos.setIfInBounds tmp.h hole) ∧ Hdist (a.setIfInBounds hole tmp) := by
  obtain ⟨s, d, n, t⟩ := I
  have e1 : a.setIfInBounds hole tmp = a.set hole tmp hh := by simp [Array.setIfInBounds, hh]
  rw [e1]
  constructor
  · intro j hj
    simp only [Array.size_set] at hj
    simp only [Array.getElem_set, Array.size_setIfInBounds, getD_setIfInBounds]
    have sj := s j hj
    have nj := n j hj
    grind
  · intro i j hi hj
    simp only [Array.size_set] at hi hj
    simp only [Array.getElem_set]
    have dij := d i j hi hj
    have ni := n i hi
    have nj := n j hj
    grind

/-- one shift `vector_[dst] = vector_[src]; vector_[dst]->position = dst` moves the hole from `dst` to `src` -/
theorem holeSync_shift (a : Array (Elem κ)) (pos : Array Nat) (tmp : Elem κ) (dst src : Nat) (hd : dst < a.size)
    (hs : src < a.size) (hne : src ≠ dst) (I : HoleSync a pos tmp dst) :
    HoleSync (a.set dst a[src] hd) (pos.setIfInBounds a[src].h dst) tmp src := by
  obtain ⟨s, d, n, t⟩ := I
  have ss := s src hs hne
  refine ⟨?_, ?_, ?_, by simpa using t⟩
  · intro j hj hjs
    simp only [Array.size_set] at hj
    simp only [Array.getElem_set, Array.size_setIfInBounds, getD_setIfInBounds]
    have sj := s j hj
    have dj := d j src hj hs
    grind
  · intro i j hi hj his hjs
    simp only [Array.size_set] at hi hj
    simp only [Array.getElem_set]
    have dij := d i j hi hj
    have di := d i src hi hs
    have dj := d src j hs hj
    grind
  · intro j hj hjs
    simp only [Array.size_set] at hj
    simp only [Array.getElem_set]
    have nj := n j hj
    have ns := n src hs hne
    grind

/-! ### percolateUp -/

theorem upLoopF_spec (lt : κ → κ → Bool) (a : Array (Elem κ)) (pos : Array Nat) (tmp : Elem κ) (c : Nat)
    (hc : c < a.size) (I : HoleSync a pos tmp c) :
    HoleSync (upLoopF lt a pos tmp c).1 (upLoopF lt a pos tmp c).2.1 tmp (upLoopF lt a pos tmp c).2.2 ∧
    (upLoopF lt a pos tmp c).2.2 ≤ c ∧ (upLoopF lt a pos tmp c).1.size = a.size ∧
    (upLoopF lt a pos tmp c).2.1.size = pos.size ∧
    ((upLoopF lt a pos tmp c).2.2 = c → (upLoopF lt a pos tmp c).1 = a ∧ (upLoopF lt a pos tmp c).2.1 = pos) ∧
    (upLoopF lt a pos tmp c).1 = (upHoleLoop lt a tmp c).1 ∧ (upLoopF lt a pos tmp c).2.2 = (upHoleLoop lt a tmp c).2 := by
  fun_induction upLoopF lt a pos tmp c with
  | case1 a pos c h hlt ih =>
    have hpar : (c - 1) / 2 < a.size := by omega
    have I' := holeSync_shift a pos tmp c ((c - 1) / 2) h.2 hpar (by omega) I
    obtain ⟨i1, i2, i3, i4, _, i6, i7⟩ := ih (by simp only [Array.size_set]; omega) I'
    conv => enter [2, 2, 2, 2, 2]; unfold upHoleLoop
    simp only [h, and_self, ↓reduceDIte, hlt, ↓reduceIte]
    refine ⟨i1, by omega, by simpa using i3, by simpa using i4, ?_, i6, i7⟩
    intro he; omega
  | case2 a pos c h hlt =>
    conv => enter [2, 2, 2, 2, 2]; unfold upHoleLoop
    simp only [h, and_self, ↓reduceDIte, hlt, Bool.false_eq_true, ↓reduceIte]
    simpa using I
  | case3 a pos c h =>
    conv => enter [2, 2, 2, 2, 2]; unfold upHoleLoop
    simp only [h, ↓reduceDIte]
    simpa using I

theorem percolateUpF_tracks (lt : κ → κ → Bool) (a : Array (Elem κ)) (pos : Array Nat) (i : Nat)
    (S : PosSync a pos) (D : Hdist a) : Tracks a pos (percolateUpF lt a pos i) (siftUp lt a i) := by
  rw [← percolateUp_eq_siftUp]
  unfold percolateUpF percolateUp
  by_cases hi : i < a.size
  · simp only [hi, ↓reduceDIte]
    obtain ⟨i1, i2, i3, i4, i5, i6, i7⟩ := upLoopF_spec lt a pos a[i] i hi (holeSync_start a pos i hi S D)
    by_cases hm : (upLoopF lt a pos a[i] i).2.2 = i
    · obtain ⟨e1, e2⟩ := i5 hm
      have hm' : (upHoleLoop lt a a[i] i).2 = i := by rw [← i7]; exact hm
      simp only [hm, hm', ne_eq, not_true_eq_false, ↓reduceIte]
      refine ⟨by rw [← i6], ?_, ?_, i4⟩
      · rw [e1, e2]; exact S
      · rw [e1]; exact D
    · have hm' : ¬ (upHoleLoop lt a a[i] i).2 = i := by rw [← i7]; exact hm
      simp only [hm, hm', ne_eq, not_false_eq_true, ↓reduceIte]
      have hh : (upLoopF lt a pos a[i] i).2.2 < (upLoopF lt a pos a[i] i).1.size := by omega
      obtain ⟨f1, f2⟩ := holeSync_fill _ _ _ _ hh i1
      refine ⟨by rw [← i6, ← i7], f1, f2, by simpa using i4⟩
  · simp only [hi, ↓reduceDIte]
    exact ⟨rfl, S, D, rfl⟩

/-! ### percolateDown -/

theorem downLoopF_spec (lt : κ → κ → Bool) (a : Array (Elem κ)) (pos : Array Nat) (tmp : Elem κ) (p : Nat)
    (hp : p < a.size) (I : HoleSync a pos tmp p) :
    HoleSync (downLoopF lt a pos tmp p).1 (downLoopF lt a pos tmp p).2.1 tmp (downLoopF lt a pos tmp p).2.2 ∧
    p ≤ (downLoopF lt a pos tmp p).2.2 ∧ (downLoopF lt a pos tmp p).2.2 < a.size ∧
    (downLoopF lt a pos tmp p).1.size = a.size ∧ (downLoopF lt a pos tmp p).2.1.size = pos.size ∧
    ((downLoopF lt a pos tmp p).2.2 = p → (downLoopF lt a pos tmp p).1 = a ∧ (downLoopF lt a pos tmp p).2.1 = pos) ∧
    (downLoopF lt a pos tmp p).1 = (downHoleLoop lt a tmp p).1 ∧ (downLoopF lt a pos tmp p).2.2 = (downHoleLoop lt a tmp p).2 := by
  fun_induction downLoopF lt a pos tmp p with
  | case1 a pos p h hlr hlt ih =>
    have I' := holeSync_shift a pos tmp p (2 * p + 1) (by omega) (by omega) (by omega) I
    obtain ⟨i1, i2, i3, i4, i5, _, i7, i8⟩ := ih (by simp only [Array.size_set]; omega) I'
    conv => enter [2, 2, 2, 2, 2, 2]; unfold downHoleLoop
    simp only [h, ↓reduceDIte, hlr, hlt, ↓reduceIte]
    refine ⟨i1, by omega, by simpa using i3, by simpa using i4, by simpa using i5, ?_, i7, i8⟩
    intro he; omega
  | case2 a pos p h hlr hlt =>
    conv => enter [2, 2, 2, 2, 2, 2]; unfold downHoleLoop
    simp only [h, ↓reduceDIte, hlr, hlt, Bool.false_eq_true, ↓reduceIte]
    simpa using ⟨I, hp⟩
  | case3 a pos p h hlr hlt ih =>
    have I' := holeSync_shift a pos tmp p (2 * p + 2) (by omega) (by omega) (by omega) I
    obtain ⟨i1, i2, i3, i4, i5, _, i7, i8⟩ := ih (by simp only [Array.size_set]; omega) I'
    conv => enter [2, 2, 2, 2, 2, 2]; unfold downHoleLoop
    simp only [h, ↓reduceDIte, hlr, hlt, Bool.false_eq_true, ↓reduceIte]
    refine ⟨i1, by omega, by simpa using i3, by simpa using i4, by simpa using i5, ?_, i7, i8⟩
    intro he; omega
  | case4 a pos p h hlr hlt =>
    conv => enter [2, 2, 2, 2, 2, 2]; unfold downHoleLoop
    simp only [h, ↓reduceDIte, hlr, hlt, Bool.false_eq_true, ↓reduceIte]
    simpa using ⟨I, hp⟩
  | case5 a pos p h =>
    conv => enter [2, 2, 2, 2, 2, 2]; unfold downHoleLoop
    simp only [h, ↓reduceDIte]
    simpa using ⟨I, hp⟩

theorem percolateDownF_tracks (lt : κ → κ → Bool) (a : Array (Elem κ)) (pos : Array Nat) (i : Nat)
    (S : PosSync a pos) (D : Hdist a) : Tracks a pos (percolateDownF lt a pos i) (siftDown lt a i) := by
  rw [← percolateDown_eq_siftDown]
  unfold percolateDownF percolateDown
  by_cases hi : i < a.size
  · simp only [hi, ↓reduceDIte]
    obtain ⟨i1, i2, i3, i4, i5, i6, i7, i8⟩ := downLoopF_spec lt a pos a[i] i hi (holeSync_start a pos i hi S D)
    generalize hr : downLoopF lt a pos a[i] i = r at *
    obtain ⟨ra, rp, rh⟩ := r
    generalize hq : downHoleLoop lt a a[i] i = q at *
    obtain ⟨qa, qh⟩ := q
    simp only at i1 i2 i3 i4 i5 i6 i7 i8
    subst i7 i8
    unfold downFinishF downFinish
    simp only
    by_cases hl : 2 * rh + 2 = ra.size
    · simp only [hl, ↓reduceDIte]
      by_cases hlt : lt (ra[2 * rh + 1]'(by omega)).key a[i].key = true
      · simp only [hlt, ↓reduceIte]
        have hne : ¬ (2 * rh + 1 = i) := by omega
        simp only [hne, ne_eq, not_false_eq_true, ↓reduceIte]
        have e1 : ra.setIfInBounds rh (ra[2 * rh + 1]'(by omega)) = ra.set rh (ra[2 * rh + 1]'(by omega)) (by omega) := by
          simp [Array.setIfInBounds, show rh < ra.size by omega]
        have I' := holeSync_shift ra rp a[i] rh (2 * rh + 1) (by omega) (by omega) (by omega) i1
        rw [e1]
        obtain ⟨f1, f2⟩ := holeSync_fill _ _ _ (2 * rh + 1) (by simp only [Array.size_set]; omega) I'
        exact ⟨rfl, f1, f2, by simp only [Array.size_setIfInBounds]; exact i5⟩
      · simp only [hlt, Bool.false_eq_true, ↓reduceIte]
        by_cases hm : rh = i
        · obtain ⟨e1, e2⟩ := i6 hm
          simp only [hm, ne_eq, not_true_eq_false, ↓reduceIte]
          refine ⟨rfl, ?_, ?_, i5⟩
          · rw [e1, e2]; exact S
          · rw [e1]; exact D
        · simp only [hm, ne_eq, not_false_eq_true, ↓reduceIte]
          obtain ⟨f1, f2⟩ := holeSync_fill _ _ _ rh (by omega) i1
          exact ⟨rfl, f1, f2, by simp only [Array.size_setIfInBounds]; exact i5⟩
    · simp only [hl, ↓reduceDIte]
      by_cases hm : rh = i
      · obtain ⟨e1, e2⟩ := i6 hm
        simp only [hm, ne_eq, not_true_eq_false, ↓reduceIte]
        refine ⟨rfl, ?_, ?_, i5⟩
        · rw [e1, e2]; exact S
        · rw [e1]; exact D
      · simp only [hm, ne_eq, not_false_eq_true, ↓reduceIte]
        obtain ⟨f1, f2⟩ := holeSync_fill _ _ _ rh (by omega) i1
        exact ⟨rfl, f1, f2, by simp only [Array.size_setIfInBounds]; exact i5⟩
  · simp only [hi, ↓reduceDIte]
    exact ⟨rfl, S, D, rfl⟩

/-! ### removePos, build, push -/

theorem removePosF_tracks (lt : κ → κ → Bool) (a : Array (Elem κ)) (pos : Array Nat) (p : Nat)
    (S : PosSync a pos) (D : Hdist a) : Tracks a pos (removePosF lt a pos p) (removePos lt a p) := by
  unfold removePosF removePos
  split
  · rename_i h
    have hl : a.size - 1 < a.size := by omega
    have e : (a.set p (a[a.size - 1]'hl) (by omega)).pop = (a.swap p (a.size - 1) (by omega) hl).pop := by
      apply Array.ext
      · simp
      · intro j h1 h2
        simp only [Array.size_pop, Array.size_set] at h1
        simp only [Array.getElem_pop, Array.getElem_set, Array.getElem_swap]
        grind
    have S1 : PosSync (a.set p (a[a.size - 1]'hl) (by omega)).pop (pos.setIfInBounds (a[a.size - 1]'hl).h p) := by
      intro j hj
      simp only [Array.size_pop, Array.size_set] at hj
      simp only [Array.getElem_pop, Array.getElem_set, Array.size_setIfInBounds, getD_setIfInBounds]
      have sj := S j (by omega)
      have sl := S (a.size - 1) hl
      have dj := D j (a.size - 1) (by omega) hl
      grind
    have D1 : Hdist (a.set p (a[a.size - 1]'hl) (by omega)).pop := by
      intro x y hx hy
      simp only [Array.size_pop, Array.size_set] at hx hy
      simp only [Array.getElem_pop, Array.getElem_set]
      have dxy := D x y (by omega) (by omega)
      have dx := D x (a.size - 1) (by omega) hl
      have dy := D (a.size - 1) y hl (by omega)
      grind
    have u := percolateUpF_tracks lt _ _ p S1 D1
    have d := percolateDownF_tracks lt _ _ p u.sync u.dist
    simp only
    refine ⟨?_, d.sync, d.dist, ?_⟩
    · rw [d.arr, u.arr, e]
    · rw [d.psize, u.psize]; simp
  · obtain ⟨p1, p2⟩ := pop_sync a pos S D
    exact ⟨rfl, p1, p2, rfl⟩

theorem buildLoopF_tracks (lt : κ → κ → Bool) (k : Nat) (a : Array (Elem κ)) (pos : Array Nat)
    (S : PosSync a pos) (D : Hdist a) : Tracks a pos (buildLoopF lt a pos k) (buildLoop lt a k) := by
  induction k generalizing a pos with
  | zero => exact ⟨rfl, S, D, rfl⟩
  | succ k ih =>
    have d := percolateDownF_tracks lt a pos k S D
    have r := ih _ _ d.sync d.dist
    unfold buildLoopF buildLoop
    simp only
    refine ⟨?_, r.sync, r.dist, r.psize.trans d.psize⟩
    rw [r.arr, d.arr]

theorem buildF_tracks (lt : κ → κ → Bool) (a : Array (Elem κ)) (pos : Array Nat)
    (S : PosSync a pos) (D : Hdist a) : Tracks a pos (buildF lt a pos) (build lt a) :=
  buildLoopF_tracks lt _ a pos S D

theorem ensure_size (pos : Array Nat) (n : Nat) : n ≤ (ensure pos n).size ∧ pos.size ≤ (ensure pos n).size := by
  unfold ensure
  split
  · simp only [Array.size_append, Array.size_replicate]; omega
  · omega

theorem ensure_getD (pos : Array Nat) (n x : Nat) : (ensure pos n).getD x 0 = pos.getD x 0 := by
  unfold ensure
  split
  · simp only [Array.getD_eq_getD_getElem?, Array.getElem?_append, Array.getElem?_replicate]
    split
    · rfl
    · rename_i hx
      have : pos[x]? = none := by simp; omega
      rw [this]
      split <;> rfl
  · rfl

/-- `vector_.push_back(newElement(data, size))` for a fresh handle keeps everything in sync -/
theorem pushNew_sync (a : Array (Elem κ)) (pos : Array Nat) (nx : Nat) (k : κ)
    (S : PosSync a pos) (D : Hdist a) (B : ∀ i, (hi : i < a.size) → a[i].h < nx) :
    PosSync (pushNew a pos nx k a.size).1 (pushNew a pos nx k a.size).2 ∧ Hdist (pushNew a pos nx k a.size).1 ∧
      (∀ i, (hi : i < (pushNew a pos nx k a.size).1.size) → (pushNew a pos nx k a.size).1[i].h < nx + 1) := by
  unfold pushNew
  obtain ⟨z1, z2⟩ := ensure_size pos (nx + 1)
  refine ⟨?_, ?_, ?_⟩
  · intro j hj
    simp only [Array.size_push] at hj
    simp only [Array.getElem_push, Array.size_setIfInBounds, getD_setIfInBounds, ensure_getD]
    by_cases hjl : j < a.size
    · have sj := S j hjl
      have bj := B j hjl
      simp only [hjl, ↓reduceDIte]
      refine ⟨by omega, ?_⟩
      have : ¬ (nx = a[j].h ∧ nx < (ensure pos (nx + 1)).size) := by omega
      simp only [this, ↓reduceIte]; exact sj.2
    · simp only [hjl, ↓reduceDIte]
      refine ⟨by omega, ?_⟩
      have : (nx = nx ∧ nx < (ensure pos (nx + 1)).size) := ⟨rfl, by omega⟩
      simp only [this, and_self, ↓reduceIte]; omega
  · intro x y hx hy
    simp only [Array.size_push] at hx hy
    simp only [Array.getElem_push]
    have dxy := D x y
    have bx := B x
    have by' := B y
    grind
  · intro i hi
    simp only [Array.size_push] at hi
    simp only [Array.getElem_push]
    have bi := B i
    grind

/-! ### the two state machines in step -/

structure FRel (F : FHeap κ) (H : Heap κ) : Prop where
  arr : F.arr = H.arr
  next : F.next = H.next
  sync : PosSync F.arr F.pos
  dist : Hdist F.arr

def Live (a : Array (Elem κ)) (h : Nat) : Prop := ∃ i, ∃ hi : i < a.size, a[i].h = h

/-- Bool form of `Live` (for concrete examples) -/
def liveB (a : Array (Elem κ)) (h : Nat) : Bool := a.toList.any (fun e => e.h == h)

theorem live_of_liveB (a : Array (Elem κ)) (h : Nat) (H : liveB a h = true) : Live a h := by
  unfold liveB at H
  obtain ⟨e, he, hh⟩ := List.any_eq_true.mp H
  obtain ⟨i, hi, rfl⟩ := List.getElem_of_mem he
  exact ⟨i, by simpa using hi, by simpa using hh⟩

theorem frel_bound {F : FHeap κ} {H : Heap κ} (R : FRel F H) (W : Wf H) : ∀ i, (hi : i < F.arr.size) → F.arr[i].h < F.next := by
  intro i hi
  have := W.bound (H.arr[i]'(by rw [← R.arr]; exact hi)) (by simp)
  simp only [R.arr, R.next]; exact this

theorem live_pos {F : FHeap κ} {H : Heap κ} (R : FRel F H) (h : Nat) (L : Live H.arr h) :
    ∃ i, ∃ hi : i < F.arr.size, F.arr[i].h = h ∧ F.pos.getD h 0 = i ∧ findIdx H.arr h = some i := by
  obtain ⟨i, hi, hh⟩ := L
  have hi' : i < F.arr.size := by rw [R.arr]; exact hi
  have e : F.arr[i].h = h := by simp only [R.arr]; exact hh
  refine ⟨i, hi', e, ?_, ?_⟩
  · have := (R.sync i hi').2
    rw [e] at this; exact this
  · have := findIdx_of_sync H.arr (R.arr ▸ R.dist) i hi
    rw [hh] at this; exact this

theorem insert_frel (lt : κ → κ → Bool) (F : FHeap κ) (H : Heap κ) (R : FRel F H) (W : Wf H) (k : κ) :
    FRel (F.insert lt k) (H.insert lt k) := by
  obtain ⟨p1, p2, _⟩ := pushNew_sync F.arr F.pos F.next k R.sync R.dist (frel_bound R W)
  have u := percolateUpF_tracks lt _ _ F.arr.size p1 p2
  unfold FHeap.insert Heap.insert
  refine ⟨?_, by simp [R.next], u.sync, u.dist⟩
  show (percolateUpF lt _ _ _).1 = _
  rw [u.arr]
  simp only [pushNew, R.arr, R.next, Array.size_push, Nat.add_sub_cancel]

theorem insertVecLoop_frel (lt : κ → κ → Bool) (n : Nat) (ks : List κ) (i : Nat) (F : FHeap κ) (H : Heap κ)
    (R : FRel F H) (W : Wf H) (hn : F.arr.size = i + n) :
    FRel (insertVecLoop lt n i ks F) (H.insertMany lt ks) ∧
      (insertVecLoop lt n i ks F).log.toList = F.log.toList ++ (List.range' F.next ks.length).map .ins := by
  induction ks generalizing i F H with
  | nil => exact ⟨R, by simp [insertVecLoop]⟩
  | cons k ks ih =>
    have R1 := insert_frel lt F H R W k
    have W1 := insert_wf lt H k W
    have e : ({ arr := (percolateUpF lt (pushNew F.arr F.pos F.next k (i + n)).1 (pushNew F.arr F.pos F.next k (i + n)).2 (i + n)).1,
                pos := (percolateUpF lt (pushNew F.arr F.pos F.next k (i + n)).1 (pushNew F.arr F.pos F.next k (i + n)).2 (i + n)).2,
                next := F.next + 1, log := F.log.push (.ins F.next) } : FHeap κ) = F.insert lt k := by
      unfold FHeap.insert; rw [hn]
    have hsz : (F.insert lt k).arr.size = (i + 1) + n := by
      rw [R1.arr]
      have := (insert_perm lt H k).length_eq
      simp only [Array.length_toList, List.length_cons] at this
      rw [this, ← R.arr, hn]; omega
    obtain ⟨r1, r2⟩ := ih (i + 1) (F.insert lt k) (H.insert lt k) R1 W1 hsz
    unfold insertVecLoop
    simp only [e]
    refine ⟨by simpa [Heap.insertMany] using r1, ?_⟩
    rw [r2]
    simp [FHeap.insert, List.range'_succ]

theorem insertVec_frel (lt : κ → κ → Bool) (F : FHeap κ) (H : Heap κ) (R : FRel F H) (W : Wf H) (ks : List κ) :
    FRel (F.insertVec lt ks) (H.insertMany lt ks) ∧
      (F.insertVec lt ks).log.toList = F.log.toList ++ (List.range' F.next ks.length).map .ins :=
  insertVecLoop_frel lt F.arr.size ks 0 F H R W (by omega)

theorem remove_frel (lt : κ → κ → Bool) (F : FHeap κ) (H : Heap κ) (R : FRel F H) (h : Nat) (L : Live H.arr h) :
    FRel (F.remove lt h) (H.remove lt h) := by
  obtain ⟨i, hi, _, hpos, hf⟩ := live_pos R h L
  have t := removePosF_tracks lt F.arr F.pos i R.sync R.dist
  unfold FHeap.remove Heap.remove
  simp only [hpos, hf]
  exact ⟨by rw [t.arr, R.arr], R.next, t.sync, t.dist⟩

theorem pop_frel (lt : κ → κ → Bool) (F : FHeap κ) (H : Heap κ) (R : FRel F H) : FRel (F.pop lt) (H.pop lt) := by
  have t := removePosF_tracks lt F.arr F.pos 0 R.sync R.dist
  unfold FHeap.pop Heap.pop
  by_cases h0 : F.arr.size = 0
  · have h0' : H.arr.size = 0 := by rw [← R.arr]; exact h0
    simp only [h0, h0', ↓reduceIte]
    exact R
  · have h0' : ¬ H.arr.size = 0 := by rw [← R.arr]; exact h0
    simp only [h0, h0', ↓reduceIte]
    exact ⟨by show (removePosF lt F.arr F.pos 0).1 = removePos lt H.arr 0; rw [t.arr, R.arr], R.next, t.sync, t.dist⟩

/-- overwriting an element's data keeps handles, hence sync and distinctness -/
theorem set_key_sync (a : Array (Elem κ)) (pos : Array Nat) (i : Nat) (hi : i < a.size) (h : Nat) (k : κ) (e : a[i].h = h)
    (S : PosSync a pos) (D : Hdist a) : PosSync (a.set i ⟨h, k⟩ hi) pos ∧ Hdist (a.set i ⟨h, k⟩ hi) := by
  constructor
  · intro j hj
    simp only [Array.size_set] at hj
    simp only [Array.getElem_set]
    by_cases hij : i = j
    · subst hij; simp only [↓reduceIte]; have := S i hi; rw [e] at this; exact this
    · simp only [hij, ↓reduceIte]; exact S j hj
  · intro x y hx hy hxy
    simp only [Array.size_set] at hx hy
    simp only [Array.getElem_set] at hxy
    have := D
    unfold Hdist at this
    grind

theorem setKey_frel (lt : κ → κ → Bool) (F : FHeap κ) (H : Heap κ) (R : FRel F H) (h : Nat) (k : κ) (L : Live H.arr h) :
    FRel (F.setKey lt h k) (H.setKey lt h k) := by
  obtain ⟨i, hi, e, hpos, hf⟩ := live_pos R h L
  have hiH : i < H.arr.size := by rw [← R.arr]; exact hi
  obtain ⟨S', D'⟩ := set_key_sync F.arr F.pos i hi h k e R.sync R.dist
  have u := percolateUpF_tracks lt _ _ i S' D'
  have d := percolateDownF_tracks lt _ _ i u.sync u.dist
  unfold FHeap.setKey Heap.setKey
  simp only [hpos, hf, hi, hiH, ↓reduceDIte]
  refine ⟨?_, R.next, d.sync, d.dist⟩
  show (percolateDownF lt _ _ i).1 = _
  rw [d.arr, u.arr]
  simp only [R.arr]

theorem pokeAllF_eq (chg : List (Nat × κ)) (a : Array (Elem κ)) (pos : Array Nat) (S : PosSync a pos) (D : Hdist a)
    (L : ∀ c ∈ chg, Live a c.1) :
    pokeAllF pos a chg = pokeAll a chg ∧ PosSync (pokeAll a chg) pos ∧ Hdist (pokeAll a chg) := by
  induction chg generalizing a with
  | nil => exact ⟨rfl, S, D⟩
  | cons c rest ih =>
    obtain ⟨h, k⟩ := c
    obtain ⟨i, hi, hh⟩ := L (h, k) (by simp)
    have hpos : pos.getD h 0 = i := by have := (S i hi).2; rw [hh] at this; exact this
    have hf : findIdx a h = some i := by have := findIdx_of_sync a D i hi; rw [hh] at this; exact this
    obtain ⟨S', D'⟩ := set_key_sync a pos i hi h k hh S D
    have e1 : a.setIfInBounds i ⟨h, k⟩ = a.set i ⟨h, k⟩ hi := by simp [Array.setIfInBounds, hi]
    have L' : ∀ c ∈ rest, Live (a.set i ⟨h, k⟩ hi) c.1 := by
      intro c hc
      obtain ⟨j, hj, hjh⟩ := L c (by simp [hc])
      refine ⟨j, by simpa using hj, ?_⟩
      simp only [Array.getElem_set]
      by_cases hij : i = j
      · subst hij; simp only [↓reduceIte]; rw [← hjh, hh]
      · simp only [hij, ↓reduceIte]; exact hjh
    have r := ih (a.set i ⟨h, k⟩ hi) S' D' L'
    unfold pokeAllF pokeAll
    simp only [hpos, hf, e1]
    exact r

theorem pokeRebuild_frel (lt : κ → κ → Bool) (F : FHeap κ) (H : Heap κ) (R : FRel F H) (chg : List (Nat × κ))
    (L : ∀ c ∈ chg, Live H.arr c.1) : FRel (F.pokeRebuild lt chg) (H.pokeRebuild lt chg) := by
  obtain ⟨e, S', D'⟩ := pokeAllF_eq chg F.arr F.pos R.sync R.dist (by rw [R.arr]; exact L)
  have b := buildF_tracks lt _ _ S' D'
  unfold FHeap.pokeRebuild Heap.pokeRebuild
  rw [e]
  refine ⟨?_, R.next, b.sync, b.dist⟩
  show (buildF lt _ _).1 = _
  rw [b.arr, R.arr]

theorem freshLoop_spec (ks : List κ) (i : Nat) (a : Array (Elem κ)) (pos : Array Nat) (nx : Nat) (hn : a.size = i)
    (S : PosSync a pos) (D : Hdist a) (B : ∀ j, (hj : j < a.size) → a[j].h < nx) :
    (freshLoop i ks a pos nx).1.toList = a.toList ++ freshElems nx ks ∧
      PosSync (freshLoop i ks a pos nx).1 (freshLoop i ks a pos nx).2 ∧ Hdist (freshLoop i ks a pos nx).1 := by
  induction ks generalizing i a pos nx with
  | nil => exact ⟨by simp [freshLoop, freshElems], S, D⟩
  | cons k ks ih =>
    subst hn
    obtain ⟨p1, p2, p3⟩ := pushNew_sync a pos nx k S D B
    obtain ⟨r1, r2, r3⟩ := ih (a.size + 1) _ _ (nx + 1) (by simp [pushNew]) p1 p2 p3
    unfold freshLoop
    refine ⟨?_, r2, r3⟩
    rw [r1]
    simp [pushNew, freshElems]

theorem buildFrom_frel (lt : κ → κ → Bool) (F : FHeap κ) (H : Heap κ) (R : FRel F H) (ks : List κ) :
    FRel (F.buildFrom lt ks) (H.buildFrom lt ks) := by
  obtain ⟨r1, r2, r3⟩ := freshLoop_spec ks 0 #[] F.pos F.next rfl
    (fun i hi => absurd hi (Nat.not_lt_zero _)) (fun i j hi _ _ => absurd hi (Nat.not_lt_zero _))
    (fun i hi => absurd hi (Nat.not_lt_zero _))
  have e : (freshLoop 0 ks #[] F.pos F.next).1 = (freshElems H.next ks).toArray := by
    apply Array.toList_inj.mp
    rw [r1, R.next]; simp
  have b := buildF_tracks lt _ _ r2 r3
  unfold FHeap.buildFrom Heap.buildFrom
  refine ⟨?_, by simp [R.next], b.sync, b.dist⟩
  show (buildF lt _ _).1 = _
  rw [b.arr, e]

/-- the API contract over the FULL alphabet: handles passed to `remove` / `update` / written through before `rebuild`
are handles of live elements -/
def LiveAll (lt : κ → κ → Bool) : Heap κ → List (Op κ) → Prop
  | _, [] => True
  | H, op :: rest =>
    (match op with
      | .remove h => Live H.arr h
      | .setKey h _ => Live H.arr h
      | .pokeRebuild chg => ∀ c ∈ chg, Live H.arr c.1
      | _ => True) ∧ LiveAll lt (H.step lt op) rest

/-- the callbacks a whole run must fire, read off the abstract model -/
def evRun (lt : κ → κ → Bool) : Heap κ → List (Op κ) → List Ev
  | _, [] => []
  | H, op :: rest => evOf H.next op ++ evRun lt (H.step lt op) rest

theorem step_frel (lt : κ → κ → Bool) (F : FHeap κ) (H : Heap κ) (R : FRel F H) (W : Wf H) (op : Op κ)
    (L : LiveAll lt H [op]) :
    FRel (F.step lt op) (H.step lt op) ∧ (F.step lt op).log.toList = F.log.toList ++ evOf H.next op := by
  obtain ⟨l1, _⟩ := L
  cases op with
  | insert k => exact ⟨insert_frel lt F H R W k, by simp [FHeap.step, FHeap.insert, evOf, R.next]⟩
  | insertMany ks =>
    obtain ⟨a, b⟩ := insertVec_frel lt F H R W ks
    exact ⟨a, by rw [← R.next]; exact b⟩
  | remove h => exact ⟨remove_frel lt F H R h l1, by simp [FHeap.step, FHeap.remove, evOf]⟩
  | setKey h k =>
    refine ⟨setKey_frel lt F H R h k l1, ?_⟩
    simp only [FHeap.step, FHeap.setKey, evOf, List.append_nil]
    split <;> rfl
  | pop =>
    refine ⟨pop_frel lt F H R, ?_⟩
    simp only [FHeap.step, FHeap.pop, evOf, List.append_nil]
    split <;> rfl
  | pokeRebuild chg => exact ⟨pokeRebuild_frel lt F H R chg l1, by simp [FHeap.step, FHeap.pokeRebuild, evOf]⟩
  | buildFrom ks => exact ⟨buildFrom_frel lt F H R ks, by simp [FHeap.step, FHeap.buildFrom, evOf]⟩
  | sort ks => exact ⟨R, by simp [FHeap.step, evOf]⟩
  | clear =>
    refine ⟨⟨rfl, R.next, fun i hi => absurd hi (Nat.not_lt_zero _), fun i j hi _ _ => absurd hi (Nat.not_lt_zero _)⟩, ?_⟩
    simp [FHeap.step, FHeap.clear, evOf]

theorem run_frel (lt : κ → κ → Bool) (ops : List (Op κ)) (F : FHeap κ) (H : Heap κ) (R : FRel F H) (W : Wf H)
    (L : LiveAll lt H ops) :
    FRel (F.run lt ops) (H.run lt ops) ∧ (F.run lt ops).log.toList = F.log.toList ++ evRun lt H ops := by
  induction ops generalizing F H with
  | nil => exact ⟨R, by simp [FHeap.run, evRun]⟩
  | cons op rest ih =>
    obtain ⟨l1, l2⟩ := L
    obtain ⟨s1, s2⟩ := step_frel lt F H R W op ⟨l1, trivial⟩
    obtain ⟨r1, r2⟩ := ih _ _ s1 (step_wf lt H op W) l2
    unfold FHeap.run Heap.run
    simp only [List.foldl_cons]
    refine ⟨r1, ?_⟩
    show (FHeap.run lt (F.step lt op) rest).log.toList = _
    rw [r2, s2, evRun, List.append_assoc]

theorem empty_frel : FRel ({} : FHeap κ) (Heap.empty : Heap κ) :=
  ⟨rfl, rfl, fun i hi => absurd hi (Nat.not_lt_zero _), fun i j hi _ _ => absurd hi (Nat.not_lt_zero _)⟩

/-! ### `sort` as coded -/

theorem drainF_eq (lt : κ → κ → Bool) (n : Nat) (a : Array (Elem κ)) (pos : Array Nat) (S : PosSync a pos) (D : Hdist a) :
    drainF lt n a pos = drain lt n a := by
  induction n generalizing a pos with
  | zero => rfl
  | succ n ih =>
    have t := removePosF_tracks lt a pos 0 S D
    unfold drainF drain
    split
    · simp only
      rw [ih _ _ t.sync t.dist, t.arr]
    · rfl

theorem sortF_eq (lt : κ → κ → Bool) (F : FHeap κ) (H : Heap κ) (ks : List κ) : F.sort lt ks = H.sort lt ks := by
  obtain ⟨r1, r2, r3⟩ := freshLoop_spec ks 0 #[] #[] 0 rfl
    (fun i hi => absurd hi (Nat.not_lt_zero _)) (fun i j hi _ _ => absurd hi (Nat.not_lt_zero _))
    (fun i hi => absurd hi (Nat.not_lt_zero _))
  have e : (freshLoop 0 ks #[] #[] 0).1 = (freshElems 0 ks).toArray := by
    apply Array.toList_inj.mp
    rw [r1]; simp
  have b := buildF_tracks lt _ _ r2 r3
  unfold FHeap.sort Heap.sort
  simp only
  rw [drainF_eq lt _ _ _ b.sync b.dist, b.arr, e]
  have hs : (build lt (freshElems 0 ks).toArray).size = ks.length := by
    have := (build_perm lt (freshElems 0 ks).toArray).toList.length_eq
    have h2 : (freshElems 0 ks).length = ks.length := by
      have := congrArg List.length (freshElems_keys 0 ks); simpa using this
    simp only [Array.length_toList, List.size_toArray] at this
    omega
  rw [hs]

end OmplModel.Heap
