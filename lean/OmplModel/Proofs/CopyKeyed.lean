import OmplModel.Model.CopyKeyed
import OmplModel.Proofs.CopyArchive
/-! Lemmas about the by-state layer of `PlannerData` (`stateIndexMap_`), `GraphStateStorage` archives and
`extractStateStorage` (`Model/CopyKeyed.lean`).  Core Lean only. -/
namespace OmplModel.Copy

/-! ### GraphStateStorage archives -/

theorem readStatesM_all (imgs : List (List Nat)) (rest : List MRec) (st : MStore) :
    readStatesM imgs.length (imgs.map (fun i => MRec.base (.state i)) ++ rest) st =
      ({ states := st.states ++ imgs, md := st.md ++ List.replicate imgs.length [] }, none, rest) := by
  induction imgs generalizing st with
  | nil => simp [readStatesM]
  | cons i is ih =>
    simp only [List.length_cons, List.map_cons, List.cons_append, readStatesM]
    rw [ih]
    simp [MStore.addState, List.replicate_succ]

theorem readStatesM_short (n : Nat) (imgs : List (List Nat)) (h : imgs.length < n) (st : MStore) :
    readStatesM n (imgs.map (fun i => MRec.base (.state i))) st =
      ({ states := st.states ++ imgs, md := st.md ++ List.replicate imgs.length [] }, some .truncated, []) := by
  induction imgs generalizing n st with
  | nil =>
    cases n with
    | zero => omega
    | succ n => simp [readStatesM]
  | cons i is ih =>
    cases n with
    | zero => simp at h
    | succ n =>
      simp only [List.map_cons, readStatesM]
      rw [ih n (by simpa using h)]
      simp [MStore.addState, List.replicate_succ]

theorem storeStatesM_eq (sig : List Int) (s : MStore) :
    storeStatesM sig s =
      MRec.base (.header { marker := markerStates, vcount := s.states.length, ecount := 0, signature := sig }) ::
        (s.states.map (fun i => MRec.base (.state i)) ++ [MRec.mdata s.md]) := by
  simp [storeStatesM, storeStates, List.map_map, Function.comp_def]

theorem load_store_states_meta (sig : List Int) (s : MStore) :
    loadStatesM sig (storeStatesM sig s) = (s, none) := by
  rw [storeStatesM_eq]
  simp only [loadStatesM, ne_eq, not_true_eq_false, if_false]
  rw [readStatesM_all]
  simp [loadMetadataM]

theorem loadStatesM_truncated (sig : List Int) (s : MStore) (k : Nat) (hk : k < (storeStatesM sig s).length) :
    loadStatesM sig ((storeStatesM sig s).take k) =
      ({ states := s.states.take (k - 1), md := List.replicate (s.states.take (k - 1)).length [] }, some .truncated) := by
  rw [storeStatesM_eq] at hk ⊢
  simp only [List.length_cons, List.length_append, List.length_map, List.length_nil] at hk
  cases k with
  | zero => simp [loadStatesM]
  | succ j =>
    simp only [List.take_succ_cons, loadStatesM, ne_eq, not_true_eq_false, if_false, Nat.add_sub_cancel]
    have hj : j ≤ s.states.length := by omega
    have htake : (s.states.map (fun i => MRec.base (.state i)) ++ [MRec.mdata s.md]).take j =
        (s.states.take j).map (fun i => MRec.base (.state i)) := by
      rw [List.take_append_of_le_length (by simpa using hj), List.map_take]
    rw [htake]
    by_cases hlt : j < s.states.length
    · rw [readStatesM_short _ _ (by simpa [List.length_take] using Nat.lt_of_le_of_lt (Nat.min_le_left _ _) hlt)]
      simp
    · have hje : j = s.states.length := by omega
      subst hje
      have := readStatesM_all (s.states.take s.states.length) [] {}
      simp only [List.take_length, List.append_nil] at this
      simp only [List.take_length]
      rw [this]
      simp [loadMetadataM]

/-- F108 as the code was before 2eed54bf6: one state, archive cut before the metadata block -/
theorem loadStatesMOld_truncated_inconsistent (sig : List Int) :
    loadStatesMOld sig ((storeStatesM sig { states := [[7]], md := [[0]] }).take 2) =
      ({ states := [[7]], md := [] }, some .truncated) := by
  simp [storeStatesM, storeStates, loadStatesMOld, readStatesM, loadMetadataMOld, MStore.addState]

/-! ### extractStateStorage -/

theorem posIn_spec (os : List Nat) (x i : Nat) (h : x ∈ os) :
    ∃ j, posIn os x i = i + j ∧ os[j]? = some x := by
  induction os generalizing i with
  | nil => simp at h
  | cons o os ih =>
    unfold posIn
    by_cases ho : o = x
    · exact ⟨0, by simp [ho]⟩
    · have hx : x ∈ os := by
        rcases List.mem_cons.mp h with h | h
        · exact absurd h.symm ho
        · exact h
      obtain ⟨j, hj, hg⟩ := ih (i + 1) hx
      exact ⟨j + 1, by simp [ho, hj]; omega, by simpa using hg⟩

theorem getElem?_posIn (os : List Nat) (x : Nat) (h : x ∈ os) : os[posIn os x 0]? = some x := by
  obtain ⟨j, hj, hg⟩ := posIn_spec os x 0 h
  simpa [hj] using hg

theorem filterMap_posIn (order xs : List Nat) (h : ∀ x ∈ xs, x ∈ order) :
    (xs.map (fun x => posIn order x 0)).filterMap (fun k => order[k]?) = xs := by
  induction xs with
  | nil => rfl
  | cons x xs ih =>
    have hx := getElem?_posIn order x (h x (List.mem_cons_self))
    simp only [List.map_cons, List.filterMap_cons, hx]
    rw [ih (fun y hy => h y (List.mem_cons_of_mem _ hy))]

theorem outNbrs_lt (g : Graph) (hW : g.WF) (v x : Nat) (hx : x ∈ outNbrs g v) : x < g.verts.length := by
  simp only [outNbrs, List.mem_map, List.mem_filter] at hx
  obtain ⟨e, ⟨he, _⟩, rfl⟩ := hx
  exact (hW.1 e he).2

theorem extract_spec (g : Graph) (order : List Nat) (hW : g.WF) (hp : order.Perm (List.range g.verts.length)) :
    (extractStorage g order).states.length = g.verts.length ∧
    (extractStorage g order).md.length = g.verts.length ∧
    ∀ j (hj : j < order.length),
      (extractStorage g order).states[j]? = (g.verts[order[j]]?).map (fun x => x.img) ∧
      (extractStorage g order).nbrsOf order j = outNbrs g order[j] := by
  have hlen : order.length = g.verts.length := by simpa using hp.length_eq
  have hmem : ∀ v, v ∈ order ↔ v < g.verts.length := fun v => by simpa using hp.mem_iff (a := v)
  refine ⟨by simp [extractStorage, hlen], by simp [extractStorage, hlen], ?_⟩
  intro j hj
  have hv : order[j] < g.verts.length := (hmem _).mp (List.getElem_mem hj)
  constructor
  · simp only [extractStorage, List.getElem?_map, List.getElem?_eq_getElem hj, Option.map_some]
    rw [List.getElem?_eq_getElem hv]
    simp
  · simp only [MStore.nbrsOf, extractStorage, List.getElem?_map, List.getElem?_eq_getElem hj, Option.map_some]
    exact filterMap_posIn order _ (fun x hx => (hmem x).mpr (outNbrs_lt g hW _ x hx))

/-! ### the state → index map -/

theorem findKey_ge (sid : Nat) (ks : List (Option Nat)) (a j : Nat) (h : findKey sid ks a = some j) : a ≤ j := by
  induction ks generalizing a with
  | nil => simp [findKey] at h
  | cons k ks ih =>
    unfold findKey at h
    split at h
    · simp at h; omega
    · have := ih (a + 1) h; omega

theorem findKey_none (sid : Nat) (ks : List (Option Nat)) (a : Nat) (h : findKey sid ks a = none) : some sid ∉ ks := by
  induction ks generalizing a with
  | nil => simp
  | cons k ks ih =>
    unfold findKey at h
    split at h
    · simp at h
    · rename_i hk
      intro hm
      rcases List.mem_cons.mp hm with hm | hm
      · exact hk hm.symm
      · exact ih (a + 1) h hm

def KeysNodup (ks : List (Option Nat)) : Prop := (ks.filterMap id).Nodup

theorem mem_filterMap_id (ks : List (Option Nat)) (sid i : Nat) (h : ks[i]? = some (some sid)) :
    sid ∈ ks.filterMap id := by
  rw [List.mem_filterMap]
  exact ⟨some sid, List.mem_of_getElem? h, rfl⟩

/-- the lookup is exact: it returns `i` iff vertex `i` is the one that points to state object `sid` -/
theorem findKey_iff (sid : Nat) (ks : List (Option Nat)) (hn : KeysNodup ks) (a i : Nat) :
    findKey sid ks a = some (a + i) ↔ ks[i]? = some (some sid) := by
  induction ks generalizing a i with
  | nil => simp [findKey]
  | cons k ks ih =>
    unfold findKey
    by_cases hk : k = some sid
    · subst hk
      simp only [if_true, Option.some.injEq]
      cases i with
      | zero => simp
      | succ i =>
        simp only [List.getElem?_cons_succ]
        constructor
        · intro h; omega
        · intro h
          simp [KeysNodup] at hn
          exact absurd (List.mem_of_getElem? h) hn.1
    · simp only [hk, if_false]
      have hn' : KeysNodup ks := by
        unfold KeysNodup at hn ⊢
        cases k with
        | none => simpa using hn
        | some x => simp at hn; exact hn.2
      cases i with
      | zero =>
        simp only [Nat.add_zero, List.getElem?_cons_zero, Option.some.injEq]
        constructor
        · intro h
          have := findKey_ge sid ks (a + 1) a h
          omega
        · intro h; exact absurd h hk
      | succ i =>
        simp only [List.getElem?_cons_succ]
        have := ih hn' (a + 1) i
        rw [show a + 1 + i = a + (i + 1) by omega] at this
        exact this

structure KInv (kg : KGraph) : Prop where
  inv : kg.g.Inv
  len : kg.keys.length = kg.g.verts.length
  nodup : KeysNodup kg.keys

theorem vertexIndex_iff (kg : KGraph) (h : KInv kg) (sid i : Nat) :
    kg.vertexIndex sid = some i ↔ kg.keys[i]? = some (some sid) := by
  have := findKey_iff sid kg.keys h.nodup 0 i
  simpa [KGraph.vertexIndex] using this

theorem vertexIndex_lt (kg : KGraph) (h : KInv kg) (sid i : Nat) (hi : kg.vertexIndex sid = some i) :
    i < kg.g.verts.length := by
  have := (vertexIndex_iff kg h sid i).mp hi
  have hl := (List.getElem?_eq_some_iff.mp this).1
  rw [← h.len]; exact hl

/-! the graph operations do not touch the vertex list (except add/remove) -/

theorem markStart_verts (g : Graph) (i : Nat) : (g.markStart i).verts = g.verts := by
  unfold Graph.markStart; split
  · split <;> rfl
  · rfl

theorem markGoal_verts (g : Graph) (i : Nat) : (g.markGoal i).verts = g.verts := by
  unfold Graph.markGoal; split
  · split <;> rfl
  · rfl

theorem setTag_verts_length (g : Graph) (i : Nat) (t : Int) : (g.setTag i t).verts.length = g.verts.length := by
  simp [Graph.setTag]

theorem addEdge_verts (g : Graph) (e : ERec) : (g.addEdge e).1.verts = g.verts := by
  unfold Graph.addEdge; split
  · rfl
  · split <;> rfl

theorem removeEdge_verts (g : Graph) (a b : Nat) : (g.removeEdge a b).1.verts = g.verts := by
  unfold Graph.removeEdge; split
  · rfl
  · split <;> rfl

theorem refreshVerts_length (tbl : Nat → Option (List Nat)) (vs : List Vertex) (ks : List (Option Nat)) :
    (refreshVerts tbl vs ks).length = vs.length := by
  induction vs generalizing ks with
  | nil => cases ks <;> simp [refreshVerts]
  | cons v vs ih =>
    cases ks with
    | nil => simp [refreshVerts]
    | cons k ks => cases k <;> simp [refreshVerts, ih]

theorem Inv_of_verts_length (g : Graph) (vs : List Vertex) (hl : vs.length = g.verts.length) (h : g.Inv) :
    ({ g with verts := vs } : Graph).Inv := by
  obtain ⟨⟨h1, h2, h3⟩, hs, hg⟩ := h
  refine ⟨⟨?_, h2, h3⟩, ⟨hs.1, ?_⟩, ⟨hg.1, ?_⟩⟩
  · intro e he; simpa [hl] using h1 e he
  · intro a ha; simpa [hl] using hs.2 a ha
  · intro a ha; simpa [hl] using hg.2 a ha

theorem KInv_empty : KInv {} := ⟨Inv_empty, rfl, by simp [KeysNodup]⟩

theorem KInv_addVertex (kg : KGraph) (sid : Nat) (v : Vertex) (h : KInv kg) : KInv (kg.addVertex sid v).1 := by
  unfold KGraph.addVertex
  split
  · exact h
  · rename_i hnone
    refine ⟨Inv_addVertex _ v h.inv, by simp [Graph.addVertex, h.len], ?_⟩
    have hnot := findKey_none sid kg.keys 0 hnone
    have hn := h.nodup
    unfold KeysNodup at hn ⊢
    simp only [List.filterMap_append, List.filterMap_cons, id_eq, List.filterMap_nil]
    rw [List.nodup_append]
    refine ⟨hn, by simp, ?_⟩
    intro a ha b hb
    simp at hb
    subst hb
    intro hab
    subst hab
    rw [List.mem_filterMap] at ha
    obtain ⟨o, ho, hoe⟩ := ha
    simp at hoe
    subst hoe
    exact hnot ho

theorem KInv_withG (kg : KGraph) (g' : Graph) (h : KInv kg) (hi : g'.Inv) (hl : g'.verts.length = kg.g.verts.length) :
    KInv { kg with g := g' } := ⟨hi, by simpa [hl] using h.len, h.nodup⟩

theorem KInv_markStart (kg : KGraph) (sid : Nat) (h : KInv kg) : KInv (kg.markStart sid).1 := by
  unfold KGraph.markStart
  split
  · exact KInv_withG kg _ h (Inv_markStart _ _ h.inv) (by rw [markStart_verts])
  · exact h

theorem KInv_markGoal (kg : KGraph) (sid : Nat) (h : KInv kg) : KInv (kg.markGoal sid).1 := by
  unfold KGraph.markGoal
  split
  · exact KInv_withG kg _ h (Inv_markGoal _ _ h.inv) (by rw [markGoal_verts])
  · exact h

theorem KInv_tagState (kg : KGraph) (sid : Nat) (t : Int) (h : KInv kg) : KInv (kg.tagState sid t).1 := by
  unfold KGraph.tagState
  split
  · exact KInv_withG kg _ h (Inv_setTag _ _ _ h.inv) (setTag_verts_length _ _ _)
  · exact h

theorem KInv_addEdgeI (kg : KGraph) (e : ERec) (h : KInv kg) : KInv (kg.addEdgeI e).1 :=
  KInv_withG kg _ h (Inv_addEdge _ _ h.inv) (by rw [addEdge_verts])

theorem KInv_addEdgeV (kg : KGraph) (s1 : Nat) (v1 : Vertex) (s2 : Nat) (v2 : Vertex) (w : Nat)
    (c : Option (Nat × List Nat)) (h : KInv kg) : KInv (kg.addEdgeV s1 v1 s2 v2 w c).1 := by
  have h2 := KInv_addVertex _ s2 v2 (KInv_addVertex kg s1 v1 h)
  exact KInv_withG _ _ h2 (Inv_addEdge _ _ h2.inv) (by rw [addEdge_verts])

theorem KInv_removeEdgeI (kg : KGraph) (a b : Nat) (h : KInv kg) : KInv (kg.removeEdgeI a b).1 :=
  KInv_withG kg _ h (Inv_removeEdge _ _ _ h.inv) (by rw [removeEdge_verts])

theorem KInv_removeEdgeV (kg : KGraph) (s1 s2 : Nat) (h : KInv kg) : KInv (kg.removeEdgeV s1 s2).1 := by
  unfold KGraph.removeEdgeV
  split
  · exact KInv_removeEdgeI kg _ _ h
  · exact h

theorem KInv_removeVertexI (kg : KGraph) (i : Nat) (h : KInv kg) : KInv (kg.removeVertexI i).1 := by
  have hinv := Inv_removeVertex kg.g i h.inv
  unfold KGraph.removeVertexI
  refine ⟨hinv, ?_, ?_⟩
  · unfold Graph.removeVertex
    split
    · simpa using h.len
    · rename_i hlt
      have hlt' : i < kg.g.verts.length := by omega
      simp [List.length_eraseIdx, h.len, hlt']
  · have hn := h.nodup
    unfold KeysNodup at hn ⊢
    dsimp only
    split
    · exact hn.sublist ((List.eraseIdx_sublist _ _).filterMap _)
    · exact hn

theorem KInv_removeVertexV (kg : KGraph) (sid : Nat) (h : KInv kg) : KInv (kg.removeVertexV sid).1 := by
  unfold KGraph.removeVertexV
  split
  · exact KInv_removeVertexI kg _ h
  · exact h

theorem KInv_decouple (kg : KGraph) (h : KInv kg) : KInv kg.decouple := by
  refine ⟨h.inv, by simp [KGraph.decouple, h.len], ?_⟩
  unfold KeysNodup KGraph.decouple
  have : (kg.keys.map (fun _ => (none : Option Nat))).filterMap id = [] := by
    induction kg.keys with
    | nil => rfl
    | cons k ks ih => simp
  rw [this]; exact List.nodup_nil

theorem KInv_refresh (kg : KGraph) (tbl : Nat → Option (List Nat)) (h : KInv kg) : KInv (kg.refresh tbl) := by
  unfold KGraph.refresh
  exact ⟨Inv_of_verts_length _ _ (refreshVerts_length _ _ _) h.inv, by simpa [refreshVerts_length] using h.len, h.nodup⟩

/-- every `PlannerData` the by-state and by-index operations can produce, in any order, including `clear()` and reuse,
`decoupleFromPlanner()` and changes of the caller's state objects while the graph is coupled -/
inductive KBuilt : KGraph → Prop
  | empty : KBuilt {}
  | addVertex {kg} (sid : Nat) (v : Vertex) : KBuilt kg → KBuilt (kg.addVertex sid v).1
  | addStartVertex {kg} (sid : Nat) (v : Vertex) : KBuilt kg → KBuilt (kg.addStartVertex sid v).1
  | addGoalVertex {kg} (sid : Nat) (v : Vertex) : KBuilt kg → KBuilt (kg.addGoalVertex sid v).1
  | markStart {kg} (sid : Nat) : KBuilt kg → KBuilt (kg.markStart sid).1
  | markGoal {kg} (sid : Nat) : KBuilt kg → KBuilt (kg.markGoal sid).1
  | tagState {kg} (sid : Nat) (t : Int) : KBuilt kg → KBuilt (kg.tagState sid t).1
  | addEdgeV {kg} (s1 : Nat) (v1 : Vertex) (s2 : Nat) (v2 : Vertex) (w : Nat) (c : Option (Nat × List Nat)) :
      KBuilt kg → KBuilt (kg.addEdgeV s1 v1 s2 v2 w c).1
  | addEdgeI {kg} (e : ERec) : KBuilt kg → KBuilt (kg.addEdgeI e).1
  | removeVertexI {kg} (i : Nat) : KBuilt kg → KBuilt (kg.removeVertexI i).1
  | removeVertexV {kg} (sid : Nat) : KBuilt kg → KBuilt (kg.removeVertexV sid).1
  | removeEdgeI {kg} (a b : Nat) : KBuilt kg → KBuilt (kg.removeEdgeI a b).1
  | removeEdgeV {kg} (s1 s2 : Nat) : KBuilt kg → KBuilt (kg.removeEdgeV s1 s2).1
  | clear {kg} : KBuilt kg → KBuilt kg.clear
  | decouple {kg} : KBuilt kg → KBuilt kg.decouple
  | refresh {kg} (tbl : Nat → Option (List Nat)) : KBuilt kg → KBuilt (kg.refresh tbl)

theorem KBuilt.kinv {kg : KGraph} (h : KBuilt kg) : KInv kg := by
  induction h with
  | empty => exact KInv_empty
  | addVertex sid v _ ih => exact KInv_addVertex _ sid v ih
  | addStartVertex sid v _ ih => exact KInv_markStart _ sid (KInv_addVertex _ sid v ih)
  | addGoalVertex sid v _ ih => exact KInv_markGoal _ sid (KInv_addVertex _ sid v ih)
  | markStart sid _ ih => exact KInv_markStart _ sid ih
  | markGoal sid _ ih => exact KInv_markGoal _ sid ih
  | tagState sid t _ ih => exact KInv_tagState _ sid t ih
  | addEdgeV s1 v1 s2 v2 w c _ ih => exact KInv_addEdgeV _ s1 v1 s2 v2 w c ih
  | addEdgeI e _ ih => exact KInv_addEdgeI _ e ih
  | removeVertexI i _ ih => exact KInv_removeVertexI _ i ih
  | removeVertexV sid _ ih => exact KInv_removeVertexV _ sid ih
  | removeEdgeI a b _ ih => exact KInv_removeEdgeI _ a b ih
  | removeEdgeV s1 s2 _ ih => exact KInv_removeEdgeV _ s1 s2 ih
  | clear _ _ => exact KInv_empty
  | decouple _ ih => exact KInv_decouple _ ih
  | refresh tbl _ ih => exact KInv_refresh _ tbl ih

/-! aliasing -/

theorem refreshVerts_none (tbl : Nat → Option (List Nat)) (vs : List Vertex) (ks : List (Option Nat))
    (h : ∀ k ∈ ks, k = none) : refreshVerts tbl vs ks = vs := by
  induction vs generalizing ks with
  | nil => cases ks <;> simp [refreshVerts]
  | cons v vs ih =>
    cases ks with
    | nil => simp [refreshVerts]
    | cons k ks =>
      have hk : k = none := h k (List.mem_cons_self)
      subst hk
      simp [refreshVerts, ih ks (fun k hk => h k (List.mem_cons_of_mem _ hk))]

theorem refreshVerts_coupled (tbl : Nat → Option (List Nat)) (vs : List Vertex) (ks : List (Option Nat))
    (i sid : Nat) (img : List Nat) (v : Vertex) (hk : ks[i]? = some (some sid)) (hv : vs[i]? = some v)
    (ht : tbl sid = some img) : (refreshVerts tbl vs ks)[i]? = some { v with img := img } := by
  induction vs generalizing ks i with
  | nil => simp at hv
  | cons x vs ih =>
    cases ks with
    | nil => simp at hk
    | cons k ks =>
      cases i with
      | zero =>
        simp at hk hv
        subst hk hv
        simp [refreshVerts, ht]
      | succ i =>
        simp only [List.getElem?_cons_succ] at hk hv
        cases k <;> simp [refreshVerts, ih ks i hk hv]

theorem addVertex_index (kg : KGraph) (h : KInv kg) (sid : Nat) (v : Vertex) :
    (kg.addVertex sid v).1.vertexIndex sid = some (kg.addVertex sid v).2 := by
  have h' := KInv_addVertex kg sid v h
  rw [vertexIndex_iff _ h']
  unfold KGraph.addVertex
  split
  · rename_i i hi
    exact (vertexIndex_iff kg h sid i).mp hi
  · simp [← h.len]

/-- adding the same state object a second time changes nothing and reports the vertex it already is -/
theorem addVertex_twice (kg : KGraph) (h : KInv kg) (sid : Nat) (v v' : Vertex) :
    (kg.addVertex sid v).1.addVertex sid v' = ((kg.addVertex sid v).1, (kg.addVertex sid v).2) := by
  have hi := addVertex_index kg h sid v
  generalize kg.addVertex sid v = r at hi ⊢
  unfold KGraph.addVertex
  rw [hi]

theorem decouple_refresh (kg : KGraph) (tbl : Nat → Option (List Nat)) : kg.decouple.refresh tbl = kg.decouple := by
  unfold KGraph.refresh
  rw [refreshVerts_none tbl _ _ (by intro k hk; simp [KGraph.decouple] at hk; exact hk.2.symm)]

theorem ofLoaded_refresh (g : Graph) (tbl : Nat → Option (List Nat)) :
    (KGraph.ofLoaded g).refresh tbl = KGraph.ofLoaded g := by
  unfold KGraph.refresh
  rw [refreshVerts_none tbl _ _ (by intro k hk; simp [KGraph.ofLoaded] at hk; exact hk.2.symm)]

end OmplModel.Copy
