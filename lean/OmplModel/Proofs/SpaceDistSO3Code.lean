import OmplModel.Proofs.SpaceDistSO3
import Mathlib.Analysis.SpecialFunctions.Trigonometric.Bounds
import Mathlib.Analysis.Real.Pi.Bounds
/-!
SO(3) under the code's OWN in-bounds predicate (`so3InBounds`: the norm is within
`MAX_QUATERNION_NORM_ERROR = 1e-9` of 1) instead of exact unit quaternions.

* `distance` uses the raw dot product.  `acos` is only ever called on a value in `[0, 1 - 1e-9]`
  (`so3Dist_acos_arg`): the clamp doubles as a domain guard, so no NaN can arise, whatever the norms.
* non-negativity, symmetry, the extent bound and positivity (w.r.t. `equalStates = arcLength < ε`) hold for
  ALL quaternions (they are hypothesis-free in `SpaceDistSO3.lean`), hence for the in-bounds ones.
* zero distance to itself FAILS: the in-bounds window for the squared norm is `(1-1e-9)² < n² < (1+1e-9)²`,
  but the clamp needs `n² > 1 - 1e-9`; for `n² ∈ ((1-1e-9)², 1-1e-9]` the state is in bounds, `d(q,q) =
  acos(n²) > 0` and `equalStates(q,q)` is false (`so3_inbounds_self_fails`, witness `q = (0,0,0,1-7.5e-10)`).
-/
namespace OmplModel.SpaceDist
open OmplModel
attribute [-instance] OmplModel.Num.instOfNat

theorem so3Norm_real (x y z w : ℝ) :
    so3Norm x y z w = if (eps : ℝ) < |x*x+y*y+z*z+w*w - 1| then Real.sqrt (x*x+y*y+z*z+w*w) else 1 := by
  show (if (eps:ℝ) < |x*x+y*y+z*z+w*w - ((1:ℕ):ℝ)| then Real.sqrt (x*x+y*y+z*z+w*w) else ((1:ℕ):ℝ)) = _
  simp only [Nat.cast_one]

theorem so3InBounds_real (x y z w : ℝ) :
    so3InBounds x y z w = true ↔ |so3Norm x y z w - 1| < 1 / 10^9 := by
  show decide (|so3Norm x y z w - ((1:ℕ):ℝ)| < (qErr:ℝ)) = true ↔ _
  rw [decide_eq_true_iff, qErr_real, Nat.cast_one]

/-- `acos` is only called on `[0, 1 - 1e-9]`: either the clamp fires (distance 0) or the argument is in range. -/
theorem so3Dist_acos_arg (x1 y1 z1 w1 x2 y2 z2 w2 : ℝ) :
    (1 - 1/10^9 < |x1*x2+y1*y2+z1*z2+w1*w2| ∧ so3Dist x1 y1 z1 w1 x2 y2 z2 w2 = 0) ∨
    (0 ≤ |x1*x2+y1*y2+z1*z2+w1*w2| ∧ |x1*x2+y1*y2+z1*z2+w1*w2| ≤ 1 - 1/10^9 ∧
      so3Dist x1 y1 z1 w1 x2 y2 z2 w2 = Real.arccos |x1*x2+y1*y2+z1*z2+w1*w2|) := by
  rw [so3Dist_real]
  by_cases h : 1 - 1/10^9 < |x1*x2+y1*y2+z1*z2+w1*w2|
  · left; exact ⟨h, if_pos h⟩
  · right; exact ⟨abs_nonneg _, not_lt.mp h, if_neg h⟩

/-- the witness norm: `1 - 7.5e-10` -/
noncomputable def wq : ℝ := 1 - 3 / (4 * 10^9)

theorem wq_inBounds : so3InBounds 0 0 0 wq = true := by
  have hw : (0:ℝ) < wq := by unfold wq; norm_num
  rw [so3InBounds_real, so3Norm_real]
  have hn : (0:ℝ)*0+0*0+0*0+wq*wq = wq*wq := by ring
  rw [hn]
  have hlt : (eps:ℝ) < |wq*wq - 1| := by
    rw [epsR_so3]; unfold wq
    rw [abs_of_neg (by norm_num)]; norm_num
  rw [if_pos hlt, Real.sqrt_mul_self hw.le]
  unfold wq
  rw [abs_of_neg (by norm_num)]; norm_num

theorem wq_dist_self : so3Dist 0 0 0 wq 0 0 0 wq = Real.arccos (wq * wq) := by
  rw [so3Dist_real]
  have hn : (0:ℝ)*0+0*0+0*0+wq*wq = wq*wq := by ring
  rw [hn, abs_of_nonneg (mul_self_nonneg _)]
  have : ¬ (1 - 1/10^9 < wq*wq) := by unfold wq; norm_num
  rw [if_neg this]

/-- the code's in-bounds quaternion `(0,0,0,1-7.5e-10)` is at distance `acos(n²) ≥ ε > 0` from ITSELF -/
theorem wq_dist_self_ge_eps : (eps : ℝ) ≤ so3Dist 0 0 0 wq 0 0 0 wq := by
  rw [wq_dist_self]
  have he := epsPos_so3
  have hepi : (eps:ℝ) ≤ Real.pi := by
    rw [epsR_so3]; linarith [Real.pi_gt_three]
  have hcos : wq * wq ≤ Real.cos eps := by
    have h1 := Real.one_sub_sq_div_two_le_cos (x := (eps:ℝ))
    refine le_trans ?_ h1
    rw [epsR_so3]; unfold wq; norm_num
  calc (eps:ℝ) = Real.arccos (Real.cos eps) := (Real.arccos_cos he.le hepi).symm
    _ ≤ Real.arccos (wq * wq) := Real.arccos_le_arccos hcos

theorem wq_not_equal_self : so3Equal 0 0 0 wq 0 0 0 wq = false := by
  rw [so3Equal_real, decide_eq_false_iff_not, not_lt]
  exact wq_dist_self_ge_eps

/-- states the code accepts: `satisfiesBounds .so3` -/
theorem so3_code_shape {a : St ℝ} (h : satisfiesBounds (.so3 : Space ℝ) a = true) :
    ∃ x y z w, a = .so3 x y z w ∧ so3InBounds x y z w = true := by
  cases a with
  | so3 x y z w => exact ⟨x, y, z, w, rfl, by simpa [satisfiesBounds] using h⟩
  | _ => simp [satisfiesBounds] at h

end OmplModel.SpaceDist
