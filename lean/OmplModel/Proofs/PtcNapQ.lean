import OmplModel.Proofs.PtcCost
import Mathlib.Data.Rat.Floor
import Mathlib.Algebra.Order.Floor.Ring
/-!
The poller's sleep schedule (`napPlan`, `secondsNs`: Model/Ptc.lean) over the rationals (`[EX]`: what is
left unverified is IEEE rounding of `period / 0.001`, `period / count` and `(sec - s) * 1e6`, which the
driver executes bit-exactly at `Float` against the sleeps the real poller thread makes).
-/
namespace OmplModel.Ptc

/-- `(long)q`: truncation towards zero -/
instance : PTrunc ℚ where
  trunc := fun q => if 0 ≤ q then ⌊q⌋ else ⌈q⌉
  ofInt := fun n => (n : ℚ)

theorem trunc_nonneg_eq (q : ℚ) (h : 0 ≤ q) : PTrunc.trunc q = ⌊q⌋ := by
  simp [PTrunc.trunc, h]

/-- `time::seconds(x)` for `x ≥ 0`: truncation to whole microseconds -/
theorem secondsNs_bounds (x : ℚ) (hx : 0 ≤ x) :
    0 ≤ secondsNs x ∧ ((secondsNs x : Int) : ℚ) ≤ x * 1000000000 ∧ x * 1000000000 - 1000 < ((secondsNs x : Int) : ℚ) := by
  have ha0 : (0 : Int) ≤ ⌊x⌋ := Int.floor_nonneg.mpr hx
  have ha1 : ((⌊x⌋ : Int) : ℚ) ≤ x := Int.floor_le x
  have ha2 : x < ((⌊x⌋ : Int) : ℚ) + 1 := Int.lt_floor_add_one x
  have hf0 : 0 ≤ (x - ((⌊x⌋ : Int) : ℚ)) * 1000000 := by nlinarith
  have hu0 : (0 : Int) ≤ ⌊(x - ((⌊x⌋ : Int) : ℚ)) * 1000000⌋ := Int.floor_nonneg.mpr hf0
  have hu1 := Int.floor_le ((x - ((⌊x⌋ : Int) : ℚ)) * 1000000)
  have hu2 := Int.lt_floor_add_one ((x - ((⌊x⌋ : Int) : ℚ)) * 1000000)
  have hs : secondsNs x = (⌊x⌋ * 1000000 + ⌊(x - ((⌊x⌋ : Int) : ℚ)) * 1000000⌋) * 1000 := by
    simp only [secondsNs, trunc_nonneg_eq x hx]
    have : PTrunc.trunc ((x - PTrunc.ofInt ⌊x⌋) * PNum.ofNat 1000000) = ⌊(x - ((⌊x⌋ : Int) : ℚ)) * 1000000⌋ := by
      have h0 : (0 : ℚ) ≤ (x - PTrunc.ofInt ⌊x⌋) * PNum.ofNat 1000000 := by
        simp [PTrunc.ofInt, PNum.ofNat]
      rw [trunc_nonneg_eq _ h0]
      simp [PTrunc.ofInt, PNum.ofNat]
    rw [this]
  rw [hs]
  refine ⟨by positivity, ?_, ?_⟩
  · push_cast
    linarith
  · push_cast
    linarith

/-- the plan for a period the thread is started with, below 46 days (so that the conversion of `count` to
`unsigned int` is defined): at least one sleep per round, each shorter than 2 ms (the stop flags are looked
at that often), and the sleeps of one round add up to the period less at most `count` microseconds - never
to more than the period. -/
theorem napPlan_bounds (period : ℚ) (h0 : 0 < period) (hbig : period ≤ 4000000) :
    1 ≤ (napPlan period).count ∧ 0 ≤ (napPlan period).nap ∧ (napPlan period).nap < 2000000 ∧
    (((napPlan period).count : Nat) : ℚ) * (((napPlan period).nap : Int) : ℚ) ≤ period * 1000000000 ∧
    period * 1000000000 - ((napPlan period).count : ℚ) * 1000 <
      (((napPlan period).count : Nat) : ℚ) * (((napPlan period).nap : Int) : ℚ) ∧
    ((napPlan period).count = 1 ∨ ((1 : ℚ) / 1000 < period ∧ ((napPlan period).count : ℚ) ≤ 1 / 2 + 1000 * period)) := by
  have hmilli : (milli : ℚ) = 1 / 1000 := by simp [milli, PNum.ofNat]
  have hhalf : (half : ℚ) = 1 / 2 := by simp [half, PNum.ofNat]
  by_cases hp : (milli : ℚ) < period
  · -- count = ⌊1/2 + 1000·period⌋
    have hp' : (1 : ℚ) / 1000 < period := by rwa [hmilli] at hp
    have hy0 : (0 : ℚ) ≤ half + period / milli := by rw [hmilli, hhalf]; positivity
    have hn1 : ((⌊(half : ℚ) + period / milli⌋ : Int) : ℚ) ≤ half + period / milli := Int.floor_le _
    have hn2 : (half : ℚ) + period / milli < ((⌊(half : ℚ) + period / milli⌋ : Int) : ℚ) + 1 := Int.lt_floor_add_one _
    have hyv : (half : ℚ) + period / milli = 1 / 2 + 1000 * period := by
      rw [hmilli, hhalf]; field_simp
    have hn_ge : (1 : Int) ≤ ⌊(half : ℚ) + period / milli⌋ := by
      apply Int.le_floor.mpr
      rw [hyv]; push_cast; linarith
    have hn_lt : ⌊(half : ℚ) + period / milli⌋ < 4294967296 := by
      apply Int.floor_lt.mpr
      rw [hyv]; push_cast; linarith
    have hmod : ⌊(half : ℚ) + period / milli⌋ % 4294967296 = ⌊(half : ℚ) + period / milli⌋ :=
      Int.emod_eq_of_lt (by omega) hn_lt
    have hplan : napPlan period =
        ⟨(⌊(half : ℚ) + period / milli⌋).toNat, secondsNs (period / PNum.ofNat (⌊(half : ℚ) + period / milli⌋).toNat)⟩ := by
      simp only [napPlan, if_pos hp, trunc_nonneg_eq _ hy0, hmod]
    rw [hplan]
    dsimp only
    have hcn : (((⌊(half : ℚ) + period / milli⌋).toNat : Nat) : ℚ) = ((⌊(half : ℚ) + period / milli⌋ : Int) : ℚ) := by
      have : (((⌊(half : ℚ) + period / milli⌋).toNat : Nat) : Int) = ⌊(half : ℚ) + period / milli⌋ :=
        Int.toNat_of_nonneg (by omega)
      exact_mod_cast congrArg (fun z : Int => (z : ℚ)) this
    have hofn : (PNum.ofNat (⌊(half : ℚ) + period / milli⌋).toNat : ℚ) = ((⌊(half : ℚ) + period / milli⌋ : Int) : ℚ) := by
      simpa [PNum.ofNat] using hcn
    rw [hofn, hcn]
    generalize hn : ((⌊(half : ℚ) + period / milli⌋ : Int) : ℚ) = n at hn1 hn2
    have hn1' : (1 : ℚ) ≤ n := by rw [← hn]; exact_mod_cast hn_ge
    rw [hyv] at hn1 hn2
    have hnpos : (0 : ℚ) < n := by linarith
    have hx0 : (0 : ℚ) ≤ period / n := by positivity
    obtain ⟨b0, b1, b2⟩ := secondsNs_bounds (period / n) hx0
    have hmul : n * (period / n) = period := by field_simp
    refine ⟨by omega, b0, ?_, ?_, ?_, Or.inr ⟨hp', hn1⟩⟩
    · -- period / n < 2/1000 because n > 1000·period − 1/2 ≥ 500·period
      have hx2 : period / n < 2 / 1000 := by
        rw [div_lt_iff₀ hnpos]
        linarith
      have : ((secondsNs (period / n) : Int) : ℚ) < 2000000 := by linarith
      exact_mod_cast this
    · calc n * ((secondsNs (period / n) : Int) : ℚ) ≤ n * (period / n * 1000000000) :=
            mul_le_mul_of_nonneg_left b1 (le_of_lt hnpos)
        _ = period * 1000000000 := by rw [← mul_assoc, hmul]
    · have : n * (period / n * 1000000000 - 1000) < n * ((secondsNs (period / n) : Int) : ℚ) :=
        mul_lt_mul_of_pos_left b2 hnpos
      have h2 : n * (period / n * 1000000000 - 1000) = period * 1000000000 - n * 1000 := by
        rw [mul_sub, ← mul_assoc, hmul]
      linarith
  · have hp' : period ≤ 1 / 1000 := by rw [hmilli] at hp; exact not_lt.mp hp
    have hplan : napPlan period = ⟨1, secondsNs period⟩ := by simp only [napPlan, if_neg hp]
    rw [hplan]
    dsimp only
    obtain ⟨b0, b1, b2⟩ := secondsNs_bounds period (le_of_lt h0)
    refine ⟨le_refl _, b0, ?_, ?_, ?_, Or.inl rfl⟩
    · have : ((secondsNs period : Int) : ℚ) < 2000000 := by linarith
      exact_mod_cast this
    · push_cast; linarith
    · push_cast; linarith

/-- from one microsecond on the poller really sleeps between two calls (below, `time::seconds` truncates the
sleep to 0 and the thread polls without pause) -/
theorem napPlan_nap_pos (period : ℚ) (h1 : 1 / 1000000 ≤ period) (hbig : period ≤ 4000000) :
    0 < (napPlan period).nap := by
  have h0 : 0 < period := lt_of_lt_of_le (by norm_num) h1
  obtain ⟨hc1, hn0, _, _, hlow, hcnt⟩ := napPlan_bounds period h0 hbig
  by_contra hneg
  have hz : (napPlan period).nap = 0 := by omega
  rw [hz] at hlow
  simp only [Int.cast_zero, mul_zero] at hlow
  rcases hcnt with hc | ⟨hp, hc⟩
  · rw [hc] at hlow
    push_cast at hlow
    linarith
  · linarith

end OmplModel.Ptc
