import OmplModel.Proofs.RSReal
import OmplModel.Proofs.DubinsInteg
import Mathlib.Tactic.LinearCombination
/-!
The "backwards" transform of the Reeds–Shepp families (C14, round 2), over ℝ.

`CCC` and `CCSC` also try `(xb, yb) = (x cos φ + y sin φ, x sin φ − y cos φ)` and store the solver's
`(t, u, v)` in reversed order.  Why that is right: driving a word is right-multiplication in SE(2), so
(1) integration commutes with every rigid motion of the start pose (`rsIntegFull_move`);
(2) driving the reversed word with all lengths negated undoes the word (`rs_retrace`);
(3) negating all lengths mirrors the curve in the y axis (`rsIntegFull_negAll`).
Hence the reversed word, driven from the origin, ends at `(xb cos φ + yb sin φ, xb sin φ − yb cos φ, φ)`
when the word itself ends at `(xb, yb, φ)` (`rs_reverse_reaches`), and for the code's `(xb, yb)` that is
`(x, y, φ)` (`rs_backwards`).
-/
namespace OmplModel.RS
open OmplModel OmplModel.Dubins

attribute [-instance] Num.instOfNat

/-- the rigid motion `(a, b, g)` applied to a pose -/
noncomputable def move (a b g : ℝ) (P : Pose ℝ) : Pose ℝ :=
  ⟨a + P.x * Real.cos g - P.y * Real.sin g, b + P.x * Real.sin g + P.y * Real.cos g, P.th + g⟩

theorem rsStep_L (v : ℝ) (P : Pose ℝ) :
    rsStep .L v P = ⟨P.x + Real.sin (P.th + v) - Real.sin P.th, P.y - Real.cos (P.th + v) + Real.cos P.th, P.th + v⟩ := rfl
theorem rsStep_R (v : ℝ) (P : Pose ℝ) :
    rsStep .R v P = ⟨P.x - Real.sin (P.th - v) + Real.sin P.th, P.y + Real.cos (P.th - v) - Real.cos P.th, P.th - v⟩ := rfl
theorem rsStep_S (v : ℝ) (P : Pose ℝ) :
    rsStep .S v P = ⟨P.x + v * Real.cos P.th, P.y + v * Real.sin P.th, P.th⟩ := rfl
theorem rsStep_N (v : ℝ) (P : Pose ℝ) : rsStep .N v P = P := rfl

/-- (1) one step commutes with a rigid motion of the start pose -/
theorem rsStep_move (s : RSeg) (v a b g : ℝ) (P : Pose ℝ) :
    rsStep s v (move a b g P) = move a b g (rsStep s v P) := by
  obtain ⟨x, y, th⟩ := P
  cases s
  · rfl
  · rw [rsStep_L, rsStep_L]
    simp only [move]
    have e1 : th + g + v = (th + v) + g := by ring
    rw [e1, Real.sin_add (th + v) g, Real.cos_add (th + v) g, Real.sin_add th g, Real.cos_add th g]
    refine congr (congr (congrArg Pose.mk ?_) ?_) rfl <;> ring
  · rw [rsStep_S, rsStep_S]
    simp only [move]
    rw [Real.sin_add th g, Real.cos_add th g]
    refine congr (congr (congrArg Pose.mk ?_) ?_) rfl <;> ring
  · rw [rsStep_R, rsStep_R]
    simp only [move]
    have e1 : th + g - v = (th - v) + g := by ring
    rw [e1, Real.sin_add (th - v) g, Real.cos_add (th - v) g, Real.sin_add th g, Real.cos_add th g]
    refine congr (congr (congrArg Pose.mk ?_) ?_) rfl <;> ring

theorem rsIntegFull_move (W : List (RSeg × ℝ)) (a b g : ℝ) (P : Pose ℝ) :
    rsIntegFull W (move a b g P) = move a b g (rsIntegFull W P) := by
  induction W generalizing P with
  | nil => rfl
  | cons hd tl ih =>
    obtain ⟨s, l⟩ := hd
    show rsIntegFull tl (rsStep s l (move a b g P)) = move a b g (rsIntegFull tl (rsStep s l P))
    rw [rsStep_move, ih]

theorem rsIntegFull_append (W W' : List (RSeg × ℝ)) (P : Pose ℝ) :
    rsIntegFull (W ++ W') P = rsIntegFull W' (rsIntegFull W P) := by
  induction W generalizing P with
  | nil => rfl
  | cons hd tl ih =>
    obtain ⟨s, l⟩ := hd
    show rsIntegFull (tl ++ W') (rsStep s l P) = rsIntegFull W' (rsIntegFull tl (rsStep s l P))
    exact ih _

/-- driving `-v` after `v` along the same letter returns to the start -/
theorem rsStep_neg_cancel (s : RSeg) (v : ℝ) (P : Pose ℝ) : rsStep s (-v) (rsStep s v P) = P := by
  cases s
  · rfl
  · show stepFwd .L (-v) (stepFwd .L v P) = P
    rw [← stepFwd_add, add_neg_cancel, stepFwd_zero]
  · show stepFwd .S (-v) (stepFwd .S v P) = P
    rw [← stepFwd_add, add_neg_cancel, stepFwd_zero]
  · show stepFwd .R (-v) (stepFwd .R v P) = P
    rw [← stepFwd_add, add_neg_cancel, stepFwd_zero]

/-- all lengths negated -/
def negAll (W : List (RSeg × ℝ)) : List (RSeg × ℝ) := W.map (fun sl => (sl.1, -sl.2))

/-- (2) the reversed word with negated lengths undoes the word -/
theorem rs_retrace (W : List (RSeg × ℝ)) (P : Pose ℝ) :
    rsIntegFull (negAll W.reverse) (rsIntegFull W P) = P := by
  induction W generalizing P with
  | nil => rfl
  | cons hd tl ih =>
    obtain ⟨s, l⟩ := hd
    have : negAll ((s, l) :: tl).reverse = negAll tl.reverse ++ [(s, -l)] := by
      simp [negAll]
    rw [this, rsIntegFull_append]
    show rsIntegFull [(s, -l)] (rsIntegFull (negAll tl.reverse) (rsIntegFull tl (rsStep s l P))) = P
    rw [ih]
    exact rsStep_neg_cancel s l P

/-- timeflip of a pose: mirror in the y axis -/
def tflipP (P : Pose ℝ) : Pose ℝ := ⟨-P.x, P.y, -P.th⟩

theorem rsStep_neg_tflip (s : RSeg) (v : ℝ) (P : Pose ℝ) :
    rsStep s (-v) (tflipP P) = tflipP (rsStep s v P) := by
  obtain ⟨x, y, th⟩ := P
  cases s
  · rfl
  · rw [rsStep_L, rsStep_L]
    simp only [tflipP]
    have e1 : -th + -v = -(th + v) := by ring
    rw [e1, Real.sin_neg, Real.cos_neg, Real.sin_neg, Real.cos_neg]
    refine congr (congr (congrArg Pose.mk ?_) ?_) ?_ <;> ring
  · rw [rsStep_S, rsStep_S]
    simp only [tflipP]
    rw [Real.sin_neg, Real.cos_neg]
    refine congr (congr (congrArg Pose.mk ?_) ?_) rfl <;> ring
  · rw [rsStep_R, rsStep_R]
    simp only [tflipP]
    have e1 : -th - -v = -(th - v) := by ring
    rw [e1, Real.sin_neg, Real.cos_neg, Real.sin_neg, Real.cos_neg]
    refine congr (congr (congrArg Pose.mk ?_) ?_) ?_ <;> ring

/-- (3) negating all lengths mirrors the driven curve in the y axis -/
theorem rsIntegFull_negAll (W : List (RSeg × ℝ)) (P : Pose ℝ) :
    rsIntegFull (negAll W) (tflipP P) = tflipP (rsIntegFull W P) := by
  induction W generalizing P with
  | nil => rfl
  | cons hd tl ih =>
    obtain ⟨s, l⟩ := hd
    show rsIntegFull (negAll tl) (rsStep s (-l) (tflipP P)) = tflipP (rsIntegFull tl (rsStep s l P))
    rw [rsStep_neg_tflip, ih]

theorem negAll_negAll (W : List (RSeg × ℝ)) : negAll (negAll W) = W := by
  induction W with
  | nil => rfl
  | cons hd tl ih =>
    obtain ⟨s, l⟩ := hd
    show (s, - -l) :: negAll (negAll tl) = (s, l) :: tl
    rw [ih, neg_neg]

/-- the origin pose -/
def origin : Pose ℝ := ⟨0, 0, 0⟩

theorem move_origin (a b g : ℝ) : move a b g origin = ⟨a, b, g⟩ := by
  simp [move, origin]

/-- the reversed word with negated lengths, driven from the origin, ends at the inverse rigid motion of
the word's own end pose -/
theorem rs_reverse_neg_reaches (W : List (RSeg × ℝ)) (xb yb ph : ℝ)
    (h : rsIntegFull W origin = ⟨xb, yb, ph⟩) :
    rsIntegFull (negAll W.reverse) origin =
      ⟨-(xb * Real.cos ph + yb * Real.sin ph), xb * Real.sin ph - yb * Real.cos ph, -ph⟩ := by
  have hr := rs_retrace W origin
  rw [h] at hr
  -- move the start pose ⟨xb, yb, ph⟩ to the origin
  have hm : move (-(xb * Real.cos ph + yb * Real.sin ph)) (xb * Real.sin ph - yb * Real.cos ph) (-ph) ⟨xb, yb, ph⟩ = origin := by
    simp only [move, origin, Real.cos_neg, Real.sin_neg]
    refine congr (congr (congrArg Pose.mk ?_) ?_) ?_
    · have := Real.cos_sq_add_sin_sq ph; nlinarith [this]
    · ring
    · ring
  have := rsIntegFull_move (negAll W.reverse) (-(xb * Real.cos ph + yb * Real.sin ph))
    (xb * Real.sin ph - yb * Real.cos ph) (-ph) ⟨xb, yb, ph⟩
  rw [hm, hr, move_origin] at this
  exact this

theorem tflipP_origin : tflipP origin = origin := by simp [tflipP, origin]

/-- **the reversed word** (same signed lengths, opposite order), driven from the origin, ends at
`(xb cos φ + yb sin φ, xb sin φ − yb cos φ, φ)` when the word ends at `(xb, yb, φ)` -/
theorem rs_reverse_reaches (W : List (RSeg × ℝ)) (xb yb ph : ℝ)
    (h : rsIntegFull W origin = ⟨xb, yb, ph⟩) :
    rsIntegFull W.reverse origin =
      ⟨xb * Real.cos ph + yb * Real.sin ph, xb * Real.sin ph - yb * Real.cos ph, ph⟩ := by
  have h1 := rs_reverse_neg_reaches W xb yb ph h
  have h2 := rsIntegFull_negAll (negAll W.reverse) origin
  rw [negAll_negAll, tflipP_origin, h1] at h2
  rw [h2]
  simp [tflipP]

/-- **the code's backwards transform**: if a word reaches `(backX x y φ, backY x y φ)` with heading `φ'`
where `φ' = φ + 2πk`, the reversed word reaches `(x, y)` with heading `φ'`. -/
theorem rs_backwards (W : List (RSeg × ℝ)) (x y ph ph' : ℝ) (k : ℤ) (hk : ph' = ph + k * (2 * Real.pi))
    (h : rsIntegFull W origin = ⟨x * Real.cos ph + y * Real.sin ph, x * Real.sin ph - y * Real.cos ph, ph'⟩) :
    rsIntegFull W.reverse origin = ⟨x, y, ph'⟩ := by
  rw [rs_reverse_reaches W _ _ _ h]
  have hc : Real.cos ph' = Real.cos ph := by rw [hk]; exact Real.cos_add_int_mul_two_pi ph k
  have hs : Real.sin ph' = Real.sin ph := by rw [hk]; exact Real.sin_add_int_mul_two_pi ph k
  rw [hc, hs]
  have := Real.cos_sq_add_sin_sq ph
  refine congr (congr (congrArg Pose.mk ?_) ?_) rfl
  · linear_combination x * this
  · linear_combination y * this

end OmplModel.RS
