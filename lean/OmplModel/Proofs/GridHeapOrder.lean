import OmplModel.Proofs.GridHeap
/-!
Heap order for the binary-heap model `OmplModel.Heap`: for a strict weak order `lt`, every public
operation preserves `HeapOrdered`, `build` establishes it, and the top is a minimum.

The internal invariants (`OrderedFrom`, `UpInv`, `DownInv`, `HoleInv`) are stated division-free
(`Child p c : c = 2p+1 ∨ c = 2p+2`) and related to `HeapOrdered` by `orderedFrom_zero`.
-/
namespace OmplModel.Heap
variable {κ : Type}

structure StrictWeak {κ} (lt : κ → κ → Bool) : Prop where
  irrefl : ∀ a, lt a a = false
  trans : ∀ a b c, lt a b = true → lt b c = true → lt a c = true
  /-- transitivity of "not less" (negative transitivity) -/
  incomp_trans : ∀ a b c, lt a b = false → lt b c = false → lt a c = false

theorem StrictWeak.asymm {lt : κ → κ → Bool} (sw : StrictWeak lt) {a b : κ} (h : lt a b = true) :
    lt b a = false := by
  cases hba : lt b a with
  | false => rfl
  | true => have := sw.trans a b a h hba; rw [sw.irrefl] at this; cases this

def HeapOrdered {κ} (lt : κ → κ → Bool) (a : Array (Elem κ)) : Prop :=
  ∀ i (hi : i < a.size), 0 < i → lt a[i].key (a[(i - 1) / 2]'(by omega)).key = false

/-- `c` is a child slot of `p` -/
abbrev Child (p c : Nat) : Prop := c = 2 * p + 1 ∨ c = 2 * p + 2

/-- edges whose parent index is at least `k` are in order (division-free form) -/
def OrderedFrom (lt : κ → κ → Bool) (a : Array (Elem κ)) (k : Nat) : Prop :=
  ∀ p c (hc : c < a.size), k ≤ p → (hpc : Child p c) →
    lt a[c].key (a[p]'(by unfold Child at hpc; omega)).key = false

theorem orderedFrom_zero {lt : κ → κ → Bool} {a : Array (Elem κ)} :
    OrderedFrom lt a 0 ↔ HeapOrdered lt a := by
  constructor
  · intro h j hj hj0
    exact h ((j - 1) / 2) j hj (Nat.zero_le _) (by unfold Child; omega)
  · intro h p c hc _ hpc
    have := h c hc (by unfold Child at hpc; omega)
    have e : (c - 1) / 2 = p := by unfold Child at hpc; omega
    simpa only [e] using this

def UpInv (lt : κ → κ → Bool) (a : Array (Elem κ)) (i : Nat) : Prop :=
  (∀ p c (hc : c < a.size), c ≠ i → (hpc : Child p c) →
    lt a[c].key (a[p]'(by unfold Child at hpc; omega)).key = false) ∧
  (∀ q c (hc : c < a.size), (hqi : Child q i) → (hic : Child i c) →
    lt a[c].key (a[q]'(by unfold Child at hqi hic; omega)).key = false)

theorem upInv_swap {lt : κ → κ → Bool} (sw : StrictWeak lt) (a : Array (Elem κ)) (i p0 : Nat)
    (hi : i < a.size) (hp : Child p0 i) (hlt : lt a[i].key (a[p0]'(by unfold Child at hp; omega)).key = true)
    (inv : UpInv lt a i) : UpInv lt (a.swap i p0 hi (by unfold Child at hp; omega)) p0 := by
  obtain ⟨h1, h2⟩ := inv
  have has := sw.asymm hlt
  have ht := sw.trans
  have hn := sw.incomp_trans
  unfold Child at *
  constructor
  · intro p c hc hci hpc
    simp only [Array.size_swap] at hc
    simp only [Array.getElem_swap]
    grind
  · intro q c hc hqi hic
    simp only [Array.size_swap] at hc
    simp only [Array.getElem_swap]
    grind

theorem siftUp_ordered' {lt : κ → κ → Bool} (sw : StrictWeak lt) (a : Array (Elem κ)) (i : Nat)
    (inv : UpInv lt a i) : OrderedFrom lt (siftUp lt a i) 0 := by
  fun_induction siftUp lt a i with
  | case1 a i h hlt ih =>
    exact ih (upInv_swap sw a i ((i - 1) / 2) h.2 (by unfold Child; omega) hlt inv)
  | case2 a i h hlt =>
    intro p c hc _ hpc
    by_cases hci : c = i
    · subst hci
      have e : (c - 1) / 2 = p := by unfold Child at hpc; omega
      simp only [e] at hlt
      simpa using hlt
    · exact inv.1 p c hc hci hpc
  | case3 a i h =>
    intro p c hc _ hpc
    exact inv.1 p c hc (by unfold Child at hpc; omega) hpc


/-- among the edges with parent index `≥ k`, all are in order except possibly those from `i` to
its children; the children of `i` are not below the parent of `i` (when that edge counts). -/
def DownInv (lt : κ → κ → Bool) (a : Array (Elem κ)) (k i : Nat) : Prop :=
  (∀ p c (hc : c < a.size), k ≤ p → p ≠ i → (hpc : Child p c) →
    lt a[c].key (a[p]'(by unfold Child at hpc; omega)).key = false) ∧
  (∀ q c (hc : c < a.size), k ≤ q → (hqi : Child q i) → (hic : Child i c) →
    lt a[c].key (a[q]'(by unfold Child at hqi hic; omega)).key = false)

theorem downInv_swap {lt : κ → κ → Bool} (sw : StrictWeak lt) (a : Array (Elem κ)) (k i c0 : Nat)
    (hc0 : c0 < a.size) (hch : Child i c0)
    (hlt : lt a[c0].key (a[i]'(by unfold Child at hch; omega)).key = true)
    (hsib : ∀ c (hc : c < a.size), Child i c → lt a[c].key a[c0].key = false)
    (inv : DownInv lt a k i) :
    DownInv lt (a.swap c0 i hc0 (by unfold Child at hch; omega)) k c0 := by
  obtain ⟨h1, h2⟩ := inv
  have has := sw.asymm hlt
  unfold Child at *
  constructor
  · intro p c hc hk hpi hpc
    simp only [Array.size_swap] at hc
    simp only [Array.getElem_swap]
    grind
  · intro q c hc hk hqi hic
    simp only [Array.size_swap] at hc
    simp only [Array.getElem_swap]
    grind

theorem siftDown_ordered {lt : κ → κ → Bool} (sw : StrictWeak lt) (a : Array (Elem κ)) (k i : Nat)
    (inv : DownInv lt a k i) : OrderedFrom lt (siftDown lt a i) k := by
  fun_induction siftDown lt a i with
  | case1 a i h h1 h2 ih =>
    refine ih (downInv_swap sw a k i (2 * i + 1) (by omega) (.inl rfl) h2 ?_ inv)
    intro c hc hic
    rcases hic with rfl | rfl
    · exact sw.irrefl _
    · exact sw.asymm h1
  | case2 a i h h1 h2 =>
    obtain ⟨i1, i2⟩ := inv
    have a1 := sw.asymm h1
    have hn := sw.incomp_trans _ _ _ a1 (Bool.eq_false_iff.2 h2)
    intro p c hc hk hpc
    unfold Child at *
    grind
  | case3 a i h h1 h2 ih =>
    refine ih (downInv_swap sw a k i (2 * i + 2) (by omega) (.inr rfl) h2 ?_ inv)
    intro c hc hic
    rcases hic with rfl | rfl
    · exact Bool.eq_false_iff.2 h1
    · exact sw.irrefl _
  | case4 a i h h1 h2 =>
    obtain ⟨i1, i2⟩ := inv
    have hn := sw.incomp_trans _ _ _ (Bool.eq_false_iff.2 h1) (Bool.eq_false_iff.2 h2)
    intro p c hc hk hpc
    unfold Child at *
    grind
  | case5 a i h h2 h3 =>
    have := downInv_swap sw a k i (2 * i + 1) (by omega) (.inl rfl) h3 (by
      intro c hc hic
      rcases hic with rfl | rfl
      · exact sw.irrefl _
      · omega) inv
    obtain ⟨i1, i2⟩ := this
    intro p c hc hk hpc
    simp only [Array.size_swap] at hc
    exact i1 p c (by simpa using hc) hk (by unfold Child at hpc; omega) hpc
  | case6 a i h h2 h3 =>
    obtain ⟨i1, i2⟩ := inv
    intro p c hc hk hpc
    unfold Child at *
    grind
  | case7 a i h h2 =>
    obtain ⟨i1, i2⟩ := inv
    intro p c hc hk hpc
    exact i1 p c hc hk (by unfold Child at hpc; omega) hpc


/-! ### build -/

theorem buildLoop_ordered {lt : κ → κ → Bool} (sw : StrictWeak lt) (a : Array (Elem κ)) (k : Nat)
    (h : OrderedFrom lt a k) : OrderedFrom lt (buildLoop lt a k) 0 := by
  induction k generalizing a with
  | zero => exact h
  | succ k ih =>
    apply ih
    apply siftDown_ordered sw
    constructor
    · intro p c hc hk hpk hpc
      exact h p c hc (by omega) hpc
    · intro q c hc hk hqi hic
      unfold Child at hqi; omega

theorem build_ordered {lt : κ → κ → Bool} (sw : StrictWeak lt) (a : Array (Elem κ)) :
    HeapOrdered lt (build lt a) := by
  apply orderedFrom_zero.1
  apply buildLoop_ordered sw
  intro p c hc hk hpc
  unfold Child at hpc; omega

/-! ### siftUp then siftDown after overwriting one slot -/

/-- all edges not touching `i` are in order, and the children of `i` are not below its parent -/
def HoleInv (lt : κ → κ → Bool) (a : Array (Elem κ)) (i : Nat) : Prop :=
  (∀ p c (hc : c < a.size), c ≠ i → p ≠ i → (hpc : Child p c) →
    lt a[c].key (a[p]'(by unfold Child at hpc; omega)).key = false) ∧
  (∀ q c (hc : c < a.size), (hqi : Child q i) → (hic : Child i c) →
    lt a[c].key (a[q]'(by unfold Child at hqi hic; omega)).key = false)

theorem holeInv_swap {lt : κ → κ → Bool} (sw : StrictWeak lt) (a : Array (Elem κ)) (i p0 : Nat)
    (hi : i < a.size) (hp : Child p0 i) (hlt : lt a[i].key (a[p0]'(by unfold Child at hp; omega)).key = true)
    (inv : HoleInv lt a i) : UpInv lt (a.swap i p0 hi (by unfold Child at hp; omega)) p0 := by
  obtain ⟨h1, h2⟩ := inv
  have has := sw.asymm hlt
  have ht := sw.trans
  have hn := sw.incomp_trans
  unfold Child at *
  constructor
  · intro p c hc hci hpc
    simp only [Array.size_swap] at hc
    simp only [Array.getElem_swap]
    grind
  · intro q c hc hqi hic
    simp only [Array.size_swap] at hc
    simp only [Array.getElem_swap]
    grind

theorem orderedFrom_zero_downInv {lt : κ → κ → Bool} (sw : StrictWeak lt) {a : Array (Elem κ)}
    (h : OrderedFrom lt a 0) (i : Nat) : DownInv lt a 0 i := by
  constructor
  · intro p c hc hk _ hpc; exact h p c hc hk hpc
  · intro q c hc hk hqi hic
    have hi : i < a.size := by unfold Child at hic; omega
    exact sw.incomp_trans _ _ _ (h i c hc (Nat.zero_le _) hic) (h q i hi hk hqi)

theorem siftUp_downInv {lt : κ → κ → Bool} (sw : StrictWeak lt) (a : Array (Elem κ)) (i : Nat)
    (inv : HoleInv lt a i) : DownInv lt (siftUp lt a i) 0 i := by
  rw [siftUp]
  split
  · rename_i h
    split
    · rename_i hlt
      apply orderedFrom_zero_downInv sw
      apply siftUp_ordered' sw
      exact holeInv_swap sw a i ((i - 1) / 2) h.2 (by unfold Child; omega) hlt inv
    · rename_i hlt
      constructor
      · intro p c hc _ hpi hpc
        by_cases hci : c = i
        · subst hci
          have e : (c - 1) / 2 = p := by unfold Child at hpc; omega
          simp only [e] at hlt
          simpa using hlt
        · exact inv.1 p c hc hci hpi hpc
      · intro q c hc _ hqi hic; exact inv.2 q c hc hqi hic
  · rename_i h
    constructor
    · intro p c hc _ hpi hpc
      exact inv.1 p c hc (by unfold Child at hpc; omega) hpi hpc
    · intro q c hc _ hqi hic; exact inv.2 q c hc hqi hic

theorem siftUp_siftDown_ordered {lt : κ → κ → Bool} (sw : StrictWeak lt) (a : Array (Elem κ))
    (i : Nat) (inv : HoleInv lt a i) : HeapOrdered lt (siftDown lt (siftUp lt a i) i) :=
  orderedFrom_zero.1 (siftDown_ordered sw _ 0 i (siftUp_downInv sw a i inv))


/-! ### the public operations preserve `HeapOrdered` -/

theorem Heap.insert_ordered {lt : κ → κ → Bool} (sw : StrictWeak lt) (s : Heap κ) (k : κ)
    (h : HeapOrdered lt s.arr) : HeapOrdered lt (s.insert lt k).arr := by
  have h0 := orderedFrom_zero.2 h
  unfold Heap.insert
  apply orderedFrom_zero.1
  apply siftUp_ordered' sw
  simp only [Array.size_push, Nat.add_sub_cancel]
  constructor
  · intro p c hc hci hpc
    simp only [Array.size_push] at hc
    have hc' : c < s.arr.size := by omega
    have hp' : p < s.arr.size := by unfold Child at hpc; omega
    simp only [Array.getElem_push, hc', hp', dite_true]
    exact h0 p c hc' (Nat.zero_le _) hpc
  · intro q c hc hqi hic
    simp only [Array.size_push] at hc
    unfold Child at hic; omega

theorem holeInv_set {lt : κ → κ → Bool} (sw : StrictWeak lt) (a : Array (Elem κ)) (p : Nat)
    (hp : p < a.size) (e : Elem κ) (h : HeapOrdered lt a) : HoleInv lt (a.set p e hp) p := by
  have h0 := orderedFrom_zero.2 h
  constructor
  · intro q c hc hcp hqp hqc
    simp only [Array.size_set] at hc
    simp only [Array.getElem_set, Ne.symm hcp, Ne.symm hqp, if_false]
    exact h0 q c hc (Nat.zero_le _) hqc
  · intro q c hc hqp hpc
    simp only [Array.size_set] at hc
    have e1 : p ≠ c := by unfold Child at hpc; omega
    have e2 : p ≠ q := by unfold Child at hqp; omega
    simp only [Array.getElem_set, e1, e2, if_false]
    exact sw.incomp_trans _ _ _ (h0 p c hc (Nat.zero_le _) hpc) (h0 q p hp (Nat.zero_le _) hqp)

theorem Heap.setKey_ordered {lt : κ → κ → Bool} (sw : StrictWeak lt) (s : Heap κ) (h : Nat) (k : κ)
    (ho : HeapOrdered lt s.arr) : HeapOrdered lt (s.setKey lt h k).arr := by
  unfold Heap.setKey
  split
  · split
    · exact siftUp_siftDown_ordered sw _ _ (holeInv_set sw _ _ _ _ ho)
    · exact ho
  · exact ho

theorem pop_ordered {lt : κ → κ → Bool} (a : Array (Elem κ)) (h : HeapOrdered lt a) :
    HeapOrdered lt a.pop := by
  intro i hi hi0
  simp only [Array.size_pop] at hi
  simp only [Array.getElem_pop]
  exact h i (by omega) hi0

theorem removePos_ordered {lt : κ → κ → Bool} (sw : StrictWeak lt) (a : Array (Elem κ)) (p : Nat)
    (h : HeapOrdered lt a) : HeapOrdered lt (removePos lt a p) := by
  unfold removePos
  split
  · rename_i hp
    apply siftUp_siftDown_ordered sw
    have h0 := orderedFrom_zero.2 h
    constructor
    · intro q c hc hcp hqp hqc
      simp only [Array.size_pop, Array.size_swap] at hc
      have e1 : c ≠ a.size - 1 := by omega
      have e2 : q ≠ a.size - 1 := by unfold Child at hqc; omega
      simp only [Array.getElem_pop, Array.getElem_swap, hcp, hqp, e1, e2, if_false]
      exact h0 q c (by omega) (Nat.zero_le _) hqc
    · intro q c hc hqp hpc
      simp only [Array.size_pop, Array.size_swap] at hc
      have e1 : c ≠ a.size - 1 := by omega
      have e2 : q ≠ a.size - 1 := by unfold Child at hqp; omega
      have e3 : c ≠ p := by unfold Child at hpc; omega
      have e4 : q ≠ p := by unfold Child at hqp; omega
      simp only [Array.getElem_pop, Array.getElem_swap, e1, e2, e3, e4, if_false]
      exact sw.incomp_trans _ _ _ (h0 p c (by omega) (Nat.zero_le _) hpc)
        (h0 q p (by omega) (Nat.zero_le _) hqp)
  · exact pop_ordered a h

theorem Heap.remove_ordered {lt : κ → κ → Bool} (sw : StrictWeak lt) (s : Heap κ) (h : Nat)
    (ho : HeapOrdered lt s.arr) : HeapOrdered lt (s.remove lt h).arr := by
  unfold Heap.remove
  split
  · exact removePos_ordered sw _ _ ho
  · exact ho

theorem Heap.pop_ordered {lt : κ → κ → Bool} (sw : StrictWeak lt) (s : Heap κ)
    (ho : HeapOrdered lt s.arr) : HeapOrdered lt (s.pop lt).arr := by
  unfold Heap.pop
  split
  · exact ho
  · exact removePos_ordered sw _ _ ho

theorem Heap.pokeRebuild_ordered {lt : κ → κ → Bool} (sw : StrictWeak lt) (s : Heap κ)
    (chg : List (Nat × κ)) : HeapOrdered lt (s.pokeRebuild lt chg).arr :=
  build_ordered sw _

theorem Heap.buildFrom_ordered {lt : κ → κ → Bool} (sw : StrictWeak lt) (s : Heap κ)
    (ks : List κ) : HeapOrdered lt (s.buildFrom lt ks).arr :=
  build_ordered sw _

theorem Heap.clear_ordered (lt : κ → κ → Bool) (s : Heap κ) : HeapOrdered lt s.clear.arr := by
  intro i hi; simp [Heap.clear] at hi

theorem Heap.empty_ordered (lt : κ → κ → Bool) : HeapOrdered lt ({} : Heap κ).arr := by
  intro i hi; simp at hi

/-! ### the top is a minimum -/

theorem heapOrdered_root_le {lt : κ → κ → Bool} (sw : StrictWeak lt) {a : Array (Elem κ)}
    (ho : HeapOrdered lt a) (j : Nat) (hj : j < a.size) :
    lt a[j].key (a[0]'(by omega)).key = false := by
  induction j using Nat.strongRecOn with
  | _ j ih =>
    by_cases hj0 : j = 0
    · subst hj0; exact sw.irrefl _
    · exact sw.incomp_trans _ _ _ (ho j hj (by omega)) (ih ((j - 1) / 2) (by omega) (by omega))

theorem top_min {lt : κ → κ → Bool} {s : Heap κ} {e : Elem κ} (sw : StrictWeak lt)
    (ho : HeapOrdered lt s.arr) (ht : s.top = some e) : ∀ p ∈ s.items, lt p.2 e.key = false := by
  intro p hp
  unfold Heap.items at hp
  obtain ⟨x, hx, rfl⟩ := List.mem_map.1 hp
  obtain ⟨j, hj, rfl⟩ := List.getElem_of_mem hx
  unfold Heap.top at ht
  have h0 : 0 < s.arr.size := by simp at hj; omega
  have he : e = s.arr[0] := by
    rw [Array.getElem?_eq_getElem h0] at ht; exact (Option.some.inj ht).symm
  subst he
  simpa using heapOrdered_root_le sw ho j (by simpa using hj)

end OmplModel.Heap
