import OmplModel.Proofs.SpaceInterpCompoundSO3
import OmplModel.Proofs.SpaceInterpKlein
/-!
C07, bounds for *every* space over ℝ (fixed tree): SO(3) components with exactly-unit quaternions
(`unitQuats`) and Klein-bottle components with `u` in the exact range `[0, π]` (`kleinRange`).
-/
open scoped OmplModel.SpaceInterp.RealNum
attribute [-instance] OmplModel.Num.instOfNat

namespace OmplModel.SpaceInterp
open OmplModel OmplModel.Space Real RealNum

/-- every Klein-bottle component of the state has its u coordinate in `[0, π]` exactly (the coded
bounds predicate allows `[-eps, π + eps]`) -/
def kleinRange : Space ℝ → St ℝ → Prop
  | .klein, .ccons (.rv [u]) _ => 0 ≤ u ∧ u ≤ π
  | .ccons _ h tl, .ccons sh st => kleinRange h sh ∧ kleinRange tl st
  | .wrap s, st => kleinRange s st
  | _, _ => True

theorem interpolate_inBounds_all (sp : Space ℝ) (a b : St ℝ) (t : ℝ)
    (hwa : wellTyped sp a = true) (hwb : wellTyped sp b = true)
    (hba : inBounds sp a = true) (hbb : inBounds sp b = true)
    (hua : unitQuats sp a) (hub : unitQuats sp b) (hka : kleinRange sp a) (hkb : kleinRange sp b)
    (ht0 : 0 ≤ t) (ht1 : t ≤ 1) :
    inBounds sp (interpolate sp a b t) = true := by
  induction sp generalizing a b with
  | so3 => exact interpolate_inBounds_so3 _ a b t (by simp [noKlein]) hwa hwb hba hbb hua hub ht0 ht1
  | klein =>
    obtain ⟨u1, v1, rfl⟩ := wellTyped_klein hwa
    obtain ⟨u2, v2, rfl⟩ := wellTyped_klein hwb
    simp only [kleinRange] at hka hkb
    simp only [inBounds, Bool.and_eq_true, so2InB_iff] at hba hbb
    have := kleinInterp_inB (t := t) hka.1 hka.2 hkb.1 hkb.2 hba.2.1 hba.2.2 hbb.2.1 hbb.2.2 ht0 ht1
    simp only [interpolateW, inBounds, Bool.and_eq_true, so2InB_iff, rvInB_cons]
    simp only [rvInB, and_true, pi_eq, ofNat_zero]
    refine ⟨⟨?_, ?_⟩, this.2⟩ <;> linarith [this.1.1, this.1.2, dblEps_pos]
  | ccons w h tl ih1 ih2 =>
    obtain ⟨ah, at', rfl, ha1, ha2⟩ := wellTyped_ccons hwa
    obtain ⟨bh, bt, rfl, hb1, hb2⟩ := wellTyped_ccons hwb
    simp only [inBounds, Bool.and_eq_true, unitQuats, kleinRange] at hba hbb hua hub hka hkb
    simp only [interpolateW, inBounds, Bool.and_eq_true]
    exact ⟨ih1 ah bh ha1 hb1 hba.1 hbb.1 hua.1 hub.1 hka.1 hkb.1,
      ih2 at' bt ha2 hb2 hba.2 hbb.2 hua.2 hub.2 hka.2 hkb.2⟩
  | wrap s ih =>
    simp only [wellTyped, inBounds, unitQuats, kleinRange] at hwa hwb hba hbb hua hub hka hkb
    simp only [interpolateW, inBounds]; exact ih a b hwa hwb hba hbb hua hub hka hkb
  | _ => exact interpolate_inBounds _ a b t (by simp [noSO3Klein]) hwa hwb hba hbb ht0 ht1

end OmplModel.SpaceInterp
