import OmplModel.Proofs.PhsReal
import OmplModel.Proofs.PhsGeom
import Mathlib.Analysis.InnerProductSpace.PiL2
import Mathlib.Data.List.GetD
import Mathlib.Data.List.OfFn
import Mathlib.Tactic.Linarith
import Mathlib.Tactic.Ring
import Mathlib.Tactic.NormNum
import Mathlib.Tactic.FinCases
/-!
Bridge between the list-based model of `ProlateHyperspheroid` (`Model/Phs.lean` at `α = ℝ`) and the
geometry of `Proofs/PhsGeom.lean`: a list of length `n` is read as a vector of
`EuclideanSpace ℝ (Fin n)`; `vadd/vsub/vscale/vnorm/linComb` are the vector operations; and
`Phs.transform` / `Phs.pathLength` / `Phs.isIn` of a PHS whose rotation has orthonormal columns, the
first one along the focal axis, satisfy the surface / interior / onto theorems in every dimension.
-/
namespace OmplModel.Phs
open OmplModel
attribute [-instance] Num.instOfNat

namespace PhsBridge
open scoped InnerProductSpace

/-! ### lists as Euclidean vectors -/

/-- the list `l` read as a vector of `ℝⁿ` (missing entries are `0`) -/
noncomputable def toE (n : ℕ) (l : List ℝ) : EuclideanSpace ℝ (Fin n) :=
  WithLp.toLp 2 (fun i : Fin n => l.getD i 0)

/-- coordinates of `toE` -/
theorem toE_apply (n : ℕ) (l : List ℝ) (i : Fin n) : toE n l i = l.getD i 0 := rfl

/-- entry of a `zipWith` inside both lists -/
theorem getD_zipWith (f : ℝ → ℝ → ℝ) {a b : List ℝ} {i : ℕ} (ha : i < a.length)
    (hb : i < b.length) : (List.zipWith f a b).getD i 0 = f (a.getD i 0) (b.getD i 0) := by
  have hz : i < (List.zipWith f a b).length := by
    rw [List.length_zipWith]; exact lt_min ha hb
  rw [List.getD_eq_getElem _ _ ha, List.getD_eq_getElem _ _ hb, List.getD_eq_getElem _ _ hz,
    List.getElem_zipWith]

/-- entry of a `map` inside the list -/
theorem getD_map' (f : ℝ → ℝ) {a : List ℝ} {i : ℕ} (ha : i < a.length) :
    (a.map f).getD i 0 = f (a.getD i 0) := by
  have hz : i < (a.map f).length := by rw [List.length_map]; exact ha
  rw [List.getD_eq_getElem _ _ ha, List.getD_eq_getElem _ _ hz, List.getElem_map]

/-- `toE` is injective on lists of the right length -/
theorem toE_inj {n : ℕ} {a b : List ℝ} (ha : a.length = n) (hb : b.length = n)
    (h : toE n a = toE n b) : a = b := by
  refine List.ext_getElem (ha.trans hb.symm) fun i h1 h2 => ?_
  have hi : i < n := ha ▸ h1
  have := congrArg (fun v : EuclideanSpace ℝ (Fin n) => v ⟨i, hi⟩) h
  simp only [toE_apply] at this
  rwa [List.getD_eq_getElem _ _ h1, List.getD_eq_getElem _ _ h2] at this

/-- length of `vadd` -/
theorem vadd_length {n : ℕ} {a b : List ℝ} (ha : a.length = n) (hb : b.length = n) :
    (vadd a b).length = n := by
  rw [vadd, List.length_zipWith, ha, hb, min_self]

/-- length of `vsub` -/
theorem vsub_length {n : ℕ} {a b : List ℝ} (ha : a.length = n) (hb : b.length = n) :
    (vsub a b).length = n := by
  rw [vsub, List.length_zipWith, ha, hb, min_self]

/-- length of `vscale` -/
theorem vscale_length {n : ℕ} (k : ℝ) {a : List ℝ} (ha : a.length = n) :
    (vscale k a).length = n := by
  rw [vscale, List.length_map, ha]

/-- `vadd` is vector addition -/
theorem toE_vadd {n : ℕ} {a b : List ℝ} (ha : a.length = n) (hb : b.length = n) :
    toE n (vadd a b) = toE n a + toE n b := by
  ext i
  rw [PiLp.add_apply, toE_apply, toE_apply, toE_apply, vadd,
    getD_zipWith _ (ha ▸ i.isLt) (hb ▸ i.isLt)]

/-- `vsub` is vector subtraction -/
theorem toE_vsub {n : ℕ} {a b : List ℝ} (ha : a.length = n) (hb : b.length = n) :
    toE n (vsub a b) = toE n a - toE n b := by
  ext i
  rw [PiLp.sub_apply, toE_apply, toE_apply, toE_apply, vsub,
    getD_zipWith _ (ha ▸ i.isLt) (hb ▸ i.isLt)]

/-- `vscale` is scalar multiplication -/
theorem toE_vscale {n : ℕ} (k : ℝ) {a : List ℝ} (ha : a.length = n) :
    toE n (vscale k a) = k • toE n a := by
  ext i
  rw [PiLp.smul_apply, toE_apply, toE_apply, vscale, getD_map' _ (ha ▸ i.isLt)]
  rfl

/-- `zeros` is the zero vector -/
theorem toE_zeros (n : ℕ) : toE n (zeros n : List ℝ) = 0 := by
  ext i
  rw [toE_apply, zeros, List.getD_replicate _ i.isLt, PhsR.ofNat_eq, Nat.cast_zero]
  rfl

/-- length of `zeros` -/
theorem zeros_length (n : ℕ) : (zeros n : List ℝ).length = n := by
  rw [zeros, List.length_replicate]

/-- the sum-of-squares fold with an arbitrary start value -/
theorem foldl_sq : ∀ (a : List ℝ) (n : ℕ), a.length = n → ∀ s : ℝ,
    a.foldl (fun s x => s + x * x) s = s + ∑ i : Fin n, (a.getD i 0) ^ 2
  | [], n, h, s => by
    subst h
    simp only [List.foldl_nil, List.length_nil, Finset.univ_eq_empty, Finset.sum_empty, add_zero]
  | x :: xs, n, h, s => by
    obtain ⟨m, rfl⟩ : ∃ m, n = m + 1 := ⟨xs.length, by rw [← h, List.length_cons]⟩
    have hm : xs.length = m := by rw [List.length_cons] at h; omega
    rw [List.foldl_cons, foldl_sq xs m hm, Fin.sum_univ_succ]
    simp only [Fin.val_zero, Fin.val_succ, List.getD_cons_zero, List.getD_cons_succ]
    ring

/-- `sumSq` is the sum of the squared entries -/
theorem sumSq_eq {n : ℕ} {a : List ℝ} (ha : a.length = n) :
    sumSq a = ∑ i : Fin n, (a.getD i 0) ^ 2 := by
  simp only [sumSq, PhsR.ofNat_eq, Nat.cast_zero]
  exact (foldl_sq a n ha 0).trans (zero_add _)

/-- `sumSq` is the squared Euclidean norm -/
theorem sumSq_eq_norm_sq {n : ℕ} {a : List ℝ} (ha : a.length = n) : sumSq a = ‖toE n a‖ ^ 2 := by
  rw [sumSq_eq ha, EuclideanSpace.real_norm_sq_eq]
  rfl

/-- `vnorm` is the Euclidean norm -/
theorem vnorm_eq {n : ℕ} {a : List ℝ} (ha : a.length = n) : vnorm a = ‖toE n a‖ := by
  rw [vnorm, PhsR.sqrt_eq, sumSq_eq_norm_sq ha, Real.sqrt_sq (norm_nonneg _)]

/-! ### `linComb` is the matrix–vector product `R · diag(d) · u` -/

/-- one accumulation step of `linComb` -/
theorem toE_step {n : ℕ} {acc col : List ℝ} (hacc : acc.length = n) (hcol : col.length = n)
    (d u : ℝ) :
    (vadd acc (col.map (fun r => r * d * u))).length = n ∧
      toE n (vadd acc (col.map (fun r => r * d * u))) = toE n acc + (d * u) • toE n col := by
  have hl : (col.map (fun r => r * d * u)).length = n := by rw [List.length_map, hcol]
  refine ⟨vadd_length hacc hl, ?_⟩
  rw [toE_vadd hacc hl]
  congr 1
  ext i
  rw [PiLp.smul_apply, toE_apply, toE_apply, getD_map' _ (hcol ▸ i.isLt), smul_eq_mul]
  ring

/-- `linComb cols ds us acc` has the length of `acc` and is `acc + Σ_j (d_j u_j) • col_j` -/
theorem linComb_eq (n : ℕ) : ∀ (cols : List (List ℝ)) (m : ℕ) (ds us acc : List ℝ),
    cols.length = m → ds.length = m → us.length = m → (∀ col ∈ cols, col.length = n) →
    acc.length = n →
    (linComb cols ds us acc).length = n ∧
      toE n (linComb cols ds us acc)
        = toE n acc + ∑ j : Fin m, (ds.getD j 0 * us.getD j 0) • toE n (cols.getD j [])
  | [], m, ds, us, acc, hc, _, _, _, hacc => by
    subst hc
    have h0 : linComb ([] : List (List ℝ)) ds us acc = acc := rfl
    rw [h0]
    refine ⟨hacc, ?_⟩
    simp only [List.length_nil, Finset.univ_eq_empty, Finset.sum_empty, add_zero]
  | col :: cols, m, ds, us, acc, hc, hd, hu, hcols, hacc => by
    obtain ⟨k, rfl⟩ : ∃ k, m = k + 1 := ⟨cols.length, by rw [← hc, List.length_cons]⟩
    match ds, us, hd, hu with
    | d :: ds, u :: us, hd, hu =>
      have hc' : cols.length = k := by rw [List.length_cons] at hc; omega
      have hd' : ds.length = k := by rw [List.length_cons] at hd; omega
      have hu' : us.length = k := by rw [List.length_cons] at hu; omega
      have hcol : col.length = n := hcols col (List.mem_cons_self ..)
      have hcols' : ∀ c ∈ cols, c.length = n := fun c hcm => hcols c (List.mem_cons_of_mem _ hcm)
      obtain ⟨hl, he⟩ := toE_step hacc hcol d u
      have ih := linComb_eq n cols k ds us _ hc' hd' hu' hcols' hl
      rw [linComb]
      refine ⟨ih.1, ?_⟩
      rw [ih.2, he, Fin.sum_univ_succ]
      simp only [Fin.val_zero, Fin.val_succ, List.getD_cons_zero, List.getD_cons_succ]
      rw [add_assoc]

/-! ### the PHS of the model -/

/-- column `j` of the rotation as a Euclidean vector -/
noncomputable def colE (n : ℕ) (rot : List (List ℝ)) (j : Fin n) : EuclideanSpace ℝ (Fin n) :=
  toE n (rot.getD j [])

/-- the diagonal `diag(c/2, b, …, b)` of PhsGeom, `b = √(c² - cmin²)/2` -/
noncomputable def diagE (n : ℕ) (c cmin : ℝ) (j : Fin (n + 1)) : ℝ :=
  if j = 0 then c / 2 else Real.sqrt (c ^ 2 - cmin ^ 2) / 2

/-- Well-formedness of the data of a PHS in dimension `n + 1`: sizes, orthonormal columns, distinct
foci, first column along the focal axis. -/
structure Setup (n : ℕ) (f1 f2 : List ℝ) (rot : List (List ℝ)) : Prop where
  len1 : f1.length = n + 1
  len2 : f2.length = n + 1
  lenR : rot.length = n + 1
  lenC : ∀ col ∈ rot, col.length = n + 1
  orth : Orthonormal ℝ (colE (n + 1) rot)
  ne : toE (n + 1) f1 ≠ toE (n + 1) f2
  axis : colE (n + 1) rot 0
    = (1 / ‖toE (n + 1) f2 - toE (n + 1) f1‖) • (toE (n + 1) f2 - toE (n + 1) f1)

/-- entries of `diagOf` -/
theorem diagOf_getD (n : ℕ) (c cmin : ℝ) (j : Fin (n + 1)) :
    (diagOf (n + 1) c cmin).getD j 0 = diagE n c cmin j := by
  have hsq : c * c - cmin * cmin = c ^ 2 - cmin ^ 2 := by ring
  refine Fin.cases ?_ (fun k => ?_) j
  · rw [diagOf, Fin.val_zero, List.getD_cons_zero, diagE, if_pos rfl, PhsR.half_eq]
    ring
  · rw [diagOf, Fin.val_succ, List.getD_cons_succ, List.getD_replicate _ k.isLt, diagE,
      if_neg (Fin.succ_ne_zero k), conjRadius, PhsR.sqrt_eq, PhsR.ofNat_eq, Nat.cast_ofNat, hsq]

/-- length of `diagOf` -/
theorem diagOf_length (n : ℕ) (c cmin : ℝ) : (diagOf (n + 1) c cmin).length = n + 1 := by
  rw [diagOf, List.length_cons, List.length_replicate]

variable {n : ℕ} {f1 f2 : List ℝ} {rot : List (List ℝ)}

/-- `minTransverseDiameter_` is the distance between the foci -/
theorem model_cmin_eq (hs : Setup n f1 f2 rot) (id : ℕ) (c : ℝ) :
    ((Phs.mk' id f1 f2 rot).setC c).cmin = ‖toE (n + 1) f2 - toE (n + 1) f1‖ := by
  show vnorm (vsub f1 f2) = _
  rw [vnorm_eq (vsub_length hs.len1 hs.len2), toE_vsub hs.len1 hs.len2, norm_sub_rev]

/-- `transform` returns the point `centre + R · diag(c/2, b, …, b) · u`. -/
theorem model_transform_eq (hs : Setup n f1 f2 rot) (id : ℕ) (c : ℝ) {u : List ℝ}
    (hu : u.length = n + 1) :
    ∃ x, ((Phs.mk' id f1 f2 rot).setC c).transform u = some x ∧ x.length = n + 1 ∧
      toE (n + 1) x = (1 / 2 : ℝ) • (toE (n + 1) f1 + toE (n + 1) f2)
        + ∑ j : Fin (n + 1),
            (diagE n c ‖toE (n + 1) f2 - toE (n + 1) f1‖ j * u.getD j 0) • colE (n + 1) rot j := by
  have hcm := model_cmin_eq hs id c
  obtain ⟨hl, he⟩ := linComb_eq (n + 1) rot (n + 1)
    (diagOf (n + 1) c ((Phs.mk' id f1 f2 rot).setC c).cmin) u (zeros (n + 1))
    hs.lenR (diagOf_length ..) hu hs.lenC (zeros_length _)
  have hcl : (vscale half (vadd f1 f2)).length = n + 1 :=
    vscale_length _ (vadd_length hs.len1 hs.len2)
  refine ⟨vadd (linComb rot (diagOf (n + 1) c ((Phs.mk' id f1 f2 rot).setC c).cmin) u
    (zeros (n + 1))) (vscale half (vadd f1 f2)), ?_, vadd_length hl hcl, ?_⟩
  · have hdim : ((Phs.mk' id f1 f2 rot).setC c).dim = n + 1 := hs.len1
    rw [Phs.transform, hdim]
    rfl
  · rw [toE_vadd hl hcl, he, toE_zeros, zero_add, toE_vscale _ (vadd_length hs.len1 hs.len2),
      toE_vadd hs.len1 hs.len2, PhsR.half_eq, add_comm (Finset.sum _ _)]
    simp only [diagOf_getD, hcm, colE]

/-- `getPathLength` is the sum of the Euclidean distances to the two foci. -/
theorem model_pathLength_eq (hs : Setup n f1 f2 rot) (id : ℕ) (c : ℝ) {x : List ℝ}
    (hx : x.length = n + 1) :
    ((Phs.mk' id f1 f2 rot).setC c).pathLength x
      = ‖toE (n + 1) x - toE (n + 1) f1‖ + ‖toE (n + 1) x - toE (n + 1) f2‖ := by
  show vnorm (vsub f1 x) + vnorm (vsub x f2) = _
  rw [vnorm_eq (vsub_length hs.len1 hx), vnorm_eq (vsub_length hx hs.len2),
    toE_vsub hs.len1 hx, toE_vsub hx hs.len2, norm_sub_rev]

/-- `isInPhs` is the strict comparison of the focal sum with the transverse diameter -/
theorem model_isIn_iff (id : ℕ) (c : ℝ) (x : List ℝ) :
    ((Phs.mk' id f1 f2 rot).setC c).isIn x = true
      ↔ ((Phs.mk' id f1 f2 rot).setC c).pathLength x < c := by
  rw [Phs.isIn, decide_eq_true_iff]
  exact Iff.rfl

/-- `isOnPhs` is equality of the focal sum with the transverse diameter -/
theorem model_isOn_iff (id : ℕ) (c : ℝ) (x : List ℝ) :
    ((Phs.mk' id f1 f2 rot).setC c).isOn x = true
      ↔ ((Phs.mk' id f1 f2 rot).setC c).pathLength x = c := by
  rw [Phs.isOn, ceq, Bool.and_eq_true, decide_eq_true_iff, decide_eq_true_iff]
  exact ⟨fun h => le_antisymm h.1 h.2, fun h => ⟨h.le, h.ge⟩⟩

/-- Surface: a unit coefficient list is transformed to a point whose focal sum is exactly `c`
(it is on the PHS and not strictly inside). -/
theorem model_phs_surface (hs : Setup n f1 f2 rot) (id : ℕ) (c : ℝ) {u : List ℝ}
    (hu : u.length = n + 1) (hsq : sumSq u = 1)
    (hc : ((Phs.mk' id f1 f2 rot).setC c).cmin ≤ c) :
    ∃ x, ((Phs.mk' id f1 f2 rot).setC c).transform u = some x ∧ x.length = n + 1 ∧
      ((Phs.mk' id f1 f2 rot).setC c).pathLength x = c ∧
      ((Phs.mk' id f1 f2 rot).setC c).isOn x = true ∧
      ((Phs.mk' id f1 f2 rot).setC c).isIn x = false := by
  obtain ⟨x, hx, hl, he⟩ := model_transform_eq hs id c hu
  rw [model_cmin_eq hs] at hc
  rw [sumSq_eq hu] at hsq
  have hpl : ((Phs.mk' id f1 f2 rot).setC c).pathLength x = c := by
    rw [model_pathLength_eq hs id c hl, he]
    simp only [diagE]
    exact PhsGeom.phs_surface_cols hs.orth hs.ne hs.axis hc hsq
  refine ⟨x, hx, hl, hpl, (model_isOn_iff id c x).2 hpl, ?_⟩
  rw [← Bool.not_eq_true, model_isIn_iff, hpl]
  exact lt_irrefl c

/-- Interior: a coefficient list of the open unit ball is transformed to a point strictly inside
the PHS. -/
theorem model_phs_interior (hs : Setup n f1 f2 rot) (id : ℕ) (c : ℝ) {u : List ℝ}
    (hu : u.length = n + 1) (hsq : sumSq u < 1)
    (hc : ((Phs.mk' id f1 f2 rot).setC c).cmin < c) :
    ∃ x, ((Phs.mk' id f1 f2 rot).setC c).transform u = some x ∧ x.length = n + 1 ∧
      ((Phs.mk' id f1 f2 rot).setC c).isIn x = true := by
  obtain ⟨x, hx, hl, he⟩ := model_transform_eq hs id c hu
  rw [model_cmin_eq hs] at hc
  rw [sumSq_eq hu] at hsq
  refine ⟨x, hx, hl, (model_isIn_iff id c x).2 ?_⟩
  rw [model_pathLength_eq hs id c hl, he]
  simp only [diagE]
  exact PhsGeom.phs_interior_cols hs.orth hs.ne hs.axis hsq hc

/-- entries of `List.ofFn` -/
theorem getD_ofFn {m : ℕ} (u : Fin m → ℝ) (j : Fin m) : (List.ofFn u).getD j 0 = u j := by
  have h : (j : ℕ) < (List.ofFn u).length := by rw [List.length_ofFn]; exact j.isLt
  rw [List.getD_eq_getElem _ _ h, List.getElem_ofFn]

/-- Onto: every point (list of the right length) strictly inside the PHS is the transform of a
coefficient list of the open unit ball. -/
theorem model_phs_onto (hs : Setup n f1 f2 rot) (id : ℕ) (c : ℝ)
    (hc : ((Phs.mk' id f1 f2 rot).setC c).cmin < c) (x : List ℝ) (hx : x.length = n + 1)
    (hin : ((Phs.mk' id f1 f2 rot).setC c).isIn x = true) :
    ∃ u : List ℝ, u.length = n + 1 ∧ sumSq u < 1 ∧
      ((Phs.mk' id f1 f2 rot).setC c).transform u = some x := by
  rw [model_cmin_eq hs] at hc
  rw [model_isIn_iff, model_pathLength_eq hs id c hx] at hin
  have hcard : Fintype.card (Fin (n + 1)) = Module.finrank ℝ (EuclideanSpace ℝ (Fin (n + 1))) := by
    rw [finrank_euclideanSpace]
  let B0 := basisOfOrthonormalOfCardEqFinrank hs.orth hcard
  have hB0 : (B0 : Fin (n + 1) → EuclideanSpace ℝ (Fin (n + 1))) = colE (n + 1) rot :=
    coe_basisOfOrthonormalOfCardEqFinrank hs.orth hcard
  let B := B0.toOrthonormalBasis (by rw [hB0]; exact hs.orth)
  have hB : (B : Fin (n + 1) → EuclideanSpace ℝ (Fin (n + 1))) = colE (n + 1) rot := by
    rw [Module.Basis.coe_toOrthonormalBasis]; exact hB0
  have hax : B 0 = (1 / ‖toE (n + 1) f2 - toE (n + 1) f1‖) • (toE (n + 1) f2 - toE (n + 1) f1) := by
    rw [hB]; exact hs.axis
  obtain ⟨v, hv, hvx⟩ := PhsGeom.phs_onto_cols B hs.ne hax hc (toE (n + 1) x) hin
  have hlen : (List.ofFn v).length = n + 1 := List.length_ofFn
  refine ⟨List.ofFn v, hlen, ?_, ?_⟩
  · rw [sumSq_eq hlen]
    simp only [getD_ofFn]
    exact hv
  · obtain ⟨x', hx', hl', he'⟩ := model_transform_eq hs id c hlen
    rw [hx']
    congr 1
    refine toE_inj hl' hx ?_
    rw [he', ← hvx, hB]
    simp only [getD_ofFn, diagE]

/-! ### non-vacuity: a concrete 2-D instance -/

/-- the inner product of two lists read as vectors -/
theorem inner_toE (n : ℕ) (a b : List ℝ) :
    ⟪toE n a, toE n b⟫_ℝ = ∑ i : Fin n, a.getD i 0 * b.getD i 0 := by
  rw [PiLp.inner_apply]
  refine Finset.sum_congr rfl fun i _ => ?_
  rw [toE_apply, toE_apply, RCLike.inner_apply, conj_trivial, mul_comm]

/-- difference of the foci of the example -/
theorem example_diff : toE 2 [3, 0] - toE 2 [-3, 0] = (6 : ℝ) • toE 2 [1, 0] := by
  ext i
  rw [PiLp.sub_apply, PiLp.smul_apply, toE_apply, toE_apply, toE_apply]
  fin_cases i
  · show (3 : ℝ) - -3 = 6 • 1
    norm_num
  · show (0 : ℝ) - 0 = 6 • 0
    norm_num

/-- the hypotheses are satisfiable: foci `(-3, 0)`, `(3, 0)`, identity rotation -/
theorem setup_example : Setup 1 [-3, 0] [3, 0] [[1, 0], [0, 1]] := by
  have horth : Orthonormal ℝ (colE 2 [[1, 0], [0, 1]]) := by
    rw [orthonormal_iff_ite]
    intro i j
    rw [colE, colE, inner_toE, Fin.sum_univ_two]
    fin_cases i <;> fin_cases j <;> simp [-PhsR.ofNat_lit]
  have h1 : ‖toE 2 [1, 0]‖ = 1 := horth.1 0
  refine ⟨rfl, rfl, rfl, ?_, horth, ?_, ?_⟩
  · intro col hcol
    simp only [List.mem_cons, List.not_mem_nil, or_false] at hcol
    rcases hcol with rfl | rfl <;> rfl
  · intro h
    have := congrArg (fun v : EuclideanSpace ℝ (Fin 2) => v 0) h
    simp only [toE_apply, Fin.val_zero, List.getD_cons_zero] at this
    norm_num at this
  · rw [example_diff, norm_smul, h1]
    show toE 2 [1, 0] = _
    rw [smul_smul]
    norm_num

/-- in that instance `cmin = 6 < 10`, so the surface / interior / onto theorems apply with
`c = 10` -/
example (id : ℕ) : ((Phs.mk' id [-3, 0] [3, 0] [[1, 0], [0, 1]]).setC (10 : ℝ)).cmin < 10 := by
  have h1 : ‖toE 2 [1, 0]‖ = 1 := setup_example.orth.1 0
  rw [model_cmin_eq setup_example, example_diff, norm_smul, h1]
  norm_num

/-- end to end on the instance: the unit vector `(1, 0)` is sent onto the PHS with `c = 10` -/
example (id : ℕ) : ∃ x,
    ((Phs.mk' id [-3, 0] [3, 0] [[1, 0], [0, 1]]).setC (10 : ℝ)).transform [1, 0] = some x ∧
      ((Phs.mk' id [-3, 0] [3, 0] [[1, 0], [0, 1]]).setC (10 : ℝ)).pathLength x = 10 := by
  have h1 : ‖toE 2 [1, 0]‖ = 1 := setup_example.orth.1 0
  have hsq : sumSq ([1, 0] : List ℝ) = 1 := by
    rw [sumSq_eq_norm_sq (n := 2) rfl, h1, one_pow]
  have hc : ((Phs.mk' id [-3, 0] [3, 0] [[1, 0], [0, 1]]).setC (10 : ℝ)).cmin ≤ 10 := by
    rw [model_cmin_eq setup_example, example_diff, norm_smul, h1]
    norm_num
  obtain ⟨x, hx, _, hp, _⟩ := model_phs_surface setup_example id 10 rfl hsq hc
  exact ⟨x, hx, hp⟩

end PhsBridge
end OmplModel.Phs
