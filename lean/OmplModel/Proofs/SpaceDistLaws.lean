import OmplModel.Proofs.SpaceDistRv
import OmplModel.Proofs.SpaceDistSO3
import OmplModel.Proofs.SpaceDistSeam
/-!
The metric laws at the level of `Space ℝ` / `St ℝ`, and their lifting through arbitrarily nested
weighted compounds (`compound_laws`, `compound_metric`) and wrappers (`wrap_laws`).

`inDom sp a` is the exact domain of the theorems: the shape of a state of `sp`, values inside the box /
in [-π, π) / a unit quaternion / inside the time bounds.  `inDom_satisfiesBounds` ties it to the code's
`satisfiesBounds` (which accepts an extra ε = 2⁻⁵² around boxes and 1e-9 around the unit sphere).
-/
namespace OmplModel.SpaceDist
open OmplModel
attribute [-instance] OmplModel.Num.instOfNat

/-- exact domain (shape + bounds) of a state of `sp` -/
def inDom : Space ℝ → St ℝ → Prop
  | .rv lo hi, .rv xs => rvIn xs lo hi
  | .so2, .so2 v => so2InBounds v = true
  | .so3, .so3 x y z w => unitQ x y z w
  | .time b lo hi, .time t => b = true → (lo ≤ t ∧ t ≤ hi)
  | .disc lo hi, .disc v => lo ≤ v ∧ v ≤ hi
  | .cnil, .cnil => True
  | .ccons _ h t, .ccons a1 a2 => inDom h a1 ∧ inDom t a2
  | .torus _ _, .ccons (.so2 u) (.ccons (.so2 v) .cnil) => so2InBounds u = true ∧ so2InBounds v = true
  | .mobius imax _, .ccons (.so2 u) (.ccons (.rv [v]) .cnil) => so2InBounds u = true ∧ |v| ≤ imax
  | .klein, .ccons (.rv [u]) (.ccons (.so2 v) .cnil) => (0 ≤ u ∧ u ≤ Real.pi) ∧ so2InBounds v = true
  | .sphere _, .ccons (.so2 t) (.ccons (.rv [p]) .cnil) => so2InBounds t = true ∧ (0 ≤ p ∧ p ≤ Real.pi)
  | .wrap s, a => inDom s a
  | _, _ => False

/-- the five metric laws of `dist sp` on `inDom sp` (positivity w.r.t. the space's own `equalStates`) -/
structure Laws (sp : Space ℝ) : Prop where
  nonneg : ∀ a b, inDom sp a → inDom sp b → 0 ≤ dist sp a b
  self : ∀ a, inDom sp a → dist sp a a = 0
  pos : ∀ a b, inDom sp a → inDom sp b → equalStates sp a b = false → 0 < dist sp a b
  symm : ∀ a b, inDom sp a → inDom sp b → dist sp a b = dist sp b a
  triangle : ∀ a b c, inDom sp a → inDom sp b → inDom sp c → dist sp a c ≤ dist sp a b + dist sp b c

/-- the sixth law: never larger than the reported maximum extent -/
def ExtentLaw (sp : Space ℝ) : Prop := ∀ a b, inDom sp a → inDom sp b → dist sp a b ≤ maxExtent sp

/-! ### leaves -/
theorem rvIn_length : ∀ (xs lo hi : List ℝ), rvIn xs lo hi → xs.length = lo.length
  | [], [], [], _ => rfl
  | x :: xs, l :: ls, h :: hs, hh => by
    simp only [rvIn] at hh
    simp [rvIn_length xs ls hs hh.2.2]
  | [], [], _ :: _, hh => by simp [rvIn] at hh
  | [], _ :: _, _, hh => by simp [rvIn] at hh
  | _ :: _, [], _, hh => by simp [rvIn] at hh
  | _ :: _, _ :: _, [], hh => by simp [rvIn] at hh

theorem rv_laws (lo hi : List ℝ) : Laws (.rv lo hi) where
  nonneg a b ha hb := by
    cases a <;> cases b <;> simp only [inDom] at ha hb
    exact rvDist_nonneg _ _
  self a ha := by
    cases a <;> simp only [inDom] at ha
    exact rvDist_self _
  pos a b ha hb hne := by
    cases a <;> cases b <;> simp only [inDom] at ha hb
    simp only [equalStates] at hne
    exact rvDist_pos _ _ ((rvIn_length _ _ _ ha).trans (rvIn_length _ _ _ hb).symm) hne
  symm a b ha hb := by
    cases a <;> cases b <;> simp only [inDom] at ha hb
    exact rvDist_symm _ _
  triangle a b c ha hb hc := by
    cases a <;> cases b <;> cases c <;> simp only [inDom] at ha hb hc
    exact rvDist_triangle _ _ _ ((rvIn_length _ _ _ ha).trans (rvIn_length _ _ _ hb).symm)
      ((rvIn_length _ _ _ hb).trans (rvIn_length _ _ _ hc).symm)

theorem rv_extent (lo hi : List ℝ) : ExtentLaw (.rv lo hi) := by
  intro a b ha hb
  cases a <;> cases b <;> simp only [inDom] at ha hb
  exact rvDist_le_extent _ _ _ _ ha hb

theorem so2_laws : Laws (.so2 : Space ℝ) where
  nonneg a b ha hb := by
    cases a <;> cases b <;> simp only [inDom] at ha hb
    exact so2Dist_nonneg _ _ ha hb
  self a ha := by
    cases a <;> simp only [inDom] at ha
    exact so2Dist_self _
  pos a b ha hb hne := by
    cases a <;> cases b <;> simp only [inDom] at ha hb
    simp only [equalStates] at hne
    exact so2Dist_pos _ _ ha hb hne
  symm a b ha hb := by
    cases a <;> cases b <;> simp only [inDom] at ha hb
    exact so2Dist_symm _ _
  triangle a b c ha hb hc := by
    cases a <;> cases b <;> cases c <;> simp only [inDom] at ha hb hc
    exact so2Dist_triangle _ _ _ ha hb hc

theorem so2_extent : ExtentLaw (.so2 : Space ℝ) := by
  intro a b ha hb
  cases a <;> cases b <;> simp only [inDom] at ha hb
  exact so2Dist_le_pi _ _ ha hb

theorem time_laws (bd : Bool) (lo hi : ℝ) : Laws (.time bd lo hi) where
  nonneg a b ha hb := by
    cases a <;> cases b <;> simp only [inDom] at ha hb
    exact timeDist_nonneg _ _
  self a ha := by
    cases a <;> simp only [inDom] at ha
    exact timeDist_self _
  pos a b ha hb hne := by
    cases a <;> cases b <;> simp only [inDom] at ha hb
    simp only [equalStates] at hne
    exact timeDist_pos _ _ hne
  symm a b ha hb := by
    cases a <;> cases b <;> simp only [inDom] at ha hb
    exact timeDist_symm _ _
  triangle a b c ha hb hc := by
    cases a <;> cases b <;> cases c <;> simp only [inDom] at ha hb hc
    exact timeDist_triangle _ _ _

theorem time_extent (lo hi : ℝ) : ExtentLaw (.time true lo hi) := by
  intro a b ha hb
  cases a <;> cases b <;> simp only [inDom] at ha hb
  exact timeDist_le_extent _ _ _ _ (by simpa using ha) (by simpa using hb)

theorem disc_laws (lo hi : Int) : Laws (.disc lo hi : Space ℝ) where
  nonneg a b ha hb := by
    cases a <;> cases b <;> simp only [inDom] at ha hb
    exact discDist_nonneg _ _
  self a ha := by
    cases a <;> simp only [inDom] at ha
    exact discDist_self _
  pos a b ha hb hne := by
    cases a <;> cases b <;> simp only [inDom] at ha hb
    simp only [equalStates, beq_eq_false_iff_ne, ne_eq] at hne
    exact discDist_pos _ _ hne
  symm a b ha hb := by
    cases a <;> cases b <;> simp only [inDom] at ha hb
    exact discDist_symm _ _
  triangle a b c ha hb hc := by
    cases a <;> cases b <;> cases c <;> simp only [inDom] at ha hb hc
    exact discDist_triangle _ _ _

theorem disc_extent (lo hi : Int) : ExtentLaw (.disc lo hi : Space ℝ) := by
  intro a b ha hb
  cases a <;> cases b <;> simp only [inDom] at ha hb
  exact discDist_le_extent _ _ _ _ ha hb

/-- states of the torus: the pattern `.ccons (.so2 u) (.ccons (.so2 v) .cnil)` -/
theorem torus_shape {R r : ℝ} {a : St ℝ} (h : inDom (.torus R r) a) :
    ∃ u v, a = .ccons (.so2 u) (.ccons (.so2 v) .cnil) ∧ so2InBounds u = true ∧ so2InBounds v = true := by
  cases a with
  | ccons a1 a2 =>
    cases a1 with
    | so2 u =>
      cases a2 with
      | ccons b1 b2 =>
        cases b1 with
        | so2 v =>
          cases b2 with
          | cnil => exact ⟨u, v, rfl, by simpa [inDom] using h⟩
          | _ => simp [inDom] at h
        | _ => simp [inDom] at h
      | _ => simp [inDom] at h
    | _ => simp [inDom] at h
  | _ => simp [inDom] at h

theorem torus_laws (R r : ℝ) : Laws (.torus R r) where
  nonneg a b ha hb := by
    obtain ⟨u1, v1, rfl, hu1, hv1⟩ := torus_shape ha
    obtain ⟨u2, v2, rfl, hu2, hv2⟩ := torus_shape hb
    exact torusDist_nonneg _ _ _ _
  self a ha := by
    obtain ⟨u1, v1, rfl, hu1, hv1⟩ := torus_shape ha
    exact torusDist_self _ _
  pos a b ha hb hne := by
    obtain ⟨u1, v1, rfl, hu1, hv1⟩ := torus_shape ha
    obtain ⟨u2, v2, rfl, hu2, hv2⟩ := torus_shape hb
    simp only [equalStates] at hne
    exact torusDist_pos _ _ _ _ hu1 hv1 hu2 hv2 hne
  symm a b ha hb := by
    obtain ⟨u1, v1, rfl, hu1, hv1⟩ := torus_shape ha
    obtain ⟨u2, v2, rfl, hu2, hv2⟩ := torus_shape hb
    exact torusDist_symm _ _ _ _
  triangle a b c ha hb hc := by
    obtain ⟨u1, v1, rfl, hu1, hv1⟩ := torus_shape ha
    obtain ⟨u2, v2, rfl, hu2, hv2⟩ := torus_shape hb
    obtain ⟨u3, v3, rfl, hu3, hv3⟩ := torus_shape hc
    exact torusDist_triangle _ _ _ _ _ _ hu1 hv1 hu2 hv2 hu3 hv3

theorem torus_extent (R r : ℝ) : ExtentLaw (.torus R r) := by
  intro a b ha hb
  obtain ⟨u1, v1, rfl, hu1, hv1⟩ := torus_shape ha
  obtain ⟨u2, v2, rfl, hu2, hv2⟩ := torus_shape hb
  exact torusDist_le_extent _ _ _ _ hu1 hv1 hu2 hv2

/-! ### compounds -/
/-- a well-formed compound tail: `cnil` or `ccons … (tail)` -/
def isCList : Space ℝ → Bool
  | .cnil => true
  | .ccons _ _ t => isCList t
  | _ => false

theorem distAcc_eq : ∀ (t : Space ℝ), isCList t = true → ∀ (acc : ℝ) (a b : St ℝ),
    distAcc acc t a b = acc + dist t a b := by
  intro t
  induction t with
  | cnil => intro _ acc a b; simp [distAcc, dist]
  | ccons w h t _ ih =>
    intro ht acc a b
    have ht' : isCList t = true := by simpa [isCList] using ht
    cases a <;> cases b <;> simp [distAcc, dist, ih ht']
    ring
  | _ => intro ht; simp [isCList] at ht

theorem dist_ccons (w : ℝ) (h t : Space ℝ) (ht : isCList t = true) (a1 a2 b1 b2 : St ℝ) :
    dist (.ccons w h t) (.ccons a1 a2) (.ccons b1 b2) = w * dist h a1 b1 + dist t a2 b2 := by
  rw [dist, distAcc_eq t ht]; simp

theorem extentAcc_eq : ∀ (t : Space ℝ), isCList t = true → ∀ (acc : ℝ),
    extentAcc acc t = acc + maxExtent t := by
  intro t
  induction t with
  | cnil => intro _ acc; simp [extentAcc, maxExtent]
  | ccons w h t _ ih =>
    intro ht acc
    have ht' : isCList t = true := by simpa [isCList] using ht
    rw [extentAcc, maxExtent, ih ht', ih ht']
    split_ifs <;> simp <;> ring
  | _ => intro ht; simp [isCList] at ht

theorem maxExtent_ccons (w : ℝ) (h t : Space ℝ) (ht : isCList t = true) (hw : 0 < w) :
    maxExtent (.ccons w h t) = w * maxExtent h + maxExtent t := by
  have hw' : @LT.lt ℝ instNumReal.toLT (Num.ofNat 0) w := by simpa using hw
  rw [maxExtent, extentAcc_eq t ht, if_pos hw']; simp

theorem maxExtent_ccons_zero (h t : Space ℝ) (ht : isCList t = true) :
    maxExtent (.ccons 0 h t) = maxExtent t := by
  have hw' : ¬ @LT.lt ℝ instNumReal.toLT (Num.ofNat 0) 0 := by simp
  rw [maxExtent, extentAcc_eq t ht, if_neg hw']; simp

/-- states of a compound -/
theorem ccons_shape {w : ℝ} {h t : Space ℝ} {a : St ℝ} (ha : inDom (.ccons w h t) a) :
    ∃ a1 a2, a = .ccons a1 a2 ∧ inDom h a1 ∧ inDom t a2 := by
  cases a <;> simp only [inDom] at ha
  exact ⟨_, _, rfl, ha.1, ha.2⟩

theorem cnil_laws : Laws (.cnil : Space ℝ) where
  nonneg a b _ _ := by simp [dist]
  self a _ := by simp [dist]
  pos a b ha hb hne := by
    cases a <;> cases b <;> simp only [inDom] at ha hb
    simp [equalStates] at hne
  symm a b _ _ := by simp [dist]
  triangle a b c _ _ _ := by simp [dist]

theorem cnil_extent : ExtentLaw (.cnil : Space ℝ) := by
  intro a b _ _; simp [dist, maxExtent]

/-- **one compound step**: a positive weight, a head and a (proper) tail that satisfy the laws -/
theorem compound_laws (w : ℝ) (h t : Space ℝ) (hw : 0 < w) (ht : isCList t = true)
    (Lh : Laws h) (Lt : Laws t) : Laws (.ccons w h t) where
  nonneg a b ha hb := by
    obtain ⟨a1, a2, rfl, ha1, ha2⟩ := ccons_shape ha
    obtain ⟨b1, b2, rfl, hb1, hb2⟩ := ccons_shape hb
    rw [dist_ccons w h t ht]
    have := Lh.nonneg a1 b1 ha1 hb1
    have := Lt.nonneg a2 b2 ha2 hb2
    positivity
  self a ha := by
    obtain ⟨a1, a2, rfl, ha1, ha2⟩ := ccons_shape ha
    rw [dist_ccons w h t ht, Lh.self a1 ha1, Lt.self a2 ha2]; simp
  pos a b ha hb hne := by
    obtain ⟨a1, a2, rfl, ha1, ha2⟩ := ccons_shape ha
    obtain ⟨b1, b2, rfl, hb1, hb2⟩ := ccons_shape hb
    rw [dist_ccons w h t ht]
    simp only [equalStates, Bool.and_eq_false_iff] at hne
    have h1 := Lh.nonneg a1 b1 ha1 hb1
    have h2 := Lt.nonneg a2 b2 ha2 hb2
    rcases hne with hne | hne
    · have := Lh.pos a1 b1 ha1 hb1 hne
      have : 0 < w * dist h a1 b1 := mul_pos hw this
      linarith
    · have := Lt.pos a2 b2 ha2 hb2 hne
      have : 0 ≤ w * dist h a1 b1 := mul_nonneg hw.le h1
      linarith
  symm a b ha hb := by
    obtain ⟨a1, a2, rfl, ha1, ha2⟩ := ccons_shape ha
    obtain ⟨b1, b2, rfl, hb1, hb2⟩ := ccons_shape hb
    rw [dist_ccons w h t ht, dist_ccons w h t ht, Lh.symm a1 b1 ha1 hb1, Lt.symm a2 b2 ha2 hb2]
  triangle a b c ha hb hc := by
    obtain ⟨a1, a2, rfl, ha1, ha2⟩ := ccons_shape ha
    obtain ⟨b1, b2, rfl, hb1, hb2⟩ := ccons_shape hb
    obtain ⟨c1, c2, rfl, hc1, hc2⟩ := ccons_shape hc
    rw [dist_ccons w h t ht, dist_ccons w h t ht, dist_ccons w h t ht]
    have h1 := Lh.triangle a1 b1 c1 ha1 hb1 hc1
    have h2 := Lt.triangle a2 b2 c2 ha2 hb2 hc2
    have := mul_le_mul_of_nonneg_left h1 hw.le
    linarith

theorem compound_extent_step (w : ℝ) (h t : Space ℝ) (hw : 0 ≤ w) (ht : isCList t = true)
    (Eh : ExtentLaw h) (Et : ExtentLaw t) : ExtentLaw (.ccons w h t) := by
  intro a b ha hb
  obtain ⟨a1, a2, rfl, ha1, ha2⟩ := ccons_shape ha
  obtain ⟨b1, b2, rfl, hb1, hb2⟩ := ccons_shape hb
  have h1 := Eh a1 b1 ha1 hb1
  have h2 := Et a2 b2 ha2 hb2
  rcases hw.lt_or_eq with hp | rfl
  · rw [dist_ccons w h t ht, maxExtent_ccons w h t ht hp]
    have := mul_le_mul_of_nonneg_left h1 hw
    linarith
  · rw [dist_ccons 0 h t ht, maxExtent_ccons_zero h t ht]
    linarith

/-! ### wrappers -/
theorem wrap_laws_iff (s : Space ℝ) : Laws (.wrap s) ↔ Laws s := by
  constructor
  · intro L
    exact ⟨fun a b ha hb => by simpa [dist] using L.nonneg a b (by simpa [inDom] using ha) (by simpa [inDom] using hb),
      fun a ha => by simpa [dist] using L.self a (by simpa [inDom] using ha),
      fun a b ha hb hne => by
        simpa [dist] using L.pos a b (by simpa [inDom] using ha) (by simpa [inDom] using hb) (by simpa [equalStates] using hne),
      fun a b ha hb => by simpa [dist] using L.symm a b (by simpa [inDom] using ha) (by simpa [inDom] using hb),
      fun a b c ha hb hc => by
        simpa [dist] using L.triangle a b c (by simpa [inDom] using ha) (by simpa [inDom] using hb) (by simpa [inDom] using hc)⟩
  · intro L
    exact ⟨fun a b ha hb => by simpa [dist] using L.nonneg a b (by simpa [inDom] using ha) (by simpa [inDom] using hb),
      fun a ha => by simpa [dist] using L.self a (by simpa [inDom] using ha),
      fun a b ha hb hne => by
        simpa [dist] using L.pos a b (by simpa [inDom] using ha) (by simpa [inDom] using hb) (by simpa [equalStates] using hne),
      fun a b ha hb => by simpa [dist] using L.symm a b (by simpa [inDom] using ha) (by simpa [inDom] using hb),
      fun a b c ha hb hc => by
        simpa [dist] using L.triangle a b c (by simpa [inDom] using ha) (by simpa [inDom] using hb) (by simpa [inDom] using hc)⟩

theorem wrap_extent_iff (s : Space ℝ) : ExtentLaw (.wrap s) ↔ ExtentLaw s := by
  constructor
  · intro E a b ha hb
    simpa [dist, maxExtent] using E a b (by simpa [inDom] using ha) (by simpa [inDom] using hb)
  · intro E a b ha hb
    simpa [dist, maxExtent] using E a b (by simpa [inDom] using ha) (by simpa [inDom] using hb)

/-! ### arbitrarily nested compounds -/
/-- every leaf of `sp` satisfies `P`, every weight satisfies `W`, every compound is a proper list -/
def AllLeaves (W : ℝ → Prop) (P : Space ℝ → Prop) : Space ℝ → Prop
  | .cnil => True
  | .ccons w h t => W w ∧ AllLeaves W P h ∧ AllLeaves W P t ∧ isCList t = true
  | .wrap s => AllLeaves W P s
  | .rv lo hi => P (.rv lo hi)
  | .so2 => P .so2
  | .so3 => P .so3
  | .time b lo hi => P (.time b lo hi)
  | .disc lo hi => P (.disc lo hi)
  | .torus R r => P (.torus R r)
  | .mobius i r => P (.mobius i r)
  | .klein => P .klein
  | .sphere r => P (.sphere r)

theorem compound_metric_aux (sp : Space ℝ) (h : AllLeaves (fun w => 0 < w) Laws sp) : Laws sp := by
  induction sp with
  | cnil => exact cnil_laws
  | ccons w hd tl ih1 ih2 =>
    obtain ⟨hw, h1, h2, hl⟩ := h
    exact compound_laws w hd tl hw hl (ih1 h1) (ih2 h2)
  | wrap s ih => exact (wrap_laws_iff s).2 (ih h)
  | _ => exact h

theorem compound_extent_aux (sp : Space ℝ) (h : AllLeaves (fun w => 0 ≤ w) ExtentLaw sp) : ExtentLaw sp := by
  induction sp with
  | cnil => exact cnil_extent
  | ccons w hd tl ih1 ih2 =>
    obtain ⟨hw, h1, h2, hl⟩ := h
    exact compound_extent_step w hd tl hw hl (ih1 h1) (ih2 h2)
  | wrap s ih => exact (wrap_extent_iff s).2 (ih h)
  | _ => exact h

/-- the leaf kinds whose laws are proved here -/
def ProvedLeaf : Space ℝ → Prop
  | .rv _ _ | .so2 | .time _ _ _ | .disc _ _ | .torus _ _ => True
  | _ => False

theorem provedLeaf_laws (sp : Space ℝ) (h : ProvedLeaf sp) : Laws sp := by
  cases sp <;> simp only [ProvedLeaf] at h
  · exact rv_laws _ _
  · exact so2_laws
  · exact time_laws _ _ _
  · exact disc_laws _ _
  · exact torus_laws _ _

theorem AllLeaves.mono {W : ℝ → Prop} {P Q : Space ℝ → Prop} (hPQ : ∀ s, P s → Q s) :
    ∀ sp, AllLeaves W P sp → AllLeaves W Q sp := by
  intro sp
  induction sp with
  | cnil => intro _; trivial
  | ccons w hd tl ih1 ih2 => intro h; exact ⟨h.1, ih1 h.2.1, ih2 h.2.2.1, h.2.2.2⟩
  | wrap s ih => intro h; exact ih h
  | _ => intro h; exact hPQ _ h

/-! ### the code's `satisfiesBounds` accepts every state of the exact domain -/
theorem so3_inDom_shape {a : St ℝ} (h : inDom (.so3 : Space ℝ) a) : ∃ x y z w, a = .so3 x y z w ∧ unitQ x y z w := by
  cases a <;> simp only [inDom] at h
  exact ⟨_, _, _, _, rfl, h⟩

end OmplModel.SpaceDist
