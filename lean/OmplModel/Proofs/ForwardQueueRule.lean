import OmplModel.Model.ForwardQueueRule
/-! Properties of the ForwardQueue front-selection rule as coded.  Core Lean only. -/
namespace OmplModel.FwdQ

theorem lowerBoundEdge_lt (rows : List Row) (i bi bl n : Nat) (hb : bi < n) (hn : i + rows.length ≤ n) :
    lowerBoundEdge rows i bi bl < n := by
  induction rows generalizing i bi bl with
  | nil => exact hb
  | cons r rest ih =>
    simp only [List.length_cons] at hn
    unfold lowerBoundEdge
    split
    · exact ih (i + 1) i r.lb (by omega) (by omega)
    · exact ih (i + 1) bi bl hb (by omega)

theorem bestCostEdge_lt (rows : List Row) (i bi be n : Nat) (hb : bi < n) (hn : i + rows.length ≤ n) :
    bestCostEdge rows i bi be < n := by
  induction rows generalizing i bi be with
  | nil => exact hb
  | cons r rest ih =>
    simp only [List.length_cons] at hn
    unfold bestCostEdge
    split
    · exact ih (i + 1) i r.est (by omega) (by omega)
    · exact ih (i + 1) bi be hb (by omega)

theorem effortScan_idx_lt (bcC : Option Nat) (rows : List Row) (i : Nat) (a : Acc) (n : Nat) (hb : a.idx < n)
    (hn : i + rows.length ≤ n) : (effortScan bcC rows i a).idx < n := by
  induction rows generalizing i a with
  | nil => exact hb
  | cons r rest ih =>
    simp only [List.length_cons] at hn
    unfold effortScan
    by_cases hc : takes bcC r a = true
    · rw [if_pos hc]; exact ih (i + 1) _ (by simp; omega) (by omega)
    · rw [if_neg hc]; exact ih (i + 1) a hb (by omega)

/-- the rule always answers with a position inside the container -/
theorem front_lt_length (f : Option Nat) (l : List Row) (i : Nat) (h : front f l = some i) : i < l.length := by
  cases l with
  | nil => simp [front] at h
  | cons r0 rest =>
    simp only [front, Option.some.injEq] at h
    subst h
    have h2 : lbIdx f r0 rest < (r0 :: rest).length := by
      unfold lbIdx
      cases f with
      | none => simp
      | some k => exact lowerBoundEdge_lt rest 1 0 r0.lb _ (by simp) (by simp; omega)
    have h3 : bcIdx f r0 rest < (r0 :: rest).length := by
      unfold bcIdx
      cases f with
      | none => simp
      | some k => exact bestCostEdge_lt rest 1 0 r0.est _ (by simp) (by simp; omega)
    unfold frontIdx
    simp only
    split
    · exact effortScan_idx_lt _ _ 0 _ _ (by simp) (by simp)
    · split
      · exact h3
      · exact h2

/-! ### infinite factor: a least-effort edge -/

theorem takes_inf_true (r : Row) (a : Acc) (h : takes none r a = true) : r.eff ≤ a.eff := by
  unfold takes at h
  simp only [ltInf, Bool.not_false, Bool.and_true, Bool.or_eq_true, decide_eq_true_eq, Bool.and_eq_true, beq_iff_eq] at h
  rcases h with h | h <;> omega

theorem takes_inf_false (r : Row) (a : Acc) (h : ¬ takes none r a = true) : a.eff ≤ r.eff := by
  unfold takes at h
  simp only [ltInf, Bool.not_false, Bool.and_true, Bool.or_eq_true, decide_eq_true_eq, Bool.and_eq_true, beq_iff_eq,
    not_or, Nat.not_lt] at h
  exact h.1

/-- the accumulator describes a row of the full list -/
def AccOK (l : List Row) (a : Acc) : Prop := ∃ r, l[a.idx]? = some r ∧ r.eff = a.eff

theorem effortScan_inf (l : List Row) (rows : List Row) (i : Nat) (a : Acc) (hd : l.drop i = rows) (ok : AccOK l a) :
    AccOK l (effortScan none rows i a) ∧ (effortScan none rows i a).eff ≤ a.eff ∧
      (∀ x ∈ rows, (effortScan none rows i a).eff ≤ x.eff) ∧
      (a.cost.isSome → (effortScan none rows i a).cost.isSome) := by
  induction rows generalizing i a with
  | nil => exact ⟨ok, Nat.le_refl _, by simp, fun h => h⟩
  | cons x rest ih =>
    have hx : l[i]? = some x := by
      have := congrArg List.head? hd
      simpa [List.head?_drop] using this
    have hd' : l.drop (i + 1) = rest := by
      have := congrArg List.tail hd
      simpa [List.tail_drop] using this
    unfold effortScan
    by_cases hc : takes none x a = true
    · rw [if_pos hc]
      have hle := takes_inf_true x a hc
      obtain ⟨o1, o2, o3, o4⟩ := ih (i + 1) { idx := i, eff := x.eff, cost := some x.est, lb := some x.lb } hd' ⟨x, hx, rfl⟩
      refine ⟨o1, Nat.le_trans o2 hle, ?_, fun _ => o4 rfl⟩
      intro y hy
      rcases List.mem_cons.mp hy with rfl | hy
      · exact o2
      · exact o3 y hy
    · rw [if_neg hc]
      have hle := takes_inf_false x a hc
      obtain ⟨o1, o2, o3, o4⟩ := ih (i + 1) a hd' ok
      refine ⟨o1, o2, ?_, o4⟩
      intro y hy
      rcases List.mem_cons.mp hy with rfl | hy
      · exact Nat.le_trans o2 hle
      · exact o3 y hy

/-- **infinite suboptimality factor: `peek`/`pop` return an edge of least estimated effort** -/
theorem front_inf_min_effort (l : List Row) (i : Nat) (h : front none l = some i) :
    ∃ r, l[i]? = some r ∧ ∀ x ∈ l, r.eff ≤ x.eff := by
  cases l with
  | nil => simp [front] at h
  | cons r0 rest =>
    simp only [front, Option.some.injEq] at h
    subst h
    -- first step of the scan: the seed row replaces itself (finite lower bound < infinite), making the cost finite
    have hstep : effortScan none (r0 :: rest) 0 { idx := 0, eff := r0.eff, cost := none, lb := none } =
        effortScan none rest 1 { idx := 0, eff := r0.eff, cost := some r0.est, lb := some r0.lb } := by
      rw [effortScan]
      have : takes none r0 { idx := 0, eff := r0.eff, cost := none, lb := none } = true := by simp [takes, ltInf]
      rw [if_pos this]
    obtain ⟨o1, o2, o3, o4⟩ := effortScan_inf (r0 :: rest) rest 1
      { idx := 0, eff := r0.eff, cost := some r0.est, lb := some r0.lb } (by simp) ⟨r0, by simp, rfl⟩
    have hc := o4 rfl
    obtain ⟨c, hc'⟩ := Option.isSome_iff_exists.mp hc
    have hfi : frontIdx none r0 rest =
        (effortScan none rest 1 { idx := 0, eff := r0.eff, cost := some r0.est, lb := some r0.lb }).idx := by
      unfold frontIdx
      simp only [Option.map_none, hstep, hc', ltInf, ↓reduceIte]
    rw [hfi]
    obtain ⟨r, hr, hre⟩ := o1
    refine ⟨r, hr, ?_⟩
    intro x hx
    rw [hre]
    rcases List.mem_cons.mp hx with rfl | hx
    · exact o2
    · exact o3 x hx

end OmplModel.FwdQ
