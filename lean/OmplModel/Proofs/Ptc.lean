import OmplModel.Model.Ptc
/-!
Helper lemmas for C18 (core Lean only): what `eval`, `poll`, `terminate` and the world operations
leave untouched, monotonicity of the terminate flags and of the clock-reading counter.
-/
namespace OmplModel.Ptc

@[simp] theorem upd_same {β} (f : Nat → β) (i : Nat) (v : β) : upd f i v i = v := by simp [upd]
theorem upd_other {β} (f : Nat → β) (i j : Nat) (v : β) (h : j ≠ i) : upd f i v j = f j := by
  simp [upd, h]

/-! ### `callLeaf` -/

theorem callLeaf_term (env : Env) (i : Nat) (k : Leaf) (s : St) : (callLeaf env i k s).2.term = s.term := by
  cases k <;> rfl
theorem callLeaf_cache (env : Env) (i : Nat) (k : Leaf) (s : St) : (callLeaf env i k s).2.cache = s.cache := by
  cases k <;> rfl
theorem callLeaf_solns (env : Env) (i : Nat) (k : Leaf) (s : St) : (callLeaf env i k s).2.solns = s.solns := by
  cases k <;> rfl
theorem callLeaf_reads (env : Env) (i : Nat) (k : Leaf) (s : St) : s.reads ≤ (callLeaf env i k s).2.reads := by
  cases k <;> simp [callLeaf]
theorem callLeaf_cnt (env : Env) (i j : Nat) (k : Leaf) (s : St) (h : j ≠ i) :
    (callLeaf env i k s).2.cnt j = s.cnt j := by
  cases k <;> simp [callLeaf, upd, h]

/-! ### `eval` -/

theorem eval_of_term (env : Env) (c : Cond) (s : St) (h : s.term c.impl = true) : eval env c s = (true, s) := by
  cases c <;> simp_all [eval, Cond.impl]

theorem eval_unfold (env : Env) (c : Cond) (s : St) :
    eval env c s = if s.term c.impl then (true, s) else if c.polled then (s.cache c.impl, s) else callFn env c s := by
  cases c <;> first | rfl | simp [eval, callFn, Cond.impl, Cond.polled]

theorem eval_term (env : Env) (c : Cond) : ∀ s, (eval env c s).2.term = s.term := by
  induction c with
  | leaf i p k =>
    intro s; simp only [eval]
    split
    · rfl
    · split
      · rfl
      · exact callLeaf_term env i k s
  | or i a b iha ihb =>
    intro s; simp only [eval]
    split
    · rfl
    · split
      · exact iha s
      · rw [ihb, iha]
  | and i a b iha ihb =>
    intro s; simp only [eval]
    split
    · rfl
    · split
      · rw [ihb, iha]
      · exact iha s

theorem eval_cache (env : Env) (c : Cond) : ∀ s, (eval env c s).2.cache = s.cache := by
  induction c with
  | leaf i p k =>
    intro s; simp only [eval]
    split
    · rfl
    · split
      · rfl
      · exact callLeaf_cache env i k s
  | or i a b iha ihb =>
    intro s; simp only [eval]
    split
    · rfl
    · split
      · exact iha s
      · rw [ihb, iha]
  | and i a b iha ihb =>
    intro s; simp only [eval]
    split
    · rfl
    · split
      · rw [ihb, iha]
      · exact iha s

theorem eval_solns (env : Env) (c : Cond) : ∀ s, (eval env c s).2.solns = s.solns := by
  induction c with
  | leaf i p k =>
    intro s; simp only [eval]
    split
    · rfl
    · split
      · rfl
      · exact callLeaf_solns env i k s
  | or i a b iha ihb =>
    intro s; simp only [eval]
    split
    · rfl
    · split
      · exact iha s
      · rw [ihb, iha]
  | and i a b iha ihb =>
    intro s; simp only [eval]
    split
    · rfl
    · split
      · rw [ihb, iha]
      · exact iha s

theorem eval_reads (env : Env) (c : Cond) : ∀ s, s.reads ≤ (eval env c s).2.reads := by
  induction c with
  | leaf i p k =>
    intro s; simp only [eval]
    split
    · exact Nat.le_refl _
    · split
      · exact Nat.le_refl _
      · exact callLeaf_reads env i k s
  | or i a b iha ihb =>
    intro s; simp only [eval]
    split
    · exact Nat.le_refl _
    · split
      · exact iha s
      · exact Nat.le_trans (iha s) (ihb _)
  | and i a b iha ihb =>
    intro s; simp only [eval]
    split
    · exact Nat.le_refl _
    · split
      · exact Nat.le_trans (iha s) (ihb _)
      · exact iha s

/-- a condition whose tree does not contain impl `j` leaves `j`'s iteration counter alone -/
theorem eval_cnt_frame (env : Env) (j : Nat) (c : Cond) : ∀ s, j ∉ c.impls → (eval env c s).2.cnt j = s.cnt j := by
  induction c with
  | leaf i p k =>
    intro s hj
    have hne : j ≠ i := by simpa [Cond.impls] using hj
    simp only [eval]
    split
    · rfl
    · split
      · rfl
      · exact callLeaf_cnt env i j k s hne
  | or i a b iha ihb =>
    intro s hj
    simp only [Cond.impls, List.mem_cons, List.mem_append, not_or] at hj
    simp only [eval]
    split
    · rfl
    · split
      · exact iha s hj.2.1
      · rw [ihb _ hj.2.2, iha s hj.2.1]
  | and i a b iha ihb =>
    intro s hj
    simp only [Cond.impls, List.mem_cons, List.mem_append, not_or] at hj
    simp only [eval]
    split
    · rfl
    · split
      · rw [ihb _ hj.2.2, iha s hj.2.1]
      · exact iha s hj.2.1

theorem callFn_term (env : Env) (c : Cond) (s : St) : (callFn env c s).2.term = s.term := by
  cases c with
  | leaf i p k => exact callLeaf_term env i k s
  | or i a b =>
    simp only [callFn]
    split
    · exact eval_term env a s
    · rw [eval_term, eval_term]
  | and i a b =>
    simp only [callFn]
    split
    · rw [eval_term, eval_term]
    · exact eval_term env a s

theorem callFn_reads (env : Env) (c : Cond) (s : St) : s.reads ≤ (callFn env c s).2.reads := by
  cases c with
  | leaf i p k => exact callLeaf_reads env i k s
  | or i a b =>
    simp only [callFn]
    split
    · exact eval_reads env a s
    · exact Nat.le_trans (eval_reads env a s) (eval_reads env b _)
  | and i a b =>
    simp only [callFn]
    split
    · exact Nat.le_trans (eval_reads env a s) (eval_reads env b _)
    · exact eval_reads env a s

theorem callFn_cnt_frame (env : Env) (j : Nat) (c : Cond) (s : St) (hj : j ∉ c.impls) :
    (callFn env c s).2.cnt j = s.cnt j := by
  cases c with
  | leaf i p k =>
    have hne : j ≠ i := by simpa [Cond.impls] using hj
    exact callLeaf_cnt env i j k s hne
  | or i a b =>
    simp only [Cond.impls, List.mem_cons, List.mem_append, not_or] at hj
    simp only [callFn]
    split
    · exact eval_cnt_frame env j a s hj.2.1
    · rw [eval_cnt_frame env j b _ hj.2.2, eval_cnt_frame env j a s hj.2.1]
  | and i a b =>
    simp only [Cond.impls, List.mem_cons, List.mem_append, not_or] at hj
    simp only [callFn]
    split
    · rw [eval_cnt_frame env j b _ hj.2.2, eval_cnt_frame env j a s hj.2.1]
    · exact eval_cnt_frame env j a s hj.2.1

theorem poll_term (env : Env) (c : Cond) (s : St) : (poll env c s).term = s.term := by
  simp only [poll]
  split
  · rfl
  · exact callFn_term env c s

theorem poll_reads (env : Env) (c : Cond) (s : St) : s.reads ≤ (poll env c s).reads := by
  simp only [poll]
  split
  · exact Nat.le_refl _
  · exact callFn_reads env c s

theorem poll_cnt_frame (env : Env) (j : Nat) (c : Cond) (s : St) (hj : j ∉ c.impls) :
    (poll env c s).cnt j = s.cnt j := by
  simp only [poll]
  split
  · rfl
  · exact callFn_cnt_frame env j c s hj

/-! ### the terminate flags only ever go up -/

theorem reportCost_term_mono {α} [PNum α] (w : World α) (c : α) (i : Nat) (h : w.st.term i = true) :
    (reportCost w c).st.term i = true := by
  unfold reportCost
  split
  · exact h
  · dsimp only
    split
    · simp only [upd]; split <;> simp [h]
    · exact h

theorem step_term_mono {α} [PNum α] (env : Env) (w : World α) (op : Op α) (i : Nat) (h : w.st.term i = true) :
    (w.step env op).st.term i = true := by
  cases op with
  | eval c => simp only [World.step]; rw [eval_term]; exact h
  | terminate c => simp only [World.step, terminate, upd]; split <;> simp [h]
  | poll c => simp only [World.step]; rw [poll_term]; exact h
  | addSoln a => exact h
  | clearSolns => exact h
  | newCostConv j win eps => exact h
  | cost c => exact reportCost_term_mono w c i h

theorem run_term_mono {α} [PNum α] (env : Env) (ops : List (Op α)) : ∀ (w : World α) (i : Nat),
    w.st.term i = true → (w.run env ops).st.term i = true := by
  induction ops with
  | nil => intro w i h; exact h
  | cons op rest ih =>
    intro w i h
    simp only [World.run, List.foldl_cons]
    exact ih _ i (step_term_mono env w op i h)

theorem step_reads_mono {α} [PNum α] (env : Env) (w : World α) (op : Op α) :
    w.st.reads ≤ (w.step env op).st.reads := by
  cases op with
  | eval c => exact eval_reads env c _
  | terminate c => exact Nat.le_refl _
  | poll c => exact poll_reads env c _
  | addSoln a => exact Nat.le_refl _
  | clearSolns => exact Nat.le_refl _
  | newCostConv j win eps => exact Nat.le_refl _
  | cost c =>
    simp only [World.step, reportCost]
    split
    · exact Nat.le_refl _
    · dsimp only; split <;> exact Nat.le_refl _

theorem run_reads_mono {α} [PNum α] (env : Env) (ops : List (Op α)) : ∀ (w : World α),
    w.st.reads ≤ (w.run env ops).st.reads := by
  induction ops with
  | nil => intro w; exact Nat.le_refl _
  | cons op rest ih =>
    intro w
    simp only [World.run, List.foldl_cons]
    exact Nat.le_trans (step_reads_mono env w op) (ih _)

/-! ### forced conditions: terminate() seen through or/and nestings -/

/-- `Forced s c`: the terminate flags alone make `c` evaluate to true. -/
def Forced (s : St) : Cond → Prop
  | .leaf i _ _ => s.term i = true
  | .or i a b => s.term i = true ∨ Forced s a ∨ Forced s b
  | .and i a b => s.term i = true ∨ (Forced s a ∧ Forced s b)

theorem Forced_mono {s s' : St} (h : ∀ i, s.term i = true → s'.term i = true) :
    ∀ c, Forced s c → Forced s' c := by
  intro c
  induction c with
  | leaf i p k => exact h i
  | or i a b iha ihb =>
    intro hf
    rcases hf with hf | hf | hf
    · exact Or.inl (h i hf)
    · exact Or.inr (Or.inl (iha hf))
    · exact Or.inr (Or.inr (ihb hf))
  | and i a b iha ihb =>
    intro hf
    rcases hf with hf | ⟨ha, hb⟩
    · exact Or.inl (h i hf)
    · exact Or.inr ⟨iha ha, ihb hb⟩

theorem Forced_self (s : St) (c : Cond) (h : s.term c.impl = true) : Forced s c := by
  cases c with
  | leaf i p k => exact h
  | or i a b => exact Or.inl h
  | and i a b => exact Or.inl h

theorem eval_of_forced (env : Env) (c : Cond) : ∀ s, Forced s c → (eval env c s).1 = true := by
  induction c with
  | leaf i p k =>
    intro s hf
    have hf' : s.term i = true := hf
    simp [eval, hf']
  | or i a b iha ihb =>
    intro s hf
    simp only [eval]
    split
    · rfl
    · rename_i hti
      split
      · rfl
      · rename_i hna
        rcases hf with hf | hf | hf
        · exact absurd hf hti
        · exact absurd (iha s hf) hna
        · exact ihb _ (Forced_mono (fun j hj => by rw [eval_term]; exact hj) b hf)
  | and i a b iha ihb =>
    intro s hf
    simp only [eval]
    split
    · rfl
    · rename_i hti
      rcases hf with hf | ⟨ha, hb⟩
      · exact absurd hf hti
      · split
        · exact ihb _ (Forced_mono (fun j hj => by rw [eval_term]; exact hj) b hb)
        · rename_i hna
          exact absurd (iha s ha) hna

/-! ### repeated evaluation -/

/-- `n` evaluations of the same condition in a row: the answers and the final state -/
def evalN (env : Env) (c : Cond) : Nat → St → List Bool × St
  | 0, s => ([], s)
  | n + 1, s =>
    let r := eval env c s
    let rs := evalN env c n r.2
    (r.1 :: rs.1, rs.2)

/-- one more counting step, for any modulus -/
theorem mod_step (a j m : Nat) : ((a + 1) % m + j + 1) % m = (a + (j + 1) + 1) % m := by
  rw [Nat.add_assoc ((a + 1) % m) j 1, Nat.mod_add_mod]
  congr 1
  omega

theorem Itc.spin_succ (m : Nat) (o : Itc) (k : Nat) : ((o.spin m k).eval m).2 = o.spin m (k + 1) := by
  simp only [Itc.spin, Itc.eval]
  congr 1
  rw [Nat.mod_add_mod, Nat.add_assoc]

/-! ### frame: operations that do not involve impl `i` -/

/-- the operation neither evaluates/polls a tree containing impl `i`, nor terminates it, nor hands it
to the cost-convergence callback -/
def NoTouch {α} (i : Nat) : Op α → Prop
  | .eval c => i ∉ c.impls
  | .poll c => i ∉ c.impls
  | .terminate c => c.impl ≠ i
  | .newCostConv j _ _ => j ≠ i
  | _ => True

def CbOk {α} (i : Nat) (w : World α) : Prop := ∀ cc, w.cb = some cc → cc.impl ≠ i

theorem step_frame {α} [PNum α] (env : Env) (w : World α) (op : Op α) (i : Nat) (hn : NoTouch i op) (hcb : CbOk i w) :
    (w.step env op).st.term i = w.st.term i ∧ (w.step env op).st.cnt i = w.st.cnt i ∧ CbOk i (w.step env op) := by
  cases op with
  | eval c => exact ⟨by simp only [World.step]; rw [eval_term], eval_cnt_frame env i c _ hn, hcb⟩
  | terminate c =>
    have hne : i ≠ c.impl := fun h => hn h.symm
    exact ⟨by simp [World.step, terminate, upd, hne], rfl, hcb⟩
  | poll c => exact ⟨by simp only [World.step]; rw [poll_term], poll_cnt_frame env i c _ hn, hcb⟩
  | addSoln a => exact ⟨rfl, rfl, hcb⟩
  | clearSolns => exact ⟨rfl, rfl, hcb⟩
  | newCostConv j win eps =>
    refine ⟨rfl, rfl, ?_⟩
    intro cc hcc
    simp only [World.step, newCostConv, Option.some.injEq] at hcc
    rw [← hcc]; exact hn
  | cost c =>
    simp only [World.step, reportCost]
    cases hcbv : w.cb with
    | none => exact ⟨rfl, rfl, by intro cc hcc; rw [hcbv] at hcc; exact absurd hcc (by simp)⟩
    | some cc =>
      have hne : i ≠ cc.impl := fun h => hcb cc hcbv h.symm
      dsimp only
      refine ⟨?_, ?_, ?_⟩
      · split
        · simp [upd, hne]
        · rfl
      · split <;> rfl
      · intro cc' hcc'
        simp only [Option.some.injEq] at hcc'
        rw [← hcc']
        simp only [CC.step]
        exact fun h => hne h.symm

theorem run_frame {α} [PNum α] (env : Env) (i : Nat) (ops : List (Op α)) : ∀ (w : World α),
    (∀ op ∈ ops, NoTouch i op) → CbOk i w →
    (w.run env ops).st.term i = w.st.term i ∧ (w.run env ops).st.cnt i = w.st.cnt i ∧ CbOk i (w.run env ops) := by
  induction ops with
  | nil => intro w _ hcb; exact ⟨rfl, rfl, hcb⟩
  | cons op rest ih =>
    intro w hall hcb
    obtain ⟨h1, h2, h3⟩ := step_frame env w op i (hall op (List.mem_cons_self ..)) hcb
    obtain ⟨g1, g2, g3⟩ := ih (w.step env op) (fun o ho => hall o (List.mem_cons_of_mem _ ho)) h3
    simp only [World.run, List.foldl_cons]
    exact ⟨g1.trans h1, g2.trans h2, g3⟩

/-- evaluations of `c`, each preceded by an arbitrary batch of other operations -/
def interleave {α} [PNum α] (env : Env) (c : Cond) : List (List (Op α)) → World α → List Bool × World α
  | [], w => ([], w)
  | seg :: rest, w =>
    let w1 := w.run env seg
    let r := eval env c w1.st
    let rs := interleave env c rest { w1 with st := r.2 }
    (r.1 :: rs.1, rs.2)

/-! ### operations that leave a cost-convergence condition alone -/

/-- anything except a cost report, a new cost-convergence condition (it replaces the callback) and
`terminate()` of impl `i` itself: evaluations and polls of any condition (including the cost-convergence
condition), terminations of others, solution reports -/
def CostQuiet {α} (i : Nat) : Op α → Prop
  | .terminate c => c.impl ≠ i
  | .newCostConv _ _ _ => False
  | .cost _ => False
  | _ => True

theorem step_quiet {α} [PNum α] (env : Env) (w : World α) (op : Op α) (i : Nat) (hq : CostQuiet i op) :
    (w.step env op).cb = w.cb ∧ (w.step env op).st.term i = w.st.term i := by
  cases op with
  | eval c => exact ⟨rfl, by simp only [World.step]; rw [eval_term]⟩
  | terminate c =>
    have hne : i ≠ c.impl := fun h => hq h.symm
    exact ⟨rfl, by simp [World.step, terminate, upd, hne]⟩
  | poll c => exact ⟨rfl, by simp only [World.step]; rw [poll_term]⟩
  | addSoln a => exact ⟨rfl, rfl⟩
  | clearSolns => exact ⟨rfl, rfl⟩
  | newCostConv j win eps => exact absurd hq id
  | cost c => exact absurd hq id

theorem run_quiet {α} [PNum α] (env : Env) (i : Nat) (ops : List (Op α)) : ∀ (w : World α),
    (∀ op ∈ ops, CostQuiet i op) → (w.run env ops).cb = w.cb ∧ (w.run env ops).st.term i = w.st.term i := by
  induction ops with
  | nil => intro w _; exact ⟨rfl, rfl⟩
  | cons op rest ih =>
    intro w hall
    obtain ⟨h1, h2⟩ := step_quiet env w op i (hall op (List.mem_cons_self ..))
    obtain ⟨g1, g2⟩ := ih (w.step env op) (fun o ho => hall o (List.mem_cons_of_mem _ ho))
    simp only [World.run, List.foldl_cons]
    exact ⟨g1.trans h1, g2.trans h2⟩

/-! ### the polled form at thread-step granularity -/

/-- invariant of the code as it is: a requested terminate is visible in `terminate_`, and every
recorded evaluation made after the request answered true -/
def PInv (s : PState) : Prop :=
  (s.req = true → s.term = true) ∧ ∀ p ∈ s.results, p.1 = true → p.2 = true

theorem pinv_step (pred : Nat → Bool) (s : PState) (st : PStep) (h : PInv s) :
    PInv (s.step .asCoded pred st) := by
  obtain ⟨h1, h2⟩ := h
  cases st with
  | check => simp only [PState.step]; split <;> exact ⟨h1, h2⟩
  | call => simp only [PState.step]; split <;> exact ⟨h1, h2⟩
  | store => simp only [PState.step]; split <;> exact ⟨h1, h2⟩
  | terminate => exact ⟨fun _ => rfl, h2⟩
  | destroy => exact ⟨h1, h2⟩
  | eval =>
    refine ⟨h1, ?_⟩
    intro p hp hreq
    simp only [PState.step, List.mem_cons] at hp
    rcases hp with hp | hp
    · subst hp
      simp only [PState.evalNow] at hreq ⊢
      simp [h1 hreq]
    · exact h2 p hp hreq

theorem pinv_run (pred : Nat → Bool) (steps : List PStep) : ∀ (s : PState), PInv s →
    PInv (s.run .asCoded pred steps) := by
  induction steps with
  | nil => intro s h; exact h
  | cons st rest ih =>
    intro s h
    simp only [PState.run, List.foldl_cons]
    exact ih _ (pinv_step pred s st h)

/-! ### 64-bit wrap-around -/

theorem wrap64_of_inRange (x : Int) (h1 : -9223372036854775808 ≤ x) (h2 : x < 9223372036854775808) :
    wrap64 x = x := by
  unfold wrap64
  omega

end OmplModel.Ptc
