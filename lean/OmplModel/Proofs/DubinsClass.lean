import OmplModel.Proofs.DubinsAF
/-!
The 16-class table of `dubinsClassification` (C14, round 3): the part that is pure logic.  Core Lean only,
generic over `[DNum α]`; the only facts used about `α` are order facts on the angle comparisons
(`AngleOrder`) — no arithmetic law — so everything here holds for the `Float` run too (NaN excluded by
`AngleOrder.total`).

* `quadrant_exactly_one`, `quadrant_spec`: every angle in `[0, 2π]` satisfies exactly one of the four range
  tests of `getDubinsClass` (lower bound strict, upper bound closed — the boundaries `π/2, π, 3π/2` belong to
  the lower quadrant), and `quadrant` returns its index; so exactly one class `a_ij` is selected.
* `classification_is_candidate`: every table cell returns one of the six words' solver outputs.
* `classification_not_below_exhaustive`: hence the classified path is never shorter than the exhaustive minimum.
-/
namespace OmplModel.Dubins
open OmplModel

/-- the order facts the quadrant tests need: a total preorder-like behaviour of `<`/`≤` on the values
compared, and the order of the four boundaries.  Nothing arithmetic. -/
structure AngleOrder (α : Type) [DNum α] : Prop where
  /-- totality: `¬ x ≤ y → y < x` (fails only for NaN in the `Float` instance) -/
  total : ∀ x y : α, ¬ x ≤ y → y < x
  /-- `x ≤ y → ¬ y < x` -/
  le_not_lt : ∀ x y : α, x ≤ y → ¬ y < x
  /-- `x < y → y ≤ z → x < z` -/
  lt_of_lt_of_le : ∀ x y z : α, x < y → y ≤ z → x < z
  /-- `π/2 ≤ π` -/
  h_le_p : (halfpi : α) ≤ Num.pi
  /-- `π ≤ 3·(π/2)` -/
  p_le_q : (Num.pi : α) ≤ 3 * halfpi

section
variable {α : Type} [DNum α]

/-- the four range tests of `getDubinsClass`, as coded -/
def inQuadrant (i : Nat) (a : α) : Prop :=
  match i with
  | 1 => 0 ≤ a ∧ a ≤ halfpi
  | 2 => halfpi < a ∧ a ≤ Num.pi
  | 3 => Num.pi < a ∧ a ≤ 3 * halfpi
  | 4 => 3 * halfpi < a ∧ a ≤ twopi
  | _ => False

/-- `quadrant` returns an index whose test holds, or 0 when none of the first-matching tests does -/
theorem quadrant_sound (a : α) (h : quadrant a ≠ 0) : inQuadrant (quadrant a) a := by
  unfold quadrant at h ⊢
  split
  · next h1 => exact h1
  · split
    · next h2 => exact h2
    · split
      · next h3 => exact h3
      · split
        · next h4 => exact h4
        · next h1 h2 h3 h4 => simp [h1, h2, h3, h4] at h

/-- existence: an angle in `[0, 2π]` passes one of the four tests, and `quadrant` finds it -/
theorem quadrant_ne_zero (o : AngleOrder α) (a : α) (h0 : 0 ≤ a) (h1 : a ≤ twopi) : quadrant a ≠ 0 := by
  unfold quadrant
  by_cases c1 : 0 ≤ a ∧ a ≤ halfpi
  · simp [c1]
  · have g1 : halfpi < a := o.total _ _ (fun h => c1 ⟨h0, h⟩)
    by_cases c2 : halfpi < a ∧ a ≤ Num.pi
    · simp [c1, c2]
    · have g2 : Num.pi < a := o.total _ _ (fun h => c2 ⟨g1, h⟩)
      by_cases c3 : Num.pi < a ∧ a ≤ 3 * halfpi
      · simp [c1, c2, c3]
      · have g3 : 3 * halfpi < a := o.total _ _ (fun h => c3 ⟨g2, h⟩)
        have c4 : 3 * halfpi < a ∧ a ≤ twopi := ⟨g3, h1⟩
        simp [c1, c2, c3, c4]

theorem inQuadrant_range (a : α) (i : Nat) (hi : inQuadrant i a) : i = 1 ∨ i = 2 ∨ i = 3 ∨ i = 4 := by
  match i, hi with
  | 0, h => exact absurd h id
  | 1, _ => exact Or.inl rfl
  | 2, _ => exact Or.inr (Or.inl rfl)
  | 3, _ => exact Or.inr (Or.inr (Or.inl rfl))
  | 4, _ => exact Or.inr (Or.inr (Or.inr rfl))
  | (n + 5), h => exact absurd h id

/-- uniqueness: no angle passes two different tests -/
theorem inQuadrant_unique (o : AngleOrder α) (a : α) (i j : Nat) (hi : inQuadrant i a) (hj : inQuadrant j a) :
    i = j := by
  -- the chain of boundaries: anything above a later boundary is above every earlier one
  have up12 : ∀ x : α, Num.pi < x → halfpi < x := fun x hx => by
    apply o.total; intro hle
    exact o.le_not_lt _ _ o.h_le_p (o.lt_of_lt_of_le _ _ _ hx hle)
  have up23 : ∀ x : α, 3 * halfpi < x → Num.pi < x := fun x hx => by
    apply o.total; intro hle
    exact o.le_not_lt _ _ o.p_le_q (o.lt_of_lt_of_le _ _ _ hx hle)
  rcases inQuadrant_range a i hi with rfl | rfl | rfl | rfl <;>
    rcases inQuadrant_range a j hj with rfl | rfl | rfl | rfl
  · rfl
  · exact absurd hj.1 (o.le_not_lt _ _ hi.2)
  · exact absurd (up12 a hj.1) (o.le_not_lt _ _ hi.2)
  · exact absurd (up12 a (up23 a hj.1)) (o.le_not_lt _ _ hi.2)
  · exact absurd hi.1 (o.le_not_lt _ _ hj.2)
  · rfl
  · exact absurd hj.1 (o.le_not_lt _ _ hi.2)
  · exact absurd (up23 a hj.1) (o.le_not_lt _ _ hi.2)
  · exact absurd (up12 a hi.1) (o.le_not_lt _ _ hj.2)
  · exact absurd hi.1 (o.le_not_lt _ _ hj.2)
  · rfl
  · exact absurd hj.1 (o.le_not_lt _ _ hi.2)
  · exact absurd (up12 a (up23 a hi.1)) (o.le_not_lt _ _ hj.2)
  · exact absurd (up23 a hi.1) (o.le_not_lt _ _ hj.2)
  · exact absurd hi.1 (o.le_not_lt _ _ hj.2)
  · rfl

/-- **every angle in `[0, 2π]` falls in exactly one quadrant, and `quadrant` returns it** -/
theorem quadrant_exactly_one (o : AngleOrder α) (a : α) (h0 : 0 ≤ a) (h1 : a ≤ twopi) :
    inQuadrant (quadrant a) a ∧ (1 ≤ quadrant a ∧ quadrant a ≤ 4) ∧
      ∀ j, inQuadrant j a → j = quadrant a := by
  have hne := quadrant_ne_zero o a h0 h1
  have hs := quadrant_sound a hne
  refine ⟨hs, ?_, fun j hj => inQuadrant_unique o a j _ hj hs⟩
  rcases inQuadrant_range a _ hs with h | h | h | h <;> rw [h] <;> exact ⟨by decide, by decide⟩

/-- a table cell exists for every pair of quadrant indices in `1..4` -/
theorem classify_isSome (r c : Nat) (hr : 1 ≤ r ∧ r ≤ 4) (hc : 1 ≤ c ∧ c ≤ 4) (d a b : α) :
    ∃ pk, classify r c d a b = some pk := by
  have hr' : r = 1 ∨ r = 2 ∨ r = 3 ∨ r = 4 := by omega
  have hc' : c = 1 ∨ c = 2 ∨ c = 3 ∨ c = 4 := by omega
  rcases hr' with rfl | rfl | rfl | rfl <;> rcases hc' with rfl | rfl | rfl | rfl <;>
    simp only [classify] <;> (repeat' split) <;> exact ⟨_, rfl⟩

/-- **every table cell returns one of the six words' solver outputs** (the code's own `mod2pi`): in the
non-degenerate case with a selected cell, `dubinsClassification` is `solve mod2pi w` for some word `w`. -/
theorem classification_is_candidate (d a b : α) (hd : degenerate d a b = false)
    (pk : Pick) (hpk : classify (quadrant a) (quadrant b) d a b = some pk) :
    ∃ w : Word, dubinsClassification d a b = Res.ofOpt (solve mod2pi w d a b) := by
  unfold dubinsClassification
  rw [hd, hpk]
  simp only [Bool.false_eq_true, if_false]
  cases pk with
  | one w => exact ⟨w, rfl⟩
  | lsrOrRsl =>
    rcases better_eq_or (dubinsLSR mod2pi d a b) (dubinsRSL mod2pi d a b) with h | h
    · exact ⟨.LSR, by rw [h]; rfl⟩
    · exact ⟨.RSL, by rw [h]; rfl⟩

/-- for angles in `[0, 2π]` a cell is always selected, so the classification result is one of the six
candidates (never `unclassified`) -/
theorem classification_total (o : AngleOrder α) (d a b : α) (ha0 : 0 ≤ a) (ha1 : a ≤ twopi)
    (hb0 : 0 ≤ b) (hb1 : b ≤ twopi) (hd : degenerate d a b = false) :
    ∃ w : Word, dubinsClassification d a b = Res.ofOpt (solve mod2pi w d a b) := by
  obtain ⟨pk, hpk⟩ := classify_isSome (quadrant a) (quadrant b) (quadrant_exactly_one o a ha0 ha1).2.1
    (quadrant_exactly_one o b hb0 hb1).2.1 d a b
  exact classification_is_candidate d a b hd pk hpk

/-- **the classified path is never strictly shorter than the exhaustive minimum** (both with the code's
`mod2pi`): whenever `dubinsClassification` returns a path `P`, `P.len < (exhaustive result).len` is false. -/
theorem classification_not_below_exhaustive (sw : StrictWeak α) (d a b : α) (hd : degenerate d a b = false)
    (pk : Pick) (hpk : classify (quadrant a) (quadrant b) d a b = some pk) (P : Path α)
    (hP : dubinsClassification d a b = .path P) :
    ltLen (some P.len) (olen (exhaustiveCore mod2pi d a b)) = false := by
  obtain ⟨w, hw⟩ := classification_is_candidate d a b hd pk hpk
  rw [hP] at hw
  have hmin := exhaustiveCore_min sw mod2pi d a b w
  cases hs : solve mod2pi w d a b with
  | none => rw [hs] at hw; cases hw
  | some Q =>
    rw [hs] at hw hmin
    have : P = Q := by
      simp only [Res.ofOpt] at hw
      exact Res.path.inj hw
    subst this
    exact hmin

end
end OmplModel.Dubins
