import OmplModel.Model.Vana
/-!
Arithmetic-free helper lemmas about `Model/Vana.lean` (C14, VanaStateSpace): what a successful `decoupled`
call establishes, and the invariants of the two search loops of `getPath` (`firstFeasible`, `optimise`).
Core Lean only; generic over `[DNum α]`, no arithmetic law is used.
-/
namespace OmplModel.Vana
open OmplModel OmplModel.Dubins

section
variable {α : Type} [DNum α]

theorem dub_some (rho : α) (a b : Pose α) (P : Path α) (h : dub rho a b = some P) :
    dubinsStates rho a b = .path P := by
  unfold dub at h
  split at h
  · rename_i Q hQ
    cases h
    exact hQ
  · cases h

/-- the middle letter of a CSC word is `S`: the four words with that middle letter -/
theorem word_of_middle_S (w : Word) (a c : Seg) (h : w.segs = [a, .S, c]) :
    w = .LSL ∨ w = .RSR ∨ w = .RSL ∨ w = .LSR := by
  cases w <;> simp [Word.segs] at h ⊢

/-- the validity facts the code's test leaves true (first arc; last arc when `la`) -/
def Valid (la : Bool) (minP maxP : α) (s1 s2 : St5 α) (sz : Path α) : Prop :=
  ∃ a c, sz.w.segs = [a, .S, c] ∧
    (a = .R → ¬ (s1.pitch - sz.t < minP)) ∧
    (a = .L → ¬ (maxP < s1.pitch + sz.t)) ∧
    (la = true → (c = .R → ¬ (maxP < s2.pitch + sz.q)) ∧ (c = .L → ¬ (s2.pitch - sz.q < minP)))

theorem decoupled_spec (la : Bool) (rho minP maxP : α) (s1 s2 : St5 α) (radius : α) (p : VPath α)
    (h : decoupled la rho minP maxP s1 s2 radius = some p) :
    p.rh = radius ∧
    p.rv = 1 / Num.sqrt (1 / (rho * rho) - 1 / (radius * radius)) ∧
    isFinite p.rv = true ∧
    p.startSZ = ⟨0, s1.z, s1.pitch⟩ ∧
    dubinsStates radius ⟨s1.x, s1.y, s1.yaw⟩ ⟨s2.x, s2.y, s2.yaw⟩ = .path p.xy ∧
    dubinsStates p.rv ⟨0, s1.z, s1.pitch⟩ ⟨radius * p.xy.len, s2.z, s2.pitch⟩ = .path p.sz ∧
    Valid la minP maxP s1 s2 p.sz := by
  unfold decoupled at h
  dsimp only at h
  split at h
  · cases h
  · rename_i hfin
    split at h
    · cases h
    · rename_i xy hxy
      split at h
      · cases h
      · rename_i sz hsz
        obtain ⟨w, t, pp, q, rev⟩ := sz
        cases w <;> cases la <;> simp [Word.segs] at h
        all_goals
          obtain ⟨hc, rfl⟩ := h
          refine ⟨rfl, rfl, by simpa using hfin, rfl, dub_some _ _ _ _ hxy, dub_some _ _ _ _ hsz, ?_⟩
          refine ⟨_, _, rfl, ?_⟩
          simp [hc]

/-! ## the two search loops of `getPath` -/

/-- the doubling loop returns a multiplier together with the `decoupled` result for that multiplier -/
theorem firstFeasible_decoupled (la : Bool) (rho minP maxP : α) (s1 s2 : St5 α) :
    ∀ (fuel iter : Nat) (mult m : α) (p : VPath α),
      firstFeasible la rho minP maxP s1 s2 fuel iter mult = some (m, p) →
      decoupled la rho minP maxP s1 s2 (rho * m) = some p := by
  intro fuel
  induction fuel with
  | zero => intro iter mult m p h; cases h
  | succ n ih =>
    intro iter mult m p h
    unfold firstFeasible at h
    split at h
    · rename_i p' hp'
      split at h
      · cases h
      · cases h
        exact hp'
    · split at h
      · exact ih _ _ _ _ h
      · cases h

/-- invariant of the optimisation loop: the current path is the `decoupled` result for the current multiplier -/
theorem optimise_decoupled (la : Bool) (rho minP maxP tol : α) (s1 s2 : St5 α) :
    ∀ (fuel : Nat) (step mult : α) (p : VPath α),
      decoupled la rho minP maxP s1 s2 (rho * mult) = some p →
      ∃ mult', decoupled la rho minP maxP s1 s2 (rho * mult') =
        some (optimise la rho minP maxP tol s1 s2 fuel step mult p) := by
  intro fuel
  induction fuel with
  | zero => intro step mult p h; exact ⟨mult, h⟩
  | succ n ih =>
    intro step mult p h
    unfold optimise
    split
    · dsimp only
      split
      · rename_i p2 hp2
        split
        · exact ih _ _ _ hp2
        · exact ih _ _ _ h
      · exact ih _ _ _ h
    · exact ⟨mult, h⟩

/-- the optimisation loop never returns a longer path than it was given; the only facts about `<` used are
irreflexivity and transitivity (both hold for IEEE `<` on doubles, NaN included) -/
theorem optimise_not_longer (hirr : ∀ a : α, ¬ a < a) (htr : ∀ a b c : α, a < b → b < c → a < c)
    (la : Bool) (rho minP maxP tol : α) (s1 s2 : St5 α) :
    ∀ (fuel : Nat) (step mult : α) (p : VPath α),
      ¬ (p.len < (optimise la rho minP maxP tol s1 s2 fuel step mult p).len) := by
  intro fuel
  induction fuel with
  | zero => intro step mult p; exact hirr _
  | succ n ih =>
    intro step mult p
    unfold optimise
    split
    · dsimp only
      split
      · rename_i p2 hp2
        split
        · rename_i hlt
          intro hc
          exact ih _ _ p2 (htr _ _ _ hlt hc)
        · exact ih _ _ _
      · exact ih _ _ _
    · exact hirr _

theorem getPath_decoupled (la : Bool) (rho minP maxP tol : α) (s1 s2 : St5 α) (p : VPath α)
    (h : getPath la rho minP maxP tol s1 s2 = some p) :
    ∃ mult, decoupled la rho minP maxP s1 s2 (rho * mult) = some p := by
  unfold getPath at h
  split at h
  · cases h
  · rename_i m p0 hff
    cases h
    exact optimise_decoupled la rho minP maxP tol s1 s2 _ _ _ _
      (firstFeasible_decoupled la rho minP maxP s1 s2 _ _ _ _ _ hff)

/-- `getPath`'s result is not longer than the first feasible path of the doubling loop -/
theorem getPath_not_longer (hirr : ∀ a : α, ¬ a < a) (htr : ∀ a b c : α, a < b → b < c → a < c)
    (la : Bool) (rho minP maxP tol : α) (s1 s2 : St5 α) (p : VPath α)
    (h : getPath la rho minP maxP tol s1 s2 = some p) :
    ∃ m p0, firstFeasible la rho minP maxP s1 s2 40 0 2 = some (m, p0) ∧ ¬ (p0.len < p.len) := by
  unfold getPath at h
  split at h
  · cases h
  · rename_i m p0 hff
    cases h
    exact ⟨m, p0, hff, optimise_not_longer hirr htr la rho minP maxP tol s1 s2 _ _ _ _⟩

end
end OmplModel.Vana
