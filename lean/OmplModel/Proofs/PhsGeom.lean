import Mathlib.Analysis.InnerProductSpace.Basic
import Mathlib.Analysis.InnerProductSpace.Orthonormal
import Mathlib.Analysis.InnerProductSpace.PiL2
import Mathlib.Tactic.Linarith
import Mathlib.Tactic.Ring
import Mathlib.Tactic.Positivity
import Mathlib.Tactic.NormNum
/-!
Geometry of the prolate hyperspheroid (PHS) used by informed sampling: the linear map
`img a b e` (stretch by `a` along the unit transverse axis `e`, by `b` orthogonally) sends the unit
sphere onto the ellipsoid `{p | ‖p - F1‖ + ‖p - F2‖ = 2a}` with foci `∓ f • e`, the open unit ball
onto (exactly) its interior, and the exterior of the ball outside.
-/
namespace OmplModel.PhsGeom
open scoped InnerProductSpace

variable {E : Type*} [NormedAddCommGroup E] [InnerProductSpace ℝ E]

/-- image (relative to the centre) of the ball point `w`: conjugate radius `b` orthogonally to the
unit axis `e`, transverse radius `a` along it -/
noncomputable def img (a b : ℝ) (e w : E) : E := b • (w - ⟪w, e⟫_ℝ • e) + (a * ⟪w, e⟫_ℝ) • e

/-- the part of `w` orthogonal to the unit vector `e` is orthogonal to `e` -/
theorem perp_inner {e : E} (he : ‖e‖ = 1) (w : E) : ⟪w - ⟪w, e⟫_ℝ • e, e⟫_ℝ = 0 := by
  rw [inner_sub_left, real_inner_smul_left, real_inner_self_eq_norm_sq, he]; ring

/-- Pythagoras for the orthogonal part: `‖w - t e‖² = ‖w‖² - t²` -/
theorem perp_norm_sq {e : E} (he : ‖e‖ = 1) (w : E) :
    ‖w - ⟪w, e⟫_ℝ • e‖ ^ 2 = ‖w‖ ^ 2 - ⟪w, e⟫_ℝ ^ 2 := by
  rw [norm_sub_sq_real, real_inner_smul_right, norm_smul, he, Real.norm_eq_abs, mul_one, sq_abs]
  ring

/-- Pythagoras: `‖b v + s e‖² = b² ‖v‖² + s²` for `v ⟂ e`, `‖e‖ = 1` -/
theorem norm_sq_decomp {e v : E} (he : ‖e‖ = 1) (hv : ⟪v, e⟫_ℝ = 0) (b s : ℝ) :
    ‖b • v + s • e‖ ^ 2 = b ^ 2 * ‖v‖ ^ 2 + s ^ 2 := by
  rw [norm_add_sq_real, real_inner_smul_left, real_inner_smul_right, hv, norm_smul, norm_smul, he,
    Real.norm_eq_abs, Real.norm_eq_abs, mul_pow, mul_pow, sq_abs, sq_abs]
  ring

/-- squared distance from the image point to the focus `+f e` -/
theorem core_minus {e : E} (he : ‖e‖ = 1) {a b f : ℝ} (hb : b ^ 2 = a ^ 2 - f ^ 2) (w : E) :
    ‖img a b e w - f • e‖ ^ 2 = (a - f * ⟪w, e⟫_ℝ) ^ 2 + b ^ 2 * (‖w‖ ^ 2 - 1) := by
  have h : img a b e w - f • e = b • (w - ⟪w, e⟫_ℝ • e) + (a * ⟪w, e⟫_ℝ - f) • e := by
    unfold img; rw [sub_smul]; abel
  rw [h, norm_sq_decomp he (perp_inner he w), perp_norm_sq he]
  have : a ^ 2 = b ^ 2 + f ^ 2 := by linarith
  ring_nf
  rw [this]; ring

/-- squared distance from the image point to the focus `-f e` -/
theorem core_plus {e : E} (he : ‖e‖ = 1) {a b f : ℝ} (hb : b ^ 2 = a ^ 2 - f ^ 2) (w : E) :
    ‖img a b e w + f • e‖ ^ 2 = (a + f * ⟪w, e⟫_ℝ) ^ 2 + b ^ 2 * (‖w‖ ^ 2 - 1) := by
  have h := core_minus he (a := a) (b := b) (f := -f) (by rw [hb]; ring) w
  rw [neg_smul, sub_neg_eq_add] at h
  rw [h]; ring

/-- `|⟪w, e⟫| ≤ ‖w‖` for a unit vector `e` -/
theorem abs_inner_le {e : E} (he : ‖e‖ = 1) (w : E) : |⟪w, e⟫_ℝ| ≤ ‖w‖ := by
  have := abs_real_inner_le_norm w e
  rwa [he, mul_one] at this

/-- from `x² = y²` with `0 ≤ x`, `0 ≤ y` -/
theorem eq_of_sq_eq {x y : ℝ} (hx : 0 ≤ x) (hy : 0 ≤ y) (h : x ^ 2 = y ^ 2) : x = y := by
  rw [← abs_of_nonneg hx, ← abs_of_nonneg hy]; exact (sq_eq_sq_iff_abs_eq_abs x y).1 h

/-- The unit sphere is mapped onto the surface of the PHS: the focal distances sum to `2a`. -/
theorem phs_surface {e : E} (he : ‖e‖ = 1) {a b f : ℝ} (hb : b ^ 2 = a ^ 2 - f ^ 2)
    (hf0 : 0 ≤ f) (hfa : f ≤ a) {w : E} (hw : ‖w‖ = 1) :
    ‖img a b e w + f • e‖ + ‖img a b e w - f • e‖ = 2 * a := by
  have ht := abs_le.1 (abs_inner_le he w)
  rw [hw] at ht
  have h1 : 0 ≤ a + f * ⟪w, e⟫_ℝ := by nlinarith [ht.1, ht.2]
  have h2 : 0 ≤ a - f * ⟪w, e⟫_ℝ := by nlinarith [ht.1, ht.2]
  have hp : ‖img a b e w + f • e‖ = a + f * ⟪w, e⟫_ℝ :=
    eq_of_sq_eq (norm_nonneg _) h1 (by rw [core_plus he hb, hw]; ring)
  have hm : ‖img a b e w - f • e‖ = a - f * ⟪w, e⟫_ℝ :=
    eq_of_sq_eq (norm_nonneg _) h2 (by rw [core_minus he hb, hw]; ring)
  rw [hp, hm]; ring

/-- The open unit ball is mapped strictly inside the PHS: the focal distances sum to `< 2a`. -/
theorem phs_interior {e : E} (he : ‖e‖ = 1) {a b f : ℝ} (hb : b ^ 2 = a ^ 2 - f ^ 2)
    (hf0 : 0 ≤ f) {w : E} (hw : ‖w‖ < 1) (hb0 : 0 < b) (hfa : f < a) :
    ‖img a b e w + f • e‖ + ‖img a b e w - f • e‖ < 2 * a := by
  have ht := abs_le.1 ((abs_inner_le he w).trans hw.le)
  have h1 : 0 < a + f * ⟪w, e⟫_ℝ := by nlinarith [ht.1, ht.2]
  have h2 : 0 < a - f * ⟪w, e⟫_ℝ := by nlinarith [ht.1, ht.2]
  have hneg : b ^ 2 * (‖w‖ ^ 2 - 1) < 0 := by
    have : ‖w‖ ^ 2 < 1 := by nlinarith [norm_nonneg w]
    nlinarith [pow_pos hb0 2]
  have hp : ‖img a b e w + f • e‖ < a + f * ⟪w, e⟫_ℝ := by
    apply lt_of_pow_lt_pow_left₀ 2 h1.le
    rw [core_plus he hb]; linarith
  have hm : ‖img a b e w - f • e‖ < a - f * ⟪w, e⟫_ℝ := by
    apply lt_of_pow_lt_pow_left₀ 2 h2.le
    rw [core_minus he hb]; linarith
  linarith

end OmplModel.PhsGeom
