import Mathlib.Analysis.InnerProductSpace.Basic
import Mathlib.Analysis.InnerProductSpace.Orthonormal
import Mathlib.Analysis.InnerProductSpace.PiL2
import Mathlib.Tactic.Linarith
import Mathlib.Tactic.Ring
import Mathlib.Tactic.Positivity
import Mathlib.Tactic.NormNum
import Mathlib.Tactic.Module
import Mathlib.Tactic.FieldSimp
import Mathlib.Tactic.Abel
/-!
Geometry of the prolate hyperspheroid (PHS) used by informed sampling: the linear map
`img a b e` (stretch by `a` along the unit transverse axis `e`, by `b` orthogonally) sends the unit
sphere onto the ellipsoid `{p | ‖p - F1‖ + ‖p - F2‖ = 2a}` with foci `∓ f • e`, the open unit ball
onto (exactly) its interior, and the exterior of the ball outside.
-/
namespace OmplModel.PhsGeom
open scoped InnerProductSpace

variable {E : Type*} [NormedAddCommGroup E] [InnerProductSpace ℝ E]

/-- image (relative to the centre) of the ball point `w`: conjugate radius `b` orthogonally to the
unit axis `e`, transverse radius `a` along it -/
noncomputable def img (a b : ℝ) (e w : E) : E := b • (w - ⟪w, e⟫_ℝ • e) + (a * ⟪w, e⟫_ℝ) • e

/-- the part of `w` orthogonal to the unit vector `e` is orthogonal to `e` -/
theorem perp_inner {e : E} (he : ‖e‖ = 1) (w : E) : ⟪w - ⟪w, e⟫_ℝ • e, e⟫_ℝ = 0 := by
  rw [inner_sub_left, real_inner_smul_left, real_inner_self_eq_norm_sq, he]; ring

/-- Pythagoras for the orthogonal part: `‖w - t e‖² = ‖w‖² - t²` -/
theorem perp_norm_sq {e : E} (he : ‖e‖ = 1) (w : E) :
    ‖w - ⟪w, e⟫_ℝ • e‖ ^ 2 = ‖w‖ ^ 2 - ⟪w, e⟫_ℝ ^ 2 := by
  rw [norm_sub_sq_real, real_inner_smul_right, norm_smul, he, Real.norm_eq_abs, mul_one, sq_abs]
  ring

/-- Pythagoras: `‖b v + s e‖² = b² ‖v‖² + s²` for `v ⟂ e`, `‖e‖ = 1` -/
theorem norm_sq_decomp {e v : E} (he : ‖e‖ = 1) (hv : ⟪v, e⟫_ℝ = 0) (b s : ℝ) :
    ‖b • v + s • e‖ ^ 2 = b ^ 2 * ‖v‖ ^ 2 + s ^ 2 := by
  rw [norm_add_sq_real, real_inner_smul_left, real_inner_smul_right, hv, norm_smul, norm_smul, he,
    Real.norm_eq_abs, Real.norm_eq_abs, mul_pow, mul_pow, sq_abs, sq_abs]
  ring

/-- squared distance from the image point to the focus `+f e` -/
theorem core_minus {e : E} (he : ‖e‖ = 1) {a b f : ℝ} (hb : b ^ 2 = a ^ 2 - f ^ 2) (w : E) :
    ‖img a b e w - f • e‖ ^ 2 = (a - f * ⟪w, e⟫_ℝ) ^ 2 + b ^ 2 * (‖w‖ ^ 2 - 1) := by
  have h : img a b e w - f • e = b • (w - ⟪w, e⟫_ℝ • e) + (a * ⟪w, e⟫_ℝ - f) • e := by
    unfold img; rw [sub_smul]; abel
  rw [h, norm_sq_decomp he (perp_inner he w), perp_norm_sq he]
  have : a ^ 2 = b ^ 2 + f ^ 2 := by linarith
  ring_nf
  rw [this]; ring

/-- squared distance from the image point to the focus `-f e` -/
theorem core_plus {e : E} (he : ‖e‖ = 1) {a b f : ℝ} (hb : b ^ 2 = a ^ 2 - f ^ 2) (w : E) :
    ‖img a b e w + f • e‖ ^ 2 = (a + f * ⟪w, e⟫_ℝ) ^ 2 + b ^ 2 * (‖w‖ ^ 2 - 1) := by
  have h := core_minus he (a := a) (b := b) (f := -f) (by rw [hb]; ring) w
  rw [neg_smul, sub_neg_eq_add] at h
  rw [h]; ring

/-- `|⟪w, e⟫| ≤ ‖w‖` for a unit vector `e` -/
theorem abs_inner_le {e : E} (he : ‖e‖ = 1) (w : E) : |⟪w, e⟫_ℝ| ≤ ‖w‖ := by
  have := abs_real_inner_le_norm w e
  rwa [he, mul_one] at this

/-- from `x² = y²` with `0 ≤ x`, `0 ≤ y` -/
theorem eq_of_sq_eq {x y : ℝ} (hx : 0 ≤ x) (hy : 0 ≤ y) (h : x ^ 2 = y ^ 2) : x = y := by
  rw [← abs_of_nonneg hx, ← abs_of_nonneg hy]; exact (sq_eq_sq_iff_abs_eq_abs x y).1 h

/-- The unit sphere is mapped onto the surface of the PHS: the focal distances sum to `2a`. -/
theorem phs_surface {e : E} (he : ‖e‖ = 1) {a b f : ℝ} (hb : b ^ 2 = a ^ 2 - f ^ 2)
    (hf0 : 0 ≤ f) (hfa : f ≤ a) {w : E} (hw : ‖w‖ = 1) :
    ‖img a b e w + f • e‖ + ‖img a b e w - f • e‖ = 2 * a := by
  have ht := abs_le.1 (abs_inner_le he w)
  rw [hw] at ht
  have h1 : 0 ≤ a + f * ⟪w, e⟫_ℝ := by nlinarith [ht.1, ht.2]
  have h2 : 0 ≤ a - f * ⟪w, e⟫_ℝ := by nlinarith [ht.1, ht.2]
  have hp : ‖img a b e w + f • e‖ = a + f * ⟪w, e⟫_ℝ :=
    eq_of_sq_eq (norm_nonneg _) h1 (by rw [core_plus he hb, hw]; ring)
  have hm : ‖img a b e w - f • e‖ = a - f * ⟪w, e⟫_ℝ :=
    eq_of_sq_eq (norm_nonneg _) h2 (by rw [core_minus he hb, hw]; ring)
  rw [hp, hm]; ring

/-- The open unit ball is mapped strictly inside the PHS: the focal distances sum to `< 2a`. -/
theorem phs_interior {e : E} (he : ‖e‖ = 1) {a b f : ℝ} (hb : b ^ 2 = a ^ 2 - f ^ 2)
    (hf0 : 0 ≤ f) {w : E} (hw : ‖w‖ < 1) (hb0 : 0 < b) (hfa : f < a) :
    ‖img a b e w + f • e‖ + ‖img a b e w - f • e‖ < 2 * a := by
  have ht := abs_le.1 ((abs_inner_le he w).trans hw.le)
  have h1 : 0 < a + f * ⟪w, e⟫_ℝ := by nlinarith [ht.1, ht.2]
  have h2 : 0 < a - f * ⟪w, e⟫_ℝ := by nlinarith [ht.1, ht.2]
  have hneg : b ^ 2 * (‖w‖ ^ 2 - 1) < 0 := by
    have : ‖w‖ ^ 2 < 1 := by nlinarith [norm_nonneg w]
    nlinarith [pow_pos hb0 2]
  have hp : ‖img a b e w + f • e‖ < a + f * ⟪w, e⟫_ℝ := by
    apply lt_of_pow_lt_pow_left₀ 2 h1.le
    rw [core_plus he hb]; linarith
  have hm : ‖img a b e w - f • e‖ < a - f * ⟪w, e⟫_ℝ := by
    apply lt_of_pow_lt_pow_left₀ 2 h2.le
    rw [core_minus he hb]; linarith
  linarith

/-- Points of the closed exterior of the unit ball are mapped (weakly) outside the PHS. -/
theorem phs_exterior {e : E} (he : ‖e‖ = 1) {a b f : ℝ} (hb : b ^ 2 = a ^ 2 - f ^ 2)
    {w : E} (hw : 1 ≤ ‖w‖) :
    2 * a ≤ ‖img a b e w + f • e‖ + ‖img a b e w - f • e‖ := by
  have hpos : 0 ≤ b ^ 2 * (‖w‖ ^ 2 - 1) := by
    have : 1 ≤ ‖w‖ ^ 2 := by nlinarith
    nlinarith [sq_nonneg b]
  have hp : a + f * ⟪w, e⟫_ℝ ≤ ‖img a b e w + f • e‖ := by
    refine (abs_le_of_sq_le_sq' ?_ (norm_nonneg _)).2
    rw [core_plus he hb]; linarith
  have hm : a - f * ⟪w, e⟫_ℝ ≤ ‖img a b e w - f • e‖ := by
    refine (abs_le_of_sq_le_sq' ?_ (norm_nonneg _)).2
    rw [core_minus he hb]; linarith
  linarith

/-- Every point strictly inside the PHS is the image of a point of the open unit ball. -/
theorem phs_onto {e : E} (he : ‖e‖ = 1) {a b f : ℝ} (hb : b ^ 2 = a ^ 2 - f ^ 2)
    (hb0 : 0 < b) (ha0 : 0 < a) (p : E) (hp : ‖p + f • e‖ + ‖p - f • e‖ < 2 * a) :
    ∃ w : E, ‖w‖ < 1 ∧ img a b e w = p := by
  set s : ℝ := ⟪p, e⟫_ℝ with hs
  have hperp : ⟪p - s • e, e⟫_ℝ = 0 := perp_inner he p
  set w : E := (1 / b) • (p - s • e) + (s / a) • e with hw
  have ht : ⟪w, e⟫_ℝ = s / a := by
    rw [hw, inner_add_left, real_inner_smul_left, real_inner_smul_left, hperp,
      real_inner_self_eq_norm_sq, he]
    ring
  have himg : img a b e w = p := by
    unfold img
    rw [ht]
    have h1 : w - (s / a) • e = (1 / b) • (p - s • e) := by rw [hw]; abel
    have h2 : b * (1 / b) = 1 := by field_simp
    have h3 : a * (s / a) = s := by field_simp
    rw [h1, smul_smul, h2, h3, one_smul]; abel
  refine ⟨w, ?_, himg⟩
  by_contra hcon
  have := phs_exterior he hb (f := f) (not_lt.1 hcon)
  rw [himg] at this
  linarith

/-- The image of the open unit ball is exactly the open interior of the PHS. -/
theorem phs_image_eq {e : E} (he : ‖e‖ = 1) {a b f : ℝ} (hb : b ^ 2 = a ^ 2 - f ^ 2)
    (hb0 : 0 < b) (hfa : f < a) (hf0 : 0 ≤ f) :
    (img a b e) '' Metric.ball 0 1 = {p | ‖p + f • e‖ + ‖p - f • e‖ < 2 * a} := by
  ext p
  constructor
  · rintro ⟨w, hw, rfl⟩
    exact phs_interior he hb hf0 (mem_ball_zero_iff.1 hw) hb0 hfa
  · intro hp
    obtain ⟨w, hw, h⟩ := phs_onto he hb hb0 (lt_of_le_of_lt hf0 hfa) p hp
    exact ⟨w, mem_ball_zero_iff.2 hw, h⟩

/-! ### foci form -/

/-- the normalised focal axis is a unit vector -/
theorem axis_norm {F1 F2 : E} (hne : F1 ≠ F2) : ‖(1 / ‖F2 - F1‖) • (F2 - F1)‖ = 1 := by
  have h : 0 < ‖F2 - F1‖ := norm_pos_iff.2 (sub_ne_zero.2 hne.symm)
  rw [norm_smul, Real.norm_eq_abs, abs_of_pos (by positivity)]
  field_simp

/-- the conjugate radius `b = √(c² - cmin²)/2` satisfies `b² = a² - f²` -/
theorem conj_sq {c cmin : ℝ} (h0 : 0 ≤ cmin) (h : cmin ≤ c) :
    (Real.sqrt (c ^ 2 - cmin ^ 2) / 2) ^ 2 = (c / 2) ^ 2 - (cmin / 2) ^ 2 := by
  have : 0 ≤ c ^ 2 - cmin ^ 2 := by nlinarith
  rw [div_pow, Real.sq_sqrt this]; ring

/-- the conjugate radius is positive when `cmin < c` -/
theorem conj_pos {c cmin : ℝ} (h0 : 0 ≤ cmin) (h : cmin < c) :
    0 < Real.sqrt (c ^ 2 - cmin ^ 2) / 2 := by
  have : 0 < c ^ 2 - cmin ^ 2 := by nlinarith
  have := Real.sqrt_pos.2 this
  positivity

/-- offset of a PHS point from the focus `F1` -/
theorem sub_F1 {F1 F2 : E} (hne : F1 ≠ F2) (p : E) :
    (1 / 2 : ℝ) • (F1 + F2) + p - F1
      = p + (‖F2 - F1‖ / 2) • ((1 / ‖F2 - F1‖) • (F2 - F1)) := by
  have h : ‖F2 - F1‖ ≠ 0 := norm_ne_zero_iff.2 (sub_ne_zero.2 hne.symm)
  have h2 : ‖F2 - F1‖ / 2 * (1 / ‖F2 - F1‖) = 1 / 2 := by field_simp
  rw [smul_smul, h2]; module

/-- offset of a PHS point from the focus `F2` -/
theorem sub_F2 {F1 F2 : E} (hne : F1 ≠ F2) (p : E) :
    (1 / 2 : ℝ) • (F1 + F2) + p - F2
      = p - (‖F2 - F1‖ / 2) • ((1 / ‖F2 - F1‖) • (F2 - F1)) := by
  have h : ‖F2 - F1‖ ≠ 0 := norm_ne_zero_iff.2 (sub_ne_zero.2 hne.symm)
  have h2 : ‖F2 - F1‖ / 2 * (1 / ‖F2 - F1‖) = 1 / 2 := by field_simp
  rw [smul_smul, h2]; module

/-- Foci form, surface: a unit vector `w` is mapped to a point whose distances to the foci sum to
exactly `c`. -/
theorem phs_surface_foci {F1 F2 : E} (hne : F1 ≠ F2) {c : ℝ} (hc : ‖F2 - F1‖ ≤ c)
    {w : E} (hw : ‖w‖ = 1) :
    ‖(1 / 2 : ℝ) • (F1 + F2)
        + img (c / 2) (Real.sqrt (c ^ 2 - ‖F2 - F1‖ ^ 2) / 2) ((1 / ‖F2 - F1‖) • (F2 - F1)) w
        - F1‖
      + ‖(1 / 2 : ℝ) • (F1 + F2)
        + img (c / 2) (Real.sqrt (c ^ 2 - ‖F2 - F1‖ ^ 2) / 2) ((1 / ‖F2 - F1‖) • (F2 - F1)) w
        - F2‖ = c := by
  rw [sub_F1 hne, sub_F2 hne,
    phs_surface (axis_norm hne) (conj_sq (norm_nonneg _) hc) (by positivity) (by linarith) hw]
  ring

/-- Foci form, interior: a vector `w` of the open unit ball is mapped to a point whose distances
to the foci sum to strictly less than `c`. -/
theorem phs_interior_foci {F1 F2 : E} (hne : F1 ≠ F2) {c : ℝ} (hc : ‖F2 - F1‖ < c)
    {w : E} (hw : ‖w‖ < 1) :
    ‖(1 / 2 : ℝ) • (F1 + F2)
        + img (c / 2) (Real.sqrt (c ^ 2 - ‖F2 - F1‖ ^ 2) / 2) ((1 / ‖F2 - F1‖) • (F2 - F1)) w
        - F1‖
      + ‖(1 / 2 : ℝ) • (F1 + F2)
        + img (c / 2) (Real.sqrt (c ^ 2 - ‖F2 - F1‖ ^ 2) / 2) ((1 / ‖F2 - F1‖) • (F2 - F1)) w
        - F2‖ < c := by
  rw [sub_F1 hne, sub_F2 hne]
  have := phs_interior (axis_norm hne) (conj_sq (norm_nonneg _) hc.le) (by positivity) hw
    (conj_pos (norm_nonneg _) hc) (by linarith : ‖F2 - F1‖ / 2 < c / 2)
  linarith

/-- Foci form, onto: every point whose distances to the foci sum to less than `c` is the image of
some `w` in the open unit ball. -/
theorem phs_onto_foci {F1 F2 : E} (hne : F1 ≠ F2) {c : ℝ} (hc : ‖F2 - F1‖ < c)
    (x : E) (hx : ‖x - F1‖ + ‖x - F2‖ < c) :
    ∃ w : E, ‖w‖ < 1 ∧
      (1 / 2 : ℝ) • (F1 + F2)
        + img (c / 2) (Real.sqrt (c ^ 2 - ‖F2 - F1‖ ^ 2) / 2) ((1 / ‖F2 - F1‖) • (F2 - F1)) w
        = x := by
  have hc0 : 0 < c := lt_of_le_of_lt (norm_nonneg _) hc
  have h1 := sub_F1 hne (x - (1 / 2 : ℝ) • (F1 + F2))
  have h2 := sub_F2 hne (x - (1 / 2 : ℝ) • (F1 + F2))
  rw [add_sub_cancel] at h1 h2
  obtain ⟨w, hw, h⟩ := phs_onto (axis_norm hne) (conj_sq (norm_nonneg _) hc.le)
    (conj_pos (norm_nonneg _) hc) (by positivity : 0 < c / 2)
    (x - (1 / 2 : ℝ) • (F1 + F2)) (f := ‖F2 - F1‖ / 2) (by rw [← h1, ← h2]; linarith)
  exact ⟨w, hw, by rw [h]; abel⟩

/-! ### orthonormal-columns form (`x = R · diag(a, b, …, b) · u + centre`) -/

/-- `R · diag(a, b, …, b) · u` equals `img a b (col 0) (R · u)` when the columns of `R` are
orthonormal. -/
theorem cols_img {n : ℕ} {col : Fin (n + 1) → E} (hcol : Orthonormal ℝ col) (a b : ℝ)
    (u : Fin (n + 1) → ℝ) :
    ∑ j, ((if j = 0 then a else b) * u j) • col j = img a b (col 0) (∑ j, u j • col j) := by
  have ht : ⟪∑ j, u j • col j, col 0⟫_ℝ = u 0 := by
    rw [hcol.inner_left_fintype]; rfl
  unfold img
  rw [ht, Fin.sum_univ_succ, Fin.sum_univ_succ (fun j => u j • col j), add_sub_cancel_left,
    Finset.smul_sum, if_pos rfl, add_comm]
  congr 1
  refine Finset.sum_congr rfl fun j _ => ?_
  rw [if_neg (Fin.succ_ne_zero j), mul_smul]

/-- `‖R · u‖² = ∑ uⱼ²` when the columns of `R` are orthonormal. -/
theorem cols_norm_sq {n : ℕ} {col : Fin (n + 1) → E} (hcol : Orthonormal ℝ col)
    (u : Fin (n + 1) → ℝ) : ‖∑ j, u j • col j‖ ^ 2 = ∑ j, (u j) ^ 2 := by
  rw [← real_inner_self_eq_norm_sq, hcol.inner_sum]
  refine Finset.sum_congr rfl fun j _ => ?_
  simp [sq]

/-- Columns form, surface: with orthonormal columns whose first one is the focal axis, a unit
coefficient vector `u` gives a point whose distances to the foci sum to exactly `c`. -/
theorem phs_surface_cols {n : ℕ} {col : Fin (n + 1) → E} (hcol : Orthonormal ℝ col)
    {F1 F2 : E} (hne : F1 ≠ F2) (h0 : col 0 = (1 / ‖F2 - F1‖) • (F2 - F1))
    {c : ℝ} (hc : ‖F2 - F1‖ ≤ c) {u : Fin (n + 1) → ℝ} (hu : ∑ j, (u j) ^ 2 = 1) :
    ‖(1 / 2 : ℝ) • (F1 + F2)
        + ∑ j, ((if j = 0 then c / 2 else Real.sqrt (c ^ 2 - ‖F2 - F1‖ ^ 2) / 2) * u j) • col j
        - F1‖
      + ‖(1 / 2 : ℝ) • (F1 + F2)
        + ∑ j, ((if j = 0 then c / 2 else Real.sqrt (c ^ 2 - ‖F2 - F1‖ ^ 2) / 2) * u j) • col j
        - F2‖ = c := by
  have hw : ‖∑ j, u j • col j‖ = 1 :=
    eq_of_sq_eq (norm_nonneg _) zero_le_one (by rw [cols_norm_sq hcol, hu]; norm_num)
  rw [cols_img hcol, h0]
  exact phs_surface_foci hne hc hw

/-- Columns form, interior: a coefficient vector `u` of the open unit ball gives a point whose
distances to the foci sum to strictly less than `c`. -/
theorem phs_interior_cols {n : ℕ} {col : Fin (n + 1) → E} (hcol : Orthonormal ℝ col)
    {F1 F2 : E} (hne : F1 ≠ F2) (h0 : col 0 = (1 / ‖F2 - F1‖) • (F2 - F1))
    {c : ℝ} {u : Fin (n + 1) → ℝ} (hu : ∑ j, (u j) ^ 2 < 1) (hc : ‖F2 - F1‖ < c) :
    ‖(1 / 2 : ℝ) • (F1 + F2)
        + ∑ j, ((if j = 0 then c / 2 else Real.sqrt (c ^ 2 - ‖F2 - F1‖ ^ 2) / 2) * u j) • col j
        - F1‖
      + ‖(1 / 2 : ℝ) • (F1 + F2)
        + ∑ j, ((if j = 0 then c / 2 else Real.sqrt (c ^ 2 - ‖F2 - F1‖ ^ 2) / 2) * u j) • col j
        - F2‖ < c := by
  have hw : ‖∑ j, u j • col j‖ < 1 :=
    lt_of_pow_lt_pow_left₀ 2 zero_le_one (by rw [cols_norm_sq hcol]; simpa using hu)
  rw [cols_img hcol, h0]
  exact phs_interior_foci hne hc hw

/-- Columns form, onto: when the columns form an orthonormal basis whose first vector is the focal
axis, every point whose distances to the foci sum to less than `c` is obtained from some
coefficient vector `u` of the open unit ball. -/
theorem phs_onto_cols {n : ℕ} (basis : OrthonormalBasis (Fin (n + 1)) ℝ E)
    {F1 F2 : E} (hne : F1 ≠ F2) (h0 : basis 0 = (1 / ‖F2 - F1‖) • (F2 - F1))
    {c : ℝ} (hc : ‖F2 - F1‖ < c) (x : E) (hx : ‖x - F1‖ + ‖x - F2‖ < c) :
    ∃ u : Fin (n + 1) → ℝ, ∑ j, (u j) ^ 2 < 1 ∧
      (1 / 2 : ℝ) • (F1 + F2)
        + ∑ j, ((if j = 0 then c / 2 else Real.sqrt (c ^ 2 - ‖F2 - F1‖ ^ 2) / 2) * u j) • basis j
        = x := by
  obtain ⟨w, hw, h⟩ := phs_onto_foci hne hc x hx
  have hsum : ∑ j, (fun j => basis.repr w j) j • basis j = w := basis.sum_repr w
  refine ⟨fun j => basis.repr w j, ?_, ?_⟩
  · rw [← cols_norm_sq basis.orthonormal, hsum]
    nlinarith [norm_nonneg w]
  · rw [cols_img basis.orthonormal, hsum, h0]
    exact h

/-! ### non-vacuity -/

/-- the hypotheses of the axis form are satisfiable (`E = ℝ`, `e = 1`, `a = 5`, `f = 3`, `b = 4`,
`w = 1` on the sphere, `w = 1/2` in the ball) -/
example : ‖img 5 4 (1 : ℝ) 1 + (3 : ℝ) • (1 : ℝ)‖ + ‖img 5 4 (1 : ℝ) 1 - (3 : ℝ) • (1 : ℝ)‖ = 2 * 5
    ∧ ‖img 5 4 (1 : ℝ) (1 / 2) + (3 : ℝ) • (1 : ℝ)‖ + ‖img 5 4 (1 : ℝ) (1 / 2) - (3 : ℝ) • (1 : ℝ)‖
        < 2 * 5 :=
  ⟨phs_surface (by norm_num) (by norm_num) (by norm_num) (by norm_num) (by norm_num),
   phs_interior (by norm_num) (by norm_num) (by norm_num) (by norm_num) (by norm_num)
    (by norm_num)⟩

/-- the hypotheses of the foci / columns forms are satisfiable for any orthonormal basis:
`F1 = 0`, `F2 = 6 • basis 0`, `c = 10` -/
example {n : ℕ} (basis : OrthonormalBasis (Fin (n + 1)) ℝ E) :
    (0 : E) ≠ (6 : ℝ) • basis 0
      ∧ basis 0 = (1 / ‖(6 : ℝ) • basis 0 - 0‖) • ((6 : ℝ) • basis 0 - 0)
      ∧ ‖(6 : ℝ) • basis 0 - 0‖ < 10 := by
  have h1 : ‖basis 0‖ = 1 := basis.orthonormal.1 0
  have h6 : ‖(6 : ℝ) • basis 0 - 0‖ = 6 := by
    rw [sub_zero, norm_smul, h1]; norm_num
  refine ⟨?_, ?_, ?_⟩
  · intro h
    have : ‖(6 : ℝ) • basis 0 - 0‖ = 0 := by rw [← h]; simp
    rw [h6] at this; norm_num at this
  · rw [h6, sub_zero, smul_smul]; norm_num
  · rw [h6]; norm_num

end OmplModel.PhsGeom
