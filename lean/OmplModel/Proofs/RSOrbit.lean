import OmplModel.Model.RSOrbit
import OmplModel.Proofs.RSWordsBack
import OmplModel.Proofs.RSCCCC
import OmplModel.Proofs.RSFiveAll
import OmplModel.Proofs.RSReach
/-! [EX] every image of the 64-image closure reaches the goal: the 20 backwards images the C++ omits drive like the reverse of a coded
candidate for `(xb, yb, phi)` (`reaches_reverse`, `rs_backwards`). -/
namespace OmplModel.RS
open OmplModel OmplModel.Dubins DubinsR RSR
attribute [-instance] Num.instOfNat

theorem bCSCback_drives_reverse (ty : Nat) (hty : ty = 14 ∨ ty = 15 ∨ ty = 12 ∨ ty = 13) (f : Bool) (t u v : ℝ) :
    rsIntegFull (bCSCback ty f t u v).segList ⟨0, 0, 0⟩ =
      rsIntegFull (bCSC ty f t u v).segList.reverse ⟨0, 0, 0⟩ := by
  rcases hty with rfl | rfl | rfl | rfl <;>
    simp only [RSPath.segList, RSPath.lens, bCSCback, bCSC, revTy, rsType, List.zip_cons_cons, List.zip_nil_right,
      List.reverse_cons, List.reverse_nil, List.nil_append, List.cons_append, rsIntegFull, rsStep_eq_N]

theorem bCCCCaBack_drives_reverse (ty : Nat) (hty : ty = 2 ∨ ty = 3) (f : Bool) (t u v : ℝ) :
    rsIntegFull (bCCCCaBack ty f t u v).segList ⟨0, 0, 0⟩ =
      rsIntegFull (bCCCCa ty f t u v).segList.reverse ⟨0, 0, 0⟩ := by
  rcases hty with rfl | rfl <;>
    simp only [RSPath.segList, RSPath.lens, bCCCCaBack, bCCCCa, revTy, rsType, List.zip_cons_cons, List.zip_nil_right,
      List.reverse_cons, List.reverse_nil, List.nil_append, List.cons_append, rsIntegFull, rsStep_eq_N]

theorem bCCCCbBack_drives_reverse (ty : Nat) (hty : ty = 2 ∨ ty = 3) (f : Bool) (t u v : ℝ) :
    rsIntegFull (bCCCCbBack ty f t u v).segList ⟨0, 0, 0⟩ =
      rsIntegFull (bCCCCb ty f t u v).segList.reverse ⟨0, 0, 0⟩ := by
  rcases hty with rfl | rfl <;>
    simp only [RSPath.segList, RSPath.lens, bCCCCbBack, bCCCCb, revTy, rsType, List.zip_cons_cons, List.zip_nil_right,
      List.reverse_cons, List.reverse_nil, List.nil_append, List.cons_append, rsIntegFull, rsStep_eq_N]

theorem bCCSCCback_drives_reverse (ty : Nat) (hty : ty = 16 ∨ ty = 17) (f : Bool) (t u v : ℝ) :
    rsIntegFull (bCCSCCback ty f t u v).segList ⟨0, 0, 0⟩ =
      rsIntegFull (bCCSCC ty f t u v).segList.reverse ⟨0, 0, 0⟩ := by
  rcases hty with rfl | rfl <;>
    simp only [RSPath.segList, RSPath.lens, bCCSCCback, bCCSCC, revTy, rsType, List.zip_cons_cons, List.zip_nil_right,
      List.reverse_cons, List.reverse_nil, List.nil_append, List.cons_append, rsIntegFull, rsStep_eq_N]

theorem coded_eq_allCands (x y phi : ℝ) : coded x y phi = allCands x y phi := rfl

/-- every coded candidate reaches the goal -/
theorem coded_reach (x y phi L : ℝ) (Q : RSPath ℝ) (h : some (L, Q) ∈ coded x y phi) : Reaches Q x y phi := by
  simp only [coded, List.mem_append] at h
  rcases h with (((h | h) | h) | h) | h
  · exact CSC_candidates_reach x y phi L Q h
  · exact CCC_all_candidates_reach x y phi L Q h
  · exact CCCC_candidates_reach x y phi L Q h
  · exact CCSC_all_candidates_reach x y phi L Q h
  · exact CCSCC_candidates_reach x y phi L Q h

/-- **the 20 omitted backwards images reach the goal** -/
theorem missing_reach (x y phi L : ℝ) (Q : RSPath ℝ) (h : some (L, Q) ∈ missing x y phi) : Reaches Q x y phi := by
  simp only [missing, List.mem_append] at h
  rcases h with (((h | h) | h) | h) | h
  · obtain ⟨ty, f, t, u, v, hty, rfl, hm⟩ := four_twin bCSC bCSCback h
    exact reaches_reverse _ _ (bCSCback_drives_reverse ty (by rcases hty with h | h <;> simp [h]) f t u v) x y phi
      (CSC_candidates_reach _ _ _ _ _ (List.mem_append_left _ hm))
  · obtain ⟨ty, f, t, u, v, hty, rfl, hm⟩ := four_twin bCSC bCSCback h
    exact reaches_reverse _ _ (bCSCback_drives_reverse ty (by rcases hty with h | h <;> simp [h]) f t u v) x y phi
      (CSC_candidates_reach _ _ _ _ _ (List.mem_append_right _ hm))
  · obtain ⟨ty, f, t, u, v, hty, rfl, hm⟩ := four_twin bCCCCa bCCCCaBack h
    exact reaches_reverse _ _ (bCCCCaBack_drives_reverse ty hty f t u v) x y phi
      (CCCC_candidates_reach _ _ _ _ _ (List.mem_append_left _ hm))
  · obtain ⟨ty, f, t, u, v, hty, rfl, hm⟩ := four_twin bCCCCb bCCCCbBack h
    exact reaches_reverse _ _ (bCCCCbBack_drives_reverse ty hty f t u v) x y phi
      (CCCC_candidates_reach _ _ _ _ _ (List.mem_append_right _ hm))
  · obtain ⟨ty, f, t, u, v, hty, rfl, hm⟩ := four_twin bCCSCC bCCSCCback h
    exact reaches_reverse _ _ (bCCSCCback_drives_reverse ty hty f t u v) x y phi
      (CCSCC_candidates_reach _ _ _ _ _ hm)

end OmplModel.RS
