/-
Proofs about the densification routines (PathGeometric::subdivide / interpolate() /
interpolate(count)) and the splice of partialShortcutPath of `OmplModel.Model.PathOps`.
Core Lean only.
-/
import OmplModel.Model.PathOps

namespace OmplModel.PathOps

variable {σ : Type}

/-! ## list helpers -/

theorem getLast?_cons_append_of_ne_nil (a : σ) (blk X : List σ) (h : X ≠ []) :
    (a :: (blk ++ X)).getLast? = X.getLast? := by
  have h1 : blk ++ X ≠ [] := by simp [h]
  rw [List.getLast?_cons_of_ne_nil h1, List.getLast?_append]
  cases X with
  | nil => exact absurd rfl h
  | cons x xs => simp [List.getLast?_cons]

/-- `n - 1` in `unsigned int` followed by `count = cnt + 1` in `unsigned int` -/
theorem wrap_arith (v : Nat) (h : v < 4294967296) :
    ((v + 4294967295) % 4294967296 + 1) % 4294967296 - 1 = v - 1 := by
  omega

/-! ## subdivide -/

theorem subdivideGo_sublist (mid : σ → σ → σ) (prev : σ) (l : List σ) :
    l.Sublist (subdivideGo mid prev l) := by
  induction l generalizing prev with
  | nil => simp [subdivideGo]
  | cons b r ih => simp only [subdivideGo]; exact ((ih b).cons_cons b).cons _

theorem subdivide_sublist (mid : σ → σ → σ) (l : List σ) : l.Sublist (subdivide mid l) := by
  cases l with
  | nil => simp [subdivide]
  | cons a r => simp only [subdivide]; exact (subdivideGo_sublist mid a r).cons_cons a

theorem subdivideGo_length (mid : σ → σ → σ) (prev : σ) (l : List σ) :
    (subdivideGo mid prev l).length = 2 * l.length := by
  induction l generalizing prev with
  | nil => simp [subdivideGo]
  | cons b r ih => simp only [subdivideGo, List.length_cons, ih b]; omega

theorem subdivide_length (mid : σ → σ → σ) (l : List σ) (h : l ≠ []) :
    (subdivide mid l).length = 2 * l.length - 1 := by
  cases l with
  | nil => exact absurd rfl h
  | cons a r => simp only [subdivide, List.length_cons, subdivideGo_length]; omega

theorem subdivide_head? (mid : σ → σ → σ) (l : List σ) : (subdivide mid l).head? = l.head? := by
  cases l <;> simp [subdivide]

theorem subdivideGo_getLast? (mid : σ → σ → σ) (a : σ) (l : List σ) :
    (a :: subdivideGo mid a l).getLast? = (a :: l).getLast? := by
  induction l generalizing a with
  | nil => simp [subdivideGo]
  | cons b r ih =>
    simp only [subdivideGo]
    rw [List.getLast?_cons_cons, List.getLast?_cons_cons, List.getLast?_cons_cons]
    exact ih b

theorem subdivide_getLast? (mid : σ → σ → σ) (l : List σ) :
    (subdivide mid l).getLast? = l.getLast? := by
  cases l with
  | nil => simp [subdivide]
  | cons a r => simp only [subdivide]; exact subdivideGo_getLast? mid a r

theorem subdivideGo_adj (mid : σ → σ → σ) (a : σ) (l : List σ) :
    ∀ p ∈ adj (a :: subdivideGo mid a l), ∃ q ∈ adj (a :: l),
      p = (q.1, mid q.1 q.2) ∨ p = (mid q.1 q.2, q.2) := by
  induction l generalizing a with
  | nil => simp [subdivideGo, adj]
  | cons b r ih =>
    intro p hp
    simp only [subdivideGo, adj, List.mem_cons] at hp
    rcases hp with rfl | rfl | hp
    · exact ⟨(a, b), by simp [adj], Or.inl rfl⟩
    · exact ⟨(a, b), by simp [adj], Or.inr rfl⟩
    · obtain ⟨q, hq, h⟩ := ih b p hp
      exact ⟨q, by simp only [adj, List.mem_cons]; exact Or.inr hq, h⟩

/-- every new state is the midpoint of the two original neighbours: the result interleaves -/
theorem subdivide_adj (mid : σ → σ → σ) (l : List σ) :
    ∀ p ∈ adj (subdivide mid l), ∃ q ∈ adj l, p = (q.1, mid q.1 q.2) ∨ p = (mid q.1 q.2, q.2) := by
  cases l with
  | nil => simp [subdivide, adj]
  | cons a r => simp only [subdivide]; exact subdivideGo_adj mid a r

/-! ## interpolate() -/

theorem motionStates_length' (frac : σ → σ → Nat → Nat → σ) (a b : σ) (cnt : Nat) :
    (motionStates frac a b cnt).length = (cnt + 1) % 4294967296 - 1 := by
  unfold motionStates
  simp only
  split
  · simp; omega
  · simp

theorem motionStates_length (frac : σ → σ → Nat → Nat → σ) (a b : σ) (cnt : Nat)
    (h : cnt + 1 < 4294967296) : (motionStates frac a b cnt).length = cnt := by
  rw [motionStates_length', Nat.mod_eq_of_lt h]; omega

theorem interpolateAll_sublist (vsc : σ → σ → Nat) (frac : σ → σ → Nat → Nat → σ) (l : List σ) :
    l.Sublist (interpolateAll vsc frac l) := by
  fun_induction interpolateAll vsc frac l with
  | case1 a b r ih => exact (List.Sublist.trans ih (List.sublist_append_right _ _)).cons_cons a
  | case2 l _ => exact List.Sublist.refl l

theorem interpolateAll_head? (vsc : σ → σ → Nat) (frac : σ → σ → Nat → Nat → σ) (l : List σ) :
    (interpolateAll vsc frac l).head? = l.head? := by
  fun_cases interpolateAll vsc frac l <;> simp

theorem interpolateAll_getLast? (vsc : σ → σ → Nat) (frac : σ → σ → Nat → Nat → σ) (l : List σ) :
    (interpolateAll vsc frac l).getLast? = l.getLast? := by
  fun_induction interpolateAll vsc frac l with
  | case1 a b r ih =>
    have hne : interpolateAll vsc frac (b :: r) ≠ [] := by
      intro h
      have := interpolateAll_sublist vsc frac (b :: r)
      rw [h] at this; simp at this
    rw [getLast?_cons_append_of_ne_nil _ _ _ hne, ih, List.getLast?_cons_cons]
  | case2 l _ => rfl

theorem adj_of_short (l : List σ) (hl : ∀ a b r, l = a :: b :: r → False) : adj l = [] := by
  unfold adj; split
  · exact absurd rfl (hl _ _ _)
  · rfl

/-- per segment exactly `vsc a b - 1` states are inserted (none for vsc ≤ 1, in particular for a
zero-length segment with vsc = 0, where the unsigned `n - 1` wraps) -/
theorem interpolateAll_length (vsc : σ → σ → Nat) (frac : σ → σ → Nat → Nat → σ) (l : List σ)
    (hv : ∀ a b, vsc a b < 4294967296) :
    (interpolateAll vsc frac l).length = l.length + ((adj l).map fun p => vsc p.1 p.2 - 1).sum := by
  fun_induction interpolateAll vsc frac l with
  | case1 a b r ih =>
    rw [List.length_cons, List.length_append, ih, motionStates_length', wrap_arith _ (hv a b)]
    simp only [adj, List.map_cons, List.sum_cons, List.length_cons]
    omega
  | case2 l hl =>
    rw [adj_of_short l hl]; simp

/-! ## interpolate(count) -/

section IC
variable {α : Type} (segLen : σ → σ → α) (sub : α → α → α) (approx : Int → α → α → Int)
  (frac : σ → σ → Nat → Nat → σ)

theorem icLoop_sublist (size i : Nat) (count : Int) (rem : α) (l : List σ) :
    l.Sublist (icLoop segLen sub approx frac size i count rem l) := by
  fun_induction icLoop segLen sub approx frac size i count rem l with
  | case1 i count rem s1 s2 rest maxN hm seg ns0 ns block ih =>
    exact (List.Sublist.trans ih (List.sublist_append_right _ _)).cons_cons s1
  | case2 i count rem s1 s2 rest maxN hm ih => exact ih.cons_cons s1
  | case3 i count rem l _ => exact List.Sublist.refl l

theorem icLoop_ne_nil (size i : Nat) (count : Int) (rem : α) (l : List σ) (h : l ≠ []) :
    icLoop segLen sub approx frac size i count rem l ≠ [] := by
  intro h'
  have := icLoop_sublist segLen sub approx frac size i count rem l
  rw [h'] at this
  exact h (by simpa using this)

theorem icLoop_head? (size i : Nat) (count : Int) (rem : α) (l : List σ) :
    (icLoop segLen sub approx frac size i count rem l).head? = l.head? := by
  fun_cases icLoop segLen sub approx frac size i count rem l <;> simp

theorem icLoop_getLast? (size i : Nat) (count : Int) (rem : α) (l : List σ) :
    (icLoop segLen sub approx frac size i count rem l).getLast? = l.getLast? := by
  fun_induction icLoop segLen sub approx frac size i count rem l with
  | case1 i count rem s1 s2 rest maxN hm seg ns0 ns block ih =>
    rw [getLast?_cons_append_of_ne_nil _ _ _ (icLoop_ne_nil _ _ _ _ _ _ _ _ _ (by simp)), ih,
      List.getLast?_cons_cons]
  | case2 i count rem s1 s2 rest maxN hm ih =>
    rw [List.getLast?_cons_of_ne_nil (icLoop_ne_nil _ _ _ _ _ _ _ _ _ (by simp)), ih,
      List.getLast?_cons_cons]
  | case3 i count rem l _ => rfl

/-- one iteration of the loop: `ns` states are placed strictly inside the segment -/
theorem icLoop_step (size i : Nat) (count : Int) (rem : α) (s1 s2 : σ) (rest : List σ)
    (hlt : count + i - size < 4294967295) :
    ∃ (ns : Int) (rem' : α), 0 ≤ ns ∧ (ns ≤ count + i - size ∨ ns = 0) ∧
      (0 < count + i - size → (rest = [] → ns = count + i - size)) ∧
      (icLoop segLen sub approx frac size i count rem (s1 :: s2 :: rest)).length =
        1 + ns.toNat +
          (icLoop segLen sub approx frac size (i + 1) (count - (ns + 1)) rem' (s2 :: rest)).length := by
  rw [icLoop]
  simp only []
  generalize count + (i : Int) - (size : Int) = M at hlt ⊢
  by_cases hm : M > 0
  · rw [if_pos hm]
    have hns0 : rest = [] →
        (if rest.isEmpty = true then M + 2 else approx count (segLen s1 s2) rem + 1) = M + 2 := by
      intro h; simp [h]
    generalize (if rest.isEmpty = true then M + 2 else approx count (segLen s1 s2) rem + 1) = ns0
      at hns0 ⊢
    by_cases h2 : ns0 > 2
    · simp only [if_pos h2]
      refine ⟨if ns0 - 2 > M then M else ns0 - 2, sub rem (segLen s1 s2), ?_, ?_, ?_, ?_⟩
      · split <;> omega
      · left; split <;> omega
      · intro _ hr; rw [hns0 hr]; split <;> omega
      · rw [List.length_cons, List.length_append, motionStates_length]
        · omega
        · split <;> omega
    · simp only [if_neg h2]
      refine ⟨0, sub rem (segLen s1 s2), Int.le_refl _, Or.inr rfl, ?_, ?_⟩
      · intro _ hr; have := hns0 hr; omega
      · simp; omega
  · rw [if_neg hm]
    refine ⟨0, rem, Int.le_refl _, Or.inr rfl, fun h => absurd h hm, ?_⟩
    simp; omega

theorem icLoop_single (size i : Nat) (count : Int) (rem : α) (s : σ) :
    icLoop segLen sub approx frac size i count rem [s] = [s] := by
  simp [icLoop]

/-- loop invariant of `interpolate(count)`: with `k ≥ 2` states left, segment index `i = size - k`
and `k ≤ count < 2^31` states still to be produced, exactly `count` states are produced -/
theorem icLoop_length (size : Nat) (rest : List σ) : ∀ (s1 s2 : σ) (i : Nat) (count : Int) (rem : α),
    i + (rest.length + 2) = size → ((rest.length + 2 : Nat) : Int) ≤ count → count < 2147483648 →
    (icLoop segLen sub approx frac size i count rem (s1 :: s2 :: rest)).length = count.toNat := by
  induction rest with
  | nil =>
    intro s1 s2 i count rem hi hc hlt
    obtain ⟨ns, rem', h0, hle, hlast, hlen⟩ :=
      icLoop_step segLen sub approx frac size i count rem s1 s2 [] (by omega)
    rw [hlen, icLoop_single]
    simp only [List.length_nil] at hi hc
    by_cases hm : 0 < count + i - size
    · have := hlast hm rfl
      simp only [List.length_cons, List.length_nil]; omega
    · simp only [List.length_cons, List.length_nil]; omega
  | cons s3 rest ih =>
    intro s1 s2 i count rem hi hc hlt
    obtain ⟨ns, rem', h0, hle, _, hlen⟩ :=
      icLoop_step segLen sub approx frac size i count rem s1 s2 (s3 :: rest) (by omega)
    simp only [List.length_cons] at hi hc
    rw [hlen, ih s2 s3 (i + 1) (count - (ns + 1)) rem' (by omega) (by omega) (by omega)]
    omega

end IC

theorem interpolateCount_sublist {α : Type} (segLen : σ → σ → α) (sub : α → α → α)
    (approx : Int → α → α → Int) (frac : σ → σ → Nat → Nat → σ) (len : α) (n : Nat) (l : List σ) :
    l.Sublist (interpolateCount segLen sub approx frac len n l) := by
  unfold interpolateCount; split
  · exact List.Sublist.refl l
  · exact icLoop_sublist ..

theorem interpolateCount_head? {α : Type} (segLen : σ → σ → α) (sub : α → α → α)
    (approx : Int → α → α → Int) (frac : σ → σ → Nat → Nat → σ) (len : α) (n : Nat) (l : List σ) :
    (interpolateCount segLen sub approx frac len n l).head? = l.head? := by
  unfold interpolateCount; split
  · rfl
  · exact icLoop_head? ..

theorem interpolateCount_getLast? {α : Type} (segLen : σ → σ → α) (sub : α → α → α)
    (approx : Int → α → α → Int) (frac : σ → σ → Nat → Nat → σ) (len : α) (n : Nat) (l : List σ) :
    (interpolateCount segLen sub approx frac len n l).getLast? = l.getLast? := by
  unfold interpolateCount; split
  · rfl
  · exact icLoop_getLast? ..

/-- EXACTLY the requested number of states, whatever the rounding function `approx`, the segment
lengths and the remaining-length bookkeeping return -/
theorem interpolateCount_exact {α : Type} (segLen : σ → σ → α) (sub : α → α → α)
    (approx : Int → α → α → Int) (frac : σ → σ → Nat → Nat → σ) (len : α) (n : Nat) (l : List σ)
    (h2 : 2 ≤ l.length) (hn : l.length ≤ n) (hint : n < 2147483648) :
    (interpolateCount segLen sub approx frac len n l).length = n := by
  unfold interpolateCount
  rw [if_neg (by omega)]
  match l, h2, hn with
  | s1 :: s2 :: rest, _, hn =>
    rw [icLoop_length segLen sub approx frac _ rest s1 s2 0 n len (by simp) (by simp at hn ⊢; omega)
      (by omega)]
    simp

/-- the early returns -/
theorem interpolateCount_small {α : Type} (segLen : σ → σ → α) (sub : α → α → α)
    (approx : Int → α → α → Int) (frac : σ → σ → Nat → Nat → σ) (len : α) (n : Nat) (l : List σ)
    (h : n < l.length ∨ l.length < 2) : interpolateCount segLen sub approx frac len n l = l := by
  unfold interpolateCount; rw [if_pos h]

/-! ## the splice of partialShortcutPath -/

theorem take_succ_set (l : List σ) (k : Nat) (x : σ) (h : k < l.length) :
    (l.set k x).take (k + 1) = l.take k ++ [x] := by
  induction l generalizing k with
  | nil => simp at h
  | cons a r ih =>
    cases k with
    | zero => simp
    | succ k => simp at h; simp [ih k h]

theorem drop_set_self (l : List σ) (k : Nat) (x : σ) (h : k < l.length) :
    (l.set k x).drop k = x :: l.drop (k + 1) := by
  induction l generalizing k with
  | nil => simp at h
  | cons a r ih =>
    cases k with
    | zero => simp
    | succ k => simp at h; simp [ih k h]

theorem psSplice_ff (st : List σ) (pos0 pos1 : Nat) (s0 s1 : σ) (h01 : pos0 < pos1)
    (h1 : pos1 < st.length) :
    psSplice st pos0 false s0 pos1 false s1 =
      some (st.take (pos0 + 1) ++ [s0, s1] ++ st.drop (pos1 + 1)) := by
  simp only [psSplice]
  split
  · next h =>
    subst h
    simp only [setChk, insertChk, insertAt]
    rw [if_pos h1]
    simp only [Option.bind_some, List.length_set]
    rw [if_pos (by omega), take_succ_set _ _ _ h1, List.drop_set_of_lt (by omega)]
    simp
  · next h =>
    simp only [setChk, eraseChk, eraseRange]
    rw [if_pos (by omega)]
    simp only [Option.bind_some, List.length_set]
    rw [if_pos h1]
    simp only [Option.bind_some, List.length_set]
    rw [if_pos (by omega), List.take_set_of_le (by omega), take_succ_set _ _ _ (by omega),
      drop_set_self _ _ _ (by simpa using h1), List.drop_set_of_lt (by omega)]
    simp

theorem psSplice_tt (st : List σ) (pos0 pos1 : Nat) (s0 s1 : σ) (h01 : pos0 + 1 ≤ pos1)
    (h1 : pos1 ≤ st.length) :
    psSplice st pos0 true s0 pos1 true s1 = some (st.take (pos0 + 1) ++ st.drop pos1) := by
  simp only [psSplice, eraseChk, eraseRange]
  rw [if_pos ⟨h01, h1⟩]

theorem psSplice_ft (st : List σ) (pos0 pos1 : Nat) (s0 s1 : σ) (h01 : pos0 + 2 ≤ pos1)
    (h1 : pos1 ≤ st.length) :
    psSplice st pos0 false s0 pos1 true s1 = some (st.take (pos0 + 1) ++ [s0] ++ st.drop pos1) := by
  simp only [psSplice, setChk, eraseChk, eraseRange]
  rw [if_pos (by omega)]
  simp only [Option.bind_some, List.length_set]
  rw [if_pos ⟨h01, h1⟩, take_succ_set _ _ _ (by omega), List.drop_set_of_lt (by omega)]

theorem psSplice_tf (st : List σ) (pos0 pos1 : Nat) (s0 s1 : σ) (h01 : pos0 + 1 ≤ pos1)
    (h1 : pos1 < st.length) :
    psSplice st pos0 true s0 pos1 false s1 =
      some (st.take (pos0 + 1) ++ [s1] ++ st.drop (pos1 + 1)) := by
  simp only [psSplice, setChk, eraseChk, eraseRange]
  rw [if_pos h1]
  simp only [Option.bind_some, List.length_set]
  rw [if_pos ⟨h01, by omega⟩, List.take_set_of_le (by omega), drop_set_self _ _ _ h1]
  simp

/-! ### motions of a concatenation -/

theorem mem_adj_cons (a : σ) (l : List σ) (p : σ × σ) (h : p ∈ adj l) : p ∈ adj (a :: l) := by
  cases l with
  | nil => simp [adj] at h
  | cons b r => simp only [adj]; exact List.mem_cons_of_mem _ h

theorem mem_adj_append_right (l₁ l₂ : List σ) (p : σ × σ) (h : p ∈ adj l₂) : p ∈ adj (l₁ ++ l₂) := by
  induction l₁ with
  | nil => exact h
  | cons a r ih => exact mem_adj_cons a _ p ih

theorem mem_adj_append_left (l₁ l₂ : List σ) (p : σ × σ) (h : p ∈ adj l₁) : p ∈ adj (l₁ ++ l₂) := by
  induction l₁ with
  | nil => simp [adj] at h
  | cons a r ih =>
    cases r with
    | nil => simp [adj] at h
    | cons b r' =>
      simp only [adj, List.mem_cons] at h
      simp only [List.cons_append, adj, List.mem_cons]
      rcases h with h | h
      · exact Or.inl h
      · exact Or.inr (ih h)

theorem mem_adj_append (l₁ l₂ : List σ) (p : σ × σ) (h : p ∈ adj (l₁ ++ l₂)) :
    p ∈ adj l₁ ∨ p ∈ adj l₂ ∨ ∃ x y, l₁.getLast? = some x ∧ l₂.head? = some y ∧ p = (x, y) := by
  induction l₁ with
  | nil => exact Or.inr (Or.inl h)
  | cons a r ih =>
    cases r with
    | nil =>
      cases l₂ with
      | nil => simp [adj] at h
      | cons y l₂' =>
        simp only [List.cons_append, List.nil_append, adj, List.mem_cons] at h
        rcases h with h | h
        · exact Or.inr (Or.inr ⟨a, y, rfl, rfl, h⟩)
        · exact Or.inr (Or.inl h)
    | cons b r' =>
      simp only [List.cons_append, adj, List.mem_cons] at h
      rcases h with h | h
      · exact Or.inl (by simp only [adj, List.mem_cons]; exact Or.inl h)
      · rcases ih h with h' | h' | ⟨x, y, hx, hy, hp⟩
        · exact Or.inl (mem_adj_cons a _ p h')
        · exact Or.inr (Or.inl h')
        · exact Or.inr (Or.inr ⟨x, y, by rw [List.getLast?_cons_cons]; exact hx, hy, hp⟩)

theorem adj_take_subset (l : List σ) (k : Nat) (p : σ × σ) (h : p ∈ adj (l.take k)) : p ∈ adj l := by
  have := mem_adj_append_left (l.take k) (l.drop k) p h
  rwa [List.take_append_drop] at this

theorem adj_drop_subset (l : List σ) (k : Nat) (p : σ × σ) (h : p ∈ adj (l.drop k)) : p ∈ adj l := by
  have := mem_adj_append_right (l.take k) (l.drop k) p h
  rwa [List.take_append_drop] at this

theorem getLast?_take_succ (l : List σ) (k : Nat) (h : k < l.length) :
    (l.take (k + 1)).getLast? = some l[k] := by
  rw [List.getLast?_eq_getElem?]
  simp [List.length_take, Nat.min_eq_left (Nat.succ_le_of_lt h)]

theorem head?_drop_lt (l : List σ) (k : Nat) (h : k < l.length) : (l.drop k).head? = some l[k] := by
  simp [List.head?_drop, h]

theorem getLast?_drop_lt (l : List σ) (k : Nat) (h : k < l.length) :
    (l.drop k).getLast? = l.getLast? := by
  simp [List.getLast?_drop, Nat.not_le.mpr h]

theorem head?_take_succ (l : List σ) (k : Nat) : (l.take (k + 1)).head? = l.head? := by
  cases l <;> simp

theorem mem_adj_seam (A B : List σ) (x y : σ) (hx : A.getLast? = some x) (hy : B.head? = some y) :
    (x, y) ∈ adj (A ++ B) := by
  induction A with
  | nil => simp at hx
  | cons a r ih =>
    cases r with
    | nil =>
      cases B with
      | nil => simp at hy
      | cons b B' =>
        simp only [List.getLast?_singleton, Option.some.injEq] at hx
        simp only [List.head?_cons, Option.some.injEq] at hy
        subst hx hy
        simp [adj]
    | cons b r' =>
      rw [List.getLast?_cons_cons] at hx
      exact mem_adj_cons a _ _ (ih hx)

theorem getLast?_append_drop (A st : List σ) (d : Nat) (h : d < st.length) :
    (A ++ st.drop d).getLast? = st.getLast? := by
  rw [List.getLast?_append, getLast?_drop_lt _ _ h, List.getLast?_eq_getElem?,
    List.getElem?_eq_getElem (by omega)]
  rfl

/-- replacing the open index range `(i, d)` of `st` by `M`: ends are kept, and every motion of the
result is a motion of `st` or a motion of `st[i] :: M ++ [st[d]]` -/
theorem splice_aux (st : List σ) (i d : Nat) (M : List σ) (hi : i < st.length) (hd : d < st.length) :
    (st.take (i + 1) ++ M ++ st.drop d).head? = st.head? ∧
    (st.take (i + 1) ++ M ++ st.drop d).getLast? = st.getLast? ∧
    ∀ p ∈ adj (st.take (i + 1) ++ M ++ st.drop d), p ∈ adj st ∨ p ∈ adj (st[i] :: M ++ [st[d]]) := by
  refine ⟨?_, getLast?_append_drop _ st d hd, ?_⟩
  · cases st with
    | nil => simp at hi
    | cons a r => simp
  · intro p h
    rw [List.append_assoc] at h
    rcases mem_adj_append _ _ p h with h | h | ⟨x, y, hx, hy, rfl⟩
    · exact Or.inl (adj_take_subset st _ p h)
    · rcases mem_adj_append _ _ p h with h | h | ⟨x, y, hx, hy, rfl⟩
      · exact Or.inr (mem_adj_cons _ _ _ (mem_adj_append_left M _ p h))
      · exact Or.inl (adj_drop_subset st _ p h)
      · rw [head?_drop_lt _ _ hd, Option.some.injEq] at hy
        subst hy
        exact Or.inr (mem_adj_cons _ _ _ (mem_adj_seam M _ x _ hx rfl))
    · rw [getLast?_take_succ _ _ hi, Option.some.injEq] at hx
      subst hx
      refine Or.inr (mem_adj_seam [st[i]] (M ++ [st[d]]) _ y rfl ?_)
      cases M with
      | nil => simpa [head?_drop_lt _ _ hd] using hy
      | cons m M' => simpa using hy

/-- every motion of the spliced path is an input motion, the validated pair `(a, b)`, the prefix
`(p0, s0)` of the input motion `(p0, st[pos0+1])` cut at `s0`, or the suffix `(s1, q1)` of the
input motion `(st[pos1], q1)` cut at `s1` -/
theorem psSplice_spec (st : List σ) (pos0 pos1 : Nat) (idx0 idx1 : Bool) (s0 s1 : σ)
    (h01 : pos0 < pos1) (h1 : pos1 + 1 < st.length) (hs : psSkip pos0 idx0 pos1 idx1 = false) :
    ∃ out, psSplice st pos0 idx0 s0 pos1 idx1 s1 = some out ∧ out.head? = st.head? ∧
      out.getLast? = st.getLast? ∧
      ∀ p ∈ adj out, p ∈ adj st ∨
        p = (if idx0 then st[pos0]'(by omega) else s0, if idx1 then st[pos1]'(by omega) else s1) ∨
        (idx0 = false ∧ p = (st[pos0]'(by omega), s0)) ∨
        (idx1 = false ∧ p = (s1, st[pos1 + 1]'h1)) := by
  cases idx0 <;> cases idx1
  · obtain ⟨hh, hl, ha⟩ := splice_aux st pos0 (pos1 + 1) [s0, s1] (by omega) h1
    refine ⟨_, psSplice_ff st pos0 pos1 s0 s1 h01 (by omega), hh, hl, ?_⟩
    intro p hp
    rcases ha p hp with h | h
    · exact Or.inl h
    · simp only [List.cons_append, List.nil_append, adj, List.mem_cons, List.not_mem_nil,
        or_false] at h
      rcases h with h | h | h <;> simp [h]
  · have h02 : pos0 + 2 ≤ pos1 := by simp [psSkip] at hs; omega
    obtain ⟨hh, hl, ha⟩ := splice_aux st pos0 pos1 [s0] (by omega) (by omega)
    refine ⟨_, psSplice_ft st pos0 pos1 s0 s1 h02 (by omega), hh, hl, ?_⟩
    intro p hp
    rcases ha p hp with h | h
    · exact Or.inl h
    · simp only [List.cons_append, List.nil_append, adj, List.mem_cons, List.not_mem_nil,
        or_false] at h
      rcases h with h | h <;> simp [h]
  · obtain ⟨hh, hl, ha⟩ := splice_aux st pos0 (pos1 + 1) [s1] (by omega) h1
    refine ⟨_, psSplice_tf st pos0 pos1 s0 s1 (by omega) (by omega), hh, hl, ?_⟩
    intro p hp
    rcases ha p hp with h | h
    · exact Or.inl h
    · simp only [List.cons_append, List.nil_append, adj, List.mem_cons, List.not_mem_nil,
        or_false] at h
      rcases h with h | h <;> simp [h]
  · have h02 : pos0 + 2 ≤ pos1 := by simp [psSkip] at hs; omega
    obtain ⟨hh, hl, ha⟩ := splice_aux st pos0 pos1 [] (by omega) (by omega)
    rw [List.append_nil] at hh hl ha
    refine ⟨_, psSplice_tt st pos0 pos1 s0 s1 (by omega) (by omega), hh, hl, ?_⟩
    intro p hp
    rcases ha p hp with h | h
    · exact Or.inl h
    · simp only [List.cons_append, List.nil_append, adj, List.mem_cons, List.not_mem_nil,
        or_false] at h
      simp [h]

end OmplModel.PathOps
