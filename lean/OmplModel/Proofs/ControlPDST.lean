import OmplModel.Proofs.Control
import OmplModel.Model.CPDST
/-! Helper lemmas for `Model/CPDST.lean` (`control::PDST::solve`): the segment invariant of the motion
array under splits (the tree is not append-only), the goal bookkeeping, and the soundness of
`findDurationAndAncestor`. Core Lean only; arithmetic-free. -/
namespace OmplModel.CPDST
open OmplModel OmplModel.Control OmplModel.CRRT OmplModel.Heap
variable {S U α ρ : Type} [Num α]
set_option linter.unusedSectionVars false

theorem propagate_add' (step : S → U → S) (s : S) (u : U) (a b : Nat) :
    propagate step s u (a + b) = propagate step (propagate step s u a) u b := by
  induction b with
  | zero => rfl
  | succ b ih =>
    show step (propagate step s u (a + b)) u = step (propagate step (propagate step s u a) u b) u
    rw [ih]

/-- the fields of a motion that describe the segment (everything but priority / cell / heap handle / flag) -/
structure Core (S U : Type) where
  start : S
  stop : S
  control : Option U
  ctl : Option Nat
  dur : Nat
  parent : Option Nat

def core (m : PMotion S U α) : Core S U :=
  { start := m.start, stop := m.stop, control := m.control, ctl := m.ctl, dur := m.dur, parent := m.parent }

/-- `s` lies on the split chain of motion `q`: on the segment of `q` itself, or on the segment of a
same-`ctl` ancestor (the heads cut off `q` by later splits); for a start motion it is its state -/
inductive OnChain (step : S → U → S) (ms : Array (PMotion S U α)) : Nat → S → Prop
  | here {q : Nat} {qm : PMotion S U α} {u : U} {j : Nat} {s : S} : ms[q]? = some qm → qm.control = some u →
      j ≤ qm.dur → s = propagate step qm.start u j → OnChain step ms q s
  | root {q : Nat} {qm : PMotion S U α} {s : S} : ms[q]? = some qm → qm.control = none → s = qm.stop →
      OnChain step ms q s
  | up {q q' : Nat} {qm qm' : PMotion S U α} {s : S} : ms[q]? = some qm → qm.parent = some q' →
      ms[q']? = some qm' → qm.ctl = qm'.ctl → OnChain step ms q' s → OnChain step ms q s

/-- how a segment hangs on its parent: as the tail after its split head, or starting somewhere on the
parent's split chain -/
def Attached (step : S → U → S) (ms : Array (PMotion S U α)) (k : Core S U) (p : Nat) (pm : PMotion S U α) : Prop :=
  (k.ctl = pm.ctl ∧ k.start = pm.stop ∧ k.control = pm.control) ∨ (k.ctl ≠ pm.ctl ∧ OnChain step ms p k.start)

def SegOK (P : Problem S U α ρ) (starts : List S) (ms : Array (PMotion S U α)) (k : Core S U) : Prop :=
  (k.control = none ∧ k.ctl = none ∧ k.dur = 0 ∧ k.start = k.stop ∧ k.start ∈ starts ∧ P.valid k.start = true ∧
    k.parent = none) ∨
  (∃ u, k.control = some u ∧ (∃ c, k.ctl = some c) ∧ (1 ≤ P.minSteps → 1 ≤ k.dur) ∧
    k.stop = propagate P.step k.start u k.dur ∧
    (∀ j, 1 ≤ j → j ≤ k.dur → P.valid (propagate P.step k.start u j) = true) ∧ P.valid k.start = true ∧
    ∃ p pm, k.parent = some p ∧ ms[p]? = some pm ∧ Attached P.step ms k p pm)

structure MInv (P : Problem S U α ρ) (starts : List S) (ms : Array (PMotion S U α)) (nextCtl : Nat) : Prop where
  seg : ∀ (q : Nat) (m : PMotion S U α), ms[q]? = some m → SegOK P starts ms (core m)
  fresh : ∀ (q : Nat) (m : PMotion S U α) (c : Nat), ms[q]? = some m → m.ctl = some c → c < nextCtl

/-- `ms'` simulates `ms`: chains survive, and existing motions keep `ctl`, `stop`, `control` -/
structure Sim (step : S → U → S) (ms ms' : Array (PMotion S U α)) : Prop where
  chain : ∀ (q : Nat) (s : S), OnChain step ms q s → OnChain step ms' q s
  keep : ∀ (q : Nat) (m : PMotion S U α), ms[q]? = some m →
    ∃ m', ms'[q]? = some m' ∧ m'.ctl = m.ctl ∧ m'.stop = m.stop ∧ m'.control = m.control

theorem segOK_sim (P : Problem S U α ρ) (starts : List S) (ms ms' : Array (PMotion S U α)) (k : Core S U)
    (hs : Sim P.step ms ms') (h : SegOK P starts ms k) : SegOK P starts ms' k := by
  rcases h with h | ⟨u, h1, h2, h3, h4, h5, h6, p, pm, h7, h8, h9⟩
  · exact Or.inl h
  · obtain ⟨pm', e1, e2, e3, e4⟩ := hs.keep p pm h8
    refine Or.inr ⟨u, h1, h2, h3, h4, h5, h6, p, pm', h7, e1, ?_⟩
    rcases h9 with ⟨a, b, c⟩ | ⟨a, b⟩
    · exact Or.inl ⟨by rw [e2]; exact a, by rw [e3]; exact b, by rw [e4]; exact c⟩
    · exact Or.inr ⟨by rw [e2]; exact a, hs.chain p _ b⟩

/-- a change that touches no segment field (priority, cell, heap handle) -/
theorem sim_of_coreEq (step : S → U → S) (ms ms' : Array (PMotion S U α))
    (h : ∀ q : Nat, (ms'[q]?).map core = (ms[q]?).map core) : Sim step ms ms' := by
  have get : ∀ (q : Nat) (m : PMotion S U α), ms[q]? = some m → ∃ m', ms'[q]? = some m' ∧ core m' = core m := by
    intro q m hm
    have := h q
    rw [hm] at this
    cases hq : ms'[q]? with
    | none => rw [hq] at this; cases this
    | some m' => rw [hq] at this; exact ⟨m', rfl, Option.some.inj this⟩
  refine ⟨?_, ?_⟩
  · intro q s hc
    induction hc with
    | here h1 h2 h3 h4 =>
      obtain ⟨m', e1, e2⟩ := get _ _ h1
      have e2' := e2
      simp only [core, Core.mk.injEq] at e2
      exact .here e1 (by rw [e2.2.2.1]; exact h2) (by rw [e2.2.2.2.2.1]; exact h3) (by rw [e2.1]; exact h4)
    | root h1 h2 h3 =>
      obtain ⟨m', e1, e2⟩ := get _ _ h1
      simp only [core, Core.mk.injEq] at e2
      exact .root e1 (by rw [e2.2.2.1]; exact h2) (by rw [e2.2.1]; exact h3)
    | up h1 h2 h3 h4 _ ih =>
      obtain ⟨m', e1, e2⟩ := get _ _ h1
      obtain ⟨m'', e3, e4⟩ := get _ _ h3
      simp only [core, Core.mk.injEq] at e2 e4
      exact .up e1 (by rw [e2.2.2.2.2.2]; exact h2) e3 (by rw [e2.2.2.2.1, e4.2.2.2.1]; exact h4) ih
  · intro q m hm
    obtain ⟨m', e1, e2⟩ := get q m hm
    simp only [core, Core.mk.injEq] at e2
    exact ⟨m', e1, e2.2.2.2.1, e2.2.1, e2.2.2.1⟩

theorem minv_coreEq (P : Problem S U α ρ) (starts : List S) (ms ms' : Array (PMotion S U α)) (n : Nat)
    (h : ∀ q : Nat, (ms'[q]?).map core = (ms[q]?).map core) (hI : MInv P starts ms n) : MInv P starts ms' n := by
  have hs := sim_of_coreEq P.step ms ms' h
  have get : ∀ (q : Nat) (m' : PMotion S U α), ms'[q]? = some m' → ∃ m, ms[q]? = some m ∧ core m = core m' := by
    intro q m' hm
    have := h q
    rw [hm] at this
    cases hq : ms[q]? with
    | none => rw [hq] at this; cases this
    | some m => rw [hq] at this; exact ⟨m, rfl, (Option.some.inj this).symm⟩
  refine ⟨?_, ?_⟩
  · intro q m' hm'
    obtain ⟨m, e1, e2⟩ := get q m' hm'
    rw [← e2]
    exact segOK_sim P starts ms ms' _ hs (hI.seg q m e1)
  · intro q m' c hm' hc
    obtain ⟨m, e1, e2⟩ := get q m' hm'
    simp only [core, Core.mk.injEq] at e2
    exact hI.fresh q m c e1 (by rw [e2.2.2.2.1]; exact hc)

/-! ## `enter` touches no segment field -/

theorem enter_spec (st : St S U α ρ) (i c : Nat) :
    (∀ q : Nat, ((enter st i c).motions[q]?).map core = (st.motions[q]?).map core) ∧
    (enter st i c).motions.size = st.motions.size ∧
    (enter st i c).nextCtl = st.nextCtl ∧ (enter st i c).lastGoal = st.lastGoal ∧
    (enter st i c).isApprox = st.isApprox ∧ (enter st i c).closest = st.closest := by
  unfold enter
  cases hm : st.motions[i]? with
  | none => exact ⟨fun _ => rfl, rfl, rfl, rfl, rfl, rfl⟩
  | some m =>
    have hlt : i < st.motions.size := (Array.getElem?_eq_some_iff.mp hm).1
    simp only
    split
    · refine ⟨?_, by simp, rfl, rfl, rfl, rfl⟩
      intro q
      show ((st.motions.setIfInBounds i { m with cell := c })[q]?).map core = _
      rw [Array.getElem?_setIfInBounds]
      by_cases e : i = q
      · rw [if_pos e, if_pos hlt, ← e, hm]; rfl
      · rw [if_neg e]
    · refine ⟨?_, by simp, rfl, rfl, rfl, rfl⟩
      intro q
      show (((st.motions.setIfInBounds i { m with cell := c }).setIfInBounds i _)[q]?).map core = _
      rw [Array.getElem?_setIfInBounds, Array.getElem?_setIfInBounds]
      by_cases e : i = q
      · rw [if_pos e, if_pos (by simpa using hlt), ← e, hm]; rfl
      · rw [if_neg e, if_neg e]

/-! ## a split keeps the invariant -/

theorem split_inv (P : Problem S U α ρ) (starts : List S) (ms ms' : Array (PMotion S U α)) (n i dn : Nat)
    (m : PMotion S U α) (u : U) (hI : MInv P starts ms n) (hm : ms[i]? = some m) (hu : m.control = some u)
    (hdn1 : 1 ≤ dn) (hdn2 : dn + 1 < m.dur)
    (hhead : ∃ h, ms'[ms.size]? = some h ∧ core h = { start := m.start, stop := propagate P.step m.start u dn, control := m.control, ctl := m.ctl, dur := dn, parent := m.parent })
    (htail : ∃ t, ms'[i]? = some t ∧ core t = { start := propagate P.step m.start u dn, stop := m.stop, control := m.control, ctl := m.ctl, dur := m.dur - dn, parent := some ms.size })
    (hother : ∀ q : Nat, q ≠ i → q ≠ ms.size → (ms'[q]?).map core = (ms[q]?).map core) :
    MInv P starts ms' n ∧ Sim P.step ms ms' := by
  obtain ⟨h, hh1, hh2⟩ := hhead
  obtain ⟨t, ht1, ht2⟩ := htail
  simp only [core, Core.mk.injEq] at hh2 ht2
  obtain ⟨hh_start, hh_stop, hh_control, hh_ctl, hh_dur, hh_parent⟩ := hh2
  obtain ⟨ht_start, ht_stop, ht_control, ht_ctl, ht_dur, ht_parent⟩ := ht2
  have hilt : i < ms.size := (Array.getElem?_eq_some_iff.mp hm).1
  -- old entries in the new array
  have getp : ∀ (q : Nat) (qm : PMotion S U α), ms[q]? = some qm →
      ∃ qm', ms'[q]? = some qm' ∧ qm'.ctl = qm.ctl ∧ qm'.stop = qm.stop ∧ qm'.control = qm.control ∧
        (q ≠ i → core qm' = core qm) := by
    intro q qm hq
    have hqlt : q < ms.size := (Array.getElem?_eq_some_iff.mp hq).1
    by_cases e : q = i
    · subst e
      rw [hm] at hq; cases Option.some.inj hq
      exact ⟨t, ht1, ht_ctl, ht_stop, ht_control, fun h => absurd rfl h⟩
    · have := hother q e (by omega)
      rw [hq] at this
      cases hq' : ms'[q]? with
      | none => rw [hq'] at this; cases this
      | some qm' =>
        rw [hq'] at this
        have ec : core qm' = core qm := Option.some.inj this
        have ec' := ec
        simp only [core, Core.mk.injEq] at ec'
        exact ⟨qm', rfl, ec'.2.2.2.1, ec'.2.1, ec'.2.2.1, fun _ => ec⟩
  -- the old segment of `m`
  have hsegm := hI.seg i m hm
  rcases hsegm with hroot | ⟨u', s1, s2, s3, s4, s5, s6, p, pm, s7, s8, s9⟩
  · rw [show (core m).control = m.control from rfl, hu] at hroot; cases hroot.1
  have hu' : u' = u := by
    rw [show (core m).control = m.control from rfl, hu] at s1; exact (Option.some.inj s1).symm
  rw [hu'] at s4 s5
  clear s1 hu'
  simp only [core] at s2 s3 s4 s5 s6 s7 s9
  have hsim : Sim P.step ms ms' := by
    refine ⟨?_, fun q qm hq => by obtain ⟨qm', a, b, c, d, _⟩ := getp q qm hq; exact ⟨qm', a, b, c, d⟩⟩
    intro q s hc
    induction hc with
    | @here q qm u2 j s h1 h2 h3 h4 =>
      by_cases e : q = i
      · subst e
        rw [hm] at h1; cases Option.some.inj h1
        rw [hu] at h2
        have hu2 : u = u2 := Option.some.inj h2
        rw [← hu2] at h4
        by_cases hj : j < dn
        · refine .up ht1 ht_parent hh1 (by rw [ht_ctl, hh_ctl]) ?_
          exact .here (u := u) (j := j) hh1 (by rw [hh_control]; exact hu) (by rw [hh_dur]; omega)
            (by rw [hh_start]; exact h4)
        · refine .here (u := u) (j := j - dn) ht1 (by rw [ht_control]; exact hu) (by rw [ht_dur]; omega) ?_
          rw [ht_start, ← propagate_add', h4]; congr 1; omega
      · obtain ⟨qm', a, _, _, _, ec⟩ := getp q qm h1
        have ec := ec e
        simp only [core, Core.mk.injEq] at ec
        exact .here (u := u2) (j := j) a (by rw [ec.2.2.1]; exact h2) (by rw [ec.2.2.2.2.1]; exact h3) (by rw [ec.1]; exact h4)
    | @root q qm s h1 h2 h3 =>
      have e : q ≠ i := by
        intro e; subst e
        rw [hm] at h1; cases Option.some.inj h1
        rw [hu] at h2; cases h2
      obtain ⟨qm', a, _, _, _, ec⟩ := getp q qm h1
      have ec := ec e
      simp only [core, Core.mk.injEq] at ec
      exact .root a (by rw [ec.2.2.1]; exact h2) (by rw [ec.2.1]; exact h3)
    | @up q q' qm qm' s h1 h2 h3 h4 _ ih =>
      obtain ⟨qm'', b, bctl, _, _, _⟩ := getp q' qm' h3
      by_cases e : q = i
      · subst e
        rw [hm] at h1; cases Option.some.inj h1
        refine .up ht1 ht_parent hh1 (by rw [ht_ctl, hh_ctl]) ?_
        exact .up hh1 (by rw [hh_parent]; exact h2) b (by rw [hh_ctl, bctl]; exact h4) ih
      · obtain ⟨qm1, a, _, _, _, ec⟩ := getp q qm h1
        have ec := ec e
        simp only [core, Core.mk.injEq] at ec
        exact .up a (by rw [ec.2.2.2.2.2]; exact h2) b (by rw [ec.2.2.2.1, bctl]; exact h4) ih
  refine ⟨⟨?_, ?_⟩, hsim⟩
  · intro q m' hq
    by_cases e1 : q = i
    · subst e1
      rw [ht1] at hq; cases Option.some.inj hq
      refine Or.inr ⟨u, by show t.control = some u; rw [ht_control]; exact hu, by show ∃ c, t.ctl = some c; rw [ht_ctl]; exact s2,
        fun _ => by show 1 ≤ t.dur; rw [ht_dur]; omega, ?_, ?_, ?_, ms.size, h, ht_parent, hh1, ?_⟩
      · show t.stop = propagate P.step t.start u t.dur
        rw [ht_stop, ht_start, ht_dur, ← propagate_add', s4]; congr 1; omega
      · intro j hj1 hj2
        show P.valid (propagate P.step t.start u j) = true
        have hj2' : j ≤ t.dur := hj2
        rw [ht_start, ← propagate_add']
        exact s5 _ (by omega) (by rw [ht_dur] at hj2'; omega)
      · show P.valid t.start = true
        rw [ht_start]; exact s5 dn hdn1 (by omega)
      · exact Or.inl ⟨by show t.ctl = h.ctl; rw [ht_ctl, hh_ctl], by show t.start = h.stop; rw [ht_start, hh_stop],
          by show t.control = h.control; rw [ht_control, hh_control]⟩
    · by_cases e2 : q = ms.size
      · subst e2
        rw [hh1] at hq; cases Option.some.inj hq
        obtain ⟨pm', b, bctl, bstop, bcontrol, _⟩ := getp p pm s8
        refine Or.inr ⟨u, by show h.control = some u; rw [hh_control]; exact hu, by show ∃ c, h.ctl = some c; rw [hh_ctl]; exact s2,
          fun _ => by show 1 ≤ h.dur; rw [hh_dur]; exact hdn1, ?_, ?_, ?_, p, pm', by show h.parent = some p; rw [hh_parent]; exact s7, b, ?_⟩
        · show h.stop = propagate P.step h.start u h.dur
          rw [hh_stop, hh_start, hh_dur]
        · intro j hj1 hj2
          show P.valid (propagate P.step h.start u j) = true
          have hj2' : j ≤ h.dur := hj2
          rw [hh_start]; exact s5 j hj1 (by rw [hh_dur] at hj2'; omega)
        · show P.valid h.start = true
          rw [hh_start]; exact s6
        · rcases s9 with ⟨a1, a2, a3⟩ | ⟨a1, a2⟩
          · exact Or.inl ⟨by show h.ctl = pm'.ctl; rw [hh_ctl, bctl]; exact a1,
              by show h.start = pm'.stop; rw [hh_start, bstop]; exact a2,
              by show h.control = pm'.control; rw [hh_control, bcontrol]; exact a3⟩
          · exact Or.inr ⟨by show h.ctl ≠ pm'.ctl; rw [hh_ctl, bctl]; exact a1,
              by show OnChain P.step ms' p h.start; rw [hh_start]; exact hsim.chain p _ a2⟩
      · have := hother q e1 e2
        rw [hq] at this
        cases hq0 : ms[q]? with
        | none => rw [hq0] at this; cases this
        | some m0 =>
          rw [hq0] at this
          rw [Option.some.inj this]
          exact segOK_sim P starts ms ms' _ hsim (hI.seg q m0 hq0)
  · intro q m' c hq hc
    by_cases e1 : q = i
    · subst e1
      rw [ht1] at hq; cases Option.some.inj hq
      exact hI.fresh _ m c hm (by rw [← ht_ctl]; exact hc)
    · by_cases e2 : q = ms.size
      · subst e2
        rw [hh1] at hq; cases Option.some.inj hq
        exact hI.fresh _ m c hm (by rw [← hh_ctl]; exact hc)
      · have := hother q e1 e2
        rw [hq] at this
        cases hq0 : ms[q]? with
        | none => rw [hq0] at this; cases this
        | some m0 =>
          rw [hq0] at this
          have ec : core m' = core m0 := Option.some.inj this
          simp only [core, Core.mk.injEq] at ec
          exact hI.fresh q m0 c hq0 (by rw [← ec.2.2.2.1]; exact hc)

/-! ## what every operation keeps -/

structure Keeps (st st' : St S U α ρ) : Prop where
  nextCtl : st'.nextCtl = st.nextCtl
  lastGoal : st'.lastGoal = st.lastGoal
  isApprox : st'.isApprox = st.isApprox
  closest : st'.closest = st.closest
  stop : ∀ (q : Nat) (m : PMotion S U α), st.motions[q]? = some m →
    ∃ m', st'.motions[q]? = some m' ∧ m'.stop = m.stop

theorem Keeps.refl (st : St S U α ρ) : Keeps st st := ⟨rfl, rfl, rfl, rfl, fun _ m h => ⟨m, h, rfl⟩⟩

theorem Keeps.trans {a b c : St S U α ρ} (h1 : Keeps a b) (h2 : Keeps b c) : Keeps a c :=
  ⟨h2.nextCtl.trans h1.nextCtl, h2.lastGoal.trans h1.lastGoal, h2.isApprox.trans h1.isApprox,
    h2.closest.trans h1.closest,
    fun q m hm => by
      obtain ⟨m', a1, a2⟩ := h1.stop q m hm
      obtain ⟨m'', b1, b2⟩ := h2.stop q m' a1
      exact ⟨m'', b1, b2.trans a2⟩⟩

def Good (P : Problem S U α ρ) (starts : List S) (st : St S U α ρ) : Prop :=
  MInv P starts st.motions st.nextCtl

theorem stop_of_coreEq (ms ms' : Array (PMotion S U α)) (q : Nat) (m : PMotion S U α)
    (h : (ms'[q]?).map core = (ms[q]?).map core) (hm : ms[q]? = some m) :
    ∃ m', ms'[q]? = some m' ∧ core m' = core m := by
  rw [hm] at h
  cases hq : ms'[q]? with
  | none => rw [hq] at h; cases h
  | some m' => rw [hq] at h; exact ⟨m', rfl, Option.some.inj h⟩

theorem enter_good (P : Problem S U α ρ) (starts : List S) (st : St S U α ρ) (i c : Nat)
    (h : Good P starts st) : Good P starts (enter st i c) ∧ Keeps st (enter st i c) := by
  obtain ⟨e1, _, e3, e4, e5, e6⟩ := enter_spec st i c
  refine ⟨?_, ⟨e3, e4, e5, e6, ?_⟩⟩
  · unfold Good; rw [e3]; exact minv_coreEq P starts _ _ _ e1 h
  · intro q m hm
    obtain ⟨m', a, b⟩ := stop_of_coreEq _ _ q m (e1 q) hm
    simp only [core, Core.mk.injEq] at b
    exact ⟨m', a, b.2.1⟩

theorem scan_good (P : Problem S U α ρ) (starts : List S) (bsp i : Nat) :
    ∀ (fuel cnt dn : Nat) (prev : S) (prevCell : Option Nat) (st : St S U α ρ), Good P starts st →
      (∀ (m : PMotion S U α) (u : U), st.motions[i]? = some m → m.control = some u →
        prev = propagate P.step m.start u dn ∧ dn ≤ cnt) →
      Good P starts (scan P bsp i fuel cnt dn prev prevCell st).1 ∧
        Keeps st (scan P bsp i fuel cnt dn prev prevCell st).1 := by
  intro fuel
  induction fuel with
  | zero => intro cnt dn prev prevCell st h _; exact ⟨h, Keeps.refl st⟩
  | succ fuel ih =>
    intro cnt dn prev prevCell st h hl
    simp only [scan]
    cases hm : st.motions[i]? with
    | none => exact ⟨h, Keeps.refl st⟩
    | some m =>
      simp only
      by_cases hc : cnt < m.dur - 1
      · rw [if_pos hc]
        cases hu : m.control with
        | none => exact ⟨h, Keeps.refl st⟩
        | some u =>
          simp only
          obtain ⟨hprev, hdc⟩ := hl m u hm hu
          generalize stab st.cells (P.project (P.step prev u)) st.cells.size bsp = cell
          by_cases hsp : (decide (dn > 0) && prevCell != some cell) = true
          · rw [if_pos hsp]
            simp only
            have hdn : 0 < dn := by
              simp only [Bool.and_eq_true, decide_eq_true_eq] at hsp; exact hsp.1
            have hilt : i < st.motions.size := (Array.getElem?_eq_some_iff.mp hm).1
            -- the three stages of the split
            generalize hhead : ({ start := m.start, stop := prev, control := some u, ctl := m.ctl, dur := dn, priority := m.priority, parent := m.parent, cell := prevCell.getD 0, helem := none, isSplit := true } : PMotion S U α) = head
            obtain ⟨e1, e2, e3, e4, e5, e6⟩ := enter_spec { st with motions := st.motions.push head } st.motions.size (prevCell.getD 0)
            generalize enter { st with motions := st.motions.push head } st.motions.size (prevCell.getD 0) = st2 at e1 e2 e3 e4 e5 e6 ⊢
            have e1' : ∀ q : Nat, (st2.motions[q]?).map core = ((st.motions.push head)[q]?).map core := e1
            have hsplit := split_inv P starts st.motions
              (st2.motions.modify i fun mm => { mm with start := prev, dur := mm.dur - dn, parent := some st.motions.size })
              st.nextCtl i dn m u h hm hu hdn (by omega)
              (by
                obtain ⟨h2, a, b⟩ := stop_of_coreEq _ _ st.motions.size head (e1' _) (by rw [Array.getElem?_push, if_pos rfl])
                refine ⟨h2, by rw [Array.getElem?_modify, if_neg (by omega)]; exact a, ?_⟩
                rw [b, ← hhead]
                simp only [core, hu, hprev])
              (by
                obtain ⟨m2, a, b⟩ := stop_of_coreEq _ _ i m (e1' _) (by rw [Array.getElem?_push, if_neg (by omega)]; exact hm)
                refine ⟨_, by rw [Array.getElem?_modify, if_pos rfl, a]; rfl, ?_⟩
                simp only [core, Core.mk.injEq] at b ⊢
                exact ⟨hprev, b.2.1, b.2.2.1, b.2.2.2.1, by rw [b.2.2.2.2.1], trivial⟩)
              (by
                intro q hq1 hq2
                rw [Array.getElem?_modify, if_neg (fun e => hq1 e.symm), e1' q, Array.getElem?_push, if_neg hq2])
            have hG3 : Good P starts { st2 with motions := st2.motions.modify i fun mm => { mm with start := prev, dur := mm.dur - dn, parent := some st.motions.size } } := by
              show MInv P starts _ st2.nextCtl
              rw [e3]; exact hsplit.1
            have hK3 : Keeps st { st2 with motions := st2.motions.modify i fun mm => { mm with start := prev, dur := mm.dur - dn, parent := some st.motions.size } } :=
              ⟨e3, e4, e5, e6, fun q mq hq => by
                obtain ⟨m', a, _, c, _⟩ := hsplit.2.keep q mq hq
                exact ⟨m', a, c⟩⟩
            have := ih (cnt + 1) (0 + 1) (P.step prev u) (some cell) _ hG3 (by
              intro mt ut hmt hut
              have hmt' : (st2.motions.modify i fun mm => { mm with start := prev, dur := mm.dur - dn, parent := some st.motions.size })[i]? = some mt := hmt
              rw [Array.getElem?_modify, if_pos rfl] at hmt'
              obtain ⟨m2, a, b⟩ := stop_of_coreEq _ _ i m (e1' _) (by rw [Array.getElem?_push, if_neg (by omega)]; exact hm)
              rw [a] at hmt'
              have hmt'' := Option.some.inj hmt'
              simp only [core, Core.mk.injEq] at b
              have hctl : mt.control = m.control := by rw [← hmt'']; exact b.2.2.1
              have hst : mt.start = prev := by rw [← hmt'']
              rw [hctl, hu] at hut
              cases Option.some.inj hut
              rw [hst]
              exact ⟨rfl, by omega⟩)
            exact ⟨this.1, hK3.trans this.2⟩
          · rw [if_neg hsp]
            exact ih (cnt + 1) (dn + 1) (P.step prev u) (some cell) st h (by
              intro m' u' hm' hu'
              rw [hm] at hm'; cases Option.some.inj hm'
              rw [hu] at hu'; cases Option.some.inj hu'
              exact ⟨by rw [hprev]; rfl, by omega⟩)
      · rw [if_neg hc]; exact ⟨h, Keeps.refl st⟩

theorem addMotion_good (P : Problem S U α ρ) (starts : List S) (st : St S U α ρ) (i bsp : Nat)
    (h : Good P starts st) : Good P starts (addMotion P st i bsp) ∧ Keeps st (addMotion P st i bsp) := by
  unfold addMotion
  cases hm : st.motions[i]? with
  | none => exact ⟨h, Keeps.refl st⟩
  | some m =>
    simp only
    split
    · exact enter_good P starts st i _ h
    · have hs := scan_good P starts bsp i m.dur 0 0 m.start none st h (by
        intro m' u hm' _
        rw [hm] at hm'; cases Option.some.inj hm'
        exact ⟨rfl, Nat.le_refl _⟩)
      have he := enter_good P starts _ i ((scan P bsp i m.dur 0 0 m.start none st).2.getD bsp) hs.1
      exact ⟨he.1, hs.2.trans he.2⟩

theorem subdivide_good (P : Problem S U α ρ) (starts : List S) (st : St S U α ρ) (c : Nat)
    (h : Good P starts st) : Good P starts (subdivide P st c).1 ∧ Keeps st (subdivide P st c).1 := by
  unfold subdivide
  split
  · exact ⟨h, Keeps.refl st⟩
  · exact ⟨h, ⟨rfl, rfl, rfl, rfl, fun _ m hm => ⟨m, hm, rfl⟩⟩⟩

theorem foldAdd_good (P : Problem S U α ρ) (starts : List S) (c : Nat) :
    ∀ (l : List Nat) (st : St S U α ρ), Good P starts st →
      Good P starts (l.foldl (fun s i => addMotion P s i c) st) ∧
        Keeps st (l.foldl (fun s i => addMotion P s i c) st) := by
  intro l
  induction l with
  | nil => intro st h; exact ⟨h, Keeps.refl st⟩
  | cons i l ih =>
    intro st h
    rw [List.foldl_cons]
    have h1 := addMotion_good P starts st i c h
    have h2 := ih _ h1.1
    exact ⟨h2.1, h1.2.trans h2.2⟩

/-! ## one iteration -/

theorem sim_push (step : S → U → S) (ms : Array (PMotion S U α)) (x : PMotion S U α) :
    Sim step ms (ms.push x) := by
  have get : ∀ (q : Nat) (m : PMotion S U α), ms[q]? = some m → (ms.push x)[q]? = some m := by
    intro q m hm
    rw [Array.getElem?_push, if_neg (by have := (Array.getElem?_eq_some_iff.mp hm).1; omega)]; exact hm
  refine ⟨?_, fun q m hm => ⟨m, get q m hm, rfl, rfl, rfl⟩⟩
  intro q s hc
  induction hc with
  | here h1 h2 h3 h4 => exact .here (get _ _ h1) h2 h3 h4
  | root h1 h2 h3 => exact .root (get _ _ h1) h2 h3
  | up h1 h2 h3 h4 _ ih => exact .up (get _ _ h1) h2 (get _ _ h3) h4 ih

/-- goal bookkeeping -/
def GInv (P : Problem S U α ρ) (st : St S U α ρ) : Prop :=
  (∀ l, st.lastGoal = some l → ∃ m, st.motions[l]? = some m) ∧
  (st.isApprox = false → ∃ l m, st.lastGoal = some l ∧ st.motions[l]? = some m ∧ (P.goal m.stop).1 = true ∧
    st.closest = (P.goal m.stop).2)

theorem ginv_keeps (P : Problem S U α ρ) (st st' : St S U α ρ) (hk : Keeps st st') (h : GInv P st) :
    GInv P st' := by
  refine ⟨?_, ?_⟩
  · intro l hl
    rw [hk.lastGoal] at hl
    obtain ⟨m, hm⟩ := h.1 l hl
    obtain ⟨m', a, _⟩ := hk.stop l m hm
    exact ⟨m', a⟩
  · intro ha
    rw [hk.isApprox] at ha
    obtain ⟨l, m, h1, h2, h3, h4⟩ := h.2 ha
    obtain ⟨m', a, b⟩ := hk.stop l m h2
    exact ⟨l, m', by rw [hk.lastGoal]; exact h1, a, by rw [b]; exact h3, by rw [b, hk.closest]; exact h4⟩

def pdF (P : Problem S U α ρ) (st : St S U α ρ) (m : PMotion S U α) : Nat × ρ :=
  if m.dur > 1 then P.rngInt1 st.rng m.dur else (m.dur, st.rng)

def startF (P : Problem S U α ρ) (m : PMotion S U α) (k : Nat) : S :=
  if k == m.dur then m.stop
  else match m.control with
    | some u => propagate P.step m.start u k
    | none => m.stop

def gbF (P : Problem S U α ρ) (g : ρ) : Bool × ρ :=
  if P.goalSampleable then
    let r := P.rng01 g
    (decide (r.1 < P.goalBias) && P.canSample, r.2)
  else (false, g)

/-- `iter` after the selection, the priority update and the choice of the start point -/
def iterRest (P : Problem S U α ρ) (st : St S U α ρ) (sel : Nat) (start : S) (gb : Bool × ρ) (d : Draw S U) :
    St S U α ρ × Flow :=
  let st1 := { st with rng := gb.2 }
  let rnd := if gb.1 then P.goalSample else d.sample
  match sampleTo P.step P.valid P.dist (fun a b => decide (a < b)) start rnd d.ctl with
  | none => (st1, .cont)
  | some (u, dur, reached) =>
    if dur < P.minSteps then (st1, .cont)
    else
      let ni := st1.motions.size
      let it := st1.iteration + 1
      let nm : PMotion S U α :=
        { start := start, stop := reached, control := some u, ctl := some st1.nextCtl, dur := dur,
          priority := Num.ofNat it, parent := some sel, cell := 0, helem := none, isSplit := false }
      let st2 := { st1 with motions := st1.motions.push nm, iteration := it, nextCtl := st1.nextCtl + 1 }
      let st3 := addMotion P st2 ni 0
      let g := P.goal reached
      if g.1 then ({ st3 with closest := g.2, lastGoal := some ni, isApprox := false }, .done)
      else
        let st4 := if st3.isApprox && decide (g.2 < st3.closest) then { st3 with closest := g.2, lastGoal := some ni } else st3
        match st4.motions[sel]? with
        | none => (st4, .halt)
        | some ms =>
          let sd := subdivide P st4 ms.cell
          (sd.2.foldl (fun s i => addMotion P s i ms.cell) sd.1, .cont)

/-- the selected motion after `updatePriority()` and the state after `priorityQueue_.update` -/
def selM (m0 : PMotion S U α) : PMotion S U α := { m0 with priority := m0.priority * Num.ofNat 2 + Num.ofNat 1 }

def selSt (st0 : St S U α ρ) (sel : Nat) (m0 : PMotion S U α) : St S U α ρ :=
  let m := selM m0
  let stA := { st0 with motions := st0.motions.setIfInBounds sel m }
  match m.helem with
  | some h => { stA with heap := stA.heap.setKey klt h (score stA m, sel) }
  | none => stA

theorem iter_eq (P : Problem S U α ρ) (st0 : St S U α ρ) (d : Draw S U) :
    iter P st0 d =
      match st0.heap.top with
      | none => (st0, .halt)
      | some e =>
        match st0.motions[e.key.2]? with
        | none => (st0, .halt)
        | some m0 =>
          iterRest P (selSt st0 e.key.2 m0) e.key.2
            (startF P (selM m0) (pdF P (selSt st0 e.key.2 m0) (selM m0)).1)
            (gbF P (pdF P (selSt st0 e.key.2 m0) (selM m0)).2) d := rfl

theorem selSt_motions (st0 : St S U α ρ) (sel : Nat) (m0 : PMotion S U α) :
    (selSt st0 sel m0).motions = st0.motions.setIfInBounds sel (selM m0) ∧
    (selSt st0 sel m0).nextCtl = st0.nextCtl ∧ (selSt st0 sel m0).lastGoal = st0.lastGoal ∧
    (selSt st0 sel m0).isApprox = st0.isApprox ∧ (selSt st0 sel m0).closest = st0.closest := by
  unfold selSt
  simp only
  split <;> exact ⟨rfl, rfl, rfl, rfl, rfl⟩

theorem selSt_good (P : Problem S U α ρ) (starts : List S) (st0 : St S U α ρ) (sel : Nat) (m0 : PMotion S U α)
    (hm0 : st0.motions[sel]? = some m0) (h : Good P starts st0) :
    Good P starts (selSt st0 sel m0) ∧ Keeps st0 (selSt st0 sel m0) ∧
      (selSt st0 sel m0).motions[sel]? = some (selM m0) := by
  obtain ⟨e1, e2, e3, e4, e5⟩ := selSt_motions st0 sel m0
  have hlt : sel < st0.motions.size := (Array.getElem?_eq_some_iff.mp hm0).1
  have hce : ∀ q : Nat, ((selSt st0 sel m0).motions[q]?).map core = (st0.motions[q]?).map core := by
    intro q
    rw [e1, Array.getElem?_setIfInBounds]
    by_cases e : sel = q
    · rw [if_pos e, if_pos hlt, ← e, hm0]; rfl
    · rw [if_neg e]
  refine ⟨?_, ⟨e2, e3, e4, e5, ?_⟩, ?_⟩
  · unfold Good; rw [e2]; exact minv_coreEq P starts _ _ _ hce h
  · intro q m hm
    obtain ⟨m', a, b⟩ := stop_of_coreEq _ _ q m (hce q) hm
    simp only [core, Core.mk.injEq] at b
    exact ⟨m', a, b.2.1⟩
  · rw [e1, Array.getElem?_setIfInBounds, if_pos rfl, if_pos hlt]

/-- the start point of the new motion lies on the selected motion's chain and is valid -/
theorem startF_onchain (P : Problem S U α ρ) (starts : List S) (ms : Array (PMotion S U α)) (sel : Nat)
    (m : PMotion S U α) (hm : ms[sel]? = some m) (hs : SegOK P starts ms (core m)) (k : Nat)
    (hk : k ≤ m.dur ∧ (1 ≤ k ∨ k = m.dur)) :
    OnChain P.step ms sel (startF P m k) ∧ P.valid (startF P m k) = true := by
  unfold startF
  rcases hs with ⟨r1, _, r3, r4, _, r6, _⟩ | ⟨u, s1, _, _, s4, s5, s6, _⟩
  · simp only [core] at r1 r3 r4 r6
    have : (if (k == m.dur) = true then m.stop else match m.control with
        | some u => propagate P.step m.start u k | none => m.stop) = m.stop := by
      split
      · rfl
      · rw [r1]
    rw [this]
    exact ⟨.root hm r1 rfl, by rw [← r4]; exact r6⟩
  · simp only [core] at s1 s4 s5 s6
    by_cases hkd : k = m.dur
    · rw [if_pos (by simpa using hkd)]
      refine ⟨.here hm s1 (Nat.le_refl _) s4, ?_⟩
      rw [s4]
      by_cases h0 : m.dur = 0
      · rw [h0]; exact s6
      · exact s5 _ (by omega) (Nat.le_refl _)
    · rw [if_neg (by simpa using hkd), s1]
      simp only
      refine ⟨.here hm s1 hk.1 rfl, s5 k ?_ hk.1⟩
      rcases hk.2 with h | h
      · exact h
      · exact absurd h hkd

theorem iterRest_good (P : Problem S U α ρ) (starts : List S) (st : St S U α ρ) (sel : Nat)
    (m : PMotion S U α) (start : S) (gb : Bool × ρ) (d : Draw S U)
    (hG : Good P starts st) (hg : GInv P st)
    (hm : st.motions[sel]? = some m)
    (hstart : OnChain P.step st.motions sel start ∧ P.valid start = true) :
    Good P starts (iterRest P st sel start gb d).1 ∧ GInv P (iterRest P st sel start gb d).1 ∧
      (st.isApprox = true → (iterRest P st sel start gb d).2 = .cont →
        (iterRest P st sel start gb d).1.isApprox = true) := by
  unfold iterRest
  simp only
  generalize (if gb.1 = true then P.goalSample else d.sample) = rnd
  have hG1 : Good P starts { st with rng := gb.2 } := hG
  have hg1 : GInv P { st with rng := gb.2 } := hg
  cases hsamp : sampleTo P.step P.valid P.dist (fun a b => decide (a < b)) start rnd d.ctl with
  | none => exact ⟨hG1, hg1, fun ha _ => ha⟩
  | some x =>
    obtain ⟨u, dur, reached⟩ := x
    simp only
    by_cases hmin : dur < P.minSteps
    · rw [if_pos hmin]; exact ⟨hG1, hg1, fun ha _ => ha⟩
    · rw [if_neg hmin]
      obtain ⟨k1, k2, _⟩ := sampleTo_ok _ _ _ _ _ _ _ _ hsamp
      simp only at k1 k2
      have hsel : sel < st.motions.size := (Array.getElem?_eq_some_iff.mp hm).1
      generalize hnm : ({ start := start, stop := reached, control := some u, ctl := some st.nextCtl, dur := dur, priority := Num.ofNat (st.iteration + 1), parent := some sel, cell := 0, helem := none, isSplit := false } : PMotion S U α) = nm
      have hsim := sim_push P.step st.motions nm
      have hG2 : Good P starts { st with rng := gb.2, motions := st.motions.push nm, iteration := st.iteration + 1, nextCtl := st.nextCtl + 1 } := by
        refine ⟨?_, ?_⟩
        · intro q mq hq
          have hq' : (st.motions.push nm)[q]? = some mq := hq
          rw [Array.getElem?_push] at hq'
          by_cases e : q = st.motions.size
          · rw [if_pos e] at hq'
            cases Option.some.inj hq'
            subst hnm
            refine Or.inr ⟨u, rfl, ⟨_, rfl⟩, fun _ => by show 1 ≤ dur; omega, k1, k2, hstart.2, sel, m, rfl, ?_, ?_⟩
            · show (st.motions.push _)[sel]? = some m
              rw [Array.getElem?_push, if_neg (by omega)]; exact hm
            · refine Or.inr ⟨?_, hsim.chain sel _ hstart.1⟩
              intro hc
              have hc' : some st.nextCtl = m.ctl := hc
              have := hG.fresh sel m st.nextCtl hm hc'.symm
              omega
          · rw [if_neg e] at hq'
            exact segOK_sim P starts _ _ _ hsim (hG.seg q mq hq')
        · intro q mq c hq hc
          have hq' : (st.motions.push nm)[q]? = some mq := hq
          show c < st.nextCtl + 1
          rw [Array.getElem?_push] at hq'
          by_cases e : q = st.motions.size
          · rw [if_pos e] at hq'
            cases Option.some.inj hq'
            rw [← hnm] at hc
            have : st.nextCtl = c := Option.some.inj hc
            omega
          · rw [if_neg e] at hq'
            have := hG.fresh q mq c hq' hc
            omega
      have hK2 : ∀ (q : Nat) (mq : PMotion S U α), st.motions[q]? = some mq →
          (st.motions.push nm)[q]? = some mq := by
        intro q mq hq
        rw [Array.getElem?_push, if_neg (by have := (Array.getElem?_eq_some_iff.mp hq).1; omega)]; exact hq
      have h3 := addMotion_good P starts _ st.motions.size 0 hG2
      generalize addMotion P { st with rng := gb.2, motions := st.motions.push nm, iteration := st.iteration + 1, nextCtl := st.nextCtl + 1 } st.motions.size 0 = st3 at h3 ⊢
      obtain ⟨hG3, hK3⟩ := h3
      -- the new motion in st3
      obtain ⟨mn, hmn1, hmn2⟩ := hK3.stop st.motions.size nm (by
        show (st.motions.push nm)[st.motions.size]? = some nm
        rw [Array.getElem?_push, if_pos rfl])
      have hstop : mn.stop = reached := by rw [hmn2, ← hnm]
      have hg2 : GInv P { st with rng := gb.2, motions := st.motions.push nm, iteration := st.iteration + 1, nextCtl := st.nextCtl + 1 } := by
        refine ⟨?_, ?_⟩
        · intro l hl
          obtain ⟨ml, hml⟩ := hg.1 l hl
          exact ⟨ml, hK2 l ml hml⟩
        · intro hap
          obtain ⟨l, ml, a1, a2, a3, a4⟩ := hg.2 hap
          exact ⟨l, ml, a1, hK2 l ml a2, a3, a4⟩
      have hg3 : GInv P st3 := ginv_keeps P _ _ hK3 hg2
      have ha3 : st3.isApprox = st.isApprox := hK3.isApprox
      by_cases hgoal : (P.goal reached).1 = true
      · rw [if_pos hgoal]
        refine ⟨hG3, ⟨?_, ?_⟩, fun _ h => by cases h⟩
        · intro l hl
          cases Option.some.inj hl
          exact ⟨mn, hmn1⟩
        · intro _
          exact ⟨_, mn, rfl, hmn1, by rw [hstop]; exact hgoal, by rw [hstop]⟩
      · rw [if_neg hgoal]
        have hgf : (P.goal reached).1 = false := by simpa using hgoal
        -- st4
        have h4 : ∀ st4 : St S U α ρ, st4 = (if (st3.isApprox && decide ((P.goal reached).2 < st3.closest)) = true then { st3 with closest := (P.goal reached).2, lastGoal := some st.motions.size } else st3) →
            Good P starts st4 ∧ GInv P st4 ∧ st4.isApprox = st.isApprox := by
          intro st4 e
          by_cases hc : (st3.isApprox && decide ((P.goal reached).2 < st3.closest)) = true
          · rw [if_pos hc] at e
            rw [e]
            have hap3 : st3.isApprox = true := by
              simp only [Bool.and_eq_true] at hc; exact hc.1
            refine ⟨hG3, ⟨?_, fun h => by rw [show ({ st3 with closest := (P.goal reached).2, lastGoal := some st.motions.size } : St S U α ρ).isApprox = st3.isApprox from rfl, hap3] at h; cases h⟩, ha3⟩
            intro l hl
            cases Option.some.inj hl
            exact ⟨mn, hmn1⟩
          · rw [if_neg hc] at e
            rw [e]
            exact ⟨hG3, hg3, ha3⟩
        generalize (if (st3.isApprox && decide ((P.goal reached).2 < st3.closest)) = true then ({ st3 with closest := (P.goal reached).2, lastGoal := some st.motions.size } : St S U α ρ) else st3) = st4 at h4 ⊢
        obtain ⟨hG4, hg4, ha4⟩ := h4 st4 rfl
        cases hsel4 : st4.motions[sel]? with
        | none => exact ⟨hG4, hg4, fun _ h => by cases h⟩
        | some msel =>
          simp only
          have hsd := subdivide_good P starts st4 msel.cell hG4
          have hf := foldAdd_good P starts msel.cell (subdivide P st4 msel.cell).2 _ hsd.1
          have hK := hsd.2.trans hf.2
          exact ⟨hf.1, ginv_keeps P _ _ hK hg4, fun ha _ => by rw [hK.isApprox, ha4]; exact ha⟩

theorem iter_good (P : Problem S U α ρ) (starts : List S)
    (hrng : ∀ g hi, 1 ≤ hi → 1 ≤ (P.rngInt1 g hi).1 ∧ (P.rngInt1 g hi).1 ≤ hi) (st0 : St S U α ρ) (d : Draw S U)
    (hG : Good P starts st0) (hg : GInv P st0) :
    Good P starts (iter P st0 d).1 ∧ GInv P (iter P st0 d).1 ∧
      (st0.isApprox = true → (iter P st0 d).2 = .cont → (iter P st0 d).1.isApprox = true) := by
  rw [iter_eq]
  cases st0.heap.top with
  | none => exact ⟨hG, hg, fun _ h => by cases h⟩
  | some e =>
    simp only
    cases hm0 : st0.motions[e.key.2]? with
    | none => exact ⟨hG, hg, fun _ h => by cases h⟩
    | some m0 =>
      simp only
      obtain ⟨hGs, hKs, hms⟩ := selSt_good P starts st0 e.key.2 m0 hm0 hG
      have hseg := hGs.seg e.key.2 (selM m0) hms
      have hk : (pdF P (selSt st0 e.key.2 m0) (selM m0)).1 ≤ (selM m0).dur ∧
          (1 ≤ (pdF P (selSt st0 e.key.2 m0) (selM m0)).1 ∨ (pdF P (selSt st0 e.key.2 m0) (selM m0)).1 = (selM m0).dur) := by
        unfold pdF
        split
        · rename_i hd
          have := hrng (selSt st0 e.key.2 m0).rng (selM m0).dur (by omega)
          exact ⟨this.2, Or.inl this.1⟩
        · exact ⟨Nat.le_refl _, Or.inr rfl⟩
      have hst := startF_onchain P starts _ e.key.2 (selM m0) hms hseg _ hk
      have := iterRest_good P starts (selSt st0 e.key.2 m0) e.key.2 (selM m0)
        (startF P (selM m0) (pdF P (selSt st0 e.key.2 m0) (selM m0)).1)
        (gbF P (pdF P (selSt st0 e.key.2 m0) (selM m0)).2) d hGs (ginv_keeps P _ _ hKs hg) hms hst
      exact ⟨this.1, this.2.1, fun ha => this.2.2 (by rw [hKs.isApprox]; exact ha)⟩

theorem run_good (P : Problem S U α ρ) (starts : List S)
    (hrng : ∀ g hi, 1 ≤ hi → 1 ≤ (P.rngInt1 g hi).1 ∧ (P.rngInt1 g hi).1 ≤ hi) :
    ∀ (ds : List (Draw S U)) (st : St S U α ρ), Good P starts st → GInv P st →
      Good P starts (run P st ds) ∧ GInv P (run P st ds) := by
  intro ds
  induction ds with
  | nil => intro st h1 h2; exact ⟨h1, h2⟩
  | cons d ds ih =>
    intro st h1 h2
    have hI := iter_good P starts hrng st d h1 h2
    simp only [run]
    split
    · rename_i st' heq
      rw [heq] at hI
      exact ih st' hI.1 hI.2.1
    · rename_i st' _ heq
      rw [heq] at hI
      exact ⟨hI.1, hI.2.1⟩

theorem init_good (P : Problem S U α ρ) (g : ρ) (starts : List S) :
    Good P starts (init P g starts) ∧ GInv P (init P g starts) ∧ (init P g starts).isApprox = true ∧
      (init P g starts).lastGoal = none := by
  unfold init
  have key : ∀ (l : List S) (st : St S U α ρ), (∀ s ∈ l, s ∈ starts ∧ P.valid s = true) →
      (Good P starts st ∧ st.lastGoal = none ∧ st.isApprox = true) →
      (Good P starts (l.foldl (fun st s =>
        let i := st.motions.size
        let m : PMotion S U α :=
          { start := s, stop := s, control := none, ctl := none, dur := 0, priority := Num.ofNat 0, parent := none, cell := 0, helem := some st.heap.next, isSplit := false }
        let st1 := { st with motions := st.motions.push m, cells := st.cells.modify 0 fun cl => { cl with motions := cl.motions ++ [i] } }
        { st1 with heap := st1.heap.insert klt (score st1 m, i) }) st) ∧
       (l.foldl (fun st s =>
        let i := st.motions.size
        let m : PMotion S U α :=
          { start := s, stop := s, control := none, ctl := none, dur := 0, priority := Num.ofNat 0, parent := none, cell := 0, helem := some st.heap.next, isSplit := false }
        let st1 := { st with motions := st.motions.push m, cells := st.cells.modify 0 fun cl => { cl with motions := cl.motions ++ [i] } }
        { st1 with heap := st1.heap.insert klt (score st1 m, i) }) st).lastGoal = none ∧
       (l.foldl (fun st s =>
        let i := st.motions.size
        let m : PMotion S U α :=
          { start := s, stop := s, control := none, ctl := none, dur := 0, priority := Num.ofNat 0, parent := none, cell := 0, helem := some st.heap.next, isSplit := false }
        let st1 := { st with motions := st.motions.push m, cells := st.cells.modify 0 fun cl => { cl with motions := cl.motions ++ [i] } }
        { st1 with heap := st1.heap.insert klt (score st1 m, i) }) st).isApprox = true) := by
    intro l
    induction l with
    | nil => intro st _ h; exact h
    | cons s l ih =>
      intro st hl h
      rw [List.foldl_cons]
      have hs := hl s (List.mem_cons_self ..)
      refine ih _ (fun x hx => hl x (List.mem_cons_of_mem _ hx)) ⟨?_, h.2.1, h.2.2⟩
      generalize hroot : ({ start := s, stop := s, control := none, ctl := none, dur := 0, priority := Num.ofNat 0, parent := none, cell := 0, helem := some st.heap.next, isSplit := false } : PMotion S U α) = rt
      have hsim := sim_push P.step st.motions rt
      refine ⟨?_, ?_⟩
      · intro q mq hq
        have hq' : (st.motions.push rt)[q]? = some mq := hq
        rw [Array.getElem?_push] at hq'
        by_cases e : q = st.motions.size
        · rw [if_pos e] at hq'
          cases Option.some.inj hq'
          subst hroot
          exact Or.inl ⟨rfl, rfl, rfl, rfl, hs.1, hs.2, rfl⟩
        · rw [if_neg e] at hq'
          exact segOK_sim P starts _ _ _ hsim (h.1.seg q mq hq')
      · intro q mq c hq hc
        have hq' : (st.motions.push rt)[q]? = some mq := hq
        rw [Array.getElem?_push] at hq'
        by_cases e : q = st.motions.size
        · rw [if_pos e] at hq'
          cases Option.some.inj hq'
          subst hroot
          cases hc
        · rw [if_neg e] at hq'
          exact h.1.fresh q mq c hq' hc
  have := key (starts.filter P.valid)
    { motions := #[], cells := #[{ volume := Num.ofNat 1, splitDim := 0, splitValue := Num.ofNat 0, kids := none, lo := P.lo, hi := P.hi, motions := [] }], heap := {}, rng := g, iteration := 1, nextCtl := 0, lastGoal := none, closest := P.inf, isApprox := true }
    (fun s hs => List.mem_filter.mp hs)
    ⟨⟨fun q m h => by simp at h, fun q m c h => by simp at h⟩, rfl, rfl⟩
  refine ⟨this.1, ⟨?_, ?_⟩, this.2.2, this.2.1⟩
  · intro l hl; rw [this.2.1] at hl; cases hl
  · intro h; rw [this.2.2] at h; cases h

theorem solve_good (P : Problem S U α ρ) (hrng : ∀ g hi, 1 ≤ hi → 1 ≤ (P.rngInt1 g hi).1 ∧ (P.rngInt1 g hi).1 ≤ hi)
    (g : ρ) (starts : List S) (draws : List (Draw S U)) :
    Good P starts (solve P g starts draws).final ∧ GInv P (solve P g starts draws).final := by
  obtain ⟨h1, h2, h3, _⟩ := init_good P g starts
  have h := run_good P starts hrng draws _ h1 h2
  unfold solve
  simp only
  split
  · exact ⟨h1, h2⟩
  · split <;> exact h

theorem solve_status (P : Problem S U α ρ) (g : ρ) (starts : List S) (draws : List (Draw S U)) :
    (((solve P g starts draws).status = .exact ∨ (solve P g starts draws).status = .approximate) ↔
      (solve P g starts draws).final.lastGoal.isSome = true) ∧
    ((solve P g starts draws).status = .exact → (solve P g starts draws).final.isApprox = false) ∧
    ((solve P g starts draws).status = .approximate → (solve P g starts draws).final.isApprox = true) ∧
    ((solve P g starts draws).path.isSome = true → (solve P g starts draws).final.lastGoal.isSome = true) := by
  have hi := (init_good P g starts).2.2.2
  unfold solve
  simp only
  split
  · simp [hi]
  · split
    · rename_i hl; simp [hl]
    · rename_i l hl
      cases (run P (init P g starts) draws).isApprox <;> simp [hl]

/-! ## `findDurationAndAncestor` is sound on a tree satisfying the invariant

`hclose`: the float-epsilon identification of states is exact; `hrefl`: a state is close to itself;
`hmin`: `minControlDuration ≥ 1` (so no non-start motion has zero steps). -/

theorem searchSteps_spec (P : Problem S U α ρ) (u : U) (state start : S) (dur : Nat) :
    ∀ (fuel d : Nat) (scratch : S), scratch = propagate P.step start u (d - 1) → 1 ≤ d → dur + 1 ≤ d + fuel →
      d ≤ searchSteps P u state dur fuel d scratch ∧
      (searchSteps P u state dur fuel d scratch ≤ dur →
        P.close (propagate P.step start u (searchSteps P u state dur fuel d scratch)) state = true) ∧
      (∀ j, d ≤ j → j < searchSteps P u state dur fuel d scratch → j ≤ dur →
        P.close (propagate P.step start u j) state = false) := by
  intro fuel
  induction fuel with
  | zero =>
    intro d scratch _ _ hf
    simp only [searchSteps]
    exact ⟨Nat.le_refl _, fun h => by omega, fun j h1 h2 => by omega⟩
  | succ fuel ih =>
    intro d scratch hs hd hf
    simp only [searchSteps]
    by_cases hdd : d ≤ dur
    · rw [if_pos hdd]
      have hstep : P.step scratch u = propagate P.step start u d := by
        rw [hs]
        obtain ⟨d', rfl⟩ : ∃ d', d = d' + 1 := ⟨d - 1, by omega⟩
        rfl
      by_cases hc : P.close (P.step scratch u) state = true
      · rw [if_pos hc]
        exact ⟨Nat.le_refl _, fun _ => by rw [← hstep]; exact hc, fun j h1 h2 => by omega⟩
      · rw [if_neg hc]
        obtain ⟨a, b, c⟩ := ih (d + 1) (P.step scratch u) (by rw [hstep]; rfl) (by omega) (by omega)
        refine ⟨by omega, b, ?_⟩
        intro j h1 h2 h3
        by_cases hj : j = d
        · rw [hj, ← hstep]; simpa using hc
        · exact c j (by omega) h2 h3
    · rw [if_neg hdd]
      exact ⟨Nat.le_refl _, fun h => by omega, fun j h1 h2 => by omega⟩

/-- what `findDA` claims about `(d, a)` for the target `state` -/
def Res (P : Problem S U α ρ) (ms : Array (PMotion S U α)) (state : S) (d a : Nat) : Prop :=
  ∃ am, ms[a]? = some am ∧
    ((am.control = none ∧ d = 0 ∧ state = am.stop) ∨
     (∃ u, am.control = some u ∧ state = propagate P.step am.start u d ∧
       ∀ j, 1 ≤ j → j ≤ d → P.valid (propagate P.step am.start u j) = true))

theorem chainUp_sound (P : Problem S U α ρ) (starts : List S) (ms : Array (PMotion S U α)) (n : Nat)
    (hI : MInv P starts ms n) (state : S) :
    ∀ (fuel a d : Nat), Res P ms state d a → Res P ms state (chainUp ms fuel a d).1 (chainUp ms fuel a d).2 := by
  intro fuel
  induction fuel with
  | zero => intro a d h; exact h
  | succ fuel ih =>
    intro a d h
    simp only [chainUp]
    cases hm : ms[a]? with
    | none => exact h
    | some m =>
      simp only
      cases hp : m.parent with
      | none => exact h
      | some p =>
        simp only
        cases hpm : ms[p]? with
        | none => exact h
        | some pm =>
          simp only
          by_cases hc : (m.ctl == pm.ctl) = true
          · rw [if_pos hc]
            apply ih
            have hceq : m.ctl = pm.ctl := by simpa using hc
            -- `m` is the tail after `pm`
            rcases hI.seg a m hm with hr | ⟨u, s1, s2, _, _, _, _, p', pm', s7, s8, s9⟩
            · simp only [core] at hr; rw [hp] at hr; cases hr.2.2.2.2.2.2
            simp only [core] at s1 s2 s7 s9
            rw [hp] at s7; cases Option.some.inj s7
            rw [hpm] at s8; cases Option.some.inj s8
            rcases s9 with ⟨_, t2, t3⟩ | ⟨t1, _⟩
            · have t2 : m.start = pm.stop := t2
              have t3 : m.control = pm.control := t3
              -- `pm` is a segment with the same control
              rcases hI.seg p pm hpm with hr | ⟨u', q1, _, _, q4, q5, _, _⟩
              · simp only [core] at hr
                obtain ⟨c, hc'⟩ := s2
                rw [hceq, hr.2.1] at hc'; cases hc'
              simp only [core] at q1 q4 q5
              have huu : u' = u := by rw [← t3, s1] at q1; exact (Option.some.inj q1).symm
              rw [huu] at q1 q4 q5
              obtain ⟨am, ha, hres⟩ := h
              rw [hm] at ha; cases Option.some.inj ha
              rcases hres with ⟨r1, _, _⟩ | ⟨u2, r1, r2, r3⟩
              · rw [s1] at r1; cases r1
              have : u2 = u := by rw [s1] at r1; exact (Option.some.inj r1).symm
              rw [this] at r2 r3
              refine ⟨pm, hpm, Or.inr ⟨u, q1, ?_, ?_⟩⟩
              · rw [r2, t2, q4, ← propagate_add', Nat.add_comm]
              · intro j hj1 hj2
                by_cases hj : j ≤ pm.dur
                · exact q5 j hj1 hj
                · have : j = pm.dur + (j - pm.dur) := by omega
                  rw [this, propagate_add', ← q4, ← t2]
                  exact r3 _ (by omega) (by omega)
            · exact absurd hceq t1
          · rw [if_neg hc]; exact h

/-- the per-piece step count of `findDA` -/
def pieceD (P : Problem S U α ρ) (m : PMotion S U α) (state : S) : Nat :=
  if m.dur == 0 || P.close m.stop state then m.dur
  else if decide (m.dur > 0) && P.close m.start state then 0
  else match m.control with
    | some u => searchSteps P u state m.dur (m.dur + 1) 1 m.start
    | none => m.dur + 1

theorem pieceD_spec (P : Problem S U α ρ) (hclose : ∀ a b, P.close a b = true → a = b)
    (hrefl : ∀ a, P.close a a = true) (m : PMotion S U α) (u : U) (hu : m.control = some u)
    (hstop : m.stop = propagate P.step m.start u m.dur) (hd : 1 ≤ m.dur) (state : S) :
    (pieceD P m state ≤ m.dur → state = propagate P.step m.start u (pieceD P m state)) ∧
    (m.dur < pieceD P m state → ∀ j, j ≤ m.dur → state ≠ propagate P.step m.start u j) := by
  unfold pieceD
  have hd0 : (m.dur == 0) = false := by simpa using (by omega : m.dur ≠ 0)
  simp only [hd0, Bool.false_or]
  by_cases h1 : P.close m.stop state = true
  · rw [if_pos h1]
    exact ⟨fun _ => by rw [← hstop]; exact (hclose _ _ h1).symm, fun h => by omega⟩
  · rw [if_neg h1]
    have hdp : decide (m.dur > 0) = true := by
      rw [decide_eq_true_eq]; omega
    simp only [hdp, Bool.true_and]
    by_cases h2 : P.close m.start state = true
    · rw [if_pos h2]
      exact ⟨fun _ => (hclose _ _ h2).symm, fun h => by omega⟩
    · rw [if_neg h2, hu]
      simp only
      obtain ⟨a, b, c⟩ := searchSteps_spec P u state m.start m.dur (m.dur + 1) 1 m.start rfl (Nat.le_refl _) (by omega)
      refine ⟨fun h => (hclose _ _ (b h)).symm, ?_⟩
      intro hgt j hj heq
      by_cases hj0 : j = 0
      · rw [hj0] at heq
        apply h2; rw [heq]; exact hrefl _
      · have := c j (by omega) (by omega) hj
        rw [← heq, hrefl] at this; cases this

theorem findDA_eq (P : Problem S U α ρ) (ms : Array (PMotion S U α)) (state : S) (fuel mi : Nat) :
    findDA P ms state (fuel + 1) mi =
      match ms[mi]? with
      | none => none
      | some m =>
        if pieceD P m state ≤ m.dur then some (chainUp ms ms.size mi (pieceD P m state))
        else match m.parent with
          | none => none
          | some p => findDA P ms state fuel p := rfl

theorem findDA_sound (P : Problem S U α ρ) (starts : List S) (ms : Array (PMotion S U α)) (n : Nat)
    (hI : MInv P starts ms n) (hclose : ∀ a b, P.close a b = true → a = b) (hrefl : ∀ a, P.close a a = true)
    (hmin : 1 ≤ P.minSteps) (state : S) :
    ∀ (fuel mi d a : Nat), OnChain P.step ms mi state → findDA P ms state fuel mi = some (d, a) →
      Res P ms state d a := by
  intro fuel
  induction fuel with
  | zero => intro mi d a _ h; simp [findDA] at h
  | succ fuel ih =>
    intro mi d a hoc h
    rw [findDA_eq] at h
    cases hm : ms[mi]? with
    | none => rw [hm] at h; cases h
    | some m =>
      rw [hm] at h
      simp only at h
      rcases hI.seg mi m hm with hr | ⟨u, s1, _, s3, s4, s5, _, _⟩
      · -- a start motion: the state is its state, `d = 0`
        simp only [core] at hr
        have hp0 : pieceD P m state = m.dur := by
          unfold pieceD; rw [hr.2.2.1]; simp
        rw [hp0, if_pos (Nat.le_refl _)] at h
        have hst : state = m.stop := by
          cases hoc with
          | here h1 h2 _ _ => rw [hm] at h1; cases Option.some.inj h1; rw [hr.1] at h2; cases h2
          | root h1 _ h3 => rw [hm] at h1; cases Option.some.inj h1; exact h3
          | up h1 h2 _ _ _ => rw [hm] at h1; cases Option.some.inj h1; rw [hr.2.2.2.2.2.2] at h2; cases h2
        have hres : Res P ms state m.dur mi := ⟨m, hm, Or.inl ⟨hr.1, hr.2.2.1, hst⟩⟩
        have := chainUp_sound P starts ms n hI state ms.size mi m.dur hres
        rw [Option.some.inj h] at this
        exact this
      · simp only [core] at s1 s3 s4 s5
        obtain ⟨p1, p2⟩ := pieceD_spec P hclose hrefl m u s1 s4 (s3 hmin) state
        by_cases hle : pieceD P m state ≤ m.dur
        · rw [if_pos hle] at h
          have hres : Res P ms state (pieceD P m state) mi :=
            ⟨m, hm, Or.inr ⟨u, s1, p1 hle, fun j hj1 hj2 => s5 j hj1 (by omega)⟩⟩
          have := chainUp_sound P starts ms n hI state ms.size mi _ hres
          rw [Option.some.inj h] at this
          exact this
        · rw [if_neg hle] at h
          cases hp : m.parent with
          | none => rw [hp] at h; cases h
          | some p =>
            rw [hp] at h
            simp only at h
            refine ih p d a ?_ h
            cases hoc with
            | here h1 h2 h3 h4 =>
              rw [hm] at h1; cases Option.some.inj h1
              rw [s1] at h2; cases Option.some.inj h2
              exact absurd h4 (p2 (by omega) _ h3)
            | root h1 h2 _ => rw [hm] at h1; cases Option.some.inj h1; rw [s1] at h2; cases h2
            | up h1 h2 _ _ h5 =>
              rw [hm] at h1; cases Option.some.inj h1
              rw [hp] at h2; cases Option.some.inj h2
              exact h5

/-! ## the ancestor walk of the path assembly -/

theorem stop_onchain (P : Problem S U α ρ) (starts : List S) (ms : Array (PMotion S U α)) (n : Nat)
    (hI : MInv P starts ms n) (p : Nat) (pm : PMotion S U α) (hpm : ms[p]? = some pm) :
    OnChain P.step ms p pm.stop := by
  rcases hI.seg p pm hpm with hr | ⟨u, s1, _, _, s4, _⟩
  · exact .root hpm hr.1 rfl
  · exact .here hpm s1 (Nat.le_refl _) s4

theorem parent_onchain (P : Problem S U α ρ) (starts : List S) (ms : Array (PMotion S U α)) (n : Nat)
    (hI : MInv P starts ms n) (m p : Nat) (mm : PMotion S U α) (hm : ms[m]? = some mm)
    (hp : mm.parent = some p) : OnChain P.step ms p mm.start := by
  rcases hI.seg m mm hm with hr | ⟨u, _, _, _, _, _, _, p', pm, s7, s8, s9⟩
  · simp only [core] at hr; rw [hp] at hr; cases hr.2.2.2.2.2.2
  · have s7 : mm.parent = some p' := s7
    rw [hp] at s7; cases Option.some.inj s7
    rcases s9 with ⟨_, t2, _⟩ | ⟨_, t2⟩
    · have t2 : mm.start = pm.stop := t2
      rw [t2]; exact stop_onchain P starts ms n hI p pm s8
    · exact t2

/-- the hops of `assembleLoop` from ancestor `m` up to a start motion -/
def Hops (P : Problem S U α ρ) (ms : Array (PMotion S U α)) : Nat → List Nat → List Nat → Prop
  | m, [], [] => ∃ mm, ms[m]? = some mm ∧ mm.parent = none
  | m, d :: ds, a :: as => ∃ mm p, ms[m]? = some mm ∧ mm.parent = some p ∧ Res P ms mm.start d a ∧ Hops P ms a ds as
  | _, _, _ => False

theorem assembleLoop_spec (P : Problem S U α ρ) (starts : List S) (ms : Array (PMotion S U α)) (n : Nat)
    (hI : MInv P starts ms n) (hclose : ∀ a b, P.close a b = true → a = b) (hrefl : ∀ a, P.close a a = true)
    (hmin : 1 ≤ P.minSteps) :
    ∀ (fuel m : Nat) (durs mpath D M : List Nat), assembleLoop P ms fuel m durs mpath = some (D, M) →
      ∃ ds as, D = durs ++ ds ∧ M = mpath ++ as ∧ Hops P ms m ds as := by
  intro fuel
  induction fuel with
  | zero => intro m durs mpath D M h; simp [assembleLoop] at h
  | succ fuel ih =>
    intro m durs mpath D M h
    simp only [assembleLoop] at h
    cases hm : ms[m]? with
    | none => rw [hm] at h; cases h
    | some mm =>
      rw [hm] at h
      simp only at h
      cases hp : mm.parent with
      | none =>
        rw [hp] at h
        simp only [Option.some.injEq, Prod.mk.injEq] at h
        exact ⟨[], [], by simp [h.1], by simp [h.2], mm, hm, hp⟩
      | some p =>
        rw [hp] at h
        simp only at h
        cases hf : findDA P ms mm.start ms.size p with
        | none => rw [hf] at h; cases h
        | some da =>
          obtain ⟨d, a⟩ := da
          rw [hf] at h
          simp only at h
          have hres := findDA_sound P starts ms n hI hclose hrefl hmin mm.start ms.size p d a
            (parent_onchain P starts ms n hI m p mm hm hp) hf
          obtain ⟨ds, as, e1, e2, e3⟩ := ih a _ _ D M h
          exact ⟨d :: ds, a :: as, by rw [e1]; simp, by rw [e2]; simp, mm, p, hm, hp, hres, e3⟩

/-- one reported segment: from the start of ancestor `a` for `d` steps of its control to the start of `prev` -/
def hop (ms : Array (PMotion S U α)) (prev a d : Nat) : Option (S × U × Nat) :=
  match ms[prev]?, ms[a]? with
  | some x, some b => b.control.map fun u => (x.start, u, d)
  | _, _ => none

/-- the middle segments, last hop (to the start motion) excluded, nearest first -/
def midL (ms : Array (PMotion S U α)) : Nat → List Nat → List Nat → List (S × U × Nat)
  | prev, d :: d' :: ds, a :: a' :: as => (hop ms prev a d).toList ++ midL ms a (d' :: ds) (a' :: as)
  | _, _, _ => []

def toSegs (l : List (S × U × Nat)) : List (U × Nat × S) := l.map fun x => (x.2.1, x.2.2, x.1)

/-- the last motion index of the walk -/
def lastOf : Nat → List Nat → Nat
  | a, [] => a
  | _, a' :: as => lastOf a' as

theorem hops_replay (P : Problem S U α ρ) (starts : List S) (ms : Array (PMotion S U α)) (n : Nat)
    (hI : MInv P starts ms n) :
    ∀ (ds as : List Nat) (a : Nat) (am : PMotion S U α), ms[a]? = some am → Hops P ms a ds as →
      ∃ root, ms[lastOf a as]? = some root ∧ root.stop ∈ starts ∧ P.valid root.stop = true ∧
        ReplayOK P.step P.valid root.stop (toSegs (midL ms a ds as).reverse) ∧
        endState root.stop (toSegs (midL ms a ds as).reverse) = am.start := by
  intro ds
  induction ds with
  | nil =>
    intro as a am ha h
    cases as with
    | cons _ _ => exact absurd h (by simp [Hops])
    | nil =>
      obtain ⟨mm, h1, h2⟩ := h
      rw [ha] at h1; cases Option.some.inj h1
      rcases hI.seg a am ha with hr | ⟨_, _, _, _, _, _, _, p, _, s7, _⟩
      · simp only [core] at hr
        refine ⟨am, ha, by rw [← hr.2.2.2.1]; exact hr.2.2.2.2.1, by rw [← hr.2.2.2.1]; exact hr.2.2.2.2.2.1, ?_, ?_⟩
        · simp [midL, toSegs, ReplayOK]
        · simp only [midL, toSegs, List.reverse_nil, List.map_nil, endState]; exact hr.2.2.2.1.symm
      · have s7 : am.parent = some p := s7
        rw [h2] at s7; cases s7
  | cons d ds ih =>
    intro as a am ha h
    cases as with
    | nil => exact absurd h (by simp [Hops])
    | cons a' as =>
      obtain ⟨mm, p, h1, h2, hres, hrest⟩ := h
      rw [ha] at h1; cases Option.some.inj h1
      obtain ⟨a'm, ha', hr'⟩ := hres
      obtain ⟨root, r1, r2, r3, r4, r5⟩ := ih as a' a'm ha' hrest
      refine ⟨root, r1, r2, r3, ?_⟩
      cases ds with
      | nil =>
        cases as with
        | cons _ _ => exact absurd hrest (by simp [Hops])
        | nil =>
          -- `a'` is the start motion: `am.start` is its state
          obtain ⟨mm', e1, e2⟩ := hrest
          rw [ha'] at e1; cases Option.some.inj e1
          have hroot : a'm.control = none := by
            rcases hI.seg a' a'm ha' with hr | ⟨_, _, _, _, _, _, _, p', _, s7, _⟩
            · exact hr.1
            · have s7 : a'm.parent = some p' := s7
              rw [e2] at s7; cases s7
          have hst : am.start = a'm.stop := by
            rcases hr' with ⟨_, _, c⟩ | ⟨u, c, _⟩
            · exact c
            · rw [hroot] at c; cases c
          have : lastOf a' [] = a' := rfl
          rw [this, ha'] at r1; cases Option.some.inj r1
          refine ⟨by simp [midL, toSegs, ReplayOK], ?_⟩
          simp only [midL, toSegs, List.reverse_nil, List.map_nil, endState]; exact hst.symm
      | cons d' ds' =>
        cases as with
        | nil => exact absurd hrest (by simp [Hops])
        | cons a'' as' =>
          -- `a'` is a segment
          obtain ⟨mm', p', e1, e2, _, _⟩ := hrest
          rw [ha'] at e1; cases Option.some.inj e1
          obtain ⟨u, hu, hst, hval⟩ : ∃ u, a'm.control = some u ∧ am.start = propagate P.step a'm.start u d ∧
              ∀ j, 1 ≤ j → j ≤ d → P.valid (propagate P.step a'm.start u j) = true := by
            rcases hr' with ⟨c, _, _⟩ | ⟨u, c1, c2, c3⟩
            · rcases hI.seg a' a'm ha' with hr | ⟨u, s1, _⟩
              · simp only [core] at hr; rw [e2] at hr; cases hr.2.2.2.2.2.2
              · have s1 : a'm.control = some u := s1
                rw [c] at s1; cases s1
            · exact ⟨u, c1, c2, c3⟩
          have hmid : midL ms a (d :: d' :: ds') (a' :: a'' :: as') =
              [(am.start, u, d)] ++ midL ms a' (d' :: ds') (a'' :: as') := by
            simp only [midL, hop, ha, ha', hu, Option.map_some, Option.toList_some]
          rw [hmid]
          simp only [List.reverse_append, List.reverse_cons, List.reverse_nil, List.nil_append, toSegs,
            List.map_append, List.map_cons, List.map_nil]
          have r4' : ReplayOK P.step P.valid root.stop
              (List.map (fun x => (x.2.1, x.2.2, x.1)) (midL ms a' (d' :: ds') (a'' :: as')).reverse) := r4
          have r5' : endState root.stop
              (List.map (fun x => (x.2.1, x.2.2, x.1)) (midL ms a' (d' :: ds') (a'' :: as')).reverse) = a'm.start := r5
          refine ⟨?_, ?_⟩
          · rw [replayOK_append]
            refine ⟨r4', ?_⟩
            rw [r5']
            exact ⟨hst.symm, hval, trivial⟩
          · rw [endState_append, r5']; rfl

/-! ## the index arithmetic of `assemble` -/

/-- the segment `assemble` builds for index `i` of `(mpath, durs)` -/
def segAt (ms : Array (PMotion S U α)) (M D : List Nat) (i : Nat) : Option (S × U × Nat) :=
  match M[i - 1]? >>= (ms[·]?), M[i]? >>= (ms[·]?), D[i]? with
  | some a, some b, some d => b.control.map fun u => (a.start, u, d)
  | _, _, _ => none

theorem filter_mid : ∀ (m b : Nat), (List.range m).filter (fun i => decide (0 < i) && decide (i + 1 < b)) =
    List.range' 1 (min m (b - 1) - 1) := by
  intro m
  induction m with
  | zero => intro b; simp
  | succ m ih =>
    intro b
    rw [List.range_succ, List.filter_append, ih b]
    by_cases hc : 0 < m ∧ m + 1 < b
    · have : List.filter (fun i => decide (0 < i) && decide (i + 1 < b)) [m] = [m] := by simp [hc.1, hc.2]
      rw [this]
      have e1 : min m (b - 1) - 1 = m - 1 := by omega
      have e2 : min (m + 1) (b - 1) - 1 = (m - 1) + 1 := by omega
      rw [e1, e2, List.range'_concat]
      congr 2; omega
    · have : List.filter (fun i => decide (0 < i) && decide (i + 1 < b)) [m] = [] := by
        simp only [List.filter_cons, List.filter_nil]
        have : (decide (0 < m) && decide (m + 1 < b)) = false := by
          simp only [Bool.and_eq_false_iff, decide_eq_false_iff_not]
          by_cases h0 : 0 < m
          · exact Or.inr (fun h => hc ⟨h0, h⟩)
          · exact Or.inl h0
        rw [this]; rfl
      rw [this, List.append_nil]
      congr 1; omega

theorem segAt_shift (ms : Array (PMotion S U α)) (x y : Nat) (M D : List Nat) (i : Nat) (hi : 1 ≤ i) :
    segAt ms (x :: M) (y :: D) (i + 1) = segAt ms M D i := by
  obtain ⟨j, rfl⟩ : ∃ j, i = j + 1 := ⟨i - 1, by omega⟩
  simp [segAt]

theorem segAt_one (ms : Array (PMotion S U α)) (a0 a1 d0 d1 : Nat) (M D : List Nat) :
    segAt ms (a0 :: a1 :: M) (d0 :: d1 :: D) 1 = hop ms a0 a1 d1 := by
  simp only [segAt, hop, Nat.sub_self, List.getElem?_cons_zero, List.getElem?_cons_succ, Option.bind_eq_bind,
    Option.bind_some]
  cases ms[a0]? <;> cases ms[a1]? <;> rfl

theorem range'_shift : ∀ (n s : Nat), List.range' (s + 1) n = (List.range' s n).map (· + 1) := by
  intro n
  induction n with
  | zero => intro s; rfl
  | succ n ih => intro s; simp only [List.range'_succ, List.map_cons, ih (s + 1)]

theorem filterMap_congr' {β γ : Type} (f g : β → Option γ) : ∀ (l : List β), (∀ x ∈ l, f x = g x) →
    l.filterMap f = l.filterMap g := by
  intro l
  induction l with
  | nil => intro _; rfl
  | cons x l ih =>
    intro h
    rw [List.filterMap_cons, List.filterMap_cons, h x (List.mem_cons_self ..),
      ih (fun y hy => h y (List.mem_cons_of_mem _ hy))]

theorem midL_eq (ms : Array (PMotion S U α)) :
    ∀ (as ds : List Nat) (a0 d0 : Nat), as.length = ds.length →
      (List.range' 1 (as.length - 1)).filterMap (segAt ms (a0 :: as) (d0 :: ds)) = midL ms a0 ds as := by
  intro as
  induction as with
  | nil => intro ds a0 d0 h; cases ds <;> simp [midL]
  | cons a1 as ih =>
    intro ds a0 d0 h
    cases ds with
    | nil => simp at h
    | cons d1 ds =>
      cases as with
      | nil =>
        cases ds with
        | nil => simp [midL]
        | cons _ _ => simp at h
      | cons a2 as' =>
        cases ds with
        | nil => simp at h
        | cons d2 ds' =>
          have hlen : (a2 :: as').length = (d2 :: ds').length := by simpa using h
          have e : (a1 :: a2 :: as').length - 1 = ((a2 :: as').length - 1) + 1 := by simp
          rw [e, List.range'_succ, List.filterMap_cons, segAt_one]
          have hshift : List.range' (1 + 1) ((a2 :: as').length - 1) =
              (List.range' 1 ((a2 :: as').length - 1)).map (· + 1) := range'_shift _ 1
          have hrest : List.filterMap (segAt ms (a0 :: a1 :: a2 :: as') (d0 :: d1 :: d2 :: ds'))
              (List.range' (1 + 1) ((a2 :: as').length - 1)) = midL ms a1 (d2 :: ds') (a2 :: as') := by
            rw [hshift, List.filterMap_map, ← ih (d2 :: ds') a1 d1 hlen]
            apply filterMap_congr'
            intro i hi
            have : 1 ≤ i := (List.mem_range'_1.mp hi).1
            exact segAt_shift ms a0 d0 _ _ i this
          rw [hrest]
          simp only [midL]
          cases hop ms a0 a1 d1 <;> rfl

theorem hops_len (P : Problem S U α ρ) (ms : Array (PMotion S U α)) :
    ∀ (ds as : List Nat) (a : Nat), Hops P ms a ds as → as.length = ds.length := by
  intro ds
  induction ds with
  | nil => intro as a h; cases as with
    | nil => rfl
    | cons _ _ => exact absurd h (by simp [Hops])
  | cons d ds ih => intro as a h; cases as with
    | nil => exact absurd h (by simp [Hops])
    | cons a' as =>
      obtain ⟨_, _, _, _, _, h'⟩ := h
      simp [ih as a' h']

theorem getLast_lastOf : ∀ (as : List Nat) (a : Nat), (a :: as).getLast? = some (lastOf a as) := by
  intro as
  induction as with
  | nil => intro a; rfl
  | cons a' as ih => intro a; rw [List.getLast?_cons_cons]; exact ih a'

/-- `assemble` with the per-index segment named (`assemble_eq` is `rfl`) -/
def assemble' (P : Problem S U α ρ) (ms : Array (PMotion S U α)) (last : Nat) : Option (Path S U) :=
  match ms[last]? with
  | none => none
  | some lm =>
    match findDA P ms lm.stop ms.size last with
    | none => none
    | some (d0, a0) =>
      match assembleLoop P ms ms.size a0 [d0] [a0] with
      | none => none
      | some (durs, mpath) =>
        let n := mpath.length
        match mpath.getLast? >>= (ms[·]?) with
        | none => none
        | some root =>
          let mids := ((List.range n).filter fun i => 0 < i && i + 1 < n).reverse
          let seg := mids.filterMap (segAt ms mpath durs)
          let lastSeg := match ms[a0]? >>= (·.control) with
            | some u => [(lm.stop, u, d0)]
            | none => []
          let all := seg ++ lastSeg
          some { states := root.stop :: all.map (·.1), controls := all.map (·.2.1), steps := all.map (·.2.2) }

theorem assemble_eq (P : Problem S U α ρ) (ms : Array (PMotion S U α)) (last : Nat) :
    assemble P ms last = assemble' P ms last := rfl

theorem path_ofSegs (s0 : S) (all : List (S × U × Nat)) :
    ({ states := s0 :: all.map (·.1), controls := all.map (·.2.1), steps := all.map (·.2.2) } : Path S U) =
      ofSegs s0 (toSegs all) := by
  simp [ofSegs, toSegs, List.map_map, Function.comp_def]

theorem assemble_spec (P : Problem S U α ρ) (starts : List S) (ms : Array (PMotion S U α)) (n : Nat)
    (hI : MInv P starts ms n) (hclose : ∀ a b, P.close a b = true → a = b) (hrefl : ∀ a, P.close a a = true)
    (hmin : 1 ≤ P.minSteps) (last : Nat) (p : Path S U) (h : assemble P ms last = some p) :
    ∃ s0 sl lm, p = ofSegs s0 sl ∧ s0 ∈ starts ∧ P.valid s0 = true ∧ ReplayOK P.step P.valid s0 sl ∧
      ms[last]? = some lm ∧ endState s0 sl = lm.stop := by
  rw [assemble_eq] at h
  unfold assemble' at h
  cases hl : ms[last]? with
  | none => rw [hl] at h; cases h
  | some lm =>
    rw [hl] at h
    simp only at h
    cases hf : findDA P ms lm.stop ms.size last with
    | none => rw [hf] at h; cases h
    | some da =>
      obtain ⟨d0, a0⟩ := da
      rw [hf] at h
      simp only at h
      have hres := findDA_sound P starts ms n hI hclose hrefl hmin lm.stop ms.size last d0 a0
        (stop_onchain P starts ms n hI last lm hl) hf
      cases hal : assembleLoop P ms ms.size a0 [d0] [a0] with
      | none => rw [hal] at h; cases h
      | some DM =>
        obtain ⟨D, M⟩ := DM
        rw [hal] at h
        simp only at h
        obtain ⟨ds, as, e1, e2, hops⟩ := assembleLoop_spec P starts ms n hI hclose hrefl hmin ms.size a0 _ _ D M hal
        have e1 : D = d0 :: ds := by rw [e1]; rfl
        have e2 : M = a0 :: as := by rw [e2]; rfl
        subst e1 e2
        obtain ⟨a0m, ha0, hr0⟩ := hres
        obtain ⟨root, r1, r2, r3, r4, r5⟩ := hops_replay P starts ms n hI ds as a0 a0m ha0 hops
        rw [getLast_lastOf] at h
        simp only [Option.bind_eq_bind, Option.bind_some, r1] at h
        have hlen := hops_len P ms ds as a0 hops
        have hseg : List.filterMap (segAt ms (a0 :: as) (d0 :: ds))
            (List.filter (fun i => decide (0 < i) && decide (i + 1 < (a0 :: as).length))
              (List.range (a0 :: as).length)).reverse = (midL ms a0 ds as).reverse := by
          rw [filter_mid, List.filterMap_reverse]
          have : min (a0 :: as).length ((a0 :: as).length - 1) - 1 = as.length - 1 := by
            simp only [List.length_cons]; omega
          rw [this, midL_eq ms as ds a0 d0 hlen]
        rw [hseg, ha0] at h
        simp only [Option.bind_some] at h
        rw [path_ofSegs] at h
        have hp := (Option.some.inj h).symm
        refine ⟨root.stop, _, lm, hp, r2, r3, ?_, rfl, ?_⟩
        · rcases hr0 with ⟨c, _, _⟩ | ⟨u, c1, c2, c3⟩
          · rw [c]; simp only [List.append_nil]; exact r4
          · rw [c1]
            simp only [toSegs, List.map_append, List.map_cons, List.map_nil]
            rw [replayOK_append]
            refine ⟨r4, ?_⟩
            have r5' : endState root.stop (List.map (fun x => (x.2.1, x.2.2, x.1)) (midL ms a0 ds as).reverse) = a0m.start := r5
            rw [r5']
            exact ⟨c2.symm, c3, trivial⟩
        · rcases hr0 with ⟨c, c2, c3⟩ | ⟨u, c1, c2, c3⟩
          · rw [c]; simp only [List.append_nil]
            rw [r5]
            -- the chain top is a start motion: `lm.stop` is its state
            rcases hI.seg a0 a0m ha0 with hr | ⟨u, s1, _⟩
            · simp only [core] at hr; rw [hr.2.2.2.1, c3]
            · have s1 : a0m.control = some u := s1
              rw [c] at s1; cases s1
          · rw [c1]
            simp only [toSegs, List.map_append, List.map_cons, List.map_nil]
            rw [endState_append]; rfl

theorem solve_path (P : Problem S U α ρ) (g : ρ) (starts : List S) (draws : List (Draw S U)) (p : Path S U)
    (h : (solve P g starts draws).path = some p) :
    ∃ l, (solve P g starts draws).final.lastGoal = some l ∧
      assemble P (solve P g starts draws).final.motions l = some p := by
  unfold solve at h ⊢
  simp only at h ⊢
  split at h
  · cases h
  · rename_i hsz
    rw [if_neg hsz]
    split at h
    · cases h
    · rename_i l hl
      simp only [hl]
      exact ⟨l, rfl, h⟩

/-! ## a later `solve()` on the same planner state -/

theorem segOK_mono (P : Problem S U α ρ) (starts starts' : List S) (hsub : ∀ s ∈ starts, s ∈ starts')
    (ms : Array (PMotion S U α)) (k : Core S U) (h : SegOK P starts ms k) : SegOK P starts' ms k := by
  rcases h with ⟨a, b, c, d, e, f, g⟩ | h
  · exact Or.inl ⟨a, b, c, d, hsub _ e, f, g⟩
  · exact Or.inr h

theorem good_mono (P : Problem S U α ρ) (starts starts' : List S) (hsub : ∀ s ∈ starts, s ∈ starts')
    (st : St S U α ρ) (h : Good P starts st) : Good P starts' st :=
  ⟨fun q m hm => segOK_mono P starts starts' hsub _ _ (h.seg q m hm), h.fresh⟩

theorem addStart_good (P : Problem S U α ρ) (starts : List S) (st : St S U α ρ) (s : S) (hs : s ∈ starts)
    (hv : P.valid s = true) (h : Good P starts st) : Good P starts (addStart P st s) ∧ Keeps st (addStart P st s) := by
  unfold addStart
  simp only
  generalize hroot : ({ start := s, stop := s, control := none, ctl := none, dur := 0, priority := Num.ofNat 0, parent := none, cell := stab st.cells (P.project s) st.cells.size 0, helem := some st.heap.next, isSplit := false } : PMotion S U α) = rt
  have hsim := sim_push P.step st.motions rt
  refine ⟨⟨?_, ?_⟩, ⟨rfl, rfl, rfl, rfl, ?_⟩⟩
  · intro q mq hq
    have hq' : (st.motions.push rt)[q]? = some mq := hq
    rw [Array.getElem?_push] at hq'
    by_cases e : q = st.motions.size
    · rw [if_pos e] at hq'
      cases Option.some.inj hq'
      subst hroot
      exact Or.inl ⟨rfl, rfl, rfl, rfl, hs, hv, rfl⟩
    · rw [if_neg e] at hq'
      exact segOK_sim P starts _ _ _ hsim (h.seg q mq hq')
  · intro q mq c hq hc
    have hq' : (st.motions.push rt)[q]? = some mq := hq
    rw [Array.getElem?_push] at hq'
    by_cases e : q = st.motions.size
    · rw [if_pos e] at hq'
      cases Option.some.inj hq'
      subst hroot
      cases hc
    · rw [if_neg e] at hq'
      exact h.fresh q mq c hq' hc
  · intro q mq hq
    exact ⟨mq, by
      show (st.motions.push rt)[q]? = some mq
      rw [Array.getElem?_push, if_neg (by have := (Array.getElem?_eq_some_iff.mp hq).1; omega)]; exact hq, rfl⟩

theorem foldStart_good (P : Problem S U α ρ) (starts : List S) :
    ∀ (l : List S) (st : St S U α ρ), (∀ s ∈ l, s ∈ starts ∧ P.valid s = true) → Good P starts st →
      Good P starts (l.foldl (addStart P) st) ∧ Keeps st (l.foldl (addStart P) st) := by
  intro l
  induction l with
  | nil => intro st _ h; exact ⟨h, Keeps.refl st⟩
  | cons s l ih =>
    intro st hl h
    rw [List.foldl_cons]
    have hs := hl s (List.mem_cons_self ..)
    have h1 := addStart_good P starts st s hs.1 hs.2 h
    have h2 := ih _ (fun x hx => hl x (List.mem_cons_of_mem _ hx)) h1.1
    exact ⟨h2.1, h1.2.trans h2.2⟩

/-- the state the fall-through of `resume` starts its loop from satisfies the goal invariant: the flag
recomputed by `headFlags` re-establishes "`isApprox = false` ⇒ goal at `lastGoal`" -/
theorem headFlags_ginv (P : Problem S U α ρ) (st : St S U α ρ)
    (hl : ∀ l, st.lastGoal = some l → ∃ m, st.motions[l]? = some m) :
    GInv P { st with isApprox := (headFlags P st).1, closest := (headFlags P st).2 } := by
  refine ⟨hl, ?_⟩
  intro hap
  have hap : (headFlags P st).1 = false := hap
  show ∃ l m, st.lastGoal = some l ∧ st.motions[l]? = some m ∧ (P.goal m.stop).1 = true ∧
    (headFlags P st).2 = (P.goal m.stop).2
  unfold headFlags at hap ⊢
  cases hlg : st.lastGoal with
  | none => rw [hlg] at hap; cases hap
  | some l =>
    rw [hlg] at hap
    simp only at hap ⊢
    cases hm : st.motions[l]? with
    | none => rw [hm] at hap; cases hap
    | some m =>
      rw [hm] at hap
      simp only at hap ⊢
      exact ⟨l, m, rfl, hm, by simpa using hap, rfl⟩

theorem resume_good (P : Problem S U α ρ) (starts : List S)
    (hrng : ∀ g hi, 1 ≤ hi → 1 ≤ (P.rngInt1 g hi).1 ∧ (P.rngInt1 g hi).1 ≤ hi)
    (st : St S U α ρ) (hG : Good P starts st) (hl : ∀ l, st.lastGoal = some l → ∃ m, st.motions[l]? = some m)
    (flag : Bool) (newStarts : List S) (draws : List (Draw S U)) :
    Good P (starts ++ newStarts) (resume P st flag newStarts draws).final ∧
    (∀ l, (resume P st flag newStarts draws).final.lastGoal = some l →
      ∃ m, (resume P st flag newStarts draws).final.motions[l]? = some m) ∧
    ((resume P st flag newStarts draws).status = .exact →
      ∃ l m, (resume P st flag newStarts draws).final.lastGoal = some l ∧
        (resume P st flag newStarts draws).final.motions[l]? = some m ∧ (P.goal m.stop).1 = true) ∧
    (∀ p, (resume P st flag newStarts draws).path = some p →
      ∃ l, (resume P st flag newStarts draws).final.lastGoal = some l ∧
        assemble P (resume P st flag newStarts draws).final.motions l = some p) := by
  have hG' : Good P (starts ++ newStarts) st := good_mono P starts _ (fun s hs => List.mem_append_left _ hs) st hG
  have hg0 := headFlags_ginv P st hl
  unfold resume
  simp only
  by_cases hc : (st.lastGoal.isSome && !(headFlags P st).1 && flag) = true
  · rw [if_pos hc]
    refine ⟨hG', hl, fun _ => ?_, (fun p hp => by cases hp)⟩
    have hf : (headFlags P st).1 = false := by
      simp only [Bool.and_eq_true, Bool.not_eq_eq_eq_not, Bool.not_true] at hc; exact hc.1.2
    obtain ⟨l, m, a, b, c, _⟩ := hg0.2 hf
    exact ⟨l, m, a, b, c⟩
  · rw [if_neg hc]
    have hf := foldStart_good P (starts ++ newStarts) (newStarts.filter P.valid)
      { st with isApprox := (headFlags P st).1, closest := (headFlags P st).2 }
      (fun s hs => ⟨List.mem_append_right _ (List.mem_filter.mp hs).1, (List.mem_filter.mp hs).2⟩) hG'
    have hg1 := ginv_keeps P _ _ hf.2 hg0
    have hr := run_good P (starts ++ newStarts) hrng draws _ hf.1 hg1
    split
    · exact ⟨hf.1, hg1.1, (fun h => by cases h), (fun p hp => by cases hp)⟩
    · split
      · exact ⟨hr.1, hr.2.1, (fun h => by cases h), (fun p hp => by cases hp)⟩
      · rename_i l hlg
        refine ⟨hr.1, hr.2.1, ?_, fun p hp => ⟨l, hlg, hp⟩⟩
        intro hst
        have hap : (run P ((newStarts.filter P.valid).foldl (addStart P) { st with isApprox := (headFlags P st).1, closest := (headFlags P st).2 }) draws).isApprox = false := by
          cases hap : (run P ((newStarts.filter P.valid).foldl (addStart P) { st with isApprox := (headFlags P st).1, closest := (headFlags P st).2 }) draws).isApprox with
          | false => rfl
          | true => rw [hap] at hst; cases hst
        obtain ⟨l', m, a, b, c, _⟩ := hr.2.2 hap
        exact ⟨l', m, a, b, c⟩

/-- states reachable by `solve` followed by any finite number of later `solve()` calls; the list is the
set of start states handed out so far -/
inductive Reach (P : Problem S U α ρ) : List S → St S U α ρ → Prop
  | first (g : ρ) (starts : List S) (draws : List (Draw S U)) : Reach P starts (solve P g starts draws).final
  | again {starts : List S} {st : St S U α ρ} (flag : Bool) (newStarts : List S) (draws : List (Draw S U)) :
      Reach P starts st → Reach P (starts ++ newStarts) (resume P st flag newStarts draws).final

theorem reach_good (P : Problem S U α ρ)
    (hrng : ∀ g hi, 1 ≤ hi → 1 ≤ (P.rngInt1 g hi).1 ∧ (P.rngInt1 g hi).1 ≤ hi)
    (starts : List S) (st : St S U α ρ) (h : Reach P starts st) :
    Good P starts st ∧ ∀ l, st.lastGoal = some l → ∃ m, st.motions[l]? = some m := by
  induction h with
  | first g starts draws =>
    have := solve_good P hrng g starts draws
    exact ⟨this.1, this.2.1⟩
  | again flag newStarts draws _ ih =>
    have := resume_good P _ hrng _ ih.1 ih.2 flag newStarts draws
    exact ⟨this.1, this.2.1⟩

/-- the early return and the re-publication after the problem definition was cleared -/
theorem resume_early (P : Problem S U α ρ) (st : St S U α ρ) (l : Nat) (m : PMotion S U α)
    (hl : st.lastGoal = some l) (hm : st.motions[l]? = some m) (hg : (P.goal m.stop).1 = true)
    (newStarts : List S) (draws : List (Draw S U)) :
    ((resume P st true newStarts draws).path = none ∧ (resume P st true newStarts draws).status = .exact ∧
      (resume P st true newStarts draws).final = st) ∧
    ((resume P st false [] []).path = assemble P st.motions l ∧ (resume P st false [] []).status = .exact) := by
  have hf : headFlags P st = (false, (P.goal m.stop).2) := by
    unfold headFlags; rw [hl]; simp only; rw [hm]; simp only [hg, Bool.not_true]
  have hsz : st.motions.size ≠ 0 := by
    have := (Array.getElem?_eq_some_iff.mp hm).1; omega
  constructor
  · simp [resume, hf, hl]
  · simp [resume, hf, hl, run, hsz]

/-! ## `init` is `addStart` on the single-leaf BSP -/

theorem stab_leaf (cells : Array (Cell α)) (proj : Array α) (cl : Cell α) (h0 : cells[0]? = some cl)
    (hk : cl.kids = none) : stab cells proj cells.size 0 = 0 := by
  have hsz : 0 < cells.size := (Array.getElem?_eq_some_iff.mp h0).1
  obtain ⟨k, hk'⟩ : ∃ k, cells.size = k + 1 := ⟨cells.size - 1, by omega⟩
  rw [hk']
  simp only [stab, h0, hk]

theorem init_eq_addStart (P : Problem S U α ρ) (g : ρ) (starts : List S) :
    init P g starts = (starts.filter P.valid).foldl (addStart P)
      { motions := #[], cells := #[{ volume := Num.ofNat 1, splitDim := 0, splitValue := Num.ofNat 0, kids := none, lo := P.lo, hi := P.hi, motions := [] }], heap := {}, rng := g, iteration := 1, nextCtl := 0, lastGoal := none, closest := P.inf, isApprox := true } := by
  unfold init
  have key : ∀ (l : List S) (st : St S U α ρ), (∃ cl, st.cells[0]? = some cl ∧ cl.kids = none) →
      l.foldl (fun st s =>
        let i := st.motions.size
        let m : PMotion S U α :=
          { start := s, stop := s, control := none, ctl := none, dur := 0, priority := Num.ofNat 0, parent := none, cell := 0, helem := some st.heap.next, isSplit := false }
        let st1 := { st with motions := st.motions.push m, cells := st.cells.modify 0 fun cl => { cl with motions := cl.motions ++ [i] } }
        { st1 with heap := st1.heap.insert klt (score st1 m, i) }) st = l.foldl (addStart P) st := by
    intro l
    induction l with
    | nil => intro st _; rfl
    | cons s l ih =>
      intro st hinv
      obtain ⟨cl, h0, hk⟩ := hinv
      rw [List.foldl_cons, List.foldl_cons]
      have hstep : addStart P st s =
          { st with motions := st.motions.push { start := s, stop := s, control := none, ctl := none, dur := 0, priority := Num.ofNat 0, parent := none, cell := 0, helem := some st.heap.next, isSplit := false }, cells := st.cells.modify 0 fun cl => { cl with motions := cl.motions ++ [st.motions.size] }, heap := ({ st with motions := st.motions.push { start := s, stop := s, control := none, ctl := none, dur := 0, priority := Num.ofNat 0, parent := none, cell := 0, helem := some st.heap.next, isSplit := false }, cells := st.cells.modify 0 fun cl => { cl with motions := cl.motions ++ [st.motions.size] } } : St S U α ρ).heap.insert klt (score { st with motions := st.motions.push { start := s, stop := s, control := none, ctl := none, dur := 0, priority := Num.ofNat 0, parent := none, cell := 0, helem := some st.heap.next, isSplit := false }, cells := st.cells.modify 0 fun cl => { cl with motions := cl.motions ++ [st.motions.size] } } { start := s, stop := s, control := none, ctl := none, dur := 0, priority := Num.ofNat 0, parent := none, cell := 0, helem := some st.heap.next, isSplit := false }, st.motions.size) } := by
        unfold addStart
        simp only [stab_leaf st.cells (P.project s) cl h0 hk]
      rw [hstep]
      apply ih
      refine ⟨{ cl with motions := cl.motions ++ [st.motions.size] }, ?_, hk⟩
      show (st.cells.modify 0 _)[0]? = _
      rw [Array.getElem?_modify, if_pos rfl, h0]; rfl
  exact key _ _ ⟨_, rfl, rfl⟩

end OmplModel.CPDST
