import OmplModel.Proofs.SpaceInterpMobius
import OmplModel.Proofs.SpaceInterpKlein
/-!
C07, Mobius strip and Klein bottle over ℝ, away from the seam (cylinder branch): exact
re-parameterisation.  The second leg stays in the cylinder branch because `|Δu|` only shrinks.
-/
open scoped OmplModel.SpaceInterp.RealNum
attribute [-instance] OmplModel.Num.instOfNat

namespace OmplModel.SpaceInterp
open OmplModel Real RealNum

theorem abs_sub_lerp_to {a b s c : ℝ} (h : |b - a| ≤ c) (hs0 : 0 ≤ s) (hs1 : s ≤ 1) :
    |b - (a + (b - a) * s)| ≤ c := by
  have e : b - (a + (b - a) * s) = (b - a) * (1 - s) := by ring
  rw [e, abs_mul, abs_of_nonneg (sub_nonneg.mpr hs1)]
  calc |b - a| * (1 - s) ≤ |b - a| * 1 :=
        mul_le_mul_of_nonneg_left (by linarith) (abs_nonneg _)
    _ ≤ c := by linarith

theorem mobiusInterp_reparam_cyl {u1 v1 u2 v2 s u : ℝ} (hu1 : -π ≤ u1) (hu1' : u1 < π)
    (hu2 : -π ≤ u2) (hu2' : u2 < π) (hcyl : |u2 - u1| ≤ π)
    (hs0 : 0 ≤ s) (hs1 : s ≤ 1) (hu0 : 0 ≤ u) (hu1'' : u ≤ 1) :
    mobiusInterp so2Interp (mobiusInterp so2Interp u1 v1 u2 v2 s).1
        (mobiusInterp so2Interp u1 v1 u2 v2 s).2 u2 v2 u
      = mobiusInterp so2Interp u1 v1 u2 v2 (s + (1 - s) * u) := by
  rw [mobiusInterp_short v1 v2 s hcyl, mobiusInterp_short v1 v2 _ hcyl]
  have h' : |u2 - so2Interp u1 u2 s| ≤ π := by
    rw [so2Interp_short s hcyl]; exact abs_sub_lerp_to hcyl hs0 hs1
  rw [mobiusInterp_short _ _ _ h', so2Interp_reparam hu1 hu1' hu2 hu2' hs0 hs1 hu0 hu1'',
    lerp_reparam]

theorem kleinInterp_reparam_cyl {u1 v1 u2 v2 s u : ℝ} (hv1 : -π ≤ v1) (hv1' : v1 < π)
    (hv2 : -π ≤ v2) (hv2' : v2 < π) (hcyl : |u2 - u1| ≤ 1 / 2 * π)
    (hs0 : 0 ≤ s) (hs1 : s ≤ 1) (hu0 : 0 ≤ u) (hu1 : u ≤ 1) :
    kleinInterp so2Interp so2Wrap (kleinInterp so2Interp so2Wrap u1 v1 u2 v2 s).1
        (kleinInterp so2Interp so2Wrap u1 v1 u2 v2 s).2 u2 v2 u
      = kleinInterp so2Interp so2Wrap u1 v1 u2 v2 (s + (1 - s) * u) := by
  rw [kleinInterp_short v1 v2 s hcyl, kleinInterp_short v1 v2 _ hcyl]
  have h' : |u2 - lerp u1 u2 s| ≤ 1 / 2 * π := by
    rw [lerp_eq]; exact abs_sub_lerp_to hcyl hs0 hs1
  rw [kleinInterp_short _ _ _ h', so2Interp_reparam hv1 hv1' hv2 hv2' hs0 hs1 hu0 hu1,
    lerp_reparam]

end OmplModel.SpaceInterp
