import OmplModel.Model.PathOps
/-! F173 witness: with the FORMER pricing of the shortcut (end points only) a non-additive objective makes
`ropeShortcutPath` take the same shortcut for ever; with the tree's pricing (by the densified pieces) it returns. -/
namespace OmplModel.PathOps

/-- points on a line; the state 2 lies in an expensive zone (a motion touching it costs 10 extra: an end-point objective,
not additive along interpolated states); a chord of length ≥ 4 is densified by its midpoint; the last state 5 can only be
reached from 4 -/
def f173Env (pieces : Bool) : RopeEnv Nat Nat :=
  let motion : Nat → Nat → Nat := fun a b => (if a = 2 ∨ b = 2 then 10 else 0) + ((a - b) + (b - a))
  { cm := fun a b => b ≠ 5 ∨ a = 4
    nInter := fun a b => if (a - b) + (b - a) ≥ 4 then 1 else 0
    interpK := fun a b _ _ => (a + b) / 2
    identity := 0
    combine := (· + ·)
    motion := motion
    subtract := (· - ·)
    better := fun a b => decide (a < b)
    eqCost := 1
    chord := fun a b => if pieces ∧ (a - b) + (b - a) ≥ 4 then motion a ((a + b) / 2) + motion ((a + b) / 2) b else motion a b }

/-- former pricing: 40 outer iterations are not enough (and no number is: the vector is `[0, 2, 4, 5]` again after every
shortcut); tree's pricing: returns unchanged -/
theorem rope_endpoint_pricing_never_returns :
    (∃ out r oob, ropeShortcutPath (f173Env false) 40 [0, 2, 4, 5] = some (out, r, oob, true)) ∧
    ropeShortcutPath (f173Env true) 40 [0, 2, 4, 5] = some ([0, 2, 4, 5], false, false, false) := by
  constructor
  · exact ⟨[0, 2, 4, 5], true, false, by decide⟩
  · decide

end OmplModel.PathOps
