import OmplModel.Model.PlannerProto
/-!
Helper lemmas for C03 (protocol layer): solution-list ordering, status, start-state consumption, `clear`.
Core Lean only; every statement is arithmetic-free (no law of the distance type `δ` is used).
-/
namespace OmplModel.PlannerProto

variable {σ δ D C : Type}

/-! ## the solution list -/

theorem insertSol_ne_nil (ltD : δ → δ → Bool) (x : Sol σ δ) (l : List (Sol σ δ)) : insertSol ltD x l ≠ [] := by
  cases l with
  | nil => simp [insertSol]
  | cons y r => simp only [insertSol]; split <;> simp

theorem mem_insertSol (ltD : δ → δ → Bool) (x : Sol σ δ) (l : List (Sol σ δ)) : x ∈ insertSol ltD x l := by
  induction l with
  | nil => simp [insertSol]
  | cons y r ih => simp only [insertSol]; split <;> simp [ih]

theorem mem_insertSol_of_mem (ltD : δ → δ → Bool) (x y : Sol σ δ) (l : List (Sol σ δ)) (h : y ∈ l) :
    y ∈ insertSol ltD x l := by
  induction l with
  | nil => cases h
  | cons z r ih =>
    simp only [insertSol]
    split
    · exact List.mem_cons_of_mem _ h
    · rcases List.mem_cons.mp h with rfl | h'
      · exact List.mem_cons_self
      · exact List.mem_cons_of_mem _ (ih h')

theorem length_insertSol (ltD : δ → δ → Bool) (x : Sol σ δ) (l : List (Sol σ δ)) :
    (insertSol ltD x l).length = l.length + 1 := by
  induction l with
  | nil => simp [insertSol]
  | cons y r ih => simp only [insertSol]; split <;> simp [ih]

/-- the minimal ordering lemma: adding a solution either keeps the head or replaces it by a solution that is
strictly better in the problem definition's own `operator<`. -/
theorem insertSol_head (ltD : δ → δ → Bool) (x y : Sol σ δ) (r : List (Sol σ δ)) :
    (insertSol ltD x (y :: r)).head? = some y ∨
      ((insertSol ltD x (y :: r)).head? = some x ∧ Sol.lt ltD x y = true) := by
  simp only [insertSol]
  split
  · right; simp_all
  · left; simp

/-- an exact solution added to any list leaves an exact solution at the head -/
theorem insertSol_exact_head (ltD : δ → δ → Bool) (x : Sol σ δ) (l : List (Sol σ δ)) (hx : x.approx = false) :
    ∃ h, (insertSol ltD x l).head? = some h ∧ h.approx = false := by
  cases l with
  | nil => exact ⟨x, by simp [insertSol], hx⟩
  | cons y r =>
    simp only [insertSol]
    by_cases hy : y.approx = true
    · have : Sol.lt ltD x y = true := by simp [Sol.lt, hx, hy]
      simp only [this, if_true]
      exact ⟨x, rfl, hx⟩
    · split
      · exact ⟨x, rfl, hx⟩
      · exact ⟨y, rfl, by simpa using hy⟩

theorem hasExact_of_head (pd : Pdef σ δ) (h : Sol σ δ) (h1 : pd.sols.head? = some h) (h2 : h.approx = false) :
    pd.hasExactSolution = true := by
  cases hs : pd.sols with
  | nil => simp [hs] at h1
  | cons a r =>
    simp [hs] at h1
    subst h1
    simp [Pdef.hasExactSolution, Pdef.hasSolution, Pdef.hasApproximateSolution, hs, h2]

/-! ## `PlannerInputStates` -/

@[simp] theorem plannerClear_added (pd : Option Nat) : (Pis.plannerClear pd).added = 0 := by
  cases pd <;> simp [Pis.plannerClear, Pis.use]

@[simp] theorem plannerClear_sampled (pd : Option Nat) : (Pis.plannerClear pd).sampledGoals = 0 := by
  cases pd <;> simp [Pis.plannerClear, Pis.use]

@[simp] theorem plannerClear_pdef (pd : Option Nat) : (Pis.plannerClear pd).pdef = pd := by
  cases pd <;> simp [Pis.plannerClear, Pis.use]

/-- the start states the next `solve` will still consume -/
def newStarts (m : M σ δ C) : List (σ × Bool) :=
  match m.pdef with
  | some pd => pd.starts.drop m.pis.added
  | none => []

/-! ## `solve` -/

/-- everything the status clauses need about the epilogue -/
theorem finish_spec (cs : CoreSpec σ δ D C) (P : Params σ δ) (m1 : M σ δ C) (pd : Pdef σ δ) (e12 : List Ev)
    (rm xs : Nat) (r : LoopOut δ C) :
    ((finish cs P m1 pd e12 rm xs r).status = .exact →
        ∃ pd', (finish cs P m1 pd e12 rm xs r).m.pdef = some pd' ∧ pd'.hasExactSolution = true) ∧
    ((finish cs P m1 pd e12 rm xs r).status = .approximate →
        ∃ pd', (finish cs P m1 pd e12 rm xs r).m.pdef = some pd' ∧ pd'.hasSolution = true) ∧
    ((finish cs P m1 pd e12 rm xs r).status = .timeout →
        (finish cs P m1 pd e12 rm xs r).added = [] ∧ (finish cs P m1 pd e12 rm xs r).m.pdef = m1.pdef) ∧
    (finish cs P m1 pd e12 rm xs r).status ≠ .invalidStart ∧ (finish cs P m1 pd e12 rm xs r).status ≠ .noPdef := by
  unfold finish
  split
  · rename_i i a hp
    by_cases hs : r.starved = true <;> cases a <;> simp [hs]
    · obtain ⟨h, h1, h2⟩ := insertSol_exact_head P.ltD
        (⟨cs.pathTo r.core i, false, P.zero, P.pathLen (cs.pathTo r.core i)⟩ : Sol σ δ) pd.sols rfl
      exact hasExact_of_head _ h h1 h2
    · simp [Pdef.hasSolution]
      exact insertSol_ne_nil _ _ _
  · by_cases hs : r.starved = true <;> simp [hs]

theorem solve_spec (cs : CoreSpec σ δ D C) (P : Params σ δ) (m : M σ δ C) (k : Nat) (ds : List D) :
    ((solve cs P m k ds).status = .exact →
        ∃ pd', (solve cs P m k ds).m.pdef = some pd' ∧ pd'.hasExactSolution = true) ∧
    ((solve cs P m k ds).status = .approximate →
        ∃ pd', (solve cs P m k ds).m.pdef = some pd' ∧ pd'.hasSolution = true) ∧
    (((solve cs P m k ds).status = .timeout ∨ (solve cs P m k ds).status = .invalidStart ∨
        (solve cs P m k ds).status = .noPdef) →
        (solve cs P m k ds).added = [] ∧ (solve cs P m k ds).m.pdef = m.pdef) := by
  unfold solve
  split
  · simp
  · rename_i pd hpd
    simp only
    split
    · simp [prologue]
    · have H := finish_spec cs P
        { (prologue cs m pd).1 with log := (prologue cs m pd).1.log ++
            [Ev.alloc (prologue cs m pd).1.next, Ev.alloc ((prologue cs m pd).1.next + 1)] } pd
        ((prologue cs m pd).2 ++ [Ev.alloc (prologue cs m pd).1.next, Ev.alloc ((prologue cs m pd).1.next + 1)])
        (prologue cs m pd).1.next ((prologue cs m pd).1.next + 1)
        (loop cs P.ltD k ds (prologue cs m pd).1.core ⟨none, none, P.inf⟩ ((prologue cs m pd).1.next + 2))
      refine ⟨H.1, H.2.1, ?_⟩
      intro h
      rcases h with h | h | h
      · exact H.2.2.1 h
      · exact absurd h H.2.2.2.1
      · exact absurd h H.2.2.2.2

/-- the top solution of the planner's problem definition -/
def bestOf (m : M σ δ C) : Option (Sol σ δ) := m.pdef.bind (·.sols.head?)

theorem solve_best (cs : CoreSpec σ δ D C) (P : Params σ δ) (m : M σ δ C) (k : Nat) (ds : List D) (b : Sol σ δ)
    (hb : bestOf m = some b) :
    ∃ b', bestOf (solve cs P m k ds).m = some b' ∧ (b' = b ∨ Sol.lt P.ltD b' b = true) := by
  unfold bestOf at hb
  cases hpd : m.pdef with
  | none => simp [hpd] at hb
  | some pd =>
    simp [hpd] at hb
    unfold solve
    simp only [hpd]
    split
    · exact ⟨b, by simp [bestOf, prologue, hpd, hb], Or.inl rfl⟩
    · unfold finish
      split
      · cases hs : pd.sols with
        | nil => simp [hs] at hb
        | cons y r =>
          simp [hs] at hb
          subst hb
          simp only [bestOf, Option.bind]
          rcases insertSol_head P.ltD _ y r with h | ⟨h, hlt⟩
          · exact ⟨y, h, Or.inl rfl⟩
          · exact ⟨_, h, Or.inr hlt⟩
      · exact ⟨b, by simp [bestOf, prologue, hpd, hb], Or.inl rfl⟩

/-- calls on the planner object (and `addStartState`), as opposed to replacing the problem definition or clearing
its solution list -/
def Op.keepsSolutions : Op σ D → Bool
  | .solve .. | .clear | .clearQuery | .getPlannerData | .addStart .. | .destroy => true
  | .setProblemDefinition .. | .setStartGoal .. | .clearSolutionPaths => false

theorem step_best (cs : CoreSpec σ δ D C) (P : Params σ δ) (m : M σ δ C) (op : Op σ D) (hop : op.keepsSolutions = true)
    (b : Sol σ δ) (hb : bestOf m = some b) :
    ∃ b', bestOf (step cs P m op) = some b' ∧ (b' = b ∨ Sol.lt P.ltD b' b = true) := by
  cases op with
  | solve k ds => exact solve_best cs P m k ds b hb
  | clear => exact ⟨b, by simpa [step, clear, bestOf] using hb, Or.inl rfl⟩
  | clearQuery => exact ⟨b, by simpa [step, clear, bestOf] using hb, Or.inl rfl⟩
  | getPlannerData => exact ⟨b, by simpa [step] using hb, Or.inl rfl⟩
  | destroy => exact ⟨b, by simpa [step, bestOf] using hb, Or.inl rfl⟩
  | addStart s v =>
    refine ⟨b, ?_, Or.inl rfl⟩
    unfold bestOf at hb ⊢
    cases hpd : m.pdef with
    | none => simp [hpd] at hb
    | some pd => simpa [step, hpd] using hb
  | setProblemDefinition _ _ => simp [Op.keepsSolutions] at hop
  | setStartGoal _ => simp [Op.keepsSolutions] at hop
  | clearSolutionPaths => simp [Op.keepsSolutions] at hop

theorem clear_spec (cs : CoreSpec σ δ D C) (m : M σ δ C) :
    (clear cs m).core = cs.init ∧ (clear cs m).pis.added = 0 ∧ (clear cs m).pis.sampledGoals = 0 ∧
      (clear cs m).lastGoal = none ∧ (clear cs m).pdef = m.pdef ∧ (clear cs m).next = m.next := by
  simp [clear]

theorem solve_congr (cs : CoreSpec σ δ D C) (P : Params σ δ) (a b : M σ δ C) (k : Nat) (ds : List D)
    (hc : a.core = b.core) (ha : a.pis.added = b.pis.added) (hp : a.pdef = b.pdef) (hn : a.next = b.next)
    (hl : a.lastGoal = b.lastGoal) :
    (solve cs P a k ds).status = (solve cs P b k ds).status ∧
    (solve cs P a k ds).added = (solve cs P b k ds).added ∧
    (solve cs P a k ds).evs = (solve cs P b k ds).evs ∧
    (solve cs P a k ds).evals = (solve cs P b k ds).evals ∧
    (solve cs P a k ds).m.core = (solve cs P b k ds).m.core ∧
    (solve cs P a k ds).m.pdef = (solve cs P b k ds).m.pdef ∧
    (solve cs P a k ds).m.lastGoal = (solve cs P b k ds).m.lastGoal ∧
    (solve cs P a k ds).m.pis.added = (solve cs P b k ds).m.pis.added ∧
    (solve cs P a k ds).m.next = (solve cs P b k ds).m.next := by
  unfold solve
  rw [hp]
  cases hb : b.pdef with
  | none => simp [hc, hl, ha, hn, hp, hb]
  | some pd =>
    have e1 : (prologue cs a pd).1.core = (prologue cs b pd).1.core := by simp [prologue, hc, ha, hn]
    have e2 : (prologue cs a pd).1.next = (prologue cs b pd).1.next := by simp [prologue, hc, ha, hn]
    have e3 : (prologue cs a pd).2 = (prologue cs b pd).2 := by simp [prologue, hc, ha, hn]
    have e4 : (prologue cs a pd).1.pdef = (prologue cs b pd).1.pdef := by simp [prologue, hp]
    have e5 : (prologue cs a pd).1.lastGoal = (prologue cs b pd).1.lastGoal := by simp [prologue, hl]
    have e6 : (prologue cs a pd).1.pis.added = (prologue cs b pd).1.pis.added := by simp [prologue, ha]
    simp only [e1, e2, e3]
    split
    · simp [e1, e2, e4, e5, e6]
    · unfold finish
      split <;> simp [e4, e5, e6]

/-! ## start states -/

/-- after `solve` every start state of the problem definition has been consumed -/
theorem solve_newStarts (cs : CoreSpec σ δ D C) (P : Params σ δ) (m : M σ δ C) (k : Nat) (ds : List D) :
    newStarts (solve cs P m k ds).m = [] := by
  unfold solve
  cases hpd : m.pdef with
  | none => simp [newStarts, hpd]
  | some pd =>
    simp only
    split
    · simp only [newStarts, prologue, hpd]
      exact List.drop_eq_nil_of_le (Nat.le_max_right _ _)
    · unfold finish
      split
      · simp only [newStarts, prologue]
        exact List.drop_eq_nil_of_le (Nat.le_max_right _ _)
      · simp only [newStarts, prologue, hpd]
        exact List.drop_eq_nil_of_le (Nat.le_max_right _ _)

/-- the prologue consumes exactly `newStarts` -/
theorem prologue_consumes (cs : CoreSpec σ δ D C) (m : M σ δ C) (pd : Pdef σ δ) (h : m.pdef = some pd) :
    (prologue cs m pd).1.core = (consumeStarts cs (newStarts m) m.core m.next).1 ∧
    (prologue cs m pd).2 = (consumeStarts cs (newStarts m) m.core m.next).2.2 := by
  simp [prologue, newStarts, h]

theorem consumeStarts_nil (cs : CoreSpec σ δ D C) (c : C) (n : Nat) : consumeStarts cs [] c n = (c, n, []) := rfl

/-- a resumed `solve` (nothing new in the problem definition) adds no root motion and allocates nothing in its
prologue -/
theorem resumed_prologue_noop (cs : CoreSpec σ δ D C) (m : M σ δ C) (pd : Pdef σ δ) (h : m.pdef = some pd)
    (hn : newStarts m = []) :
    (prologue cs m pd).1.core = m.core ∧ (prologue cs m pd).2 = [] ∧ (prologue cs m pd).1.next = m.next := by
  have : pd.starts.drop m.pis.added = [] := by simpa [newStarts, h] using hn
  simp [prologue, this, consumeStarts]

/-- `addStartState` after a solve leaves exactly the new state to be consumed -/
theorem addStart_newStarts (cs : CoreSpec σ δ D C) (P : Params σ δ) (m : M σ δ C) (s : σ) (v : Bool)
    (hp : m.pdef.isSome = true) (hle : ∀ pd, m.pdef = some pd → m.pis.added = pd.starts.length) :
    newStarts (step cs P m (.addStart s v)) = [(s, v)] := by
  cases hpd : m.pdef with
  | none => simp [hpd] at hp
  | some pd =>
    have := hle pd hpd
    simp [step, newStarts, hpd, this]

/-- planner calls other than `solve`/`clear` do not touch the counters -/
theorem getPlannerData_id (cs : CoreSpec σ δ D C) (P : Params σ δ) (m : M σ δ C) :
    step cs P m .getPlannerData = m := rfl

end OmplModel.PlannerProto
