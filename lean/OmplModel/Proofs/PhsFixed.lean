import OmplModel.Proofs.PhsLogic
import OmplModel.Proofs.PhsCap
import OmplModel.Proofs.PhsEdge
/-!
Soundness of the direct informed sampler AS IT IS CODED NOW (`…F`: restore from `allPhsPtrs_`, early
return when no PHS can improve), by reduction to the theorems about the building blocks applied to
`s.restored`.
-/
namespace OmplModel.Phs
open OmplModel
attribute [-instance] Num.instOfNat

namespace PhsFixed
open PhsLogic PhsCap PhsEdge

section generic
variable {α : Type} [Num α] {ρ : Type}

/-- the current update is the old one on the restored sampler -/
theorem updateF_eq (s : Sampler α) (c : α) : s.updateF c = s.restored.update c := rfl

/-- the current update is `updateRestoring` from the sampler's own full list -/
theorem updateF_eq_restoring (s : Sampler α) (c : α) : s.updateF c = s.updateRestoring s.all c := rfl

/-- the current private `sampleUniform`: early return, else the old one on the restored sampler -/
theorem sampleInnerF_eq (s : Sampler α) (inB : List α × ρ → Bool) (fin : Bool) (c : α)
    (ds : List (Draw α ρ)) (cur : List α × ρ) (it : Nat) :
    s.sampleInnerG true true inB fin c ds cur it
      = if fin && (s.restored.update c).cannotImprove c then
          (s.restored.update c, ⟨false, cur, it, ds, false, false⟩)
        else s.restored.sampleInner inB fin c ds cur it := rfl

/-- (a) unfolding of the current public `sampleUniform(statePtr, maxCost)` -/
theorem sample2F_eq (s : Sampler α) (inB : List α × ρ → Bool) (fin : Bool) (c : α)
    (ds : List (Draw α ρ)) (cur : List α × ρ) :
    s.sample2F inB fin c ds cur
      = if fin && (s.restored.update c).cannotImprove c then
          (s.restored.update c, ⟨false, cur, 0, ds, false, false⟩)
        else s.restored.sample2 inB fin c ds cur := rfl

/-- Specification of the current private `sampleUniform` (same seven facts as `sampleInner_spec`,
about the updated restored sampler `s.updateF c`). -/
theorem sampleInnerF_spec (s : Sampler α) (inB : List α × ρ → Bool) (fin : Bool) (c : α)
    (ds : List (Draw α ρ)) (cur : List α × ρ) (it : Nat) :
    ((s.sampleInnerG true true inB fin c ds cur it).2.found = true →
        DirectOk (s.updateF c) inB fin ds (s.sampleInnerG true true inB fin c ds cur it).2.st) ∧
    it ≤ (s.sampleInnerG true true inB fin c ds cur it).2.iters ∧
    (it < s.numIters → (s.sampleInnerG true true inB fin c ds cur it).2.iters ≤ s.numIters) ∧
    ((s.sampleInnerG true true inB fin c ds cur it).2.nullPhs = false →
      (s.sampleInnerG true true inB fin c ds cur it).2.rest.length
        + ((s.sampleInnerG true true inB fin c ds cur it).2.iters - it) = ds.length) ∧
    ((s.sampleInnerG true true inB fin c ds cur it).2.nullPhs = true →
      (s.sampleInnerG true true inB fin c ds cur it).2.rest.length
        + ((s.sampleInnerG true true inB fin c ds cur it).2.iters - it) + 1 = ds.length) ∧
    ((s.sampleInnerG true true inB fin c ds cur it).2.found = true →
      (s.sampleInnerG true true inB fin c ds cur it).2.starved = false ∧
      (s.sampleInnerG true true inB fin c ds cur it).2.nullPhs = false) ∧
    (s.sampleInnerG true true inB fin c ds cur it).2.rest <:+ ds := by
  rw [sampleInnerF_eq]
  split
  · refine ⟨fun h => by simp at h, by simp, fun h => by simp; omega, fun _ => by simp,
      fun h => by simp at h, fun h => by simp at h, List.suffix_refl _⟩
  · exact sampleInner_spec s.restored inB fin c ds cur it

/-- (a) the current two-argument form: the full conclusion of `sample_success_sound`. -/
theorem sample2F_success_sound (s : Sampler α) (inB : List α × ρ → Bool) (fin : Bool) (c : α)
    (ds : List (Draw α ρ)) (cur : List α × ρ)
    (hbase : ∀ d ∈ ds, inB (d.baseInf, d.baseRest) = true)
    (hf : (s.sample2F inB fin c ds cur).2.found = true) :
    inB (s.sample2F inB fin c ds cur).2.st = true ∧
    DirectOk (s.updateF c) inB fin ds (s.sample2F inB fin c ds cur).2.st ∧
    (s.sample2F inB fin c ds cur).2.rest <:+ ds ∧
    (fin = true → (s.sample2F inB fin c ds cur).2.iters ≤ s.numIters ∧
      ds.length ≤ (s.sample2F inB fin c ds cur).2.rest.length + s.numIters) ∧
    (fin = false → ds.length ≤ (s.sample2F inB fin c ds cur).2.rest.length + 1) := by
  rw [sample2F_eq] at hf ⊢
  split at hf
  · simp at hf
  · rename_i hno
    rw [if_neg hno]
    exact sample_success_sound s.restored inB fin c ds cur hbase hf

/-- (a) the early return: when no PHS can improve on the bound, no success and no draw consumed. -/
theorem sample2F_cannotImprove (s : Sampler α) (inB : List α × ρ → Bool) (c : α)
    (ds : List (Draw α ρ)) (cur : List α × ρ) (h : (s.updateF c).cannotImprove c = true) :
    (s.sample2F inB true c ds cur).2.found = false ∧ (s.sample2F inB true c ds cur).2.rest = ds := by
  rw [sample2F_eq, ← updateF_eq, h]
  exact ⟨rfl, rfl⟩

/-- (b) the current three-argument form: a success satisfies `DirectOk` and passed the lower-bound
test on the current `heuristicSolnCost`; suffix and draw-consumption bound as in `sample3_sound`. -/
theorem sample3F_success_sound (s : Sampler α) (inB : List α × ρ → Bool) (fin : Bool) (minC c : α)
    (ds : List (Draw α ρ)) (cur : List α × ρ) :
    (s.sample3F inB fin minC c ds cur).1 = (if fin then s.updateF c else s) ∧
    ((s.sample3F inB fin minC c ds cur).2.found = true →
      DirectOk (s.updateF c) inB fin ds (s.sample3F inB fin minC c ds cur).2.st ∧
      ∃ sc, (if fin then s.updateF c else s).hcostF (s.sample3F inB fin minC c ds cur).2.st.1 = some sc
        ∧ lowerOk minC sc = true) ∧
    (s.sample3F inB fin minC c ds cur).2.rest <:+ ds ∧
    ((s.sample3F inB fin minC c ds cur).2.nullPhs = false →
      ds.length ≤ (s.sample3F inB fin minC c ds cur).2.rest.length + s.numIters) ∧
    ds.length ≤ (s.sample3F inB fin minC c ds cur).2.rest.length + s.numIters + 1 := by
  have h := outer3_spec s.numIters (fun ds cur i => (s.sampleInnerG true true inB fin c ds cur i).2)
    (fun st => (if fin then s.updateF c else s).hcostF st.1) minC
    (DirectOk (s.updateF c) inB fin) (fun _ _ _ hs hp => DirectOk.mono hs hp)
    (fun ds cur i hlt => by
      obtain ⟨_, h2, h3, h4, h5, _, h7⟩ := sampleInnerF_spec s inB fin c ds cur i
      have h3' := h3 hlt
      refine ⟨h2, h3', h7, fun hn => by have := h4 hn; omega, ?_⟩
      cases hn : (s.sampleInnerG true true inB fin c ds cur i).2.nullPhs with
      | false => have := h4 hn; omega
      | true => have := h5 hn; omega)
    (fun ds cur i hf => (sampleInnerF_spec s inB fin c ds cur i).1 hf) ds cur 0
  simp only [Nat.sub_zero] at h
  exact ⟨rfl, h⟩

/-- the untouched fields (incl. the full list) survive any sequence of current updates -/
theorem foldl_updateF_fields : ∀ (cs : List α) (s : Sampler α),
    (cs.foldl (fun s c' => s.updateF c') s).numIters = s.numIters ∧
    (cs.foldl (fun s c' => s.updateF c') s).infMeasure = s.infMeasure ∧
    (cs.foldl (fun s c' => s.updateF c') s).unMeasure = s.unMeasure ∧
    (cs.foldl (fun s c' => s.updateF c') s).spaceMeasure = s.spaceMeasure ∧
    (cs.foldl (fun s c' => s.updateF c') s).all = s.all := by
  intro cs
  induction cs with
  | nil => intro s; exact ⟨rfl, rfl, rfl, rfl, rfl⟩
  | cons c' cs ih =>
    intro s
    rw [List.foldl_cons]
    exact ih (s.updateF c')

/-- (c) **History independence of the current `updatePhsDefinitions`** (arithmetic-free): whatever
bounds were used before, updating to `c` gives the sampler a single update to `c` gives. -/
theorem updateF_history_independent (cs : List α) (s : Sampler α) (c : α) :
    (cs.foldl (fun s c' => s.updateF c') s).updateF c = s.updateF c := by
  obtain ⟨h1, h2, h3, h4, h5⟩ := foldl_updateF_fields cs s
  rw [updateF_eq_restoring, updateF_eq_restoring, h5]
  exact updateRestoring_congr _ _ s.all c h1 h2 h3 h4 h5

/-- the focal sums of the PHSs left by `updLoop` are focal sums of PHSs of the list walked -/
theorem updLoop_foci (c : α) (L : List (Phs α)) :
    ∀ (l done : List (Phs α)) (sz : Nat) (sum : α),
      (∀ q ∈ l, q ∈ L) → (∀ p ∈ done, ∃ q ∈ L, p.f1 = q.f1 ∧ p.f2 = q.f2) →
      ∀ p ∈ (updLoop c l done sz sum).1, ∃ q ∈ L, p.f1 = q.f1 ∧ p.f2 = q.f2 := by
  intro l
  induction l with
  | nil =>
    intro done sz sum _ hdone p hp
    rw [updLoop] at hp
    exact hdone p (List.mem_reverse.1 hp)
  | cons q l ih =>
    intro done sz sum hl hdone
    have hq : q ∈ L := hl q List.mem_cons_self
    have hl' : ∀ q' ∈ l, q' ∈ L := fun q' h => hl q' (List.mem_cons_of_mem _ h)
    have hext : ∀ d : α, ∀ p ∈ q.setC d :: done, ∃ q' ∈ L, p.f1 = q'.f1 ∧ p.f2 = q'.f2 := by
      intro d p hp
      rcases List.mem_cons.1 hp with e | hp'
      · exact ⟨q, hq, by rw [e]; exact ⟨rfl, rfl⟩⟩
      · exact hdone p hp'
    rw [updLoop]
    split
    · exact ih _ _ _ hl' (hext c)
    · split
      · exact ih _ _ _ hl' hdone
      · exact ih _ _ _ hl' (hext q.cmin)

/-- every PHS left by `update` has the focal sums of one of the PHSs before -/
theorem update_phss_pathLength_subset (s : Sampler α) (c : α) :
    ∀ p ∈ (s.update c).phss, ∃ q ∈ s.phss, ∀ x, p.pathLength x = q.pathLength x := by
  intro p hp
  obtain ⟨q, hq, e1, e2⟩ := updLoop_foci c s.phss s.phss [] s.phss.length (Num.ofNat 0)
    (fun _ h => h) (fun _ h => by cases h) p hp
  exact ⟨q, hq, fun x => by rw [Phs.pathLength, Phs.pathLength, e1, e2]⟩

/-- (c) **the point of the early-return fix** (arithmetic-free, NO length or rounding side
condition): with a single start/goal pair whose focal distance is not below the bound, the current
sampler reports no success and consumes no draw. -/
theorem directF_no_success_at_or_below_focal_distance (s : Sampler α) (inB : List α × ρ → Bool)
    (c : α) (ds : List (Draw α ρ)) (cur : List α × ρ) (p : Phs α) (hs : s.all = [p])
    (hc : ¬ p.cmin < c) :
    (s.sample2F inB true c ds cur).2.found = false ∧ (s.sample2F inB true c ds cur).2.rest = ds := by
  have hr : s.restored.phss = [p] := hs
  obtain ⟨hph, _⟩ := update_single_degenerate s.restored p c hr hc
  refine sample2F_cannotImprove s inB c ds cur ?_
  rw [updateF_eq]
  have hc' : ¬ (p.setC p.cmin).cmin < c := hc
  simp [Sampler.cannotImprove, hph, hc']

end generic

/-! ### over `ℝ` -/

/-- (c) a successful current direct sample (finite bound) lies in the bounds, in some PHS of the
updated list, and has heuristic cost below `c` — both for the minimum over the updated working list
and for the current `heuristicSolnCost` (`hcostF`, the minimum over ALL pairs). -/
theorem direct_successF_cost_below {ρ : Type} (s : Sampler ℝ) (inB : List ℝ × ρ → Bool) (c : ℝ)
    (ds : List (Draw ℝ ρ)) (cur : List ℝ × ρ)
    (hbase : ∀ d ∈ ds, inB (d.baseInf, d.baseRest) = true)
    (hall : ∀ p ∈ (s.updateF c).phss, p.c = c)
    (hf : (s.sample2F inB true c ds cur).2.found = true) :
    inB (s.sample2F inB true c ds cur).2.st = true ∧
    (s.updateF c).isInAny (s.sample2F inB true c ds cur).2.st.1 = true ∧
    (∃ h, (s.updateF c).hcost (s.sample2F inB true c ds cur).2.st.1 = some h ∧ h < c) ∧
    ∃ h', s.hcostF (s.sample2F inB true c ds cur).2.st.1 = some h' ∧ h' < c := by
  rw [sample2F_eq] at hf ⊢
  split at hf
  · simp at hf
  · rename_i hno
    rw [if_neg hno]
    obtain ⟨h1, h2, h3⟩ :=
      direct_success_cost_below_retest s.restored inB c ds cur hbase hall hf
    refine ⟨h1, h2, h3, ?_⟩
    -- some PHS of the updated list contains the point; its focal sum is one of `s.all`'s
    have h2' := h2
    rw [Sampler.isInAny] at h2'
    obtain ⟨p, hp, hpin⟩ := List.any_eq_true.1 h2'
    have hlt : p.pathLength (s.restored.sample2 inB true c ds cur).2.st.1 < c := by
      have := of_decide_eq_true hpin
      rwa [hall p hp] at this
    obtain ⟨q, hq, hqe⟩ := update_phss_pathLength_subset s.restored c p hp
    rw [hqe] at hlt
    exact minOf_lt (fun _ _ _ => lt_trans)
      (fun _ _ _ hab hac => lt_of_le_of_lt (not_lt.mp hab) hac) c _
      ⟨_, List.mem_map.2 ⟨q, hq, rfl⟩, hlt⟩

end PhsFixed
end OmplModel.Phs
