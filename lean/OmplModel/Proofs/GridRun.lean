import OmplModel.Proofs.GridUpdateAll
import OmplModel.Proofs.GridOrder
/-!
The invariant holds after every protocol history (induction over the operation list).
-/
namespace OmplModel.Grid
open OmplModel.Heap

/-- a protocol operation is well-formed for a grid of dimension `dim`: new coordinates have `dim` entries.
(`rm`/`upd`/`updAll` address cells by coordinate and do nothing for an absent one.) -/
def Op.valid (dim : Nat) : Op → Prop
  | .new x _ => x.length = dim
  | _ => True

theorem step_inv {cfg : Cfg} {g : GridB} {op : Op} (hv : op.valid cfg.dim) (hi : Inv cfg g) :
    Inv cfg (step cfg g op) := by
  cases op with
  | new x d =>
    show Inv cfg (if has g.cells x then g else newCell cfg g x d)
    split
    · exact hi
    · rename_i h; exact newCell_inv hi hv (by simpa using h)
  | rm x =>
    show Inv cfg (if has g.cells x then (removeCell cfg g x).1 else g)
    split
    · rename_i h; exact removeCell_inv hi h
    · exact hi
  | upd x d => exact update_inv hi
  | updAll chg => exact updateAll_inv hi
  | clear => exact clear_inv hi

theorem run_inv {cfg : Cfg} (ops : List Op) (hv : ∀ op ∈ ops, op.valid cfg.dim) : Inv cfg (run cfg ops) := by
  unfold run
  have : ∀ (ops : List Op) (g : GridB), (∀ op ∈ ops, op.valid cfg.dim) → Inv cfg g →
      Inv cfg (ops.foldl (step cfg) g) := by
    intro ops
    induction ops with
    | nil => intro g _ h; exact h
    | cons op ops ih =>
      intro g hv h
      exact ih _ (fun o ho => hv o (List.mem_cons_of_mem _ ho)) (step_inv (hv op List.mem_cons_self) h)
  exact this ops {} hv (empty_inv cfg)

theorem eq_of_nodup_map {α β} (f : α → β) : ∀ (l : List α), (l.map f).Nodup → ∀ {a b}, a ∈ l → b ∈ l → f a = f b → a = b
  | [], _, _, _, ha, _, _ => by cases ha
  | x :: xs, nd, a, b, ha, hb, hab => by
    have nd' : f x ∉ xs.map f ∧ (xs.map f).Nodup := List.nodup_cons.1 nd
    rcases List.mem_cons.1 ha with rfl | ha' <;> rcases List.mem_cons.1 hb with rfl | hb'
    · rfl
    · exact absurd (List.mem_map.2 ⟨b, hb', hab.symm⟩) nd'.1
    · exact absurd (List.mem_map.2 ⟨a, ha', hab⟩) nd'.1
    · exact eq_of_nodup_map f xs nd'.2 ha' hb' hab

/-- ids of the cells held by a queue -/
def qids (H : Heap Key) : List Nat := H.items.map (·.2.2)

theorem side_ids (p : Cell → Bool) (cells : List Cell) :
    (side p cells).map (·.2.2) = (cells.filter p).map (·.id) := by
  unfold side; rw [List.map_map]; rfl

theorem Base.queues_perm {cfg : Cfg} {g : GridB} (hi : Base cfg g) :
    (qids g.external ++ qids g.internal).Perm (g.cells.map (·.id)) := by
  unfold qids
  have h1 := (hi.ext.map (·.2.2))
  have h2 := (hi.int.map (·.2.2))
  rw [side_ids] at h1 h2
  refine (h1.append h2).trans ?_
  rw [← List.map_append]
  exact (List.filter_append_perm _ _).map _

theorem Base.ext_iff_border {cfg : Cfg} {g : GridB} (hi : Base cfg g) {c : Cell} (hc : c ∈ g.cells) :
    c.id ∈ qids g.external ↔ c.border = true := by
  unfold qids
  rw [(hi.ext.map (·.2.2)).mem_iff, side_ids]
  constructor
  · intro h
    obtain ⟨d, hd, hid⟩ := List.mem_map.1 h
    obtain ⟨hdm, hdb⟩ := List.mem_filter.1 hd
    have : d = c := eq_of_nodup_map (·.id) _ hi.idnd hdm hc hid
    rw [← this]; exact hdb
  · intro h; exact List.mem_map.2 ⟨c, List.mem_filter.2 ⟨hc, h⟩, rfl⟩

theorem Base.int_iff_interior {cfg : Cfg} {g : GridB} (hi : Base cfg g) {c : Cell} (hc : c ∈ g.cells) :
    c.id ∈ qids g.internal ↔ c.border = false := by
  unfold qids
  rw [(hi.int.map (·.2.2)).mem_iff, side_ids]
  constructor
  · intro h
    obtain ⟨d, hd, hid⟩ := List.mem_map.1 h
    obtain ⟨hdm, hdb⟩ := List.mem_filter.1 hd
    have : d = c := eq_of_nodup_map (·.id) _ hi.idnd hdm hc hid
    rw [← this]; simpa using hdb
  · intro h; exact List.mem_map.2 ⟨c, List.mem_filter.2 ⟨hc, by simp [h]⟩, rfl⟩

theorem Inv.queues_perm {cfg : Cfg} {g : GridB} (hi : Inv cfg g) :
    (qids g.external ++ qids g.internal).Perm (g.cells.map (·.id)) := hi.toBase.queues_perm

theorem Inv.ext_iff_border {cfg : Cfg} {g : GridB} (hi : Inv cfg g) {c : Cell} (hc : c ∈ g.cells) :
    c.id ∈ qids g.external ↔ c.border = true := hi.toBase.ext_iff_border hc

theorem Inv.int_iff_interior {cfg : Cfg} {g : GridB} (hi : Inv cfg g) {c : Cell} (hc : c ∈ g.cells) :
    c.id ∈ qids g.internal ↔ c.border = false := hi.toBase.int_iff_interior hc

end OmplModel.Grid
