import OmplModel.Proofs.PlannerProto
/-!
C03, allocation log: replaying the log of any history never frees a state that is not live, never allocates an id
twice, and the live states are exactly the states owned by the core's motions plus the states handed to solution
paths.  Generic in the core, given the `LawfulCore` laws; core Lean only, arithmetic-free.
-/
namespace OmplModel.PlannerProto

variable {σ δ D C : Type}

/-- one event against (live ids, strict upper bound of every id allocated so far) -/
def applyEv : List Nat × Nat → Ev → Option (List Nat × Nat)
  | (L, b), .alloc i => if b ≤ i then some (i :: L, i + 1) else none
  | (L, b), .free i => if i ∈ L then some (L.erase i, b) else none

/-- `none` as soon as an event frees a state that is not live or re-uses an id -/
def replay (s : List Nat × Nat) : List Ev → Option (List Nat × Nat)
  | [] => some s
  | e :: r => (applyEv s e).bind (fun s' => replay s' r)

theorem replay_append (s : List Nat × Nat) (a b : List Ev) :
    replay s (a ++ b) = (replay s a).bind (fun s' => replay s' b) := by
  induction a generalizing s with
  | nil => simp [replay]
  | cons e r ih =>
    simp only [List.cons_append, replay]
    cases applyEv s e with
    | none => simp
    | some s' => simpa using ih s'

/-- what the protocol layer needs to know about a core: what its motions own, that one loop body's allocation
events replay correctly and leave exactly the owned states (plus whatever else was live) allocated, that the tree
only grows, that reported motions exist, and that paths of existing motions are non-empty. -/
structure LawfulCore (cs : CoreSpec σ δ D C) : Prop where
  owned_init : cs.owned cs.init = []
  owned_addRoot : ∀ c i s, (cs.owned (cs.addRoot c i s)).Perm (i :: cs.owned c)
  iterate_replay : ∀ c n d (L X : List Nat), L.Perm (cs.owned c ++ X) →
    ∃ L', replay (L, n) (cs.iterate c n d).evs = some (L', (cs.iterate c n d).next) ∧
      L'.Perm (cs.owned (cs.iterate c n d).core ++ X)
  size_iterate : ∀ c i d, cs.size c ≤ cs.size (cs.iterate c i d).core
  idx_iterate : ∀ c i d r, r ∈ (cs.iterate c i d).res → r.1 < cs.size (cs.iterate c i d).core
  path_nonempty : ∀ c i, i < cs.size c → cs.pathTo c i ≠ []

/-- `Good L n O X`: live list `L` is a permutation of owned `O` plus extras `X` -/
theorem alloc_step (L : List Nat) (n : Nat) : applyEv (L, n) (.alloc n) = some (n :: L, n + 1) := by
  simp [applyEv]

theorem free_step (L R : List Nat) (b i : Nat) (h : L.Perm (i :: R)) :
    applyEv (L, b) (.free i) = some (L.erase i, b) ∧ (L.erase i).Perm R := by
  have hm : i ∈ L := h.symm.subset List.mem_cons_self
  refine ⟨by simp [applyEv, hm], ?_⟩
  have := h.erase i
  simpa using this

/-- the prologue's allocations -/
theorem consumeStarts_replay (cs : CoreSpec σ δ D C) (hl : LawfulCore cs) (ss : List (σ × Bool)) :
    ∀ (c : C) (n : Nat) (L X : List Nat), L.Perm (cs.owned c ++ X) →
      ∃ L', replay (L, n) (consumeStarts cs ss c n).2.2 = some (L', (consumeStarts cs ss c n).2.1) ∧
        L'.Perm (cs.owned (consumeStarts cs ss c n).1 ++ X) := by
  induction ss with
  | nil => intro c n L X h; exact ⟨L, by simp [consumeStarts, replay], by simpa [consumeStarts] using h⟩
  | cons a r ih =>
    intro c n L X h
    obtain ⟨s, v⟩ := a
    cases v with
    | false => simpa [consumeStarts] using ih c n L X h
    | true =>
      have hp : (n :: L).Perm (cs.owned (cs.addRoot c n s) ++ X) := by
        have h1 : (n :: L).Perm (n :: (cs.owned c ++ X)) := h.cons n
        have h2 : (n :: (cs.owned c ++ X)).Perm (cs.owned (cs.addRoot c n s) ++ X) := by
          have := (hl.owned_addRoot c n s).symm.append_right X
          simpa using this
        exact h1.trans h2
      obtain ⟨L', h1, h2⟩ := ih (cs.addRoot c n s) (n + 1) (n :: L) X hp
      refine ⟨L', ?_, ?_⟩
      · simp only [consumeStarts, replay, alloc_step, Option.bind]
        exact h1
      · simpa [consumeStarts] using h2

/-- the loop's allocations -/
theorem loop_replay (cs : CoreSpec σ δ D C) (hl : LawfulCore cs) (ltD : δ → δ → Bool) :
    ∀ (k : Nat) (ds : List D) (c : C) (s : Search δ) (n : Nat) (L X : List Nat), L.Perm (cs.owned c ++ X) →
      ∃ L', replay (L, n) (loop cs ltD k ds c s n).evs = some (L', (loop cs ltD k ds c s n).next) ∧
        L'.Perm (cs.owned (loop cs ltD k ds c s n).core ++ X) := by
  intro k
  induction k with
  | zero => intro ds c s n L X h; exact ⟨L, by simp [loop, replay], by simpa [loop] using h⟩
  | succ k ih =>
    intro ds c s n L X h
    cases ds with
    | nil => exact ⟨L, by simp [loop, replay], by simpa [loop] using h⟩
    | cons d ds =>
      obtain ⟨L1, r1, p1⟩ := hl.iterate_replay c n d L X h
      simp only [loop]
      split
      · exact ⟨L1, r1, p1⟩
      · obtain ⟨L2, r2, p2⟩ := ih ds (cs.iterate c n d).core (applyRes ltD s (cs.iterate c n d).res).1
          (cs.iterate c n d).next L1 X p1
        refine ⟨L2, ?_, p2⟩
        simp only
        rw [replay_append, r1]
        exact r2

/-- cloning the path states -/
theorem fresh_replay (len : Nat) : ∀ (n : Nat) (L : List Nat),
    ∃ L', replay (L, n) ((freshIds n len).map Ev.alloc) = some (L', n + len) ∧ L'.Perm (L ++ freshIds n len) := by
  induction len with
  | zero => intro n L; exact ⟨L, by simp [freshIds, replay], by simp [freshIds]⟩
  | succ len ih =>
    intro n L
    have hf : freshIds n (len + 1) = n :: freshIds (n + 1) len := by
      simp only [freshIds, List.range_succ_eq_map, List.map_cons, List.map_map, Nat.add_zero]
      congr 1
      apply List.map_congr_left
      intro a _
      simp only [Function.comp]
      omega
    obtain ⟨L', h1, h2⟩ := ih (n + 1) (n :: L)
    refine ⟨L', ?_, ?_⟩
    · rw [hf]
      simp only [List.map_cons, replay, alloc_step, Option.bind]
      rw [h1]
      congr 2
      omega
    · rw [hf]
      refine h2.trans ?_
      simpa using (List.perm_middle (a := n) (l₁ := L) (l₂ := freshIds (n + 1) len)).symm

/-- `freeMemory()` frees exactly the owned states -/
theorem freeAll_replay : ∀ (O L X : List Nat) (n : Nat), L.Perm (O ++ X) →
    ∃ L', replay (L, n) (O.map Ev.free) = some (L', n) ∧ L'.Perm X := by
  intro O
  induction O with
  | nil => intro L X n h; exact ⟨L, by simp [replay], by simpa using h⟩
  | cons o O ih =>
    intro L X n h
    obtain ⟨h1, h2⟩ := free_step L (O ++ X) n o (by simpa using h)
    obtain ⟨L', h3, h4⟩ := ih (L.erase o) X n h2
    exact ⟨L', by simp only [List.map_cons, replay, h1, Option.bind]; exact h3, h4⟩

/-! ## the invariant -/

/-- the allocation log replays without error, its strict id bound is `next`, and the live states are the states
owned by the core's motions plus the states handed to solution paths -/
def Bal (cs : CoreSpec σ δ D C) (m : M σ δ C) : Prop :=
  ∃ L, replay ([], 0) m.log = some (L, m.next) ∧ L.Perm (cs.owned m.core ++ m.handed)

theorem init_bal (cs : CoreSpec σ δ D C) (hl : LawfulCore cs) : Bal cs (M.init cs : M σ δ C) :=
  ⟨[], by simp [M.init, replay], by simp [M.init, hl.owned_init]⟩

theorem perm_two (x r : Nat) (O H : List Nat) : (x :: r :: (O ++ H)).Perm (O ++ (x :: r :: H)) := by
  have h1 : (r :: (O ++ H)).Perm (O ++ (r :: H)) := List.perm_middle.symm
  have h2 : (x :: (O ++ (r :: H))).Perm (O ++ (x :: r :: H)) := List.perm_middle.symm
  exact (h1.cons x).trans h2

theorem freeTemps_replay (b : Bool) (L R : List Nat) (n x r : Nat) (h : L.Perm (x :: r :: R)) :
    ∃ L', replay (L, n) (freeTemps b x r) = some (L', n) ∧ L'.Perm R := by
  cases b with
  | true =>
    obtain ⟨f1, g1⟩ := free_step L _ n x h
    obtain ⟨f2, g2⟩ := free_step (L.erase x) _ n r g1
    exact ⟨(L.erase x).erase r, by simp only [freeTemps, if_true, replay, f1, f2, Option.bind], g2⟩
  | false =>
    have h' : L.Perm (r :: x :: R) := h.trans (List.Perm.swap r x R)
    obtain ⟨f1, g1⟩ := free_step L _ n r h'
    obtain ⟨f2, g2⟩ := free_step (L.erase r) _ n x g1
    exact ⟨(L.erase r).erase x, by simp [freeTemps, replay, f1, f2], g2⟩

theorem finish_bal (cs : CoreSpec σ δ D C) (P : Params σ δ) (m1 : M σ δ C) (pd : Pdef σ δ)
    (e12 : List Ev) (rm xs : Nat) (r : LoopOut δ C) (Lr : List Nat)
    (h1 : replay ([], 0) (m1.log ++ r.evs) = some (Lr, r.next))
    (h2 : Lr.Perm (cs.owned r.core ++ (xs :: rm :: m1.handed))) :
    Bal cs (finish cs P m1 pd e12 rm xs r).m := by
  unfold finish
  split
  · rename_i i a hp
    simp only
    obtain ⟨L4, h4, p4⟩ := fresh_replay (cs.pathTo r.core i).length r.next Lr
    have q : L4.Perm (xs :: rm :: (cs.owned r.core ++ (m1.handed ++ freshIds r.next (cs.pathTo r.core i).length))) := by
      refine p4.trans ?_
      have := (h2.trans (perm_two xs rm (cs.owned r.core) m1.handed).symm).append_right
        (freshIds r.next (cs.pathTo r.core i).length)
      simpa [List.append_assoc] using this
    obtain ⟨L5, f5, g5⟩ := freeTemps_replay cs.xFirst L4 _ (r.next + (cs.pathTo r.core i).length) xs rm q
    refine ⟨L5, ?_, g5⟩
    have e : m1.log ++ (r.evs ++ List.map Ev.alloc (freshIds r.next (cs.pathTo r.core i).length) ++ freeTemps cs.xFirst xs rm)
        = (m1.log ++ r.evs) ++ (List.map Ev.alloc (freshIds r.next (cs.pathTo r.core i).length) ++ freeTemps cs.xFirst xs rm) := by
      simp [List.append_assoc]
    rw [e, replay_append, h1]
    simp only [Option.bind, replay_append, h4]
    exact f5
  · simp only
    have q : Lr.Perm (xs :: rm :: (cs.owned r.core ++ m1.handed)) := h2.trans (perm_two xs rm _ _).symm
    obtain ⟨L5, f5, g5⟩ := freeTemps_replay cs.xFirst Lr _ r.next xs rm q
    refine ⟨L5, ?_, g5⟩
    have e : m1.log ++ (r.evs ++ freeTemps cs.xFirst xs rm) = (m1.log ++ r.evs) ++ freeTemps cs.xFirst xs rm := by
      simp [List.append_assoc]
    rw [e, replay_append, h1]
    exact f5

theorem solve_bal (cs : CoreSpec σ δ D C) (hl : LawfulCore cs) (P : Params σ δ) (m : M σ δ C) (k : Nat) (ds : List D)
    (hb : Bal cs m) : Bal cs (solve cs P m k ds).m := by
  obtain ⟨L, hr, hp⟩ := hb
  unfold solve
  cases hpd : m.pdef with
  | none => exact ⟨L, hr, hp⟩
  | some pd =>
    simp only
    obtain ⟨L1, r1, p1⟩ := consumeStarts_replay cs hl (pd.starts.drop m.pis.added) m.core m.next L m.handed hp
    have hlog : replay ([], 0) (prologue cs m pd).1.log = some (L1, (prologue cs m pd).1.next) := by
      simp only [prologue]
      rw [replay_append, hr]
      exact r1
    split
    · exact ⟨L1, hlog, by simpa [prologue] using p1⟩
    · have p1' : L1.Perm (cs.owned (prologue cs m pd).1.core ++ m.handed) := by simpa [prologue] using p1
      have p2 : (((prologue cs m pd).1.next + 1) :: (prologue cs m pd).1.next :: L1).Perm
          (cs.owned (prologue cs m pd).1.core ++ (((prologue cs m pd).1.next + 1) :: (prologue cs m pd).1.next :: m.handed)) :=
        (((p1'.cons _).cons _)).trans (perm_two _ _ _ _)
      obtain ⟨L3, r3, p3⟩ := loop_replay cs hl P.ltD k ds (prologue cs m pd).1.core ⟨none, none, P.inf⟩
        ((prologue cs m pd).1.next + 2) _ _ p2
      refine finish_bal cs P _ pd _ _ _ _ L3 ?_ ?_
      · simp only
        rw [replay_append, replay_append, hlog]
        simp only [Option.bind, replay, alloc_step]
        exact r3
      · simpa [prologue] using p3

theorem clear_bal (cs : CoreSpec σ δ D C) (hl : LawfulCore cs) (m : M σ δ C) (hb : Bal cs m) :
    Bal cs (clear cs m) ∧ ∃ L, replay ([], 0) (clear cs m).log = some (L, m.next) ∧ L.Perm m.handed := by
  obtain ⟨L, hr, hp⟩ := hb
  obtain ⟨L', h1, h2⟩ := freeAll_replay (cs.owned m.core) L m.handed m.next hp
  have : replay ([], 0) (clear cs m).log = some (L', m.next) := by
    simp only [clear, freeAll]
    rw [replay_append, hr]
    exact h1
  exact ⟨⟨L', this, by simpa [clear, hl.owned_init] using h2⟩, L', this, h2⟩

theorem step_bal (cs : CoreSpec σ δ D C) (hl : LawfulCore cs) (P : Params σ δ) (m : M σ δ C) (op : Op σ D)
    (hb : Bal cs m) : Bal cs (step cs P m op) := by
  cases op with
  | solve k ds => exact solve_bal cs hl P m k ds hb
  | clear => exact (clear_bal cs hl m hb).1
  | clearQuery => exact (clear_bal cs hl m hb).1
  | destroy =>
    obtain ⟨L, hr, hp⟩ := hb
    obtain ⟨L', h1, h2⟩ := freeAll_replay (cs.owned m.core) L m.handed m.next hp
    refine ⟨L', ?_, by simpa [step, hl.owned_init] using h2⟩
    simp only [step, freeAll]
    rw [replay_append, hr]
    exact h1
  | setProblemDefinition id ss =>
    obtain ⟨L, hr, hp⟩ := hb
    simp only [step, setProblemDefinition]
    split
    · split
      · exact ⟨L, hr, hp⟩
      · exact ⟨L, hr, hp⟩
    · exact ⟨L, hr, hp⟩
  | getPlannerData => exact hb
  | addStart s v => exact hb
  | setStartGoal ss => exact hb
  | clearSolutionPaths => exact hb

theorem run_bal (cs : CoreSpec σ δ D C) (hl : LawfulCore cs) (P : Params σ δ) (ops : List (Op σ D)) :
    ∀ m : M σ δ C, Bal cs m → Bal cs (run cs P m ops) := by
  induction ops with
  | nil => intro m h; exact h
  | cons op r ih => intro m h; exact ih _ (step_bal cs hl P m op h)

end OmplModel.PlannerProto
