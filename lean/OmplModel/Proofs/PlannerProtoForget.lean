import OmplModel.Proofs.PlannerProto
/-!
C03, round 10 (second lap): `clear()` forgets COMPLETELY — a bisimulation over every later history — and the reported
solution only improves along every resumed history.  Generic in the search core; core Lean only.
-/
namespace OmplModel.PlannerProto

variable {σ δ D C : Type}

/-- everything of a planner that a later call can depend on: the core, `lastGoalMotion_`, the `PlannerInputStates`
counters, the problem definition (with its solution list) and the allocation counter.  The allocation LOG and the
ids handed to paths are history only: no operation reads them. -/
def Eqv (a b : M σ δ C) : Prop :=
  a.core = b.core ∧ a.lastGoal = b.lastGoal ∧ a.pis = b.pis ∧ a.pdef = b.pdef ∧ a.next = b.next

/-- what the caller (and the allocator) observes of one call: for `solve` status, added solutions, allocation events
and number of termination-condition evaluations; for `getPlannerData` what it reads; for `clear` / `clearQuery` / the
destructor the states freed -/
inductive Obs (σ δ : Type) where
  | solved (st : Status) (added : List (Sol σ δ)) (evs : List Ev) (evals : Nat)
  | data (d : Nat × Bool × Bool)
  | freed (evs : List Ev)
  | nothing

def obs (cs : CoreSpec σ δ D C) (P : Params σ δ) (m : M σ δ C) : Op σ D → Obs σ δ
  | .solve k ds => .solved (solve cs P m k ds).status (solve cs P m k ds).added (solve cs P m k ds).evs (solve cs P m k ds).evals
  | .getPlannerData => .data (plannerData cs m)
  | .clear | .clearQuery | .destroy => .freed (freeAll cs m.core)
  | _ => .nothing

/-- the observations of a whole history -/
def trace (cs : CoreSpec σ δ D C) (P : Params σ δ) : M σ δ C → List (Op σ D) → List (Obs σ δ)
  | _, [] => []
  | m, op :: r => obs cs P m op :: trace cs P (step cs P m op) r

theorem solve_pis (cs : CoreSpec σ δ D C) (P : Params σ δ) (m : M σ δ C) (k : Nat) (ds : List D) :
    (solve cs P m k ds).m.pis.sampledGoals = m.pis.sampledGoals ∧ (solve cs P m k ds).m.pis.pdef = m.pis.pdef := by
  unfold solve
  cases m.pdef with
  | none => simp
  | some pd =>
    simp only
    split
    · simp [prologue]
    · unfold finish
      split <;> simp [prologue]

theorem pis_ext (p q : Pis) (h1 : p.added = q.added) (h2 : p.sampledGoals = q.sampledGoals) (h3 : p.pdef = q.pdef) : p = q := by
  cases p; cases q; simp_all

theorem step_eqv (cs : CoreSpec σ δ D C) (P : Params σ δ) (a b : M σ δ C) (h : Eqv a b) (op : Op σ D) :
    Eqv (step cs P a op) (step cs P b op) ∧ obs cs P a op = obs cs P b op := by
  obtain ⟨hc, hl, hp, hd, hn⟩ := h
  cases op with
  | solve k ds =>
    have S := solve_congr cs P a b k ds hc (by rw [hp]) hd hn hl
    have pa := solve_pis cs P a k ds
    have pb := solve_pis cs P b k ds
    refine ⟨⟨S.2.2.2.2.1, S.2.2.2.2.2.2.1, ?_, S.2.2.2.2.2.1, S.2.2.2.2.2.2.2.2⟩, ?_⟩
    · exact pis_ext _ _ S.2.2.2.2.2.2.2.1 (pa.1.trans ((congrArg Pis.sampledGoals hp).trans pb.1.symm))
        (pa.2.trans ((congrArg Pis.pdef hp).trans pb.2.symm))
    · simp only [obs, S.1, S.2.1, S.2.2.1, S.2.2.2.1]
  | clear => exact ⟨⟨rfl, rfl, by simp [step, clear, hd], hd, hn⟩, by simp [obs, hc]⟩
  | clearQuery => exact ⟨⟨rfl, rfl, by simp [step, clear, hd], hd, hn⟩, by simp [obs, hc]⟩
  | destroy => exact ⟨⟨rfl, rfl, hp, hd, hn⟩, by simp [obs, hc]⟩
  | getPlannerData => exact ⟨⟨hc, hl, hp, hd, hn⟩, by simp [obs, plannerData, hc, hl]⟩
  | addStart s v => exact ⟨⟨hc, hl, hp, by simp [step, hd], hn⟩, rfl⟩
  | setStartGoal ss => exact ⟨⟨hc, hl, hp, by simp [step, hd], hn⟩, rfl⟩
  | clearSolutionPaths => exact ⟨⟨hc, hl, hp, by simp [step, hd], hn⟩, rfl⟩
  | setProblemDefinition id ss =>
    refine ⟨?_, rfl⟩
    simp only [step, setProblemDefinition, hd]
    cases b.pdef with
    | none => exact ⟨hc, hl, by simp [hp], rfl, hn⟩
    | some pd =>
      simp only
      split
      · exact ⟨hc, hl, hp, hd, hn⟩
      · exact ⟨hc, hl, by simp [hp], rfl, hn⟩

/-- **bisimulation**: equivalent planners stay equivalent and indistinguishable under every history -/
theorem trace_eqv (cs : CoreSpec σ δ D C) (P : Params σ δ) (ops : List (Op σ D)) :
    ∀ (a b : M σ δ C), Eqv a b → trace cs P a ops = trace cs P b ops ∧ Eqv (run cs P a ops) (run cs P b ops) := by
  induction ops with
  | nil => intro a b h; exact ⟨rfl, h⟩
  | cons op r ih =>
    intro a b h
    have S := step_eqv cs P a b h op
    have R := ih _ _ S.1
    exact ⟨by simp only [trace, S.2, R.1], by simpa [run] using R.2⟩

/-- a planner as constructed (nothing in the core, nothing allocated by it), holding the problem definition `pd`, with the
allocation counter at `n` -/
def freshWith (cs : CoreSpec σ δ D C) (pd : Option (Pdef σ δ)) (n : Nat) : M σ δ C :=
  { M.init cs with pdef := pd, pis := Pis.plannerClear (pd.map (·.id)), next := n }

theorem clear_eqv_fresh (cs : CoreSpec σ δ D C) (m : M σ δ C) : Eqv (clear cs m) (freshWith cs m.pdef m.next) := by
  simp [Eqv, clear, freshWith, M.init]

/-- `clear()` and switching to a NEW problem definition object, in either order, leave exactly the planner that was just
constructed and given that problem definition -/
theorem clear_setpd_eqv (cs : CoreSpec σ δ D C) (m : M σ δ C) (id : Nat) (ss : List (σ × Bool))
    (hnew : ∀ pd, m.pdef = some pd → pd.id ≠ id) :
    Eqv (setProblemDefinition (clear cs m) id ss) (setProblemDefinition ({ M.init cs with next := m.next } : M σ δ C) id ss) ∧
    Eqv (clear cs (setProblemDefinition m id ss)) (setProblemDefinition ({ M.init cs with next := m.next } : M σ δ C) id ss) := by
  cases hpd : m.pdef with
  | none =>
    simp [Eqv, clear, setProblemDefinition, hpd, M.init, Pis.plannerClear, Pis.use]
  | some pd =>
    have hne := hnew pd hpd
    have hne' : ¬ (some pd.id = some id) := by simpa using hne
    simp [Eqv, clear, setProblemDefinition, hpd, hne, M.init, Pis.plannerClear, Pis.use, hne']

/-! ## monotone best solution along a whole history -/

/-- `PlannerSolution::operator<` is transitive when the comparison of the numbers is -/
theorem Sol.lt_trans (ltD : δ → δ → Bool) (htr : ∀ x y z : δ, ltD x y = true → ltD y z = true → ltD x z = true)
    (a b c : Sol σ δ) (h1 : Sol.lt ltD a b = true) (h2 : Sol.lt ltD b c = true) : Sol.lt ltD a c = true := by
  unfold Sol.lt at *
  cases ha : a.approx <;> cases hb : b.approx <;> cases hc : c.approx <;> simp [ha, hb, hc] at h1 h2 ⊢
  · exact htr _ _ _ h1 h2
  · exact htr _ _ _ h1 h2

theorem run_best (cs : CoreSpec σ δ D C) (P : Params σ δ)
    (htr : ∀ x y z : δ, P.ltD x y = true → P.ltD y z = true → P.ltD x z = true) (ops : List (Op σ D)) :
    ∀ (m : M σ δ C), (∀ op ∈ ops, op.keepsSolutions = true) → ∀ b, bestOf m = some b →
      ∃ b', bestOf (run cs P m ops) = some b' ∧ (b' = b ∨ Sol.lt P.ltD b' b = true) := by
  induction ops with
  | nil => intro m _ b hb; exact ⟨b, by simpa [run] using hb, Or.inl rfl⟩
  | cons op r ih =>
    intro m hk b hb
    obtain ⟨b1, h1, h1'⟩ := step_best cs P m op (hk op List.mem_cons_self) b hb
    obtain ⟨b2, h2, h2'⟩ := ih (step cs P m op) (fun o ho => hk o (List.mem_cons_of_mem _ ho)) b1 h1
    refine ⟨b2, by simpa [run] using h2, ?_⟩
    rcases h1' with e1 | l1
    · subst e1; exact h2'
    · rcases h2' with e2 | l2
      · subst e2; exact Or.inr l1
      · exact Or.inr (Sol.lt_trans P.ltD htr _ _ _ l2 l1)

end OmplModel.PlannerProto
