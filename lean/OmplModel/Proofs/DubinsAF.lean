import OmplModel.Model.Dubins
/-!
Arithmetic-free [AF] lemmas about the Dubins model (C14).  Core Lean only, generic over `[DNum α]`:
nothing here uses an algebraic law of `α`, so every statement holds for the `Float` instantiation
(the one the driver runs) as well as for ℝ.

* `exhaustiveCore` / `dubinsExhaustive` return one of the six candidates and no candidate is
  strictly shorter (needs only that `<` is a strict weak order: asymmetric + negatively transitive;
  IEEE `<` on doubles without NaN is one, with NaN it still is asymmetric and negatively transitive).
* `integ` (the interpolation loop with its running `seg` budget) = driving the truncated word.
-/
namespace OmplModel.Dubins
open OmplModel

/-- the order facts `exhaustive_is_min` needs of `<` (nothing arithmetic): a strict weak order. -/
structure StrictWeak (α : Type) [LT α] : Prop where
  asymm : ∀ a b : α, a < b → ¬ b < a
  negTrans : ∀ a b c : α, ¬ a < b → ¬ b < c → ¬ a < c

section
variable {α : Type} [DNum α]

/-! ## `ltLen` inherits the strict weak order (with `none` = +∞) -/

theorem ltLen_asymm (h : StrictWeak α) (a b : Option α) (hab : ltLen a b = true) :
    ltLen b a = false := by
  cases a with
  | none => simp [ltLen] at hab
  | some x =>
    cases b with
    | none => rfl
    | some y =>
      simp only [ltLen, decide_eq_true_eq] at hab
      simp only [ltLen, decide_eq_false_iff_not]
      exact h.asymm x y hab

theorem ltLen_negTrans (h : StrictWeak α) (a b c : Option α) (hab : ltLen a b = false)
    (hbc : ltLen b c = false) : ltLen a c = false := by
  cases a with
  | none => rfl
  | some x =>
    cases b with
    | none => simp [ltLen] at hab
    | some y =>
      cases c with
      | none => simp [ltLen] at hbc
      | some z =>
        simp only [ltLen, decide_eq_false_iff_not] at hab hbc ⊢
        exact h.negTrans x y z hab hbc

theorem ltLen_irrefl (h : StrictWeak α) (a : Option α) : ltLen a a = false := by
  cases hh : ltLen a a with
  | false => rfl
  | true => have := ltLen_asymm h a a hh; rw [hh] at this; exact this

/-! ## a fold of `better` returns a minimal candidate -/

theorem better_eq_or (cur cand : Option (Path α)) : better cur cand = cur ∨ better cur cand = cand := by
  unfold better; split
  · exact Or.inr rfl
  · exact Or.inl rfl

/-- the result of the fold is the initial value or one of the candidates -/
theorem foldl_better_mem {ι : Type} (f : ι → Option (Path α)) (ws : List ι) (init : Option (Path α)) :
    ws.foldl (fun cur w => better cur (f w)) init = init ∨
      ∃ w ∈ ws, ws.foldl (fun cur w => better cur (f w)) init = f w := by
  induction ws generalizing init with
  | nil => exact Or.inl rfl
  | cons w ws ih =>
    simp only [List.foldl_cons]
    rcases ih (better init (f w)) with h | ⟨w', hw', h⟩
    · rcases better_eq_or init (f w) with hb | hb
      · left; rw [h, hb]
      · right; exact ⟨w, List.mem_cons_self, by rw [h, hb]⟩
    · right; exact ⟨w', List.mem_cons_of_mem _ hw', h⟩

/-- neither the initial value nor any candidate is strictly shorter than the result of the fold -/
theorem foldl_better_min {ι : Type} (h : StrictWeak α) (f : ι → Option (Path α)) (ws : List ι)
    (init : Option (Path α)) :
    ltLen (olen init) (olen (ws.foldl (fun cur w => better cur (f w)) init)) = false ∧
      ∀ w ∈ ws, ltLen (olen (f w)) (olen (ws.foldl (fun cur w => better cur (f w)) init)) = false := by
  induction ws generalizing init with
  | nil =>
    refine ⟨ltLen_irrefl h _, ?_⟩
    intro w hw; cases hw
  | cons w ws ih =>
    simp only [List.foldl_cons]
    obtain ⟨hb, hrest⟩ := ih (better init (f w))
    -- `hb`: `better init (f w)` is not below the result `r`
    have key : ltLen (olen init) (olen (ws.foldl (fun cur w => better cur (f w)) (better init (f w)))) = false ∧
        ltLen (olen (f w)) (olen (ws.foldl (fun cur w => better cur (f w)) (better init (f w)))) = false := by
      cases hc : ltLen (olen (f w)) (olen init) with
      | true =>
        have hbe : better init (f w) = f w := by unfold better; rw [hc]; rfl
        rw [hbe] at hb ⊢
        exact ⟨ltLen_negTrans h _ _ _ (ltLen_asymm h _ _ hc) hb, hb⟩
      | false =>
        have hbe : better init (f w) = init := by unfold better; rw [hc]; rfl
        rw [hbe] at hb ⊢
        exact ⟨hb, ltLen_negTrans h _ _ _ hc hb⟩
    refine ⟨key.1, ?_⟩
    intro w' hw'
    rcases List.mem_cons.mp hw' with rfl | hw'
    · exact key.2
    · exact hrest w' hw'

/-! ## `exhaustiveCore` and `dubinsExhaustive` -/

theorem solve_LSL (m2p : α → α) (d a b : α) : solve m2p .LSL d a b = dubinsLSL m2p d a b := rfl

theorem word_cases (w : Word) : w = .LSL ∨ w ∈ laterWords := by
  cases w <;> simp [laterWords]

/-- no candidate is strictly shorter than what `exhaustiveCore` returns -/
theorem exhaustiveCore_min (h : StrictWeak α) (m2p : α → α) (d a b : α) (w : Word) :
    ltLen (olen (solve m2p w d a b)) (olen (exhaustiveCore m2p d a b)) = false := by
  have H := foldl_better_min h (fun w => solve m2p w d a b) laterWords (dubinsLSL m2p d a b)
  rcases word_cases w with rfl | hw
  · exact H.1
  · exact H.2 w hw

/-- `exhaustiveCore` returns one of the six candidates -/
theorem exhaustiveCore_mem (m2p : α → α) (d a b : α) :
    ∃ w, exhaustiveCore m2p d a b = solve m2p w d a b := by
  rcases foldl_better_mem (fun w => solve m2p w d a b) laterWords (dubinsLSL m2p d a b) with h | ⟨w, _, h⟩
  · exact ⟨.LSL, h⟩
  · exact ⟨w, h⟩

theorem dubinsExhaustive_of_degenerate (m2p : α → α) (d a b : α) (hd : degenerate d a b = true) :
    dubinsExhaustive m2p d a b = some (zeroPath d) := by
  unfold dubinsExhaustive; rw [hd]; rfl

theorem dubinsExhaustive_of_not_degenerate (m2p : α → α) (d a b : α) (hd : degenerate d a b = false) :
    dubinsExhaustive m2p d a b = exhaustiveCore m2p d a b := by
  unfold dubinsExhaustive; rw [hd]; rfl

/-! ## the interpolation loop drives the truncated word -/

/-- `integ` (running budget `seg`, early exit) = `integFull` on `truncate segs seg`. -/
theorem integ_eq_integFull_truncate (step : Seg → α → Pose α → Pose α) (segs : List (Seg × α))
    (seg : α) (P : Pose α) :
    integ step segs seg P = integFull step (truncate segs seg) P := by
  induction segs generalizing seg P with
  | nil => rfl
  | cons hd tl ih =>
    obtain ⟨s, l⟩ := hd
    simp only [integ, truncate]
    split
    · simp only [integFull]; exact ih _ _
    · rfl

/-- the pose `interpolate` reports at `t` is reached by driving the truncated word from
`(0,0,yaw)`, then scaling by `rho`, translating by `frm` and wrapping the yaw. -/
theorem interpPath_eq (rho : α) (frm : Pose α) (P : Path α) (t : α) :
    interpPath rho frm P t =
      ⟨(integFull (if P.rev then stepRev else stepFwd) (truncate P.segList (t * P.len)) ⟨0, 0, frm.th⟩).x * rho + frm.x,
       (integFull (if P.rev then stepRev else stepFwd) (truncate P.segList (t * P.len)) ⟨0, 0, frm.th⟩).y * rho + frm.y,
       so2Enforce (integFull (if P.rev then stepRev else stepFwd) (truncate P.segList (t * P.len)) ⟨0, 0, frm.th⟩).th⟩ := by
  unfold interpPath
  simp only [integ_eq_integFull_truncate]

/-- the truncated word has the letters of a prefix of the original, in the same order -/
theorem truncate_letters_prefix (segs : List (Seg × α)) (seg : α) :
    (truncate segs seg).map Prod.fst <+: segs.map Prod.fst := by
  induction segs generalizing seg with
  | nil => simp [truncate]
  | cons hd tl ih =>
    obtain ⟨s, l⟩ := hd
    simp only [truncate]
    split
    · simp only [List.map_cons]
      exact List.prefix_cons_inj s |>.mpr (ih _)
    · simp

end
end OmplModel.Dubins
