import OmplModel.Proofs.GridBasic
import Mathlib.Logic.Relation
/-
`Grid::components()` reports exactly the classes of the neighbour relation among the present cells.
-/
namespace OmplModel.Grid
open Relation

/-- one edge of the neighbour relation among present cells -/
def Step (dim : Nat) (cells : List Cell) (a b : Coord) : Prop :=
  has cells b = true ∧ b ∈ neighborCoords dim a

def Reach (dim : Nat) (cells : List Cell) : Coord → Coord → Prop :=
  Relation.ReflTransGen (Step dim cells)

structure WF (dim : Nat) (cells : List Cell) : Prop where
  nodup : (cells.map (·.coord)).Nodup
  len : ∀ c ∈ cells, c.coord.length = dim

variable {dim : Nat} {cells : List Cell}

/-! ### the relation -/

theorem Reach.present {a b : Coord} (h : Reach dim cells a b) (ha : has cells a = true) :
    has cells b = true := by
  induction h with
  | refl => exact ha
  | tail _ hs _ => exact hs.1

theorem WF.length_of_has (h : WF dim cells) {x : Coord} (hx : has cells x = true) : x.length = dim := by
  obtain ⟨c, hc, rfl⟩ := has_iff.1 hx
  exact h.len c hc

theorem WF.eq_of_coord_eq (h : WF dim cells) {a b : Cell} (ha : a ∈ cells) (hb : b ∈ cells)
    (hab : a.coord = b.coord) : a = b := by
  have h1 := (getCell_eq_some_iff h.nodup).2 ⟨ha, hab⟩
  have h2 := (getCell_eq_some_iff h.nodup).2 ⟨hb, rfl⟩
  rw [h1] at h2
  exact Option.some.inj h2

theorem WF.cells_nodup (h : WF dim cells) : cells.Nodup :=
  List.Pairwise.of_map _ (fun _ _ hne hab => hne (congrArg _ hab)) h.nodup

theorem Step.symm (h : WF dim cells) {a b : Coord} (ha : has cells a = true) (hs : Step dim cells a b) :
    Step dim cells b a :=
  ⟨ha, neighborCoords_symm (h.length_of_has ha) hs.2⟩

theorem Reach.symm (h : WF dim cells) {a b : Coord} (ha : has cells a = true) (hr : Reach dim cells a b) :
    Reach dim cells b a := by
  induction hr with
  | refl => exact ReflTransGen.refl
  | tail hab hbc ih => exact ReflTransGen.head (Step.symm h (Reach.present hab ha) hbc) ih

/-! ### the inner loop -/

/-- invariant of the `while` loop: `V0` is the key set of `ch` when the component was started, `c0` its seed. -/
structure BfsInv (dim : Nat) (cells : List Cell) (V0 : List Coord) (c0 : Cell)
    (done todo : List Cell) (vis : List Coord) : Prop where
  vis_iff : ∀ x, x ∈ vis ↔ x ∈ done.map (·.coord) ∨ x ∈ V0
  nodup : (done.map (·.coord)).Nodup
  disj : ∀ d ∈ done, d.coord ∉ V0
  done_sub : ∀ d ∈ done, d ∈ cells
  todo_sub : ∀ d ∈ todo, d ∈ cells
  reach_done : ∀ d ∈ done, Reach dim cells c0.coord d.coord
  reach_todo : ∀ d ∈ todo, Reach dim cells c0.coord d.coord
  closed : ∀ d ∈ done, ∀ y, Step dim cells d.coord y → y ∈ vis ∨ y ∈ todo.map (·.coord)
  seed : c0.coord ∈ vis ∨ c0.coord ∈ todo.map (·.coord)

theorem guard_iff {c : Cell} {vis : List Coord} (hc : c ∈ cells) :
    (vis.contains c.coord || !cells.any fun d => d.coord == c.coord) = true ↔ c.coord ∈ vis := by
  have : cells.any (fun d => d.coord == c.coord) = true := List.any_eq_true.2 ⟨c, hc, by simp⟩
  simp [this]

theorem bfs_inv {V0 : List Coord} {c0 : Cell} {done todo : List Cell} {vis : List Coord}
    (hinv : BfsInv dim cells V0 c0 done todo vis) :
    BfsInv dim cells V0 c0 (bfs dim cells done todo vis).1 [] (bfs dim cells done todo vis).2 := by
  fun_induction bfs dim cells done todo vis with
  | case1 => exact hinv
  | case2 done vis c rest h ih =>
    have hc : c ∈ cells := hinv.todo_sub c List.mem_cons_self
    have hv : c.coord ∈ vis := (guard_iff hc).1 h
    apply ih
    exact { hinv with
      todo_sub := fun d hd => hinv.todo_sub d (List.mem_cons_of_mem _ hd)
      reach_todo := fun d hd => hinv.reach_todo d (List.mem_cons_of_mem _ hd)
      closed := fun d hd y hs => by
        rcases hinv.closed d hd y hs with h1 | h1
        · exact Or.inl h1
        · rw [List.map_cons, List.mem_cons] at h1
          rcases h1 with rfl | h1
          · exact Or.inl hv
          · exact Or.inr h1
      seed := by
        rcases hinv.seed with h1 | h1
        · exact Or.inl h1
        · rw [List.map_cons, List.mem_cons] at h1
          rcases h1 with h1 | h1
          · exact Or.inl (h1 ▸ hv)
          · exact Or.inr h1 }
  | case3 done vis c rest h ih =>
    have hc : c ∈ cells := hinv.todo_sub c List.mem_cons_self
    have hv : c.coord ∉ vis := fun hv => h ((guard_iff hc).2 hv)
    have hcd : c.coord ∉ done.map (·.coord) := fun hm => hv ((hinv.vis_iff _).2 (Or.inl hm))
    have hcV : c.coord ∉ V0 := fun hm => hv ((hinv.vis_iff _).2 (Or.inr hm))
    have hrc : Reach dim cells c0.coord c.coord := hinv.reach_todo c List.mem_cons_self
    apply ih
    refine
      { vis_iff := ?_, nodup := ?_, disj := ?_, done_sub := ?_, todo_sub := ?_, reach_done := ?_,
        reach_todo := ?_, closed := ?_, seed := ?_ }
    · intro x
      simp only [List.mem_cons, List.map_append, List.map_cons, List.map_nil, List.mem_append,
        hinv.vis_iff x, List.not_mem_nil, or_false]
      grind
    · rw [List.map_append, List.nodup_append]
      refine ⟨hinv.nodup, by simp, ?_⟩
      intro a ha b hb hab
      simp only [List.map_cons, List.map_nil, List.mem_singleton] at hb
      exact hcd (hb ▸ hab ▸ ha)
    · intro d hd
      rcases List.mem_append.1 hd with hd | hd
      · exact hinv.disj d hd
      · rw [List.mem_singleton.1 hd]; exact hcV
    · intro d hd
      rcases List.mem_append.1 hd with hd | hd
      · exact hinv.done_sub d hd
      · rw [List.mem_singleton.1 hd]; exact hc
    · intro d hd
      rcases List.mem_append.1 hd with hd | hd
      · exact hinv.todo_sub d (List.mem_cons_of_mem _ hd)
      · exact (mem_neighbors_imp (List.mem_filter.1 hd).1).1
    · intro d hd
      rcases List.mem_append.1 hd with hd | hd
      · exact hinv.reach_done d hd
      · rw [List.mem_singleton.1 hd]; exact hrc
    · intro d hd
      rcases List.mem_append.1 hd with hd | hd
      · exact hinv.reach_todo d (List.mem_cons_of_mem _ hd)
      · have hn := mem_neighbors_imp (List.mem_filter.1 hd).1
        exact hrc.tail ⟨has_coord_of_mem hn.1, hn.2⟩
    · intro d hd y hs
      by_cases hy : y ∈ c.coord :: vis
      · exact Or.inl hy
      right
      rw [List.map_append, List.mem_append]
      rcases List.mem_append.1 hd with hd | hd
      · rcases hinv.closed d hd y hs with h1 | h1
        · exact absurd (List.mem_cons_of_mem _ h1) hy
        · rw [List.map_cons, List.mem_cons] at h1
          rcases h1 with rfl | h1
          · exact absurd List.mem_cons_self hy
          · exact Or.inl h1
      · rw [List.mem_singleton.1 hd] at hs
        right
        have : y ∈ (neighbors dim cells c.coord).map (·.coord) := by
          rw [neighbors_map_coord]; exact List.mem_filter.2 ⟨hs.2, hs.1⟩
        obtain ⟨n, hn, rfl⟩ := List.mem_map.1 this
        exact List.mem_map.2 ⟨n, List.mem_filter.2 ⟨hn, by simpa using hy⟩, rfl⟩
    · rcases hinv.seed with h1 | h1
      · exact Or.inl (List.mem_cons_of_mem _ h1)
      · rw [List.map_cons, List.mem_cons] at h1
        rcases h1 with h1 | h1
        · exact Or.inl (h1 ▸ List.mem_cons_self)
        · exact Or.inr (by rw [List.map_append]; exact List.mem_append_left _ h1)

/-- what one run of the inner loop from a fresh seed `c0` delivers (`V0` = key set of `ch` before). -/
structure BfsSpec (dim : Nat) (cells : List Cell) (V0 : List Coord) (c0 : Cell)
    (r : List Cell × List Coord) : Prop where
  vis_iff : ∀ x, x ∈ r.2 ↔ x ∈ r.1.map (·.coord) ∨ x ∈ V0
  nodup : (r.1.map (·.coord)).Nodup
  disj : ∀ d ∈ r.1, d.coord ∉ V0
  sub : ∀ d ∈ r.1, d ∈ cells
  seed : c0 ∈ r.1
  cls : ∀ b ∈ cells, (b ∈ r.1 ↔ Reach dim cells c0.coord b.coord)
  closed : ∀ x ∈ r.2, ∀ y, Step dim cells x y → y ∈ r.2

theorem bfs_spec (h : WF dim cells) {V0 : List Coord} {c0 : Cell} (hc0 : c0 ∈ cells)
    (hc0V : c0.coord ∉ V0) (hV0closed : ∀ x ∈ V0, ∀ y, Step dim cells x y → y ∈ V0) :
    BfsSpec dim cells V0 c0 (bfs dim cells [] [c0] V0) := by
  have hinit : BfsInv dim cells V0 c0 [] [c0] V0 :=
    { vis_iff := by simp
      nodup := by simp
      disj := by simp
      done_sub := by simp
      todo_sub := by simpa using hc0
      reach_done := by simp
      reach_todo := by intro d hd; rw [List.mem_singleton.1 hd]; exact ReflTransGen.refl
      closed := by simp
      seed := Or.inr (by simp) }
  have hI := bfs_inv hinit
  generalize bfs dim cells [] [c0] V0 = r at hI
  obtain ⟨D, V⟩ := r
  simp only at hI
  have hseedc : c0.coord ∈ D.map (·.coord) := by
    rcases hI.seed with h1 | h1
    · rcases (hI.vis_iff _).1 h1 with h2 | h2
      · exact h2
      · exact absurd h2 hc0V
    · simp at h1
  have mem_of_coord : ∀ b ∈ cells, b.coord ∈ D.map (·.coord) → b ∈ D := by
    intro b hb hm
    obtain ⟨d, hd, hdb⟩ := List.mem_map.1 hm
    have := h.eq_of_coord_eq (hI.done_sub d hd) hb hdb
    exact this ▸ hd
  have hreach : ∀ y, Reach dim cells c0.coord y → y ∈ D.map (·.coord) := by
    intro y hr
    induction hr with
    | refl => exact hseedc
    | tail hab hbc ih =>
      rename_i b c
      obtain ⟨d, hd, rfl⟩ := List.mem_map.1 ih
      rcases hI.closed d hd c hbc with h1 | h1
      · rcases (hI.vis_iff _).1 h1 with h2 | h2
        · exact h2
        · exfalso
          have hback : Step dim cells c d.coord :=
            Step.symm h (has_coord_of_mem (hI.done_sub d hd)) hbc
          exact hI.disj d hd (hV0closed c h2 _ hback)
      · simp at h1
  exact
    { vis_iff := hI.vis_iff
      nodup := hI.nodup
      disj := hI.disj
      sub := hI.done_sub
      seed := mem_of_coord c0 hc0 hseedc
      cls := fun b hb => ⟨fun hbD => hI.reach_done b hbD, fun hr => mem_of_coord b hb (hreach _ hr)⟩
      closed := by
        intro x hx y hs
        rcases (hI.vis_iff _).1 hx with h1 | h1
        · obtain ⟨d, hd, rfl⟩ := List.mem_map.1 h1
          rcases hI.closed d hd y hs with h2 | h2
          · exact h2
          · simp at h2
        · exact (hI.vis_iff _).2 (Or.inr (hV0closed x h1 y hs)) }

/-- inside a finished component the class of any member is the class of the seed. -/
theorem BfsSpec.cls_any (h : WF dim cells) {V0 : List Coord} {c0 : Cell} {r : List Cell × List Coord}
    (hs : BfsSpec dim cells V0 c0 r) :
    ∀ a ∈ r.1, ∀ b ∈ cells, (b ∈ r.1 ↔ Reach dim cells a.coord b.coord) := by
  intro a ha b hb
  have hc0 : c0 ∈ cells := hs.sub c0 hs.seed
  have h0a : Reach dim cells c0.coord a.coord := (hs.cls a (hs.sub a ha)).1 ha
  have ha0 : Reach dim cells a.coord c0.coord := Reach.symm h (has_coord_of_mem hc0) h0a
  rw [hs.cls b hb]
  exact ⟨fun hr => ReflTransGen.trans ha0 hr, fun hr => ReflTransGen.trans h0a hr⟩

/-! ### the outer loop -/

structure LoopInv (dim : Nat) (cells : List Cell) (l : List Cell) (vis : List Coord)
    (res : List (List Cell)) : Prop where
  vis_iff : ∀ x, x ∈ vis ↔ x ∈ res.flatten.map (·.coord)
  nodup : (res.flatten.map (·.coord)).Nodup
  sub : ∀ c ∈ res.flatten, c ∈ cells
  closed : ∀ x ∈ vis, ∀ y, Step dim cells x y → y ∈ vis
  cls : ∀ comp ∈ res, comp ≠ [] ∧
    ∀ a ∈ comp, ∀ b ∈ cells, (b ∈ comp ↔ Reach dim cells a.coord b.coord)
  lsub : ∀ c ∈ l, c ∈ cells
  cover : ∀ c ∈ cells, c ∈ l ∨ c.coord ∈ vis

theorem componentsLoop_inv (h : WF dim cells) {l : List Cell} {vis : List Coord} {res : List (List Cell)}
    (hinv : LoopInv dim cells l vis res) :
    ∃ vis', LoopInv dim cells [] vis' (componentsLoop dim cells l vis res) := by
  induction l generalizing vis res with
  | nil => exact ⟨vis, by simpa [componentsLoop] using hinv⟩
  | cons c0 rest ih =>
    rw [componentsLoop]
    split
    · rename_i hvis
      have hvis : c0.coord ∈ vis := by simpa using hvis
      apply ih
      exact { hinv with
        lsub := fun c hc => hinv.lsub c (List.mem_cons_of_mem _ hc)
        cover := fun c hc => by
          rcases hinv.cover c hc with h1 | h1
          · rcases List.mem_cons.1 h1 with rfl | h1
            · exact Or.inr hvis
            · exact Or.inl h1
          · exact Or.inr h1 }
    · rename_i hvis
      have hvis : c0.coord ∉ vis := by simpa using hvis
      have hc0 : c0 ∈ cells := hinv.lsub c0 List.mem_cons_self
      have hs := bfs_spec h hc0 hvis hinv.closed
      apply ih
      generalize bfs dim cells [] [c0] vis = r at hs
      refine
        { vis_iff := ?_, nodup := ?_, sub := ?_, closed := hs.closed, cls := ?_, lsub := ?_, cover := ?_ }
      · intro x
        rw [hs.vis_iff, hinv.vis_iff]
        simp only [List.flatten_append, List.flatten_cons, List.flatten_nil, List.append_nil,
          List.map_append, List.mem_append]
        exact Or.comm
      · simp only [List.flatten_append, List.flatten_cons, List.flatten_nil, List.append_nil,
          List.map_append]
        rw [List.nodup_append]
        refine ⟨hinv.nodup, hs.nodup, ?_⟩
        intro a ha b hb hab
        obtain ⟨d, hd, rfl⟩ := List.mem_map.1 hb
        exact hs.disj d hd (hab ▸ (hinv.vis_iff _).2 ha)
      · intro c hc
        simp only [List.flatten_append, List.flatten_cons, List.flatten_nil, List.append_nil,
          List.mem_append] at hc
        rcases hc with hc | hc
        · exact hinv.sub c hc
        · exact hs.sub c hc
      · intro comp hcomp
        rcases List.mem_append.1 hcomp with hc | hc
        · exact hinv.cls comp hc
        · rw [List.mem_singleton.1 hc]
          exact ⟨List.ne_nil_of_mem hs.seed, hs.cls_any h⟩
      · exact fun c hc => hinv.lsub c (List.mem_cons_of_mem _ hc)
      · intro c hc
        rcases hinv.cover c hc with h1 | h1
        · rcases List.mem_cons.1 h1 with rfl | h1
          · exact Or.inr ((hs.vis_iff _).2 (Or.inl (List.mem_map_of_mem hs.seed)))
          · exact Or.inl h1
        · exact Or.inr ((hs.vis_iff _).2 (Or.inr h1))

theorem componentsLoop_spec (h : WF dim cells) :
    ∃ vis, LoopInv dim cells [] vis (componentsLoop dim cells cells [] []) :=
  componentsLoop_inv h
    { vis_iff := by simp
      nodup := by simp
      sub := by simp
      closed := by simp
      cls := by simp
      lsub := fun _ hc => hc
      cover := fun _ hc => Or.inl hc }

theorem componentsLoop_perm (h : WF dim cells) :
    (componentsLoop dim cells cells [] []).flatten.Perm cells := by
  obtain ⟨vis, hI⟩ := componentsLoop_spec h
  have hnd : (componentsLoop dim cells cells [] []).flatten.Nodup :=
    List.Pairwise.of_map _ (fun _ _ hne hab => hne (congrArg _ hab)) hI.nodup
  rw [List.perm_ext_iff_of_nodup hnd h.cells_nodup]
  intro a
  constructor
  · exact hI.sub a
  · intro ha
    rcases hI.cover a ha with h1 | h1
    · cases h1
    · obtain ⟨d, hd, hda⟩ := List.mem_map.1 ((hI.vis_iff _).1 h1)
      exact (h.eq_of_coord_eq (hI.sub d hd) ha hda) ▸ hd

/-! ### `components` -/

theorem mem_components {comp : List Cell} :
    comp ∈ components dim cells ↔ comp ∈ componentsLoop dim cells cells [] [] := by
  unfold components
  exact List.mem_mergeSort

/-- the reported components, concatenated, are the cells of the grid, each exactly once. -/
theorem components_perm (h : WF dim cells) : (components dim cells).flatten.Perm cells :=
  (List.mergeSort_perm _ _).flatten.trans (componentsLoop_perm h)

/-- every reported component is the class of each of its members under the reflexive-transitive closure
of the neighbour relation among present cells. -/
theorem components_class (h : WF dim cells) :
    ∀ comp ∈ components dim cells, ∀ a ∈ comp, ∀ b ∈ cells,
      (b ∈ comp ↔ Reach dim cells a.coord b.coord) := by
  obtain ⟨vis, hI⟩ := componentsLoop_spec h
  intro comp hcomp
  exact (hI.cls comp (mem_components.1 hcomp)).2

theorem components_ne_nil (h : WF dim cells) : ∀ comp ∈ components dim cells, comp ≠ [] := by
  obtain ⟨vis, hI⟩ := componentsLoop_spec h
  intro comp hcomp
  exact (hI.cls comp (mem_components.1 hcomp)).1

theorem components_sorted : (components dim cells).Pairwise (fun a b => a.length ≥ b.length) := by
  unfold components
  have hs := List.pairwise_mergeSort (le := fun (a b : List Cell) => decide (a.length ≥ b.length))
    (by intro a b c; simp only [decide_eq_true_eq]; omega)
    (by intro a b; simp only [Bool.or_eq_true, decide_eq_true_eq]; omega)
    (componentsLoop dim cells cells [] [])
  exact hs.imp (by simp)

/-- no cell is reported twice (neither inside a component nor in two components). -/
theorem components_nodup (h : WF dim cells) : (components dim cells).flatten.Nodup :=
  (components_perm h).nodup_iff.2 h.cells_nodup

/-- two cells of the grid are reported in the same component iff they are connected. -/
theorem components_same_iff (h : WF dim cells) {a b : Cell} (ha : a ∈ cells) (hb : b ∈ cells) :
    (∃ comp ∈ components dim cells, a ∈ comp ∧ b ∈ comp) ↔ Reach dim cells a.coord b.coord := by
  constructor
  · rintro ⟨comp, hcomp, hac, hbc⟩
    exact (components_class h comp hcomp a hac b hb).1 hbc
  · intro hr
    obtain ⟨comp, hcomp, hac⟩ := List.mem_flatten.1 ((components_perm h).mem_iff.2 ha)
    exact ⟨comp, hcomp, hac, (components_class h comp hcomp a hac b hb).2 hr⟩

/-! ### the extra disjunct of `bfs` -/

/-- the loop exactly as the code has it (duplicate test = `ch.find(c) != ch.end()` only), with fuel. -/
def bfsFuel (dim : Nat) (cells : List Cell) :
    Nat → List Cell → List Cell → List Coord → Option (List Cell × List Coord)
  | 0, _, _, _ => none
  | _ + 1, done, [], vis => some (done, vis)
  | k + 1, done, c :: rest, vis =>
    if vis.contains c.coord then bfsFuel dim cells k done rest vis
    else
      bfsFuel dim cells k (done ++ [c])
        (rest ++ (neighbors dim cells c.coord).filter (fun n => !(c.coord :: vis).contains n.coord))
        (c.coord :: vis)

/-- The second disjunct of the duplicate test of `bfs` never fires on a queue of grid cells: the loop
without it terminates (with enough fuel) and returns the same result. -/
theorem bfs_guard_irrelevant {done todo : List Cell} {vis : List Coord} (hsub : ∀ t ∈ todo, t ∈ cells) :
    ∃ k, ∀ m, k ≤ m → bfsFuel dim cells m done todo vis = some (bfs dim cells done todo vis) := by
  fun_induction bfs dim cells done todo vis with
  | case1 done vis =>
    refine ⟨1, fun m hm => ?_⟩
    obtain ⟨m, rfl⟩ : ∃ m', m = m' + 1 := ⟨m - 1, by omega⟩
    rfl
  | case2 done vis c rest hg ih =>
    have hc : c ∈ cells := hsub c List.mem_cons_self
    have hv : vis.contains c.coord = true := by simpa using (guard_iff hc).1 hg
    obtain ⟨k, hk⟩ := ih (fun t ht => hsub t (List.mem_cons_of_mem _ ht))
    refine ⟨k + 1, fun m hm => ?_⟩
    obtain ⟨m, rfl⟩ : ∃ m', m = m' + 1 := ⟨m - 1, by omega⟩
    rw [bfsFuel, if_pos hv]
    exact hk m (by omega)
  | case3 done vis c rest hg ih =>
    have hc : c ∈ cells := hsub c List.mem_cons_self
    have hv : ¬ vis.contains c.coord = true := fun hv => hg ((guard_iff hc).2 (by simpa using hv))
    obtain ⟨k, hk⟩ := ih (by
      intro t ht
      rcases List.mem_append.1 ht with ht | ht
      · exact hsub t (List.mem_cons_of_mem _ ht)
      · exact (mem_neighbors_imp (List.mem_filter.1 ht).1).1)
    refine ⟨k + 1, fun m hm => ?_⟩
    obtain ⟨m, rfl⟩ : ∃ m', m = m' + 1 := ⟨m - 1, by omega⟩
    rw [bfsFuel, if_neg hv]
    exact hk m (by omega)

/-! ### non-vacuity -/

/-- `(0,0) - (0,1) - (-1,1)` and the isolated `(5,5)`, in an insertion order that interleaves them. -/
def exampleCells : List Cell :=
  [{ id := 0, coord := [0, 0], data := 0 }, { id := 1, coord := [5, 5], data := 0 },
   { id := 2, coord := [0, 1], data := 0 }, { id := 3, coord := [-1, 1], data := 0 }]

example : WF 2 exampleCells := ⟨by decide, by decide⟩

example : (components 2 exampleCells).map (·.map (·.id)) = [[0, 2, 3], [1]] := by
  simp [components, componentsLoop, bfs, exampleCells, neighbors, neighborCoords, getCell, List.range,
    List.range.loop, List.mergeSort]

end OmplModel.Grid
