import OmplModel.Proofs.LBKPIECE1Disc
/-!
`LBKPIECE1::removeMotion` removes EXACTLY a motion and its descendants, and frees each of them once.

* `subtree ar fuel i` -- the post-order list of the motions reachable from `i` through the `children` lists (what the
  recursion visits), as a function of the arena alone;
* `Desc ar i k` -- `k` is reachable from `i` through `children` lists (reflexive);
* `Forest ar` -- the invariant of the children lists: a listed child points back to the lister and is younger, no list
  has a repetition, a live motion with a parent is listed by that (live) parent, the children of a live motion are live.

Core Lean only.
-/
namespace OmplModel.LBKPIECE1
open OmplModel OmplModel.Grid OmplModel.Disc

variable {S α : Type} [Num α] [HasLog α]

/-- the motions the recursion of `removeMotion` visits from `i`, in the order they are freed (children first) -/
def subtree (ar : Array (Motion S)) : Nat → Nat → List Nat
  | 0, _ => []
  | fuel + 1, i =>
    match ar[i]? with
    | none => []
    | some m => m.children.flatMap (subtree ar fuel) ++ [i]

/-- reachable through `children` lists -/
inductive Desc (ar : Array (Motion S)) : Nat → Nat → Prop
  | refl {i : Nat} {m : Motion S} : ar[i]? = some m → Desc ar i i
  | step {i c k : Nat} {m : Motion S} : ar[i]? = some m → c ∈ m.children → Desc ar c k → Desc ar i k

structure Forest (ar : Array (Motion S)) : Prop where
  back : ∀ (p c : Nat) (m : Motion S), ar[p]? = some m → c ∈ m.children → p < c ∧ ∃ cm, ar[c]? = some cm ∧ cm.parent = some p
  nodup : ∀ (p : Nat) (m : Motion S), ar[p]? = some m → m.children.Nodup
  listed : ∀ (c p : Nat) (cm : Motion S), ar[c]? = some cm → cm.alive = true → cm.parent = some p →
    ∃ pm, ar[p]? = some pm ∧ pm.alive = true ∧ c ∈ pm.children
  down : ∀ (p c : Nat) (m : Motion S), ar[p]? = some m → m.alive = true → c ∈ m.children →
    ∃ cm, ar[c]? = some cm ∧ cm.alive = true

/-- "`k` is younger than its lister": the part of `Forest.back` the list lemmas need -/
def Younger (ar : Array (Motion S)) : Prop :=
  ∀ (p c : Nat) (m : Motion S), ar[p]? = some m → c ∈ m.children → p < c ∧ ∃ cm, ar[c]? = some cm ∧ cm.parent = some p

/-! ### list helpers -/

theorem flatMap_congr' {β γ : Type} {f g : β → List γ} : ∀ {l : List β}, (∀ c ∈ l, f c = g c) → l.flatMap f = l.flatMap g
  | [], _ => rfl
  | a :: l, h => by
    rw [List.flatMap_cons, List.flatMap_cons, h a (List.mem_cons_self ..),
      flatMap_congr' (fun c hc => h c (List.mem_cons_of_mem _ hc))]

theorem nodup_flatMap' {β γ : Type} {f : β → List γ} : ∀ {l : List β}, (∀ c ∈ l, (f c).Nodup) →
    l.Pairwise (fun a b => ∀ x, x ∈ f a → x ∈ f b → False) → (l.flatMap f).Nodup
  | [], _, _ => by simp
  | a :: l, h1, h2 => by
    rw [List.flatMap_cons]
    rw [List.pairwise_cons] at h2
    refine List.nodup_append.2 ⟨h1 a (List.mem_cons_self ..), nodup_flatMap' (fun c hc => h1 c (List.mem_cons_of_mem _ hc)) h2.2, ?_⟩
    intro x hx y hy hxy
    subst hxy
    obtain ⟨b, hb, hxb⟩ := List.mem_flatMap.1 hy
    exact h2.1 b hb x hx hxb

/-! ### `subtree` depends only on the children lists -/

theorem subtree_congr {ar ar' : Array (Motion S)}
    (h : ∀ k : Nat, (ar'[k]?).map Motion.children = (ar[k]?).map Motion.children) :
    ∀ (fuel i : Nat), subtree ar' fuel i = subtree ar fuel i := by
  intro fuel
  induction fuel with
  | zero => intro i; rfl
  | succ f ih =>
    intro i
    unfold subtree
    have hi := h i
    cases h1 : ar[i]? with
    | none =>
      rw [h1] at hi
      cases h2 : ar'[i]? with
      | none => rfl
      | some m' => rw [h2] at hi; cases hi
    | some m =>
      rw [h1] at hi
      cases h2 : ar'[i]? with
      | none => rw [h2] at hi; cases hi
      | some m' =>
        rw [h2] at hi
        simp only [Option.map_some, Option.some.injEq] at hi
        simp only []
        rw [hi, flatMap_congr' (fun c _ => ih c)]

/-- the same when the lists agree only from `i` upwards, in a `Younger` arena -/
theorem subtree_congr_ge {ar ar' : Array (Motion S)} (hy : Younger ar) :
    ∀ (fuel i : Nat), (∀ k : Nat, i ≤ k → (ar'[k]?).map Motion.children = (ar[k]?).map Motion.children) →
      subtree ar' fuel i = subtree ar fuel i := by
  intro fuel
  induction fuel with
  | zero => intro i _; rfl
  | succ f ih =>
    intro i h
    unfold subtree
    have hi := h i (Nat.le_refl _)
    cases h1 : ar[i]? with
    | none =>
      rw [h1] at hi
      cases h2 : ar'[i]? with
      | none => rfl
      | some m' => rw [h2] at hi; cases hi
    | some m =>
      rw [h1] at hi
      cases h2 : ar'[i]? with
      | none => rw [h2] at hi; cases hi
      | some m' =>
        rw [h2] at hi
        simp only [Option.map_some, Option.some.injEq] at hi
        simp only []
        rw [hi, flatMap_congr' (fun c hc => ih c (fun k hk => h k (Nat.le_trans (Nat.le_of_lt (hy i c m h1 hc).1) hk)))]

/-! ### `Desc` -/

theorem Desc.le {ar : Array (Motion S)} (hy : Younger ar) {i k : Nat} (h : Desc ar i k) : i ≤ k := by
  induction h with
  | refl _ => exact Nat.le_refl _
  | step hm hc _ ih => exact Nat.le_trans (Nat.le_of_lt (hy _ _ _ hm hc).1) ih

theorem Desc.tail {ar : Array (Motion S)} {i q c : Nat} {qm : Motion S} (h : Desc ar i q) (hq : ar[q]? = some qm)
    (hc : c ∈ qm.children) (hcp : ∃ cm, ar[c]? = some cm) : Desc ar i c := by
  induction h with
  | refl _ => obtain ⟨cm, hcm⟩ := hcp; exact .step hq hc (.refl hcm)
  | step hm hc' _ ih => exact .step hm hc' (ih hq)

theorem Desc.present {ar : Array (Motion S)} {i k : Nat} (h : Desc ar i k) : ∃ km, ar[k]? = some km := by
  induction h with
  | refl hm => exact ⟨_, hm⟩
  | step _ _ _ ih => exact ih

/-- a proper descendant has a parent that is a descendant too -/
theorem Desc.parent {ar : Array (Motion S)} (hy : Younger ar) {i k : Nat} (h : Desc ar i k) :
    k = i ∨ ∃ km q, ar[k]? = some km ∧ km.parent = some q ∧ Desc ar i q ∧ q < k := by
  induction h with
  | refl _ => exact Or.inl rfl
  | @step i c k m hm hc hd ih =>
    right
    rcases ih with rfl | ⟨km, q, h1, h2, h3, h4⟩
    · obtain ⟨hlt, cm, hcm, hp⟩ := hy _ _ _ hm hc
      exact ⟨cm, i, hcm, hp, .refl hm, hlt⟩
    · exact ⟨km, q, h1, h2, .step hm hc h3, h4⟩

/-- the subtrees of two different children of one motion are disjoint -/
theorem desc_disjoint {ar : Array (Motion S)} (hy : Younger ar) {i c1 c2 : Nat} {m : Motion S} (hm : ar[i]? = some m)
    (h1 : c1 ∈ m.children) (h2 : c2 ∈ m.children) (hne : c1 ≠ c2) : ∀ k, Desc ar c1 k → Desc ar c2 k → False := by
  intro k
  induction k using Nat.strongRecOn with
  | _ k ih =>
    intro d1 d2
    obtain ⟨l1, cm1, hcm1, hp1⟩ := hy _ _ _ hm h1
    obtain ⟨l2, cm2, hcm2, hp2⟩ := hy _ _ _ hm h2
    rcases d1.parent hy with e1 | ⟨km, q, a1, a2, a3, a4⟩
    · rcases d2.parent hy with e2 | ⟨km', q', b1, b2, b3, _⟩
      · exact hne (e1.symm.trans e2)
      · subst e1
        rw [hcm1] at b1; cases b1
        rw [hp1] at b2; cases b2
        exact absurd (b3.le hy) (Nat.not_le_of_lt l2)
    · rcases d2.parent hy with e2 | ⟨km', q', b1, b2, b3, _⟩
      · subst e2
        rw [hcm2] at a1; cases a1
        rw [hp2] at a2; cases a2
        exact absurd (a3.le hy) (Nat.not_le_of_lt l1)
      · rw [a1] at b1; cases b1
        rw [a2] at b2; cases b2
        exact ih q a4 a3 b3

/-! ### `subtree` lists exactly the descendants, once -/

theorem desc_of_mem_subtree {ar : Array (Motion S)} : ∀ (fuel i k : Nat), k ∈ subtree ar fuel i → Desc ar i k := by
  intro fuel
  induction fuel with
  | zero => intro i k h; cases h
  | succ f ih =>
    intro i k h
    unfold subtree at h
    cases hm : ar[i]? with
    | none => rw [hm] at h; cases h
    | some m =>
      rw [hm] at h
      simp only [] at h
      rcases List.mem_append.1 h with h | h
      · obtain ⟨c, hc, hk⟩ := List.mem_flatMap.1 h
        exact .step hm hc (ih c k hk)
      · rw [List.mem_singleton] at h; subst h; exact .refl hm

theorem mem_subtree_of_desc {ar : Array (Motion S)} (hy : Younger ar) {i k : Nat} (h : Desc ar i k) :
    ∀ fuel, ar.size < fuel + i → k ∈ subtree ar fuel i := by
  induction h with
  | @refl i m hm =>
    intro fuel hf
    have hi : i < ar.size := by
      have := (Array.getElem?_eq_some_iff.1 hm).1
      exact this
    cases fuel with
    | zero => omega
    | succ f =>
      unfold subtree
      rw [hm]
      exact List.mem_append_right _ (List.mem_singleton.2 rfl)
  | @step i c k m hm hc _ ih =>
    intro fuel hf
    have hi : i < ar.size := (Array.getElem?_eq_some_iff.1 hm).1
    cases fuel with
    | zero => omega
    | succ f =>
      unfold subtree
      rw [hm]
      have hlt := (hy _ _ _ hm hc).1
      exact List.mem_append_left _ (List.mem_flatMap.2 ⟨c, hc, ih f (by omega)⟩)

theorem subtree_nodup {ar : Array (Motion S)} (hy : Younger ar)
    (hn : ∀ (p : Nat) (m : Motion S), ar[p]? = some m → m.children.Nodup) :
    ∀ (fuel i : Nat), (subtree ar fuel i).Nodup := by
  intro fuel
  induction fuel with
  | zero => intro i; exact List.nodup_nil
  | succ f ih =>
    intro i
    unfold subtree
    cases hm : ar[i]? with
    | none => exact List.nodup_nil
    | some m =>
      simp only []
      refine List.nodup_append.2 ⟨?_, (by simp), ?_⟩
      · refine nodup_flatMap' (fun c _ => ih c) ?_
        refine List.Pairwise.imp_of_mem ?_ (hn i m hm)
        intro a b ha hb hab x hxa hxb
        exact desc_disjoint hy hm ha hb hab x (desc_of_mem_subtree f a x hxa) (desc_of_mem_subtree f b x hxb)
      · intro x hx y hyy hxy
        rw [List.mem_singleton] at hyy
        subst hxy; subst hyy
        obtain ⟨c, hc, hk⟩ := List.mem_flatMap.1 hx
        have := (desc_of_mem_subtree f c _ hk).le hy
        have := (hy _ _ _ hm hc).1
        omega

/-! ### what the recursion does to the arena and to the free list -/

def kill (L : List Nat) (k : Nat) (m : Motion S) : Motion S := if k ∈ L then { m with alive := false } else m

/-- `ar'` is `ar` with exactly the motions of `L` marked dead -/
def KillRel (ar ar' : Array (Motion S)) (L : List Nat) : Prop := ∀ k : Nat, ar'[k]? = (ar[k]?).map (kill L k)

theorem KillRel.refl (ar : Array (Motion S)) : KillRel ar ar [] := by
  intro k
  cases ar[k]? with
  | none => rfl
  | some m => simp [kill]

theorem KillRel.trans {a b c : Array (Motion S)} {L1 L2 : List Nat} (h1 : KillRel a b L1) (h2 : KillRel b c L2) :
    KillRel a c (L1 ++ L2) := by
  intro k
  rw [h2 k, h1 k]
  cases a[k]? with
  | none => rfl
  | some m =>
    simp only [Option.map_some, Option.some.injEq]
    unfold kill
    by_cases e1 : k ∈ L1 <;> by_cases e2 : k ∈ L2 <;> simp [e1, e2]

theorem KillRel.congr {a b : Array (Motion S)} {L L' : List Nat} (h : KillRel a b L) (hL : ∀ k, k ∈ L ↔ k ∈ L') :
    KillRel a b L' := by
  intro k
  rw [h k]
  cases a[k]? with
  | none => rfl
  | some m =>
    simp only [Option.map_some, Option.some.injEq]
    unfold kill
    by_cases e : k ∈ L
    · rw [if_pos e, if_pos ((hL k).1 e)]
    · rw [if_neg e, if_neg (fun e' => e ((hL k).2 e'))]

theorem KillRel.kids {a b : Array (Motion S)} {L : List Nat} (h : KillRel a b L) (k : Nat) :
    (b[k]?).map Motion.children = (a[k]?).map Motion.children := by
  rw [h k]
  cases a[k]? with
  | none => rfl
  | some m =>
    simp only [Option.map_some, Option.some.injEq]
    unfold kill
    split <;> rfl

theorem markDead_kill (st : St S α) (i : Nat) : KillRel st.ar (markDead st i).ar [i] := by
  intro k
  unfold markDead
  simp only []
  rw [getElem?_modifyAt]
  by_cases e : i = k
  · subst e
    rw [if_pos rfl]
    cases st.ar[i]? with
    | none => rfl
    | some m => simp [kill]
  · rw [if_neg e]
    cases st.ar[k]? with
    | none => rfl
    | some m =>
      have : ¬ k ∈ [i] := by simp; exact fun h => e h.symm
      simp [kill, this]

theorem freed_setDisc (st : St S α) (t : Bool) (d : Disc α) : (st.setDisc t d).freed = st.freed := by
  unfold St.setDisc; split <;> rfl

/-- the loop over a children list, given the statement for one recursive call -/
theorem fold_kill (cfg : Cfg S α) (t : Bool) (f : Nat)
    (ih : ∀ (c : Nat) (s : St S α), KillRel s.ar (removeSubtree cfg t f c false s).ar (subtree s.ar f c) ∧
      (removeSubtree cfg t f c false s).freed = s.freed ++ subtree s.ar f c) :
    ∀ (cs : List Nat) (s : St S α),
      KillRel s.ar (cs.foldl (fun s c => removeSubtree cfg t f c false s) s).ar (cs.flatMap (subtree s.ar f)) ∧
      (cs.foldl (fun s c => removeSubtree cfg t f c false s) s).freed = s.freed ++ cs.flatMap (subtree s.ar f) := by
  intro cs
  induction cs with
  | nil => intro s; exact ⟨KillRel.refl _, by simp⟩
  | cons c cs ihc =>
    intro s
    rw [List.foldl_cons, List.flatMap_cons]
    obtain ⟨k1, f1⟩ := ih c s
    obtain ⟨k2, f2⟩ := ihc (removeSubtree cfg t f c false s)
    have hsame : ∀ c', subtree (removeSubtree cfg t f c false s).ar f c' = subtree s.ar f c' :=
      fun c' => subtree_congr (fun k => k1.kids k) f c'
    rw [flatMap_congr' (fun c' _ => hsame c')] at k2 f2
    exact ⟨k1.trans k2, by rw [f2, f1, List.append_assoc]⟩

/-- **the recursion (`child->parent = nullptr` calls)**: exactly the motions of `subtree` are marked dead, and they are
appended to the free list in that order -/
theorem removeSubtree_kill (cfg : Cfg S α) (t : Bool) : ∀ (fuel i : Nat) (st : St S α),
    KillRel st.ar (removeSubtree cfg t fuel i false st).ar (subtree st.ar fuel i) ∧
    (removeSubtree cfg t fuel i false st).freed = st.freed ++ subtree st.ar fuel i := by
  intro fuel
  induction fuel with
  | zero => intro i st; exact ⟨KillRel.refl _, by simp [removeSubtree, subtree]⟩
  | succ f ih =>
    intro i st
    unfold removeSubtree subtree
    cases hm : st.ar[i]? with
    | none => exact ⟨KillRel.refl _, by simp⟩
    | some m =>
      simp only [Bool.false_eq_true, ↓reduceIte]
      have h1 : KillRel st.ar (markDead (st.setDisc t (remove cfg.P (st.disc t) i (cfg.coord m.state)).1) i).ar [i] := by
        have := markDead_kill (st.setDisc t (remove cfg.P (st.disc t) i (cfg.coord m.state)).1) i
        rw [ar_setDisc] at this; exact this
      have hf1 : (markDead (st.setDisc t (remove cfg.P (st.disc t) i (cfg.coord m.state)).1) i).freed = st.freed := by
        unfold markDead; simp only []; exact freed_setDisc _ _ _
      obtain ⟨k2, f2⟩ := fold_kill cfg t f ih m.children
        (markDead (st.setDisc t (remove cfg.P (st.disc t) i (cfg.coord m.state)).1) i)
      rw [flatMap_congr' (fun c' _ => subtree_congr (fun k => h1.kids k) f c')] at k2 f2
      refine ⟨?_, ?_⟩
      · show KillRel st.ar (freeMotion _ i).ar _
        unfold freeMotion
        simp only []
        refine (h1.trans k2).congr ?_
        intro k
        simp only [List.mem_append, List.mem_singleton]
        exact Or.comm
      · show (freeMotion _ i).freed = _
        unfold freeMotion
        simp only []
        rw [f2, hf1, List.append_assoc]

/-! ### the top-level call (`detach = true`) -/

/-- "remove self from parent list" seen from motion `k` -/
def detachK (par : Option Nat) (i k : Nat) (x : Motion S) : Motion S :=
  if par = some k then { x with children := x.children.erase i } else x

theorem kill_parent (L : List Nat) (k : Nat) (x : Motion S) : (kill L k x).parent = x.parent := by
  unfold kill; split <;> rfl
theorem kill_children (L : List Nat) (k : Nat) (x : Motion S) : (kill L k x).children = x.children := by
  unfold kill; split <;> rfl
theorem kill_alive (L : List Nat) (k : Nat) (x : Motion S) : (kill L k x).alive = true ↔ x.alive = true ∧ k ∉ L := by
  unfold kill
  by_cases e : k ∈ L
  · rw [if_pos e]; simp [e]
  · rw [if_neg e]; simp [e]
theorem detachK_parent (par : Option Nat) (i k : Nat) (x : Motion S) : (detachK par i k x).parent = x.parent := by
  unfold detachK; split <;> rfl
theorem detachK_alive (par : Option Nat) (i k : Nat) (x : Motion S) : (detachK par i k x).alive = x.alive := by
  unfold detachK; split <;> rfl
theorem detachK_children (par : Option Nat) (i k : Nat) (x : Motion S) :
    (detachK par i k x).children = if par = some k then x.children.erase i else x.children := by
  unfold detachK; split <;> rfl

def detachOpt (st1 : St S α) (par : Option Nat) (i : Nat) : St S α :=
  match par with
  | some p => detachFrom st1 p i
  | none => st1

theorem removeSubtree_top_eq (cfg : Cfg S α) (t : Bool) (f i : Nat) (st : St S α) {m : Motion S} (hm : st.ar[i]? = some m) :
    removeSubtree cfg t (f + 1) i true st =
      freeMotion (m.children.foldl (fun s c => removeSubtree cfg t f c false s)
        (detachOpt (markDead (st.setDisc t (remove cfg.P (st.disc t) i (cfg.coord m.state)).1) i) m.parent i)) i := by
  conv => lhs; unfold removeSubtree
  rw [hm]
  simp only [↓reduceIte]
  unfold detachOpt
  cases m.parent <;> rfl

/-- what the top-level `removeMotion(disc, motion)` does, motion by motion -/
theorem removeSubtree_top (cfg : Cfg S α) (t : Bool) (st : St S α) (hF : Forest st.ar) {i : Nat} {m : Motion S}
    (hm : st.ar[i]? = some m) (ha : m.alive = true) :
    (removeSubtree cfg t (st.ar.size + 1) i true st).freed = st.freed ++ subtree st.ar (st.ar.size + 1) i ∧
    ∀ k : Nat, (removeSubtree cfg t (st.ar.size + 1) i true st).ar[k]? =
      (st.ar[k]?).map (fun x => kill (m.children.flatMap (subtree st.ar st.ar.size)) k (detachK m.parent i k (kill [i] k x))) := by
  have hy : Younger st.ar := hF.back
  rw [removeSubtree_top_eq cfg t _ i st hm]
  unfold subtree
  rw [hm]
  simp only []
  generalize hst1 : markDead (st.setDisc t (remove cfg.P (st.disc t) i (cfg.coord m.state)).1) i = st1
  have h1 : KillRel st.ar st1.ar [i] := by
    have := markDead_kill (st.setDisc t (remove cfg.P (st.disc t) i (cfg.coord m.state)).1) i
    rw [ar_setDisc, hst1] at this; exact this
  have hf1 : st1.freed = st.freed := by
    rw [← hst1]; unfold markDead; simp only []; exact freed_setDisc _ _ _
  generalize hst2 : detachOpt st1 m.parent i = st2
  have h2 : ∀ k : Nat, st2.ar[k]? = (st1.ar[k]?).map (detachK m.parent i k) := by
    intro k
    rw [← hst2]
    unfold detachOpt
    cases hp : m.parent with
    | none =>
      simp only []
      cases st1.ar[k]? with
      | none => rfl
      | some x => simp [detachK]
    | some p =>
      simp only []
      unfold detachFrom
      simp only []
      rw [getElem?_modifyAt]
      by_cases e : p = k
      · subst e
        rw [if_pos rfl]
        cases st1.ar[p]? with
        | none => rfl
        | some x => simp [detachK]
      · rw [if_neg e]
        cases st1.ar[k]? with
        | none => rfl
        | some x =>
          have : ¬ (some p = some k) := fun h => e (Option.some.inj h)
          simp [detachK, this]
  have hf2 : st2.freed = st.freed := by
    rw [← hst2, ← hf1]
    unfold detachOpt
    cases m.parent with
    | none => rfl
    | some p => rfl
  -- the parent is older than `i`
  have hpar : ∀ p, m.parent = some p → p < i := by
    intro p hp
    obtain ⟨pm, hpm, _, hin⟩ := hF.listed i p m hm ha hp
    exact (hF.back p i pm hpm hin).1
  -- from `i` upwards the children lists are those of `st.ar`
  have hk2 : ∀ k : Nat, i < k → (st2.ar[k]?).map Motion.children = (st.ar[k]?).map Motion.children := by
    intro k hk
    rw [h2 k, ← h1.kids k]
    cases st1.ar[k]? with
    | none => rfl
    | some x =>
      simp only [Option.map_some, Option.some.injEq]
      rw [detachK_children, if_neg]
      intro hp
      have := hpar k hp
      omega
  obtain ⟨k3, f3⟩ := fold_kill cfg t st.ar.size (removeSubtree_kill cfg t st.ar.size) m.children st2
  rw [flatMap_congr' (fun c' hc' => subtree_congr_ge hy st.ar.size c'
    (fun k hk => hk2 k (Nat.lt_of_lt_of_le (hy i c' m hm hc').1 hk)))] at k3 f3
  refine ⟨?_, ?_⟩
  · show (freeMotion _ i).freed = _
    unfold freeMotion
    simp only []
    rw [f3, hf2, List.append_assoc]
  · intro k
    show (freeMotion _ i).ar[k]? = _
    unfold freeMotion
    simp only []
    rw [k3 k, h2 k, h1 k]
    cases st.ar[k]? with
    | none => rfl
    | some x => rfl

/-- a descendant of a live motion is live -/
theorem Desc.alive {ar : Array (Motion S)} (hF : Forest ar) {i k : Nat} (h : Desc ar i k) :
    ∀ x, ar[i]? = some x → x.alive = true → ∃ km, ar[k]? = some km ∧ km.alive = true := by
  induction h with
  | refl _ => intro x hx ha; exact ⟨x, hx, ha⟩
  | step hm hc _ ih =>
    intro x hx ha
    rw [hm] at hx; cases hx
    obtain ⟨cm, hcm, hca⟩ := hF.down _ _ _ hm ha hc
    exact ih cm hcm hca

/-- **`removeMotion` is exact.**  In a forest arena, removing the live motion `i`:
the forest invariant holds afterwards; the motions appended to the free list are the descendants of `i` (through the
children lists, `i` included), each exactly once, and each of them was live (nothing is freed twice); and afterwards a
motion is live exactly when it was live before and is not a descendant of `i`. -/
theorem removeSubtree_exact (cfg : Cfg S α) (t : Bool) (st : St S α) (hF : Forest st.ar) {i : Nat} {m : Motion S}
    (hm : st.ar[i]? = some m) (ha : m.alive = true) :
    Forest (removeSubtree cfg t (st.ar.size + 1) i true st).ar ∧
    ∃ L, (removeSubtree cfg t (st.ar.size + 1) i true st).freed = st.freed ++ L ∧ L.Nodup ∧
      (∀ k, k ∈ L ↔ Desc st.ar i k) ∧
      (∀ k, k ∈ L → ∃ km, st.ar[k]? = some km ∧ km.alive = true) ∧
      ∀ (k : Nat) (km' : Motion S), (removeSubtree cfg t (st.ar.size + 1) i true st).ar[k]? = some km' →
        (km'.alive = true ↔ (∃ km, st.ar[k]? = some km ∧ km.alive = true) ∧ ¬ Desc st.ar i k) := by
  have hy : Younger st.ar := hF.back
  obtain ⟨hfreed, hchar⟩ := removeSubtree_top cfg t st hF hm ha
  generalize removeSubtree cfg t (st.ar.size + 1) i true st = st' at hfreed hchar ⊢
  have hL : ∀ k, k ∈ subtree st.ar (st.ar.size + 1) i ↔ Desc st.ar i k :=
    fun k => ⟨desc_of_mem_subtree _ _ _, fun h => mem_subtree_of_desc hy h _ (by omega)⟩
  -- membership in the two kill lists together = membership in `subtree`
  have hmemL : ∀ k, (k ∉ m.children.flatMap (subtree st.ar st.ar.size) ∧ k ∉ [i]) ↔ ¬ Desc st.ar i k := by
    intro k
    rw [← hL k]
    show _ ↔ ¬ k ∈ subtree st.ar (st.ar.size + 1) i
    unfold subtree
    rw [hm]
    simp only [List.mem_append, not_or]
  -- motion by motion
  have fwd : ∀ (k : Nat) (x : Motion S), st.ar[k]? = some x → ∃ x', st'.ar[k]? = some x' ∧ x'.parent = x.parent ∧
      (x'.alive = true ↔ x.alive = true ∧ ¬ Desc st.ar i k) ∧
      x'.children = (if m.parent = some k then x.children.erase i else x.children) := by
    intro k x hx
    refine ⟨_, by rw [hchar k, hx]; rfl, ?_, ?_, ?_⟩
    · rw [kill_parent, detachK_parent, kill_parent]
    · rw [kill_alive, detachK_alive, kill_alive, ← hmemL k]
      exact ⟨fun h => ⟨h.1.1, h.2, h.1.2⟩, fun h => ⟨⟨h.1, h.2.2⟩, h.2.1⟩⟩
    · rw [kill_children, detachK_children, kill_children]
  have bwd : ∀ (k : Nat) (x' : Motion S), st'.ar[k]? = some x' → ∃ x, st.ar[k]? = some x ∧ x'.parent = x.parent ∧
      (x'.alive = true ↔ x.alive = true ∧ ¬ Desc st.ar i k) ∧
      x'.children = (if m.parent = some k then x.children.erase i else x.children) := by
    intro k x' hx'
    cases hx : st.ar[k]? with
    | none => rw [hchar k, hx] at hx'; cases hx'
    | some x =>
      obtain ⟨x'', e, r⟩ := fwd k x hx
      rw [e] at hx'; cases hx'
      exact ⟨x, rfl, r⟩
  have sub : ∀ (k c : Nat) (x : Motion S), c ∈ (if m.parent = some k then x.children.erase i else x.children) →
      c ∈ x.children := by
    intro k c x h
    split at h
    · exact List.mem_of_mem_erase h
    · exact h
  have hii : Desc st.ar i i := .refl hm
  refine ⟨⟨?_, ?_, ?_, ?_⟩, subtree st.ar (st.ar.size + 1) i, hfreed, subtree_nodup hy hF.nodup _ _, hL, ?_, ?_⟩
  · -- back
    intro p c x' hx' hc
    obtain ⟨x, hx, _, _, hch⟩ := bwd p x' hx'
    rw [hch] at hc
    obtain ⟨hlt, cm, hcm, hcp⟩ := hF.back p c x hx (sub _ _ _ hc)
    obtain ⟨cm', hcm', hp', _⟩ := fwd c cm hcm
    exact ⟨hlt, cm', hcm', hp'.trans hcp⟩
  · -- nodup
    intro p x' hx'
    obtain ⟨x, hx, _, _, hch⟩ := bwd p x' hx'
    rw [hch]
    split
    · exact (hF.nodup p x hx).erase _
    · exact hF.nodup p x hx
  · -- listed
    intro c p cm' hcm' hca hcp
    obtain ⟨cm, hcm, e1, e2, _⟩ := bwd c cm' hcm'
    obtain ⟨hca0, hnd⟩ := e2.1 hca
    obtain ⟨pm, hpm, hpa, hin⟩ := hF.listed c p cm hcm hca0 (e1.symm.trans hcp)
    obtain ⟨pm', hpm', _, f2, f3⟩ := fwd p pm hpm
    refine ⟨pm', hpm', f2.2 ⟨hpa, fun hd => hnd (hd.tail hpm hin ⟨cm, hcm⟩)⟩, ?_⟩
    rw [f3]
    split
    · refine (List.mem_erase_of_ne ?_).2 hin
      intro hci
      subst hci
      exact hnd hii
    · exact hin
  · -- down
    intro p c x' hx' hxa hc
    obtain ⟨x, hx, _, e2, hch⟩ := bwd p x' hx'
    obtain ⟨hxa0, hnp⟩ := e2.1 hxa
    rw [hch] at hc
    have hc0 := sub _ _ _ hc
    obtain ⟨cm, hcm, hca⟩ := hF.down p c x hx hxa0 hc0
    obtain ⟨cm', hcm', _, f2, _⟩ := fwd c cm hcm
    refine ⟨cm', hcm', f2.2 ⟨hca, ?_⟩⟩
    intro hd
    obtain ⟨_, cm2, hcm2, hcp2⟩ := hF.back p c x hx hc0
    rcases hd.parent hy with e | ⟨km, q, a1, a2, a3, _⟩
    · subst e
      rw [hm] at hcm2; cases hcm2
      rw [if_pos hcp2] at hc
      exact ((hF.nodup p x hx).mem_erase_iff.1 hc).1 rfl
    · rw [hcm2] at a1; cases a1
      rw [hcp2] at a2; cases a2
      exact hnp a3
  · -- every freed motion was live
    intro k hk
    exact ((hL k).1 hk).alive hF m hm ha
  · -- who is live afterwards
    intro k km' hk'
    obtain ⟨x, hx, _, e2, _⟩ := bwd k km' hk'
    rw [e2]
    exact ⟨fun h => ⟨⟨x, hx, h.1⟩, h.2⟩, fun h => by
      obtain ⟨⟨km, e, a⟩, nd⟩ := h
      rw [hx] at e; cases e; exact ⟨a, nd⟩⟩

/-! ### the forest invariant through the other arena operations -/

/-- what `Forest` reads of a motion -/
def proj (m : Motion S) : Option Nat × List Nat × Bool := (m.parent, m.children, m.alive)

theorem proj_eq {x y : Motion S} (h : proj x = proj y) : x.parent = y.parent ∧ x.children = y.children ∧ x.alive = y.alive := by
  unfold proj at h
  simp only [Prod.mk.injEq] at h
  exact h

theorem proj_fwd {ar ar' : Array (Motion S)} (h : ∀ k : Nat, (ar'[k]?).map proj = (ar[k]?).map proj) {k : Nat} {x : Motion S}
    (hx : ar[k]? = some x) : ∃ x', ar'[k]? = some x' ∧ x'.parent = x.parent ∧ x'.children = x.children ∧ x'.alive = x.alive := by
  have := h k
  rw [hx] at this
  cases hx' : ar'[k]? with
  | none => rw [hx'] at this; cases this
  | some x' =>
    rw [hx'] at this
    simp only [Option.map_some, Option.some.injEq] at this
    exact ⟨x', rfl, proj_eq this⟩

theorem Forest.congr {ar ar' : Array (Motion S)} (h : ∀ k : Nat, (ar'[k]?).map proj = (ar[k]?).map proj) (hF : Forest ar) :
    Forest ar' := by
  have h' : ∀ k : Nat, (ar[k]?).map proj = (ar'[k]?).map proj := fun k => (h k).symm
  refine ⟨?_, ?_, ?_, ?_⟩
  · intro p c x' hx' hc
    obtain ⟨x, hx, _, e2, _⟩ := proj_fwd h' hx'
    obtain ⟨hlt, cm, hcm, hcp⟩ := hF.back p c x hx (e2 ▸ hc)
    obtain ⟨cm', hcm', f1, _, _⟩ := proj_fwd h hcm
    exact ⟨hlt, cm', hcm', f1.trans hcp⟩
  · intro p x' hx'
    obtain ⟨x, hx, _, e2, _⟩ := proj_fwd h' hx'
    rw [← e2]; exact hF.nodup p x hx
  · intro c p cm' hcm' ha hp
    obtain ⟨cm, hcm, e1, _, e3⟩ := proj_fwd h' hcm'
    obtain ⟨pm, hpm, hpa, hin⟩ := hF.listed c p cm hcm (e3.trans ha) (e1.trans hp)
    obtain ⟨pm', hpm', _, f2, f3⟩ := proj_fwd h hpm
    exact ⟨pm', hpm', f3.trans hpa, f2 ▸ hin⟩
  · intro p c x' hx' ha hc
    obtain ⟨x, hx, _, e2, e3⟩ := proj_fwd h' hx'
    obtain ⟨cm, hcm, hca⟩ := hF.down p c x hx (e3.trans ha) (e2 ▸ hc)
    obtain ⟨cm', hcm', _, _, f3⟩ := proj_fwd h hcm
    exact ⟨cm', hcm', f3.trans hca⟩

theorem addMotion_get (cfg : Cfg S α) (st : St S α) (m : Motion S) (k : Nat) :
    (addMotion cfg st m).ar[k]? = ((st.ar.push m)[k]?).map
      (fun x => if m.parent = some k then { x with children := x.children ++ [st.ar.size] } else x) := by
  unfold addMotion
  simp only []
  rw [ar_setDisc]
  cases hp : m.parent with
  | none =>
    simp only []
    cases (st.ar.push m)[k]? with
    | none => rfl
    | some x => simp
  | some p =>
    simp only []
    rw [getElem?_modifyAt]
    by_cases e : p = k
    · subst e
      rw [if_pos rfl]
      cases (st.ar.push m)[p]? with
      | none => rfl
      | some x => simp
    · rw [if_neg e]
      have : ¬ (some p = some k) := fun h => e (Option.some.inj h)
      cases (st.ar.push m)[k]? with
      | none => rfl
      | some x => simp [this]

/-- `new Motion` under a live parent (or as a root) keeps the forest -/
theorem addMotion_forest (cfg : Cfg S α) {st : St S α} (hF : Forest st.ar) (m : Motion S) (hc : m.children = [])
    (ha : m.alive = true) (hp : ∀ p, m.parent = some p → ∃ pm, st.ar[p]? = some pm ∧ pm.alive = true) :
    Forest (addMotion cfg st m).ar := by
  have hne : m.parent ≠ some st.ar.size := by
    intro h
    obtain ⟨pm, hpm, _⟩ := hp _ h
    have := (Array.getElem?_eq_some_iff.1 hpm).1
    omega
  have old : ∀ (k : Nat) (x : Motion S), st.ar[k]? = some x → ∃ x', (addMotion cfg st m).ar[k]? = some x' ∧
      x'.parent = x.parent ∧ x'.alive = x.alive ∧
      x'.children = (if m.parent = some k then x.children ++ [st.ar.size] else x.children) := by
    intro k x hx
    have hk : k < st.ar.size := (Array.getElem?_eq_some_iff.1 hx).1
    refine ⟨_, by rw [addMotion_get, Array.getElem?_push, if_neg (by omega), hx]; rfl, ?_, ?_, ?_⟩ <;> split <;> rfl
  have new : (addMotion cfg st m).ar[st.ar.size]? = some m := by
    rw [addMotion_get, Array.getElem?_push, if_pos rfl]
    simp only [Option.map_some, if_neg hne]
  have inv : ∀ (k : Nat) (x' : Motion S), (addMotion cfg st m).ar[k]? = some x' → (k = st.ar.size ∧ x' = m) ∨
      ∃ x, st.ar[k]? = some x ∧ x'.parent = x.parent ∧ x'.alive = x.alive ∧
        x'.children = (if m.parent = some k then x.children ++ [st.ar.size] else x.children) := by
    intro k x' hx'
    by_cases e : k = st.ar.size
    · subst e; rw [new] at hx'; cases hx'; exact Or.inl ⟨rfl, rfl⟩
    · right
      cases hx : st.ar[k]? with
      | none =>
        rw [addMotion_get, Array.getElem?_push, if_neg e, hx] at hx'; cases hx'
      | some x =>
        obtain ⟨x'', e1, r⟩ := old k x hx
        rw [e1] at hx'; cases hx'
        exact ⟨x, rfl, r⟩
  have present_lt : ∀ (q c : Nat) (x : Motion S), st.ar[q]? = some x → c ∈ x.children → c < st.ar.size := by
    intro q c x hx hcx
    obtain ⟨_, cm, hcm, _⟩ := hF.back q c x hx hcx
    exact (Array.getElem?_eq_some_iff.1 hcm).1
  refine ⟨?_, ?_, ?_, ?_⟩
  · -- back
    intro q c x' hx' hcx
    rcases inv q x' hx' with ⟨_, rfl⟩ | ⟨x, hx, _, _, e3⟩
    · rw [hc] at hcx; cases hcx
    · have hq : q < st.ar.size := (Array.getElem?_eq_some_iff.1 hx).1
      rw [e3] at hcx
      have hcase : c ∈ x.children ∨ (m.parent = some q ∧ c = st.ar.size) := by
        split at hcx
        · rename_i hpq
          rcases List.mem_append.1 hcx with h | h
          · exact Or.inl h
          · exact Or.inr ⟨hpq, List.mem_singleton.1 h⟩
        · exact Or.inl hcx
      rcases hcase with h | ⟨hpq, rfl⟩
      · obtain ⟨hlt, cm, hcm, hcp⟩ := hF.back q c x hx h
        obtain ⟨cm', hcm', f1, _, _⟩ := old c cm hcm
        exact ⟨hlt, cm', hcm', f1.trans hcp⟩
      · exact ⟨hq, m, new, hpq⟩
  · -- nodup
    intro q x' hx'
    rcases inv q x' hx' with ⟨_, rfl⟩ | ⟨x, hx, _, _, e3⟩
    · rw [hc]; exact List.nodup_nil
    · rw [e3]
      split
      · refine List.nodup_append.2 ⟨hF.nodup q x hx, by simp, ?_⟩
        intro a ha' b hb hab
        rw [List.mem_singleton] at hb
        subst hab; subst hb
        exact absurd (present_lt q _ x hx ha') (Nat.lt_irrefl _)
      · exact hF.nodup q x hx
  · -- listed
    intro c p cm' hcm' hca hcp
    rcases inv c cm' hcm' with ⟨rfl, rfl⟩ | ⟨cm, hcm, e1, e2, _⟩
    · obtain ⟨pm, hpm, hpa⟩ := hp p hcp
      obtain ⟨pm', hpm', _, f2, f3⟩ := old p pm hpm
      refine ⟨pm', hpm', f2.trans hpa, ?_⟩
      rw [f3, if_pos hcp]
      exact List.mem_append_right _ (List.mem_singleton.2 rfl)
    · obtain ⟨pm, hpm, hpa, hin⟩ := hF.listed c p cm hcm (e2 ▸ hca) (e1 ▸ hcp)
      obtain ⟨pm', hpm', _, f2, f3⟩ := old p pm hpm
      refine ⟨pm', hpm', f2.trans hpa, ?_⟩
      rw [f3]
      split
      · exact List.mem_append_left _ hin
      · exact hin
  · -- down
    intro q c x' hx' hxa hcx
    rcases inv q x' hx' with ⟨_, rfl⟩ | ⟨x, hx, _, e2, e3⟩
    · rw [hc] at hcx; cases hcx
    · rw [e3] at hcx
      have hcase : c ∈ x.children ∨ c = st.ar.size := by
        split at hcx
        · rcases List.mem_append.1 hcx with h | h
          · exact Or.inl h
          · exact Or.inr (List.mem_singleton.1 h)
        · exact Or.inl hcx
      rcases hcase with h | rfl
      · obtain ⟨cm, hcm, hca⟩ := hF.down q c x hx (e2 ▸ hxa) h
        obtain ⟨cm', hcm', _, f2, _⟩ := old c cm hcm
        exact ⟨cm', hcm', f2.trans hca⟩
      · exact ⟨m, new, ha⟩

def AliveAt (ar : Array (Motion S)) (i : Nat) : Prop := ∃ m, ar[i]? = some m ∧ m.alive = true

theorem AliveAt.congr {ar ar' : Array (Motion S)} (h : ∀ k : Nat, (ar'[k]?).map proj = (ar[k]?).map proj) {i : Nat}
    (ha : AliveAt ar i) : AliveAt ar' i := by
  obtain ⟨m, hm, hma⟩ := ha
  obtain ⟨m', hm', _, _, e⟩ := proj_fwd h hm
  exact ⟨m', hm', e.trans hma⟩

theorem modifyAt_valid_proj (ar : Array (Motion S)) (i : Nat) (k : Nat) :
    ((modifyAt ar i (fun x => { x with valid := true }))[k]?).map proj = (ar[k]?).map proj := by
  rw [getElem?_modifyAt]
  by_cases e : i = k
  · rw [if_pos e]
    cases ar[k]? with
    | none => rfl
    | some x => rfl
  · rw [if_neg e]

/-- the lazy validation walk keeps the forest (its `removeMotion` call meets the precondition of
`removeSubtree_exact`: the motion it removes is live), and a walk that answers `true` removed and added nothing -/
theorem validateFrom_forest (cfg : Cfg S α) (t : Bool) : ∀ (ids : List Nat) (st : St S α), Forest st.ar →
    (∀ i ∈ ids, AliveAt st.ar i) →
      Forest (validateFrom cfg t ids st).2.ar ∧
      ((validateFrom cfg t ids st).1 = true →
        ∀ k : Nat, ((validateFrom cfg t ids st).2.ar[k]?).map proj = (st.ar[k]?).map proj) := by
  intro ids
  induction ids with
  | nil => intro st h _; exact ⟨h, fun _ _ => rfl⟩
  | cons i rest ih =>
    intro st hF hal
    have keep := ih st hF (fun j hj => hal j (List.mem_cons_of_mem _ hj))
    unfold validateFrom
    cases hm : st.ar[i]? with
    | none => exact keep
    | some m =>
      simp only []
      by_cases hv : m.valid = true
      · rw [if_pos hv]; exact keep
      · rw [if_neg hv]
        cases hb : m.parent.bind (fun p => st.ar[p]?.map (fun pm => (p, pm))) with
        | none => exact keep
        | some ppm =>
          obtain ⟨p, pm⟩ := ppm
          have hpar : m.parent = some p ∧ st.ar[p]? = some pm := by
            cases hp0 : m.parent with
            | none => simp [hp0] at hb
            | some p0 =>
              simp only [hp0, Option.bind_some, Option.map_eq_some_iff, Prod.mk.injEq] at hb
              obtain ⟨a, ha, rfl, rfl⟩ := hb
              exact ⟨rfl, ha⟩
          simp only []
          by_cases hr : (cfg.checkMotion pm.state m.state).1 = true
          · rw [if_pos hr]
            have hpj := modifyAt_valid_proj st.ar i
            obtain ⟨a, b⟩ := ih { st with ar := modifyAt st.ar i (fun x => { x with valid := true }) }
              (hF.congr hpj) (fun j hj => (hal j (List.mem_cons_of_mem _ hj)).congr hpj)
            exact ⟨a, fun ht k => (b ht k).trans (hpj k)⟩
          · rw [if_neg hr]
            have hia : m.alive = true := by
              obtain ⟨m', hm', ha'⟩ := hal i (List.mem_cons_self ..)
              rw [hm] at hm'; cases hm'; exact ha'
            obtain ⟨hF1, L, _, _, hL, _, hlive⟩ := removeSubtree_exact cfg t st hF hm hia
            split
            · refine ⟨addMotion_forest cfg hF1 _ rfl rfl ?_, fun h => by cases h⟩
              intro p' hp'
              simp only [Option.some.injEq] at hp'
              subst hp'
              -- the parent of the removed motion stays live: it is older than `i`, hence no descendant
              obtain ⟨pm0, hpm0, hpa, hin⟩ := hF.listed i p m hm hia hpar.1
              obtain ⟨pm', hpm', _⟩ := (removeSubtree_frame cfg t (st.ar.size + 1) i true st).1.2 p pm0 hpm0
              refine ⟨pm', hpm', (hlive p pm' hpm').2 ⟨⟨pm0, hpm0, hpa⟩, fun hd => ?_⟩⟩
              have h1 := hd.le hF.back
              have h2 := (hF.back p i pm0 hpm0 hin).1
              omega
            · exact ⟨hF1, fun h => by cases h⟩

/-- the ancestors of a live motion are live -/
theorem chainUp_alive {ar : Array (Motion S)} (hF : Forest ar) : ∀ (fuel i : Nat), AliveAt ar i →
    ∀ j ∈ chainUp ar fuel i, AliveAt ar j := by
  intro fuel
  induction fuel with
  | zero => intro i _ j hj; cases hj
  | succ f ih =>
    intro i hi j hj
    unfold chainUp at hj
    obtain ⟨m, hm, hma⟩ := hi
    rw [hm] at hj
    simp only [] at hj
    cases hp : m.parent with
    | none =>
      rw [hp] at hj
      simp only [List.mem_singleton] at hj
      subst hj; exact ⟨m, hm, hma⟩
    | some p =>
      rw [hp] at hj
      simp only [List.mem_cons] at hj
      rcases hj with rfl | hj
      · exact ⟨m, hm, hma⟩
      · obtain ⟨pm, hpm, hpa, _⟩ := hF.listed i p m hm hma hp
        exact ih p ⟨pm, hpm, hpa⟩ j hj

theorem isPathValid_forest (cfg : Cfg S α) (t : Bool) (i : Nat) (st : St S α) (hF : Forest st.ar) (hi : AliveAt st.ar i) :
    Forest (isPathValid cfg t i st).2.ar ∧
    ((isPathValid cfg t i st).1 = true → ∀ k : Nat, ((isPathValid cfg t i st).2.ar[k]?).map proj = (st.ar[k]?).map proj) := by
  unfold isPathValid
  exact validateFrom_forest cfg t _ st hF (fun j hj => chainUp_alive hF _ i hi j (List.mem_reverse.1 hj))

/-! ### every reachable arena is a forest -/

theorem addMotion_new (cfg : Cfg S α) (st : St S α) (m : Motion S) (hne : m.parent ≠ some st.ar.size) :
    (addMotion cfg st m).ar[st.ar.size]? = some m := by
  rw [addMotion_get, Array.getElem?_push, if_pos rfl]
  simp only [Option.map_some, if_neg hne]

theorem addMotion_aliveAt (cfg : Cfg S α) (st : St S α) (m : Motion S) {k : Nat} (h : AliveAt st.ar k) :
    AliveAt (addMotion cfg st m).ar k := by
  obtain ⟨x, hx, hxa⟩ := h
  have hk : k < st.ar.size := (Array.getElem?_eq_some_iff.1 hx).1
  refine ⟨_, by rw [addMotion_get, Array.getElem?_push, if_neg (by omega), hx]; rfl, ?_⟩
  split <;> exact hxa

theorem parent_ne_size {st : St S α} {p : Nat} (h : AliveAt st.ar p) : (some p : Option Nat) ≠ some st.ar.size := by
  intro e
  obtain ⟨x, hx, _⟩ := h
  have := (Array.getElem?_eq_some_iff.1 hx).1
  cases e
  omega

theorem tryConnect_forest {cfg : Cfg S α} {starts : Array S} {st : St S α} (h : LInv cfg starts st) (hF : Forest st.ar)
    (useStart : Bool) (id : Nat) (hid : AliveAt st.ar id) (existing : Motion S) (x : S) (dr : Draw S α) (info : Info) :
    Forest (tryConnect cfg useStart st id existing x dr info).1.ar := by
  rcases tryConnect_cases cfg useStart st id existing x dr info with e | ⟨ocd, co, cm, hl, hco, hcm, r1, r2, hr1, hr2, hcase⟩
  · rw [e]; exact hF
  · have hFa : Forest (addMotion cfg st (mkConnect cm existing id useStart)).ar :=
      addMotion_forest cfg hF _ rfl rfl (fun p hp => by
        simp only [mkConnect, Option.some.injEq] at hp; subst hp; exact hid)
    have hnew : AliveAt (addMotion cfg st (mkConnect cm existing id useStart)).ar st.ar.size :=
      ⟨_, addMotion_new cfg st _ (parent_ne_size hid), rfl⟩
    have h1 := isPathValid_forest cfg useStart st.ar.size _ hFa hnew
    rw [← hr1] at h1
    have h2 : r1.1 = true → Forest r2.2.ar := by
      intro h1t
      obtain ⟨mco, hmco, hmcoa, _⟩ := cell_motion h.2 (!useStart) hl hco
      have hco1 : AliveAt r1.2.ar co :=
        (addMotion_aliveAt cfg st (mkConnect cm existing id useStart) ⟨mco, hmco, hmcoa⟩).congr (h1.2 h1t)
      rw [hr2]
      exact (isPathValid_forest cfg (!useStart) co r1.2 h1.1 hco1).1
    rcases hcase with ⟨_, e⟩ | ⟨h1t, _, e⟩ | ⟨h1t, _, e⟩
    · rw [e]; exact h1.1
    · rw [e]; exact h2 h1t
    · rw [e]; exact h2 h1t

theorem goalPhase_forest (cfg : Cfg S α) {st : St S α} (hF : Forest st.ar) : Forest (goalPhase cfg st).1.ar := by
  unfold goalPhase
  simp only []
  split
  · rename_i s _
    exact addMotion_forest cfg (st := { st with sampledGoals := _ }) hF
      { state := s, parent := none, root := s, valid := true, children := [], inStart := false } rfl rfl
      (fun p hp => by cases hp)
  · exact hF

theorem step_forest {cfg : Cfg S α} {starts : Array S} (hcoord : ∀ s, (cfg.coord s).length = cfg.P.dim)
    {st : St S α} (h : LInv cfg starts st) (hF : Forest st.ar) (dr : Draw S α) : Forest (step cfg st dr).1.ar := by
  unfold step
  simp only []
  have h0 : LInv cfg starts (({ st with startTree := !st.startTree } : St S α).setDisc st.startTree
      (countIteration (({ st with startTree := !st.startTree } : St S α).disc st.startTree))) := by
    apply setDisc_linv (st := ({ st with startTree := !st.startTree } : St S α)) ⟨h.1, ⟨h.2.dS, h.2.dG, h.2.coh⟩⟩
    have := (⟨h.2.dS, h.2.dG, h.2.coh⟩ : DOK cfg ({ st with startTree := !st.startTree } : St S α)).disc st.startTree
    exact ⟨this.ginv, this.sync, this.mot, this.cov, this.size, this.lnd⟩
  have hF0 : Forest (({ st with startTree := !st.startTree } : St S α).setDisc st.startTree
      (countIteration (({ st with startTree := !st.startTree } : St S α).disc st.startTree))).ar := by
    rw [ar_setDisc]; exact hF
  have hg := goalPhase_linv hcoord h0
  have hFg := goalPhase_forest cfg hF0
  generalize (goalPhase cfg (({ st with startTree := !st.startTree } : St S α).setDisc st.startTree
      (countIteration (({ st with startTree := !st.startTree } : St S α).disc st.startTree)))) = gp at hg hFg
  split
  · exact hFg
  · have hsel := select_inv (hg.2.disc st.startTree) dr.u dr.pick
    have hs := setDisc_linv hg st.startTree _ hsel.1
    have hFs : Forest (gp.1.setDisc st.startTree (select cfg.P (gp.1.disc st.startTree) dr.u dr.pick).1).ar := by
      rw [ar_setDisc]; exact hFg
    split
    · exact hFs
    · rename_i e ecell hsome
      have hmem := hsel.2 e ecell hsome
      obtain ⟨me, hme, hmea, hmet, _⟩ := (mem_liveAr cfg st.startTree gp.1.ar e ecell).1 hmem
      split
      · exact hFs
      · rename_i existing hex
        rw [ar_setDisc] at hex
        rw [hme] at hex; cases hex
        have hea : AliveAt (gp.1.setDisc st.startTree (select cfg.P (gp.1.disc st.startTree) dr.u dr.pick).1).ar e :=
          ⟨me, by rw [ar_setDisc]; exact hme, hmea⟩
        have hadd : LInv cfg starts (addMotion cfg (gp.1.setDisc st.startTree (select cfg.P (gp.1.disc st.startTree) dr.u dr.pick).1)
            { state := dr.nearSample, parent := some e, root := me.root, valid := false, children := [], inStart := st.startTree }) := by
          refine ⟨addMotion_inv hs.1 _ ⟨me, by rw [ar_setDisc]; exact hme, fun hv => by cases hv⟩, ?_⟩
          refine addMotion_dok hcoord hs.2 _ rfl rfl ?_
          intro p hp
          simp only [Option.some.injEq] at hp; subst hp
          exact ⟨me, by rw [ar_setDisc]; exact hme, hmet⟩
        have hFadd : Forest (addMotion cfg (gp.1.setDisc st.startTree (select cfg.P (gp.1.disc st.startTree) dr.u dr.pick).1)
            { state := dr.nearSample, parent := some e, root := me.root, valid := false, children := [], inStart := st.startTree }).ar :=
          addMotion_forest cfg hFs _ rfl rfl (fun p hp => by
            simp only [Option.some.injEq] at hp; subst hp; exact hea)
        apply tryConnect_forest hadd hFadd
        exact ⟨_, addMotion_new cfg _ _ (parent_ne_size hea), rfl⟩

theorem loop_forest {cfg : Cfg S α} {starts : Array S} (hcoord : ∀ s, (cfg.coord s).length = cfg.P.dim) :
    ∀ (script : List (Draw S α)) (st : St S α), LInv cfg starts st → Forest st.ar → Forest (loop cfg st script).1.ar
  | [], _, _, hF => hF
  | dr :: rest, st, h, hF => by
    unfold loop
    simp only []
    split
    · exact step_forest hcoord h hF dr
    · exact loop_forest hcoord rest _ (step_linv hcoord h dr) (step_forest hcoord h hF dr)

theorem addStarts_forest (cfg : Cfg S α) : ∀ (l : List S) (st : St S α), Forest st.ar → Forest (addStarts cfg l st).ar
  | [], _, hF => hF
  | s :: rest, st, hF => by
    unfold addStarts
    exact addStarts_forest cfg rest _ (addMotion_forest cfg hF _ rfl rfl (fun p hp => by cases hp))

theorem initState_forest (cfg : Cfg S α) (starts : Array S) : Forest (initState cfg starts).1.ar := by
  unfold initState
  apply addStarts_forest
  refine ⟨?_, ?_, ?_, ?_⟩ <;> intros <;> simp at *

/-- **every arena `solve` reaches is a forest** -/
theorem solve_forest (cfg : Cfg S α) (hcoord : ∀ s, (cfg.coord s).length = cfg.P.dim) (starts : Array S)
    (script : List (Draw S α)) : Forest (solve cfg starts script).final.ar := by
  unfold solve
  simp only []
  split
  · exact initState_forest cfg starts
  · split
    · exact initState_forest cfg starts
    · have := loop_forest hcoord script _ (initState_linv cfg hcoord starts) (initState_forest cfg starts)
      split <;> exact this

end OmplModel.LBKPIECE1
