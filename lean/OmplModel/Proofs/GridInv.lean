import OmplModel.Proofs.GridBasic
import OmplModel.Proofs.GridHeap
/-!
Invariants of the `GridN`/`GridB` model, preserved by every protocol step
(helper lemmas for `Props/C13.lean`; core Lean only).
-/
namespace OmplModel.Grid
open OmplModel.Heap

/-! ### list helpers -/

theorem countP_or_beq {α} [BEq α] [LawfulBEq α] (p : α → Bool) (x : α) (L : List α) (nd : L.Nodup)
    (hx : p x = false) :
    L.countP (fun w => p w || w == x) = L.countP p + (if x ∈ L then 1 else 0) := by
  induction L with
  | nil => simp
  | cons a as ih =>
    have nd' := (List.nodup_cons.1 nd)
    have ih' := ih nd'.2
    simp only [List.countP_cons, ih']
    by_cases hax : a = x
    · subst hax
      have : a ∉ as := nd'.1
      simp [hx, this]
    · have h1 : (a == x) = false := by simpa using hax
      have h2 : (x ∈ a :: as) ↔ x ∈ as := by
        simp [List.mem_cons, Ne.symm hax]
      simp only [h1, Bool.or_false, h2]
      omega

theorem countP_and_bne {α} [BEq α] [LawfulBEq α] (p : α → Bool) (x : α) (L : List α) (nd : L.Nodup)
    (hx : p x = true) :
    L.countP (fun w => p w && !(w == x)) + (if x ∈ L then 1 else 0) = L.countP p := by
  induction L with
  | nil => simp
  | cons a as ih =>
    have nd' := (List.nodup_cons.1 nd)
    have ih' := ih nd'.2
    simp only [List.countP_cons]
    by_cases hax : a = x
    · subst hax
      have : a ∉ as := nd'.1
      simp [hx, this] at ih' ⊢
      omega
    · have h1 : (a == x) = false := by simpa using hax
      have h2 : (x ∈ a :: as) ↔ x ∈ as := by
        simp [List.mem_cons, Ne.symm hax]
      simp only [h1, Bool.not_false, Bool.and_true, h2]
      omega

/-! ### `has` depends on the coordinate list only -/

theorem has_eq_decide_mem (cells : List Cell) (x : Coord) :
    has cells x = decide (x ∈ cells.map (·.coord)) := by
  rw [Bool.eq_iff_iff, has_iff]
  simp [eq_comm]

theorem has_congr {cells cells' : List Cell} (h : cells'.map (·.coord) = cells.map (·.coord)) :
    has cells' = has cells := by
  funext x; rw [has_eq_decide_mem, has_eq_decide_mem, h]

/-- definition-side count: present neighbour coordinates + boundary dimensions -/
def cnt (cfg : Cfg) (cells : List Cell) (x : Coord) : Nat :=
  (neighborCoords cfg.dim x).countP (has cells) + boundaryDims cfg x

theorem cnt_congr {cfg : Cfg} {cells cells' : List Cell}
    (h : cells'.map (·.coord) = cells.map (·.coord)) (x : Coord) : cnt cfg cells' x = cnt cfg cells x := by
  unfold cnt; rw [has_congr h]

theorem cnt_eq_neighbors (cfg : Cfg) (cells : List Cell) (x : Coord) :
    cnt cfg cells x = (neighbors cfg.dim cells x).length + boundaryDims cfg x := by
  unfold cnt; rw [neighbors_length]

theorem has_append_single (cells : List Cell) (c : Cell) :
    has (cells ++ [c]) = fun w => has cells w || w == c.coord := by
  funext w
  rw [Bool.eq_iff_iff]
  simp only [Bool.or_eq_true, has_iff, beq_iff_eq]
  constructor
  · rintro ⟨d, hd, rfl⟩
    rcases List.mem_append.1 hd with h | h
    · exact Or.inl ⟨d, h, rfl⟩
    · simp at h; subst h; exact Or.inr rfl
  · rintro (⟨d, hd, rfl⟩ | h)
    · exact ⟨d, List.mem_append_left _ hd, rfl⟩
    · exact ⟨c, by simp, h.symm⟩

theorem cnt_append_absent (cfg : Cfg) (cells : List Cell) (c : Cell) (z : Coord)
    (habs : has cells c.coord = false) (hz : z.length = cfg.dim) :
    cnt cfg (cells ++ [c]) z = cnt cfg cells z + (if c.coord ∈ neighborCoords cfg.dim z then 1 else 0) := by
  unfold cnt
  rw [has_append_single, countP_or_beq _ _ _ (neighborCoords_nodup hz) habs]
  omega

theorem has_eraseCoord (cells : List Cell) (x : Coord) :
    has (eraseCoord cells x) = fun w => has cells w && !(w == x) := by
  funext w
  rw [Bool.eq_iff_iff]
  simp only [Bool.and_eq_true, has_iff, eraseCoord, List.mem_filter, Bool.not_eq_true', beq_eq_false_iff_ne, ne_eq]
  constructor
  · rintro ⟨d, ⟨hd, hne⟩, rfl⟩
    exact ⟨⟨d, hd, rfl⟩, hne⟩
  · rintro ⟨⟨d, hd, rfl⟩, hne⟩
    exact ⟨d, ⟨hd, hne⟩, rfl⟩

theorem cnt_erase_present (cfg : Cfg) (cells : List Cell) (x z : Coord)
    (hpres : has cells x = true) (hz : z.length = cfg.dim) :
    cnt cfg (eraseCoord cells x) z + (if x ∈ neighborCoords cfg.dim z then 1 else 0) = cnt cfg cells z := by
  unfold cnt
  rw [has_eraseCoord]
  have := countP_and_bne (has cells) x _ (neighborCoords_nodup hz) hpres
  omega

/-! ### `setCell`, `eraseCoord` and the queue sides -/

theorem map_coord_setCell (cells : List Cell) (c' : Cell) :
    (setCell cells c').map (·.coord) = cells.map (·.coord) := by
  unfold setCell
  rw [List.map_map]
  apply List.map_congr_left
  intro d _
  simp only [Function.comp]
  split
  · rename_i h; exact (by simpa using h : d.coord = c'.coord).symm
  · rfl

/-- the (handle, key) pairs a queue should hold: the cells selected by `p` -/
def side (p : Cell → Bool) (cells : List Cell) : List (Nat × Key) :=
  (cells.filter p).map (fun c => (c.helem, c.key))

def one (p : Cell → Bool) (c : Cell) : List (Nat × Key) := if p c then [(c.helem, c.key)] else []

theorem side_perm {p : Cell → Bool} {a b : List Cell} (h : a.Perm b) : (side p a).Perm (side p b) :=
  (h.filter p).map _

theorem side_cons (p : Cell → Bool) (c : Cell) (R : List Cell) : side p (c :: R) = one p c ++ side p R := by
  unfold side one
  by_cases h : p c = true <;> simp [h]

/-- with distinct coordinates, the cell found at `y` can be pulled to the front -/
theorem perm_cons_erase {cells : List Cell} {y : Coord} {c : Cell} (nd : (cells.map (·.coord)).Nodup)
    (hget : getCell cells y = some c) : cells.Perm (c :: eraseCoord cells y) := by
  induction cells with
  | nil => simp [getCell] at hget
  | cons a as ih =>
    have nd' : a.coord ∉ as.map (·.coord) ∧ (as.map (·.coord)).Nodup := List.nodup_cons.1 nd
    unfold getCell at hget
    rw [List.find?_cons] at hget
    by_cases hay : a.coord = y
    · have hb : (a.coord == y) = true := by simpa using hay
      simp only [hb] at hget
      have hac : a = c := by simpa using hget
      subst hac
      have : eraseCoord (a :: as) y = as := by
        unfold eraseCoord
        rw [List.filter_cons]
        simp only [hb, Bool.not_true, Bool.false_eq_true, if_false]
        apply List.filter_eq_self.2
        intro d hd
        have : d.coord ≠ a.coord := by
          intro he
          exact nd'.1 (List.mem_map.2 ⟨d, hd, he⟩)
        simpa [← hay] using this
      rw [this]
    · have hb : (a.coord == y) = false := by simpa using hay
      simp only [hb] at hget
      have := ih nd'.2 hget
      have he : eraseCoord (a :: as) y = a :: eraseCoord as y := by
        unfold eraseCoord
        rw [List.filter_cons]; simp [hb]
      rw [he]
      exact (List.Perm.cons a this).trans (List.Perm.swap c a _)

theorem setCell_perm {cells : List Cell} {y : Coord} {c c' : Cell} (nd : (cells.map (·.coord)).Nodup)
    (hget : getCell cells y = some c) (hc : c'.coord = y) :
    (setCell cells c').Perm (c' :: eraseCoord cells y) := by
  induction cells with
  | nil => simp [getCell] at hget
  | cons a as ih =>
    have nd' : a.coord ∉ as.map (·.coord) ∧ (as.map (·.coord)).Nodup := List.nodup_cons.1 nd
    unfold getCell at hget
    rw [List.find?_cons] at hget
    by_cases hay : a.coord = y
    · have hb : (a.coord == y) = true := by simpa using hay
      have hrest : ∀ d ∈ as, d.coord ≠ y := by
        intro d hd he
        exact nd'.1 (List.mem_map.2 ⟨d, hd, he.trans hay.symm⟩)
      have h1 : eraseCoord (a :: as) y = as := by
        unfold eraseCoord
        rw [List.filter_cons]
        simp only [hb, Bool.not_true, Bool.false_eq_true, if_false]
        apply List.filter_eq_self.2
        intro d hd
        simpa using hrest d hd
      have h2 : setCell (a :: as) c' = c' :: as := by
        unfold setCell
        rw [List.map_cons]
        have : (a.coord == c'.coord) = true := by rw [hc]; exact hb
        simp only [this, if_true]
        congr 1
        conv => rhs; rw [← List.map_id as]
        apply List.map_congr_left
        intro d hd
        have : (d.coord == c'.coord) = false := by rw [hc]; simpa using hrest d hd
        simp [this]
      rw [h1, h2]
    · have hb : (a.coord == y) = false := by simpa using hay
      simp only [hb] at hget
      have := ih nd'.2 hget
      have he : eraseCoord (a :: as) y = a :: eraseCoord as y := by
        unfold eraseCoord
        rw [List.filter_cons]; simp [hb]
      have hs : setCell (a :: as) c' = a :: setCell as c' := by
        unfold setCell
        rw [List.map_cons]
        have : (a.coord == c'.coord) = false := by rw [hc]; exact hb
        simp [this]
      rw [he, hs]
      exact (List.Perm.cons a this).trans (List.Perm.swap c' a _)

theorem side_split {p : Cell → Bool} {cells : List Cell} {y : Coord} {c : Cell}
    (nd : (cells.map (·.coord)).Nodup) (hget : getCell cells y = some c) :
    (side p cells).Perm (one p c ++ side p (eraseCoord cells y)) := by
  rw [← side_cons]; exact side_perm (perm_cons_erase nd hget)

theorem side_setCell {p : Cell → Bool} {cells : List Cell} {y : Coord} {c c' : Cell}
    (nd : (cells.map (·.coord)).Nodup) (hget : getCell cells y = some c) (hc : c'.coord = y) :
    (side p (setCell cells c')).Perm (one p c' ++ side p (eraseCoord cells y)) := by
  rw [← side_cons]; exact side_perm (setCell_perm nd hget hc)

theorem mem_setCell {cells : List Cell} {y : Coord} {c c' d : Cell} (nd : (cells.map (·.coord)).Nodup)
    (hget : getCell cells y = some c) (hc : c'.coord = y) :
    d ∈ setCell cells c' ↔ d = c' ∨ (d ∈ cells ∧ d.coord ≠ y) := by
  rw [(setCell_perm nd hget hc).mem_iff]
  simp [eraseCoord, List.mem_filter]

theorem mem_eraseCoord {cells : List Cell} {x : Coord} {d : Cell} :
    d ∈ eraseCoord cells x ↔ d ∈ cells ∧ d.coord ≠ x := by
  simp [eraseCoord, List.mem_filter]

/-! ### one heap, one cell rewritten -/

section heapside
variable {lt : Key → Key → Bool} {H : Heap Key} {h : Nat} {k k' : Key} {R : List (Nat × Key)}

theorem notin_of_nodup (ok : H.HandlesOK) (hp : H.items.Perm ((h, k) :: R)) : ∀ p ∈ R, p.1 ≠ h := by
  have nd : (((h, k) :: R).map (·.1)).Nodup := ((hp.map _).nodup_iff).1 ok.nodup
  rw [List.map_cons, List.nodup_cons] at nd
  intro p hp' he
  exact nd.1 (List.mem_map.2 ⟨p, hp', he⟩)

theorem heap_stay (ok : H.HandlesOK) (hp : H.items.Perm ((h, k) :: R)) :
    (H.setKey lt h k').items.Perm ((h, k') :: R) := by
  refine (Heap.items_setKey lt H h k' ok).trans ?_
  refine (hp.map _).trans ?_
  rw [List.map_cons]
  simp only [beq_self_eq_true, if_true]
  have hn := notin_of_nodup ok hp
  have : R.map (fun p => if p.1 == h then (h, k') else p) = R := by
    conv => rhs; rw [← List.map_id R]
    apply List.map_congr_left
    intro p hp'
    have : (p.1 == h) = false := by simpa using hn p hp'
    simp [this]
  rw [this]

theorem heap_leave (ok : H.HandlesOK) (hp : H.items.Perm ((h, k) :: R)) :
    (H.remove lt h).items.Perm R := by
  refine (Heap.items_remove lt H h ok).trans ?_
  refine (hp.filter _).trans ?_
  rw [List.filter_cons]
  simp only [bne_self_eq_false, Bool.false_eq_true, if_false]
  have hn := notin_of_nodup ok hp
  have : R.filter (fun p => p.1 != h) = R := by
    apply List.filter_eq_self.2
    intro p hp'
    simpa using hn p hp'
  rw [this]

theorem heap_enter (hp : H.items.Perm R) : (H.insert lt k').items.Perm ((H.next, k') :: R) :=
  (Heap.items_insert lt H k').trans (List.Perm.cons _ hp)

end heapside

end OmplModel.Grid
