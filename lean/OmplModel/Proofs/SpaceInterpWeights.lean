import OmplModel.Model.SpaceInterp
/-!
C07: compound weights do not enter `interpolate` (nor `satisfiesBounds`, `equalStates`, the shape).
Core Lean only, generic over `[Num α]`, any SO(2) leaf `f`, any Klein wrap `wr` — so it holds for the
`Float` instantiation the driver runs.  `mapWeights g` rewrites EVERY weight at EVERY nesting level
(e.g. `g = fun _ => 0`: all weights zero).
-/
namespace OmplModel.SpaceInterp
open OmplModel OmplModel.Space

variable {α : Type}

/-- replace every compound weight, at every nesting level (also under wrappers), by `g w` -/
def mapWeights (g : α → α) : Space α → Space α
  | .ccons w h tl => .ccons (g w) (mapWeights g h) (mapWeights g tl)
  | .wrap s => .wrap (mapWeights g s)
  | s => s

variable [Num α]

theorem interpolateW_mapWeights (f : α → α → α → α) (wr : α → α) (g : α → α) (sp : Space α)
    (a b : St α) (t : α) :
    interpolateW f wr (mapWeights g sp) a b t = interpolateW f wr sp a b t := by
  induction sp generalizing a b with
  | ccons w h tl ihh iht =>
    cases a <;> cases b <;> simp [mapWeights, interpolateW, ihh, iht]
  | wrap s ih => simp [mapWeights, interpolateW, ih]
  | _ => simp [mapWeights]

theorem inBounds_mapWeights (g : α → α) (sp : Space α) (a : St α) :
    inBounds (mapWeights g sp) a = inBounds sp a := by
  induction sp generalizing a with
  | ccons w h tl ihh iht => cases a <;> simp [mapWeights, inBounds, ihh, iht]
  | wrap s ih => simp [mapWeights, inBounds, ih]
  | _ => simp [mapWeights]

theorem eqStates_mapWeights (g : α → α) (sp : Space α) (a b : St α) :
    eqStates (mapWeights g sp) a b = eqStates sp a b := by
  induction sp generalizing a b with
  | ccons w h tl ihh iht => cases a <;> cases b <;> simp [mapWeights, eqStates, ihh, iht]
  | wrap s ih => simp [mapWeights, eqStates, ih]
  | _ => simp [mapWeights]

theorem wellTyped_mapWeights (g : α → α) (sp : Space α) (a : St α) :
    wellTyped (mapWeights g sp) a = wellTyped sp a := by
  induction sp generalizing a with
  | ccons w h tl ihh iht => cases a <;> simp [mapWeights, wellTyped, ihh, iht]
  | wrap s ih => simp [mapWeights, wellTyped, ih]
  | _ => simp [mapWeights]

end OmplModel.SpaceInterp
