import OmplModel.Proofs.SpaceBounds
/-!
C08 helper lemmas, part 3 (`[EX]`): every leaf sampler, as a function of its raw draws, ends inside the bounds.
-/
namespace OmplModel.SpaceBounds
open OmplModel
attribute [-instance] Num.instOfNat

/-- the documented range of `uniform01()` -/
def drawsOk (R : Rng ℝ) : Prop := ∀ k, 0 ≤ R.u k ∧ R.u k < 1

theorem uniformReal_val (a b u : ℝ) : uniformReal a b u = (b - a) * u + a := rfl
theorem gaussian_val (m sd g : ℝ) : gaussian m sd g = g * sd + m := rfl

theorem uniformReal_mem {a b u : ℝ} (hab : a ≤ b) (h0 : 0 ≤ u) (h1 : u < 1) :
    a ≤ uniformReal a b u ∧ uniformReal a b u ≤ b := by
  rw [uniformReal_val]; constructor <;> nlinarith

theorem uniformReal_lt {a b u : ℝ} (hab : a < b) (h1 : u < 1) : uniformReal a b u < b := by
  rw [uniformReal_val]; nlinarith

/-- without `a ≤ b` the draw still lies between the two end points -/
theorem uniformReal_between {a b u lo hi : ℝ} (h0 : 0 ≤ u) (h1 : u < 1) (ha : lo ≤ a ∧ a ≤ hi) (hb : lo ≤ b ∧ b ≤ hi) :
    lo ≤ uniformReal a b u ∧ uniformReal a b u ≤ hi := by
  rw [uniformReal_val]
  have e : (b - a) * u + a = u * b + (1 - u) * a := by ring
  rw [e]
  constructor <;> nlinarith [ha.1, ha.2, hb.1, hb.2]

theorem rvUniform_sat (R : Rng ℝ) (hR : drawsOk R) : ∀ (lo hi : List ℝ) (k : Nat), rvOk lo hi →
    rvSat lo hi (rvUniform R lo hi k) = true
  | [], _, _, _ => by simp [rvSat]
  | _ :: _, [], _, _ => by simp [rvSat]
  | l :: lo, h :: hi, k, hok => by
    simp only [rvUniform, rvSat, Bool.and_eq_true]
    have := uniformReal_mem hok.1 (hR k).1 (hR k).2
    exact ⟨rvSat1_of_mem this.1 this.2, rvUniform_sat R hR lo hi (k + 1) hok.2⟩

theorem max_val (a b : ℝ) : Num.max a b = if a < b then b else a := rfl
theorem min_val (a b : ℝ) : Num.min a b = if b < a then b else a := rfl

theorem rvNear_sat (R : Rng ℝ) (hR : drawsOk R) {d : ℝ} (hd : 0 ≤ d) : ∀ (lo hi cs : List ℝ) (k : Nat), rvOk lo hi →
    rvSat lo hi cs = true → rvSat lo hi (rvNear R d lo hi cs k) = true
  | [], _, _, _, _, _ => by simp [rvSat]
  | _ :: _, [], _, _, _, _ => by simp [rvSat]
  | _ :: _, _ :: _, [], _, _, _ => by simp [rvNear, rvSat]
  | l :: lo, h :: hi, c :: cs, k, hok, hs => by
    simp only [rvSat, Bool.and_eq_true] at hs
    simp only [rvNear, rvSat, Bool.and_eq_true]
    refine ⟨?_, rvNear_sat R hR hd lo hi cs (k + 1) hok.2 hs.2⟩
    have hc := (rvSat1_iff _ _ _).mp hs.1
    have he := eps_pos
    have hlh := hok.1
    rw [rvSat1_iff]
    apply uniformReal_between (hR k).1 (hR k).2
    · rw [max_val]; split_ifs <;> constructor <;> linarith
    · rw [min_val]; split_ifs <;> constructor <;> linarith

theorem rvGauss_sat (R : Rng ℝ) (sd : ℝ) : ∀ (lo hi cs : List ℝ) (k : Nat), rvOk lo hi →
    rvSat lo hi (rvGauss R sd lo hi cs k) = true
  | [], _, _, _, _ => by simp [rvSat]
  | _ :: _, [], _, _, _ => by simp [rvSat]
  | _ :: _, _ :: _, [], _, _ => by simp [rvGauss, rvSat]
  | l :: lo, h :: hi, c :: cs, k, hok => by
    simp only [rvGauss, rvSat, Bool.and_eq_true]
    have := clampLH_mem hok.1 (gaussian c sd (R.g k))
    exact ⟨rvSat1_of_mem this.1 this.2, rvGauss_sat R sd lo hi cs (k + 1) hok.2⟩

/-- `uniformReal(-pi, pi)` lands in `[-π, π)` -/
theorem so2Uniform_sat {u : ℝ} (h0 : 0 ≤ u) (h1 : u < 1) : so2Sat (uniformReal (-Num.pi) Num.pi u) = true := by
  rw [so2Sat_iff, pi_val]
  have hp := Real.pi_pos
  exact ⟨(uniformReal_mem (by linarith) h0 h1).1, uniformReal_lt (by linarith) h1⟩

theorem toInt_floor (x : ℝ) : Num.toInt (Num.floor x) = ⌊x⌋ := by
  show (if (0 : ℝ) ≤ (⌊x⌋ : ℝ) then ⌊(⌊x⌋ : ℝ)⌋ else ⌈(⌊x⌋ : ℝ)⌉) = ⌊x⌋
  split_ifs <;> simp

/-- the clamp test of the fixed `uniformInt` (taken in `double` before the cast) over ℝ -/
theorem uniformInt_val (lo hi : Int) (u : ℝ) :
    uniformInt lo hi u =
      if hi < ⌊uniformReal (Num.ofInt lo) (Num.ofInt hi + Num.ofNat 1) u⌋ then hi
      else ⌊uniformReal (Num.ofInt lo) (Num.ofInt hi + Num.ofNat 1) u⌋ := by
  unfold uniformInt
  simp only [toInt_floor]
  have hiff : (Num.ofInt hi < Num.floor (uniformReal (Num.ofInt lo) (Num.ofInt hi + Num.ofNat 1) u)) ↔
      hi < ⌊uniformReal (Num.ofInt lo) (Num.ofInt hi + Num.ofNat 1) u⌋ :=
    (Int.cast_lt (R := ℝ) (m := hi) (n := ⌊uniformReal (Num.ofInt lo) (Num.ofInt hi + Num.ofNat 1) u⌋))
  by_cases h : hi < ⌊uniformReal (Num.ofInt lo) (Num.ofInt hi + Num.ofNat 1) u⌋
  · rw [if_pos (hiff.mpr h), if_pos h]
  · rw [if_neg (fun hh => h (hiff.mp hh)), if_neg h]

/-- `uniformInt(lo, hi)` lands in `[lo, hi]` -/
theorem uniformInt_sat {lo hi : Int} (h : lo ≤ hi) {u : ℝ} (h0 : 0 ≤ u) (h1 : u < 1) :
    discSat lo hi (uniformInt lo hi u) = true := by
  unfold discSat
  rw [uniformInt_val]
  have hc : (lo : ℝ) ≤ (hi : ℝ) := by exact_mod_cast h
  have hc1 : (lo : ℝ) ≤ (hi : ℝ) + 1 := by linarith
  have hm := (uniformReal_mem (a := (lo : ℝ)) (b := (hi : ℝ) + 1) hc1 h0 h1).1
  have hlo : (lo : ℝ) ≤ uniformReal (Num.ofInt lo) (Num.ofInt hi + Num.ofNat 1) u := by
    simpa [Num.ofInt, Num.ofNat] using hm
  have hfl : lo ≤ ⌊uniformReal (Num.ofInt lo) (Num.ofInt hi + Num.ofNat 1) u⌋ := Int.le_floor.mpr hlo
  split_ifs <;> simp <;> omega

/-! ### SO(3) -/
theorem so3Sat_congr {x y z w x' y' z' w' : ℝ} (h : nrmSq x y z w = nrmSq x' y' z' w') :
    so3Sat x y z w = so3Sat x' y' z' w' := by
  unfold so3Sat so3Norm; rw [h]

theorem so3Sat_of_unit {x y z w : ℝ} (h : nrmSq x y z w = 1) : so3Sat x y z w = true :=
  so3Sat_of_close (by rw [h]; simp [eps_pos.le])

/-- `RNG::quaternion` produces a unit quaternion from any three draws in [0,1) -/
theorem rngQuaternion_unit {x0 u1 u2 : ℝ} (h0 : 0 ≤ x0) (h1 : x0 < 1) :
    ∃ a b c d, rngQuaternion x0 u1 u2 = .so3 a b c d ∧ nrmSq a b c d = 1 := by
  refine ⟨_, _, _, _, rfl, ?_⟩
  simp only [nrmSq_val, Num.sqrt, Num.sin, Num.cos, Num.ofNat, Nat.cast_one]
  have e1 : Real.sqrt (1 - x0) * Real.sqrt (1 - x0) = 1 - x0 := Real.mul_self_sqrt (by linarith)
  have e2 : Real.sqrt x0 * Real.sqrt x0 = x0 := Real.mul_self_sqrt h0
  have t1 := Real.sin_sq_add_cos_sq (((2 : ℕ) : ℝ) * Num.pi * u1)
  have t2 := Real.sin_sq_add_cos_sq (((2 : ℕ) : ℝ) * Num.pi * u2)
  nlinarith [t1, t2, e1, e2]

/-- `computeAxisAngle` always produces a unit quaternion -/
theorem axisAngle_unit (ax ay az angle : ℝ) :
    ∃ a b c d, axisAngle ax ay az angle = .so3 a b c d ∧ nrmSq a b c d = 1 := by
  unfold axisAngle
  simp only [Num.sqrt, Num.sin, Num.cos, Num.ofNat, qErr_val]
  split_ifs with h
  · exact ⟨_, _, _, _, rfl, by simp [nrmSq_val]⟩
  · refine ⟨_, _, _, _, rfl, ?_⟩
    push Not at h
    set r := Real.sqrt (ax * ax + ay * ay + az * az) with hr
    have hpos : 0 < r := by linarith [show (0 : ℝ) < 1 / 1000000000 by norm_num]
    have hsq : r * r = ax * ax + ay * ay + az * az :=
      Real.mul_self_sqrt (by nlinarith [mul_self_nonneg ax, mul_self_nonneg ay, mul_self_nonneg az])
    have t := Real.sin_sq_add_cos_sq (angle / ((2 : ℕ) : ℝ))
    simp only [nrmSq_val]
    have : Real.sin (angle / ((2 : ℕ) : ℝ)) / r * ax * (Real.sin (angle / ((2 : ℕ) : ℝ)) / r * ax) +
        Real.sin (angle / ((2 : ℕ) : ℝ)) / r * ay * (Real.sin (angle / ((2 : ℕ) : ℝ)) / r * ay) +
        Real.sin (angle / ((2 : ℕ) : ℝ)) / r * az * (Real.sin (angle / ((2 : ℕ) : ℝ)) / r * az) =
        Real.sin (angle / ((2 : ℕ) : ℝ)) ^ 2 * ((ax * ax + ay * ay + az * az) / (r * r)) := by
      field_simp
    rw [this, ← hsq, div_self (by positivity)]
    nlinarith [t]

/-- `quaternionProduct`: the norm is multiplicative -/
theorem quatMul_nrmSq (a b : OmplModel.St ℝ) :
    ∃ x y z w, quatMul a b = .so3 x y z w ∧
      nrmSq x y z w = nrmSq (St.qx a) (St.qy a) (St.qz a) (St.qw a) * nrmSq (St.qx b) (St.qy b) (St.qz b) (St.qw b) := by
  refine ⟨_, _, _, _, rfl, ?_⟩
  simp only [nrmSq_val]; ring

/-- multiplying an in-bounds quaternion by a unit quaternion keeps it in bounds -/
theorem quatMul_sat (a : OmplModel.St ℝ) {x y z w : ℝ} (hu : nrmSq x y z w = 1)
    (ha : so3Sat (St.qx a) (St.qy a) (St.qz a) (St.qw a) = true) :
    ∃ x' y' z' w', quatMul a (.so3 x y z w) = .so3 x' y' z' w' ∧ so3Sat x' y' z' w' = true := by
  obtain ⟨x', y', z', w', he, hn⟩ := quatMul_nrmSq a (.so3 x y z w)
  refine ⟨x', y', z', w', he, ?_⟩
  simp only [qx_so3, qy_so3, qz_so3, qw_so3, hu, mul_one] at hn
  rw [so3Sat_congr hn]; exact ha

/-- `(sin h / r)·(x, y, z), cos h` is a unit quaternion when `r = ‖(x, y, z)‖ > 0` -/
theorem unit_of_axis (x y z r h : ℝ) (hr : 0 < r) (hsq : r * r = x * x + y * y + z * z) :
    nrmSq (Real.sin h / r * x) (Real.sin h / r * y) (Real.sin h / r * z) (Real.cos h) = 1 := by
  have t := Real.sin_sq_add_cos_sq h
  simp only [nrmSq_val]
  have : Real.sin h / r * x * (Real.sin h / r * x) + Real.sin h / r * y * (Real.sin h / r * y) +
      Real.sin h / r * z * (Real.sin h / r * z) = Real.sin h ^ 2 * ((x * x + y * y + z * z) / (r * r)) := by
    field_simp
  rw [this, ← hsq, div_self (by positivity)]
  nlinarith [t]

/-- the non-degenerate branch of SO3StateSampler::sampleGaussian multiplies the mean by a unit quaternion -/
theorem so3Gauss_sat (R : Rng ℝ) (hR : drawsOk R) (mean : OmplModel.St ℝ) (sd : ℝ) (p : Pos)
    (hm : so3Sat (St.qx mean) (St.qy mean) (St.qz mean) (St.qw mean) = true) :
    ∃ a b c d, (so3Gauss R mean sd p).1 = .so3 a b c d ∧ so3Sat a b c d = true := by
  unfold so3Gauss
  simp only [Num.sqrt, Num.sin, Num.cos]
  split_ifs with h1 h2
  · obtain ⟨a, b, c, d, he, hn⟩ :=
      rngQuaternion_unit (u1 := R.u (p.ui + 1)) (u2 := R.u (p.ui + 2)) (hR p.ui).1 (hR p.ui).2
    exact ⟨a, b, c, d, by simp [so3Uniform, he], so3Sat_of_unit hn⟩
  · exact ⟨_, _, _, _, rfl, hm⟩
  · push Not at h2
    set x := gaussian (Num.ofNat 0) (Num.ofNat 2 * sd / rootThree) (R.g p.gi)
    set y := gaussian (Num.ofNat 0) (Num.ofNat 2 * sd / rootThree) (R.g (p.gi + 1))
    set z := gaussian (Num.ofNat 0) (Num.ofNat 2 * sd / rootThree) (R.g (p.gi + 2))
    set r := Real.sqrt (x * x + y * y + z * z) with hr
    have hpos : 0 < r := lt_of_lt_of_le eps_pos h2
    have hsq : r * r = x * x + y * y + z * z :=
      Real.mul_self_sqrt (by nlinarith [mul_self_nonneg x, mul_self_nonneg y, mul_self_nonneg z])
    obtain ⟨a, b, c, d, he, hs⟩ := quatMul_sat mean (unit_of_axis x y z r (r / Num.ofNat 2) hpos hsq) hm
    exact ⟨a, b, c, d, he, hs⟩

end OmplModel.SpaceBounds
