import OmplModel.Proofs.NNGnatSplit
import OmplModel.Proofs.NNGnatExact
/-!
GNAT refinement: every operation of `Model/NNGnatOps.lean` preserves the state invariant `Gnat.Inv`
(`Node.inv` + positive degrees + `size_` = live count + distinct ids) and the abstraction
`list() ~ abstract multiset`.

1. `isPivot` of `nearestKInternal(data, 1)`: if it is `false`, the copy found is a `data_` element,
   hence (ids distinct) not a pivot — so `remove` may mark it without a rebuild.
2. `rebuildDataStructure` / `add(vector)` on an empty structure (`Gnat.build`), `add`, `remove`, `clear`.
-/
set_option linter.unusedSectionVars false

namespace OmplModel.NN

variable {α D U : Type}

/-! ### pivots and `data_` elements of a tree -/

mutual
/-- all `data_` elements of a subtree. -/
def Node.allData : Node α D → List (Elem α)
  | .mk _ _ _ _ data ch => data ++ allDataL ch
def allDataL : List (Node α D) → List (Elem α)
  | [] => []
  | c :: cs => c.allData ++ allDataL cs
end

theorem Node.allData_eq (n : Node α D) : n.allData = n.data ++ allDataL n.children := by cases n; rfl
theorem Node.pivots_eq (n : Node α D) : n.pivots = n.pivot :: pivotsL n.children := by cases n; rfl

theorem allDataL_mem {ch : List (Node α D)} {c : Node α D} (hc : c ∈ ch) : ∀ y ∈ c.allData, y ∈ allDataL ch := by
  induction ch with
  | nil => simp at hc
  | cons c0 cs ih =>
    intro y hy
    simp only [allDataL, List.mem_append]
    rcases List.mem_cons.mp hc with rfl | h
    · exact Or.inl hy
    · exact Or.inr (ih h y hy)

mutual
theorem Node.elems_perm_pivots_data : ∀ (t : Node α D), t.elems.Perm (t.pivots ++ t.allData)
  | .mk p deg rad rgs data ch => by
    simp only [Node.elems, Node.pivots, Node.allData, List.cons_append]
    refine List.Perm.cons p ?_
    refine (List.Perm.append_left data (elemsL_perm_pivots_data ch)).trans ?_
    rw [← List.append_assoc, ← List.append_assoc]
    exact List.Perm.append_right _ List.perm_append_comm
theorem elemsL_perm_pivots_data : ∀ (ch : List (Node α D)), (elemsL ch).Perm (pivotsL ch ++ allDataL ch)
  | [] => List.Perm.refl _
  | c :: cs => by
    simp only [elemsL, pivotsL, allDataL]
    refine ((Node.elems_perm_pivots_data c).append (elemsL_perm_pivots_data cs)).trans ?_
    -- (a ++ b) ++ (c ++ d) ~ (a ++ c) ++ (b ++ d)
    rw [List.append_assoc, List.append_assoc]
    refine List.Perm.append_left _ ?_
    rw [← List.append_assoc, ← List.append_assoc]
    exact List.Perm.append_right _ List.perm_append_comm
end

/-- with distinct ids, a `data_` element is not a pivot. -/
theorem data_id_ne_pivot (t : Node α D) (hn : (t.elems.map (fun e => e.id)).Nodup) {e : Elem α} (he : e ∈ t.allData) :
    ∀ p ∈ t.pivots, p.id ≠ e.id := by
  have h := ((Node.elems_perm_pivots_data t).map (fun e => e.id)).nodup_iff.mp hn
  rw [List.map_append, List.nodup_append] at h
  intro p hp heq
  exact h.2.2 p.id (List.mem_map_of_mem hp) e.id (List.mem_map_of_mem he) heq

/-! ### what `isPivot` computes (k = 1) -/

section PivFlag
variable [Add D] [Sub D] [LE D] [LT D] [DecidableLE D] [DecidableLT D]

/-- a collector whose answer queue holds at most one copy (k = 1). -/
structure OfferOne (C : Coll α D) : Prop where
  offer : ∀ (nbh : Nbh α D) (e : Elem α) (d : D), nbh.length ≤ 1 →
    (C.offer nbh e d).1.length ≤ 1 ∧ ((C.offer nbh e d).2 = true → (C.offer nbh e d).1 = [(d, e)]) ∧
      ((C.offer nbh e d).2 = false → (C.offer nbh e d).1 = nbh)

/-- the flag invariant: at most one copy, and if the flag is `false` it is a `data_` element (of `S`). -/
def PF (S : List (Elem α)) (nbh : Nbh α D) (ip : Bool) : Prop :=
  nbh.length ≤ 1 ∧ (ip = false → ∀ x ∈ nbh, x.2 ∈ S)

variable {C : Coll α D} {dist : α → α → D} {q : α} {removed : List Nat} {S : List (Elem α)}

theorem scanData_pf (hC : OfferOne C) : ∀ (data : List (Elem α)) (nbh : Nbh α D) (ip : Bool),
    (∀ e ∈ data, e ∈ S) → PF S nbh ip →
    PF S (scanData C dist removed q data (nbh, ip)).1 (scanData C dist removed q data (nbh, ip)).2
  | [], nbh, ip, _, h => by simpa [scanData] using h
  | e :: es, nbh, ip, hS, h => by
    unfold scanData
    split
    · exact scanData_pf hC es nbh ip (fun e' he' => hS e' (List.mem_cons_of_mem _ he')) h
    · apply scanData_pf hC es _ _ (fun e' he' => hS e' (List.mem_cons_of_mem _ he'))
      obtain ⟨o1, o2, o3⟩ := hC.offer nbh e (dist q e.val) h.1
      refine ⟨o1, ?_⟩
      cases hr : (C.offer nbh e (dist q e.val)).2 with
      | true =>
        intro _ x hx
        rw [o2 hr] at hx
        simp only [List.mem_singleton] at hx
        rw [hx]
        exact hS e (by simp)
      | false =>
        simp only [Bool.false_eq_true, if_false]
        intro hip
        rw [o3 hr]
        exact h.2 hip

theorem visitChildren_pf (hC : OfferOne C) (children : List (Node α D)) (i : Nat) (nbh : Nbh α D) (ip : Bool)
    (perm : Array (PEntry D)) (h : PF S nbh ip) :
    PF S (visitChildren C dist q children i nbh ip perm).1 (visitChildren C dist q children i nbh ip perm).2.1 := by
  fun_induction visitChildren C dist q children i nbh ip perm with
  | case1 i nbh ip perm hi c hpi child hch d r ih =>
    apply ih
    obtain ⟨o1, o2, o3⟩ := hC.offer nbh child.pivot d h.1
    refine ⟨o1, ?_⟩
    cases hr : r.2 with
    | true => simp
    | false =>
      simp only [Bool.false_eq_true, if_false]
      intro hip
      have : r.1 = nbh := o3 hr
      rw [this]
      exact h.2 hip
  | case2 i nbh ip perm hi c hpi hch ih => exact ih h
  | case3 i nbh ip perm hi hnp ih => exact ih h
  | case4 i nbh ip perm hi => exact h

/-- every queued node lies inside the tree. -/
def QSub (S : List (Elem α)) (qu : NodeQ α D) : Prop := ∀ e ∈ qu, ∀ y ∈ e.2.allData, y ∈ S

theorem enqueue_sub (children : List (Node α D)) (nbh : Nbh α D) (hch : ∀ c ∈ children, ∀ y ∈ c.allData, y ∈ S) :
    ∀ (l : List (PEntry D)) (qu : NodeQ α D), QSub S qu → QSub S (enqueue C children nbh l qu)
  | [], qu, h => by simpa [enqueue] using h
  | .pruned :: rest, qu, h => by simp only [enqueue]; exact enqueue_sub children nbh hch rest qu h
  | .pending c :: rest, qu, h => by simp only [enqueue]; exact enqueue_sub children nbh hch rest qu h
  | .visited c d :: rest, qu, h => by
    simp only [enqueue]
    cases hc : children[c]? with
    | none => exact enqueue_sub children nbh hch rest qu h
    | some child =>
      simp only []
      split
      · apply enqueue_sub children nbh hch rest
        intro e he
        rcases List.mem_cons.mp ((qPush_perm (d, child) qu).subset he) with rfl | he
        · exact hch child (List.mem_of_getElem? hc)
        · exact h e he
      · exact enqueue_sub children nbh hch rest qu h

theorem Node.visit_pf (hC : OfferOne C) (n : Node α D) (order : List Nat) (nbh : Nbh α D) (ip : Bool)
    (qu : NodeQ α D) (hn : ∀ y ∈ n.allData, y ∈ S) (h : PF S nbh ip) (hq : QSub S qu) :
    PF S (n.visit C dist removed q order nbh ip qu).1 (n.visit C dist removed q order nbh ip qu).2.1 ∧
      QSub S (n.visit C dist removed q order nbh ip qu).2.2 := by
  have hdata : ∀ e ∈ n.data, e ∈ S := fun e he => hn e (by rw [Node.allData_eq]; exact List.mem_append_left _ he)
  have hchild : ∀ c ∈ n.children, ∀ y ∈ c.allData, y ∈ S := fun c hc y hy =>
    hn y (by rw [Node.allData_eq]; exact List.mem_append_right _ (allDataL_mem hc y hy))
  have h1 := scanData_pf (dist := dist) (q := q) (removed := removed) hC n.data nbh ip hdata h
  unfold Node.visit
  simp only []
  split
  · exact ⟨h1, hq⟩
  · exact ⟨visitChildren_pf hC n.children 0 _ _ _ h1, enqueue_sub n.children _ hchild _ qu hq⟩

theorem loop_pf (hC : OfferOne C) (ord : Nat → Nat → List Nat) (fuel : Nat) (qu : NodeQ α D) (st : QState α D)
    (h : PF S st.nbh st.isPivot) (hq : QSub S qu) :
    PF S (loop C dist removed q ord fuel qu st).nbh (loop C dist removed q ord fuel qu st).isPivot := by
  fun_induction loop C dist removed q ord fuel qu st with
  | case1 fuel st => exact h
  | case2 hd tl st => exact h
  | case3 fuel d node rest st skip hskip ih =>
    exact ih h (fun e he => hq e (List.mem_cons_of_mem _ he))
  | case4 fuel d node rest st skip hskip sz r ih =>
    have hv := Node.visit_pf (dist := dist) (q := q) (removed := removed) hC node (ord sz st.offset) st.nbh
      st.isPivot rest (hq (d, node) (by simp)) h (fun e he => hq e (List.mem_cons_of_mem _ he))
    exact ih hv.1 hv.2

theorem searchInternal_pf (hC : OfferOne C) (ord : Nat → Nat → List Nat) (offset : Nat) (t : Node α D)
    (h0 : (C.offer [] t.pivot (dist q t.pivot.val)).2 = true) :
    PF t.allData (searchInternal C dist removed q ord offset t).nbh
      (searchInternal C dist removed q ord offset t).isPivot := by
  unfold searchInternal
  simp only []
  obtain ⟨o1, _, _⟩ := hC.offer [] t.pivot (dist q t.pivot.val) (by simp)
  have hv := Node.visit_pf (S := t.allData) (dist := dist) (q := q) (removed := removed) hC t
    (ord t.children.length offset) _ (C.offer [] t.pivot (dist q t.pivot.val)).2 [] (fun y hy => hy)
    ⟨o1, by rw [h0]; intro h; cases h⟩ (by intro e he; cases he)
  exact loop_pf hC ord _ _ _ hv.1 hv.2

theorem offerOne_collK [BEq α] (eps : D) (q : α) : OfferOne (collK (α := α) 1 eps q) where
  offer := by
    intro nbh e d hl
    simp only [collK]
    unfold insertK
    match nbh, hl with
    | [], _ => simp [nbhPush]
    | [top], _ =>
      simp only [List.length_singleton, Nat.lt_irrefl, if_false]
      split <;> simp [nbhPush]

end PivFlag


/-! ### live lists -/

section Live

theorem liveOf_nil_removed (es : List (Elem α)) : liveOf [] es = es := by
  simp [liveOf, isRemoved]

theorem liveOf_perm {removed : List Nat} {l1 l2 : List (Elem α)} (h : l1.Perm l2) :
    (liveOf removed l1).Perm (liveOf removed l2) := h.filter _

theorem liveOf_sublist (removed : List Nat) (es : List (Elem α)) : (liveOf removed es).Sublist es :=
  List.filter_sublist

theorem liveOf_cons_fresh (removed : List Nat) (e : Elem α) (es : List (Elem α)) (h : e.id ∉ removed) :
    liveOf removed (e :: es) = e :: liveOf removed es := by
  have : isRemoved removed e = false := by simpa [isRemoved] using h
  simp [liveOf, this]

theorem liveOf_mark_absent (removed : List Nat) (i : Nat) : ∀ (es : List (Elem α)), (∀ y ∈ es, y.id ≠ i) →
    liveOf (i :: removed) es = liveOf removed es
  | [], _ => rfl
  | a :: es, h => by
    have ih := liveOf_mark_absent removed i es (fun y hy => h y (List.mem_cons_of_mem _ hy))
    have ha : a.id ≠ i := h a (by simp)
    simp only [liveOf, isRemoved, List.filter_cons, List.contains_cons] at ih ⊢
    rw [ih]
    simp [ha]

/-- marking one live copy removes exactly that copy from `list()` (ids distinct). -/
theorem liveOf_mark (removed : List Nat) : ∀ (es : List (Elem α)) (e : Elem α),
    (es.map (fun y => y.id)).Nodup → e ∈ liveOf removed es →
    (liveOf removed es).Perm (e :: liveOf (e.id :: removed) es)
  | [], e, _, h => by simp [liveOf] at h
  | a :: es, e, hn, h => by
    simp only [List.map_cons, List.nodup_cons, List.mem_map, not_exists, not_and] at hn
    by_cases hra : isRemoved removed a = true
    · have h1 : liveOf removed (a :: es) = liveOf removed es := by simp [liveOf, hra]
      have h2 : liveOf (e.id :: removed) (a :: es) = liveOf (e.id :: removed) es := by
        simp only [liveOf, List.filter_cons]
        have : isRemoved (e.id :: removed) a = true := by
          simp only [isRemoved, List.contains_cons, Bool.or_eq_true] at hra ⊢
          exact Or.inr hra
        simp [this]
      rw [h1] at h ⊢
      rw [h2]
      exact liveOf_mark removed es e hn.2 h
    · have hra' : isRemoved removed a = false := by simpa using hra
      have h1 : liveOf removed (a :: es) = a :: liveOf removed es := by simp [liveOf, hra']
      rw [h1] at h ⊢
      rcases List.mem_cons.mp h with rfl | h
      · have h2 : liveOf (e.id :: removed) (e :: es) = liveOf (e.id :: removed) es := by
          simp [liveOf, isRemoved]
        rw [h2, liveOf_mark_absent removed e.id es (fun y hy heq => hn.1 y hy heq)]
      · have hne : a.id ≠ e.id := by
          intro heq
          exact hn.1 e ((liveOf_sublist removed es).subset h) heq.symm
        have h2 : liveOf (e.id :: removed) (a :: es) = a :: liveOf (e.id :: removed) es := by
          simp only [liveOf, List.filter_cons]
          have : isRemoved (e.id :: removed) a = false := by
            simp only [isRemoved, List.contains_cons, Bool.or_eq_false_iff, beq_eq_false_iff_ne, ne_eq] at hra' ⊢
            exact ⟨hne, hra'⟩
          simp [this]
        rw [h2]
        exact (List.Perm.cons a (liveOf_mark removed es e hn.2 h)).trans (List.Perm.swap _ _ _)

end Live


/-! ### the state invariant and the building operations -/

section Build
variable [LinearOrder D] [OfNat D 0]

structure CtxOK (ctx : Ctx α D U) : Prop where
  params : ParamsOK ctx.P
  degree : 1 ≤ ctx.P.degree
  pick : ∀ u n, 0 < n → ctx.pick u n < n
  dist : DistOK ctx.dist ctx.eps

/-- ids are distinct and below the next id to be handed out. -/
def IdsOK (nextId : Nat) (es : List (Elem α)) : Prop :=
  (es.map (fun e => e.id)).Nodup ∧ ∀ e ∈ es, e.id < nextId

theorem IdsOK.perm {n : Nat} {l1 l2 : List (Elem α)} (h : IdsOK n l1) (hp : l2.Perm l1) : IdsOK n l2 :=
  ⟨(hp.map _).nodup_iff.mpr h.1, fun e he => h.2 e (hp.subset he)⟩

theorem IdsOK.sublist {n : Nat} {l1 l2 : List (Elem α)} (h : IdsOK n l1) (hs : l2.Sublist l1) : IdsOK n l2 :=
  ⟨h.1.sublist (hs.map _), fun e he => h.2 e (hs.subset he)⟩

/-- the state invariant of the whole structure. -/
def Gnat.Inv (ctx : Ctx α D U) (g : Gnat α D) : Prop :=
  g.params = ctx.P ∧ (∀ i ∈ g.removed, i < g.nextId) ∧
  match g.tree with
  | none => g.size = 0 ∧ g.removed = []
  | some t => t.inv ctx.dist g.removed = true ∧ t.degPos = true ∧
      g.size = (liveOf g.removed t.elems).length ∧ IdsOK g.nextId t.elems

/-- `add(vector)` on an empty structure (and the second half of `rebuildDataStructure`). -/
theorem Gnat.build_spec (ctx : Ctx α D U) (hctx : CtxOK ctx) (g : Gnat α D) (xs : List (Elem α)) (us : List U)
    (hp : g.params = ctx.P) (ht : g.tree = none) (hs : g.size = 0) (hr : g.removed = [])
    (hids : IdsOK g.nextId xs) :
    (Gnat.build ctx g xs us).1.Inv ctx ∧ (Gnat.build ctx g xs us).1.list.Perm xs ∧
      (Gnat.build ctx g xs us).1.nextId = g.nextId := by
  cases xs with
  | nil =>
    unfold Gnat.build
    dsimp only
    refine ⟨⟨hp, by simp [hr], ?_⟩, by simp [Gnat.list, ht], rfl⟩
    rw [ht]
    exact ⟨hs, hr⟩
  | cons x rest =>
    unfold Gnat.build
    dsimp only
    generalize hn0 : (Node.mk x g.params.degree none (List.replicate g.params.degree none) rest [] : Node α D) = n0
    have hdeg : 0 < n0.degree := by rw [← hn0]; simp only [Node.degree]; rw [hp]; exact hctx.degree
    have hch : n0.children = [] := by rw [← hn0]; rfl
    have hpv : n0.pivot = x := by rw [← hn0]; rfl
    have hdt : n0.data = rest := by rw [← hn0]; rfl
    have key : ∀ T : Node α D, (T.inv ctx.dist [] = true ∧ T.pivot = x ∧ (restOf T).Perm rest ∧ T.degPos = true) →
        ({ g with tree := some T, size := g.size + (x :: rest).length } : Gnat α D).Inv ctx ∧
        ({ g with tree := some T, size := g.size + (x :: rest).length } : Gnat α D).list.Perm (x :: rest) ∧
        ({ g with tree := some T, size := g.size + (x :: rest).length } : Gnat α D).nextId = g.nextId := by
      rintro T ⟨t1, t2, t3, t4⟩
      have hel : T.elems.Perm (x :: rest) := by
        rw [Node.elems_eq, t2]; exact List.Perm.cons x t3
      refine ⟨⟨hp, by simp [hr], ?_⟩, ?_, rfl⟩
      · simp only [hr, liveOf_nil_removed]
        refine ⟨t1, t4, ?_, hids.perm hel⟩
        rw [hs, hel.length_eq]; simp
      · simp only [Gnat.list, hr, liveOf_nil_removed]
        exact hel
    by_cases hns : needToSplit g.params g.params.degree rest.length = true
    · rw [if_pos hns]
      apply key
      have hne : n0.data ≠ [] := by
        rw [hdt]
        intro h0
        simp [needToSplit, h0] at hns
      obtain ⟨s1, s2, _, _, s5, s6⟩ := splitNode_spec ctx hctx.dist hctx.params hctx.pick (rest.length + 1) n0 us
        hch hne hdeg
      exact ⟨s1, by rw [s2, hpv], by rw [restOf_leaf n0 hch, hdt] at s5; exact s5, s6⟩
    · rw [if_neg hns]
      apply key
      exact ⟨leaf_inv _ n0 hch, hpv, by rw [restOf_leaf n0 hch, hdt], leaf_degPos n0 hch hdeg⟩

/-- **`rebuildDataStructure`**: the result satisfies the invariant and holds exactly the live copies —
whatever state the tree was in (e.g. with a pivot marked removed). -/
theorem Gnat.rebuild_spec (ctx : Ctx α D U) (hctx : CtxOK ctx) (g : Gnat α D) (us : List U)
    (hp : g.params = ctx.P) (hids : IdsOK g.nextId g.list) :
    (g.rebuild ctx us).1.Inv ctx ∧ (g.rebuild ctx us).1.list.Perm g.list ∧ (g.rebuild ctx us).1.nextId = g.nextId := by
  unfold Gnat.rebuild
  exact Gnat.build_spec ctx hctx g.clear g.list us hp rfl rfl rfl hids

theorem Gnat.list_ids (ctx : Ctx α D U) (g : Gnat α D) (h : g.Inv ctx) : IdsOK g.nextId g.list := by
  unfold Gnat.list
  obtain ⟨_, _, h3⟩ := h
  cases ht : g.tree with
  | none => exact ⟨by simp, by simp⟩
  | some t =>
    rw [ht] at h3
    exact h3.2.2.2.sublist (liveOf_sublist _ _)

/-- **`add`** of a copy with a fresh id. -/
theorem Gnat.addElem_spec (ctx : Ctx α D U) (hctx : CtxOK ctx) (g : Gnat α D) (e : Elem α) (us : List U)
    (hg : g.Inv ctx) (hlt : e.id < g.nextId) (hnr : e.id ∉ g.removed)
    (hfresh : ∀ t, g.tree = some t → ∀ y ∈ t.elems, y.id ≠ e.id) :
    (g.addElem ctx e us).1.Inv ctx ∧ (g.addElem ctx e us).1.list.Perm (e :: g.list) ∧
      (g.addElem ctx e us).1.nextId = g.nextId := by
  obtain ⟨hp, hrem, h3⟩ := hg
  unfold Gnat.addElem
  cases ht : g.tree with
  | none =>
    rw [ht] at h3
    dsimp only
    refine ⟨⟨hp, hrem, ?_⟩, ?_, rfl⟩
    · simp only [h3.2]
      refine ⟨leaf_inv _ _ rfl, leaf_degPos _ rfl ?_, ?_, ?_⟩
      · simp only [Node.new, Node.degree]; rw [hp]; exact hctx.degree
      · simp [liveOf_nil_removed, Node.new, Node.elems, elemsL]
      · exact ⟨by simp [Node.new, Node.elems, elemsL], by simp [Node.new, Node.elems, elemsL, hlt]⟩
    · simp [Gnat.list, ht, h3.2, liveOf_nil_removed, Node.new, Node.elems, elemsL]
  | some t =>
    rw [ht] at h3
    obtain ⟨ti, tdp, tsz, tids⟩ := h3
    dsimp only
    generalize hds : (g.removed.isEmpty && !(match g.rebuildSize with
      | none => false
      | some rs => decide (g.size + 1 ≥ rs))) = doSplit
    have hS : doSplit = true → SplitSpec ctx g.removed := by
      intro h
      rw [← hds] at h
      have : g.removed = [] := List.isEmpty_iff.mp (Bool.and_eq_true_iff.mp h).1
      rw [this]
      exact splitSpec_nil ctx hctx.dist hctx.params hctx.pick
    obtain ⟨i1, _, _⟩ := Node.insert_spec ctx g.removed doSplit hS e t.count t (Nat.le_refl _) ti tdp us
    obtain ⟨p1, p2, p3⟩ := Node.insert_perm ctx g.removed doSplit hS e t.count t (Nat.le_refl _) ti tdp us
    generalize t.insert ctx doSplit e us = r at i1 p1 p2 p3
    have hel : r.1.elems.Perm (e :: t.elems) := by
      rw [Node.elems_eq, p1, Node.elems_eq t]
      exact (List.Perm.cons _ p2).trans (List.Perm.swap _ _ _)
    have hids' : IdsOK g.nextId r.1.elems := by
      refine IdsOK.perm ?_ hel
      refine ⟨?_, ?_⟩
      · simp only [List.map_cons, List.nodup_cons, List.mem_map, not_exists, not_and]
        exact ⟨fun y hy heq => hfresh t ht y hy heq, tids.1⟩
      · intro y hy
        rcases List.mem_cons.mp hy with rfl | hy
        · exact hlt
        · exact tids.2 y hy
    have hlive : (liveOf g.removed r.1.elems).Perm (e :: liveOf g.removed t.elems) := by
      refine (liveOf_perm hel).trans ?_
      rw [liveOf_cons_fresh _ _ _ hnr]
    have hg1 : ({ g with tree := some r.1, size := g.size + 1 } : Gnat α D).Inv ctx := by
      refine ⟨hp, hrem, ?_⟩
      exact ⟨i1, p3, by rw [hlive.length_eq, tsz]; simp, hids'⟩
    have hl1 : ({ g with tree := some r.1, size := g.size + 1 } : Gnat α D).list.Perm (e :: g.list) := by
      simp only [Gnat.list, ht]
      exact hlive
    have hrb := Gnat.rebuild_spec ctx hctx ({ g with tree := some r.1, size := g.size + 1 } : Gnat α D) r.2.1 hp
      (Gnat.list_ids ctx _ hg1)
    split
    · split
      · exact ⟨hrb.1, hrb.2.1.trans hl1, hrb.2.2⟩
      · obtain ⟨⟨q1, q2, q3⟩, q4, q5⟩ := hrb
        refine ⟨⟨q1, q2, q3⟩, ?_, q5⟩
        exact q4.trans hl1
    · exact ⟨hg1, hl1, rfl⟩

end Build


/-! ### `add`, `add(vector)` -/

section Adds
variable [LinearOrder D] [OfNat D 0]

theorem Gnat.Inv.bump (ctx : Ctx α D U) (g : Gnat α D) (h : g.Inv ctx) (n : Nat) :
    ({ g with nextId := g.nextId + n } : Gnat α D).Inv ctx := by
  obtain ⟨h1, h2, h3⟩ := h
  refine ⟨h1, fun i hi => Nat.lt_of_lt_of_le (h2 i hi) (Nat.le_add_right _ _), ?_⟩
  cases ht : g.tree with
  | none => rw [ht] at h3; exact h3
  | some t =>
    rw [ht] at h3
    exact ⟨h3.1, h3.2.1, h3.2.2.1, h3.2.2.2.1, fun e he => Nat.lt_of_lt_of_le (h3.2.2.2.2 e he) (Nat.le_add_right _ _)⟩

/-- **`add`**: invariant kept, `list()` gains exactly the new value. -/
theorem Gnat.add_spec (ctx : Ctx α D U) (hctx : CtxOK ctx) (g : Gnat α D) (x : α) (us : List U) (hg : g.Inv ctx) :
    (g.add ctx x us).1.Inv ctx ∧
      ((g.add ctx x us).1.list.map (fun e => e.val)).Perm (x :: g.list.map (fun e => e.val)) := by
  unfold Gnat.add
  have hb := Gnat.Inv.bump ctx g hg 1
  obtain ⟨a1, a2, _⟩ := Gnat.addElem_spec ctx hctx ({ g with nextId := g.nextId + 1 } : Gnat α D) ⟨g.nextId, x⟩ us hb
    (by simp) (fun h => Nat.lt_irrefl _ (hg.2.1 _ h))
    (by
      intro t ht y hy heq
      have h3 := hg.2.2
      simp only at ht
      rw [ht] at h3
      have := h3.2.2.2.2 y hy
      simp only at heq
      omega)
  exact ⟨a1, by simpa [Gnat.list] using a2.map (fun e => e.val)⟩

theorem idsFrom_spec : ∀ (xs : List α) (n : Nat),
    (idsFrom n xs).map (fun e => e.val) = xs ∧ (idsFrom n xs).map (fun e => e.id) = List.range' n xs.length
  | [], n => by simp [idsFrom]
  | x :: xs, n => by
    obtain ⟨h1, h2⟩ := idsFrom_spec xs (n + 1)
    simp [idsFrom, h1, h2, List.range'_succ]

/-- **`add(vector)`**. -/
theorem Gnat.addv_spec (ctx : Ctx α D U) (hctx : CtxOK ctx) (g : Gnat α D) (xs : List α) (us : List U)
    (hg : g.Inv ctx) :
    (g.addv ctx xs us).1.Inv ctx ∧
      ((g.addv ctx xs us).1.list.map (fun e => e.val)).Perm (xs ++ g.list.map (fun e => e.val)) := by
  unfold Gnat.addv
  cases ht : g.tree with
  | none =>
    dsimp only
    have h3 := hg.2.2
    rw [ht] at h3
    obtain ⟨i1, i2⟩ := idsFrom_spec xs g.nextId
    obtain ⟨b1, b2, _⟩ := Gnat.build_spec ctx hctx ({ g with nextId := g.nextId + xs.length } : Gnat α D)
      (idsFrom g.nextId xs) us hg.1 ht h3.1 h3.2
      ⟨by rw [i2]; exact List.nodup_range' 1, by
        intro e he
        have : e.id ∈ List.range' g.nextId xs.length := by rw [← i2]; exact List.mem_map_of_mem he
        simp only [List.mem_range'_1] at this
        exact this.2⟩
    rw [ht] at b1 b2
    refine ⟨b1, ?_⟩
    have := b2.map (fun e => e.val)
    rw [i1] at this
    simpa [Gnat.list, ht] using this
  | some t0 =>
    dsimp only
    clear ht t0
    -- one `add` per element
    suffices h : ∀ (xs : List α) (acc : Gnat α D × List U × Bool), acc.1.Inv ctx →
        (xs.foldl (fun (acc : Gnat α D × List U × Bool) x =>
            ((acc.1.add ctx x acc.2.1).1, (acc.1.add ctx x acc.2.1).2.1, acc.2.2 && (acc.1.add ctx x acc.2.1).2.2))
          acc).1.Inv ctx ∧
        ((xs.foldl (fun (acc : Gnat α D × List U × Bool) x =>
            ((acc.1.add ctx x acc.2.1).1, (acc.1.add ctx x acc.2.1).2.1, acc.2.2 && (acc.1.add ctx x acc.2.1).2.2))
          acc).1.list.map (fun e => e.val)).Perm (xs ++ acc.1.list.map (fun e => e.val)) from
      h xs (g, us, true) hg
    intro xs
    induction xs with
    | nil => intro acc h; exact ⟨h, List.Perm.refl _⟩
    | cons x xs ih =>
      intro acc h
      simp only [List.foldl_cons]
      obtain ⟨a1, a2⟩ := Gnat.add_spec ctx hctx acc.1 x acc.2.1 h
      obtain ⟨j1, j2⟩ := ih ((acc.1.add ctx x acc.2.1).1, (acc.1.add ctx x acc.2.1).2.1,
        acc.2.2 && (acc.1.add ctx x acc.2.1).2.2) a1
      refine ⟨j1, j2.trans ?_⟩
      simp only [List.cons_append]
      exact (List.Perm.append_left xs a2).trans List.perm_middle

end Adds


/-! ### `remove` -/

section Remove
variable [CommRing D] [LinearOrder D] [IsStrictOrderedRing D] [BEq α] [LawfulBEq α]

/-- a genuine metric (the identity of indiscernibles is what makes `remove` find the element by a
nearest-neighbour query). -/
structure MetricOK (dist : α → α → D) : Prop where
  metric : IsMetric dist
  self : ∀ a, dist a a = 0
  sep : ∀ a b, dist a b = 0 → a = b

theorem Gnat.list_eq_nil_of_size (ctx : Ctx α D U) (g : Gnat α D) (hg : g.Inv ctx) (hs : g.size = 0) : g.list = [] := by
  unfold Gnat.list
  have h3 := hg.2.2
  cases ht : g.tree with
  | none => rfl
  | some t =>
    rw [ht] at h3
    exact List.length_eq_zero_iff.mp (by rw [← h3.2.2.1, hs])

/-- **`remove`**: the invariant is kept; the result is `true` iff the value is held, and then
`list()` loses exactly one copy of it (else nothing changes). -/
theorem Gnat.remove_spec (ctx : Ctx α D U) (hctx : CtxOK ctx) (hm : MetricOK ctx.dist)
    {ord : Nat → Nat → List Nat} (hord : ∀ sz off, (ord sz off).Perm (List.range sz))
    (g : Gnat α D) (x : α) (us : List U) (hg : g.Inv ctx) :
    (g.remove ctx ord x us).1.1.Inv ctx ∧
      ((g.remove ctx ord x us).1.1.list.map (fun e => e.val)).Perm ((g.list.map (fun e => e.val)).erase x) ∧
      ((g.remove ctx ord x us).2 = true ↔ x ∈ g.list.map (fun e => e.val)) := by
  unfold Gnat.remove
  by_cases hs : g.size = 0
  · rw [if_pos hs]
    have := Gnat.list_eq_nil_of_size ctx g hg hs
    exact ⟨hg, by simp [this], by simp [this]⟩
  · rw [if_neg hs]
    obtain ⟨hp, hrem, h3⟩ := hg
    cases ht : g.tree with
    | none => rw [ht] at h3; exact absurd h3.1 hs
    | some t =>
      rw [ht] at h3
      obtain ⟨ti, tdp, tsz, tids⟩ := h3
      dsimp only
      obtain ⟨e1, ⟨_, hlen, rest, hperm, hle⟩, e3⟩ :=
        nearestKInternal_exact hm.metric hm.self g.removed t ti x 1 ctx.eps hord g.offset
      have hpf := searchInternal_pf (removed := g.removed) (dist := ctx.dist) (q := x)
        (offerOne_collK (α := α) ctx.eps x) ord g.offset t (by simp [collK, insertK])
      change PF t.allData (nearestKInternal ctx.dist g.removed x 1 ctx.eps ord g.offset t).nbh
        (nearestKInternal ctx.dist g.removed x 1 ctx.eps ord g.offset t).isPivot at hpf
      generalize nearestKInternal ctx.dist g.removed x 1 ctx.eps ord g.offset t = st at e1 hlen hperm hle e3 hpf
      have hlive : g.list = liveOf g.removed t.elems := by simp [Gnat.list, ht]
      have hl1 : st.nbh.length = 1 := by
        simp only [postprocess, List.length_map, List.length_reverse] at hlen
        omega
      match hnbh : st.nbh, hl1 with
      | [top], _ =>
        dsimp only
        rw [hnbh] at hperm hle e3 hpf
        simp only [postprocess, List.reverse_cons, List.reverse_nil, List.nil_append, List.map_cons,
          List.map_nil, List.cons_append] at hperm hle
        have htop : top.1 = ctx.dist x top.2.val := e3 top (by simp)
        have htl : top.2 ∈ liveOf g.removed t.elems := hperm.subset (by simp)
        by_cases hne : (top.2.val != x) = true
        · rw [if_pos hne]
          have hxn : x ∉ g.list.map (fun e => e.val) := by
            intro hx
            rw [hlive] at hx
            obtain ⟨e, he, hev⟩ := List.mem_map.mp hx
            have h0 : ctx.dist x top.2.val ≤ ctx.dist x e.val := by
              rcases List.mem_cons.mp (hperm.symm.subset he) with rfl | her
              · exact le_refl _
              · exact hle top.2 (by simp) e her
            rw [hev, hm.self] at h0
            have h1 := dist_nonneg_of hm.metric hm.self x top.2.val
            have : x = top.2.val := hm.sep _ _ (le_antisymm h0 h1)
            simp [this] at hne
          refine ⟨⟨hp, hrem, ?_⟩, ?_, by simp [hxn]⟩
          · exact ⟨ti, tdp, tsz, tids⟩
          · rw [List.erase_of_not_mem hxn]
            simp [Gnat.list, ht]
        · rw [if_neg hne]
          have hval : top.2.val = x := by simpa using hne
          have hmark := liveOf_mark g.removed t.elems top.2 tids.1 htl
          have hx : x ∈ g.list.map (fun e => e.val) := by
            rw [hlive]; exact List.mem_map.mpr ⟨top.2, htl, hval⟩
          -- the state after marking
          have hl1' : (liveOf (top.2.id :: g.removed) t.elems).length = g.size - 1 := by
            have := hmark.length_eq
            simp only [List.length_cons] at this
            omega
          have hvals : ((liveOf (top.2.id :: g.removed) t.elems).map (fun e => e.val)).Perm
              ((g.list.map (fun e => e.val)).erase x) := by
            have h1 := (hmark.map (fun e => e.val)).erase x
            rw [hlive]
            simp only [List.map_cons, hval, List.erase_cons_head] at h1
            exact h1.symm
          have hidlt : top.2.id < g.nextId := tids.2 _ ((liveOf_sublist _ _).subset htl)
          have hrem' : ∀ i ∈ top.2.id :: g.removed, i < g.nextId := by
            intro i hi
            rcases List.mem_cons.mp hi with rfl | hi
            · exact hidlt
            · exact hrem i hi
          split
          · -- rebuild
            obtain ⟨r1, r2, _⟩ := Gnat.rebuild_spec ctx hctx
              ({ g with offset := st.offset, removed := top.2.id :: g.removed, size := g.size - 1 } : Gnat α D) us hp
              (by
                simp only [Gnat.list, ht]
                exact tids.sublist (liveOf_sublist _ _))
            rw [ht] at r1 r2
            refine ⟨r1, ?_, by simp [hx]⟩
            refine (r2.map (fun e => e.val)).trans ?_
            simpa [Gnat.list, ht] using hvals
          · rename_i hnr
            have hip : st.isPivot = false := by
              cases h : st.isPivot with
              | false => rfl
              | true => simp [h] at hnr
            have hdata : top.2 ∈ t.allData := hpf.2 hip top (by simp)
            have hinv' := Node.inv_mark ctx.dist g.removed top.2.id t ti (data_id_ne_pivot t tids.1 hdata)
            refine ⟨⟨hp, hrem', ?_⟩, ?_, by simp [hx]⟩
            · exact ⟨hinv', tdp, hl1'.symm, tids⟩
            · simpa [Gnat.list, ht] using hvals
      | [], h => simp at h
      | _ :: _ :: _, h => simp at h

end Remove


/-! ### histories -/

section Run
variable [CommRing D] [LinearOrder D] [IsStrictOrderedRing D] [BEq α] [LawfulBEq α]

theorem Gnat.clear_spec (ctx : Ctx α D U) (g : Gnat α D) (hg : g.Inv ctx) :
    g.clear.Inv ctx ∧ g.clear.list = [] :=
  ⟨⟨hg.1, by simp [Gnat.clear], ⟨rfl, rfl⟩⟩, rfl⟩

theorem gnatStep_spec (ctx : Ctx α D U) (hctx : CtxOK ctx) (hm : MetricOK ctx.dist)
    {ord : Nat → Nat → List Nat} (hord : ∀ sz off, (ord sz off).Perm (List.range sz))
    (s : Gnat α D × List U) (m : List α) (op : Op α) (hg : s.1.Inv ctx)
    (habs : (s.1.list.map (fun e => e.val)).Perm m) :
    (gnatStep ctx ord s op).1.Inv ctx ∧
      ((gnatStep ctx ord s op).1.list.map (fun e => e.val)).Perm (specStep m op) := by
  cases op with
  | add x =>
    obtain ⟨a1, a2⟩ := Gnat.add_spec ctx hctx s.1 x s.2 hg
    exact ⟨a1, a2.trans (List.Perm.cons x habs)⟩
  | addv xs =>
    obtain ⟨a1, a2⟩ := Gnat.addv_spec ctx hctx s.1 xs s.2 hg
    exact ⟨a1, a2.trans (List.Perm.append_left xs habs)⟩
  | remove x =>
    obtain ⟨a1, a2, _⟩ := Gnat.remove_spec ctx hctx hm hord s.1 x s.2 hg
    exact ⟨a1, a2.trans (habs.erase x)⟩
  | clear =>
    obtain ⟨a1, a2⟩ := Gnat.clear_spec ctx s.1 hg
    exact ⟨a1, by simp [gnatStep, specStep, a2]⟩

theorem gnatRun_spec (ctx : Ctx α D U) (hctx : CtxOK ctx) (hm : MetricOK ctx.dist)
    {ord : Nat → Nat → List Nat} (hord : ∀ sz off, (ord sz off).Perm (List.range sz)) (ops : List (Op α)) :
    ∀ (s : Gnat α D × List U) (m : List α), s.1.Inv ctx → (s.1.list.map (fun e => e.val)).Perm m →
      (ops.foldl (gnatStep ctx ord) s).1.Inv ctx ∧
      ((ops.foldl (gnatStep ctx ord) s).1.list.map (fun e => e.val)).Perm (ops.foldl specStep m) := by
  induction ops with
  | nil => intro s m h1 h2; exact ⟨h1, h2⟩
  | cons op ops ih =>
    intro s m h1 h2
    obtain ⟨a1, a2⟩ := gnatStep_spec ctx hctx hm hord s m op h1 h2
    exact ih _ _ a1 a2

theorem Gnat.Inv.wf (ctx : Ctx α D U) (g : Gnat α D) (hg : g.Inv ctx) :
    g.WF ctx.dist ∧ g.size = g.list.length := by
  obtain ⟨_, _, h3⟩ := hg
  unfold Gnat.WF Gnat.list
  cases ht : g.tree with
  | none => rw [ht] at h3; exact ⟨h3.1, by simp [h3.1]⟩
  | some t => rw [ht] at h3; exact ⟨⟨h3.1, h3.2.2.1⟩, h3.2.2.1⟩

/-- brute-force answers over stored copies are brute-force answers over the values. -/
theorem isKNearest_vals (f : α → D) (k : Nat) (live r : List (Elem α)) (m : List α)
    (h : IsKNearest (fun e => f e.val) k live r) (hp : (live.map (fun e => e.val)).Perm m) :
    IsKNearest f k m (r.map (fun e => e.val)) := by
  obtain ⟨h1, h2, rest, h3, h4⟩ := h
  refine ⟨?_, ?_, rest.map (fun e => e.val), ?_, ?_⟩
  · unfold SortedBy at h1 ⊢
    rw [List.pairwise_map]
    exact h1
  · rw [List.length_map, h2, ← hp.length_eq, List.length_map]
  · rw [← List.map_append]
    exact (h3.map _).trans hp
  · intro a ha b hb
    obtain ⟨a', ha', rfl⟩ := List.mem_map.mp ha
    obtain ⟨b', hb', rfl⟩ := List.mem_map.mp hb
    exact h4 a' ha' b' hb'

theorem isRNearest_vals (f : α → D) (rad : D) (live r : List (Elem α)) (m : List α)
    (h : IsRNearest (fun e => f e.val) rad live r) (hp : (live.map (fun e => e.val)).Perm m) :
    IsRNearest f rad m (r.map (fun e => e.val)) := by
  obtain ⟨h1, h2⟩ := h
  refine ⟨?_, ?_⟩
  · unfold SortedBy at h1 ⊢
    rw [List.pairwise_map]
    exact h1
  · refine (h2.map _).trans ?_
    have : (live.filter (fun x => decide (f x.val ≤ rad))).map (fun e => e.val) =
        (live.map (fun e => e.val)).filter (fun x => decide (f x ≤ rad)) := by
      rw [List.filter_map]
      rfl
    rw [this]
    exact hp.filter _

end Run


/-! ### answers as distance lists are determined by the multiset -/

section DistLists
variable [LinearOrder D]

/-- two k-nearest answers over the same multiset have the same distance list. -/
theorem isKNearest_dists_unique {β : Type} (f : β → D) (k : Nat) (m1 m2 r1 r2 : List β)
    (h1 : IsKNearest f k m1 r1) (h2 : IsKNearest f k m2 r2) (hp : m1.Perm m2) : r1.map f = r2.map f := by
  obtain ⟨s1, l1, rest1, p1, le1⟩ := h1
  obtain ⟨s2, l2, rest2, p2, le2⟩ := h2
  have key : ∀ (r rest : List β), SortedBy f r → (∀ x ∈ r, ∀ y ∈ rest, f x ≤ f y) →
      ((r ++ rest.mergeSort (leBy f)).map f).Pairwise (· ≤ ·) := by
    intro r rest s le
    rw [List.pairwise_map, List.pairwise_append]
    refine ⟨s, sortedBy_mergeSort f rest, ?_⟩
    intro a ha b hb
    exact le a ha b ((List.mergeSort_perm rest (leBy f)).subset hb)
  have hperm : ((r1 ++ rest1.mergeSort (leBy f)).map f).Perm ((r2 ++ rest2.mergeSort (leBy f)).map f) := by
    apply List.Perm.map
    refine ((List.Perm.append_left r1 (List.mergeSort_perm rest1 _)).trans p1).trans ?_
    exact hp.trans (((List.Perm.append_left r2 (List.mergeSort_perm rest2 _)).trans p2).symm)
  have heq := List.Perm.eq_of_pairwise (fun a b _ _ hab hba => le_antisymm hab hba)
    (key r1 rest1 s1 le1) (key r2 rest2 s2 le2) hperm
  rw [List.map_append, List.map_append] at heq
  exact (List.append_inj heq (by rw [List.length_map, List.length_map, l1, l2, hp.length_eq])).1

/-- two radius answers over the same multiset have the same distance list. -/
theorem isRNearest_dists_unique {β : Type} (f : β → D) (rad : D) (m1 m2 r1 r2 : List β)
    (h1 : IsRNearest f rad m1 r1) (h2 : IsRNearest f rad m2 r2) (hp : m1.Perm m2) : r1.map f = r2.map f := by
  obtain ⟨s1, p1⟩ := h1
  obtain ⟨s2, p2⟩ := h2
  have hperm : (r1.map f).Perm (r2.map f) := ((p1.trans (hp.filter _)).trans p2.symm).map f
  refine List.Perm.eq_of_pairwise (fun a b _ _ hab hba => le_antisymm hab hba) ?_ ?_ hperm
  · rw [List.pairwise_map]; exact s1
  · rw [List.pairwise_map]; exact s2

end DistLists

/-! ### the driver's kind of instance satisfies all hypotheses (used by the non-vacuity examples) -/

def sampleCtx : Ctx (Int × Int) Int Nat :=
  { P := ⟨3, 2, 3, 2, 3, false⟩, dist := l1, eps := 1, pick := fun u n => u % n }

theorem sampleCtx_ok : CtxOK sampleCtx ∧ MetricOK sampleCtx.dist := by
  have hm := l1_metric
  refine ⟨⟨⟨by decide, by decide⟩, by decide, fun u n hn => Nat.mod_lt u hn,
    ⟨hm.2, fun a b => dist_nonneg_of hm.1 hm.2 a b, by decide⟩⟩, ⟨hm.1, hm.2, ?_⟩⟩
  intro a b h
  simp only [sampleCtx, l1] at h
  have h1 := abs_nonneg (a.1 - b.1)
  have h2 := abs_nonneg (a.2 - b.2)
  have e1 : |a.1 - b.1| = 0 := by omega
  have e2 : |a.2 - b.2| = 0 := by omega
  exact Prod.ext (sub_eq_zero.mp (abs_eq_zero.mp e1)) (sub_eq_zero.mp (abs_eq_zero.mp e2))

def sampleG0 : Gnat (Int × Int) Int := { params := sampleCtx.P }

end OmplModel.NN
