import OmplModel.Proofs.GridRun
/-!
Grid facts needed by the `Discretization` model: the invariant depends on the configuration only through
dimension / bounds / limit; how each protocol step changes the coordinate list; tops are present cells; an
unbounded grid with the default limit always has a border cell.  Core Lean only.
-/
namespace OmplModel.Grid
open OmplModel.Heap

/-- same dimension, bounds and interior limit -/
structure SameShape (cfg cfg' : Cfg) : Prop where
  dim : cfg'.dim = cfg.dim
  bounds : cfg'.bounds = cfg.bounds
  limit : cfg'.limit = cfg.limit

theorem cnt_shape {cfg cfg' : Cfg} (h : SameShape cfg cfg') (cells : List Cell) (x : Coord) :
    cnt cfg' cells x = cnt cfg cells x := by
  unfold cnt boundaryDims
  rw [h.dim, h.bounds]

theorem Inv.shape {cfg cfg' : Cfg} {g : GridB} (h : SameShape cfg cfg') (hi : Inv cfg g) : Inv cfg' g := by
  refine ⟨⟨hi.nodup, ?_, ?_, hi.ext, hi.int, hi.extH, hi.intH, hi.idlt, hi.idnd⟩, ?_⟩
  · intro c hc; rw [h.dim]; exact hi.len c hc
  · intro c hc; rw [h.limit]; exact hi.border c hc
  · intro c hc; rw [cnt_shape h]; exact hi.count c hc

/-! ### coordinate lists after each step -/

theorem coords_update (cfg : Cfg) (g : GridB) (x : Coord) (d : Int) :
    (update cfg g x d).cells.map (·.coord) = g.cells.map (·.coord) := by
  unfold update
  split
  · rfl
  · simp only []
    split <;> exact map_coord_setCell _ _

theorem coords_updateAll_nil (cfg : Cfg) (g : GridB) :
    (updateAll cfg g []).cells.map (·.coord) = g.cells.map (·.coord) := by
  show ((pokeData g.cells []).map (fun c => { c with data := cfg.ev c })).map (·.coord) = _
  rw [List.map_map]; rfl

theorem coords_newCell {cfg : Cfg} {g : GridB} {x : Coord} {d : Int} (hi : Inv cfg g) (hx : x.length = cfg.dim)
    (habs : has g.cells x = false) :
    (newCell cfg g x d).cells.map (·.coord) = g.cells.map (·.coord) ++ [x] := by
  obtain ⟨hnd, hpres, _, _⟩ := nbL_facts hi.toBase hx
  obtain ⟨_, _, hM1, _⟩ := fold_create ((neighbors cfg.dim g.cells x).map (·.coord)) [] g hi.toBase
    hi.countUp hnd (by simp) hpres
  have habs1 : has (List.foldl (touchCreate cfg) g ((neighbors cfg.dim g.cells x).map (·.coord))).cells x = false := by
    rw [has_congr hM1]; exact habs
  unfold newCell
  simp only []
  split
  · rw [show addCell _ _ = _ ++ [_] from if_neg (by rw [habs1]; simp)]
    rw [List.map_append, hM1]; rfl
  · rw [show addCell _ _ = _ ++ [_] from if_neg (by rw [habs1]; simp)]
    rw [List.map_append, hM1]; rfl

theorem coords_removeCell {cfg : Cfg} {g : GridB} {x : Coord} (hi : Inv cfg g) (hpres : has g.cells x = true) :
    (removeCell cfg g x).1.cells.map (·.coord) = (g.cells.map (·.coord)).filter (fun y => !(y == x)) := by
  obtain ⟨c0, hc0, hc0x⟩ := has_iff.1 hpres
  have hx : x.length = cfg.dim := hc0x ▸ hi.len c0 hc0
  obtain ⟨hnd, hpr, _, _⟩ := nbL_facts hi.toBase hx
  have hpos : ∀ y ∈ (neighbors cfg.dim g.cells x).map (·.coord), 0 < cnt cfg g.cells y := by
    intro y hy
    have hyx : y ∈ neighborCoords cfg.dim x := by
      rw [neighbors_map_coord] at hy; exact (List.mem_filter.1 hy).1
    have hxy := neighborCoords_symm hx hyx
    unfold cnt
    have : 0 < (neighborCoords cfg.dim y).countP (has g.cells) := List.countP_pos_iff.2 ⟨x, hxy, hpres⟩
    omega
  obtain ⟨_, _, hM1, _⟩ := fold_remove ((neighbors cfg.dim g.cells x).map (·.coord)) [] g hi.toBase
    hi.countDn hnd (by simp) hpr hpos
  have hpres1 : has (List.foldl (touchRemove cfg) g ((neighbors cfg.dim g.cells x).map (·.coord))).cells x = true := by
    rw [has_congr hM1]; exact hpres
  obtain ⟨cx, hget⟩ := getCell_of_has hpres1
  have key : ∀ (cells : List Cell), (eraseCoord cells x).map (·.coord) = (cells.map (·.coord)).filter (fun y => !(y == x)) := by
    intro cells; unfold eraseCoord; rw [List.filter_map]; rfl
  unfold removeCell
  simp only [hget]
  split <;> (show (eraseCoord _ x).map (·.coord) = _; rw [key, hM1])

theorem coords_step {cfg : Cfg} {g : GridB} (hi : Inv cfg g) (op : Op) (hv : op.valid cfg.dim) :
    (step cfg g op).cells.map (·.coord) =
      match op with
      | .new x _ => if has g.cells x then g.cells.map (·.coord) else g.cells.map (·.coord) ++ [x]
      | .rm x => (g.cells.map (·.coord)).filter (fun y => !(y == x))
      | .upd _ _ => g.cells.map (·.coord)
      | .updAll _ => g.cells.map (·.coord)
      | .clear => [] := by
  cases op with
  | new x d =>
    show (if has g.cells x then g else newCell cfg g x d).cells.map (·.coord) = _
    by_cases h : has g.cells x = true
    · simp [h]
    · simp only [h]; exact coords_newCell hi hv (by simpa using h)
  | rm x =>
    show (if has g.cells x then (removeCell cfg g x).1 else g).cells.map (·.coord) = _
    by_cases h : has g.cells x = true
    · simp only [h, if_true]; exact coords_removeCell hi h
    · simp only [h]
      symm
      apply List.filter_eq_self.2
      intro y hy
      have : has g.cells y = true := by rw [has_eq_decide_mem]; simpa using hy
      have hne : y ≠ x := by rintro rfl; exact h this
      simpa using hne
  | upd x d => exact coords_update cfg g x d
  | updAll chg => exact map_coord_of_strip (updateAll_cells_strip (cfg := cfg) chg hi.nodup)
  | clear => rfl

/-! ### tops are present cells -/

theorem Inv.top_mem {cfg : Cfg} {g : GridB} (hi : Inv cfg g) :
    (∀ e, g.external.top = some e → ∃ c ∈ g.cells, c.border = true ∧ c.id = e.key.2) ∧
    (∀ e, g.internal.top = some e → ∃ c ∈ g.cells, c.border = false ∧ c.id = e.key.2) ∧
    (g.external.top = none → ∀ c ∈ g.cells, c.border = false) ∧
    (g.internal.top = none → ∀ c ∈ g.cells, c.border = true) := by
  have side_mem : ∀ (p : Cell → Bool) (H : Heap Key), H.items.Perm (side p g.cells) →
      (∀ e, H.top = some e → ∃ c ∈ g.cells, p c = true ∧ c.id = e.key.2) ∧
      (H.top = none → ∀ c ∈ g.cells, p c = false) := by
    intro p H hperm
    constructor
    · intro e he
      have hm := hperm.mem_iff.1 (Heap.top_mem H e he)
      unfold side at hm
      obtain ⟨c, hc, hce⟩ := List.mem_map.1 hm
      obtain ⟨hcm, hcp⟩ := List.mem_filter.1 hc
      have hk : c.key = e.key := by simpa using (Prod.mk.inj hce).2
      exact ⟨c, hcm, hcp, by rw [← hk]; rfl⟩
    · intro hn c hc
      have h0 : H.items = [] := (Heap.top_eq_none_iff H).1 hn
      rw [h0] at hperm
      have h1 : side p g.cells = [] := List.Perm.eq_nil (hperm.symm)
      unfold side at h1
      have h2 : g.cells.filter p = [] := by simpa using h1
      by_cases hp : p c = true
      · have : c ∈ g.cells.filter p := List.mem_filter.2 ⟨hc, hp⟩
        rw [h2] at this; cases this
      · simpa using hp
  obtain ⟨e1, e2⟩ := side_mem (·.border) g.external hi.ext
  obtain ⟨i1, i2⟩ := side_mem (fun c => !c.border) g.internal hi.int
  refine ⟨e1, ?_, e2, ?_⟩
  · intro e he
    obtain ⟨c, hc, hp, hid⟩ := i1 e he
    exact ⟨c, hc, by simpa using hp, hid⟩
  · intro hn c hc
    simpa using i2 hn c hc

/-! ### an unbounded grid with the default limit has a border cell -/

theorem length_neighborCoords (dim : Nat) (x : Coord) : (neighborCoords dim x).length = 2 * dim := by
  unfold neighborCoords
  rw [List.length_flatMap]
  simp only [List.length_cons, List.length_nil, List.map_const', List.length_reverse, List.length_range]
  simp
  omega

/-- a cell with the largest first coordinate misses its `+1` neighbour in dimension 0 -/
theorem exists_border_cell {cfg : Cfg} {g : GridB} (hi : Inv cfg g) (hb : cfg.bounds = none)
    (hl : cfg.limit = 2 * cfg.dim) (hd : 0 < cfg.dim) (hne : g.cells ≠ []) :
    ∃ c ∈ g.cells, c.border = true := by
  -- a cell maximising coord[0]
  have hmax : ∀ (l : List Cell), l ≠ [] → ∃ c ∈ l, ∀ d ∈ l, d.coord.getD 0 0 ≤ c.coord.getD 0 0 := by
    intro l
    induction l with
    | nil => intro h; exact absurd rfl h
    | cons a as ih =>
      intro _
      by_cases has : as = []
      · subst has; exact ⟨a, by simp, by intro d hd; simp at hd; subst hd; exact Int.le_refl _⟩
      · obtain ⟨c, hc, hmx⟩ := ih has
        by_cases hac : c.coord.getD 0 0 ≤ a.coord.getD 0 0
        · refine ⟨a, by simp, ?_⟩
          intro d hd
          rcases List.mem_cons.1 hd with rfl | hd'
          · exact Int.le_refl _
          · exact Int.le_trans (hmx d hd') hac
        · refine ⟨c, List.mem_cons_of_mem _ hc, ?_⟩
          intro d hd
          rcases List.mem_cons.1 hd with rfl | hd'
          · omega
          · exact hmx d hd'
  obtain ⟨c, hc, hmx⟩ := hmax g.cells hne
  refine ⟨c, hc, ?_⟩
  rw [hi.border c hc, hi.count c hc]
  have hlen := hi.len c hc
  -- the probe coordinate c.coord with coord[0]+1 is absent
  let y := c.coord.set 0 (c.coord.getD 0 0 + 1)
  have hy : y ∈ neighborCoords cfg.dim c.coord := mem_neighborCoords.2 ⟨0, hd, Or.inr rfl⟩
  have hyabs : has g.cells y = false := by
    cases hh : has g.cells y with
    | false => rfl
    | true =>
      obtain ⟨d, hdm, hdy⟩ := has_iff.1 hh
      have := hmx d hdm
      rw [hdy] at this
      have h0 : y.getD 0 0 = c.coord.getD 0 0 + 1 := by
        show (c.coord.set 0 _).getD 0 0 = _
        rw [getD_set, if_pos ⟨rfl, by omega⟩]
      omega
  have hlt : (neighborCoords cfg.dim c.coord).countP (has g.cells) < (neighborCoords cfg.dim c.coord).length := by
    apply Nat.lt_of_le_of_ne List.countP_le_length
    intro heq
    have := (List.countP_eq_length.1 heq) y hy
    rw [hyabs] at this; cases this
  rw [length_neighborCoords] at hlt
  unfold cnt boundaryDims
  rw [hb, hl]
  simp only [Nat.add_zero, decide_eq_true_eq]
  exact hlt

theorem external_nonempty {cfg : Cfg} {g : GridB} (hi : Inv cfg g) (hb : cfg.bounds = none)
    (hl : cfg.limit = 2 * cfg.dim) (hd : 0 < cfg.dim) (hne : g.cells ≠ []) : g.external.top ≠ none := by
  intro hn
  obtain ⟨c, hc, hbo⟩ := exists_border_cell hi hb hl hd hne
  have := hi.top_mem.2.2.1 hn c hc
  rw [hbo] at this; cases this

/-! ### the tops are best cells (from the invariant and the heap order) -/

/-- what `tops_best` says about one state -/
def TopsBest (cfg : Cfg) (g : GridB) : Prop :=
    (match topInternal g with
      | none => g.cells = []
      | some i => ∃ c ∈ g.cells, c.id = i ∧
          ((c.border = false ∧ ∀ c' ∈ g.cells, c'.border = false → cfg.ltI c'.data c.data = false) ∨
           ((∀ c' ∈ g.cells, c'.border = true) ∧ c.border = true ∧
              ∀ c' ∈ g.cells, c'.border = true → cfg.ltE c'.data c.data = false))) ∧
    (match topExternal g with
      | none => g.cells = []
      | some i => ∃ c ∈ g.cells, c.id = i ∧
          ((c.border = true ∧ ∀ c' ∈ g.cells, c'.border = true → cfg.ltE c'.data c.data = false) ∨
           ((∀ c' ∈ g.cells, c'.border = false) ∧ c.border = false ∧
              ∀ c' ∈ g.cells, c'.border = false → cfg.ltI c'.data c.data = false)))

/-- only the queue part of the invariant is used: it also holds while a created cell is pending (Proofs/GridSplit) -/
theorem tops_best_of_base {cfg : Cfg} {g : GridB} (ok : CmpOK cfg) (hi : Base cfg g) (ho : Ordered cfg g) :
    TopsBest cfg g := by
  unfold TopsBest
  obtain ⟨hEn, hEs⟩ := top_best_side (lt := cfg.ltE) hi.ext ok.kE ho.1
  obtain ⟨hIn, hIs⟩ := top_best_side (lt := cfg.ltI) hi.int ok.kI ho.2
  have hnil : (∀ c ∈ g.cells, c.border = false) → (∀ c ∈ g.cells, (!c.border) = false) → g.cells = [] := by
    intro h1 h2
    cases hcs : g.cells with
    | nil => rfl
    | cons c cs =>
      have hc : c ∈ g.cells := by rw [hcs]; simp
      have := h1 c hc; have := h2 c hc; simp_all
  constructor
  · unfold topInternal
    cases hI : g.internal.top with
    | some e =>
      obtain ⟨c, hc, hp, hid, hbest⟩ := hIs e hI
      exact ⟨c, hc, hid, Or.inl ⟨by simpa using hp, fun c' hc' hb' => hbest c' hc' (by simp [hb'])⟩⟩
    | none =>
      have hall := hIn hI
      cases hE : g.external.top with
      | some e =>
        obtain ⟨c, hc, hp, hid, hbest⟩ := hEs e hE
        exact ⟨c, hc, hid, Or.inr ⟨fun c' hc' => by simpa using hall c' hc', hp, hbest⟩⟩
      | none => exact hnil (hEn hE) hall
  · unfold topExternal
    cases hE : g.external.top with
    | some e =>
      obtain ⟨c, hc, hp, hid, hbest⟩ := hEs e hE
      exact ⟨c, hc, hid, Or.inl ⟨hp, hbest⟩⟩
    | none =>
      have hall := hEn hE
      cases hI : g.internal.top with
      | some e =>
        obtain ⟨c, hc, hp, hid, hbest⟩ := hIs e hI
        exact ⟨c, hc, hid, Or.inr ⟨hall, by simpa using hp, fun c' hc' hb' => hbest c' hc' (by simp [hb'])⟩⟩
      | none => exact hnil hall (hIn hI)

theorem tops_best_of_inv {cfg : Cfg} {g : GridB} (ok : CmpOK cfg) (hi : Inv cfg g) (ho : Ordered cfg g) :
    TopsBest cfg g := tops_best_of_base ok hi.toBase ho

end OmplModel.Grid
