import OmplModel.Model.GridSplit
import OmplModel.Proofs.GridCoords
/-!
`GridB` with the split protocol (`createCell` … `add` | `remove` without `add`): the invariant with a pending cell,
preserved by every step (helper lemmas for `Props/C13.lean`; core Lean only).
-/
namespace OmplModel.GridS
open OmplModel.Grid OmplModel.Heap

/-- the invariant while the cell `p` is pending: `g` is the grid WITHOUT `p`; queues and flags as always (`Base`), the
counter of every cell of the grid counts `p` too if `p` is one step away; `p` itself is absent, counts the present
cells one step away from it plus its boundary dimensions, carries the flag that belongs to that count, and the next id. -/
structure InvP (cfg : Cfg) (g : GridB) (p : Cell) : Prop extends Base cfg g where
  plen : p.coord.length = cfg.dim
  pabs : has g.cells p.coord = false
  count : ∀ c ∈ g.cells, c.nbrs = cnt cfg g.cells c.coord + (if p.coord ∈ neighborCoords cfg.dim c.coord then 1 else 0)
  pcount : p.nbrs = cnt cfg g.cells p.coord
  pborder : p.border = decide (p.nbrs < cfg.limit)
  pid : p.id = g.nextId

/-- the invariant of the split protocol -/
def InvS (cfg : Cfg) (s : GridS) : Prop :=
  match s.pending with
  | none => Inv cfg s.g
  | some p => InvP cfg s.g p

/-! ### `createCell` -/

theorem createCell_invP {cfg : Cfg} {g : GridB} {x : Coord} {d : Int} (hi : Inv cfg g) (hx : x.length = cfg.dim)
    (habs : has g.cells x = false) : InvP cfg (createCell cfg g x d).1 (createCell cfg g x d).2 := by
  obtain ⟨hnd, hpres, hS, _⟩ := nbL_facts hi.toBase hx
  obtain ⟨hB1, hC1, hM1, hN1⟩ := fold_create ((neighbors cfg.dim g.cells x).map (·.coord)) [] g hi.toBase
    hi.countUp hnd (by simp) hpres
  rw [List.append_nil] at hC1
  show InvP cfg (List.foldl (touchCreate cfg) g ((neighbors cfg.dim g.cells x).map (·.coord))) _
  refine ⟨hB1, hx, by rw [has_congr hM1]; exact habs, ?_, ?_, not_ge_eq_lt _ _, hN1.symm⟩
  · intro c hc
    have h1 := hC1 c hc
    have : c.coord ∈ g.cells.map (·.coord) := by rw [← hM1]; exact List.mem_map.2 ⟨c, hc, rfl⟩
    obtain ⟨c', hc', he⟩ := List.mem_map.1 this
    have h2 := hS c' hc'
    rw [he] at h2
    rw [h1]
    show _ + _ = _ + (if x ∈ neighborCoords cfg.dim c.coord then 1 else 0)
    by_cases hm : c.coord ∈ (neighbors cfg.dim g.cells x).map (·.coord)
    · rw [if_pos hm, if_pos (h2.1 hm)]
    · rw [if_neg hm, if_neg (fun h' => hm (h2.2 h'))]
  · show boundaryDims cfg x + (neighbors cfg.dim g.cells x).length = cnt cfg _ x
    rw [cnt_congr hM1, cnt_eq_neighbors]; omega

/-! ### `add` -/

theorem InvP.countUp {cfg : Cfg} {g : GridB} {p : Cell} (hp : InvP cfg g p) :
    CountUp cfg ((neighbors cfg.dim g.cells p.coord).map (·.coord)) g.cells ∧
      ∀ d ∈ g.cells, (d.coord ∈ (neighbors cfg.dim g.cells p.coord).map (·.coord) ↔
        p.coord ∈ neighborCoords cfg.dim d.coord) := by
  obtain ⟨_, _, hS, _⟩ := nbL_facts hp.toBase hp.plen
  refine ⟨?_, hS⟩
  intro c hc
  rw [hp.count c hc]
  have h2 := hS c hc
  by_cases hm : c.coord ∈ (neighbors cfg.dim g.cells p.coord).map (·.coord)
  · rw [if_pos hm, if_pos (h2.1 hm)]
  · rw [if_neg hm, if_neg (fun h' => hm (h2.2 h'))]

theorem addCellB_inv {cfg : Cfg} {g : GridB} {p : Cell} (hp : InvP cfg g p) : Inv cfg (addCellB cfg g p) := by
  obtain ⟨hC, hS⟩ := hp.countUp
  have habs := hp.pabs
  obtain ⟨pid, pc, pd, pn, pb, ph⟩ := p
  have hpid : pid = g.nextId := hp.pid
  subst hpid
  unfold addCellB
  simp only []
  split
  · rename_i hbo
    rw [show addCell _ _ = _ ++ [_] from if_neg (by rw [habs]; simp)]
    refine add_inv hp.toBase hC hS hp.plen habs hp.pcount hp.pborder rfl ?_ ?_ (hp.extH.insert _ _) hp.intH
    · rw [one_true (p := (·.border)) hbo]; exact Heap.items_insert _ _ _
    · rw [one_false (p := fun c => !c.border) (by simp [hbo])]; exact List.Perm.refl _
  · rename_i hbo
    rw [show addCell _ _ = _ ++ [_] from if_neg (by rw [habs]; simp)]
    refine add_inv hp.toBase hC hS hp.plen habs hp.pcount hp.pborder rfl ?_ ?_ hp.extH (hp.intH.insert _ _)
    · rw [one_false (p := (·.border)) (by simpa using hbo)]; exact List.Perm.refl _
    · rw [one_true (p := fun c => !c.border) (by simpa using hbo)]; exact Heap.items_insert _ _ _

/-! ### `remove` of the pending cell: the neighbour loop undoes `createCell`'s -/

theorem touchRemove_specUp {cfg : Cfg} {g : GridB} {S : List Coord} {y : Coord} (hb : Base cfg g)
    (hc : CountUp cfg (y :: S) g.cells) (hy : y ∉ S) (hpres : has g.cells y = true) :
    Base cfg (touchRemove cfg g y) ∧ CountUp cfg S (touchRemove cfg g y).cells ∧
      (touchRemove cfg g y).cells.map (·.coord) = g.cells.map (·.coord) ∧
      (touchRemove cfg g y).nextId = g.nextId := by
  obtain ⟨c, hget⟩ := getCell_of_has hpres
  have hcm := getCell_some_mem hget
  have hcn : c.nbrs = cnt cfg g.cells y + 1 := by
    have := hc c hcm.1
    rw [hcm.2, if_pos (by simp)] at this
    exact this
  obtain ⟨hbd, hnb⟩ := bumpDn_border (cfg := cfg) (hb.border c hcm.1) (by omega)
  have himp : c.border = true → (bumpDn cfg c).border = true := by
    intro h0
    rw [hbd]
    have := hb.border c hcm.1
    rw [h0] at this
    have h1 : c.nbrs < cfg.limit := by simpa using this.symm
    simp; omega
  rw [touchRemove_eq hget himp]
  obtain ⟨hB, ⟨h, hcells⟩, hn⟩ := requeue_spec (c' := bumpDn cfg c) hb hget rfl rfl rfl hbd
  refine ⟨hB, ?_, ?_, hn⟩
  · rw [hcells]
    intro d hd
    rw [cnt_congr (map_coord_setCell _ _)]
    rcases (mem_setCell hb.nodup hget (c' := { bumpDn cfg c with helem := h }) hcm.2).1 hd with rfl | ⟨hd', hne⟩
    · show (bumpDn cfg c).nbrs = cnt cfg g.cells c.coord + (if c.coord ∈ S then 1 else 0)
      rw [hcm.2, if_neg hy]
      omega
    · have := hc d hd'
      have hiff : (d.coord ∈ y :: S) ↔ d.coord ∈ S := by simp [hne]
      simp only [hiff] at this; exact this
  · rw [hcells]; exact map_coord_setCell _ _

theorem fold_removeUp {cfg : Cfg} : ∀ (L S : List Coord) (g : GridB), Base cfg g → CountUp cfg (L ++ S) g.cells →
    L.Nodup → (∀ y ∈ L, y ∉ S) → (∀ y ∈ L, has g.cells y = true) →
    Base cfg (L.foldl (touchRemove cfg) g) ∧ CountUp cfg S (L.foldl (touchRemove cfg) g).cells ∧
      (L.foldl (touchRemove cfg) g).cells.map (·.coord) = g.cells.map (·.coord) ∧
      (L.foldl (touchRemove cfg) g).nextId = g.nextId := by
  intro L
  induction L with
  | nil => intro S g hb hc _ _ _; exact ⟨hb, hc, rfl, rfl⟩
  | cons y L ih =>
    intro S g hb hc nd hS hp
    have nd' := List.nodup_cons.1 nd
    have hyn : y ∉ L ++ S := by
      intro h
      rcases List.mem_append.1 h with h | h
      · exact nd'.1 h
      · exact hS y (by simp) h
    obtain ⟨hB1, hC1, hM1, hN1⟩ := touchRemove_specUp hb hc hyn (hp y (by simp))
    obtain ⟨hB2, hC2, hM2, hN2⟩ := ih S (touchRemove cfg g y) hB1 hC1 nd'.2
      (fun z hz => hS z (by simp [hz]))
      (by intro z hz; rw [has_congr hM1]; exact hp z (by simp [hz]))
    exact ⟨hB2, hC2, hM2.trans hM1, hN2.trans hN1⟩

/-- `GridB::remove` on the pending cell answers `false`, and restores the invariant of the grid without it -/
theorem abandon_inv {cfg : Cfg} {g : GridB} {p : Cell} (hp : InvP cfg g p) :
    Inv cfg (abandon cfg g p).1 ∧ (abandon cfg g p).2 = false ∧
      (abandon cfg g p).1.cells.map (·.coord) = g.cells.map (·.coord) := by
  obtain ⟨hC, _⟩ := hp.countUp
  obtain ⟨hnd, hpres, _, _⟩ := nbL_facts hp.toBase hp.plen
  obtain ⟨hB1, hC1, hM1, hN1⟩ := fold_removeUp ((neighbors cfg.dim g.cells p.coord).map (·.coord)) [] g hp.toBase
    (by rw [List.append_nil]; exact hC) hnd (by simp) hpres
  have hnone : getCell (List.foldl (touchRemove cfg) g ((neighbors cfg.dim g.cells p.coord).map (·.coord))).cells p.coord
      = none := by
    have : has (List.foldl (touchRemove cfg) g ((neighbors cfg.dim g.cells p.coord).map (·.coord))).cells p.coord = false := by
      rw [has_congr hM1]; exact hp.pabs
    unfold has at this
    cases h : getCell (List.foldl (touchRemove cfg) g ((neighbors cfg.dim g.cells p.coord).map (·.coord))).cells p.coord with
    | none => rfl
    | some c => rw [h] at this; cases this
  have hrm : removeCell cfg g p.coord =
      (List.foldl (touchRemove cfg) g ((neighbors cfg.dim g.cells p.coord).map (·.coord)), false) := by
    unfold removeCell
    simp only [hnone]
  unfold abandon
  simp only [hrm]
  refine ⟨⟨⟨hB1.nodup, hB1.len, hB1.border, hB1.ext, hB1.int, hB1.extH, hB1.intH, ?_, hB1.idnd⟩, ?_⟩, trivial, hM1⟩
  · intro c hc
    have := hB1.idlt c hc
    show c.id < p.id + 1
    rw [hp.pid, ← hN1]; omega
  · intro c hc
    have := hC1 c hc
    simpa using this

/-! ### `update` / `updateAll` inside the window -/

theorem InvP.of_requeue_same {cfg : Cfg} {g : GridB} {p : Cell} (hi : InvP cfg g p) {y : Coord} {c c' : Cell}
    (hget : getCell g.cells y = some c) (hcoord : c'.coord = c.coord) (hid : c'.id = c.id)
    (hh : c'.helem = c.helem) (hn : c'.nbrs = c.nbrs) (hbo : c'.border = c.border) :
    InvP cfg (requeue cfg g c c') p := by
  have hcm := getCell_some_mem hget
  have hbd : c'.border = decide (c'.nbrs < cfg.limit) := by rw [hbo, hn]; exact hi.border c hcm.1
  obtain ⟨hB, ⟨h, hcells⟩, hnx⟩ := requeue_spec hi.toBase hget hcoord hid hh hbd
  have hco : (requeue cfg g c c').cells.map (·.coord) = g.cells.map (·.coord) := by
    rw [hcells]; exact map_coord_setCell _ _
  refine ⟨hB, hi.plen, by rw [has_congr hco]; exact hi.pabs, ?_, by rw [cnt_congr hco]; exact hi.pcount, hi.pborder,
    by rw [hnx]; exact hi.pid⟩
  intro d hd
  rw [cnt_congr hco]
  rw [hcells] at hd
  rcases (mem_setCell hi.nodup hget (c' := { c' with helem := h }) (hcoord.trans hcm.2)).1 hd with rfl | ⟨hd', _⟩
  · show c'.nbrs = cnt cfg g.cells c'.coord + (if p.coord ∈ neighborCoords cfg.dim c'.coord then 1 else 0)
    rw [hn, hcoord]; exact hi.count c hcm.1
  · exact hi.count d hd'

theorem update_invP {cfg : Cfg} {g : GridB} {p : Cell} {x : Coord} {d : Int} (hi : InvP cfg g p) :
    InvP cfg (update cfg g x d) p := by
  unfold update
  split
  · exact hi
  · rename_i c hget
    have := hi.of_requeue_same (c' := { c with data := cfg.ev { c with data := d } }) hget rfl rfl rfl rfl rfl
    unfold requeue at this
    by_cases hb : c.border = true
    · have hb' : ({ c with data := cfg.ev { c with data := d } } : Cell).border = true := hb
      rw [if_pos hb', if_pos hb] at this
      simp only []
      rw [if_pos hb']
      exact this
    · have hb' : ¬ ({ c with data := cfg.ev { c with data := d } } : Cell).border = true := hb
      rw [if_neg hb', if_neg hb] at this
      simp only []
      rw [if_neg hb']
      exact this

theorem coords_updateAll {cfg : Cfg} {g : GridB} (chg : List (Coord × Int)) (nd : (g.cells.map (·.coord)).Nodup) :
    (updateAll cfg g chg).cells.map (·.coord) = g.cells.map (·.coord) :=
  map_coord_of_strip (updateAll_cells_strip (cfg := cfg) chg nd)

theorem updateAll_invP {cfg : Cfg} {g : GridB} {p : Cell} {chg : List (Coord × Int)} (hi : InvP cfg g p) :
    InvP cfg (updateAll cfg g chg) p := by
  have hs := updateAll_cells_strip (cfg := cfg) chg hi.nodup
  have hco := map_coord_of_strip hs
  refine ⟨⟨?_, ?_, ?_, ?_, ?_, hi.extH.pokeRebuild _ _, hi.intH.pokeRebuild _ _, ?_, ?_⟩, hi.plen, ?_, ?_, ?_, hi.pborder,
    hi.pid⟩
  · show (((pokeData g.cells chg).map (fun c => { c with data := cfg.ev c })).map (·.coord)).Nodup
    rw [hco]; exact hi.nodup
  · intro d hd
    obtain ⟨c, hc, he⟩ := mem_of_strip hs hd
    have : c.coord = d.coord := (congrArg Cell.coord he :)
    rw [← this]; exact hi.len c hc
  · intro d hd
    obtain ⟨c, hc, he⟩ := mem_of_strip hs hd
    have h1 : c.border = d.border := (congrArg Cell.border he :)
    have h2 : c.nbrs = d.nbrs := (congrArg Cell.nbrs he :)
    rw [← h1, ← h2]; exact hi.border c hc
  · exact pokeRebuild_side (p := (·.border)) hi.extH hi.ext hs (fun _ => rfl)
  · exact pokeRebuild_side (p := fun c => !c.border) hi.intH hi.int hs (fun _ => rfl)
  · intro d hd
    obtain ⟨c, hc, he⟩ := mem_of_strip hs hd
    have : c.id = d.id := (congrArg Cell.id he :)
    show d.id < g.nextId
    rw [← this]; exact hi.idlt c hc
  · show (((pokeData g.cells chg).map (fun c => { c with data := cfg.ev c })).map (·.id)).Nodup
    rw [map_id_of_strip hs]; exact hi.idnd
  · show has ((pokeData g.cells chg).map (fun c => { c with data := cfg.ev c })) p.coord = false
    rw [has_congr hco]; exact hi.pabs
  · intro d hd
    obtain ⟨c, hc, he⟩ := mem_of_strip hs hd
    have h1 : c.coord = d.coord := (congrArg Cell.coord he :)
    have h2 : c.nbrs = d.nbrs := (congrArg Cell.nbrs he :)
    show d.nbrs = cnt cfg ((pokeData g.cells chg).map (fun c => { c with data := cfg.ev c })) d.coord + _
    rw [cnt_congr hco, ← h1, ← h2]; exact hi.count c hc
  · show p.nbrs = cnt cfg ((pokeData g.cells chg).map (fun c => { c with data := cfg.ev c })) p.coord
    rw [cnt_congr hco]; exact hi.pcount

/-! ### every step, every history -/

def Op.valid (dim : Nat) : Op → Prop
  | .create x _ => x.length = dim
  | .new x _ => x.length = dim
  | _ => True

theorem step_invS {cfg : Cfg} {s : GridS} {op : Op} (hv : op.valid cfg.dim) (hi : InvS cfg s) :
    InvS cfg (step cfg s op) := by
  obtain ⟨g, pend⟩ := s
  cases pend with
  | none =>
    have hi' : Inv cfg g := hi
    cases op with
    | create x d =>
      by_cases h : has g.cells x = true
      · simpa [step, h] using hi
      · have : step cfg ⟨g, none⟩ (.create x d) = ⟨(createCell cfg g x d).1, some (createCell cfg g x d).2⟩ := by
          simp [step, h]
        rw [this]
        exact createCell_invP hi' hv (by simpa using h)
    | add => exact hi
    | abandon => exact hi
    | new x d => exact Grid.step_inv (op := .new x d) hv hi'
    | rm x => exact Grid.step_inv (op := .rm x) trivial hi'
    | upd x d => exact Grid.update_inv hi'
    | updAll chg => exact Grid.updateAll_inv hi'
    | clear => exact Grid.clear_inv hi'
  | some p =>
    have hi' : InvP cfg g p := hi
    cases op with
    | create x d => exact hi
    | add => exact addCellB_inv hi'
    | abandon => exact (abandon_inv hi').1
    | new x d => exact hi
    | rm x => exact hi
    | upd x d => exact update_invP hi'
    | updAll chg => exact updateAll_invP hi'
    | clear => exact hi

theorem run_invS {cfg : Cfg} (ops : List Op) (hv : ∀ op ∈ ops, op.valid cfg.dim) : InvS cfg (run cfg ops) := by
  unfold run
  have : ∀ (ops : List Op) (s : GridS), (∀ op ∈ ops, op.valid cfg.dim) → InvS cfg s →
      InvS cfg (ops.foldl (step cfg) s) := by
    intro ops
    induction ops with
    | nil => intro s _ h; exact h
    | cons op ops ih =>
      intro s hv h
      exact ih _ (fun o ho => hv o (List.mem_cons_of_mem _ ho)) (step_invS (hv op List.mem_cons_self) h)
  exact this ops {} hv (Grid.empty_inv cfg)

/-! ### heap order -/

theorem createCell_ordered {cfg : Cfg} (ok : CmpOK cfg) {g : GridB} (x : Coord) (d : Int) (h : Ordered cfg g) :
    Ordered cfg (createCell cfg g x d).1 := by
  show Ordered cfg (List.foldl (touchCreate cfg) g ((neighbors cfg.dim g.cells x).map (·.coord)))
  exact foldl_ordered (fun _ x => touchCreate_ordered ok x) _ g h

theorem addCellB_ordered {cfg : Cfg} (ok : CmpOK cfg) {g : GridB} (p : Cell) (h : Ordered cfg g) :
    Ordered cfg (addCellB cfg g p) := by
  unfold addCellB
  simp only []
  split
  · exact ⟨Heap.insert_ordered ok.kE _ _ h.1, h.2⟩
  · exact ⟨h.1, Heap.insert_ordered ok.kI _ _ h.2⟩

theorem abandon_ordered {cfg : Cfg} (ok : CmpOK cfg) {g : GridB} (p : Cell) (h : Ordered cfg g) :
    Ordered cfg (abandon cfg g p).1 :=
  removeCell_ordered ok p.coord h

theorem step_orderedS {cfg : Cfg} (ok : CmpOK cfg) {s : GridS} (op : Op) (h : Ordered cfg s.g) :
    Ordered cfg (step cfg s op).g := by
  obtain ⟨g, pend⟩ := s
  cases op with
  | create x d =>
    show Ordered cfg (if pend.isSome || has g.cells x then (⟨g, pend⟩ : GridS) else _).g
    split
    · exact h
    · exact createCell_ordered ok x d h
  | add =>
    cases pend with
    | none => exact h
    | some p => exact addCellB_ordered ok p h
  | abandon =>
    cases pend with
    | none => exact h
    | some p => exact abandon_ordered ok p h
  | new x d =>
    show Ordered cfg (if pend.isSome then (⟨g, pend⟩ : GridS) else _).g
    split
    · exact h
    · exact Grid.step_ordered ok (.new x d) h
  | rm x =>
    show Ordered cfg (if pend.isSome then (⟨g, pend⟩ : GridS) else _).g
    split
    · exact h
    · exact Grid.step_ordered ok (.rm x) h
  | upd x d => exact update_ordered ok x d h
  | updAll chg => exact updateAll_ordered ok chg
  | clear =>
    show Ordered cfg (if pend.isSome then (⟨g, pend⟩ : GridS) else _).g
    split
    · exact h
    · exact clear_ordered g

theorem run_orderedS {cfg : Cfg} (ok : CmpOK cfg) (ops : List Op) : Ordered cfg (run cfg ops).g := by
  unfold run
  have : ∀ (ops : List Op) (s : GridS), Ordered cfg s.g → Ordered cfg (ops.foldl (step cfg) s).g := by
    intro ops
    induction ops with
    | nil => intro s h; exact h
    | cons op ops ih => intro s h; exact ih _ (step_orderedS ok op h)
  exact this ops {} ⟨Heap.empty_ordered _, Heap.empty_ordered _⟩

/-! ### which coordinates are present: the abstract history -/

theorem touchCreate_coords (cfg : Cfg) (g : GridB) (x : Coord) :
    (touchCreate cfg g x).cells.map (·.coord) = g.cells.map (·.coord) := by
  cases hget : getCell g.cells x with
  | none => unfold touchCreate; rw [hget]
  | some c =>
    rw [touchCreate_some hget]
    simp only []
    split
    · exact map_coord_setCell _ _
    · split <;> exact map_coord_setCell _ _

theorem fold_touchCreate_coords (cfg : Cfg) : ∀ (L : List Coord) (g : GridB),
    (L.foldl (touchCreate cfg) g).cells.map (·.coord) = g.cells.map (·.coord)
  | [], _ => rfl
  | y :: L, g => (fold_touchCreate_coords cfg L _).trans (touchCreate_coords cfg g y)

def CoordsOK (s : GridS) (sp : List Coord × Option Coord) : Prop :=
  s.g.cells.map (·.coord) = sp.1 ∧ s.pending.map (·.coord) = sp.2

theorem has_eq_contains (cells : List Cell) (x : Coord) : has cells x = (cells.map (·.coord)).contains x := by
  rw [has_eq_decide_mem, Bool.eq_iff_iff]; simp

theorem step_coords {cfg : Cfg} {s : GridS} {op : Op} {sp : List Coord × Option Coord} (hv : op.valid cfg.dim)
    (hi : InvS cfg s) (hs : CoordsOK s sp) : CoordsOK (step cfg s op) (spec sp op) := by
  obtain ⟨g, pend⟩ := s
  obtain ⟨P, q⟩ := sp
  obtain ⟨h1, h2⟩ := hs
  simp only at h1 h2
  subst h1
  cases pend with
  | none =>
    have hq : q = none := h2.symm
    subst hq
    have hi' : Inv cfg g := hi
    cases op with
    | create x d =>
      by_cases h : has g.cells x = true
      · have h' : (g.cells.map (·.coord)).contains x = true := by rw [← has_eq_contains]; exact h
        simp only [step, spec, h, h', Option.isSome_none, Bool.false_or, if_true]
        exact ⟨rfl, rfl⟩
      · have h' : (g.cells.map (·.coord)).contains x = false := by rw [← has_eq_contains]; simpa using h
        have hf : has g.cells x = false := by simpa using h
        simp only [step, spec, hf, h', Option.isSome_none, Bool.false_or, Bool.false_eq_true, if_false]
        exact ⟨fold_touchCreate_coords cfg _ g, rfl⟩
    | add => exact ⟨rfl, rfl⟩
    | abandon => exact ⟨rfl, rfl⟩
    | new x d =>
      have hc := coords_step hi' (.new x d) hv
      by_cases h : has g.cells x = true
      · have h' : (g.cells.map (·.coord)).contains x = true := by rw [← has_eq_contains]; exact h
        simp only [h, if_true] at hc
        simp only [step, spec, h', Option.isSome_none, Bool.false_eq_true, if_false, if_true]
        exact ⟨hc, rfl⟩
      · have h' : (g.cells.map (·.coord)).contains x = false := by rw [← has_eq_contains]; simpa using h
        simp only [h] at hc
        simp only [step, spec, h', Option.isSome_none, Bool.false_eq_true, if_false]
        exact ⟨hc, rfl⟩
    | rm x =>
      have hc := coords_step hi' (.rm x) trivial
      simp only [step, spec, Option.isSome_none, Bool.false_eq_true, if_false]
      exact ⟨hc, rfl⟩
    | upd x d => exact ⟨coords_update cfg g x d, rfl⟩
    | updAll chg => exact ⟨coords_updateAll chg hi'.nodup, rfl⟩
    | clear => exact ⟨rfl, rfl⟩
  | some p =>
    have hq : q = some p.coord := h2.symm
    subst hq
    have hi' : InvP cfg g p := hi
    cases op with
    | create x d => exact ⟨rfl, rfl⟩
    | add =>
      refine ⟨?_, rfl⟩
      show (addCellB cfg g p).cells.map (·.coord) = g.cells.map (·.coord) ++ [p.coord]
      have habs := hi'.pabs
      unfold addCellB
      simp only []
      split <;>
      · rw [show addCell _ _ = _ ++ [_] from if_neg (by rw [habs]; simp)]
        simp
    | abandon => exact ⟨(abandon_inv hi').2.2, rfl⟩
    | new x d => exact ⟨rfl, rfl⟩
    | rm x => exact ⟨rfl, rfl⟩
    | upd x d => exact ⟨coords_update cfg g x d, rfl⟩
    | updAll chg => exact ⟨coords_updateAll chg hi'.nodup, rfl⟩
    | clear => exact ⟨rfl, rfl⟩

theorem run_coords {cfg : Cfg} (ops : List Op) (hv : ∀ op ∈ ops, op.valid cfg.dim) :
    CoordsOK (run cfg ops) (specRun ops) := by
  unfold run specRun
  have : ∀ (ops : List Op) (s : GridS) (sp : List Coord × Option Coord), (∀ op ∈ ops, op.valid cfg.dim) → InvS cfg s →
      CoordsOK s sp → CoordsOK (ops.foldl (step cfg) s) (ops.foldl spec sp) := by
    intro ops
    induction ops with
    | nil => intro s sp _ _ h; exact h
    | cons op ops ih =>
      intro s sp hv hi h
      have hv0 := hv op List.mem_cons_self
      exact ih _ _ (fun o ho => hv o (List.mem_cons_of_mem _ ho)) (step_invS hv0 hi) (step_coords hv0 hi h)
  exact this ops {} ([], none) hv (Grid.empty_inv cfg) ⟨rfl, rfl⟩

/-- a history of the fused protocol, replayed with every `new` split into `create` + `add`, reaches the same state -/
theorem run_ofOp (cfg : Cfg) (ops : List Grid.Op) :
    run cfg (ops.flatMap ofOp) = { g := Grid.run cfg ops, pending := none } := by
  unfold run Grid.run
  have : ∀ (ops : List Grid.Op) (g : GridB),
      (ops.flatMap ofOp).foldl (step cfg) { g := g, pending := none } =
        { g := ops.foldl (Grid.step cfg) g, pending := none } := by
    intro ops
    induction ops with
    | nil => intro g; rfl
    | cons op ops ih =>
      intro g
      rw [List.flatMap_cons, List.foldl_append, List.foldl_cons]
      have : (ofOp op).foldl (step cfg) { g := g, pending := none } = { g := Grid.step cfg g op, pending := none } := by
        cases op with
        | new x d =>
          show step cfg (step cfg ⟨g, none⟩ (.create x d)) .add = ⟨if has g.cells x then g else newCell cfg g x d, none⟩
          by_cases h : has g.cells x = true
          · simp [step, h]
          · have hf : has g.cells x = false := by simpa using h
            simp [step, hf, newCell_eq]
        | rm x => rfl
        | upd x d => rfl
        | updAll chg => rfl
        | clear => rfl
      rw [this]
      exact ih _
  exact this ops {}

end OmplModel.GridS
