import OmplModel.Model.PlannerReport
/-! Lemmas about the reporting layer (L0 of C01).  All arithmetic-free. -/
namespace OmplModel.PlannerReport

variable {S P D : Type}

/-! ### status -/

theorem ofFlags_toBool (s a : Bool) : (Status.ofFlags s a).toBool = s := by
  cases s <;> cases a <;> rfl

theorem ofFlags_exact (s a : Bool) : Status.ofFlags s a = .exactSolution ↔ (s = true ∧ a = false) := by
  cases s <;> cases a <;> simp [Status.ofFlags]

theorem ofFlags_approx (s a : Bool) : Status.ofFlags s a = .approximateSolution ↔ (s = true ∧ a = true) := by
  cases s <;> cases a <;> simp [Status.ofFlags]

theorem ofFlags_timeout (s a : Bool) : Status.ofFlags s a = .timeout ↔ s = false := by
  cases s <;> cases a <;> simp [Status.ofFlags]

theorem toBool_iff (st : Status) : st.toBool = true ↔ (st = .approximateSolution ∨ st = .exactSolution) := by
  cases st <;> simp [Status.toBool]

/-! ### nextStart -/

theorem nextStartAux_some (bounds valid : S → Bool) (starts : Array S) (fuel : Nat) (pis pis' : Pis) (i : Nat) (s : S)
    (h : nextStartAux bounds valid starts fuel pis = (some (i, s), pis')) :
    ∃ hi : i < starts.size, starts[i] = s ∧ bounds s = true ∧ valid s = true ∧
      pis.addedStartStates ≤ i ∧ pis'.addedStartStates = i + 1 ∧
      pis'.sampledGoalsCount = pis.sampledGoalsCount ∧
      ∀ j (hj : j < starts.size), pis.addedStartStates ≤ j → j < i → inputOk bounds valid starts[j] = false := by
  induction fuel generalizing pis with
  | zero => simp [nextStartAux] at h
  | succ f ih =>
    simp only [nextStartAux] at h
    split at h
    · next hlt =>
      split at h
      · next hok =>
        simp only [Prod.mk.injEq, Option.some.injEq] at h
        obtain ⟨⟨rfl, rfl⟩, rfl⟩ := h
        refine ⟨hlt, rfl, ?_, ?_, Nat.le_refl _, rfl, rfl, ?_⟩
        · unfold inputOk at hok; split at hok <;> simp_all
        · unfold inputOk at hok; split at hok <;> simp_all
        · intro j hj h1 h2; omega
      · next hok =>
        obtain ⟨hi, h1, h2, h3, h4, h5, h6, h7⟩ := ih _ h
        simp only at h4 h6 h7
        refine ⟨hi, h1, h2, h3, by omega, h5, h6, ?_⟩
        intro j hj hj1 hj2
        by_cases hje : j = pis.addedStartStates
        · subst hje; simpa using hok
        · exact h7 j hj (by omega) hj2
    · simp at h

theorem nextStartAux_none (bounds valid : S → Bool) (starts : Array S) (fuel : Nat) (pis pis' : Pis)
    (hf : starts.size - pis.addedStartStates ≤ fuel)
    (h : nextStartAux bounds valid starts fuel pis = (none, pis')) :
    starts.size ≤ pis'.addedStartStates ∧ pis.addedStartStates ≤ pis'.addedStartStates ∧
      (pis.addedStartStates ≤ starts.size → pis'.addedStartStates = starts.size) ∧
      pis'.sampledGoalsCount = pis.sampledGoalsCount ∧
      ∀ j (hj : j < starts.size), pis.addedStartStates ≤ j → inputOk bounds valid starts[j] = false := by
  induction fuel generalizing pis with
  | zero =>
    simp only [nextStartAux, Prod.mk.injEq, true_and] at h
    subst h
    refine ⟨by omega, Nat.le_refl _, fun _ => by omega, rfl, ?_⟩
    intro j hj hj1; omega
  | succ f ih =>
    simp only [nextStartAux] at h
    split at h
    · next hlt =>
      split at h
      · simp at h
      · next hok =>
        obtain ⟨h1, h2, h3, h4, h5⟩ := ih _ (by simp only; omega) h
        simp only at h2 h3 h4 h5
        refine ⟨h1, by omega, fun _ => h3 (by omega), h4, ?_⟩
        intro j hj hj1
        by_cases hje : j = pis.addedStartStates
        · subst hje; simpa using hok
        · exact h5 j hj (by omega)
    · next hge =>
      simp only [Prod.mk.injEq, true_and] at h
      subst h
      refine ⟨by omega, Nat.le_refl _, fun _ => by omega, rfl, ?_⟩
      intro j hj hj1; omega

theorem nextStart_some (bounds valid : S → Bool) (starts : Array S) (pis pis' : Pis) (i : Nat) (s : S)
    (h : nextStart bounds valid starts pis = (some (i, s), pis')) :
    ∃ hi : i < starts.size, starts[i] = s ∧ bounds s = true ∧ valid s = true ∧
      pis.addedStartStates ≤ i ∧ pis'.addedStartStates = i + 1 ∧
      pis'.sampledGoalsCount = pis.sampledGoalsCount ∧
      ∀ j (hj : j < starts.size), pis.addedStartStates ≤ j → j < i → inputOk bounds valid starts[j] = false :=
  nextStartAux_some bounds valid starts _ pis pis' i s h

theorem nextStart_none (bounds valid : S → Bool) (starts : Array S) (pis pis' : Pis)
    (h : nextStart bounds valid starts pis = (none, pis')) :
    starts.size ≤ pis'.addedStartStates ∧ pis.addedStartStates ≤ pis'.addedStartStates ∧
      (pis.addedStartStates ≤ starts.size → pis'.addedStartStates = starts.size) ∧
      pis'.sampledGoalsCount = pis.sampledGoalsCount ∧
      ∀ j (hj : j < starts.size), pis.addedStartStates ≤ j → inputOk bounds valid starts[j] = false :=
  nextStartAux_none bounds valid starts _ pis pis' (Nat.le_refl _) h

/-- what `while (st = pis_.nextStart())` hands out -/
theorem drainStarts_spec (bounds valid : S → Bool) (starts : Array S) (fuel : Nat) (pis : Pis) :
    (∀ x ∈ (drainStarts bounds valid starts fuel pis).1,
        ∃ hi : x.1 < starts.size, starts[x.1] = x.2 ∧ bounds x.2 = true ∧ valid x.2 = true ∧
          pis.addedStartStates ≤ x.1) ∧
      (drainStarts bounds valid starts fuel pis).1.Pairwise (fun a b => a.1 < b.1) := by
  induction fuel generalizing pis with
  | zero => simp [drainStarts]
  | succ f ih =>
    unfold drainStarts
    split
    · simp
    · next x pis' heq =>
      obtain ⟨hi, h1, h2, h3, h4, h5, _, _⟩ := nextStart_some bounds valid starts pis pis' x.1 x.2 heq
      obtain ⟨ih1, ih2⟩ := ih pis'
      refine ⟨?_, ?_⟩
      · intro y hy
        simp only [List.mem_cons] at hy
        rcases hy with rfl | hy
        · exact ⟨hi, h1, h2, h3, h4⟩
        · obtain ⟨hy1, hy2, hy3, hy4, hy5⟩ := ih1 y hy
          exact ⟨hy1, hy2, hy3, hy4, by omega⟩
      · simp only [List.pairwise_cons]
        refine ⟨?_, ih2⟩
        intro y hy
        obtain ⟨_, _, _, _, hy5⟩ := ih1 y hy
        omega

/-- with `starts.size + 1` calls the loop ends because `nextStart` returned null: every start state
was looked at. -/
theorem drainStarts_exhausts (bounds valid : S → Bool) (starts : Array S) (fuel : Nat) (pis : Pis)
    (hf : starts.size < pis.addedStartStates + fuel) (hle : pis.addedStartStates ≤ starts.size) :
    (drainStarts bounds valid starts fuel pis).2.addedStartStates = starts.size ∧
      ∀ j (hj : j < starts.size), pis.addedStartStates ≤ j → inputOk bounds valid starts[j] = true →
        ∃ x ∈ (drainStarts bounds valid starts fuel pis).1, x.1 = j := by
  induction fuel generalizing pis with
  | zero => omega
  | succ f ih =>
    unfold drainStarts
    split
    · next pis' heq =>
      obtain ⟨h1, h2, h3, h4, h5⟩ := nextStart_none bounds valid starts pis pis' heq
      refine ⟨h3 hle, ?_⟩
      intro j hj hj1 hok
      rw [h5 j hj hj1] at hok; exact absurd hok (by simp)
    · next x pis' heq =>
      obtain ⟨hi, h1, h2, h3, h4, h5, _, h7⟩ := nextStart_some bounds valid starts pis pis' x.1 x.2 heq
      obtain ⟨ih1, ih2⟩ := ih pis' (by omega) (by omega)
      refine ⟨ih1, ?_⟩
      intro j hj hj1 hok
      by_cases hjx : j < x.1
      · rw [h7 j hj hj1 hjx] at hok; exact absurd hok (by simp)
      · by_cases hje : j = x.1
        · exact ⟨x, by simp, hje.symm⟩
        · obtain ⟨y, hy, hy2⟩ := ih2 j hj (by omega) hok
          exact ⟨y, List.mem_cons_of_mem _ hy, hy2⟩

/-! ### nextGoal -/

theorem goalInner_spec (bounds valid : S → Bool) (sample : Nat → S) (maxCount fuel count : Nat) (sc : List Bool) :
    let r := goalInner bounds valid sample maxCount fuel count sc
    count ≤ r.2.1 ∧ r.2.1 ≤ count + fuel ∧
      ∀ x, r.1 = some x → x.2 = sample x.1 ∧ bounds x.2 = true ∧ valid x.2 = true ∧ count ≤ x.1 ∧ x.1 < r.2.1 := by
  induction fuel generalizing count sc with
  | zero => simp [goalInner]
  | succ f ih =>
    simp only [goalInner]
    split
    · next hok =>
      refine ⟨by simp, by simp <;> omega, ?_⟩
      intro x hx
      simp only [Option.some.injEq] at hx
      subst hx
      unfold inputOk at hok
      split at hok <;> simp_all
    · split
      · obtain ⟨h1, h2, h3⟩ := ih (count + 1) (ptcEval sc).2
        refine ⟨by omega, by omega, ?_⟩
        intro x hx
        obtain ⟨a, b, c, d, e⟩ := h3 x hx
        exact ⟨a, b, c, by omega, e⟩
      · simp <;> omega

theorem goalOuter_spec (bounds valid : S → Bool) (sample : Nat → S) (maxCount fuel count : Nat) (sc : List Bool) :
    let r := goalOuter bounds valid sample maxCount fuel count sc
    count ≤ r.2.1 ∧ r.2.1 ≤ max count maxCount ∧
      ∀ x, r.1 = some x → x.2 = sample x.1 ∧ bounds x.2 = true ∧ valid x.2 = true ∧ count ≤ x.1 ∧
        x.1 < r.2.1 ∧ x.1 < maxCount := by
  induction fuel generalizing count sc with
  | zero => simp [goalOuter]; omega
  | succ f ih =>
    simp only [goalOuter]
    have hin := goalInner_spec bounds valid sample maxCount (maxCount - count) count sc
    split
    · next x count' sc' heq =>
      split at heq
      · next hlt =>
        rw [heq] at hin
        obtain ⟨h1, h2, h3⟩ := hin
        simp only at h1 h2 h3
        refine ⟨h1, by simp only; omega, ?_⟩
        intro y hy
        simp only [Option.some.injEq] at hy
        subst hy
        obtain ⟨a, b, c, d, e⟩ := h3 x rfl
        exact ⟨a, b, c, d, e, by omega⟩
      · simp at heq
    · next count' sc' heq =>
      have hc : count ≤ count' ∧ count' ≤ max count maxCount := by
        split at heq
        · rw [heq] at hin
          obtain ⟨h1, h2, _⟩ := hin
          simp only at h1 h2
          omega
        · simp only [Prod.mk.injEq, true_and] at heq
          obtain ⟨rfl, _⟩ := heq
          omega
      split
      · split
        · split
          · obtain ⟨h1, h2, h3⟩ := ih count' (ptcEval (ptcEval sc').2).2
            refine ⟨by omega, by omega, ?_⟩
            intro y hy
            obtain ⟨a, b, c, d, e, g⟩ := h3 y hy
            exact ⟨a, b, c, by omega, e, g⟩
          · simp <;> omega
        · simp <;> omega
      · simp <;> omega

theorem nextGoal_valid (bounds valid : S → Bool) (sample : Nat → S) (maxCount : Nat) (ptcScript : List Bool)
    (pis pis' : Pis) (k : Nat) (s : S)
    (h : nextGoal bounds valid sample maxCount ptcScript pis = (some (k, s), pis')) :
    s = sample k ∧ bounds s = true ∧ valid s = true ∧ pis.sampledGoalsCount ≤ k ∧
      k < pis'.sampledGoalsCount ∧ k < maxCount ∧ pis'.addedStartStates = pis.addedStartStates := by
  unfold nextGoal at h
  simp only [Prod.mk.injEq] at h
  obtain ⟨h1, h2⟩ := h
  obtain ⟨_, _, h3⟩ := goalOuter_spec bounds valid sample maxCount (ptcScript.length + 1) pis.sampledGoalsCount ptcScript
  obtain ⟨a, b, c, d, e, g⟩ := h3 (k, s) h1
  subst h2
  exact ⟨a, b, c, d, e, g, rfl⟩

theorem nextGoal_count (bounds valid : S → Bool) (sample : Nat → S) (maxCount : Nat) (ptcScript : List Bool)
    (pis : Pis) :
    pis.sampledGoalsCount ≤ (nextGoal bounds valid sample maxCount ptcScript pis).2.sampledGoalsCount ∧
      (nextGoal bounds valid sample maxCount ptcScript pis).2.sampledGoalsCount ≤ max pis.sampledGoalsCount maxCount := by
  obtain ⟨h1, h2, _⟩ := goalOuter_spec bounds valid sample maxCount (ptcScript.length + 1) pis.sampledGoalsCount ptcScript
  exact ⟨h1, h2⟩

/-! ### PathGeometric::check -/

theorem checkLoop_iff (cm : S → S → Bool) (a : S) (l : List S) :
    checkLoop cm a l = true ↔ ∀ i (h : i + 1 < (a :: l).length), cm (a :: l)[i] (a :: l)[i + 1] = true := by
  induction l generalizing a with
  | nil => simp [checkLoop]
  | cons b r ih =>
    simp only [checkLoop]
    constructor
    · intro h
      split at h
      · next hc =>
        intro i hi
        cases i with
        | zero => simpa using hc
        | succ j =>
          have := (ih b).1 h j (by simpa using hi)
          simpa using this
      · simp at h
    · intro h
      have h0 := h 0 (by simp)
      simp only [List.getElem_cons_zero, List.getElem_cons_succ] at h0
      rw [if_pos h0]
      apply (ih b).2
      intro i hi
      have := h (i + 1) (by simpa using hi)
      simpa using this

theorem pathCheck_iff (valid : S → Bool) (cm : S → S → Bool) (p : List S) :
    pathCheck valid cm p = true ↔
      (∀ h : 0 < p.length, valid p[0] = true) ∧ (∀ i (h : i + 1 < p.length), cm p[i] p[i + 1] = true) := by
  cases p with
  | nil => simp [pathCheck]
  | cons s0 rest =>
    simp only [pathCheck]
    constructor
    · intro h
      split at h
      · next hv => exact ⟨fun _ => by simpa using hv, (checkLoop_iff cm s0 rest).1 h⟩
      · simp at h
    · intro ⟨h1, h2⟩
      have hv : valid s0 = true := h1 (by simp)
      rw [if_pos hv]
      exact (checkLoop_iff cm s0 rest).2 h2

/-! ### addSolutionPath -/

theorem addSolutionPath_count (zero : D) (pd : Pdef S P D) (path : P) (a : Bool) (d : D) :
    getSolutionCount (addSolutionPath zero pd path a d) = getSolutionCount pd + 1 := by
  simp [getSolutionCount, addSolutionPath]

theorem addSolutionPath_starts (zero : D) (pd : Pdef S P D) (path : P) (a : Bool) (d : D) :
    (addSolutionPath zero pd path a d).starts = pd.starts := rfl

/-- on a problem definition without solutions the registered flags are what was passed -/
theorem addSolutionPath_fresh (zero minusOne : D) (lt : D → D → Bool) (better : P → P → Bool)
    (pd : Pdef S P D) (hempty : pd.solutions = []) (path : P) (a : Bool) (d : D) :
    hasApproximateSolution lt better (addSolutionPath zero pd path a d) = a ∧
      getSolutionDifference lt better minusOne (addSolutionPath zero pd path a d) = (if a then d else zero) := by
  simp [hasApproximateSolution, getSolutionDifference, addSolutionPath, hempty, top]

/-! ### the shared approximate-solution bookkeeping -/

structure TrackerInv {M : Type} (goalDist : M → D) (lt : D → D → Bool) (threshold : D) (seen : List M)
    (t : Tracker M D) : Prop where
  sol : ∀ m, t.solution = some m → m ∈ seen ∧ lt (goalDist m) threshold = true ∧ t.approxdif = goalDist m
  approx : t.solution = none → ∀ m, t.approxsol = some m →
    m ∈ seen ∧ lt (goalDist m) threshold = false ∧ t.approxdif = goalDist m
  /-- without an exact solution nothing seen so far satisfies the goal -/
  none_sat : t.solution = none → ∀ m ∈ seen, lt (goalDist m) threshold = false

theorem tracker_observe_inv {M : Type} (goalDist : M → D) (lt : D → D → Bool) (threshold : D) (seen : List M)
    (t : Tracker M D) (m : M) (h : TrackerInv goalDist lt threshold seen t) :
    TrackerInv goalDist lt threshold (seen ++ [m]) (t.observe goalDist lt threshold m) := by
  unfold Tracker.observe
  split
  · next x hx =>
    refine ⟨fun y hy => ?_, fun hn => by rw [hx] at hn; simp at hn, fun hn => by rw [hx] at hn; simp at hn⟩
    obtain ⟨a, b, c⟩ := h.sol y hy
    exact ⟨List.mem_append_left _ a, b, c⟩
  · next hnone =>
    simp only
    split
    · next hsat =>
      refine ⟨fun y hy => ?_, fun hn => by simp at hn, fun hn => by simp at hn⟩
      simp only [Option.some.injEq] at hy
      subst hy
      exact ⟨by simp, hsat, rfl⟩
    · next hsat =>
      have hsat' : lt (goalDist m) threshold = false := by simpa using hsat
      split
      · refine ⟨fun y hy => by simp [hnone] at hy, fun _ y hy => ?_, fun _ x hx => ?_⟩
        · simp only [Option.some.injEq] at hy
          subst hy
          exact ⟨by simp, hsat', rfl⟩
        · simp only [List.mem_append, List.mem_singleton] at hx
          rcases hx with hx | rfl
          · exact h.none_sat hnone x hx
          · exact hsat'
      · refine ⟨fun y hy => by rw [hnone] at hy; simp at hy, fun _ y hy => ?_, fun _ x hx => ?_⟩
        · obtain ⟨a, b, c⟩ := h.approx hnone y hy
          exact ⟨List.mem_append_left _ a, b, c⟩
        · simp only [List.mem_append, List.mem_singleton] at hx
          rcases hx with hx | rfl
          · exact h.none_sat hnone x hx
          · exact hsat'

theorem tracker_run_inv {M : Type} (goalDist : M → D) (lt : D → D → Bool) (threshold inf : D) (ms : List M) :
    TrackerInv goalDist lt threshold ms (ms.foldl (fun t m => t.observe goalDist lt threshold m) ⟨none, none, inf⟩) := by
  have gen : ∀ (ms seen : List M) (t : Tracker M D), TrackerInv goalDist lt threshold seen t →
      TrackerInv goalDist lt threshold (seen ++ ms) (ms.foldl (fun t m => t.observe goalDist lt threshold m) t) := by
    intro ms
    induction ms with
    | nil => intro seen t h; simpa using h
    | cons m rest ih =>
      intro seen t h
      have := ih (seen ++ [m]) _ (tracker_observe_inv goalDist lt threshold seen t m h)
      simpa using this
  have h0 : TrackerInv goalDist lt threshold [] (⟨none, none, inf⟩ : Tracker M D) :=
    ⟨fun m hm => by simp at hm, fun _ m hm => by simp at hm, fun _ m hm => by simp at hm⟩
  simpa using gen ms [] _ h0

end OmplModel.PlannerReport
