import OmplModel.Proofs.RSBack
import OmplModel.Proofs.RSWords
import OmplModel.Proofs.DubinsWords
/-!
The four-arc Reeds–Shepp family `CCCC` (formulas 8.7 and 8.8, `LpRupLumRm` / `LpRumLumRp`, both through
`tauOmega`), over ℝ (C14, round 3).

* `tauOmega_spec`: closed form of what `tauOmega` returns, modulo 2π.
* `tau_core`: the rotation identity both formulas rest on.
* `end_LRLR_a`, `end_LRLR_b`: end poses of the two stored words of type 2 (`L R L R`).
* `LpRupLumRm_reaches`, `LpRumLumRp_reaches`: the three `assert`s of each solver, exactly.
-/
namespace OmplModel.RS
open OmplModel OmplModel.Dubins

attribute [-instance] Num.instOfNat

/-! ## `tauOmega` -/

/-- closed form of `tauOmega`'s output over ℝ: `delta ≡ u − v`, `tau ≡ atan2(ηA − ξB, ξA + ηB) (+ π when
`t2 < 0`)`, `omega ≡ tau − u + v − φ`, all modulo 2π -/
theorem tauOmega_spec (u v xi eta phi : ℝ) :
    (∃ k : ℤ, rmod2pi (u - v) = u - v + k * (2 * Real.pi)) ∧
    (∃ k : ℤ, (tauOmega u v xi eta phi).1 =
      (if 2 * (Real.cos (rmod2pi (u - v)) - Real.cos v - Real.cos u) + 3 < 0 then
        Complex.arg ⟨xi * (Real.sin u - Real.sin (rmod2pi (u - v))) +
            eta * (Real.cos u - Real.cos (rmod2pi (u - v)) - 1),
          eta * (Real.sin u - Real.sin (rmod2pi (u - v))) -
            xi * (Real.cos u - Real.cos (rmod2pi (u - v)) - 1)⟩ + Real.pi
      else
        Complex.arg ⟨xi * (Real.sin u - Real.sin (rmod2pi (u - v))) +
            eta * (Real.cos u - Real.cos (rmod2pi (u - v)) - 1),
          eta * (Real.sin u - Real.sin (rmod2pi (u - v))) -
            xi * (Real.cos u - Real.cos (rmod2pi (u - v)) - 1)⟩) + k * (2 * Real.pi)) ∧
    (∃ k : ℤ, (tauOmega u v xi eta phi).2 =
      (tauOmega u v xi eta phi).1 - u + v - phi + k * (2 * Real.pi)) := by
  unfold tauOmega
  simp only [DubinsR.sin_eq, DubinsR.cos_eq, DubinsR.atan2_eq, DubinsR.ofNat_zero, DubinsR.ofNat_one,
    DubinsR.ofNat_two, DubinsR.ofNat_three, RSR.rpi_eq]
  refine ⟨rmod2pi_exact _, ?_, rmod2pi_exact _⟩
  split
  · exact rmod2pi_exact _
  · exact rmod2pi_exact _

/-- the rotation identity behind `tauOmega`: with `ξ² + η² = 4(A² + B²)` and
`T = atan2(ηA − ξB, ξA + ηB)`, `2(A cos T − B sin T) = ξ` and `2(B cos T + A sin T) = η` -/
theorem tau_core (xi eta A B : ℝ) (h : xi ^ 2 + eta ^ 2 = 4 * (A ^ 2 + B ^ 2)) :
    2 * (A * Real.cos (Complex.arg ⟨xi * A + eta * B, eta * A - xi * B⟩) -
        B * Real.sin (Complex.arg ⟨xi * A + eta * B, eta * A - xi * B⟩)) = xi ∧
    2 * (B * Real.cos (Complex.arg ⟨xi * A + eta * B, eta * A - xi * B⟩) +
        A * Real.sin (Complex.arg ⟨xi * A + eta * B, eta * A - xi * B⟩)) = eta := by
  obtain ⟨hc, hs⟩ := Dubins.polar (xi * A + eta * B) (eta * A - xi * B)
  have hR : (xi * A + eta * B) ^ 2 + (eta * A - xi * B) ^ 2 = (2 * (A ^ 2 + B ^ 2)) ^ 2 := by
    linear_combination (A ^ 2 + B ^ 2) * h
  rw [hR, Real.sqrt_sq (by positivity)] at hc hs
  generalize Complex.arg ⟨xi * A + eta * B, eta * A - xi * B⟩ = T at hc hs ⊢
  by_cases h0 : A ^ 2 + B ^ 2 = 0
  · have hA : A = 0 := by nlinarith [sq_nonneg A, sq_nonneg B]
    have hB : B = 0 := by nlinarith [sq_nonneg A, sq_nonneg B]
    have hxe : xi ^ 2 + eta ^ 2 = 0 := by rw [h, h0]; ring
    have hxi : xi = 0 := by nlinarith [sq_nonneg xi, sq_nonneg eta]
    have heta : eta = 0 := by nlinarith [sq_nonneg xi, sq_nonneg eta]
    rw [hA, hB, hxi, heta]
    constructor <;> ring
  · have hR0 : 2 * (A ^ 2 + B ^ 2) ≠ 0 := mul_ne_zero two_ne_zero h0
    constructor
    · apply mul_left_cancel₀ hR0
      linear_combination (2 * A) * hc - (2 * B) * hs
    · apply mul_left_cancel₀ hR0
      linear_combination (2 * B) * hc + (2 * A) * hs

/-- what `tau` means: when `t2 ≥ 0` (the branch without `+ π`) and `ξ² + η² = 4(A² + B²)`, the returned
`tau` solves `2(A cos τ − B sin τ) = ξ`, `2(B cos τ + A sin τ) = η` -/
theorem tauOmega_tau_solves (u v xi eta phi : ℝ)
    (ht2 : 0 ≤ 2 * (Real.cos (rmod2pi (u - v)) - Real.cos v - Real.cos u) + 3)
    (h : xi ^ 2 + eta ^ 2 = 4 * ((Real.sin u - Real.sin (rmod2pi (u - v))) ^ 2 +
      (Real.cos u - Real.cos (rmod2pi (u - v)) - 1) ^ 2)) :
    2 * ((Real.sin u - Real.sin (rmod2pi (u - v))) * Real.cos (tauOmega u v xi eta phi).1 -
      (Real.cos u - Real.cos (rmod2pi (u - v)) - 1) * Real.sin (tauOmega u v xi eta phi).1) = xi ∧
    2 * ((Real.cos u - Real.cos (rmod2pi (u - v)) - 1) * Real.cos (tauOmega u v xi eta phi).1 +
      (Real.sin u - Real.sin (rmod2pi (u - v))) * Real.sin (tauOmega u v xi eta phi).1) = eta := by
  obtain ⟨-, ⟨k1, hk1⟩, -⟩ := tauOmega_spec u v xi eta phi
  rw [if_neg (not_lt.mpr ht2)] at hk1
  rw [sin_shift hk1, cos_shift hk1]
  exact tau_core xi eta _ _ h

/-- at its two call sites `tauOmega`'s `t2` is a square resp. `5 − 4 cos u`: the `t2 < 0` branch
(`tau = mod2pi(t1 + π)`) is never taken in exact arithmetic -/
theorem tauOmega_t2_callers (u : ℝ) :
    2 * (Real.cos (rmod2pi (u - -u)) - Real.cos (-u) - Real.cos u) + 3 = (2 * Real.cos u - 1) ^ 2 ∧
    2 * (Real.cos (rmod2pi (u - u)) - Real.cos u - Real.cos u) + 3 = 5 - 4 * Real.cos u := by
  obtain ⟨kd, hkd⟩ := rmod2pi_exact (u - -u)
  have hδ : rmod2pi (u - -u) = 2 * u + kd * (2 * Real.pi) := by rw [hkd]; ring
  rw [cos_shift hδ, Real.cos_two_mul, Real.cos_neg, sub_self, rmod2pi_zero, Real.cos_zero]
  constructor <;> ring

/-! ## end poses of the two stored words -/

/-- end pose of `L t · R u · L (−u) · R v` (type 2, builder `bCCCCa`) -/
theorem end_LRLR_a (t u v : ℝ) :
    rsIntegFull (bCCCCa 2 false t u v).segList origin =
      ⟨2 * Real.sin t - 2 * Real.sin (t - u) + 2 * Real.sin (t - 2 * u) - Real.sin (t - 2 * u - v),
       1 - 2 * Real.cos t + 2 * Real.cos (t - u) - 2 * Real.cos (t - 2 * u) + Real.cos (t - 2 * u - v),
       t - 2 * u - v⟩ := by
  simp only [RSPath.segList, bCCCCa, sg, rsType, RSPath.lens, List.zip_cons_cons, List.zip_nil_right,
    rsIntegFull, rsStep_L, rsStep_R, rsStep_N, origin, Bool.false_eq_true, if_false]
  simp only [zero_add, Real.sin_zero, Real.cos_zero]
  have e1 : t - u + -u = t - 2 * u := by ring
  rw [e1]
  refine congr (congr (congrArg Pose.mk ?_) ?_) rfl <;> ring

/-- end pose of `L t · R u · L u · R v` (type 2, builder `bCCCCb`) -/
theorem end_LRLR_b (t u v : ℝ) :
    rsIntegFull (bCCCCb 2 false t u v).segList origin =
      ⟨4 * Real.sin t - 2 * Real.sin (t - u) - Real.sin (t - v),
       1 - 4 * Real.cos t + 2 * Real.cos (t - u) + Real.cos (t - v), t - v⟩ := by
  simp only [RSPath.segList, bCCCCb, sg, rsType, RSPath.lens, List.zip_cons_cons, List.zip_nil_right,
    rsIntegFull, rsStep_L, rsStep_R, rsStep_N, origin, Bool.false_eq_true, if_false]
  simp only [zero_add, Real.sin_zero, Real.cos_zero]
  have e1 : t - u + u = t := by ring
  rw [e1]
  refine congr (congr (congrArg Pose.mk ?_) ?_) rfl <;> ring

/-! ## formula 8.7 -/

/-- **formula 8.7 reaches the goal**: the word `L t · R u · L (−u) · R v` (type 2) returned by
`LpRupLumRm x y φ` ends at `(x, y)` with heading `φ + 2πk` (the three `assert`s of `LpRupLumRm`). -/
theorem LpRupLumRm_reaches (x y phi t u v : ℝ) (h : LpRupLumRm x y phi = some (t, u, v)) :
    Reaches (bCCCCa 2 false t u v) x y phi := by
  unfold LpRupLumRm at h
  simp only [DubinsR.sin_eq, DubinsR.cos_eq, DubinsR.sqrt_eq, DubinsR.acos_eq, DubinsR.ofNat_one,
    DubinsR.ofNat_two, RSR.ofDec_25_2] at h
  set xi := x + Real.sin phi with hxi
  set eta := y - 1 - Real.cos phi with heta
  split at h
  case isFalse => cases h
  rename_i hrho
  split at h
  case isFalse => cases h
  have h' := Option.some.inj h
  clear h
  have hnn : 0 ≤ xi * xi + eta * eta := add_nonneg (mul_self_nonneg _) (mul_self_nonneg _)
  have hr2 : Real.sqrt (xi * xi + eta * eta) ^ 2 = xi ^ 2 + eta ^ 2 := by
    rw [Real.sq_sqrt hnn]; ring
  have hr0 : 0 ≤ Real.sqrt (xi * xi + eta * eta) := Real.sqrt_nonneg _
  generalize Real.sqrt (xi * xi + eta * eta) = r at *
  have hcu : Real.cos (Real.arccos (1 / 4 * (2 + r))) = 1 / 4 * (2 + r) :=
    Real.cos_arccos (by linarith) hrho
  generalize Real.arccos (1 / 4 * (2 + r)) = U at *
  obtain ⟨⟨kd, hkd⟩, ⟨k1, hk1⟩, ⟨k2, hk2⟩⟩ := tauOmega_spec U (-U) xi eta phi
  obtain ⟨ht, hu, hv⟩ : (tauOmega U (-U) xi eta phi).1 = t ∧ U = u ∧ (tauOmega U (-U) xi eta phi).2 = v := by
    simpa [Prod.ext_iff] using h'
  rw [ht] at hk1 hk2
  rw [hv] at hk2
  subst hu
  have hδ : rmod2pi (U - -U) = 2 * U + kd * (2 * Real.pi) := by rw [hkd]; ring
  have hsd : Real.sin (rmod2pi (U - -U)) = 2 * Real.sin U * Real.cos U := by
    rw [sin_shift hδ, Real.sin_two_mul]
  have hcd : Real.cos (rmod2pi (U - -U)) = 2 * Real.cos U ^ 2 - 1 := by
    rw [cos_shift hδ, Real.cos_two_mul]
  have hsc := Real.sin_sq_add_cos_sq U
  rw [hsd, hcd, Real.cos_neg] at hk1
  have ht2 : ¬ (2 * (2 * Real.cos U ^ 2 - 1 - Real.cos U - Real.cos U) + 3 < 0) := by
    nlinarith [sq_nonneg (2 * Real.cos U - 1)]
  rw [if_neg ht2] at hk1
  obtain ⟨hc1, hc2⟩ := tau_core xi eta (Real.sin U - 2 * Real.sin U * Real.cos U)
    (Real.cos U - (2 * Real.cos U ^ 2 - 1) - 1) (by
      rw [← hr2]
      linear_combination (-4 * (2 * Real.cos U - 1) ^ 2) * hsc +
        (-4 * (r + 2 * (2 * Real.cos U - 1))) * hcu)
  generalize Complex.arg ⟨xi * (Real.sin U - 2 * Real.sin U * Real.cos U) +
      eta * (Real.cos U - (2 * Real.cos U ^ 2 - 1) - 1),
    eta * (Real.sin U - 2 * Real.sin U * Real.cos U) -
      xi * (Real.cos U - (2 * Real.cos U ^ 2 - 1) - 1)⟩ = T at hk1 hc1 hc2
  have ev : t - 2 * U - v = phi + ((-k2 : ℤ) : ℝ) * (2 * Real.pi) := by
    rw [hk2]; push_cast; ring
  have hst : Real.sin t = Real.sin T := sin_shift hk1
  have hct : Real.cos t = Real.cos T := cos_shift hk1
  unfold Reaches
  rw [show (⟨0, 0, 0⟩ : Pose ℝ) = origin from rfl, end_LRLR_a]
  refine ⟨?_, ?_, -k2, ev⟩
  · show 2 * Real.sin t - 2 * Real.sin (t - U) + 2 * Real.sin (t - 2 * U) - Real.sin (t - 2 * U - v) = x
    rw [sin_shift ev, Real.sin_sub, Real.sin_sub, Real.sin_two_mul, Real.cos_two_mul, hst, hct]
    linear_combination hc1 + hxi
  · show 1 - 2 * Real.cos t + 2 * Real.cos (t - U) - 2 * Real.cos (t - 2 * U) + Real.cos (t - 2 * U - v) = y
    rw [cos_shift ev, Real.cos_sub, Real.cos_sub, Real.sin_two_mul, Real.cos_two_mul, hst, hct]
    linear_combination hc2 + heta

/-! ## formula 8.8 -/

/-- **formula 8.8 reaches the goal**: the word `L t · R u · L u · R v` (type 2) returned by
`LpRumLumRp x y φ` ends at `(x, y)` with heading `φ + 2πk` (the three `assert`s of `LpRumLumRp`). -/
theorem LpRumLumRp_reaches (x y phi t u v : ℝ) (h : LpRumLumRp x y phi = some (t, u, v)) :
    Reaches (bCCCCb 2 false t u v) x y phi := by
  unfold LpRumLumRp at h
  simp only [DubinsR.sin_eq, DubinsR.cos_eq, DubinsR.acos_eq, DubinsR.ofNat_zero, DubinsR.ofNat_one,
    RSR.ofNat_sixteen, RSR.ofNat_twenty, RSR.rhalf_eq, RSR.rpi_eq] at h
  set xi := x + Real.sin phi with hxi
  set eta := y - 1 - Real.cos phi with heta
  split at h
  case isFalse => cases h
  rename_i hrho
  split at h
  case isFalse => cases h
  split at h
  case isFalse => cases h
  have h' := Option.some.inj h
  clear h
  have hcu : Real.cos (-Real.arccos ((20 - xi * xi - eta * eta) / 16)) = (20 - xi * xi - eta * eta) / 16 := by
    rw [Real.cos_neg]; exact Real.cos_arccos (by linarith [hrho.1]) hrho.2
  generalize -Real.arccos ((20 - xi * xi - eta * eta) / 16) = U at *
  obtain ⟨-, ⟨k1, hk1⟩, ⟨k2, hk2⟩⟩ := tauOmega_spec U U xi eta phi
  obtain ⟨ht, hu, hv⟩ : (tauOmega U U xi eta phi).1 = t ∧ U = u ∧ (tauOmega U U xi eta phi).2 = v := by
    simpa [Prod.ext_iff] using h'
  rw [ht] at hk1 hk2
  rw [hv] at hk2
  subst hu
  have hsc := Real.sin_sq_add_cos_sq U
  rw [sub_self, rmod2pi_zero, Real.sin_zero, Real.cos_zero] at hk1
  have ht2 : ¬ (2 * (1 - Real.cos U - Real.cos U) + 3 < 0) := by
    linarith [Real.cos_le_one U]
  rw [if_neg ht2] at hk1
  obtain ⟨hc1, hc2⟩ := tau_core xi eta (Real.sin U - 0) (Real.cos U - 1 - 1) (by
    linear_combination (-4) * hsc + 16 * hcu)
  generalize Complex.arg ⟨xi * (Real.sin U - 0) + eta * (Real.cos U - 1 - 1),
    eta * (Real.sin U - 0) - xi * (Real.cos U - 1 - 1)⟩ = T at hk1 hc1 hc2
  have ev : t - v = phi + ((-k2 : ℤ) : ℝ) * (2 * Real.pi) := by
    rw [hk2]; push_cast; ring
  have hst : Real.sin t = Real.sin T := sin_shift hk1
  have hct : Real.cos t = Real.cos T := cos_shift hk1
  unfold Reaches
  rw [show (⟨0, 0, 0⟩ : Pose ℝ) = origin from rfl, end_LRLR_b]
  refine ⟨?_, ?_, -k2, ev⟩
  · show 4 * Real.sin t - 2 * Real.sin (t - U) - Real.sin (t - v) = x
    rw [sin_shift ev, Real.sin_sub, hst, hct]
    linear_combination hc1 + hxi
  · show 1 - 4 * Real.cos t + 2 * Real.cos (t - U) + Real.cos (t - v) = y
    rw [cos_shift ev, Real.cos_sub, hst, hct]
    linear_combination hc2 + heta

/-! ## the eight images -/

theorem bCCCCa_flip (ty : Nat) (t u v : ℝ) : bCCCCa ty true t u v = (bCCCCa ty false t u v).flip := by
  simp [bCCCCa, sg, RSPath.flip]

theorem bCCCCb_flip (ty : Nat) (t u v : ℝ) : bCCCCb ty true t u v = (bCCCCb ty false t u v).flip := by
  simp [bCCCCb, sg, RSPath.flip]

/-- every CCCC candidate reaches the goal: plain, timeflip, reflect, both, of formulas 8.7 and 8.8 -/
theorem CCCC_candidates_reach (x y phi L : ℝ) (Q : RSPath ℝ) (h : some (L, Q) ∈ candsCCCC x y phi) :
    Reaches Q x y phi := by
  rcases List.mem_append.mp h with h | h
  · exact reach_four LpRupLumRm key4 bCCCCa 2 3 LpRupLumRm_reaches (fun _ _ _ _ _ => rfl)
      (fun _ _ _ _ _ _ => rfl) bCCCCa_flip rfl x y phi L Q h
  · exact reach_four LpRumLumRp key4 bCCCCb 2 3 LpRumLumRp_reaches (fun _ _ _ _ _ => rfl)
      (fun _ _ _ _ _ _ => rfl) bCCCCb_flip rfl x y phi L Q h

end OmplModel.RS
