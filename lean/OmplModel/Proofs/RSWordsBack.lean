import OmplModel.Proofs.RSWords
import OmplModel.Proofs.RSBack
/-!
[EX] the "backwards" images of the CCC family reach the goal (C14, round 2): the C++ also calls `LpRmL`
on `(xb, yb) = (x cos φ + y sin φ, x sin φ − y cos φ)` and stores `(v, u, t)`; by the path-reversal
lemma `rs_backwards` of `Proofs/RSBack.lean` the stored word reaches `(x, y, φ)`.
-/
namespace OmplModel.RS
open OmplModel OmplModel.Dubins DubinsR RSR
attribute [-instance] Num.instOfNat

theorem backX_eq (x y phi : ℝ) : backX x y phi = x * Real.cos phi + y * Real.sin phi := rfl
theorem backY_eq (x y phi : ℝ) : backY x y phi = x * Real.sin phi - y * Real.cos phi := rfl

/-- if `q` drives like the reversed word of `p`, and `p` reaches the code's `(xb, yb, φ)`, then `q`
reaches `(x, y, φ)` -/
theorem reaches_reverse (p q : RSPath ℝ)
    (hrev : rsIntegFull q.segList ⟨0, 0, 0⟩ = rsIntegFull p.segList.reverse ⟨0, 0, 0⟩)
    (x y phi : ℝ) (h : Reaches p (backX x y phi) (backY x y phi) phi) : Reaches q x y phi := by
  obtain ⟨hx, hy, k, hth⟩ := h
  have he : rsIntegFull p.segList origin =
      ⟨x * Real.cos phi + y * Real.sin phi, x * Real.sin phi - y * Real.cos phi,
        phi + k * (2 * Real.pi)⟩ := by
    show rsIntegFull p.segList ⟨0, 0, 0⟩ = _
    rw [← backX_eq, ← backY_eq, ← hx, ← hy, ← hth]
  have hb := rs_backwards p.segList x y phi (phi + k * (2 * Real.pi)) k rfl he
  have hq : rsIntegFull q.segList ⟨0, 0, 0⟩ = ⟨x, y, phi + k * (2 * Real.pi)⟩ := by
    rw [hrev]; exact hb
  unfold Reaches
  rw [hq]
  exact ⟨rfl, rfl, k, rfl⟩

/-- a member of `four S key b' …` has a twin, with the same `(t,u,v)`, type and flip, in `four S key b …` -/
theorem four_twin {S : ℝ → ℝ → ℝ → Sol ℝ} {key : ℝ → ℝ → ℝ → ℝ}
    (b b' : Nat → Bool → ℝ → ℝ → ℝ → RSPath ℝ) {tyA tyB : Nat} {x y phi L : ℝ} {Q : RSPath ℝ}
    (h : some (L, Q) ∈ four S key b' tyA tyB x y phi) :
    ∃ ty f t u v, (ty = tyA ∨ ty = tyB) ∧ Q = b' ty f t u v ∧
      some (L, b ty f t u v) ∈ four S key b tyA tyB x y phi := by
  obtain ⟨t, u, v, rfl, h | h | h | h⟩ := mem_four h
  · exact ⟨tyA, false, t, u, v, Or.inl rfl, h.2, by simp [four, mkCand, h.1]⟩
  · exact ⟨tyA, true, t, u, v, Or.inl rfl, h.2, by simp [four, mkCand, h.1]⟩
  · exact ⟨tyB, false, t, u, v, Or.inr rfl, h.2, by simp [four, mkCand, h.1]⟩
  · exact ⟨tyB, true, t, u, v, Or.inr rfl, h.2, by simp [four, mkCand, h.1]⟩

/-- the stored backwards CCC word `(v, u, t)` drives like the reverse of `(t, u, v)` (types 0 and 1 are
palindromes, `N` steps are the identity) -/
theorem bCCCrev_drives_reverse (ty : Nat) (hty : ty = 0 ∨ ty = 1) (f : Bool) (t u v : ℝ) :
    rsIntegFull (bCCCrev ty f t u v).segList ⟨0, 0, 0⟩ =
      rsIntegFull (bCSC ty f t u v).segList.reverse ⟨0, 0, 0⟩ := by
  rcases hty with rfl | rfl <;>
    simp only [RSPath.segList, RSPath.lens, bCCCrev, bCSC, rsType, List.zip_cons_cons, List.zip_nil_right,
      List.reverse_cons, List.reverse_nil, List.nil_append, List.cons_append, rsIntegFull, rsStep_eq_N]

/-- **every CCC candidate reaches the goal**, the four backwards images included -/
theorem CCC_all_candidates_reach (x y phi L : ℝ) (Q : RSPath ℝ) (h : some (L, Q) ∈ candsCCC x y phi) :
    Reaches Q x y phi := by
  rcases List.mem_append.mp h with h | h
  · exact CCC_candidates_reach x y phi L Q h
  · obtain ⟨ty, f, t, u, v, hty, rfl, hm⟩ := four_twin bCSC bCCCrev h
    exact reaches_reverse _ _ (bCCCrev_drives_reverse ty hty f t u v) x y phi
      (CCC_candidates_reach _ _ _ _ _ hm)

end OmplModel.RS
