import OmplModel.Proofs.PlannerProtoTreeGen
/-!
C03, round 10: (1) a solution stored as EXACT ends in a state that satisfies the goal, when the goal test is computed
by the model (`goalDraw`) — for the geometric RRT core and its intermediate-states variant; (2) the number of
termination-condition evaluations of one `solve` call.  Core Lean only, arithmetic-free.
-/
namespace OmplModel.PlannerProto

variable {σ δ D C : Type}

/-! ## evaluations of the termination condition -/

/-- the loop evaluates the condition at most `k + 1` times when the condition is false for the first `k` evaluations:
it never evaluates it again after the first `true` -/
theorem loop_evals (cs : CoreSpec σ δ D C) (ltD : δ → δ → Bool) :
    ∀ (k : Nat) (ds : List D) (c : C) (s : Search δ) (n : Nat), (loop cs ltD k ds c s n).evals ≤ k + 1 := by
  intro k
  induction k with
  | zero => intro ds c s n; simp [loop]
  | succ k ih =>
    intro ds c s n
    cases ds with
    | nil => simp [loop]
    | cons d ds =>
      simp only [loop]
      split
      · simp
      · have := ih ds (cs.iterate c n d).core (applyRes ltD s (cs.iterate c n d).res).1 (cs.iterate c n d).next
        simp only
        omega

theorem applyRes_hit (ltD : δ → δ → Bool) : ∀ (res : List (Nat × Bool × δ)) (s : Search δ),
    (applyRes ltD s res).2 = true → (applyRes ltD s res).1.solution ≠ none := by
  intro res
  induction res with
  | nil => intro s h; simp [applyRes] at h
  | cons a r ih =>
    intro s
    obtain ⟨idx, sat, dist⟩ := a
    cases sat with
    | true => intro _; simp [applyRes]
    | false =>
      simp only [applyRes, Bool.false_eq_true, if_false]
      exact ih _

theorem applyRes_miss (ltD : δ → δ → Bool) : ∀ (res : List (Nat × Bool × δ)) (s : Search δ), s.solution = none →
    (applyRes ltD s res).2 = false → (applyRes ltD s res).1.solution = none := by
  intro res
  induction res with
  | nil => intro s hs _; simpa [applyRes] using hs
  | cons a r ih =>
    intro s hs
    obtain ⟨idx, sat, dist⟩ := a
    cases sat with
    | true => intro h; simp [applyRes] at h
    | false =>
      simp only [applyRes, Bool.false_eq_true, if_false]
      exact ih _ (by split <;> exact hs)

/-- … and exactly `k + 1` times (the last one being the first `true`) when the goal was not reached and the oracle
answers did not run out: the call returns BECAUSE the condition fired, at once -/
theorem loop_evals_fired (cs : CoreSpec σ δ D C) (ltD : δ → δ → Bool) :
    ∀ (k : Nat) (ds : List D) (c : C) (s : Search δ) (n : Nat), s.solution = none →
      (loop cs ltD k ds c s n).starved = false → (loop cs ltD k ds c s n).s.solution = none →
      (loop cs ltD k ds c s n).evals = k + 1 := by
  intro k
  induction k with
  | zero => intro ds c s n _ _ _; simp [loop]
  | succ k ih =>
    intro ds c s n hs h1 h2
    cases ds with
    | nil => simp [loop] at h1
    | cons d ds =>
      simp only [loop] at h1 h2 ⊢
      split
      · rename_i ha
        simp only [ha, if_true] at h2
        exact absurd h2 (applyRes_hit ltD _ s ha)
      · rename_i ha
        simp only [ha, Bool.false_eq_true, if_false] at h1 h2
        have hs' := applyRes_miss ltD (cs.iterate c n d).res s hs (by simpa using ha)
        have := ih ds _ _ _ hs' h1 h2
        simp only
        omega

theorem solve_evals (cs : CoreSpec σ δ D C) (P : Params σ δ) (m : M σ δ C) (k : Nat) (ds : List D) :
    (solve cs P m k ds).evals ≤ k + 1 := by
  unfold solve
  cases m.pdef with
  | none => simp
  | some pd =>
    simp only
    split
    · simp
    · unfold finish
      split <;> exact loop_evals cs P.ltD k ds _ _ _

/-! ## an exact solution ends in the goal -/

/-- the goal test of the motions a loop body reports is the goal's answer on the state that motion holds -/
def GoalFaithful (cs : CoreSpec σ δ (Draw σ δ) (Tree σ)) (g : σ → Bool × δ) : Prop :=
  ∀ (t : Tree σ) (i : Nat) (raw : RawDraw σ) (r : Nat × Bool × δ),
    r ∈ (cs.iterate t i (goalDraw g raw)).res → r.2.1 = true →
      ∃ h : r.1 < (cs.iterate t i (goalDraw g raw)).core.size, (g ((cs.iterate t i (goalDraw g raw)).core[r.1]).state).1 = true

theorem applyRes_sol (ltD : δ → δ → Bool) : ∀ (res : List (Nat × Bool × δ)) (s : Search δ), s.solution = none →
    ((applyRes ltD s res).2 = false → (applyRes ltD s res).1.solution = none) ∧
    (∀ i, (applyRes ltD s res).1.solution = some i → ∃ r ∈ res, r.1 = i ∧ r.2.1 = true) := by
  intro res
  induction res with
  | nil => intro s hs; simp [applyRes, hs]
  | cons a r ih =>
    intro s hs
    obtain ⟨idx, sat, dist⟩ := a
    cases sat with
    | true =>
      simp only [applyRes, if_true]
      refine ⟨by simp, ?_⟩
      intro i hi
      simp at hi
      exact ⟨(idx, true, dist), List.mem_cons_self, hi, rfl⟩
    | false =>
      simp only [applyRes, Bool.false_eq_true, if_false]
      have := ih (if ltD dist s.approxdif = true then { s with approxsol := some idx, approxdif := dist } else s)
        (by split <;> exact hs)
      refine ⟨this.1, ?_⟩
      intro i hi
      obtain ⟨r', hr', h1, h2⟩ := this.2 i hi
      exact ⟨r', List.mem_cons_of_mem _ hr', h1, h2⟩

theorem loop_goal (cs : CoreSpec σ δ (Draw σ δ) (Tree σ)) (g : σ → Bool × δ) (hg : GoalFaithful cs g) (ltD : δ → δ → Bool) :
    ∀ (k : Nat) (raws : List (RawDraw σ)) (c : Tree σ) (s : Search δ) (n : Nat), s.solution = none →
      ∀ i, (loop cs ltD k (raws.map (goalDraw g)) c s n).s.solution = some i →
        ∃ h : i < (loop cs ltD k (raws.map (goalDraw g)) c s n).core.size,
          (g ((loop cs ltD k (raws.map (goalDraw g)) c s n).core[i]).state).1 = true := by
  intro k
  induction k with
  | zero => intro raws c s n hs i hi; simp [loop, hs] at hi
  | succ k ih =>
    intro raws c s n hs i hi
    cases raws with
    | nil => simp [loop, hs] at hi
    | cons raw raws =>
      have A := applyRes_sol ltD (cs.iterate c n (goalDraw g raw)).res s hs
      simp only [List.map_cons, loop] at hi ⊢
      split
      · rename_i ha
        simp only [ha, if_true] at hi
        obtain ⟨r, hr, h1, h2⟩ := A.2 i hi
        obtain ⟨h, hgl⟩ := hg c n raw r hr h2
        subst h1
        exact ⟨h, hgl⟩
      · rename_i ha
        simp only [ha, Bool.false_eq_true, if_false] at hi
        have hs' := A.1 (by simpa using ha)
        exact ih raws _ _ _ hs' i hi

/-- `walk` ends in the motion it was asked for -/
theorem walk_last (t : Tree σ) : ∀ (i : Nat) (acc : List σ) (h : i < t.size),
    ∃ pre, walk t i acc = pre ++ t[i].state :: acc := by
  intro i
  induction i using Nat.strongRecOn with
  | _ i ih =>
    intro acc h
    unfold walk
    simp only [h, dite_true]
    split
    · exact ⟨[], rfl⟩
    · rename_i p hp
      split
      · rename_i hlt
        obtain ⟨pre, hpre⟩ := ih p hlt (t[i].state :: acc) (Nat.lt_trans hlt h)
        exact ⟨pre ++ [t[p].state], by rw [hpre]; simp⟩
      · exact ⟨[], rfl⟩

theorem solve_exact_goal (cs : CoreSpec σ δ (Draw σ δ) (Tree σ)) (ht : TreeCore cs) (g : σ → Bool × δ) (hg : GoalFaithful cs g)
    (P : Params σ δ) (m : M σ δ (Tree σ)) (k : Nat) (raws : List (RawDraw σ)) :
    ∀ s ∈ (solve cs P m k (raws.map (goalDraw g))).added, s.approx = false →
      ∃ last, s.path.getLast? = some last ∧ (g last).1 = true := by
  unfold solve
  cases m.pdef with
  | none => simp
  | some pd =>
    simp only
    split
    · simp
    · have L := loop_goal cs g hg P.ltD k raws (prologue cs m pd).1.core ⟨none, none, P.inf⟩ ((prologue cs m pd).1.next + 2) rfl
      unfold finish
      split
      · rename_i i a hp
        intro s hs hap
        simp at hs
        subst hs
        simp only at hap
        -- approximate = false: the picked motion is `solution`
        have hsol : (loop cs P.ltD k (raws.map (goalDraw g)) (prologue cs m pd).1.core ⟨none, none, P.inf⟩
            ((prologue cs m pd).1.next + 2)).s.solution = some i := by
          unfold pick at hp
          split at hp
          · rename_i j hj; simp at hp; rw [hj, hp.1]
          · simp at hp; rw [hap] at hp; simp at hp
        obtain ⟨h, hgl⟩ := L i hsol
        simp only [ht.pathTo_eq]
        obtain ⟨pre, hpre⟩ := walk_last _ i [] h
        exact ⟨_, by rw [hpre]; simp, hgl⟩
      · simp

/-! the two geometric cores are goal-faithful -/

theorem rrt_goalFaithful (g : σ → Bool × δ) : GoalFaithful (rrtCore : CoreSpec σ δ (Draw σ δ) (Tree σ)) g := by
  intro t i raw r hr hsat
  by_cases hv : ((goalDraw g raw : Draw σ δ).valid && decide ((goalDraw g raw : Draw σ δ).near < t.size)) = true
  · simp only [rrtCore, hv, if_true, List.mem_singleton] at hr ⊢
    subst hr
    simp only at hsat
    refine ⟨by simp, ?_⟩
    simp only [Array.getElem_push_eq]
    exact hsat
  · simp only [rrtCore, hv, if_false, Bool.false_eq_true] at hr
    simp at hr

theorem chain_last : ∀ (zs : List (Nat × σ)) (t : Tree σ) (p : Nat) (z : Nat × σ), zs.getLast? = some z →
    ∃ h : (chain t p zs).size - 1 < (chain t p zs).size, ((chain t p zs)[(chain t p zs).size - 1]).state = z.2 := by
  intro zs
  induction zs with
  | nil => intro t p z h; simp at h
  | cons a r ih =>
    intro t p z h
    obtain ⟨id, st⟩ := a
    cases r with
    | nil =>
      simp at h
      subst h
      simp [chain]
    | cons b r' =>
      simp only [chain] at ih ⊢
      rw [List.getLast?_cons_cons] at h
      exact ih _ _ z h

/-- the list of adopted (id, state) pairs: `count + 1` of them, the last one holds `dstate` -/
theorem adopted_facts (i : Nat) (states : List σ) (c : Nat) (hlen : states.length = c + 2) (st : σ)
    (hlast : states.getLast? = some st) :
    (((freshIds i states.length).zip states).drop 1).length = c + 1 ∧
      ∃ z, (((freshIds i states.length).zip states).drop 1).getLast? = some z ∧ z.2 = st := by
  have hzl : ((freshIds i states.length).zip states).length = c + 2 := by
    simp [length_freshIds, hlen]
  have hl : (((freshIds i states.length).zip states).drop 1).length = c + 1 := by
    rw [List.length_drop, hzl]; rfl
  refine ⟨hl, ?_⟩
  have hne : (((freshIds i states.length).zip states).drop 1) ≠ [] := by
    intro h0
    rw [h0] at hl
    simp at hl
  obtain ⟨z, hzz⟩ := Option.isSome_iff_exists.mp (by
    rw [List.getLast?_isSome]; exact hne : ((((freshIds i states.length).zip states).drop 1).getLast?).isSome = true)
  refine ⟨z, hzz, ?_⟩
  have h1 : (((freshIds i states.length).zip states).drop 1).getLast? = ((freshIds i states.length).zip states).getLast? := by
    rw [List.getLast?_drop]
    simp [hzl]
  rw [h1] at hzz
  have h2 : (((freshIds i states.length).zip states).map (·.2)).getLast? = some z.2 := by
    rw [List.getLast?_map, hzz]; rfl
  rw [List.map_snd_zip (by rw [length_freshIds]; exact Nat.le_refl _), hlast] at h2
  exact (Option.some.inj h2).symm

/-- the motion the goal is tested on after a non-empty chain is the last one added, and it holds the chain's last state -/
theorem chain_last_idx (t : Tree σ) (near : Nat) (zs : List (Nat × σ)) (st : σ) (hl : 0 < zs.length)
    (hz : ∃ z, zs.getLast? = some z ∧ z.2 = st) :
    ∃ h : (if (chain t near zs).size = t.size then near else (chain t near zs).size - 1) < (chain t near zs).size,
      ((chain t near zs)[if (chain t near zs).size = t.size then near else (chain t near zs).size - 1]).state = st := by
  obtain ⟨z, hz1, hz2⟩ := hz
  obtain ⟨h, hstate⟩ := chain_last zs t near z hz1
  have hsz : (chain t near zs).size ≠ t.size := by
    rw [chain_size]; omega
  simp only [hsz, if_false]
  exact ⟨h, by rw [hstate, hz2]⟩

theorem rrti_goalFaithful (G : Geom σ) (g : σ → Bool × δ) :
    GoalFaithful (rrtiCore G : CoreSpec σ δ (Draw σ δ) (Tree σ)) g := by
  intro t i raw r hr hsat
  simp only [rrtiCore] at hr ⊢
  split at hr
  · rename_i hn
    simp only [hn, dite_true]
    split at hr
    · rename_i hv
      simp only [hv, if_true]
      simp only [List.mem_singleton] at hr
      subst hr
      simp only at hsat
      have F := adopted_facts i (motionStates G t[(goalDraw g raw : Draw σ δ).near].state (goalDraw g raw : Draw σ δ).st
        (if G.segs t[(goalDraw g raw : Draw σ δ).near].state (goalDraw g raw : Draw σ δ).st > 0
          then G.segs t[(goalDraw g raw : Draw σ δ).near].state (goalDraw g raw : Draw σ δ).st - 1 else 0)) _
        (motionStates_length _ _ _ _) _ (motionStates_getLast _ _ _ _)
      obtain ⟨h, e⟩ := chain_last_idx t (goalDraw g raw : Draw σ δ).near _ (goalDraw g raw : Draw σ δ).st
        (by rw [F.1]; exact Nat.succ_pos _) F.2
      exact ⟨h, (congrArg (fun x => (g x).1) e).trans hsat⟩
    · simp at hr
  · simp at hr

end OmplModel.PlannerProto
