import OmplModel.Model.NN
import Mathlib.Algebra.Order.Ring.Defs
import Mathlib.Tactic.Linarith
/-!
GNAT: soundness of the pruning tests of `Node::nearestK`, `Node::nearestR`, `nearestKInternal` and
`nearestRInternal` under the executable invariant `Node.inv` / `localInv` (the one the driver
evaluates on every dump of the real tree).  `D` is any linearly ordered commutative ring
(ℤ — the driver's instance —, ℚ, ℝ); only symmetry and the triangle inequality of `dist` are used.
-/
namespace OmplModel.NN

variable {α D : Type}

/-- the two metric laws the pruning argument needs. -/
structure IsMetric [Add D] [LE D] (dist : α → α → D) : Prop where
  symm : ∀ a b, dist a b = dist b a
  tri : ∀ a b c, dist a c ≤ dist a b + dist b c

section Arith
variable [CommRing D] [LinearOrder D] [IsStrictOrderedRing D]

/-- sibling pruning: if `dist x p` lies in the recorded range and the test
`distToPivot - bound > max || distToPivot + bound < min` fires, `x` is farther than `bound`. -/
theorem outside_sound {dist : α → α → D} (hm : IsMetric dist) (q p x : α) (bound : D) (rg : Range D)
    (hx : Range.has rg (dist x p) = true) (ho : outside (dist q p) bound rg = true) :
    bound < dist q x := by
  cases rg with
  | none => simp [Range.has] at hx
  | some lh =>
    obtain ⟨lo, hi⟩ := lh
    simp only [Range.has, Bool.and_eq_true, decide_eq_true_eq] at hx
    simp only [outside, Bool.or_eq_true, decide_eq_true_eq] at ho
    have t1 := hm.tri q x p
    have t2 := hm.tri x q p
    have s := hm.symm x q
    rcases ho with h | h <;> linarith [hx.1, hx.2]

/-- dequeue test `d > maxRadius + bound || d < minRadius - bound`. -/
theorem outsideQ_sound {dist : α → α → D} (hm : IsMetric dist) (q p x : α) (bound : D) (rg : Range D)
    (hx : Range.has rg (dist x p) = true) (ho : outsideQ (dist q p) bound rg = true) :
    bound < dist q x := by
  cases rg with
  | none => simp [Range.has] at hx
  | some lh =>
    obtain ⟨lo, hi⟩ := lh
    simp only [Range.has, Bool.and_eq_true, decide_eq_true_eq] at hx
    simp only [outsideQ, Bool.or_eq_true, decide_eq_true_eq] at ho
    have t1 := hm.tri q x p
    have t2 := hm.tri x q p
    have s := hm.symm x q
    rcases ho with h | h <;> linarith [hx.1, hx.2]

/-- the enqueue test is the negation of the pruning test. -/
theorem inside_eq_not_outside (x bound : D) (rg : Range D) : inside x bound rg = !outside x bound rg := by
  cases rg with
  | none => rfl
  | some lh =>
    obtain ⟨lo, hi⟩ := lh
    simp only [inside, outside]
    by_cases h1 : x - bound ≤ hi <;> by_cases h2 : x + bound ≥ lo <;>
      simp [h1, h2, not_le.mp, not_lt.mpr, not_le, not_lt] <;> first | exact h1 | exact h2 | skip
    all_goals first | exact not_le.mp h1 | exact not_le.mp h2 | exact Or.inl (not_le.mp h1) | skip

theorem not_inside_sound {dist : α → α → D} (hm : IsMetric dist) (q p x : α) (bound : D) (rg : Range D)
    (hx : Range.has rg (dist x p) = true) (ho : inside (dist q p) bound rg = false) :
    bound < dist q x := by
  rw [inside_eq_not_outside] at ho
  exact outside_sound hm q p x bound rg hx (by simpa using ho)

end Arith

/-! ### what the invariant gives at one internal node -/

section Inv
variable [LE D] [DecidableLE D]

theorem Node.inv_mk (dist : α → α → D) (removed : List Nat) (p : Elem α) (deg : Nat) (r : Range D)
    (rg : List (Range D)) (data : List (Elem α)) (ch : List (Node α D)) :
    (Node.mk p deg r rg data ch).inv dist removed = true ↔
      isRemoved removed p = false ∧ localInv dist ch = true ∧ invL dist removed ch = true := by
  simp [Node.inv, and_assoc]

theorem invL_mem (dist : α → α → D) (removed : List Nat) : ∀ (ch : List (Node α D)),
    invL dist removed ch = true → ∀ c ∈ ch, c.inv dist removed = true
  | [], _, c, hc => by simp at hc
  | c0 :: cs, h, c, hc => by
    simp only [invL, Bool.and_eq_true] at h
    rcases List.mem_cons.mp hc with rfl | hc
    · exact h.1
    · exact invL_mem dist removed cs h.2 c hc

theorem localInv_rad {dist : α → α → D} {children : List (Node α D)} (h : localInv dist children = true)
    {ci : Node α D} (hi : ci ∈ children) :
    ∀ x ∈ ci.data ++ elemsL ci.children, ci.rad.has (dist x.val ci.pivot.val) = true := by
  simp only [localInv, List.all_eq_true, Bool.and_eq_true] at h
  exact (h ci hi).1

theorem localInv_range {dist : α → α → D} {children : List (Node α D)} (h : localInv dist children = true)
    {ci cj : Node α D} {j : Nat} (hi : ci ∈ children) (hj : children[j]? = some cj) :
    ∃ rg, ci.ranges[j]? = some rg ∧ ∀ x ∈ cj.elems, Range.has rg (dist x.val ci.pivot.val) = true := by
  simp only [localInv, List.all_eq_true, Bool.and_eq_true] at h
  have hlt : j < children.length := by
    rcases Nat.lt_or_ge j children.length with h' | h'
    · exact h'
    · rw [List.getElem?_eq_none h'] at hj; cases hj
  have := (h ci hi).2 j (List.mem_range.mpr hlt)
  rw [hj] at this
  cases hr : ci.ranges[j]? with
  | none => simp [hr] at this
  | some rg =>
    simp only [hr, List.all_eq_true] at this
    exact ⟨rg, rfl, this⟩

end Inv

/-! ### the three pruning sites of the query code -/

section Sites
variable [CommRing D] [LinearOrder D] [IsStrictOrderedRing D]

/-- **sibling pruning** (`permutation[j] = -1` in `Node::nearestK` with `bound = nbh.top().first`,
in `Node::nearestR` with `bound = r`): an entry that `pruneOthers` turns from "child `c'`" into
`-1` leads to a subtree all of whose stored copies are farther than `bound` from the query. -/
theorem pruneOthers_sound {dist : α → α → D} (hm : IsMetric dist) {children : List (Node α D)}
    (hinv : localInv dist children = true) {child : Node α D} (hc : child ∈ children)
    (q : α) (bound : D) (i : Nat) (perm : Array (PEntry D)) (j : Nat) (hj : j < perm.size)
    {c' : Nat} {cj : Node α D} (hact : perm[j].child? = some c') (hcj : children[c']? = some cj)
    (hpr : (pruneOthers child.ranges (dist q child.pivot.val) bound i perm)[j]'(by simpa using hj) = .pruned) :
    ∀ x ∈ cj.elems, bound < dist q x.val := by
  obtain ⟨rg, hrg, hall⟩ := localInv_range hinv hc hcj
  simp only [pruneOthers, Array.getElem_mapIdx, pruneEntry] at hpr
  by_cases hji : j = i
  · simp only [hji, if_true] at hpr
    subst hji
    rw [hpr] at hact; cases hact
  · simp only [hji, if_false, hact, hrg] at hpr
    by_cases ho : outside (dist q child.pivot.val) bound rg = true
    · intro x hx
      exact outside_sound hm q child.pivot.val x.val bound rg (hall x hx) ho
    · have ho' : outside (dist q child.pivot.val) bound rg = false := by simpa using ho
      simp only [ho', Bool.false_eq_true, if_false] at hpr
      rw [hpr] at hact; cases hact

/-- **radius pruning at enqueue time** (`distToPivot - dist <= maxRadius && distToPivot + dist >= minRadius`
false): nothing stored below that child (other than its pivot, which has already been offered to the
answer) is within `bound`. -/
theorem enqueue_skip_sound {dist : α → α → D} (hm : IsMetric dist) {children : List (Node α D)}
    (hinv : localInv dist children = true) {child : Node α D} (hc : child ∈ children) (q : α) (bound : D)
    (hskip : inside (dist q child.pivot.val) bound child.rad = false) :
    ∀ x ∈ child.data ++ elemsL child.children, bound < dist q x.val := fun x hx =>
  not_inside_sound hm q child.pivot.val x.val bound child.rad (localInv_rad hinv hc x hx) hskip

/-- **radius pruning at dequeue time** (`continue` in `nearestKInternal` / `nearestRInternal`). -/
theorem dequeue_skip_sound {dist : α → α → D} (hm : IsMetric dist) {children : List (Node α D)}
    (hinv : localInv dist children = true) {child : Node α D} (hc : child ∈ children) (q : α) (bound : D)
    (hskip : outsideQ (dist q child.pivot.val) bound child.rad = true) :
    ∀ x ∈ child.data ++ elemsL child.children, bound < dist q x.val := fun x hx =>
  outsideQ_sound hm q child.pivot.val x.val bound child.rad (localInv_rad hinv hc x hx) hskip

end Sites

/-! ### the answer queue -/

section Leaf

theorem nbhPush_perm [LT D] [DecidableLT D] (e : D × Elem α) : ∀ (nbh : Nbh α D), (nbhPush e nbh).Perm (e :: nbh)
  | [] => List.Perm.refl _
  | h :: t => by
    unfold nbhPush
    split
    · exact List.Perm.refl _
    · exact (List.Perm.cons h (nbhPush_perm e t)).trans (List.Perm.swap e h t)

/-- the answer queue stays in non-increasing distance order (so `postprocessNearest` yields a
non-decreasing answer). -/
theorem nbhPush_sorted [LinearOrder D] (e : D × Elem α) : ∀ (nbh : Nbh α D),
    nbh.Pairwise (fun a b => b.1 ≤ a.1) → (nbhPush e nbh).Pairwise (fun a b => b.1 ≤ a.1)
  | [], _ => by simp [nbhPush]
  | h :: t, hs => by
    unfold nbhPush
    have hs' := List.pairwise_cons.mp hs
    split
    · rename_i hlt
      refine List.pairwise_cons.mpr ⟨?_, hs⟩
      intro b hb
      rcases List.mem_cons.mp hb with rfl | hb
      · exact le_of_lt hlt
      · exact le_trans (hs'.1 b hb) (le_of_lt hlt)
    · rename_i hnlt
      refine List.pairwise_cons.mpr ⟨?_, nbhPush_sorted e t hs'.2⟩
      intro b hb
      have := (nbhPush_perm e t).subset hb
      rcases List.mem_cons.mp this with rfl | hb
      · exact not_lt.mp hnlt
      · exact hs'.1 b hb

end Leaf

end OmplModel.NN
