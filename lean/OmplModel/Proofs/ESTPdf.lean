import OmplModel.Proofs.EST
import OmplModel.Proofs.PdfLeaves
import Mathlib.Logic.Function.Iterate
/-!
`est_pdf_sync`: the PDF of the EST model holds exactly one element per tree motion, and each element's
weight is the coded formula applied to the motion's current neighbour counts.  Arithmetic-free (uses the
PDF refinement lemmas `refines_add` / `refines_update` and the handle theorems).
-/
namespace OmplModel.EST
open OmplModel.Pdf

variable {S D : Type}

/-- element `j` (stored) is within the radius of query `i` — `distFun_(motions_[j], motions_[i]) <= radius` -/
def nb (cfg : Cfg S D) (tree : Array (Node S)) (j i : Nat) : Bool :=
  match tree[j]?, tree[i]? with
  | some a, some b => isNbr cfg a.state b.state
  | _, _ => false

/-- neighbours motion `i` found in the tree when it was inserted -/
def earlier (cfg : Cfg S D) (tree : Array (Node S)) (i : Nat) : Nat :=
  ((List.range i).filter (fun j => nb cfg tree j i)).length

/-- motions inserted after `i` that found `i` among their neighbours -/
def later (cfg : Cfg S D) (tree : Array (Node S)) (i : Nat) : Nat :=
  ((List.range tree.size).filter (fun j => decide (i < j) && nb cfg tree i j)).length

/-- the coded weight of motion `i` for the current tree: `1/(earlier+1)`, then `w/(w+1)` once per later neighbour -/
def specW (cfg : Cfg S D) (tree : Array (Node S)) (i : Nat) : D :=
  (cfg.wUpd)^[later cfg tree i] (cfg.wNew (earlier cfg tree i))

section
variable [WOps D]

theorem getWeight_update (s : Pdf D) (hsh : ShapeInv s) (hix : IdxSync s) (h : Nat) (w : D)
    (hl : (s.getWeight h).isSome = true) (k : Nat) :
    (s.update h w).getWeight k = if k = h then some w else s.getWeight k := by
  have := (refines_update s ⟨s.getWeight, s.next⟩ h w hsh hix ⟨fun _ => rfl, rfl⟩).1 k
  simp only [Abs.step, hl, if_true] at this
  exact this

theorem getWeight_add (s : Pdf D) (hsh : ShapeInv s) (hix : IdxSync s) (w : D)
    (hw : WOps.lt w (WOps.zero : D) = false) (k : Nat) :
    (s.add w).getWeight k = if k = s.next then some w else s.getWeight k := by
  have := (refines_add s ⟨s.getWeight, s.next⟩ w hsh hix ⟨fun _ => rfl, rfl⟩).1 k
  simp only [Abs.step, hw, Bool.false_eq_true, if_false] at this
  exact this

theorem add_next_size (s : Pdf D) (w : D) (hw : WOps.lt w (WOps.zero : D) = false) :
    (s.add w).next = s.next + 1 ∧ (s.add w).data.size = s.data.size + 1 := by
  unfold Pdf.add; simp [hw]

theorem update_data (s : Pdf D) (h : Nat) (w : D) : (s.update h w).data = s.data := by
  unfold Pdf.update
  split
  · rfl
  · split
    · rfl
    · split
      · rfl
      · split <;> rfl

/-- the structural part of the PDF invariant: `n` elements, handles `0..n-1` -/
structure PInv (p : Pdf D) (n : Nat) : Prop where
  shape : ShapeInv p
  idx : IdxSync p
  next : p.next = n
  size : p.data.size = n

theorem pinv_update (p : Pdf D) (n h : Nat) (w : D) (hp : PInv p n) : PInv (p.update h w) n :=
  ⟨shapeInv_update p h w hp.shape, idxSync_update p h w hp.idx, by rw [(update_idx p h w).2, hp.next],
    by rw [update_data, hp.size]⟩

theorem bump_spec (cfg : Cfg S D) : ∀ (nbrs : List Nat) (p : Pdf D) (n : Nat), PInv p n → nbrs.Nodup →
    (∀ i ∈ nbrs, (p.getWeight i).isSome = true) →
    PInv (bumpNeighbors cfg p nbrs) n ∧
      ∀ k, (bumpNeighbors cfg p nbrs).getWeight k =
        if k ∈ nbrs then (p.getWeight k).map cfg.wUpd else p.getWeight k
  | [], p, n, hp, _, _ => ⟨hp, fun k => by simp [bumpNeighbors]⟩
  | i :: rest, p, n, hp, hnd, hsome => by
    have hi := hsome i List.mem_cons_self
    obtain ⟨w, hw⟩ := Option.isSome_iff_exists.mp hi
    have hfold : bumpNeighbors cfg p (i :: rest) = bumpNeighbors cfg (p.update i (cfg.wUpd w)) rest := by
      simp [bumpNeighbors, List.foldl, hw]
    rw [hfold]
    have hg := getWeight_update p hp.shape hp.idx i (cfg.wUpd w) hi
    rw [List.nodup_cons] at hnd
    have ih := bump_spec cfg rest (p.update i (cfg.wUpd w)) n (pinv_update p n i _ hp) hnd.2 (by
      intro j hj
      have : j ≠ i := fun e => hnd.1 (e ▸ hj)
      rw [hg j, if_neg this]
      exact hsome j (List.mem_cons_of_mem _ hj))
    refine ⟨ih.1, fun k => ?_⟩
    rw [ih.2 k, hg k]
    by_cases e : k = i
    · subst e
      simp [hnd.1, hw]
    · by_cases hk : k ∈ rest
      · simp [e, hk]
      · simp [e, hk]

end

/-! ### the neighbour counts after a push -/

theorem nb_push_old (cfg : Cfg S D) (tree : Array (Node S)) (nd : Node S) (j i : Nat)
    (hj : j < tree.size) (hi : i < tree.size) : nb cfg (tree.push nd) j i = nb cfg tree j i := by
  unfold nb
  rw [Array.getElem?_push_lt hj, Array.getElem?_push_lt hi, Array.getElem?_eq_getElem hj, Array.getElem?_eq_getElem hi]

theorem nb_push_new (cfg : Cfg S D) (tree : Array (Node S)) (nd : Node S) (j : Nat) (hj : j < tree.size) :
    nb cfg (tree.push nd) j tree.size = nbrAt cfg tree nd.state j := by
  unfold nb nbrAt
  rw [Array.getElem?_push_lt hj, Array.getElem?_eq_getElem hj]
  simp

theorem earlier_push_old (cfg : Cfg S D) (tree : Array (Node S)) (nd : Node S) (i : Nat) (hi : i < tree.size) :
    earlier cfg (tree.push nd) i = earlier cfg tree i := by
  unfold earlier
  congr 1
  apply List.filter_congr
  intro j hj
  rw [List.mem_range] at hj
  exact nb_push_old cfg tree nd j i (by omega) hi

theorem earlier_push_new (cfg : Cfg S D) (tree : Array (Node S)) (nd : Node S) :
    earlier cfg (tree.push nd) tree.size = ((List.range tree.size).filter (nbrAt cfg tree nd.state)).length := by
  unfold earlier
  congr 1
  apply List.filter_congr
  intro j hj
  rw [List.mem_range] at hj
  exact nb_push_new cfg tree nd j hj

theorem later_push_old (cfg : Cfg S D) (tree : Array (Node S)) (nd : Node S) (i : Nat) (hi : i < tree.size) :
    later cfg (tree.push nd) i = later cfg tree i + (if nbrAt cfg tree nd.state i then 1 else 0) := by
  unfold later
  rw [Array.size_push, List.range_succ, List.filter_append, List.length_append]
  congr 1
  · congr 1
    apply List.filter_congr
    intro j hj
    rw [List.mem_range] at hj
    rw [nb_push_old cfg tree nd i j hi hj]
  · simp only [List.filter_cons, List.filter_nil, hi, decide_true, Bool.true_and,
      nb_push_new cfg tree nd i hi]
    split <;> rfl

theorem later_push_new (cfg : Cfg S D) (tree : Array (Node S)) (nd : Node S) :
    later cfg (tree.push nd) tree.size = 0 := by
  unfold later
  rw [List.length_eq_zero_iff, List.filter_eq_nil_iff]
  intro j hj
  rw [List.mem_range, Array.size_push] at hj
  have : ¬ tree.size < j := by omega
  simp [this]

theorem specW_push_old (cfg : Cfg S D) (tree : Array (Node S)) (nd : Node S) (i : Nat) (hi : i < tree.size) :
    specW cfg (tree.push nd) i =
      if nbrAt cfg tree nd.state i then cfg.wUpd (specW cfg tree i) else specW cfg tree i := by
  unfold specW
  rw [later_push_old cfg tree nd i hi, earlier_push_old cfg tree nd i hi]
  split
  · rw [Function.iterate_succ_apply']
  · rfl

theorem mergeF_perm (le : Nat → Nat → Bool) : ∀ (f : Nat) (xs ys : List Nat), (mergeF le f xs ys).Perm (xs ++ ys)
  | 0, xs, ys => by simp [mergeF]
  | f + 1, [], ys => by simp [mergeF]
  | f + 1, x :: xs, [] => by simp [mergeF]
  | f + 1, x :: xs, y :: ys => by
    unfold mergeF
    split
    · exact (mergeF_perm le f xs (y :: ys)).cons x
    · have := (mergeF_perm le f (x :: xs) ys).cons y
      exact this.trans (List.perm_middle.symm)

theorem msortF_perm (le : Nat → Nat → Bool) : ∀ (f : Nat) (l : List Nat), (msortF le f l).Perm l
  | 0, l => by simp [msortF]
  | f + 1, l => by
    unfold msortF
    split
    · exact List.Perm.refl _
    · refine (mergeF_perm le _ _ _).trans ?_
      have h1 := msortF_perm le f (l.take (l.length / 2))
      have h2 := msortF_perm le f (l.drop (l.length / 2))
      exact (h1.append h2).trans (by rw [List.take_append_drop])

theorem specW_push_new (cfg : Cfg S D) (tree : Array (Node S)) (nd : Node S) :
    specW cfg (tree.push nd) tree.size = cfg.wNew (nearestR cfg tree nd.state).length := by
  unfold specW
  rw [later_push_new, earlier_push_new, Function.iterate_zero, id]
  congr 1
  unfold nearestR
  exact (msortF_perm _ _ _).length_eq.symm

theorem mem_nearestR (cfg : Cfg S D) (tree : Array (Node S)) (q : S) (i : Nat) :
    i ∈ nearestR cfg tree q ↔ i < tree.size ∧ nbrAt cfg tree q i = true := by
  unfold nearestR
  rw [(msortF_perm _ _ _).mem_iff, List.mem_filter, List.mem_range]

theorem nodup_nearestR (cfg : Cfg S D) (tree : Array (Node S)) (q : S) : (nearestR cfg tree q).Nodup := by
  unfold nearestR
  rw [(msortF_perm _ _ _).nodup_iff]
  exact List.Nodup.sublist List.filter_sublist List.nodup_range

/-! ### the PDF invariant of an EST state -/

/-- one PDF element per motion (handles `0..n-1`, in sync), each with the coded weight for the motion's
current neighbour counts -/
structure PdfInv [WOps D] (cfg : Cfg S D) (st : St S D) : Prop where
  p : PInv st.pdf st.tree.size
  weight : ∀ i, i < st.tree.size → st.pdf.getWeight i = some (specW cfg st.tree i)

section
variable [WOps D]

theorem addMotion_pdfInv (cfg : Cfg S D) (hw : ∀ k, WOps.lt (cfg.wNew k) (WOps.zero : D) = false)
    (st : St S D) (x : S) (par : Option Nat) (h : PdfInv cfg st) :
    PdfInv cfg (addMotion cfg st ⟨x, par⟩ (nearestR cfg st.tree x)) := by
  have hb := bump_spec cfg (nearestR cfg st.tree x) st.pdf st.tree.size h.p (nodup_nearestR cfg st.tree x) (by
    intro i hi
    rw [mem_nearestR] at hi
    rw [h.weight i hi.1]; rfl)
  obtain ⟨hp1, hg1⟩ := hb
  have hns := add_next_size (bumpNeighbors cfg st.pdf (nearestR cfg st.tree x)) _ (hw (nearestR cfg st.tree x).length)
  constructor
  · exact ⟨shapeInv_add _ _ hp1.shape, idxSync_add _ _ hp1.idx, by
      show (Pdf.add _ _).next = (st.tree.push _).size
      rw [hns.1, hp1.next, Array.size_push], by
      show (Pdf.add _ _).data.size = (st.tree.push _).size
      rw [hns.2, hp1.size, Array.size_push]⟩
  · intro i hi
    show (Pdf.add _ _).getWeight i = some (specW cfg (st.tree.push ⟨x, par⟩) i)
    rw [getWeight_add _ hp1.shape hp1.idx _ (hw _), hp1.next]
    simp only [addMotion_tree, Array.size_push] at hi
    by_cases e : i = st.tree.size
    · subst e
      rw [if_pos rfl, specW_push_new]
    · have hi' : i < st.tree.size := by omega
      rw [if_neg e, hg1 i, specW_push_old cfg st.tree ⟨x, par⟩ i hi', h.weight i hi']
      by_cases hm : i ∈ nearestR cfg st.tree x
      · have := (mem_nearestR cfg st.tree x i).mp hm
        simp [hm, this.2]
      · have : ¬ nbrAt cfg st.tree x i = true := fun hn => hm ((mem_nearestR cfg st.tree x i).mpr ⟨hi', hn⟩)
        simp [hm, this]

theorem tryAdd_pdfInv (cfg : Cfg S D) (hw : ∀ k, WOps.lt (cfg.wNew k) (WOps.zero : D) = false)
    (st : St S D) (ex : Nat) (exs x : S) (h : PdfInv cfg st) :
    PdfInv cfg (tryAdd cfg st ex exs x (nearestR cfg st.tree x)).1 := by
  unfold tryAdd
  have ha := addMotion_pdfInv cfg hw st x (some ex) h
  split
  · simp only
    split
    · exact ⟨ha.p, ha.weight⟩
    · split
      · exact ⟨ha.p, ha.weight⟩
      · exact ha
  · exact h

theorem addStarts_pdfInv (cfg : Cfg S D) (hw : ∀ k, WOps.lt (cfg.wNew k) (WOps.zero : D) = false) :
    ∀ (l : List S) (st : St S D), PdfInv cfg st → PdfInv cfg (addStarts cfg st l)
  | [], _, h => h
  | s :: rest, st, h => by
    unfold addStarts
    exact addStarts_pdfInv cfg hw rest _ (addMotion_pdfInv cfg hw st s none h)

theorem initSt_pdfInv (cfg : Cfg S D) (hw : ∀ k, WOps.lt (cfg.wNew k) (WOps.zero : D) = false)
    (starts : Array S) (sc : Script S D) : PdfInv cfg (initSt cfg starts sc).1 := by
  unfold initSt
  apply addStarts_pdfInv cfg hw
  exact ⟨⟨shapeInv_empty, idxSync_empty, rfl, rfl⟩, fun i hi => by simp at hi⟩

end

section
variable [WScale D]

theorem step_pdfInv (cfg : Cfg S D) (hw : ∀ k, WOps.lt (cfg.wNew k) (WOps.zero : D) = false)
    (st : St S D) (h : PdfInv cfg st) : PdfInv cfg (step cfg st).1 := by
  have keep : ∀ sc', PdfInv cfg { st with sc := sc' } := fun sc' => ⟨h.p, h.weight⟩
  unfold step
  split
  · exact h
  · split
    · split
      · exact h
      · split
        · exact h
        · split
          · split
            · exact h
            · exact tryAdd_pdfInv cfg hw _ _ _ _ (keep _)
          · split
            · exact h
            · split
              · exact keep _
              · split
                · exact tryAdd_pdfInv cfg hw _ _ _ _ (keep _)
                · split
                  · exact h
                  · split
                    · exact keep _
                    · exact tryAdd_pdfInv cfg hw _ _ _ _ (keep _)
    · exact h

theorem loop_pdfInv (cfg : Cfg S D) (hw : ∀ k, WOps.lt (cfg.wNew k) (WOps.zero : D) = false) :
    ∀ (n : Nat) (st : St S D), PdfInv cfg st → PdfInv cfg (loop cfg n st)
  | 0, _, h => h
  | n + 1, st, h => by
    unfold loop
    have := step_pdfInv cfg hw st h
    generalize step cfg st = r at this ⊢
    obtain ⟨st', fl⟩ := r
    cases fl with
    | cont => exact loop_pdfInv cfg hw n st' this
    | done => exact this
    | halt => exact this

end

section
variable [WScale D]

theorem solve_final [WScale D] (cfg : Cfg S D) (starts : Array S) (sc : Script S D) (budget : Nat) :
    (solve cfg starts sc budget).final =
      if (initSt cfg starts sc).1.tree.size = 0 then (initSt cfg starts sc).1
      else loop cfg budget (initSt cfg starts sc).1 := by
  unfold solve
  simp only
  split
  · rfl
  · split <;> rfl

theorem final_pdfInv [WScale D] (cfg : Cfg S D) (hw : ∀ k, WOps.lt (cfg.wNew k) (WOps.zero : D) = false)
    (starts : Array S) (sc : Script S D) (budget : Nat) : PdfInv cfg (solve cfg starts sc budget).final := by
  rw [solve_final]
  have hi := initSt_pdfInv cfg hw starts sc
  split
  · exact hi
  · exact loop_pdfInv cfg hw budget _ hi

theorem sample_ok_mem [WScale D] (s : Pdf D) (r : D) (h : Nat) (hs : s.sample r = .ok h) : h ∈ s.data := by
  unfold Pdf.sample at hs
  split at hs
  · cases hs
  · split at hs
    · cases hs
    · split at hs
      · cases hs
      · split at hs
        · cases hs
        · next h' hd =>
          simp only [SampleRes.ok.injEq] at hs
          subst hs
          exact Array.mem_of_getElem? hd

end

end OmplModel.EST
