import OmplModel.Proofs.NNGnatOps
/-!
GNAT `split` establishes the invariant.

1. `GreedyKCenters::kcenters` (model `kcenters`/`kcLoop`/`kcStep`), for EVERY first centre: every
   chosen centre is a valid index, there is at least one and at most `k`, and every centre is at
   distance `>= eps` from every centre chosen before it (`FarApart`) — proved by induction over the
   greedy loop with the `minDist` array as loop invariant.  The degenerate cases (duplicates, fewer
   distinct points than `k`) are exactly the `maxDist < eps` cut-off: the loop stops, nothing is added.
2. Hence (with `dist x x = 0 <= dist x y` and `0 < eps`) the first-closest centre of a centre is itself
   (`argminFirst_pivot`), which is what `split`'s assignment loop needs so that no pivot is stored twice
   and `ranges[k]` covers pivot `k`.
3. `splitNode` then establishes `Node.inv`, keeps pivot / radii / ranges of the split node, and stores
   exactly the same copies (`List.Perm`).
-/
set_option linter.unusedSectionVars false

namespace OmplModel.NN

variable {α D U : Type}

section KCenters
variable [LinearOrder D]

theorem kcStep_spec (dist : α → α → D) (center : α) :
    ∀ (data : List (Elem α)) (minDist : List (Option D)) (j0 ind0 : Nat) (maxD0 : Option D),
      minDist.length = data.length →
      (kcStep dist center data minDist j0 ind0 maxD0).1.length = data.length ∧
      (∀ (j : Nat) (x : Elem α), data[j]? = some x →
        ∃ m', (kcStep dist center data minDist j0 ind0 maxD0).1[j]? = some (some m') ∧
          m' ≤ dist x.val center ∧ ∀ m, minDist[j]? = some (some m) → m' ≤ m) ∧
      (∀ M, (kcStep dist center data minDist j0 ind0 maxD0).2.2 = some M →
        ((kcStep dist center data minDist j0 ind0 maxD0).2.2 = maxD0 ∧
          (kcStep dist center data minDist j0 ind0 maxD0).2.1 = ind0) ∨
        ∃ j, (kcStep dist center data minDist j0 ind0 maxD0).2.1 = j0 + j ∧
          (kcStep dist center data minDist j0 ind0 maxD0).1[j]? = some (some M))
  | [], minDist, j0, ind0, maxD0, _ => by
    cases minDist <;> simp [kcStep]
  | x :: xs, [], j0, ind0, maxD0, h => by simp at h
  | x :: xs, m :: ms, j0, ind0, maxD0, h => by
    simp only [List.length_cons, Nat.add_right_cancel_iff] at h
    unfold kcStep
    simp only []
    have hm'1 : minUpd m (dist x.val center) ≤ dist x.val center := by
      unfold minUpd
      cases m with
      | none => exact le_refl _
      | some v =>
        simp only []
        split
        · exact le_refl _
        · rename_i hlt; exact not_lt.mp hlt
    have hm'2 : ∀ v, m = some v → minUpd m (dist x.val center) ≤ v := by
      intro v hv
      rw [hv]
      unfold minUpd
      simp only []
      split
      · rename_i hlt; exact le_of_lt hlt
      · exact le_refl _
    generalize minUpd m (dist x.val center) = m' at hm'1 hm'2 ⊢
    generalize newMax maxD0 m' = upd
    have key : ∀ (ind1 : Nat) (maxD1 : Option D),
        ((maxD1 = some m' ∧ ind1 = j0) ∨ (maxD1 = maxD0 ∧ ind1 = ind0)) →
        (some m' :: (kcStep dist center xs ms (j0 + 1) ind1 maxD1).1).length = (x :: xs).length ∧
        (∀ (j : Nat) (y : Elem α), (x :: xs)[j]? = some y →
          ∃ m'', (some m' :: (kcStep dist center xs ms (j0 + 1) ind1 maxD1).1)[j]? = some (some m'') ∧
            m'' ≤ dist y.val center ∧ ∀ v, (m :: ms)[j]? = some (some v) → m'' ≤ v) ∧
        (∀ M, (kcStep dist center xs ms (j0 + 1) ind1 maxD1).2.2 = some M →
          ((kcStep dist center xs ms (j0 + 1) ind1 maxD1).2.2 = maxD0 ∧
            (kcStep dist center xs ms (j0 + 1) ind1 maxD1).2.1 = ind0) ∨
          ∃ j, (kcStep dist center xs ms (j0 + 1) ind1 maxD1).2.1 = j0 + j ∧
            (some m' :: (kcStep dist center xs ms (j0 + 1) ind1 maxD1).1)[j]? = some (some M)) := by
      intro ind1 maxD1 hcase
      obtain ⟨ih1, ih2, ih3⟩ := kcStep_spec dist center xs ms (j0 + 1) ind1 maxD1 h
      refine ⟨by simp [ih1], ?_, ?_⟩
      · intro j y hj
        cases j with
        | zero =>
          simp only [List.getElem?_cons_zero, Option.some.injEq] at hj
          subst hj
          refine ⟨m', by simp, hm'1, ?_⟩
          intro v hv
          simp only [List.getElem?_cons_zero, Option.some.injEq] at hv
          exact hm'2 v hv
        | succ j =>
          simp only [List.getElem?_cons_succ] at hj ⊢
          exact ih2 j y hj
      · intro M hM
        rcases ih3 M hM with ⟨h1, h2⟩ | ⟨j, h1, h2⟩
        · rcases hcase with ⟨c1, c2⟩ | ⟨c1, c2⟩
          · right
            refine ⟨0, by rw [h2, c2]; rfl, ?_⟩
            rw [hM, c1] at h1
            simp only [List.getElem?_cons_zero]
            rw [h1]
          · left
            exact ⟨by rw [h1, c1], by rw [h2, c2]⟩
        · right
          exact ⟨j + 1, by rw [h1]; omega, by simpa using h2⟩
    cases upd with
    | true => simpa using key j0 (some m') (Or.inl ⟨rfl, rfl⟩)
    | false => simpa using key ind0 maxD0 (Or.inr ⟨rfl, rfl⟩)

/-- centre `b` (chosen later) is at distance `>= eps` from centre `a`. -/
def FarApart (dist : α → α → D) (eps : D) (data : List (Elem α)) (a b : Nat) : Prop :=
  ∀ xa xb, data[a]? = some xa → data[b]? = some xb → eps ≤ dist xb.val xa.val

theorem kcLoop_spec (dist : α → α → D) (eps : D) (data : List (Elem α)) :
    ∀ (n : Nat) (prev : List Nat) (last : Nat) (minDist : List (Option D)),
      minDist.length = data.length → last < data.length → (∀ c ∈ prev, c < data.length) →
      (prev ++ [last]).Pairwise (FarApart dist eps data) →
      (∀ (j : Nat) (x : Elem α) (c : Nat) (xc : Elem α), data[j]? = some x → c ∈ prev → data[c]? = some xc →
        ∃ m, minDist[j]? = some (some m) ∧ m ≤ dist x.val xc.val) →
      (∀ c ∈ kcLoop dist eps data n (prev ++ [last]) last minDist, c < data.length) ∧
      (kcLoop dist eps data n (prev ++ [last]) last minDist).Pairwise (FarApart dist eps data) ∧
      (kcLoop dist eps data n (prev ++ [last]) last minDist).length ≤ prev.length + 1 + n ∧
      prev.length + 1 ≤ (kcLoop dist eps data n (prev ++ [last]) last minDist).length
  | 0, prev, last, minDist, _, hl, hp, hpw, _ => by
    simp only [kcLoop]
    refine ⟨?_, hpw, by simp, by simp⟩
    intro c hc
    rcases List.mem_append.mp hc with h | h
    · exact hp c h
    · simp at h; omega
  | n + 1, prev, last, minDist, hlen, hl, hp, hpw, hmin => by
    have hbase : (∀ c ∈ prev ++ [last], c < data.length) := by
      intro c hc
      rcases List.mem_append.mp hc with h | h
      · exact hp c h
      · simp at h; omega
    unfold kcLoop
    rw [List.getElem?_eq_getElem hl]
    simp only []
    obtain ⟨s1, s2, s3⟩ := kcStep_spec dist data[last].val data minDist 0 0 none hlen
    generalize kcStep dist data[last].val data minDist 0 0 none = r at s1 s2 s3
    have hstopCase : (∀ c ∈ prev ++ [last], c < data.length) ∧
        (prev ++ [last]).Pairwise (FarApart dist eps data) ∧
        (prev ++ [last]).length ≤ prev.length + 1 + (n + 1) ∧ prev.length + 1 ≤ (prev ++ [last]).length :=
      ⟨hbase, hpw, by simp, by simp⟩
    cases hM : r.2.2 with
    | none => simpa using hstopCase
    | some M =>
      simp only []
      by_cases hstop' : M < eps
      · simpa [hstop'] using hstopCase
      · simp only [hstop', decide_false, Bool.false_eq_true, if_false]
        have hepsM : eps ≤ M := not_lt.mp hstop'
        rcases s3 M hM with ⟨h1, _⟩ | ⟨j, hj1, hj2⟩
        · rw [hM] at h1; cases h1
        · have hind : r.2.1 < data.length := by
            rw [← s1]
            by_contra hcon
            rw [Nat.zero_add] at hj1
            rw [hj1, List.getElem?_eq_none (by omega)] at *
            cases hj2
          rw [Nat.zero_add] at hj1
          -- the new minDist covers prev ++ [last]
          have hmin' : ∀ (j : Nat) (x : Elem α) (c : Nat) (xc : Elem α), data[j]? = some x → c ∈ prev ++ [last] →
              data[c]? = some xc → ∃ m, r.1[j]? = some (some m) ∧ m ≤ dist x.val xc.val := by
            intro j x c xc hj hc hxc
            obtain ⟨m', hm1, hm2, hm3⟩ := s2 j x hj
            refine ⟨m', hm1, ?_⟩
            rcases List.mem_append.mp hc with h | h
            · obtain ⟨m, hm4, hm5⟩ := hmin j x c xc hj h hxc
              exact le_trans (hm3 m hm4) hm5
            · simp only [List.mem_singleton] at h
              subst h
              rw [List.getElem?_eq_getElem hl] at hxc
              simp only [Option.some.injEq] at hxc
              rw [← hxc]
              exact hm2
          have hpw' : ((prev ++ [last]) ++ [r.2.1]).Pairwise (FarApart dist eps data) := by
            rw [List.pairwise_append]
            refine ⟨hpw, by simp, ?_⟩
            intro a ha b hb
            simp only [List.mem_singleton] at hb
            subst hb
            intro xa xb hxa hxb
            obtain ⟨m, hm1, hm2⟩ := hmin' r.2.1 xb a xa hxb ha hxa
            rw [← hj1] at hj2
            rw [hj2] at hm1
            simp only [Option.some.injEq] at hm1
            rw [← hm1] at hm2
            exact le_trans hepsM hm2
          obtain ⟨r1, r2, r3, r4⟩ := kcLoop_spec dist eps data n (prev ++ [last]) r.2.1 r.1 s1 hind hbase hpw' hmin'
          refine ⟨r1, r2, ?_, ?_⟩
          · simp only [List.length_append, List.length_singleton] at r3; omega
          · simp only [List.length_append, List.length_singleton] at r4; omega

/-- **`kcenters` for every first centre**: valid indices, between 1 and `k` of them, each at distance
`>= eps` from all centres chosen before it. -/
theorem kcenters_spec (dist : α → α → D) (eps : D) (data : List (Elem α)) (k first : Nat)
    (hf : first < data.length) :
    (∀ c ∈ kcenters dist eps data k first, c < data.length) ∧
    (kcenters dist eps data k first).Pairwise (FarApart dist eps data) ∧
    (kcenters dist eps data k first).length ≤ 1 + (k - 1) ∧ 1 ≤ (kcenters dist eps data k first).length := by
  have := kcLoop_spec dist eps data (k - 1) [] first (data.map (fun _ => none)) (by simp) hf (by simp)
    (by simp) (by simp)
  simpa [kcenters] using this

end KCenters


/-! ### the first-closest centre of a centre is itself -/

section ArgMin
variable [LinearOrder D]

theorem argminGo_keep : ∀ (ds : List D) (idx k : Nat) (best : D), (∀ w ∈ ds, ¬ w < best) →
    argminGo ds idx k best = k
  | [], _, _, _, _ => rfl
  | d :: ds, idx, k, best, h => by
    unfold argminGo
    rw [if_neg (h d (by simp))]
    exact argminGo_keep ds (idx + 1) k best (fun w hw => h w (List.mem_cons_of_mem _ hw))

theorem argminGo_find : ∀ (ds : List D) (idx k : Nat) (best : D) (t : Nat) (v : D),
    ds[t]? = some v → v < best → (∀ (j : Nat) (w : D), j < t → ds[j]? = some w → v < w) →
    (∀ (j : Nat) (w : D), ds[j]? = some w → v ≤ w) → argminGo ds idx k best = idx + t
  | [], _, _, _, t, v, h, _, _, _ => by simp at h
  | d :: ds, idx, k, best, 0, v, h, hb, _, hge => by
    simp only [List.getElem?_cons_zero, Option.some.injEq] at h
    subst h
    unfold argminGo
    rw [if_pos hb]
    rw [argminGo_keep ds (idx + 1) idx d]
    · rfl
    · intro w hw
      obtain ⟨j, hj⟩ := List.mem_iff_getElem?.mp hw
      exact not_lt.mpr (hge (j + 1) w (by simpa using hj))
  | d :: ds, idx, k, best, t + 1, v, h, hb, hlt, hge => by
    simp only [List.getElem?_cons_succ] at h
    have hvd : v < d := hlt 0 d (by omega) (by simp)
    have hlt' : ∀ (j : Nat) (w : D), j < t → ds[j]? = some w → v < w :=
      fun j w hj hw => hlt (j + 1) w (by omega) (by simpa using hw)
    have hge' : ∀ (j : Nat) (w : D), ds[j]? = some w → v ≤ w :=
      fun j w hw => hge (j + 1) w (by simpa using hw)
    unfold argminGo
    split
    · rw [argminGo_find ds (idx + 1) idx d t v h hvd hlt' hge']; omega
    · rw [argminGo_find ds (idx + 1) k best t v h hb hlt' hge']; omega

theorem argminFirst_eq (l : List D) (i : Nat) (v : D) (hi : l[i]? = some v)
    (hlt : ∀ (j : Nat) (w : D), j < i → l[j]? = some w → v < w)
    (hge : ∀ (j : Nat) (w : D), l[j]? = some w → v ≤ w) : argminFirst l = i := by
  cases l with
  | nil => simp at hi
  | cons d ds =>
    cases i with
    | zero =>
      simp only [List.getElem?_cons_zero, Option.some.injEq] at hi
      subst hi
      simp only [argminFirst]
      apply argminGo_keep
      intro w hw
      obtain ⟨j, hj⟩ := List.mem_iff_getElem?.mp hw
      exact not_lt.mpr (hge (j + 1) w (by simpa using hj))
    | succ t =>
      simp only [List.getElem?_cons_succ] at hi
      simp only [argminFirst]
      rw [argminGo_find ds 1 0 d t v hi (hlt 0 d (by omega) (by simp))
        (fun j w hj hw => hlt (j + 1) w (by omega) (by simpa using hw))
        (fun j w hw => hge (j + 1) w (by simpa using hw))]
      omega

theorem getElem?_filterMap_of_isSome {β γ : Type} (f : β → Option γ) : ∀ (l : List β) (i : Nat),
    (∀ a ∈ l, (f a).isSome = true) → (l.filterMap f)[i]? = (l[i]?).bind f
  | [], i, _ => by simp
  | a :: l, i, h => by
    obtain ⟨b, hb⟩ := Option.isSome_iff_exists.mp (h a (by simp))
    rw [List.filterMap_cons_some hb]
    cases i with
    | zero => simp [hb]
    | succ i =>
      simp only [List.getElem?_cons_succ]
      exact getElem?_filterMap_of_isSome f l i (fun a' ha' => h a' (List.mem_cons_of_mem _ ha'))

variable [OfNat D 0]

/-- the assignment `split` computes for `x`: index of the first closest pivot. -/
def Asg (dist : α → α → D) (ps : List (Elem α)) (x : Elem α) : Nat :=
  argminFirst (ps.map (fun p => dist x.val p.val))

/-- the metric facts the greedy argument needs. -/
structure DistOK (dist : α → α → D) (eps : D) : Prop where
  self : ∀ a, dist a a = 0
  nonneg : ∀ a b, (0 : D) ≤ dist a b
  eps_pos : (0 : D) < eps

/-- the pivot elements of a pivot index list. -/
def pivElems (data : List (Elem α)) (pivots : List Nat) : List (Elem α) :=
  pivots.filterMap (fun pi => data[pi]?)

theorem pivElems_getElem? (data : List (Elem α)) (pivots : List Nat) (h : ∀ c ∈ pivots, c < data.length) (i : Nat) :
    (pivElems data pivots)[i]? = (pivots[i]?).bind (fun pi => data[pi]?) := by
  apply getElem?_filterMap_of_isSome
  intro a ha
  rw [List.getElem?_eq_getElem (h a ha)]
  rfl

theorem pivElems_length (data : List (Elem α)) (pivots : List Nat) (h : ∀ c ∈ pivots, c < data.length) :
    (pivElems data pivots).length = pivots.length := by
  unfold pivElems
  induction pivots with
  | nil => rfl
  | cons a l ih =>
    rw [List.filterMap_cons_some (List.getElem?_eq_getElem (h a (by simp)))]
    simp [ih (fun c hc => h c (List.mem_cons_of_mem _ hc))]

/-- **k-centers relation used by `split`**: pivot `i` is assigned to child `i`. -/
theorem asg_pivot {dist : α → α → D} {eps : D} (hd : DistOK dist eps) (data : List (Elem α)) (pivots : List Nat)
    (hr : ∀ c ∈ pivots, c < data.length) (hpw : pivots.Pairwise (FarApart dist eps data))
    (i pi : Nat) (x : Elem α) (hi : pivots[i]? = some pi) (hx : data[pi]? = some x) :
    Asg dist (pivElems data pivots) x = i := by
  unfold Asg
  apply argminFirst_eq _ i 0
  · rw [List.getElem?_map, pivElems_getElem? data pivots hr, hi]
    simp [hx, hd.self]
  · intro j w hj hw
    rw [List.getElem?_map, pivElems_getElem? data pivots hr] at hw
    have hjlt : j < pivots.length := by
      have := (List.getElem?_eq_some_iff.mp hi).1
      omega
    rw [List.getElem?_eq_getElem hjlt] at hw
    have hpj := hr pivots[j] (List.getElem_mem hjlt)
    simp only [Option.bind_some, List.getElem?_eq_getElem hpj, Option.map_some, Option.some.injEq] at hw
    have hilt := (List.getElem?_eq_some_iff.mp hi).1
    have hfar := (List.pairwise_iff_getElem.mp hpw) j i hjlt hilt hj
    have hpi : pivots[i] = pi := (List.getElem?_eq_some_iff.mp hi).2
    rw [hpi] at hfar
    have := hfar data[pivots[j]] x (List.getElem?_eq_getElem hpj) hx
    rw [← hw]
    exact lt_of_lt_of_le hd.eps_pos this
  · intro j w hw
    rw [List.getElem?_map] at hw
    cases hp : (pivElems data pivots)[j]? with
    | none => simp [hp] at hw
    | some p =>
      simp only [hp, Option.map_some, Option.some.injEq] at hw
      rw [← hw]
      exact hd.nonneg _ _

theorem pivots_nodup {dist : α → α → D} {eps : D} (hd : DistOK dist eps) (data : List (Elem α)) (pivots : List Nat)
    (hr : ∀ c ∈ pivots, c < data.length) (hpw : pivots.Pairwise (FarApart dist eps data)) : pivots.Nodup := by
  refine List.Pairwise.imp_of_mem ?_ hpw
  intro a b ha _ hfar hab
  subst hab
  have hlt := hr a ha
  have := hfar data[a] data[a] (List.getElem?_eq_getElem hlt) (List.getElem?_eq_getElem hlt)
  rw [hd.self] at this
  exact absurd (lt_of_lt_of_le hd.eps_pos this) (lt_irrefl _)

end ArgMin


/-! ### the distribution loop of `split`, child by child -/

section Distribute

@[simp] theorem Node.pushData_pivot (c : Node α D) (x : Elem α) : (c.pushData x).pivot = c.pivot := by cases c; rfl
@[simp] theorem Node.pushData_ranges (c : Node α D) (x : Elem α) : (c.pushData x).ranges = c.ranges := by cases c; rfl
@[simp] theorem Node.pushData_rad (c : Node α D) (x : Elem α) : (c.pushData x).rad = c.rad := by cases c; rfl
@[simp] theorem Node.pushData_data (c : Node α D) (x : Elem α) : (c.pushData x).data = c.data ++ [x] := by cases c; rfl
@[simp] theorem Node.pushData_children (c : Node α D) (x : Elem α) : (c.pushData x).children = c.children := by cases c; rfl
@[simp] theorem Node.pushData_degree (c : Node α D) (x : Elem α) : (c.pushData x).degree = c.degree := by cases c; rfl
@[simp] theorem Node.setRanges_degree (c : Node α D) (r : List (Range D)) : (c.setRanges r).degree = c.degree := by cases c; rfl
@[simp] theorem Node.setRad_degree (c : Node α D) (r : Range D) : (c.setRad r).degree = c.degree := by cases c; rfl

variable [LinearOrder D] [OfNat D 0]

theorem updAt_length (rs : List (Range D)) (i : Nat) (d : D) : (updAt rs i d).length = rs.length := by
  induction rs generalizing i with
  | nil => rfl
  | cons r rs ih => cases i <;> simp [updAt, ih]

/-- what `distribute1` does to child `i` when `x = data_[j]` goes to child `k`. -/
def stepChild (dist : α → α → D) (pivots : List Nat) (k j : Nat) (x : Elem α) (i : Nat) (c : Node α D) : Node α D :=
  if i = k ∧ pivots[k]? ≠ some j then
    ((c.setRanges (updAt c.ranges k (dist x.val c.pivot.val))).setRad
      (c.rad.update (dist x.val c.pivot.val))).pushData x
  else c.setRanges (updAt c.ranges k (dist x.val c.pivot.val))

theorem distribute1_eq (dist : α → α → D) (pivots : List Nat) (ch : List (Node α D)) (j : Nat) (x : Elem α) :
    distribute1 dist pivots ch j x =
      ch.mapIdx (fun i c => stepChild dist pivots (argminFirst (ch.map (fun c => dist x.val c.pivot.val))) j x i c) := by
  unfold distribute1 stepChild
  simp only [Node.setRanges_rad]

@[simp] theorem stepChild_pivot (dist : α → α → D) (pivots : List Nat) (k j : Nat) (x : Elem α) (i : Nat) (c : Node α D) :
    (stepChild dist pivots k j x i c).pivot = c.pivot := by
  unfold stepChild; split <;> simp

/-- the whole loop, seen from child `i`. -/
def childFold (dist : α → α → D) (pivots : List Nat) (ps : List (Elem α)) (i : Nat) :
    Node α D → List (Elem α) → Nat → Node α D
  | c, [], _ => c
  | c, x :: xs, j => childFold dist pivots ps i (stepChild dist pivots (Asg dist ps x) j x i c) xs (j + 1)

theorem distribute_spec (dist : α → α → D) (pivots : List Nat) (ps : List (Elem α)) :
    ∀ (data : List (Elem α)) (J : Nat) (ch : List (Node α D)), ch.map (fun c => c.pivot) = ps →
      (distribute dist pivots data J ch).length = ch.length ∧
      ∀ (i : Nat) (c : Node α D), ch[i]? = some c →
        (distribute dist pivots data J ch)[i]? = some (childFold dist pivots ps i c data J)
  | [], J, ch, _ => by simp [distribute, childFold]
  | x :: xs, J, ch, hps => by
    unfold distribute
    rw [distribute1_eq]
    have hA : argminFirst (ch.map (fun c => dist x.val c.pivot.val)) = Asg dist ps x := by
      unfold Asg
      rw [← hps, List.map_map]
      rfl
    rw [hA]
    have hps' : (ch.mapIdx (fun i c => stepChild dist pivots (Asg dist ps x) J x i c)).map (fun c => c.pivot) = ps := by
      rw [← hps]
      apply List.ext_getElem?
      intro n
      simp only [List.getElem?_map, List.getElem?_mapIdx]
      cases ch[n]? <;> simp
    obtain ⟨ih1, ih2⟩ := distribute_spec dist pivots ps xs (J + 1) _ hps'
    refine ⟨by rw [ih1]; simp, ?_⟩
    intro i c hc
    rw [ih2 i (stepChild dist pivots (Asg dist ps x) J x i c) (by simp [List.getElem?_mapIdx, hc])]
    rfl

theorem childFold_spec (dist : α → α → D) (pivots : List Nat) (ps : List (Elem α)) (i : Nat) :
    ∀ (data : List (Elem α)) (J : Nat) (c : Node α D),
      (childFold dist pivots ps i c data J).pivot = c.pivot ∧
      (childFold dist pivots ps i c data J).children = c.children ∧
      (childFold dist pivots ps i c data J).degree = c.degree ∧
      (childFold dist pivots ps i c data J).ranges.length = c.ranges.length ∧
      (∀ y ∈ (childFold dist pivots ps i c data J).data,
        y ∈ c.data ∨ ∃ m : Nat, data[m]? = some y ∧ Asg dist ps y = i) ∧
      ((∀ y ∈ c.data, c.rad.has (dist y.val c.pivot.val) = true) →
        ∀ y ∈ (childFold dist pivots ps i c data J).data,
          (childFold dist pivots ps i c data J).rad.has (dist y.val c.pivot.val) = true) ∧
      (∀ (k : Nat) (rg0 : Range D), c.ranges[k]? = some rg0 →
        ∃ rg, (childFold dist pivots ps i c data J).ranges[k]? = some rg ∧
          (∀ d, rg0.has d = true → rg.has d = true) ∧
          ∀ (m : Nat) (y : Elem α), data[m]? = some y → Asg dist ps y = k →
            rg.has (dist y.val c.pivot.val) = true)
  | [], J, c => by
    unfold childFold
    refine ⟨rfl, rfl, rfl, rfl, fun y hy => Or.inl hy, fun h => h, ?_⟩
    intro k rg0 h
    exact ⟨rg0, h, fun d hd => hd, by simp⟩
  | x :: xs, J, c => by
    unfold childFold
    generalize hc1 : stepChild dist pivots (Asg dist ps x) J x i c = c1
    obtain ⟨i1, i2, i3, i4, i5, i6, i7⟩ := childFold_spec dist pivots ps i xs (J + 1) c1
    have hp1 : c1.pivot = c.pivot := by rw [← hc1]; simp
    have hdata1 : ∀ y ∈ c1.data, y ∈ c.data ∨ (y = x ∧ Asg dist ps x = i) := by
      intro y hy
      rw [← hc1] at hy
      unfold stepChild at hy
      split at hy
      · rename_i hcond
        simp only [Node.pushData_data, Node.setRad_data, Node.setRanges_data, List.mem_append,
          List.mem_singleton] at hy
        rcases hy with h | h
        · exact Or.inl h
        · exact Or.inr ⟨h, hcond.1.symm⟩
      · simp only [Node.setRanges_data] at hy
        exact Or.inl hy
    have hrange1 : c1.ranges = updAt c.ranges (Asg dist ps x) (dist x.val c.pivot.val) := by
      rw [← hc1]; unfold stepChild; split <;> simp
    refine ⟨by rw [i1, hp1], ?_, ?_, ?_, ?_, ?_, ?_⟩
    · rw [i2, ← hc1]; unfold stepChild; split <;> simp
    · rw [i3, ← hc1]; unfold stepChild; split <;> simp
    · rw [i4, hrange1, updAt_length]
    · intro y hy
      rcases i5 y hy with h | ⟨m, hm, ha⟩
      · rcases hdata1 y h with h | ⟨h1, h2⟩
        · exact Or.inl h
        · exact Or.inr ⟨0, by simp [h1], by rw [h1]; exact h2⟩
      · exact Or.inr ⟨m + 1, by simpa using hm, ha⟩
    · intro hrad y hy
      rw [← hp1]
      apply i6 _ y hy
      intro z hz
      rw [hp1]
      rw [← hc1] at hz ⊢
      unfold stepChild at hz ⊢
      split at hz
      · rename_i hcond
        rw [if_pos hcond]
        simp only [Node.pushData_data, Node.setRad_data, Node.setRanges_data, List.mem_append,
          List.mem_singleton] at hz
        simp only [Node.pushData_rad, Node.setRad_rad]
        rcases hz with h | h
        · exact Range.has_update_of_has _ _ _ (hrad z h)
        · rw [h]; exact Range.has_update_self _ _
      · rename_i hcond
        rw [if_neg hcond]
        simp only [Node.setRanges_data] at hz
        simp only [Node.setRanges_rad]
        exact hrad z hz
    · intro k rg0 hk
      have hk1 : c1.ranges[k]? = some (if k = Asg dist ps x then rg0.update (dist x.val c.pivot.val) else rg0) := by
        rw [hrange1, updAt_getElem?, hk]
        split <;> simp
      obtain ⟨rg, hrg, hmono, hcov⟩ := i7 k _ hk1
      refine ⟨rg, hrg, ?_, ?_⟩
      · intro d hd
        apply hmono
        split
        · exact Range.has_update_of_has _ _ _ hd
        · exact hd
      · intro m y hm ha
        cases m with
        | zero =>
          simp only [List.getElem?_cons_zero, Option.some.injEq] at hm
          subst hm
          apply hmono
          rw [if_pos ha.symm]
          exact Range.has_update_self _ _
        | succ m =>
          simp only [List.getElem?_cons_succ] at hm
          rw [← hp1]
          exact hcov m y hm ha

end Distribute


/-! ### `split` stores every copy exactly once -/

section SplitPerm

theorem push_perm {β : Type} (x : β) : ∀ (L : List (List β)) (a : Nat), a < L.length →
    (L.mapIdx (fun i l => if i = a then l ++ [x] else l)).flatten.Perm (L.flatten ++ [x])
  | [], a, h => by simp at h
  | l :: L, 0, _ => by
    rw [List.mapIdx_cons]
    have : List.mapIdx (fun i l => if i + 1 = 0 then l ++ [x] else l) L = L := by
      apply List.ext_getElem?
      intro n
      simp only [List.getElem?_mapIdx]
      cases L[n]? <;> simp
    rw [this]
    simp only [if_true, List.flatten_cons, List.append_assoc]
    exact List.Perm.append_left l List.perm_append_comm
  | l :: L, a + 1, h => by
    rw [List.mapIdx_cons]
    simp only [Nat.add_right_cancel_iff, List.flatten_cons, List.append_assoc]
    rw [if_neg (by omega)]
    exact List.Perm.append_left l (push_perm x L a (by simpa using h))

variable [LinearOrder D] [OfNat D 0]

/-- all `data_` of a list of nodes. -/
def dataL (ch : List (Node α D)) : List (Elem α) := (ch.map (fun c => c.data)).flatten

/-- the elements the loop pushes into some child (`j != pivots[k]`). -/
def nonSelf (dist : α → α → D) (ps : List (Elem α)) (pivots : List Nat) : List (Elem α) → Nat → List (Elem α)
  | [], _ => []
  | x :: xs, j =>
    (if pivots[Asg dist ps x]? ≠ some j then [x] else []) ++ nonSelf dist ps pivots xs (j + 1)

/-- the elements it does not push: the pivots themselves. -/
def selfL (dist : α → α → D) (ps : List (Elem α)) (pivots : List Nat) : List (Elem α) → Nat → List (Elem α)
  | [], _ => []
  | x :: xs, j =>
    (if pivots[Asg dist ps x]? = some j then [x] else []) ++ selfL dist ps pivots xs (j + 1)

theorem self_nonSelf_perm (dist : α → α → D) (ps : List (Elem α)) (pivots : List Nat) :
    ∀ (data : List (Elem α)) (J : Nat),
      data.Perm (selfL dist ps pivots data J ++ nonSelf dist ps pivots data J)
  | [], _ => by simp [selfL, nonSelf]
  | x :: xs, J => by
    have ih := self_nonSelf_perm dist ps pivots xs (J + 1)
    unfold selfL nonSelf
    by_cases h : pivots[Asg dist ps x]? = some J
    · simp only [h, if_true, ne_eq, not_true_eq_false, if_false, List.nil_append, List.cons_append]
      exact List.Perm.cons x ih
    · simp only [h, if_false, ne_eq, not_false_eq_true, if_true, List.nil_append, List.cons_append]
      exact (List.Perm.cons x ih).trans List.perm_middle.symm

theorem dataL_step (dist : α → α → D) (pivots : List Nat) (a j : Nat) (x : Elem α) (ch : List (Node α D))
    (ha : a < ch.length) :
    (dataL (ch.mapIdx (fun i c => stepChild dist pivots a j x i c))).Perm
      (dataL ch ++ (if pivots[a]? ≠ some j then [x] else [])) := by
  unfold dataL
  by_cases hc : pivots[a]? ≠ some j
  · rw [if_pos hc]
    have : (ch.mapIdx (fun i c => stepChild dist pivots a j x i c)).map (fun c => c.data) =
        (ch.map (fun c => c.data)).mapIdx (fun i l => if i = a then l ++ [x] else l) := by
      apply List.ext_getElem?
      intro n
      simp only [List.getElem?_map, List.getElem?_mapIdx]
      cases ch[n]? with
      | none => rfl
      | some c =>
        simp only [Option.map_some, stepChild]
        by_cases hn : n = a
        · rw [if_pos ⟨hn, hc⟩, if_pos hn]; simp
        · rw [if_neg (fun h => hn h.1), if_neg hn]; simp
    rw [this]
    exact push_perm x _ a (by simpa using ha)
  · rw [if_neg hc]
    have : (ch.mapIdx (fun i c => stepChild dist pivots a j x i c)).map (fun c => c.data) =
        ch.map (fun c => c.data) := by
      apply List.ext_getElem?
      intro n
      simp only [List.getElem?_map, List.getElem?_mapIdx]
      cases ch[n]? with
      | none => rfl
      | some c => simp [stepChild, hc]
    rw [this]
    simp

theorem dataL_distribute (dist : α → α → D) (pivots : List Nat) (ps : List (Elem α)) (hps : ps ≠ []) :
    ∀ (data : List (Elem α)) (J : Nat) (ch : List (Node α D)), ch.map (fun c => c.pivot) = ps →
      (dataL (distribute dist pivots data J ch)).Perm (dataL ch ++ nonSelf dist ps pivots data J)
  | [], J, ch, _ => by simp [distribute, nonSelf]
  | x :: xs, J, ch, hch => by
    unfold distribute nonSelf
    rw [distribute1_eq]
    have hA : argminFirst (ch.map (fun c => dist x.val c.pivot.val)) = Asg dist ps x := by
      unfold Asg
      rw [← hch, List.map_map]
      rfl
    rw [hA]
    have ha : Asg dist ps x < ch.length := by
      have := argminFirst_lt (ps.map (fun p => dist x.val p.val)) (by simpa using hps)
      have hl : ch.length = ps.length := by rw [← hch]; simp
      unfold Asg
      simpa [hl] using this
    have hps' : (ch.mapIdx (fun i c => stepChild dist pivots (Asg dist ps x) J x i c)).map (fun c => c.pivot) = ps := by
      rw [← hch]
      apply List.ext_getElem?
      intro n
      simp only [List.getElem?_map, List.getElem?_mapIdx]
      cases ch[n]? <;> simp
    have ih := dataL_distribute dist pivots ps hps xs (J + 1) _ hps'
    refine ih.trans ?_
    rw [← List.append_assoc]
    exact List.Perm.append_right _ (dataL_step dist pivots _ J x ch ha)

theorem selfL_eq_zipIdx (dist : α → α → D) (ps : List (Elem α)) (pivots : List Nat) :
    ∀ (data : List (Elem α)) (J : Nat),
      selfL dist ps pivots data J =
        ((data.zipIdx J).filter (fun p => decide (pivots[Asg dist ps p.1]? = some p.2))).map Prod.fst
  | [], _ => rfl
  | x :: xs, J => by
    rw [List.zipIdx_cons, selfL, selfL_eq_zipIdx dist ps pivots xs (J + 1), List.filter_cons]
    by_cases h : pivots[Asg dist ps x]? = some J <;> simp [h]

/-- the copies `split` does not push are exactly the pivots, each once. -/
theorem selfL_perm_pivElems {dist : α → α → D} {eps : D} (hd : DistOK dist eps) (data : List (Elem α))
    (pivots : List Nat) (hr : ∀ c ∈ pivots, c < data.length) (hpw : pivots.Pairwise (FarApart dist eps data)) :
    (selfL dist (pivElems data pivots) pivots data 0).Perm (pivElems data pivots) := by
  rw [selfL_eq_zipIdx]
  have hpe : pivElems data pivots =
      (pivots.filterMap (fun pi => (data[pi]?).map (fun x => (x, pi)))).map Prod.fst := by
    unfold pivElems
    rw [List.map_filterMap]
    congr 1
    funext pi
    cases data[pi]? <;> rfl
  conv => rhs; rw [hpe]
  apply List.Perm.map
  have hsnd : (pivots.filterMap (fun pi => (data[pi]?).map (fun x => (x, pi)))).map Prod.snd = pivots := by
    clear hpw hpe
    induction pivots with
    | nil => rfl
    | cons a l ih =>
      rw [List.filterMap_cons_some (b := (data[a]'(hr a (by simp)), a))
        (by rw [List.getElem?_eq_getElem (hr a (by simp))]; rfl)]
      simp [ih (fun c hc => hr c (List.mem_cons_of_mem _ hc))]
  rw [List.perm_ext_iff_of_nodup]
  · intro p
    obtain ⟨x, j⟩ := p
    simp only [List.mem_filter, List.mem_zipIdx_iff_getElem?, decide_eq_true_eq, List.mem_filterMap,
      Option.map_eq_some_iff, Prod.mk.injEq]
    constructor
    · rintro ⟨hx, hp⟩
      exact ⟨j, List.mem_of_getElem? hp, x, hx, rfl, rfl⟩
    · rintro ⟨pi, hpi, y, hy, rfl, rfl⟩
      refine ⟨hy, ?_⟩
      obtain ⟨i, hi⟩ := List.mem_iff_getElem?.mp hpi
      rw [asg_pivot hd data pivots hr hpw i pi y hi hy]
      exact hi
  · apply List.Nodup.filter
    apply List.Nodup.of_map Prod.snd
    rw [List.zipIdx_map_snd]
    exact List.nodup_range' 1
  · apply List.Nodup.of_map Prod.snd
    rw [hsnd]
    exact pivots_nodup hd data pivots hr hpw

end SplitPerm


/-! ### `splitNode` establishes the invariant -/

section Assemble
variable [LinearOrder D] [OfNat D 0]

/-- the parameters for which `split` is defined at all: with `minDegree_ = 0` a child can get
`degree_ = 0`, and splitting it calls `kcenters` with `k = 0` (a write into a 0-column matrix). -/
structure ParamsOK (P : Params) : Prop where
  minDeg : 1 ≤ P.minDegree
  maxDeg : 1 ≤ P.maxDegree

theorem mapSt_spec (f : Node α D → List U → Node α D × List U × Bool) :
    ∀ (L : List (Node α D)) (us : List U),
      (mapSt f L us).1.length = L.length ∧
      ∀ (m : Nat) (c : Node α D), L[m]? = some c → ∃ us', (mapSt f L us).1[m]? = some (f c us').1
  | [], us => by simp [mapSt]
  | c :: L, us => by
    unfold mapSt
    obtain ⟨ih1, ih2⟩ := mapSt_spec f L (f c us).2.1
    refine ⟨by simp [ih1], ?_⟩
    intro m c0 hm
    cases m with
    | zero =>
      simp only [List.getElem?_cons_zero, Option.some.injEq] at hm
      subst hm
      exact ⟨us, by simp⟩
    | succ m =>
      simp only [List.getElem?_cons_succ] at hm
      obtain ⟨us', h⟩ := ih2 m c0 hm
      exact ⟨us', by simpa using h⟩

@[simp] theorem finalizeChild_pivot (P : Params) (d n : Nat) (c : Node α D) : (finalizeChild P d n c).pivot = c.pivot := by
  cases c; rfl
@[simp] theorem finalizeChild_ranges (P : Params) (d n : Nat) (c : Node α D) : (finalizeChild P d n c).ranges = c.ranges := by
  cases c; rfl
@[simp] theorem finalizeChild_data (P : Params) (d n : Nat) (c : Node α D) : (finalizeChild P d n c).data = c.data := by
  cases c; rfl
@[simp] theorem finalizeChild_children (P : Params) (d n : Nat) (c : Node α D) :
    (finalizeChild P d n c).children = c.children := by
  cases c; rfl
theorem finalizeChild_rad (P : Params) (d n : Nat) (c : Node α D) (v : D) (h : c.rad.has v = true) :
    (finalizeChild P d n c).rad.has v = true := by
  obtain ⟨p, deg, rad, rgs, data, ch⟩ := c
  cases rad with
  | none => simp [Node.rad, Range.has] at h
  | some r => exact h
theorem finalizeChild_degree (P : Params) (hP : ParamsOK P) (d n : Nat) (c : Node α D) :
    0 < (finalizeChild P d n c).degree := by
  obtain ⟨p, deg, rad, rgs, data, ch⟩ := c
  simp only [finalizeChild, Node.degree]
  have := hP.minDeg
  have := hP.maxDeg
  omega

theorem leaf_inv (dist : α → α → D) (n : Node α D) (h : n.children = []) : n.inv dist [] = true := by
  obtain ⟨p, deg, rad, rgs, data, ch⟩ := n
  simp only [Node.children] at h
  subst h
  simp [Node.inv, isRemoved, localInv, invL]

theorem leaf_degPos (n : Node α D) (h : n.children = []) (hd : 0 < n.degree) : n.degPos = true := by
  obtain ⟨p, deg, rad, rgs, data, ch⟩ := n
  simp only [Node.children] at h
  subst h
  rw [Node.degPos_mk]
  exact ⟨hd, by simp⟩

theorem restOf_leaf (n : Node α D) (h : n.children = []) : restOf n = n.data := by
  simp [restOf, h, elemsL]

theorem elemsL_leaves : ∀ (L : List (Node α D)), (∀ c ∈ L, c.children = []) →
    (elemsL L).Perm (L.map (fun c => c.pivot) ++ dataL L)
  | [], _ => by simp [elemsL, dataL]
  | c :: L, h => by
    have ih := elemsL_leaves L (fun c' hc' => h c' (List.mem_cons_of_mem _ hc'))
    simp only [elemsL, List.map_cons, dataL, List.flatten_cons, List.cons_append]
    rw [Node.elems_eq, restOf_leaf c (h c (by simp))]
    simp only [List.cons_append]
    refine List.Perm.cons _ ?_
    refine (List.Perm.append_left c.data ih).trans ?_
    unfold dataL
    rw [← List.append_assoc, ← List.append_assoc]
    exact List.Perm.append_right _ List.perm_append_comm

theorem dataL_new (deg : Nat) (ps : List (Elem α)) : dataL (ps.map (Node.new (D := D) deg)) = [] := by
  induction ps with
  | nil => rfl
  | cons p ps ih =>
    simp only [dataL, List.map_cons, List.flatten_cons] at ih ⊢
    rw [ih]
    rfl

/-- **`split` establishes `GnatInv`** — for every draw, every leaf with at least one element and
`degree_ >= 1`: the result satisfies the invariant, keeps pivot / radii / ranges of the split node,
stores exactly the same copies, and all degrees below are positive. -/
theorem splitNode_spec (ctx : Ctx α D U) (hd : DistOK ctx.dist ctx.eps) (hP : ParamsOK ctx.P)
    (hpick : ∀ u n, 0 < n → ctx.pick u n < n) :
    ∀ (fuel : Nat) (n : Node α D) (us : List U), n.children = [] → n.data ≠ [] → 0 < n.degree →
      (splitNode ctx fuel n us).1.inv ctx.dist [] = true ∧ (splitNode ctx fuel n us).1.pivot = n.pivot ∧
      (splitNode ctx fuel n us).1.rad = n.rad ∧ (splitNode ctx fuel n us).1.ranges = n.ranges ∧
      (restOf (splitNode ctx fuel n us).1).Perm (restOf n) ∧ (splitNode ctx fuel n us).1.degPos = true := by
  intro fuel
  induction fuel with
  | zero =>
    intro n us hch _ hdeg
    unfold splitNode
    exact ⟨leaf_inv _ n hch, rfl, rfl, rfl, List.Perm.refl _, leaf_degPos n hch hdeg⟩
  | succ fuel ih =>
    intro n us hch hdata hdeg
    obtain ⟨p, deg, rad, rgs, data, ch⟩ := n
    simp only [Node.children] at hch
    subst hch
    simp only [Node.data] at hdata
    simp only [Node.degree] at hdeg
    cases us with
    | nil =>
      unfold splitNode
      exact ⟨leaf_inv _ _ rfl, rfl, rfl, rfl, List.Perm.refl _, leaf_degPos _ rfl hdeg⟩
    | cons u us =>
      unfold splitNode
      simp only []
      have hfirst : ctx.pick u data.length < data.length := hpick u _ (List.length_pos_iff.mpr hdata)
      obtain ⟨k1, k2, k3, k4⟩ := kcenters_spec ctx.dist ctx.eps data deg (ctx.pick u data.length) hfirst
      generalize kcenters ctx.dist ctx.eps data deg (ctx.pick u data.length) = pivots at k1 k2 k3 k4 ⊢
      have hch0 : pivots.filterMap (fun pi => (data[pi]?).map (Node.new (D := D) deg)) =
          (pivElems data pivots).map (Node.new deg) := by
        unfold pivElems
        rw [List.map_filterMap]
      rw [hch0]
      generalize hps : pivElems data pivots = ps
      have hpslen : ps.length = pivots.length := by rw [← hps]; exact pivElems_length data pivots k1
      have hpsne : ps ≠ [] := by
        intro h
        rw [h] at hpslen
        simp only [List.length_nil] at hpslen
        omega
      have hps0 : (ps.map (Node.new (D := D) deg)).map (fun c => c.pivot) = ps := by
        rw [List.map_map]
        conv => rhs; rw [← List.map_id ps]
        rfl
      obtain ⟨d1, d2⟩ := distribute_spec ctx.dist pivots ps data 0 _ hps0
      have hperm := dataL_distribute ctx.dist pivots ps hpsne data 0 _ hps0
      rw [dataL_new, List.nil_append] at hperm
      generalize distribute ctx.dist pivots data 0 (ps.map (Node.new deg)) = ch1 at d1 d2 hperm ⊢
      simp only [List.length_map] at d1
      -- every child after the distribution loop
      have hc1 : ∀ (i : Nat) (c1 : Node α D), ch1[i]? = some c1 →
          ∃ P, ps[i]? = some P ∧ c1 = childFold ctx.dist pivots ps i (Node.new deg P) data 0 := by
        intro i c1 hi
        have hilt : i < ps.length := by
          rw [← d1]
          exact (List.getElem?_eq_some_iff.mp hi).1
        have := d2 i (Node.new deg ps[i]) (by simp [List.getElem?_eq_getElem hilt])
        rw [this] at hi
        exact ⟨ps[i], List.getElem?_eq_getElem hilt, (Option.some.inj hi).symm⟩
      have hpiv1 : ch1.map (fun c => c.pivot) = ps := by
        apply List.ext_getElem?
        intro i
        rw [List.getElem?_map]
        cases hi : ch1[i]? with
        | none =>
          have : ps.length ≤ i := by rw [← d1]; exact List.getElem?_eq_none_iff.mp hi
          simp [List.getElem?_eq_none this]
        | some c1 =>
          obtain ⟨P, hP1, rfl⟩ := hc1 i c1 hi
          simp only [Option.map_some]
          rw [(childFold_spec ctx.dist pivots ps i data 0 (Node.new deg P)).1, hP1]
          rfl
      have hleaf1 : ∀ c1 ∈ ch1, c1.children = [] := by
        intro c1 hc
        obtain ⟨i, hi⟩ := List.mem_iff_getElem?.mp hc
        obtain ⟨P, _, rfl⟩ := hc1 i c1 hi
        rw [(childFold_spec ctx.dist pivots ps i data 0 (Node.new deg P)).2.1]
        rfl
      -- the final children
      obtain ⟨m1, m2⟩ := mapSt_spec (fun (c : Node α D) (us : List U) =>
          if needToSplit ctx.P c.degree c.data.length = true then splitNode ctx fuel c us else (c, us, true))
        (ch1.map (finalizeChild ctx.P pivots.length data.length)) us
      generalize (mapSt (fun (c : Node α D) (us : List U) =>
          if needToSplit ctx.P c.degree c.data.length = true then splitNode ctx fuel c us else (c, us, true))
        (ch1.map (finalizeChild ctx.P pivots.length data.length)) us).1 = ch3 at m1 m2 ⊢
      simp only [List.length_map] at m1
      have hc3 : ∀ (i : Nat) (c3 : Node α D), ch3[i]? = some c3 →
          ∃ c1, ch1[i]? = some c1 ∧ c3.inv ctx.dist [] = true ∧ c3.pivot = c1.pivot ∧
            (∀ v, c1.rad.has v = true → c3.rad.has v = true) ∧ c3.ranges = c1.ranges ∧
            (restOf c3).Perm c1.data ∧ c3.degPos = true := by
        intro i c3 hi
        have hilt : i < ch1.length := by
          rw [← m1]
          exact (List.getElem?_eq_some_iff.mp hi).1
        obtain ⟨us', h⟩ := m2 i (finalizeChild ctx.P pivots.length data.length ch1[i])
          (by simp [List.getElem?_eq_getElem hilt])
        rw [h] at hi
        have hc3eq := (Option.some.inj hi).symm
        refine ⟨ch1[i], List.getElem?_eq_getElem hilt, ?_⟩
        have hl1 := hleaf1 ch1[i] (List.getElem_mem hilt)
        generalize ch1[i] = c1 at hl1 hc3eq
        generalize hc2 : finalizeChild ctx.P pivots.length data.length c1 = c2 at hc3eq
        have hl2 : c2.children = [] := by rw [← hc2]; simpa using hl1
        have hdeg2 : 0 < c2.degree := by rw [← hc2]; exact finalizeChild_degree _ hP _ _ _
        have hp2 : c2.pivot = c1.pivot := by rw [← hc2]; simp
        have hr2 : ∀ v, c1.rad.has v = true → c2.rad.has v = true := by
          intro v hv; rw [← hc2]; exact finalizeChild_rad _ _ _ _ v hv
        have hrg2 : c2.ranges = c1.ranges := by rw [← hc2]; simp
        have hd2 : c2.data = c1.data := by rw [← hc2]; simp
        by_cases hns : needToSplit ctx.P c2.degree c2.data.length = true
        · rw [if_pos hns] at hc3eq
          have hne : c2.data ≠ [] := by
            intro h0
            simp [needToSplit, h0] at hns
          obtain ⟨s1, s2, s3, s4, s5, s6⟩ := ih c2 us' hl2 hne hdeg2
          rw [← hc3eq] at s1 s2 s3 s4 s5 s6
          refine ⟨s1, by rw [s2, hp2], ?_, by rw [s4, hrg2], ?_, s6⟩
          · intro v hv; rw [s3]; exact hr2 v hv
          · rw [restOf_leaf c2 hl2, hd2] at s5; exact s5
        · rw [if_neg hns] at hc3eq
          simp only [] at hc3eq
          rw [hc3eq]
          exact ⟨leaf_inv _ c2 hl2, hp2, hr2, hrg2, by rw [restOf_leaf c2 hl2, hd2], leaf_degPos c2 hl2 hdeg2⟩
      -- the child at index i, fully described
      have hfull : ∀ (i : Nat) (c3 : Node α D), ch3[i]? = some c3 →
          ∃ P pi, ps[i]? = some P ∧ pivots[i]? = some pi ∧ data[pi]? = some P ∧ c3.pivot = P ∧
            (∀ y ∈ restOf c3, c3.rad.has (ctx.dist y.val P.val) = true) ∧
            (∀ y ∈ restOf c3, ∃ m : Nat, data[m]? = some y ∧ Asg ctx.dist ps y = i) ∧
            (∀ k : Nat, k < pivots.length → ∃ rg, c3.ranges[k]? = some rg ∧
              ∀ (m : Nat) (y : Elem α), data[m]? = some y → Asg ctx.dist ps y = k →
                rg.has (ctx.dist y.val P.val) = true) := by
        intro i c3 hi
        obtain ⟨c1, h1, _, h3, h4, h5, h6, _⟩ := hc3 i c3 hi
        obtain ⟨P, hP1, rfl⟩ := hc1 i c1 h1
        obtain ⟨f1, _, _, _, f5, f6, f7⟩ := childFold_spec ctx.dist pivots ps i data 0 (Node.new deg P)
        have hPpiv : (Node.new (D := D) deg P).pivot = P := rfl
        have hilt : i < pivots.length := by
          rw [← hpslen]; exact (List.getElem?_eq_some_iff.mp hP1).1
        have hpe := pivElems_getElem? data pivots k1 i
        rw [hps, hP1, List.getElem?_eq_getElem hilt] at hpe
        simp only [Option.bind_some] at hpe
        refine ⟨P, pivots[i], hP1, List.getElem?_eq_getElem hilt, hpe.symm, by rw [h3, f1, hPpiv], ?_, ?_, ?_⟩
        · intro y hy
          apply h4
          have := f6 (by intro z hz; simp [Node.new, Node.data] at hz) y (h6.subset hy)
          rwa [hPpiv] at this
        · intro y hy
          rcases f5 y (h6.subset hy) with h | h
          · simp [Node.new, Node.data] at h
          · exact h
        · intro k hk
          have hk0 : (Node.new (D := D) deg P).ranges[k]? = some none := by
            simp only [Node.new, Node.ranges]
            rw [List.getElem?_replicate]
            simp only [ite_eq_left_iff, not_lt, reduceCtorEq, imp_false, not_le]
            omega
          obtain ⟨rg, hrg, _, hcov⟩ := f7 k none hk0
          refine ⟨rg, by rw [h5]; exact hrg, ?_⟩
          intro m y hm ha
          have := hcov m y hm ha
          rwa [hPpiv] at this
      have hlen3 : ch3.length = pivots.length := by rw [m1, d1, hpslen]
      refine ⟨?_, rfl, rfl, rfl, ?_, ?_⟩
      · rw [Node.inv_mk]
        refine ⟨by simp [isRemoved], ?_, ?_⟩
        · rw [localInv_iff]
          intro ci hci
          obtain ⟨i, hi⟩ := List.mem_iff_getElem?.mp hci
          obtain ⟨P, pi, _, _, _, hpv, hradc, _, hrgc⟩ := hfull i ci hi
          rw [hpv]
          refine ⟨hradc, ?_⟩
          intro j cj hj
          have hjlt : j < pivots.length := by
            rw [← hlen3]; exact (List.getElem?_eq_some_iff.mp hj).1
          obtain ⟨rg, hrg, hcov⟩ := hrgc j hjlt
          refine ⟨rg, hrg, ?_⟩
          intro y hy
          obtain ⟨Pj, pj, _, hpj2, hpj3, hpvj, _, hdataj, _⟩ := hfull j cj hj
          rw [Node.elems_eq, hpvj] at hy
          rcases List.mem_cons.mp hy with h | h
          · rw [h]
            refine hcov pj Pj hpj3 ?_
            rw [← hps]
            exact asg_pivot hd data pivots k1 k2 j pj Pj hpj2 hpj3
          · obtain ⟨m, hm, ha⟩ := hdataj y h
            exact hcov m y hm ha
        · apply invL_of_mem
          intro c3 hc
          obtain ⟨i, hi⟩ := List.mem_iff_getElem?.mp hc
          obtain ⟨_, _, h2, _⟩ := hc3 i c3 hi
          exact h2
      · simp only [restOf, Node.data, Node.children, List.nil_append, elemsL, List.append_nil]
        have e1 : (elemsL ch3).Perm (elemsL ch1) := by
          apply elemsL_perm_pointwise ch1 ch3 (by rw [m1])
          intro m c1 c3 hc1m hc3m
          obtain ⟨c1', h1, _, h3, _, _, h6, _⟩ := hc3 m c3 hc3m
          rw [hc1m] at h1
          cases h1
          rw [Node.elems_eq, Node.elems_eq c1, h3,
            restOf_leaf c1 (hleaf1 c1 (List.mem_of_getElem? hc1m))]
          exact List.Perm.cons _ h6
        refine e1.trans ((elemsL_leaves ch1 hleaf1).trans ?_)
        rw [hpiv1]
        refine (List.Perm.append_left ps hperm).trans ?_
        have e2 := selfL_perm_pivElems hd data pivots k1 k2
        rw [hps] at e2
        exact (List.Perm.append_right _ e2.symm).trans (self_nonSelf_perm ctx.dist ps pivots data 0).symm
      · rw [Node.degPos_mk]
        refine ⟨by omega, ?_⟩
        intro c3 hc
        obtain ⟨i, hi⟩ := List.mem_iff_getElem?.mp hc
        obtain ⟨_, _, _, _, _, _, _, h8⟩ := hc3 i c3 hi
        exact h8

end Assemble

/-- `SplitSpec` holds whenever nothing is marked removed (the only situation in which `split` runs). -/
theorem splitSpec_nil [LinearOrder D] [OfNat D 0] (ctx : Ctx α D U) (hd : DistOK ctx.dist ctx.eps)
    (hP : ParamsOK ctx.P) (hpick : ∀ u n, 0 < n → ctx.pick u n < n) : SplitSpec ctx [] := by
  intro fuel n us hch hdata hdeg _
  obtain ⟨h1, h2, _, _, h5, h6⟩ := splitNode_spec ctx hd hP hpick fuel n us hch hdata hdeg
  exact ⟨h1, h2, h5, h6⟩

end OmplModel.NN
