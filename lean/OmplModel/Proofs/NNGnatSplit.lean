import OmplModel.Proofs.NNGnatOps
/-!
GNAT `split` establishes the invariant.

1. `GreedyKCenters::kcenters` (model `kcenters`/`kcLoop`/`kcStep`), for EVERY first centre: every
   chosen centre is a valid index, there is at least one and at most `k`, and every centre is at
   distance `>= eps` from every centre chosen before it (`FarApart`) — proved by induction over the
   greedy loop with the `minDist` array as loop invariant.  The degenerate cases (duplicates, fewer
   distinct points than `k`) are exactly the `maxDist < eps` cut-off: the loop stops, nothing is added.
2. Hence (with `dist x x = 0 <= dist x y` and `0 < eps`) the first-closest centre of a centre is itself
   (`argminFirst_pivot`), which is what `split`'s assignment loop needs so that no pivot is stored twice
   and `ranges[k]` covers pivot `k`.
3. `splitNode` then establishes `Node.inv`, keeps pivot / radii / ranges of the split node, and stores
   exactly the same copies (`List.Perm`).
-/
set_option linter.unusedSectionVars false

namespace OmplModel.NN

variable {α D U : Type}

section KCenters
variable [LinearOrder D]

theorem kcStep_spec (dist : α → α → D) (center : α) :
    ∀ (data : List (Elem α)) (minDist : List (Option D)) (j0 ind0 : Nat) (maxD0 : Option D),
      minDist.length = data.length →
      (kcStep dist center data minDist j0 ind0 maxD0).1.length = data.length ∧
      (∀ (j : Nat) (x : Elem α), data[j]? = some x →
        ∃ m', (kcStep dist center data minDist j0 ind0 maxD0).1[j]? = some (some m') ∧
          m' ≤ dist x.val center ∧ ∀ m, minDist[j]? = some (some m) → m' ≤ m) ∧
      (∀ M, (kcStep dist center data minDist j0 ind0 maxD0).2.2 = some M →
        ((kcStep dist center data minDist j0 ind0 maxD0).2.2 = maxD0 ∧
          (kcStep dist center data minDist j0 ind0 maxD0).2.1 = ind0) ∨
        ∃ j, (kcStep dist center data minDist j0 ind0 maxD0).2.1 = j0 + j ∧
          (kcStep dist center data minDist j0 ind0 maxD0).1[j]? = some (some M))
  | [], minDist, j0, ind0, maxD0, _ => by
    cases minDist <;> simp [kcStep]
  | x :: xs, [], j0, ind0, maxD0, h => by simp at h
  | x :: xs, m :: ms, j0, ind0, maxD0, h => by
    simp only [List.length_cons, Nat.add_right_cancel_iff] at h
    unfold kcStep
    simp only []
    have hm'1 : minUpd m (dist x.val center) ≤ dist x.val center := by
      unfold minUpd
      cases m with
      | none => exact le_refl _
      | some v =>
        simp only []
        split
        · exact le_refl _
        · rename_i hlt; exact not_lt.mp hlt
    have hm'2 : ∀ v, m = some v → minUpd m (dist x.val center) ≤ v := by
      intro v hv
      rw [hv]
      unfold minUpd
      simp only []
      split
      · rename_i hlt; exact le_of_lt hlt
      · exact le_refl _
    generalize minUpd m (dist x.val center) = m' at hm'1 hm'2 ⊢
    generalize newMax maxD0 m' = upd
    have key : ∀ (ind1 : Nat) (maxD1 : Option D),
        ((maxD1 = some m' ∧ ind1 = j0) ∨ (maxD1 = maxD0 ∧ ind1 = ind0)) →
        (some m' :: (kcStep dist center xs ms (j0 + 1) ind1 maxD1).1).length = (x :: xs).length ∧
        (∀ (j : Nat) (y : Elem α), (x :: xs)[j]? = some y →
          ∃ m'', (some m' :: (kcStep dist center xs ms (j0 + 1) ind1 maxD1).1)[j]? = some (some m'') ∧
            m'' ≤ dist y.val center ∧ ∀ v, (m :: ms)[j]? = some (some v) → m'' ≤ v) ∧
        (∀ M, (kcStep dist center xs ms (j0 + 1) ind1 maxD1).2.2 = some M →
          ((kcStep dist center xs ms (j0 + 1) ind1 maxD1).2.2 = maxD0 ∧
            (kcStep dist center xs ms (j0 + 1) ind1 maxD1).2.1 = ind0) ∨
          ∃ j, (kcStep dist center xs ms (j0 + 1) ind1 maxD1).2.1 = j0 + j ∧
            (some m' :: (kcStep dist center xs ms (j0 + 1) ind1 maxD1).1)[j]? = some (some M)) := by
      intro ind1 maxD1 hcase
      obtain ⟨ih1, ih2, ih3⟩ := kcStep_spec dist center xs ms (j0 + 1) ind1 maxD1 h
      refine ⟨by simp [ih1], ?_, ?_⟩
      · intro j y hj
        cases j with
        | zero =>
          simp only [List.getElem?_cons_zero, Option.some.injEq] at hj
          subst hj
          refine ⟨m', by simp, hm'1, ?_⟩
          intro v hv
          simp only [List.getElem?_cons_zero, Option.some.injEq] at hv
          exact hm'2 v hv
        | succ j =>
          simp only [List.getElem?_cons_succ] at hj ⊢
          exact ih2 j y hj
      · intro M hM
        rcases ih3 M hM with ⟨h1, h2⟩ | ⟨j, h1, h2⟩
        · rcases hcase with ⟨c1, c2⟩ | ⟨c1, c2⟩
          · right
            refine ⟨0, by rw [h2, c2]; rfl, ?_⟩
            rw [hM, c1] at h1
            simp only [List.getElem?_cons_zero]
            rw [h1]
          · left
            exact ⟨by rw [h1, c1], by rw [h2, c2]⟩
        · right
          exact ⟨j + 1, by rw [h1]; omega, by simpa using h2⟩
    cases upd with
    | true => simpa using key j0 (some m') (Or.inl ⟨rfl, rfl⟩)
    | false => simpa using key ind0 maxD0 (Or.inr ⟨rfl, rfl⟩)

/-- centre `b` (chosen later) is at distance `>= eps` from centre `a`. -/
def FarApart (dist : α → α → D) (eps : D) (data : List (Elem α)) (a b : Nat) : Prop :=
  ∀ xa xb, data[a]? = some xa → data[b]? = some xb → eps ≤ dist xb.val xa.val

theorem kcLoop_spec (dist : α → α → D) (eps : D) (data : List (Elem α)) :
    ∀ (n : Nat) (prev : List Nat) (last : Nat) (minDist : List (Option D)),
      minDist.length = data.length → last < data.length → (∀ c ∈ prev, c < data.length) →
      (prev ++ [last]).Pairwise (FarApart dist eps data) →
      (∀ (j : Nat) (x : Elem α) (c : Nat) (xc : Elem α), data[j]? = some x → c ∈ prev → data[c]? = some xc →
        ∃ m, minDist[j]? = some (some m) ∧ m ≤ dist x.val xc.val) →
      (∀ c ∈ kcLoop dist eps data n (prev ++ [last]) last minDist, c < data.length) ∧
      (kcLoop dist eps data n (prev ++ [last]) last minDist).Pairwise (FarApart dist eps data) ∧
      (kcLoop dist eps data n (prev ++ [last]) last minDist).length ≤ prev.length + 1 + n ∧
      prev.length + 1 ≤ (kcLoop dist eps data n (prev ++ [last]) last minDist).length
  | 0, prev, last, minDist, _, hl, hp, hpw, _ => by
    simp only [kcLoop]
    refine ⟨?_, hpw, by simp, by simp⟩
    intro c hc
    rcases List.mem_append.mp hc with h | h
    · exact hp c h
    · simp at h; omega
  | n + 1, prev, last, minDist, hlen, hl, hp, hpw, hmin => by
    have hbase : (∀ c ∈ prev ++ [last], c < data.length) := by
      intro c hc
      rcases List.mem_append.mp hc with h | h
      · exact hp c h
      · simp at h; omega
    unfold kcLoop
    rw [List.getElem?_eq_getElem hl]
    simp only []
    obtain ⟨s1, s2, s3⟩ := kcStep_spec dist data[last].val data minDist 0 0 none hlen
    generalize kcStep dist data[last].val data minDist 0 0 none = r at s1 s2 s3
    have hstopCase : (∀ c ∈ prev ++ [last], c < data.length) ∧
        (prev ++ [last]).Pairwise (FarApart dist eps data) ∧
        (prev ++ [last]).length ≤ prev.length + 1 + (n + 1) ∧ prev.length + 1 ≤ (prev ++ [last]).length :=
      ⟨hbase, hpw, by simp, by simp⟩
    cases hM : r.2.2 with
    | none => simpa using hstopCase
    | some M =>
      simp only []
      by_cases hstop' : M < eps
      · simpa [hstop'] using hstopCase
      · simp only [hstop', decide_false, Bool.false_eq_true, if_false]
        have hepsM : eps ≤ M := not_lt.mp hstop'
        rcases s3 M hM with ⟨h1, _⟩ | ⟨j, hj1, hj2⟩
        · rw [hM] at h1; cases h1
        · have hind : r.2.1 < data.length := by
            rw [← s1]
            by_contra hcon
            rw [Nat.zero_add] at hj1
            rw [hj1, List.getElem?_eq_none (by omega)] at *
            cases hj2
          rw [Nat.zero_add] at hj1
          -- the new minDist covers prev ++ [last]
          have hmin' : ∀ (j : Nat) (x : Elem α) (c : Nat) (xc : Elem α), data[j]? = some x → c ∈ prev ++ [last] →
              data[c]? = some xc → ∃ m, r.1[j]? = some (some m) ∧ m ≤ dist x.val xc.val := by
            intro j x c xc hj hc hxc
            obtain ⟨m', hm1, hm2, hm3⟩ := s2 j x hj
            refine ⟨m', hm1, ?_⟩
            rcases List.mem_append.mp hc with h | h
            · obtain ⟨m, hm4, hm5⟩ := hmin j x c xc hj h hxc
              exact le_trans (hm3 m hm4) hm5
            · simp only [List.mem_singleton] at h
              subst h
              rw [List.getElem?_eq_getElem hl] at hxc
              simp only [Option.some.injEq] at hxc
              rw [← hxc]
              exact hm2
          have hpw' : ((prev ++ [last]) ++ [r.2.1]).Pairwise (FarApart dist eps data) := by
            rw [List.pairwise_append]
            refine ⟨hpw, by simp, ?_⟩
            intro a ha b hb
            simp only [List.mem_singleton] at hb
            subst hb
            intro xa xb hxa hxb
            obtain ⟨m, hm1, hm2⟩ := hmin' r.2.1 xb a xa hxb ha hxa
            rw [← hj1] at hj2
            rw [hj2] at hm1
            simp only [Option.some.injEq] at hm1
            rw [← hm1] at hm2
            exact le_trans hepsM hm2
          obtain ⟨r1, r2, r3, r4⟩ := kcLoop_spec dist eps data n (prev ++ [last]) r.2.1 r.1 s1 hind hbase hpw' hmin'
          refine ⟨r1, r2, ?_, ?_⟩
          · simp only [List.length_append, List.length_singleton] at r3; omega
          · simp only [List.length_append, List.length_singleton] at r4; omega

/-- **`kcenters` for every first centre**: valid indices, between 1 and `k` of them, each at distance
`>= eps` from all centres chosen before it. -/
theorem kcenters_spec (dist : α → α → D) (eps : D) (data : List (Elem α)) (k first : Nat)
    (hf : first < data.length) :
    (∀ c ∈ kcenters dist eps data k first, c < data.length) ∧
    (kcenters dist eps data k first).Pairwise (FarApart dist eps data) ∧
    (kcenters dist eps data k first).length ≤ 1 + (k - 1) ∧ 1 ≤ (kcenters dist eps data k first).length := by
  have := kcLoop_spec dist eps data (k - 1) [] first (data.map (fun _ => none)) (by simp) hf (by simp)
    (by simp) (by simp)
  simpa [kcenters] using this

end KCenters


/-! ### the first-closest centre of a centre is itself -/

section ArgMin
variable [LinearOrder D]

theorem argminGo_keep : ∀ (ds : List D) (idx k : Nat) (best : D), (∀ w ∈ ds, ¬ w < best) →
    argminGo ds idx k best = k
  | [], _, _, _, _ => rfl
  | d :: ds, idx, k, best, h => by
    unfold argminGo
    rw [if_neg (h d (by simp))]
    exact argminGo_keep ds (idx + 1) k best (fun w hw => h w (List.mem_cons_of_mem _ hw))

theorem argminGo_find : ∀ (ds : List D) (idx k : Nat) (best : D) (t : Nat) (v : D),
    ds[t]? = some v → v < best → (∀ (j : Nat) (w : D), j < t → ds[j]? = some w → v < w) →
    (∀ (j : Nat) (w : D), ds[j]? = some w → v ≤ w) → argminGo ds idx k best = idx + t
  | [], _, _, _, t, v, h, _, _, _ => by simp at h
  | d :: ds, idx, k, best, 0, v, h, hb, _, hge => by
    simp only [List.getElem?_cons_zero, Option.some.injEq] at h
    subst h
    unfold argminGo
    rw [if_pos hb]
    rw [argminGo_keep ds (idx + 1) idx d]
    · rfl
    · intro w hw
      obtain ⟨j, hj⟩ := List.mem_iff_getElem?.mp hw
      exact not_lt.mpr (hge (j + 1) w (by simpa using hj))
  | d :: ds, idx, k, best, t + 1, v, h, hb, hlt, hge => by
    simp only [List.getElem?_cons_succ] at h
    have hvd : v < d := hlt 0 d (by omega) (by simp)
    have hlt' : ∀ (j : Nat) (w : D), j < t → ds[j]? = some w → v < w :=
      fun j w hj hw => hlt (j + 1) w (by omega) (by simpa using hw)
    have hge' : ∀ (j : Nat) (w : D), ds[j]? = some w → v ≤ w :=
      fun j w hw => hge (j + 1) w (by simpa using hw)
    unfold argminGo
    split
    · rw [argminGo_find ds (idx + 1) idx d t v h hvd hlt' hge']; omega
    · rw [argminGo_find ds (idx + 1) k best t v h hb hlt' hge']; omega

theorem argminFirst_eq (l : List D) (i : Nat) (v : D) (hi : l[i]? = some v)
    (hlt : ∀ (j : Nat) (w : D), j < i → l[j]? = some w → v < w)
    (hge : ∀ (j : Nat) (w : D), l[j]? = some w → v ≤ w) : argminFirst l = i := by
  cases l with
  | nil => simp at hi
  | cons d ds =>
    cases i with
    | zero =>
      simp only [List.getElem?_cons_zero, Option.some.injEq] at hi
      subst hi
      simp only [argminFirst]
      apply argminGo_keep
      intro w hw
      obtain ⟨j, hj⟩ := List.mem_iff_getElem?.mp hw
      exact not_lt.mpr (hge (j + 1) w (by simpa using hj))
    | succ t =>
      simp only [List.getElem?_cons_succ] at hi
      simp only [argminFirst]
      rw [argminGo_find ds 1 0 d t v hi (hlt 0 d (by omega) (by simp))
        (fun j w hj hw => hlt (j + 1) w (by omega) (by simpa using hw))
        (fun j w hw => hge (j + 1) w (by simpa using hw))]
      omega

theorem getElem?_filterMap_of_isSome {β γ : Type} (f : β → Option γ) : ∀ (l : List β) (i : Nat),
    (∀ a ∈ l, (f a).isSome = true) → (l.filterMap f)[i]? = (l[i]?).bind f
  | [], i, _ => by simp
  | a :: l, i, h => by
    obtain ⟨b, hb⟩ := Option.isSome_iff_exists.mp (h a (by simp))
    rw [List.filterMap_cons_some hb]
    cases i with
    | zero => simp [hb]
    | succ i =>
      simp only [List.getElem?_cons_succ]
      exact getElem?_filterMap_of_isSome f l i (fun a' ha' => h a' (List.mem_cons_of_mem _ ha'))

variable [OfNat D 0]

/-- the assignment `split` computes for `x`: index of the first closest pivot. -/
def Asg (dist : α → α → D) (ps : List (Elem α)) (x : Elem α) : Nat :=
  argminFirst (ps.map (fun p => dist x.val p.val))

/-- the metric facts the greedy argument needs. -/
structure DistOK (dist : α → α → D) (eps : D) : Prop where
  self : ∀ a, dist a a = 0
  nonneg : ∀ a b, (0 : D) ≤ dist a b
  eps_pos : (0 : D) < eps

/-- the pivot elements of a pivot index list. -/
def pivElems (data : List (Elem α)) (pivots : List Nat) : List (Elem α) :=
  pivots.filterMap (fun pi => data[pi]?)

theorem pivElems_getElem? (data : List (Elem α)) (pivots : List Nat) (h : ∀ c ∈ pivots, c < data.length) (i : Nat) :
    (pivElems data pivots)[i]? = (pivots[i]?).bind (fun pi => data[pi]?) := by
  apply getElem?_filterMap_of_isSome
  intro a ha
  rw [List.getElem?_eq_getElem (h a ha)]
  rfl

theorem pivElems_length (data : List (Elem α)) (pivots : List Nat) (h : ∀ c ∈ pivots, c < data.length) :
    (pivElems data pivots).length = pivots.length := by
  unfold pivElems
  induction pivots with
  | nil => rfl
  | cons a l ih =>
    rw [List.filterMap_cons_some (List.getElem?_eq_getElem (h a (by simp)))]
    simp [ih (fun c hc => h c (List.mem_cons_of_mem _ hc))]

/-- **k-centers relation used by `split`**: pivot `i` is assigned to child `i`. -/
theorem asg_pivot {dist : α → α → D} {eps : D} (hd : DistOK dist eps) (data : List (Elem α)) (pivots : List Nat)
    (hr : ∀ c ∈ pivots, c < data.length) (hpw : pivots.Pairwise (FarApart dist eps data))
    (i pi : Nat) (x : Elem α) (hi : pivots[i]? = some pi) (hx : data[pi]? = some x) :
    Asg dist (pivElems data pivots) x = i := by
  unfold Asg
  apply argminFirst_eq _ i 0
  · rw [List.getElem?_map, pivElems_getElem? data pivots hr, hi]
    simp [hx, hd.self]
  · intro j w hj hw
    rw [List.getElem?_map, pivElems_getElem? data pivots hr] at hw
    have hjlt : j < pivots.length := by
      have := (List.getElem?_eq_some_iff.mp hi).1
      omega
    rw [List.getElem?_eq_getElem hjlt] at hw
    have hpj := hr pivots[j] (List.getElem_mem hjlt)
    simp only [Option.bind_some, List.getElem?_eq_getElem hpj, Option.map_some, Option.some.injEq] at hw
    have hilt := (List.getElem?_eq_some_iff.mp hi).1
    have hfar := (List.pairwise_iff_getElem.mp hpw) j i hjlt hilt hj
    have hpi : pivots[i] = pi := (List.getElem?_eq_some_iff.mp hi).2
    rw [hpi] at hfar
    have := hfar data[pivots[j]] x (List.getElem?_eq_getElem hpj) hx
    rw [← hw]
    exact lt_of_lt_of_le hd.eps_pos this
  · intro j w hw
    rw [List.getElem?_map] at hw
    cases hp : (pivElems data pivots)[j]? with
    | none => simp [hp] at hw
    | some p =>
      simp only [hp, Option.map_some, Option.some.injEq] at hw
      rw [← hw]
      exact hd.nonneg _ _

theorem pivots_nodup {dist : α → α → D} {eps : D} (hd : DistOK dist eps) (data : List (Elem α)) (pivots : List Nat)
    (hr : ∀ c ∈ pivots, c < data.length) (hpw : pivots.Pairwise (FarApart dist eps data)) : pivots.Nodup := by
  refine List.Pairwise.imp_of_mem ?_ hpw
  intro a b ha _ hfar hab
  subst hab
  have hlt := hr a ha
  have := hfar data[a] data[a] (List.getElem?_eq_getElem hlt) (List.getElem?_eq_getElem hlt)
  rw [hd.self] at this
  exact absurd (lt_of_lt_of_le hd.eps_pos this) (lt_irrefl _)

end ArgMin

end OmplModel.NN
