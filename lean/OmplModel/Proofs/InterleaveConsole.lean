import OmplModel.Model.InterleaveConsole
import OmplModel.Proofs.Interleave
/-! console: guarded steps keep every handler idle between steps.  Core Lean only. -/
namespace OmplModel.Interleave

/-- nobody inside a handler, nothing overlapped, no stale handler -/
def LQuiet (s : LStore) : Prop := s.inside = [] ∧ s.overlaps = 0 ∧ s.stale = 0

theorem lquiet_step (a : LStep) (s : LStore) (ha : a.guarded) (h : LQuiet s) : LQuiet (LStep.apply a s) := by
  obtain ⟨h1, h2, h3⟩ := h
  cases a with
  | logG t =>
    simp only [LStep.apply]
    cases s.cur with
    | none => exact ⟨h1, h2, h3⟩
    | some hd => simp [LQuiet, h1, h2, h3]
  | snap t => exact absurd ha (by simp [LStep.guarded])
  | enter t => exact absurd ha (by simp [LStep.guarded])
  | leave t => exact absurd ha (by simp [LStep.guarded])
  | useH hd =>
    have : busyIn s = 0 := by simp only [busyIn, h1]; cases s.cur <;> simp
    simp [LStep.apply, LQuiet, h1, h2, h3, this]
  | noH =>
    have : busyIn s = 0 := by simp only [busyIn, h1]; cases s.cur <;> simp
    simp [LStep.apply, LQuiet, h1, h2, h3, this]
  | restore =>
    have : busyIn s = 0 := by simp only [busyIn, h1]; cases s.cur <;> simp
    simp [LStep.apply, LQuiet, h1, h2, h3, this]

theorem lquiet_run (l : List LStep) (hl : ∀ a ∈ l, a.guarded) (s : LStore) (h : LQuiet s) :
    LQuiet (runSteps LStep.apply l s) := by
  induction l generalizing s with
  | nil => exact h
  | cons a l ih =>
    rw [runSteps_cons]
    exact ih (fun b hb => hl b (List.mem_cons_of_mem _ hb)) _ (lquiet_step a s (hl a (List.mem_cons_self)) h)

/-- with a handler installed throughout (no `noH`, no `restore`), every message is delivered exactly once -/
def LInstalled (s : LStore) : Prop := s.cur ≠ none

theorem delivered_run (l : List LStep) (hl : ∀ a ∈ l, (∃ t, a = .logG t) ∨ (∃ h, a = .useH h)) (s : LStore)
    (h : LInstalled s) :
    (runSteps LStep.apply l s).delivered.length = s.delivered.length + logCount l ∧ LInstalled (runSteps LStep.apply l s) := by
  induction l generalizing s with
  | nil => exact ⟨by simp [runSteps, logCount], h⟩
  | cons a l ih =>
    rw [runSteps_cons]
    have hl' : ∀ b ∈ l, (∃ t, b = .logG t) ∨ (∃ h, b = .useH h) := fun b hb => hl b (List.mem_cons_of_mem _ hb)
    rcases hl a List.mem_cons_self with ⟨t, rfl⟩ | ⟨hd, rfl⟩
    · cases hc : s.cur with
      | none => exact absurd hc h
      | some hd =>
        have hs : LInstalled (LStep.apply (.logG t) s) := by simp [LStep.apply, hc, LInstalled]
        obtain ⟨e1, e2⟩ := ih hl' _ hs
        refine ⟨?_, e2⟩
        rw [e1]
        simp [LStep.apply, hc, logCount]
        omega
    · have hs : LInstalled (LStep.apply (.useH hd) s) := by simp [LStep.apply, LInstalled]
      obtain ⟨e1, e2⟩ := ih hl' _ hs
      refine ⟨?_, e2⟩
      rw [e1]
      simp [LStep.apply, logCount]

end OmplModel.Interleave
