import OmplModel.Model.HeapHole
import OmplModel.Proofs.Heap
/-! The hole-moving `percolateUp`/`percolateDown` of BinaryHeap.h (Model/HeapHole.lean, written as coded) produce the same
arrays as the swap-based `siftUp`/`siftDown` the invariant proofs are about. Core Lean only. -/
namespace OmplModel.Heap
variable {κ : Type}

/-- what the hole loop returns: writing `tmp` into the final hole gives the swap-based result -/
def UpSpec (lt : κ → κ → Bool) (a : Array (Elem κ)) (tmp : Elem κ) (c : Nat) (hc : c < a.size)
    (r : Array (Elem κ) × Nat) : Prop :=
  ∃ (_ : r.1.size = a.size) (h2 : r.2 < r.1.size), r.2 ≤ c ∧ (r.2 = c → r.1 = a) ∧
    r.1.set r.2 tmp h2 = siftUp lt (a.set c tmp hc) c

theorem siftUp_set_step (lt : κ → κ → Bool) (a : Array (Elem κ)) (tmp : Elem κ) (c : Nat) (hc : c < a.size)
    (h0 : 0 < c) (hlt : lt tmp.key (a[(c - 1) / 2]'(by omega)).key = true) :
    siftUp lt (a.set c tmp hc) c =
      siftUp lt ((a.set c (a[(c - 1) / 2]'(by omega)) hc).set ((c - 1) / 2) tmp (by simp; omega)) ((c - 1) / 2) := by
  conv => lhs; unfold siftUp
  have hcond : 0 < c ∧ c < (a.set c tmp hc).size := by simp; exact ⟨h0, hc⟩
  simp only [hcond, and_self, ↓reduceDIte]
  have e1 : ((a.set c tmp hc)[c]'(by simp; omega)).key = tmp.key := by simp
  have e2 : ((a.set c tmp hc)[(c - 1) / 2]'(by simp; omega)) = a[(c - 1) / 2]'(by omega) := by
    rw [Array.getElem_set]; simp; omega
  rw [e1, e2, hlt]
  simp only [↓reduceIte]
  congr 1
  apply Array.ext
  · simp
  · intro i hi1 hi2
    simp only [Array.getElem_set, Array.getElem_swap]
    simp only [Array.size_swap, Array.size_set] at hi1
    grind

theorem siftUp_set_stop (lt : κ → κ → Bool) (a : Array (Elem κ)) (tmp : Elem κ) (c : Nat) (hc : c < a.size)
    (hstop : 0 < c → lt tmp.key (a[(c - 1) / 2]'(by omega)).key = false) :
    siftUp lt (a.set c tmp hc) c = a.set c tmp hc := by
  apply siftUp_of_not_lt
  intro h0 hi
  have e2 : ((a.set c tmp hc)[(c - 1) / 2]'(by simp; omega)) = a[(c - 1) / 2]'(by omega) := by
    rw [Array.getElem_set]; simp; omega
  simp only [Array.getElem_set_self, e2]
  exact hstop h0

theorem upHoleLoop_spec (lt : κ → κ → Bool) (tmp : Elem κ) (c : Nat) :
    ∀ (a : Array (Elem κ)) (hc : c < a.size), UpSpec lt a tmp c hc (upHoleLoop lt a tmp c) := by
  induction c using Nat.strongRecOn with
  | _ c ih =>
    intro a hc
    unfold upHoleLoop
    by_cases h0 : 0 < c
    · have hcond : 0 < c ∧ c < a.size := ⟨h0, hc⟩
      simp only [hcond, and_self, ↓reduceDIte]
      cases hlt : lt tmp.key (a[(c - 1) / 2]'(by omega)).key
      · simp only [Bool.false_eq_true, ↓reduceIte]
        exact ⟨rfl, hc, Nat.le_refl _, fun _ => rfl, (siftUp_set_stop lt a tmp c hc (fun _ => hlt)).symm⟩
      · simp only [↓reduceIte]
        obtain ⟨h1, h2, h3, _, h5⟩ := ih ((c - 1) / 2) (by omega) (a.set c (a[(c - 1) / 2]'(by omega)) hc) (by simp; omega)
        simp only [Array.size_set] at h1
        refine ⟨h1, h2, by omega, fun h => by omega, ?_⟩
        rw [h5, siftUp_set_step lt a tmp c hc h0 hlt]
    · have hcond : ¬ (0 < c ∧ c < a.size) := fun h => h0 h.1
      simp only [hcond, ↓reduceDIte]
      exact ⟨rfl, hc, Nat.le_refl _, fun _ => rfl, (siftUp_set_stop lt a tmp c hc (fun h => absurd h h0)).symm⟩

theorem set_self (a : Array (Elem κ)) (p : Nat) (hp : p < a.size) : a.set p a[p] hp = a := by
  apply Array.ext
  · simp
  · intro i h1 h2
    rw [Array.getElem_set]
    split
    · rename_i h; subst h; rfl
    · rfl

/-- **`percolateUp` as coded (hole moving) equals the swap-based `siftUp` of the model.** -/
theorem percolateUp_eq_siftUp (lt : κ → κ → Bool) (a : Array (Elem κ)) (pos : Nat) :
    percolateUp lt a pos = siftUp lt a pos := by
  unfold percolateUp
  by_cases hp : pos < a.size
  · simp only [hp, ↓reduceDIte]
    obtain ⟨h1, h2, h3, h4, h5⟩ := upHoleLoop_spec lt a[pos] pos a hp
    rw [set_self] at h5
    by_cases hne : (upHoleLoop lt a a[pos] pos).2 = pos
    · simp only [hne, ne_eq, not_true_eq_false, ↓reduceIte]
      rw [← h5]
      have := h4 hne
      simp only [this, hne, set_self]
    · simp only [ne_eq, hne, not_false_eq_true, ↓reduceIte]
      rw [← h5]
      simp [Array.setIfInBounds, h2]
  · simp only [hp, ↓reduceDIte]
    unfold siftUp
    have : ¬ (0 < pos ∧ pos < a.size) := fun h => hp h.2
    simp only [this, ↓reduceDIte]

/-! ### percolateDown -/

theorem siftDown_set_step (lt : κ → κ → Bool) (a : Array (Elem κ)) (tmp : Elem κ) (p c : Nat)
    (h : 2 * p + 2 < a.size) (hc : c = 2 * p + 1 ∨ c = 2 * p + 2)
    (hpick : c = 2 * p + 1 ↔ lt (a[2 * p + 1]'(by omega)).key a[2 * p + 2].key = true)
    (hlt : lt (a[c]'(by omega)).key tmp.key = true) :
    siftDown lt (a.set p tmp (by omega)) p =
      siftDown lt ((a.set p (a[c]'(by omega)) (by omega)).set c tmp (by simp; omega)) c := by
  conv => lhs; unfold siftDown
  have hsz : 2 * p + 2 < (a.set p tmp (by omega)).size := by simpa using h
  simp only [hsz, ↓reduceDIte]
  have e1 : ((a.set p tmp (by omega))[2 * p + 1]'(by simp; omega)) = a[2 * p + 1]'(by omega) := by
    rw [Array.getElem_set]; simp; omega
  have e2 : ((a.set p tmp (by omega))[2 * p + 2]'(by simp; omega)) = a[2 * p + 2]'(by omega) := by
    rw [Array.getElem_set]; simp; omega
  have e3 : ((a.set p tmp (by omega))[p]'(by simp; omega)) = tmp := by simp
  simp only [e1, e2, e3]
  rcases hc with hc | hc
  · subst hc
    have := hpick.mp rfl
    simp only [this, ↓reduceIte, hlt]
    congr 1
    apply Array.ext
    · simp
    · intro i hi1 hi2
      simp only [Array.getElem_set, Array.getElem_swap]
      simp only [Array.size_swap, Array.size_set] at hi1
      grind
  · subst hc
    have : lt (a[2 * p + 1]'(by omega)).key a[2 * p + 2].key = false := by
      cases hq : lt (a[2 * p + 1]'(by omega)).key a[2 * p + 2].key
      · rfl
      · have := hpick.mpr hq; omega
    simp only [this, Bool.false_eq_true, ↓reduceIte, hlt]
    congr 1
    apply Array.ext
    · simp
    · intro i hi1 hi2
      simp only [Array.getElem_set, Array.getElem_swap]
      simp only [Array.size_swap, Array.size_set] at hi1
      grind

/-- result of the hole loop: the hole stopped at `r.2`; from there the swap version does at most
the lone-left-child step -/
def DownSpec (lt : κ → κ → Bool) (a : Array (Elem κ)) (tmp : Elem κ) (p : Nat) (hp : p < a.size)
    (r : Array (Elem κ) × Nat) : Prop :=
  ∃ (_ : r.1.size = a.size) (h2 : r.2 < r.1.size), p ≤ r.2 ∧ (r.2 = p → r.1 = a) ∧
    siftDown lt (a.set p tmp hp) p = siftDown lt (r.1.set r.2 tmp h2) r.2 ∧
    -- the loop exit: no second child, or the preferred child is not smaller than tmp
    (∀ (h : 2 * r.2 + 2 < r.1.size),
      (if lt (r.1[2 * r.2 + 1]'(by omega)).key r.1[2 * r.2 + 2].key then
        lt (r.1[2 * r.2 + 1]'(by omega)).key tmp.key else lt r.1[2 * r.2 + 2].key tmp.key) = false)

theorem downHoleLoop_spec (lt : κ → κ → Bool) (tmp : Elem κ) (n : Nat) :
    ∀ (a : Array (Elem κ)) (p : Nat) (hp : p < a.size), a.size - p = n →
      DownSpec lt a tmp p hp (downHoleLoop lt a tmp p) := by
  induction n using Nat.strongRecOn with
  | _ n ih =>
    intro a p hp hn
    unfold downHoleLoop
    by_cases h : 2 * p + 2 < a.size
    · simp only [h, ↓reduceDIte]
      cases hlr : lt (a[2 * p + 1]'(by omega)).key a[2 * p + 2].key
      · simp only [Bool.false_eq_true, ↓reduceIte]
        cases hlt : lt a[2 * p + 2].key tmp.key
        · simp only [Bool.false_eq_true, ↓reduceIte]
          exact ⟨rfl, hp, Nat.le_refl _, fun _ => rfl, rfl, fun _ => by simp [hlr, hlt]⟩
        · simp only [↓reduceIte]
          obtain ⟨h1, h2, h3, _, h5, h6⟩ := ih (a.size - (2 * p + 2)) (by omega)
            (a.set p a[2 * p + 2] (by omega)) (2 * p + 2) (by simp; omega) (by simp)
          simp only [Array.size_set] at h1
          refine ⟨h1, h2, by omega, fun hh => by omega, ?_, h6⟩
          rw [← h5]
          exact siftDown_set_step lt a tmp p (2 * p + 2) h (Or.inr rfl) (by simp [hlr]) hlt
      · simp only [↓reduceIte]
        cases hlt : lt (a[2 * p + 1]'(by omega)).key tmp.key
        · simp only [Bool.false_eq_true, ↓reduceIte]
          exact ⟨rfl, hp, Nat.le_refl _, fun _ => rfl, rfl, fun _ => by simp [hlr, hlt]⟩
        · simp only [↓reduceIte]
          obtain ⟨h1, h2, h3, _, h5, h6⟩ := ih (a.size - (2 * p + 1)) (by omega)
            (a.set p (a[2 * p + 1]'(by omega)) (by omega)) (2 * p + 1) (by simp; omega) (by simp)
          simp only [Array.size_set] at h1
          refine ⟨h1, h2, by omega, fun hh => by omega, ?_, h6⟩
          rw [← h5]
          exact siftDown_set_step lt a tmp p (2 * p + 1) h (Or.inl rfl) (by simp [hlr]) hlt
    · simp only [h, ↓reduceDIte]
      exact ⟨rfl, hp, Nat.le_refl _, fun _ => rfl, rfl, fun h' => absurd h' h⟩

theorem downFinish_spec (lt : κ → κ → Bool) (tmp : Elem κ) (pos : Nat) (ra : Array (Elem κ)) (rp : Nat)
    (h2 : rp < ra.size) (h3 : pos ≤ rp) (h4 : rp = pos → ra[rp] = tmp)
    (h6 : ∀ (h : 2 * rp + 2 < ra.size),
      (if lt (ra[2 * rp + 1]'(by omega)).key ra[2 * rp + 2].key then
        lt (ra[2 * rp + 1]'(by omega)).key tmp.key else lt ra[2 * rp + 2].key tmp.key) = false) :
    downFinish lt tmp pos (ra, rp) = siftDown lt (ra.set rp tmp h2) rp := by
  have hset : rp = pos → ra.set rp tmp h2 = ra := by
    intro h; have := h4 h; rw [← this]; exact set_self ra rp h2
  unfold downFinish
  conv => rhs; unfold siftDown
  simp only [Array.size_set]
  by_cases hA : 2 * rp + 2 < ra.size
  · have hx := h6 hA
    have e1 : ((ra.set rp tmp h2)[2 * rp + 1]'(by simp; omega)) = ra[2 * rp + 1]'(by omega) := by
      rw [Array.getElem_set]; simp; omega
    have e2 : ((ra.set rp tmp h2)[2 * rp + 2]'(by simp; omega)) = ra[2 * rp + 2]'(by omega) := by
      rw [Array.getElem_set]; simp; omega
    have e3 : ((ra.set rp tmp h2)[rp]'(by simp; exact h2)) = tmp := by simp
    have hB : ¬ (2 * rp + 2 = ra.size) := by omega
    simp only [hA, hB, ↓reduceDIte, e1, e2, e3]
    by_cases hne : rp = pos
    · simp only [hne, ne_eq, not_true_eq_false, ↓reduceIte]
      have := hset hne
      subst hne
      split at hx <;> simp_all
    · simp only [ne_eq, hne, not_false_eq_true, ↓reduceIte]
      have : ra.setIfInBounds rp tmp = ra.set rp tmp h2 := by simp [Array.setIfInBounds, h2]
      rw [this]
      split at hx <;> simp_all
  · simp only [hA, ↓reduceDIte]
    by_cases hB : 2 * rp + 2 = ra.size
    · have hC : 2 * rp + 1 < ra.size := by omega
      have e1 : ((ra.set rp tmp h2)[2 * rp + 1]'(by simp; omega)) = ra[2 * rp + 1]'(by omega) := by
        rw [Array.getElem_set]; simp; omega
      have e3 : ((ra.set rp tmp h2)[rp]'(by simp; exact h2)) = tmp := by simp
      simp only [hB, hC, ↓reduceDIte, e1, e3]
      cases hlt : lt (ra[2 * rp + 1]'(by omega)).key tmp.key
      · simp only [Bool.false_eq_true, ↓reduceIte]
        by_cases hne : rp = pos
        · simp only [hne, ne_eq, not_true_eq_false, ↓reduceIte]
          have := hset hne
          subst hne
          exact this.symm
        · simp only [ne_eq, hne, not_false_eq_true, ↓reduceIte]
          simp [Array.setIfInBounds, h2]
      · simp only [↓reduceIte]
        have hne : 2 * rp + 1 ≠ pos := by omega
        simp only [ne_eq, hne, not_false_eq_true, ↓reduceIte]
        have s1 : ra.setIfInBounds rp (ra[2 * rp + 1]'(by omega)) = ra.set rp (ra[2 * rp + 1]'(by omega)) h2 := by
          simp [Array.setIfInBounds, h2]
        rw [s1]
        have s2 : (ra.set rp (ra[2 * rp + 1]'(by omega)) h2).setIfInBounds (2 * rp + 1) tmp =
            (ra.set rp (ra[2 * rp + 1]'(by omega)) h2).set (2 * rp + 1) tmp (by simp; omega) := by
          simp [Array.setIfInBounds, hC]
        rw [s2]
        apply Array.ext
        · simp
        · intro i hi1 hi2
          simp only [Array.getElem_set, Array.getElem_swap]
          simp only [Array.size_set] at hi1
          grind
    · have hC : ¬ (2 * rp + 1 < ra.size) := by omega
      simp only [hB, hC, ↓reduceDIte]
      by_cases hne : rp = pos
      · simp only [hne, ne_eq, not_true_eq_false, ↓reduceIte]
        have := hset hne
        subst hne
        exact this.symm
      · simp only [ne_eq, hne, not_false_eq_true, ↓reduceIte]
        simp [Array.setIfInBounds, h2]

/-- **`percolateDown` as coded (hole moving, trailing lone-left-child block) equals the swap-based
`siftDown` of the model.** -/
theorem percolateDown_eq_siftDown (lt : κ → κ → Bool) (a : Array (Elem κ)) (pos : Nat) :
    percolateDown lt a pos = siftDown lt a pos := by
  unfold percolateDown
  by_cases hp : pos < a.size
  · simp only [hp, ↓reduceDIte]
    obtain ⟨h1, h2, h3, h4, h5, h6⟩ := downHoleLoop_spec lt a[pos] (a.size - pos) a pos hp rfl
    rw [set_self] at h5
    rw [h5]
    have := downFinish_spec lt a[pos] pos (downHoleLoop lt a a[pos] pos).1 (downHoleLoop lt a a[pos] pos).2 h2 h3
      (by intro h; have e := h4 h; simp only [e, h]) h6
    exact this
  · simp only [hp, ↓reduceDIte]
    unfold siftDown
    have h1 : ¬ (2 * pos + 2 < a.size) := by omega
    have h2 : ¬ (2 * pos + 1 < a.size) := by omega
    simp only [h1, h2, ↓reduceDIte]
end OmplModel.Heap
