import OmplModel.Model.Motion
import Mathlib.Algebra.Order.Floor.Semiring
import Mathlib.Data.Rat.Floor
import Mathlib.Tactic.Linarith
/-!
Exact-arithmetic (`[EX]`) facts for C05: the reported fraction lies in `[0,1)`, and the segment
count at `ℚ` (the same generic `segCount` the driver runs at `Float`, here with `⌈·⌉₊`).
What these leave unverified is IEEE rounding of `dist / L` and of `(j-1)/n`.
-/
namespace OmplModel.Motion

theorem frac_unit (num : Int) (den : Nat) (hden : 1 ≤ den) (h0 : 0 ≤ num) (h1 : num < (den : Int)) :
    0 ≤ (num : ℚ) / (den : ℚ) ∧ (num : ℚ) / (den : ℚ) < 1 := by
  have hd : (0 : ℚ) < (den : ℚ) := by exact_mod_cast hden
  have hn : (0 : ℚ) ≤ (num : ℚ) := by exact_mod_cast h0
  have hlt : (num : ℚ) < (den : ℚ) := by exact_mod_cast h1
  exact ⟨div_nonneg hn hd.le, (div_lt_one hd).2 hlt⟩

/-- the segment count over the rationals: `⌈a / b⌉₊`. -/
instance : SegNum ℚ := ⟨fun a b => ⌈a / b⌉₊⟩

theorem segCount_pos_rat (factor : Nat) (dist L : ℚ) (hf : 1 ≤ factor) (hd : 0 < dist) (hL : 0 < L) :
    1 ≤ segCount factor dist L := by
  unfold segCount
  have : 0 < ⌈dist / L⌉₊ := Nat.ceil_pos.2 (div_pos hd hL)
  show 1 ≤ factor * ⌈dist / L⌉₊
  exact Nat.one_le_iff_ne_zero.2 (Nat.mul_ne_zero (by omega) (by omega))

theorem segCount_covers_rat (factor : Nat) (dist L : ℚ) (hf : 1 ≤ factor) (hL : 0 < L) :
    dist ≤ (segCount factor dist L : ℚ) * L := by
  unfold segCount
  show dist ≤ ((factor * ⌈dist / L⌉₊ : Nat) : ℚ) * L
  have h1 : dist / L ≤ (⌈dist / L⌉₊ : ℚ) := Nat.le_ceil _
  have h2 : dist ≤ (⌈dist / L⌉₊ : ℚ) * L := (div_le_iff₀ hL).1 h1
  have h3 : (⌈dist / L⌉₊ : ℚ) ≤ ((factor * ⌈dist / L⌉₊ : Nat) : ℚ) := by
    exact_mod_cast Nat.le_mul_of_pos_left _ (by omega)
  calc dist ≤ (⌈dist / L⌉₊ : ℚ) * L := h2
    _ ≤ ((factor * ⌈dist / L⌉₊ : Nat) : ℚ) * L := mul_le_mul_of_nonneg_right h3 hL.le

/-- the ceiling is tight: one segment fewer (per unit factor) would leave a step longer than `L`. -/
theorem segCount_tight_rat (dist L : ℚ) (hd : 0 < dist) (hL : 0 < L) :
    ((segCount 1 dist L : Nat) : ℚ) * L < dist + L := by
  unfold segCount
  show ((1 * ⌈dist / L⌉₊ : Nat) : ℚ) * L < dist + L
  have h0 : (0 : ℚ) ≤ dist / L := (div_pos hd hL).le
  have h1 : (⌈dist / L⌉₊ : ℚ) < dist / L + 1 := Nat.ceil_lt_add_one h0
  have h2 : (⌈dist / L⌉₊ : ℚ) * L < (dist / L + 1) * L := mul_lt_mul_of_pos_right h1 hL
  have h3 : (dist / L + 1) * L = dist + L := by
    field_simp
  rw [Nat.one_mul]
  linarith

end OmplModel.Motion
