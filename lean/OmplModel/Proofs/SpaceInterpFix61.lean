import OmplModel.Proofs.SpaceInterpShape
import OmplModel.Proofs.SpaceInterpSO2
import OmplModel.Proofs.SpaceInterpLeaf
/-!
C07, the proposed F61 repair (`so2InterpFix`: both branches flow into `so2Wrap`): over ℝ it equals the
fixed code on in-bounds inputs, for every space; and it is in range without relying on the exact
arithmetic of the short branch (one wrap suffices for any pre-wrap value in `[-3π, 3π)`).
-/
open scoped OmplModel.SpaceInterp.RealNum
attribute [-instance] OmplModel.Num.instOfNat

namespace OmplModel.SpaceInterp
open OmplModel OmplModel.Space Real RealNum

/-! ### arithmetic-free congruence: which SO(2) values the compound clauses feed to the leaf -/

section congr
variable {α : Type} [Num α]

theorem mobiusInterp_congr (f g : α → α → α → α) (u1 v1 u2 v2 t : α) (h : f u1 u2 t = g u1 u2 t) :
    mobiusInterp f u1 v1 u2 v2 t = mobiusInterp g u1 v1 u2 v2 t := by
  unfold mobiusInterp; simp only [h]

theorem kleinInterp_congr (f g : α → α → α → α) (wr : α → α) (u1 v1 u2 v2 t : α)
    (h : f v1 v2 t = g v1 v2 t) :
    kleinInterp f wr u1 v1 u2 v2 t = kleinInterp g wr u1 v1 u2 v2 t := by
  unfold kleinInterp; simp only [h]

end congr

/-! ### SO(2) leaf -/

theorem so2InterpFix_eq_wrap (a b t : ℝ) :
    so2InterpFix a b t =
      so2Wrap (if |b - a| ≤ π then a + (b - a) * t else a - longWay (b - a) * t) := by
  simp only [so2InterpFix, abs_eq, pi_eq]

theorem so2InterpFix_eq {a b t : ℝ} (ha1 : -π ≤ a) (ha2 : a < π) (hb1 : -π ≤ b) (hb2 : b < π)
    (ht0 : 0 ≤ t) (ht1 : t ≤ 1) : so2InterpFix a b t = so2Interp a b t := by
  rw [so2InterpFix_eq_wrap]
  by_cases h : |b - a| ≤ π
  · have hin := so2Interp_inB ha1 ha2 hb1 hb2 ht0 ht1
    rw [so2Interp_short t h] at hin ⊢
    rw [if_pos h, so2Wrap_of_mid hin.1 hin.2]
  · rw [if_neg h]
    simp only [so2Interp, abs_eq, pi_eq, if_neg h]

/-- one wrap brings any value of `[-3π, 3π)` into `[-π, π)` -/
theorem so2Wrap_inB {v : ℝ} (h1 : -3 * π ≤ v) (h2 : v < 3 * π) :
    -π ≤ so2Wrap v ∧ so2Wrap v < π := by
  by_cases hge : π ≤ v
  · rw [so2Wrap_of_ge hge]; constructor <;> linarith
  · by_cases hlt : v < -π
    · rw [so2Wrap_of_lt hlt]; constructor <;> linarith
    · rw [so2Wrap_of_mid (not_lt.mp hlt) (not_le.mp hge)]; exact ⟨not_lt.mp hlt, not_le.mp hge⟩

/-- the pre-wrap value of the repaired code lies in `[-2π, 2π]` — by crude bounds only -/
theorem so2InterpFix_inB {a b t : ℝ} (ha1 : -π ≤ a) (ha2 : a < π) (hb1 : -π ≤ b) (hb2 : b < π)
    (ht0 : 0 ≤ t) (ht1 : t ≤ 1) : -π ≤ so2InterpFix a b t ∧ so2InterpFix a b t < π := by
  rw [so2InterpFix_eq_wrap]
  apply so2Wrap_inB
  · split_ifs with h
    · have := abs_le.mp h
      nlinarith [mul_nonneg ht0 (by linarith : 0 ≤ b - a + π), pi_pos]
    · simp only [longWay, pi_eq, ofNat_zero, ofNat_two]
      split_ifs <;> nlinarith [pi_pos]
  · split_ifs with h
    · have := abs_le.mp h
      nlinarith [mul_nonneg ht0 (by linarith : 0 ≤ π - (b - a)), pi_pos]
    · simp only [longWay, pi_eq, ofNat_zero, ofNat_two]
      split_ifs <;> nlinarith [pi_pos]

/-! ### every space -/

theorem interpolateFix61_eq (sp : Space ℝ) (a b : St ℝ) (t : ℝ)
    (hwa : wellTyped sp a = true) (hwb : wellTyped sp b = true)
    (hba : inBounds sp a = true) (hbb : inBounds sp b = true) (ht0 : 0 ≤ t) (ht1 : t ≤ 1) :
    interpolateFix61 sp a b t = interpolate sp a b t := by
  induction sp generalizing a b with
  | rv lo hi =>
    obtain ⟨xs, rfl, _, _⟩ := wellTyped_rv hwa
    obtain ⟨ys, rfl, _, _⟩ := wellTyped_rv hwb
    simp only [interpolateW]
  | so2 =>
    obtain ⟨x, rfl⟩ := wellTyped_so2 hwa
    obtain ⟨y, rfl⟩ := wellTyped_so2 hwb
    simp only [inBounds, so2InB_iff] at hba hbb
    simp only [interpolateW, so2InterpFix_eq hba.1 hba.2 hbb.1 hbb.2 ht0 ht1]
  | so3 =>
    obtain ⟨x1, y1, z1, w1, rfl⟩ := wellTyped_so3 hwa
    obtain ⟨x2, y2, z2, w2, rfl⟩ := wellTyped_so3 hwb
    simp only [interpolateW]
  | time bd lo hi =>
    obtain ⟨x, rfl⟩ := wellTyped_time hwa
    obtain ⟨y, rfl⟩ := wellTyped_time hwb
    simp only [interpolateW]
  | disc lo hi =>
    obtain ⟨x, rfl⟩ := wellTyped_disc hwa
    obtain ⟨y, rfl⟩ := wellTyped_disc hwb
    simp only [interpolateW]
  | cnil =>
    rw [wellTyped_cnil hwa, wellTyped_cnil hwb]; simp only [interpolateW]
  | ccons w h tl ih1 ih2 =>
    obtain ⟨ah, at', rfl, ha1, ha2⟩ := wellTyped_ccons hwa
    obtain ⟨bh, bt, rfl, hb1, hb2⟩ := wellTyped_ccons hwb
    simp only [inBounds, Bool.and_eq_true] at hba hbb
    simp only [interpolateW, ih1 ah bh ha1 hb1 hba.1 hbb.1, ih2 at' bt ha2 hb2 hba.2 hbb.2]
  | torus R r =>
    obtain ⟨a1, a2, rfl⟩ := wellTyped_torus hwa
    obtain ⟨b1, b2, rfl⟩ := wellTyped_torus hwb
    simp only [inBounds, Bool.and_eq_true, so2InB_iff] at hba hbb
    simp only [interpolateW, so2InterpFix_eq hba.1.1 hba.1.2 hbb.1.1 hbb.1.2 ht0 ht1,
      so2InterpFix_eq hba.2.1 hba.2.2 hbb.2.1 hbb.2.2 ht0 ht1]
  | mobius imax rad =>
    obtain ⟨a1, a2, rfl⟩ := wellTyped_mobius hwa
    obtain ⟨b1, b2, rfl⟩ := wellTyped_mobius hwb
    simp only [inBounds, Bool.and_eq_true, so2InB_iff] at hba hbb
    simp only [interpolateW, mobiusInterp_congr so2InterpFix so2Interp a1 a2 b1 b2 t
      (so2InterpFix_eq hba.1.1 hba.1.2 hbb.1.1 hbb.1.2 ht0 ht1)]
  | klein =>
    obtain ⟨a1, a2, rfl⟩ := wellTyped_klein hwa
    obtain ⟨b1, b2, rfl⟩ := wellTyped_klein hwb
    simp only [inBounds, Bool.and_eq_true, so2InB_iff] at hba hbb
    simp only [interpolateW, kleinInterp_congr so2InterpFix so2Interp so2Wrap a1 a2 b1 b2 t
      (so2InterpFix_eq hba.2.1 hba.2.2 hbb.2.1 hbb.2.2 ht0 ht1)]
  | sphere r =>
    obtain ⟨a1, a2, rfl⟩ := wellTyped_sphere hwa
    obtain ⟨b1, b2, rfl⟩ := wellTyped_sphere hwb
    simp only [inBounds, Bool.and_eq_true, so2InB_iff] at hba hbb
    simp only [interpolateW, so2InterpFix_eq hba.1.1 hba.1.2 hbb.1.1 hbb.1.2 ht0 ht1]
  | wrap s ih =>
    simp only [wellTyped, inBounds] at hwa hwb hba hbb
    simp only [interpolateW]; exact ih a b hwa hwb hba hbb

/-! ### discrete: the model uses the exact integer difference -/

theorem discInterp_between (a b : Int) {t : ℝ} (ht0 : 0 ≤ t) (ht1 : t ≤ 1) :
    min a b ≤ discInterp a b t ∧ discInterp a b t ≤ max a b :=
  discInterp_inB (min_le_left a b) (le_max_left a b) (min_le_right a b) (le_max_right a b) ht0 ht1

end OmplModel.SpaceInterp
