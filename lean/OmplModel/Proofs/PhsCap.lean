import OmplModel.Proofs.PhsBridge
import OmplModel.Proofs.PhsLogic
/-!
Capstone of the informed-sampling proofs (C15) at `ℝ`: a list-level sufficient condition for the
geometric set-up (exactly what the check verifies numerically), and the end-to-end statement that a
successful direct informed sample lies in the bounds and has heuristic cost strictly below `c`.
-/
namespace OmplModel.Phs
open OmplModel
attribute [-instance] Num.instOfNat

namespace PhsCap
open PhsBridge PhsLogic
open scoped InnerProductSpace

/-- List-level sufficient condition for `Setup`: sizes, `RᵀR = I` entrywise, distinct foci, and
first column equal to the normalised focal axis. -/
theorem setup_of_lists {n : ℕ} {f1 f2 : List ℝ} {rot : List (List ℝ)}
    (h1 : f1.length = n + 1) (h2 : f2.length = n + 1) (hR : rot.length = n + 1)
    (hC : ∀ col ∈ rot, col.length = n + 1)
    (horth : ∀ i j : Fin (n + 1),
      ∑ k : Fin (n + 1), (rot.getD i []).getD k 0 * (rot.getD j []).getD k 0
        = if i = j then 1 else 0)
    (hne : vnorm (vsub f1 f2) ≠ 0)
    (hax : ∀ k : Fin (n + 1),
      (rot.getD 0 []).getD k 0 = (f2.getD k 0 - f1.getD k 0) / vnorm (vsub f1 f2)) :
    Setup n f1 f2 rot := by
  have hcm : vnorm (vsub f1 f2) = ‖toE (n + 1) f2 - toE (n + 1) f1‖ := by
    rw [vnorm_eq (vsub_length h1 h2), toE_vsub h1 h2, norm_sub_rev]
  refine ⟨h1, h2, hR, hC, ?_, ?_, ?_⟩
  · rw [orthonormal_iff_ite]
    intro i j
    show ⟪toE (n + 1) (rot.getD i []), toE (n + 1) (rot.getD j [])⟫_ℝ = _
    rw [inner_toE]
    exact horth i j
  · intro h
    apply hne
    rw [hcm, h, sub_self, norm_zero]
  · ext k
    rw [PiLp.smul_apply, PiLp.sub_apply, ← hcm, smul_eq_mul]
    show (rot.getD ((0 : Fin (n + 1)) : ℕ) []).getD k 0 = _
    rw [Fin.val_zero, hax k, toE_apply, toE_apply]
    ring

/-- all PHSs of the updated sampler have transverse diameter `c` -/
theorem all_c {n : ℕ} (s : Sampler ℝ) (c : ℝ)
    (hphs : ∀ p ∈ (s.update c).phss, ∃ id f1 f2 rot, Setup n f1 f2 rot ∧
      p = (Phs.mk' id f1 f2 rot).setC c ∧ ((Phs.mk' id f1 f2 rot).setC c).cmin < c) :
    ∀ p ∈ (s.update c).phss, p.c = c := by
  intro p hp
  obtain ⟨id, f1, f2, rot, _, rfl, _⟩ := hphs p hp
  rfl

/-- over `ℝ`: a point inside some PHS has heuristic cost (least focal sum) below `c` -/
theorem hcost_lt_real (s' : Sampler ℝ) (x : List ℝ) (c : ℝ) (hall : ∀ p ∈ s'.phss, p.c = c)
    (hany : s'.isInAny x = true) : ∃ h, s'.hcost x = some h ∧ h < c :=
  hcost_lt_of_isInAny (fun _ _ _ => lt_trans)
    (fun _ _ _ hab hac => lt_of_le_of_lt (not_lt.mp hab) hac) s' x c hall hany

/-- PHS branch: the transform of a ball point by one of the (well-formed, nondegenerate) PHSs is
inside some PHS and has heuristic cost strictly below `c`. -/
theorem direct_phs_branch_cost_below {n : ℕ} (s : Sampler ℝ) (c : ℝ)
    (hphs : ∀ p ∈ (s.update c).phss, ∃ id f1 f2 rot, Setup n f1 f2 rot ∧
      p = (Phs.mk' id f1 f2 rot).setC c ∧ ((Phs.mk' id f1 f2 rot).setC c).cmin < c)
    {x u : List ℝ} (hu : u.length = n + 1) (hsq : sumSq u < 1) {p : Phs ℝ}
    (hp : p ∈ (s.update c).phss) (ht : p.transform u = some x) :
    (s.update c).isInAny x = true ∧ ∃ h, (s.update c).hcost x = some h ∧ h < c := by
  obtain ⟨id, f1, f2, rot, hs, rfl, hc⟩ := hphs p hp
  obtain ⟨x', hx', _, hin⟩ := model_phs_interior hs id c hu hsq hc
  rw [ht] at hx'
  injection hx' with e
  subst e
  have hany : (s.update c).isInAny x = true := by
    unfold Sampler.isInAny
    exact List.any_eq_true.2 ⟨_, hp, hin⟩
  exact ⟨hany, hcost_lt_real _ x c (all_c s c hphs) hany⟩

/-- End to end over `ℝ`: a successful direct informed sample (finite bound `c`) lies in the bounds
and has heuristic cost strictly below `c`, in both branches. -/
theorem direct_success_cost_below {n : ℕ} {ρ : Type} (s : Sampler ℝ) (inB : List ℝ × ρ → Bool)
    (c : ℝ) (ds : List (Draw ℝ ρ)) (cur : List ℝ × ρ)
    (hbase : ∀ d ∈ ds, inB (d.baseInf, d.baseRest) = true)
    (hphs : ∀ p ∈ (s.update c).phss, ∃ id f1 f2 rot, Setup n f1 f2 rot ∧
      p = (Phs.mk' id f1 f2 rot).setC c ∧ ((Phs.mk' id f1 f2 rot).setC c).cmin < c)
    (hball : ∀ d ∈ ds, d.ball.length = n + 1 ∧ sumSq d.ball < 1)
    (hf : (s.sample2 inB true c ds cur).2.found = true) :
    inB (s.sample2 inB true c ds cur).2.st = true ∧
    ∃ h, (s.update c).hcost (s.sample2 inB true c ds cur).2.st.1 = some h ∧ h < c := by
  obtain ⟨hin, hok, _, _, _⟩ := sample_success_sound s inB true c ds cur hbase hf
  refine ⟨hin, ?_⟩
  cases hb : (s.update c).useBoundsBranch with
  | true =>
    obtain ⟨hany, _⟩ := (hok.2 rfl).1 hb
    exact hcost_lt_real _ _ c (all_c s c hphs) hany
  | false =>
    obtain ⟨_, _, d, hd, p, hp, ht, _, _⟩ := (hok.2 rfl).2 hb
    exact (direct_phs_branch_cost_below s c hphs (hball d hd).1 (hball d hd).2 hp ht).2

/-- The same conclusion from the re-test of the fixed loop alone: no geometric hypothesis and no
hypothesis on the ball points is needed, only that every PHS has transverse diameter `c`. -/
theorem direct_success_cost_below_retest {ρ : Type} (s : Sampler ℝ) (inB : List ℝ × ρ → Bool)
    (c : ℝ) (ds : List (Draw ℝ ρ)) (cur : List ℝ × ρ)
    (hbase : ∀ d ∈ ds, inB (d.baseInf, d.baseRest) = true)
    (hall : ∀ p ∈ (s.update c).phss, p.c = c)
    (hf : (s.sample2 inB true c ds cur).2.found = true) :
    inB (s.sample2 inB true c ds cur).2.st = true ∧
    (s.update c).isInAny (s.sample2 inB true c ds cur).2.st.1 = true ∧
    ∃ h, (s.update c).hcost (s.sample2 inB true c ds cur).2.st.1 = some h ∧ h < c := by
  obtain ⟨hin, hok, _, _, _⟩ := sample_success_sound s inB true c ds cur hbase hf
  have hany : (s.update c).isInAny (s.sample2 inB true c ds cur).2.st.1 = true := by
    cases hb : (s.update c).useBoundsBranch with
    | true => exact ((hok.2 rfl).1 hb).1
    | false => exact ((hok.2 rfl).2 hb).2.1
  exact ⟨hin, hany, hcost_lt_real _ _ c hall hany⟩

end PhsCap
end OmplModel.Phs
