import OmplModel.Model.Interleave
/-!
Generic lemmas about the interleaving semantics (`remain`, `trace`, `Complete`, `exec`) and the
counter instance.  Core Lean only.
-/
namespace OmplModel.Interleave

variable {α σ : Type}

/-! ## scheduler algebra -/

theorem remain_append (ts : List (List α)) (is js : List Nat) :
    remain ts (is ++ js) = remain (remain ts is) js := by
  induction is generalizing ts with
  | nil => rfl
  | cons i is ih =>
    simp only [List.cons_append, remain]
    split <;> exact ih _

theorem trace_append (ts : List (List α)) (is js : List Nat) :
    trace ts (is ++ js) = trace ts is ++ trace (remain ts is) js := by
  induction is generalizing ts with
  | nil => rfl
  | cons i is ih =>
    simp only [List.cons_append, remain, trace]
    split
    · simp [ih]
    · exact ih _

theorem runSteps_append (apply : α → σ → σ) (l₁ l₂ : List α) (s : σ) :
    runSteps apply (l₁ ++ l₂) s = runSteps apply l₂ (runSteps apply l₁ s) := by
  simp [runSteps, List.foldl_append]

theorem runSteps_cons (apply : α → σ → σ) (a : α) (l : List α) (s : σ) :
    runSteps apply (a :: l) s = runSteps apply l (apply a s) := rfl

theorem runSteps_nil (apply : α → σ → σ) (s : σ) : runSteps apply [] s = s := rfl

theorem exec_append (apply : α → σ → σ) (ts : List (List α)) (s : σ) (is js : List Nat) :
    exec apply ts s (is ++ js) = exec apply (remain ts is) (exec apply ts s is) js := by
  simp [exec, trace_append, runSteps_append]

theorem remain_length (ts : List (List α)) (is : List Nat) : (remain ts is).length = ts.length := by
  induction is generalizing ts with
  | nil => rfl
  | cons i is ih =>
    simp only [remain]
    split
    · rw [ih]; simp
    · exact ih _

/-- any property of stores that every single step preserves holds after every scheduler: the
interleaving quantifier is subsumed by an inductive invariant -/
theorem runSteps_preserves (apply : α → σ → σ) (P : σ → Prop) (hstep : ∀ a s, P s → P (apply a s))
    (l : List α) (s : σ) (h : P s) : P (runSteps apply l s) := by
  induction l generalizing s with
  | nil => exact h
  | cons a l ih => exact ih _ (hstep a s h)

theorem exec_preserves (apply : α → σ → σ) (P : σ → Prop) (hstep : ∀ a s, P s → P (apply a s))
    (ts : List (List α)) (is : List Nat) (s : σ) (h : P s) : P (exec apply ts s is) :=
  runSteps_preserves apply P hstep _ s h

/-! ## step counting -/

theorem totalLen_nil : totalLen ([] : List (List α)) = 0 := rfl

theorem totalLen_cons (t : List α) (ts : List (List α)) : totalLen (t :: ts) = t.length + totalLen ts := by
  simp [totalLen]

theorem totalLen_set {ts : List (List α)} {i : Nat} {a : α} {rest : List α}
    (h : ts[i]? = some (a :: rest)) : totalLen (ts.set i rest) + 1 = totalLen ts := by
  induction ts generalizing i with
  | nil => simp at h
  | cons t ts ih =>
    cases i with
    | zero =>
      simp at h
      subst h
      simp [totalLen_cons]
      omega
    | succ i =>
      simp at h
      have := ih h
      simp [totalLen_cons]
      omega

theorem totalLen_eq_zero {ts : List (List α)} : totalLen ts = 0 ↔ ∀ t ∈ ts, t = [] := by
  induction ts with
  | nil => simp [totalLen]
  | cons t ts ih =>
    rw [totalLen_cons]
    constructor
    · intro h
      have h1 : t.length = 0 := by omega
      have h2 : totalLen ts = 0 := by omega
      intro u hu
      rcases List.mem_cons.mp hu with rfl | hu
      · exact List.eq_nil_of_length_eq_zero h1
      · exact ih.mp h2 u hu
    · intro h
      have h1 : t = [] := h t (List.mem_cons_self ..)
      have h2 : totalLen ts = 0 := ih.mpr (fun u hu => h u (List.mem_cons_of_mem _ hu))
      simp [h1, h2]

theorem complete_iff {ts : List (List α)} {is : List Nat} : Complete ts is ↔ totalLen (remain ts is) = 0 :=
  totalLen_eq_zero.symm

theorem exists_nonempty_of_totalLen_pos {ts : List (List α)} (h : 0 < totalLen ts) :
    ∃ (i : Nat) (a : α) (rest : List α), ts[i]? = some (a :: rest) := by
  induction ts with
  | nil => simp [totalLen] at h
  | cons t ts ih =>
    cases t with
    | nil =>
      rw [totalLen_cons] at h
      obtain ⟨i, a, rest, hi⟩ := ih (by simpa using h)
      exact ⟨i + 1, a, rest, by simpa using hi⟩
    | cons a rest => exact ⟨0, a, rest, rfl⟩

/-- every thread family has a complete scheduler -/
theorem exists_complete (ts : List (List α)) : ∃ is, Complete ts is := by
  generalize hn : totalLen ts = n
  induction n generalizing ts with
  | zero => exact ⟨[], by simpa [Complete, remain] using totalLen_eq_zero.mp hn⟩
  | succ n ih =>
    obtain ⟨i, a, rest, hi⟩ := exists_nonempty_of_totalLen_pos (ts := ts) (by omega)
    have := totalLen_set hi
    obtain ⟨is, his⟩ := ih (ts.set i rest) (by omega)
    refine ⟨i :: is, ?_⟩
    simpa [Complete, remain, hi] using his

/-- a complete scheduler can be appended to any prefix -/
theorem exists_complete_extension (ts : List (List α)) (is : List Nat) : ∃ js, Complete ts (is ++ js) := by
  obtain ⟨js, h⟩ := exists_complete (remain ts is)
  exact ⟨js, by simpa [Complete, remain_append] using h⟩

/-! ## the trace is an interleaving of the threads -/

/-- every thread's executed part is a subsequence of the trace, and what was not executed is what
remains: program order is respected -/
theorem trace_sublist (ts : List (List α)) (is : List Nat) (j : Nat) (t : List α) (h : ts[j]? = some t) :
    ∃ pre r, t = pre ++ r ∧ (remain ts is)[j]? = some r ∧ pre.Sublist (trace ts is) := by
  induction is generalizing ts t with
  | nil => exact ⟨[], t, rfl, h, List.Sublist.refl _⟩
  | cons i is ih =>
    simp only [remain, trace]
    split
    · rename_i a rest hi
      by_cases hji : j = i
      · subst hji
        have ht : t = a :: rest := by rw [h] at hi; exact Option.some.inj hi
        have hlt : j < ts.length := by
          rcases Nat.lt_or_ge j ts.length with h' | h'
          · exact h'
          · rw [List.getElem?_eq_none h'] at h; cases h
        obtain ⟨pre, r, e, hr, hs⟩ := ih (ts.set j rest) rest (by simp [hlt])
        exact ⟨a :: pre, r, by rw [ht, e]; rfl, hr, hs.cons_cons a⟩
      · obtain ⟨pre, r, e, hr, hs⟩ := ih (ts.set i rest) t (by
          rw [List.getElem?_set_ne (Ne.symm hji)]; exact h)
        exact ⟨pre, r, e, hr, hs.cons a⟩
    · exact ih ts t h

theorem flatten_set_perm {ts : List (List α)} {i : Nat} {a : α} {rest : List α}
    (h : ts[i]? = some (a :: rest)) : (a :: (ts.set i rest).flatten).Perm ts.flatten := by
  induction ts generalizing i with
  | nil => simp at h
  | cons t ts ih =>
    cases i with
    | zero =>
      simp at h
      subst h
      simp
    | succ i =>
      simp at h
      have := ih h
      simp only [List.set_cons_succ, List.flatten_cons]
      exact (List.perm_middle.symm).trans (List.Perm.append_left t this)

/-- executed steps plus remaining steps are exactly the steps of the threads -/
theorem trace_perm (ts : List (List α)) (is : List Nat) :
    (trace ts is ++ (remain ts is).flatten).Perm ts.flatten := by
  induction is generalizing ts with
  | nil => simp [trace, remain]
  | cons i is ih =>
    simp only [remain, trace]
    split
    · rename_i a rest hi
      have := ih (ts.set i rest)
      exact (List.Perm.cons a this).trans (flatten_set_perm hi)
    · exact ih ts

theorem flatten_eq_nil_of_complete {ts : List (List α)} {is : List Nat} (hc : Complete ts is) :
    (remain ts is).flatten = [] := by
  simp only [List.flatten_eq_nil_iff]
  exact hc

theorem trace_perm_of_complete {ts : List (List α)} {is : List Nat} (hc : Complete ts is) :
    (trace ts is).Perm ts.flatten := by
  have := trace_perm ts is
  rwa [flatten_eq_nil_of_complete hc, List.append_nil] at this

theorem trace_sublist_of_complete {ts : List (List α)} {is : List Nat} (hc : Complete ts is)
    (t : List α) (ht : t ∈ ts) : t.Sublist (trace ts is) := by
  obtain ⟨j, hj, rfl⟩ := List.getElem_of_mem ht
  obtain ⟨pre, r, e, hr, hs⟩ := trace_sublist ts is j ts[j] (by simp [hj])
  have hr' : r = [] := hc r (List.mem_of_getElem? hr)
  subst hr'
  rw [e, List.append_nil]
  exact hs

/-! ## counters -/

theorem mkThreads_length (f : Nat → List α) (start n : Nat) : (mkThreads f start n).length = n := by
  induction n generalizing start with
  | zero => rfl
  | succ n ih => simp [mkThreads, ih]

theorem totalLen_mkThreads (f : Nat → List α) (k : Nat) (hf : ∀ t, (f t).length = k) (start n : Nat) :
    totalLen (mkThreads f start n) = n * k := by
  induction n generalizing start with
  | zero => simp [mkThreads, totalLen]
  | succ n ih => rw [mkThreads, totalLen_cons, ih, hf, Nat.succ_mul]; omega

theorem mem_mkThreads {f : Nat → List α} {start n : Nat} {t : List α} (h : t ∈ mkThreads f start n) :
    ∃ i, t = f i := by
  induction n generalizing start with
  | zero => simp [mkThreads] at h
  | succ n ih =>
    rcases List.mem_cons.mp h with rfl | h
    · exact ⟨start, rfl⟩
    · exact ih h

/-- all steps of a family are `inc` -/
def AllInc (ts : List (List CStep)) : Prop := ∀ t ∈ ts, ∀ a ∈ t, a = CStep.inc

theorem AllInc.set {ts : List (List CStep)} (h : AllInc ts) {i : Nat} {a : CStep} {rest : List CStep}
    (hi : ts[i]? = some (a :: rest)) : AllInc (ts.set i rest) ∧ a = .inc := by
  have hmem : (a :: rest) ∈ ts := List.mem_of_getElem? hi
  refine ⟨?_, h _ hmem a (List.mem_cons_self ..)⟩
  intro t ht b hb
  rcases List.mem_or_eq_of_mem_set ht with ht | rfl
  · exact h t ht b hb
  · exact h _ hmem b (List.mem_cons_of_mem _ hb)

/-- atomic increments: executed + pending is constant along every scheduler -/
theorem allInc_count (ts : List (List CStep)) (h : AllInc ts) (s : CStore) (is : List Nat) :
    (exec CStep.apply ts s is).c + totalLen (remain ts is) = s.c + totalLen ts := by
  induction is generalizing ts s with
  | nil => rfl
  | cons i is ih =>
    simp only [exec, remain, trace] at *
    split
    · rename_i a rest hi
      obtain ⟨h', ha⟩ := h.set hi
      subst ha
      have := ih (ts.set i rest) h' (CStep.apply .inc s)
      have hl := totalLen_set hi
      rw [runSteps_cons]
      simp only [CStep.apply] at this ⊢
      omega
    · exact ih ts h s

theorem counterThread_allInc (k : Kind) (hk : k ≠ .plain) (t m : Nat) : ∀ a ∈ counterThread k t m, a = CStep.inc := by
  intro a ha
  simp only [counterThread, List.mem_flatten, List.mem_replicate] at ha
  obtain ⟨l, ⟨_, rfl⟩, hal⟩ := ha
  cases k <;> simp_all [incr]

theorem counterThread_length (k : Kind) (hk : k ≠ .plain) (t m : Nat) : (counterThread k t m).length = m := by
  cases k <;> simp_all [counterThread, incr]

theorem counterThreads_allInc (k : Kind) (hk : k ≠ .plain) (N m : Nat) : AllInc (counterThreads k N m) := by
  intro t ht a ha
  obtain ⟨i, rfl⟩ := mem_mkThreads ht
  exact counterThread_allInc k hk i m a ha

/-! ### plain counters: the deficit invariant -/

theorem storesLeft_cons (t : List CStep) (ts : List (List CStep)) :
    storesLeft (t :: ts) = (t.filter CStep.isStore).length + storesLeft ts := by
  simp [storesLeft]

theorem storesLeft_set {ts : List (List CStep)} {i : Nat} {a : CStep} {rest : List CStep}
    (h : ts[i]? = some (a :: rest)) :
    storesLeft (ts.set i rest) + (if a.isStore then 1 else 0) = storesLeft ts := by
  induction ts generalizing i with
  | nil => simp at h
  | cons t ts ih =>
    cases i with
    | zero =>
      simp at h
      subst h
      simp only [List.set_cons_zero, storesLeft_cons, List.filter_cons]
      split <;> simp <;> omega
    | succ i =>
      simp at h
      have := ih h
      simp only [List.set_cons_succ, storesLeft_cons]
      omega

theorem storesLeft_eq_zero_of_complete {ts : List (List CStep)} {is : List Nat} (hc : Complete ts is) :
    storesLeft (remain ts is) = 0 := by
  unfold Complete at hc
  generalize remain ts is = r at hc
  induction r with
  | nil => rfl
  | cons t r ih =>
    rw [storesLeft_cons, ih (fun u hu => hc u (List.mem_cons_of_mem _ hu)), hc t (List.mem_cons_self ..)]
    rfl

/-- `d` updates are already lost and can never be recovered: counter and every register stay at least
`d` below the number of stores executed (`K` minus the stores still pending) -/
def Deficit (d K : Nat) (ts : List (List CStep)) (s : CStore) : Prop :=
  s.c + d + storesLeft ts ≤ K ∧ ∀ t, s.reg t + d + storesLeft ts ≤ K

theorem deficit_exec (d K : Nat) (ts : List (List CStep)) (s : CStore) (is : List Nat)
    (h : Deficit d K ts s) : Deficit d K (remain ts is) (exec CStep.apply ts s is) := by
  induction is generalizing ts s with
  | nil => exact h
  | cons i is ih =>
    simp only [exec, remain, trace] at *
    split
    · rename_i a rest hi
      rw [runSteps_cons]
      apply ih
      have hl := storesLeft_set hi
      obtain ⟨h1, h2⟩ := h
      cases a with
      | inc =>
        simp only [CStep.isStore, if_true] at hl
        refine ⟨by simp only [CStep.apply]; omega, fun t => ?_⟩
        have := h2 t
        simp only [CStep.apply]; omega
      | read u =>
        simp only [CStep.isStore] at hl
        refine ⟨by simp only [CStep.apply]; simp at hl; omega, fun t => ?_⟩
        have := h2 t
        simp only [CStep.apply]
        simp at hl
        split <;> omega
      | write u =>
        simp only [CStep.isStore, if_true] at hl
        have hu := h2 u
        refine ⟨by simp only [CStep.apply]; omega, fun t => ?_⟩
        have := h2 t
        simp only [CStep.apply]; omega
    · exact ih ts s h

theorem plainThread_stores (t m : Nat) : ((counterThread .plain t m).filter CStep.isStore).length = m := by
  induction m with
  | zero => rfl
  | succ m ih =>
    simp only [counterThread, List.replicate_succ, List.flatten_cons, incr] at ih ⊢
    simp [List.filter_cons, CStep.isStore]

theorem storesLeft_mkThreads (f : Nat → List CStep) (k : Nat) (hf : ∀ t, ((f t).filter CStep.isStore).length = k)
    (start n : Nat) : storesLeft (mkThreads f start n) = n * k := by
  induction n generalizing start with
  | zero => simp [mkThreads, storesLeft]
  | succ n ih => rw [mkThreads, storesLeft_cons, ih, hf, Nat.succ_mul]; omega

theorem storesLeft_plain (N m : Nat) : storesLeft (counterThreads .plain N m) = N * m :=
  storesLeft_mkThreads _ m (fun t => plainThread_stores t m) 0 N

end OmplModel.Interleave
