import OmplModel.Proofs.RRTstar
import Mathlib.Data.List.Nodup
import Mathlib.Data.List.Perm.Subperm
/-! The tree / cost invariant of the RRT* model and its preservation (C04, round 4). -/
namespace OmplModel.RRTstar
open OmplModel.Soln (IsSWO)

variable {σ α δ : Type}

abbrev Ms (σ α : Type) := Array (Motion σ α)

/-- `p` is the parent of `i`. -/
def Par (ms : Ms σ α) (i p : Nat) : Prop := ∃ m, ms[i]? = some m ∧ m.parent = some p

def IsRoot (ms : Ms σ α) (i : Nat) : Prop := ∃ m, ms[i]? = some m ∧ m.parent = none

theorem par_unique {ms : Ms σ α} {i p p' : Nat} (h : Par ms i p) (h' : Par ms i p') : p = p' := by
  obtain ⟨m, hm, hp⟩ := h
  obtain ⟨m', hm', hp'⟩ := h'
  rw [hm] at hm'
  cases hm'
  rw [hp] at hp'
  exact Option.some.inj hp'

/-- a forest: parents in range, an exact depth function (hence acyclic), children lists are exactly the
inverse of the parent pointers and have no duplicates. -/
structure Forest (ms : Ms σ α) (depth : Nat → Nat) : Prop where
  par_lt : ∀ (i p : Nat), Par ms i p → p < ms.size
  root_depth : ∀ (i : Nat), IsRoot ms i → depth i = 0
  step_depth : ∀ (i p : Nat), Par ms i p → depth i = depth p + 1
  ch_iff : ∀ (p : Nat) (pm : Motion σ α) (c : Nat), ms[p]? = some pm → (c ∈ pm.children ↔ Par ms c p)
  ch_nodup : ∀ (p : Nat) (pm : Motion σ α), ms[p]? = some pm → pm.children.Nodup

theorem get_of_lt {ms : Ms σ α} {i : Nat} (h : i < ms.size) : ∃ m, ms[i]? = some m :=
  ⟨ms[i], by simp [h]⟩

theorem lt_of_get {ms : Ms σ α} {i : Nat} {m : Motion σ α} (h : ms[i]? = some m) : i < ms.size := by
  by_contra hc
  rw [Array.getElem?_eq_none (by omega)] at h
  cases h

/-- pigeonhole: an exact depth function on `n` nodes stays below `n` — every parent chain reaches a
start within `n` steps. -/
theorem Forest.depth_lt {ms : Ms σ α} {depth : Nat → Nat} (F : Forest ms depth) :
    ∀ i, i < ms.size → depth i < ms.size := by
  have key : ∀ d i, i < ms.size → depth i = d →
      ∃ l : List Nat, l.length = d + 1 ∧ l.Nodup ∧ ∀ x ∈ l, x < ms.size ∧ depth x ≤ d := by
    intro d
    induction d with
    | zero => intro i hi _; exact ⟨[i], rfl, by simp, by intro x hx; simp at hx; subst hx; exact ⟨hi, by omega⟩⟩
    | succ d ih =>
      intro i hi hd
      obtain ⟨m, hm⟩ := get_of_lt hi
      cases hp : m.parent with
      | none =>
        have := F.root_depth i ⟨m, hm, hp⟩
        omega
      | some p =>
        have hpar : Par ms i p := ⟨m, hm, hp⟩
        have hs := F.step_depth i p hpar
        obtain ⟨l, hl, hn, hall⟩ := ih p (F.par_lt i p hpar) (by omega)
        refine ⟨i :: l, by simp [hl], ?_, ?_⟩
        · refine List.nodup_cons.mpr ⟨?_, hn⟩
          intro hmem
          have := (hall i hmem).2
          omega
        · intro x hx
          rcases List.mem_cons.mp hx with rfl | hx
          · exact ⟨hi, by omega⟩
          · exact ⟨(hall x hx).1, by have := (hall x hx).2; omega⟩
  intro i hi
  obtain ⟨l, hl, hn, hall⟩ := key (depth i) i hi rfl
  have hsub : l ⊆ List.range ms.size := fun x hx => List.mem_range.mpr (hall x hx).1
  have := (List.subperm_of_subset hn hsub).length_le
  simp at this
  omega

/-! ### the cost clauses -/

def Clause (o : Obj σ α) (ms : Ms σ α) (i : Nat) : Prop :=
  ∀ (m : Motion σ α) (p : Nat), ms[i]? = some m → m.parent = some p →
    ∃ pm : Motion σ α, ms[p]? = some pm ∧ m.cost = o.combine pm.cost m.incCost

def RootClause (o : Obj σ α) (ms : Ms σ α) : Prop :=
  ∀ (i : Nat) (m : Motion σ α), ms[i]? = some m → m.parent = none → m.cost = o.identity

def IncClause (o : Obj σ α) (ms : Ms σ α) : Prop :=
  ∀ (i : Nat) (m : Motion σ α) (p : Nat) (pm : Motion σ α), ms[i]? = some m → m.parent = some p → ms[p]? = some pm →
    m.incCost = o.motionCost pm.state m.state

/-- the invariant of the motion array. -/
def TreeInv (o : Obj σ α) (ms : Ms σ α) : Prop :=
  ∃ depth, Forest ms depth ∧ (∀ i : Nat, Clause o ms i) ∧ RootClause o ms ∧ IncClause o ms

/-- everything but the cost (and the goal flag). -/
def strip (m : Motion σ α) : σ × Option Nat × α × List Nat := (m.state, m.parent, m.incCost, m.children)

/-- same tree, possibly other costs. -/
def SameShape (ms ms' : Ms σ α) : Prop :=
  ms'.size = ms.size ∧ ∀ i : Nat, (ms'[i]?).map strip = (ms[i]?).map strip

theorem SameShape.refl (ms : Ms σ α) : SameShape ms ms := ⟨rfl, fun _ => rfl⟩

theorem SameShape.trans {a b c : Ms σ α} (h1 : SameShape a b) (h2 : SameShape b c) : SameShape a c :=
  ⟨h2.1.trans h1.1, fun i => (h2.2 i).trans (h1.2 i)⟩

theorem SameShape.get {ms ms' : Ms σ α} (h : SameShape ms ms') {i : Nat} {m' : Motion σ α} (hm : ms'[i]? = some m') :
    ∃ m, ms[i]? = some m ∧ strip m = strip m' := by
  have := h.2 i
  rw [hm] at this
  cases hq : ms[i]? with
  | none => rw [hq] at this; simp at this
  | some m => rw [hq] at this; simp at this; exact ⟨m, rfl, this.symm⟩

theorem SameShape.symm {ms ms' : Ms σ α} (h : SameShape ms ms') : SameShape ms' ms :=
  ⟨h.1.symm, fun i => (h.2 i).symm⟩

theorem strip_parent {m m' : Motion σ α} (h : strip m = strip m') : m.parent = m'.parent := by
  simp only [strip, Prod.mk.injEq] at h; exact h.2.1
theorem strip_children {m m' : Motion σ α} (h : strip m = strip m') : m.children = m'.children := by
  simp only [strip, Prod.mk.injEq] at h; exact h.2.2.2
theorem strip_inc {m m' : Motion σ α} (h : strip m = strip m') : m.incCost = m'.incCost := by
  simp only [strip, Prod.mk.injEq] at h; exact h.2.2.1
theorem strip_state {m m' : Motion σ α} (h : strip m = strip m') : m.state = m'.state := by
  simp only [strip, Prod.mk.injEq] at h; exact h.1

theorem SameShape.par {ms ms' : Ms σ α} (h : SameShape ms ms') {i p : Nat} : Par ms' i p ↔ Par ms i p := by
  constructor
  · rintro ⟨m', hm', hp⟩
    obtain ⟨m, hm, hs⟩ := h.get hm'
    exact ⟨m, hm, (strip_parent hs).trans hp⟩
  · rintro ⟨m, hm, hp⟩
    obtain ⟨m', hm', hs⟩ := h.symm.get hm
    exact ⟨m', hm', (strip_parent hs).trans hp⟩

theorem SameShape.root {ms ms' : Ms σ α} (h : SameShape ms ms') {i : Nat} : IsRoot ms' i ↔ IsRoot ms i := by
  constructor
  · rintro ⟨m', hm', hp⟩
    obtain ⟨m, hm, hs⟩ := h.get hm'
    exact ⟨m, hm, (strip_parent hs).trans hp⟩
  · rintro ⟨m, hm, hp⟩
    obtain ⟨m', hm', hs⟩ := h.symm.get hm
    exact ⟨m', hm', (strip_parent hs).trans hp⟩

theorem Forest.of_sameShape {ms ms' : Ms σ α} {depth : Nat → Nat} (F : Forest ms depth) (h : SameShape ms ms') :
    Forest ms' depth where
  par_lt i p hp := by rw [h.1]; exact F.par_lt i p (h.par.mp hp)
  root_depth i hr := F.root_depth i (h.root.mp hr)
  step_depth i p hp := F.step_depth i p (h.par.mp hp)
  ch_iff p pm' c hpm := by
    obtain ⟨pm, hpm0, hs⟩ := h.get hpm
    rw [← strip_children hs, h.par]
    exact F.ch_iff p pm c hpm0
  ch_nodup p pm' hpm := by
    obtain ⟨pm, hpm0, hs⟩ := h.get hpm
    rw [← strip_children hs]
    exact F.ch_nodup p pm hpm0

theorem IncClause.of_sameShape {o : Obj σ α} {ms ms' : Ms σ α} (hI : IncClause o ms) (h : SameShape ms ms') :
    IncClause o ms' := by
  intro i m' p pm' hm' hp hpm'
  obtain ⟨m, hm, hs⟩ := h.get hm'
  obtain ⟨pm, hpm, hps⟩ := h.get hpm'
  rw [← strip_inc hs, ← strip_state hs, ← strip_state hps]
  exact hI i m p pm hm ((strip_parent hs).trans hp) hpm

/-! ### `updateChildCosts` restores the cost clause below the node -/

theorem set_cost_get (ms : Ms σ α) (c : Nat) (cm : Motion σ α) (hc : ms[c]? = some cm) (v : α) (i : Nat) :
    (ms.set! c { cm with cost := v })[i]? = if c = i then some { cm with cost := v } else ms[i]? := by
  rw [Array.set!_eq_setIfInBounds, Array.getElem?_setIfInBounds]
  split
  · simp [lt_of_get hc]
  · rfl

theorem set_cost_sameShape (ms : Ms σ α) (c : Nat) (cm : Motion σ α) (hc : ms[c]? = some cm) (v : α) :
    SameShape ms (ms.set! c { cm with cost := v }) := by
  refine ⟨by simp [Array.set!_eq_setIfInBounds], fun i => ?_⟩
  rw [set_cost_get ms c cm hc v i]
  split
  · rename_i h; subst h; rw [hc]; rfl
  · rfl

/-- what a call `updateChildCosts fuel ms x` achieves, given that the only motions whose cost clause may be
broken are the children of `x` and a set `S` of motions no deeper than `x`. -/
def UCPost (o : Obj σ α) (depth : Nat → Nat) (S : Nat → Prop) (ms : Ms σ α) (x : Nat) (r : Ms σ α × Bool) : Prop :=
  SameShape ms r.1 ∧ r.2 = false ∧ (∀ i : Nat, depth i ≤ depth x → r.1[i]? = ms[i]?) ∧
    (∀ i : Nat, Clause o r.1 i ∨ S i)

theorem uc (o : Obj σ α) (depth : Nat → Nat) : ∀ (fuel : Nat) (ms : Ms σ α) (x : Nat) (S : Nat → Prop),
    Forest ms depth → x < ms.size → ms.size ≤ fuel + depth x + 1 →
    (∀ i : Nat, Clause o ms i ∨ S i ∨ Par ms i x) → (∀ s : Nat, S s → depth s ≤ depth x) →
    UCPost o depth S ms x (updateChildCosts o fuel ms x) := by
  intro fuel
  induction fuel with
  | zero =>
    intro ms x S F hx hsz hpre _
    obtain ⟨mm, hmm⟩ := get_of_lt hx
    have nochild : ∀ i : Nat, ¬ Par ms i x := by
      intro i hp
      obtain ⟨m, hm, _⟩ := hp
      have h1 := F.depth_lt i (lt_of_get hm)
      have h2 := F.step_depth i x ⟨m, hm, ‹_›⟩
      omega
    have hch : mm.children = [] := by
      cases hc : mm.children with
      | nil => rfl
      | cons c rest => exact absurd ((F.ch_iff x mm c hmm).mp (by simp [hc])) (nochild c)
    unfold updateChildCosts
    rw [hmm]
    simp only [hch, List.isEmpty_nil, Bool.not_true]
    refine ⟨SameShape.refl _, rfl, fun _ _ => rfl, fun i => ?_⟩
    rcases hpre i with h | h | h
    · exact Or.inl h
    · exact Or.inr h
    · exact absurd h (nochild i)
  | succ f ih =>
    intro ms x S F hx hsz hpre hS
    obtain ⟨mm, hmm⟩ := get_of_lt hx
    have fold : ∀ (cs : List Nat) (acc : Ms σ α × Bool), SameShape ms acc.1 → acc.2 = false →
        (∀ i : Nat, depth i ≤ depth x → acc.1[i]? = ms[i]?) →
        (∀ i : Nat, Clause o acc.1 i ∨ S i ∨ (Par ms i x ∧ i ∈ cs)) → (∀ c ∈ cs, Par ms c x) →
        UCPost o depth S ms x (cs.foldl (childStep o (updateChildCosts o f) x) acc) := by
      intro cs
      induction cs with
      | nil =>
        intro acc hsh hfl hun hcl _
        refine ⟨hsh, hfl, hun, fun i => ?_⟩
        rcases hcl i with h | h | h
        · exact Or.inl h
        · exact Or.inr h
        · simp at h
      | cons c rest ihl =>
        intro acc hsh hfl hun hcl hpar
        simp only [List.foldl_cons]
        have hcx : Par ms c x := hpar c (by simp)
        have hdc : depth c = depth x + 1 := F.step_depth c x hcx
        have Facc : Forest acc.1 depth := F.of_sameShape hsh
        -- the records of x and c in the accumulator
        have hxacc : acc.1[x]? = some mm := by rw [hun x (le_refl _)]; exact hmm
        obtain ⟨cm, hcm, hcmp⟩ := (hsh.par (i := c) (p := x)).mpr hcx
        have hstep : childStep o (updateChildCosts o f) x acc c =
            ((updateChildCosts o f (acc.1.set! c { cm with cost := o.combine mm.cost cm.incCost }) c).1,
             acc.2 || (updateChildCosts o f (acc.1.set! c { cm with cost := o.combine mm.cost cm.incCost }) c).2) := by
          unfold childStep
          rw [hxacc, hcm]
        rw [hstep]
        -- the array after setting c's cost
        have hsh1 : SameShape acc.1 (acc.1.set! c { cm with cost := o.combine mm.cost cm.incCost }) :=
          set_cost_sameShape acc.1 c cm hcm _
        have hget1 := set_cost_get acc.1 c cm hcm (o.combine mm.cost cm.incCost)
        generalize hms1 : acc.1.set! c { cm with cost := o.combine mm.cost cm.incCost } = ms1 at hsh1 hget1 ⊢
        have F1 : Forest ms1 depth := Facc.of_sameShape hsh1
        have hxc : x ≠ c := by intro h; rw [h] at hdc; omega
        -- clause status in ms1
        have hcl1 : ∀ i : Nat, Clause o ms1 i ∨ (S i ∨ (Par ms i x ∧ i ∈ rest)) ∨ Par ms1 i c := by
          intro i
          by_cases hic : i = c
          · -- c itself now obeys the clause
            left
            subst hic
            intro m p hm hp
            rw [hget1] at hm
            simp only [if_true, Option.some.injEq] at hm
            subst hm
            simp only [] at hp ⊢
            have : p = x := Option.some.inj (hp.symm.trans hcmp)
            subst this
            refine ⟨mm, ?_, rfl⟩
            rw [hget1, if_neg (Ne.symm hxc)]
            exact hxacc
          · by_cases hpc : Par ms1 i c
            · exact Or.inr (Or.inr hpc)
            · rcases hcl i with h | h | h
              · -- unchanged record with unchanged parent record
                left
                intro m p hm hp
                rw [hget1, if_neg (Ne.symm hic)] at hm
                obtain ⟨pm, hpm, hcost⟩ := h m p hm hp
                have hpne : p ≠ c := by
                  intro hpeq
                  apply hpc
                  refine ⟨m, ?_, hpeq ▸ hp⟩
                  rw [hget1, if_neg (Ne.symm hic)]
                  exact hm
                exact ⟨pm, by rw [hget1, if_neg (Ne.symm hpne)]; exact hpm, hcost⟩
              · exact Or.inr (Or.inl (Or.inl h))
              · rcases List.mem_cons.mp h.2 with h2 | h2
                · exact absurd h2 hic
                · exact Or.inr (Or.inl (Or.inr ⟨h.1, h2⟩))
        have hS1 : ∀ s : Nat, (S s ∨ (Par ms s x ∧ s ∈ rest)) → depth s ≤ depth c := by
          intro s hs
          rcases hs with hs | hs
          · have := hS s hs; omega
          · have := F.step_depth s x hs.1; omega
        have hclt : c < ms1.size := by rw [hsh1.1]; exact lt_of_get hcm
        have hsz1 : ms1.size ≤ f + depth c + 1 := by rw [hsh1.1, hsh.1]; omega
        obtain ⟨p1, p2, p3, p4⟩ := ih ms1 c (fun s => S s ∨ (Par ms s x ∧ s ∈ rest)) F1 hclt hsz1 hcl1 hS1
        -- back to the fold invariant
        apply ihl
        · exact (hsh.trans hsh1).trans p1
        · simp [hfl, p2]
        · intro i hi
          rw [p3 i (by omega), hget1, if_neg (by intro h; rw [← h] at hi; omega)]
          exact hun i hi
        · intro i
          rcases p4 i with h | h | h
          · exact Or.inl h
          · exact Or.inr (Or.inl h)
          · exact Or.inr (Or.inr h)
        · intro c' hc'
          exact hpar c' (by simp [hc'])
    unfold updateChildCosts
    rw [hmm]
    simp only []
    refine fold mm.children (ms, false) (SameShape.refl _) rfl (fun _ _ => rfl) ?_ (fun c hc => (F.ch_iff x mm c hmm).mp hc)
    intro i
    rcases hpre i with h | h | h
    · exact Or.inl h
    · exact Or.inr (Or.inl h)
    · exact Or.inr (Or.inr ⟨h, (F.ch_iff x mm i hmm).mpr h⟩)

/-! ### ancestors -/

/-- `Anc ms a d`: `a` is `d` or an ancestor of `d`. -/
inductive Anc (ms : Ms σ α) (a : Nat) : Nat → Prop where
  | refl : Anc ms a a
  | step {d p : Nat} : Par ms d p → Anc ms a p → Anc ms a d

theorem Anc.depth_le {ms : Ms σ α} {depth : Nat → Nat} (F : Forest ms depth) {a d : Nat} (h : Anc ms a d) :
    depth a ≤ depth d := by
  induction h with
  | refl => exact le_refl _
  | step hp _ ih => have := F.step_depth _ _ hp; omega

theorem Anc.inv {ms : Ms σ α} {a d : Nat} (h : Anc ms a d) : d = a ∨ ∃ p, Par ms d p ∧ Anc ms a p := by
  cases h with
  | refl => exact Or.inl rfl
  | step hp ha => exact Or.inr ⟨_, hp, ha⟩

/-- along an ancestor chain the descendant's cost is the ancestor's cost extended by motion costs. -/
theorem Anc.desc {o : Obj σ α} {ms : Ms σ α} (hC : ∀ i : Nat, Clause o ms i) (hI : IncClause o ms) {a d : Nat}
    (h : Anc ms a d) : ∀ (am dm : Motion σ α), ms[a]? = some am → ms[d]? = some dm → Desc o am.cost dm.cost := by
  induction h with
  | refl => intro am dm ha hd; rw [ha] at hd; cases hd; exact Desc.refl _
  | @step d p hp _ ih =>
    intro am dm ha hd
    obtain ⟨m, hm, hpp⟩ := hp
    rw [hd] at hm
    cases hm
    obtain ⟨pm, hpm, hcost⟩ := hC d dm p hd hpp
    rw [hcost, hI d dm p pm hd hpp hpm]
    exact Desc.step _ _ (ih am pm ha hpm)

/-- every motion's cost is the identity cost extended by motion costs. -/
theorem desc_identity {o : Obj σ α} {ms : Ms σ α} {depth : Nat → Nat} (F : Forest ms depth)
    (hC : ∀ i : Nat, Clause o ms i) (hR : RootClause o ms) (hI : IncClause o ms) :
    ∀ (n i : Nat) (m : Motion σ α), depth i = n → ms[i]? = some m → Desc o o.identity m.cost := by
  intro n
  induction n with
  | zero =>
    intro i m hd hm
    cases hp : m.parent with
    | none => rw [hR i m hm hp]; exact Desc.refl _
    | some p => have := F.step_depth i p ⟨m, hm, hp⟩; omega
  | succ n ih =>
    intro i m hd hm
    cases hp : m.parent with
    | none => rw [hR i m hm hp]; exact Desc.refl _
    | some p =>
      have hs := F.step_depth i p ⟨m, hm, hp⟩
      obtain ⟨pm, hpm, hcost⟩ := hC i m p hm hp
      rw [hcost, hI i m p pm hm hp hpm]
      exact Desc.step _ _ (ih p pm (by omega) hpm)

/-! ### one rewiring step keeps the invariant -/

/-- the three `modify` of a rewiring (`removeFromParent`, new parent/incCost/cost, `push_back` to the new parent's
children), described entry by entry. -/
def rewired (q x new : Nat) (inc cost : α) (i : Nat) (m : Motion σ α) : Motion σ α :=
  { state := m.state,
    parent := if x = i then some new else m.parent,
    cost := if x = i then cost else m.cost,
    incCost := if x = i then inc else m.incCost,
    children := if new = i then (if q = i then m.children.erase x else m.children) ++ [x]
                else (if q = i then m.children.erase x else m.children),
    inGoal := m.inGoal }

theorem rewire_get (ms : Ms σ α) (q x new : Nat) (inc cost : α) (xm : Motion σ α) (hx : ms[x]? = some xm)
    (hq : xm.parent = some q) (i : Nat) :
    (((removeFromParent ms x).modify x (fun m => { m with parent := some new, incCost := inc, cost := cost })).modify new
        (fun m => { m with children := m.children ++ [x] }))[i]? = (ms[i]?).map (rewired q x new inc cost i) := by
  unfold removeFromParent
  rw [hx]
  simp only [hq]
  rw [Array.getElem?_modify, Array.getElem?_modify, Array.getElem?_modify]
  cases hm : ms[i]? with
  | none => simp
  | some m =>
    by_cases h1 : new = i <;> by_cases h2 : x = i <;> by_cases h3 : q = i <;> simp [h1, h2, h3, rewired]

section Rewire
open Classical

variable {o : Obj σ α} {ms ms3 : Ms σ α} {depth : Nat → Nat} {q x new : Nat} {inc cost : α} {xm nm : Motion σ α}

theorem rewired_fwd (hget : ∀ i : Nat, ms3[i]? = (ms[i]?).map (rewired q x new inc cost i)) {i : Nat} {m3 : Motion σ α}
    (h : ms3[i]? = some m3) : ∃ m, ms[i]? = some m ∧ m3 = rewired q x new inc cost i m := by
  rw [hget i] at h
  cases hm : ms[i]? with
  | none => rw [hm] at h; cases h
  | some m => rw [hm] at h; exact ⟨m, rfl, (Option.some.inj h).symm⟩

theorem rewired_bwd (hget : ∀ i : Nat, ms3[i]? = (ms[i]?).map (rewired q x new inc cost i)) {i : Nat} {m : Motion σ α}
    (h : ms[i]? = some m) : ms3[i]? = some (rewired q x new inc cost i m) := by
  rw [hget i, h]; rfl

theorem rewired_par (hget : ∀ i : Nat, ms3[i]? = (ms[i]?).map (rewired q x new inc cost i)) (hx : ms[x]? = some xm)
    (i p : Nat) : Par ms3 i p ↔ (i = x ∧ p = new) ∨ (i ≠ x ∧ Par ms i p) := by
  constructor
  · rintro ⟨m3, hm3, hp⟩
    obtain ⟨m, hm, rfl⟩ := rewired_fwd hget hm3
    by_cases hxi : x = i
    · left
      simp only [rewired, hxi, if_true] at hp
      exact ⟨hxi.symm, (Option.some.inj hp).symm⟩
    · right
      simp only [rewired, hxi, if_false] at hp
      exact ⟨fun h => hxi h.symm, m, hm, hp⟩
  · rintro (⟨rfl, rfl⟩ | ⟨hne, m, hm, hp⟩)
    · exact ⟨_, rewired_bwd hget hx, by simp [rewired]⟩
    · refine ⟨_, rewired_bwd hget hm, ?_⟩
      simp only [rewired, if_neg (fun h : x = i => hne h.symm)]
      exact hp

/-- after the three `modify` of a rewiring the array is again a forest, and the cost clause can only be broken at
the children of the re-parented motion. -/
theorem rewire_forest (F : Forest ms depth) (hC : ∀ i : Nat, Clause o ms i) (hR : RootClause o ms) (hI : IncClause o ms)
    (hget : ∀ i : Nat, ms3[i]? = (ms[i]?).map (rewired q x new inc cost i)) (hsize : ms3.size = ms.size)
    (hx : ms[x]? = some xm) (hq : xm.parent = some q) (hn : ms[new]? = some nm) (hxn : x ≠ new)
    (hna : ¬ Anc ms x new) (hcost : cost = o.combine nm.cost inc) (hinc : inc = o.motionCost nm.state xm.state) :
    ∃ depth', Forest ms3 depth' ∧ (∀ i : Nat, Clause o ms3 i ∨ Par ms3 i x) ∧ RootClause o ms3 ∧ IncClause o ms3 := by
  have hpar := rewired_par (new := new) (inc := inc) (cost := cost) (q := q) hget hx
  have hxq : Par ms x q := ⟨xm, hx, hq⟩
  refine ⟨fun d => if Anc ms x d then depth d + (depth new + 1) - depth x else depth d, ?_, ?_, ?_, ?_⟩
  · -- the forest
    constructor
    · -- par_lt
      intro i p hp
      rw [hsize]
      rcases (hpar i p).mp hp with ⟨_, rfl⟩ | ⟨_, hp'⟩
      · exact lt_of_get hn
      · exact F.par_lt i p hp'
    · -- root_depth
      rintro i ⟨m3, hm3, hp⟩
      obtain ⟨m, hm, rfl⟩ := rewired_fwd hget hm3
      have hxi : x ≠ i := by
        intro h; simp [rewired, h] at hp
      simp only [rewired, if_neg hxi] at hp
      have hroot : IsRoot ms i := ⟨m, hm, hp⟩
      have hnot : ¬ Anc ms x i := by
        intro ha
        rcases ha.inv with h | ⟨p, ⟨m', hm', hp'⟩, _⟩
        · exact hxi h.symm
        · rw [hm] at hm'; cases hm'; rw [hp] at hp'; cases hp'
      simp only [if_neg hnot]
      exact F.root_depth i hroot
    · -- step_depth
      intro i p hp
      rcases (hpar i p).mp hp with ⟨rfl, rfl⟩ | ⟨hne, hp'⟩
      · simp only [if_pos (Anc.refl : Anc ms i i), if_neg hna]
        omega
      · have hs := F.step_depth i p hp'
        by_cases hA : Anc ms x i
        · have hAp : Anc ms x p := by
            rcases hA.inv with h | ⟨p', hp'', ha⟩
            · exact absurd h hne
            · rw [par_unique hp' hp'']; exact ha
          have := hAp.depth_le F
          simp only [if_pos hA, if_pos hAp]
          omega
        · have hAp : ¬ Anc ms x p := fun h => hA (Anc.step hp' h)
          simp only [if_neg hA, if_neg hAp]
          exact hs
    · -- ch_iff
      intro p pm3 c hpm3
      obtain ⟨pm, hpm, rfl⟩ := rewired_fwd hget hpm3
      have hold := F.ch_iff p pm
      have hnd := F.ch_nodup p pm hpm
      have hbase : ∀ c : Nat, c ∈ (if q = p then pm.children.erase x else pm.children) ↔ (c ∈ pm.children ∧ ¬ (q = p ∧ c = x)) := by
        intro c
        by_cases hqp : q = p
        · simp only [if_pos hqp, hnd.mem_erase_iff]
          constructor
          · rintro ⟨h1, h2⟩; exact ⟨h2, fun h => h1 h.2⟩
          · rintro ⟨h1, h2⟩; exact ⟨fun h => h2 ⟨hqp, h⟩, h1⟩
        · simp only [if_neg hqp]
          constructor
          · intro h; exact ⟨h, fun h' => hqp h'.1⟩
          · intro h; exact h.1
      have hxbase : ¬ x ∈ (if q = p then pm.children.erase x else pm.children) := by
        rw [hbase]
        rintro ⟨h1, h2⟩
        have : p = q := par_unique ((hold x hpm).mp h1) hxq
        exact h2 ⟨this.symm, rfl⟩
      have hmem : c ∈ (rewired q x new inc cost p pm).children ↔
          (c ∈ (if q = p then pm.children.erase x else pm.children) ∨ (new = p ∧ c = x)) := by
        by_cases hnp : new = p
        · simp [rewired, hnp]
        · simp [rewired, hnp]
      rw [hmem, hpar c p]
      by_cases hcx : c = x
      · subst hcx
        constructor
        · rintro (h | ⟨h, _⟩)
          · exact absurd h hxbase
          · exact Or.inl ⟨rfl, h.symm⟩
        · rintro (⟨_, h⟩ | ⟨h, _⟩)
          · exact Or.inr ⟨h.symm, rfl⟩
          · exact absurd rfl h
      · rw [hbase]
        constructor
        · rintro (⟨h1, _⟩ | ⟨_, h⟩)
          · exact Or.inr ⟨hcx, (hold c hpm).mp h1⟩
          · exact absurd h hcx
        · rintro (⟨h, _⟩ | ⟨_, h⟩)
          · exact absurd h hcx
          · exact Or.inl ⟨(hold c hpm).mpr h, fun h' => hcx h'.2⟩
    · -- ch_nodup
      intro p pm3 hpm3
      obtain ⟨pm, hpm, rfl⟩ := rewired_fwd hget hpm3
      have hnd := F.ch_nodup p pm hpm
      have hbnd : (if q = p then pm.children.erase x else pm.children).Nodup := by
        split
        · exact hnd.erase x
        · exact hnd
      have hxbase : ¬ x ∈ (if q = p then pm.children.erase x else pm.children) := by
        by_cases hqp : q = p
        · simp only [if_pos hqp, hnd.mem_erase_iff]; exact fun h => h.1 rfl
        · simp only [if_neg hqp]
          intro h
          exact hqp (par_unique hxq ((F.ch_iff p pm x hpm).mp h))
      by_cases hnp : new = p
      · simp only [rewired, if_pos hnp]
        exact List.nodup_append.mpr ⟨hbnd, by simp, fun a ha b hb => by simp at hb; subst hb; exact fun h => hxbase (h ▸ ha)⟩
      · simp only [rewired, if_neg hnp]
        exact hbnd
  · -- clause status
    intro i
    by_cases hix : i = x
    · left
      subst hix
      intro m3 p hm3 hp
      rw [rewired_bwd hget hx] at hm3
      cases hm3
      simp only [rewired, if_true] at hp ⊢
      cases hp
      exact ⟨_, rewired_bwd hget hn, by simp [rewired, hxn, hcost]⟩
    · by_cases hpx : Par ms3 i x
      · exact Or.inr hpx
      · left
        intro m3 p hm3 hp
        obtain ⟨m, hm, rfl⟩ := rewired_fwd hget hm3
        have hxi : x ≠ i := fun h => hix h.symm
        simp only [rewired, if_neg hxi] at hp ⊢
        have hpne : x ≠ p := by
          intro h
          apply hpx
          exact (hpar i x).mpr (Or.inr ⟨hix, m, hm, h ▸ hp⟩)
        obtain ⟨pm, hpm, hc⟩ := hC i m p hm hp
        exact ⟨_, rewired_bwd hget hpm, by simp [rewired, hpne, hc]⟩
  · -- roots
    intro i m3 hm3 hp
    obtain ⟨m, hm, rfl⟩ := rewired_fwd hget hm3
    have hxi : x ≠ i := by intro h; simp [rewired, h] at hp
    simp only [rewired, if_neg hxi] at hp ⊢
    exact hR i m hm hp
  · -- incCost
    intro i m3 p pm3 hm3 hp hpm3
    obtain ⟨m, hm, rfl⟩ := rewired_fwd hget hm3
    obtain ⟨pm, hpm, rfl⟩ := rewired_fwd hget hpm3
    by_cases hxi : x = i
    · subst hxi
      rw [hx] at hm
      cases hm
      simp only [rewired, if_true] at hp ⊢
      cases hp
      rw [hn] at hpm
      cases hpm
      exact hinc
    · simp only [rewired, if_neg hxi] at hp ⊢
      exact hI i m p pm hm hp hpm

end Rewire

theorem removeFromParent_size (ms : Ms σ α) (x : Nat) : (removeFromParent ms x).size = ms.size := by
  unfold removeFromParent
  split
  · rfl
  · split <;> simp

/-- same states (and sizes): what never changes. -/
def SameStates (ms ms' : Ms σ α) : Prop :=
  ms'.size = ms.size ∧ ∀ (i : Nat) (m : Motion σ α), ms[i]? = some m → ∃ m', ms'[i]? = some m' ∧ m'.state = m.state

theorem SameStates.refl (ms : Ms σ α) : SameStates ms ms := ⟨rfl, fun _ m h => ⟨m, h, rfl⟩⟩

theorem SameStates.trans {a b c : Ms σ α} (h1 : SameStates a b) (h2 : SameStates b c) : SameStates a c :=
  ⟨h2.1.trans h1.1, fun i m hm => by
    obtain ⟨m1, hm1, hs1⟩ := h1.2 i m hm
    obtain ⟨m2, hm2, hs2⟩ := h2.2 i m1 hm1
    exact ⟨m2, hm2, hs2.trans hs1⟩⟩

theorem SameShape.sameStates {ms ms' : Ms σ α} (h : SameShape ms ms') : SameStates ms ms' :=
  ⟨h.1, fun i m hm => by
    obtain ⟨m', hm', hs⟩ := h.symm.get hm
    exact ⟨m', hm', strip_state hs⟩⟩

/-- one accepted rewiring (`applyRewire`) keeps the invariant; the fuel of `updateChildCosts` suffices. -/
theorem applyRewire_treeInv {o : Obj σ α} (L : Laws o) (s : St σ α δ) (x new : Nat) (xm nm : Motion σ α) (inc : α)
    (hT : TreeInv o s.motions) (hx : s.motions[x]? = some xm) (hn : s.motions[new]? = some nm)
    (hinc : inc = o.motionCost nm.state xm.state) (hb : o.better (o.combine nm.cost inc) xm.cost = true) :
    TreeInv o (applyRewire o s new x inc (o.combine nm.cost inc)).motions ∧
    SameStates s.motions (applyRewire o s new x inc (o.combine nm.cost inc)).motions ∧
    (applyRewire o s new x inc (o.combine nm.cost inc)).fuelOut = s.fuelOut ∧
    (∀ (i : Nat) (m : Motion σ α), s.motions[i]? = some m →
      ∃ m4, (applyRewire o s new x inc (o.combine nm.cost inc)).motions[i]? = some m4 ∧
        m4.parent = (if x = i then some new else m.parent) ∧ m4.incCost = (if x = i then inc else m.incCost)) := by
  obtain ⟨depth, F, hC, hR, hI⟩ := hT
  -- x is not new, not an ancestor of new, and not a start
  have hna : ¬ Anc s.motions x new := by
    intro ha
    have hd := ha.desc hC hI xm nm hx hn
    have := ancestor_not_beaten L hd nm.state xm.state
    rw [← hinc, hb] at this
    cases this
  have hxn : x ≠ new := fun h => hna (h ▸ Anc.refl)
  obtain ⟨q, hq⟩ : ∃ q, xm.parent = some q := by
    cases hp : xm.parent with
    | some q => exact ⟨q, rfl⟩
    | none =>
      exfalso
      have hid := hR x xm hx hp
      have hd := desc_identity F hC hR hI (depth new) new nm rfl hn
      have := ancestor_not_beaten L hd nm.state xm.state
      rw [← hinc, ← hid, hb] at this
      cases this
  -- the array after the three modify
  generalize hms3 : ((removeFromParent s.motions x).modify x
      (fun m => { m with parent := some new, incCost := inc, cost := o.combine nm.cost inc })).modify new
        (fun m => { m with children := m.children ++ [x] }) = ms3
  have hget : ∀ i : Nat, ms3[i]? = (s.motions[i]?).map (rewired q x new inc (o.combine nm.cost inc) i) := by
    intro i; rw [← hms3]; exact rewire_get s.motions q x new inc _ xm hx hq i
  have hsize : ms3.size = s.motions.size := by
    rw [← hms3]; simp [removeFromParent_size]
  obtain ⟨depth', F3, hC3, hR3, hI3⟩ :=
    rewire_forest F hC hR hI hget hsize hx hq hn hxn hna rfl hinc
  have hx3 : x < ms3.size := by rw [hsize]; exact lt_of_get hx
  obtain ⟨p1, p2, p3, p4⟩ := uc o depth' ms3.size ms3 x (fun _ => False) F3 hx3 (by omega)
    (fun i => by rcases hC3 i with h | h; exact Or.inl h; exact Or.inr (Or.inr h)) (fun _ h => h.elim)
  have hres : (applyRewire o s new x inc (o.combine nm.cost inc)).motions = (updateChildCosts o ms3.size ms3 x).1 := by
    unfold applyRewire; simp only []; rw [hms3]
  have hfl : (applyRewire o s new x inc (o.combine nm.cost inc)).fuelOut = (s.fuelOut || (updateChildCosts o ms3.size ms3 x).2) := by
    unfold applyRewire; simp only []; rw [hms3]
  refine ⟨?_, ?_, by rw [hfl, p2]; simp, ?_⟩
  rotate_left 2
  · intro i m hm
    rw [hres]
    obtain ⟨m4, hm4, hs4⟩ := p1.symm.get (rewired_bwd hget hm)
    refine ⟨m4, hm4, ?_, ?_⟩
    · rw [strip_parent hs4]; simp [rewired]
    · rw [strip_inc hs4]; simp [rewired]
  · rw [hres]
    refine ⟨depth', F3.of_sameShape p1, fun i => (p4 i).resolve_right id, ?_, hI3.of_sameShape p1⟩
    intro i m hm hp
    have hroot3 : IsRoot ms3 i := (p1.root).mp ⟨m, hm, hp⟩
    have hd0 := F3.root_depth i hroot3
    rw [p3 i (by omega)] at hm
    exact hR3 i m hm hp
  · rw [hres]
    refine SameStates.trans ⟨hsize, fun i m hm => ?_⟩ p1.sameStates
    exact ⟨_, rewired_bwd hget hm, rfl⟩

/-! ### inserting the new motion keeps the invariant -/

theorem insert_get (ms : Ms σ α) (nmot : Motion σ α) (par : Nat) (hpar : par < ms.size) (i : Nat) :
    ((ms.push nmot).modify par (fun m => { m with children := m.children ++ [ms.size] }))[i]? =
      if i = ms.size then some nmot
      else (ms[i]?).map (fun m => if par = i then { m with children := m.children ++ [ms.size] } else m) := by
  rw [Array.getElem?_modify, Array.getElem?_push]
  by_cases h1 : i = ms.size
  · have : par ≠ i := by omega
    simp [h1, this]
    omega
  · by_cases h2 : par = i
    · simp [h1, h2]
    · cases hm : ms[i]? <;> simp [h1, h2]

theorem insert_treeInv {o : Obj σ α} (ms : Ms σ α) (par : Nat) (pm : Motion σ α) (dstate : σ) (inc cost : α)
    (hT : TreeInv o ms) (hpm : ms[par]? = some pm) (hinc : inc = o.motionCost pm.state dstate)
    (hcost : cost = o.combine pm.cost inc) :
    TreeInv o ((ms.push { state := dstate, parent := some par, cost := cost, incCost := inc, children := [], inGoal := false }).modify par
      (fun m => { m with children := m.children ++ [ms.size] })) := by
  obtain ⟨depth, F, hC, hR, hI⟩ := hT
  have hparlt : par < ms.size := lt_of_get hpm
  generalize hnm : ({ state := dstate, parent := some par, cost := cost, incCost := inc, children := [], inGoal := false } : Motion σ α) = nmot
  have hget := insert_get ms nmot par hparlt
  generalize hms' : (ms.push nmot).modify par (fun m => { m with children := m.children ++ [ms.size] }) = ms' at hget ⊢
  have hsize : ms'.size = ms.size + 1 := by rw [← hms']; simp
  have hn : ms'[ms.size]? = some nmot := by rw [hget]; simp
  have hold : ∀ (i : Nat) (m : Motion σ α), ms[i]? = some m →
      ms'[i]? = some (if par = i then { m with children := m.children ++ [ms.size] } else m) := by
    intro i m hm
    have : i ≠ ms.size := by have := lt_of_get hm; omega
    rw [hget, if_neg this, hm]; rfl
  have hfwd : ∀ (i : Nat) (m' : Motion σ α), ms'[i]? = some m' → i ≠ ms.size →
      ∃ m, ms[i]? = some m ∧ m' = (if par = i then { m with children := m.children ++ [ms.size] } else m) := by
    intro i m' hm' hne
    rw [hget, if_neg hne] at hm'
    cases hm : ms[i]? with
    | none => rw [hm] at hm'; cases hm'
    | some m => rw [hm] at hm'; exact ⟨m, rfl, (Option.some.inj hm').symm⟩
  have hparent : ∀ (i : Nat) (m : Motion σ α), (if par = i then { m with children := m.children ++ [ms.size] } else m).parent = m.parent := by
    intro i m; split <;> rfl
  have hpar : ∀ i p : Nat, Par ms' i p ↔ (i = ms.size ∧ p = par) ∨ (i ≠ ms.size ∧ Par ms i p) := by
    intro i p
    constructor
    · rintro ⟨m', hm', hp⟩
      by_cases hi : i = ms.size
      · subst hi
        rw [hn] at hm'; cases hm'
        rw [← hnm] at hp
        exact Or.inl ⟨rfl, (Option.some.inj hp).symm⟩
      · obtain ⟨m, hm, rfl⟩ := hfwd i m' hm' hi
        rw [hparent] at hp
        exact Or.inr ⟨hi, m, hm, hp⟩
    · rintro (⟨rfl, rfl⟩ | ⟨_, m, hm, hp⟩)
      · exact ⟨nmot, hn, by rw [← hnm]⟩
      · exact ⟨_, hold i m hm, by rw [hparent]; exact hp⟩
  refine ⟨fun i => if i = ms.size then depth par + 1 else depth i, ?_, ?_, ?_, ?_⟩
  · constructor
    · intro i p hp
      rw [hsize]
      rcases (hpar i p).mp hp with ⟨_, rfl⟩ | ⟨_, hp'⟩
      · omega
      · have := F.par_lt i p hp'; omega
    · rintro i ⟨m', hm', hp⟩
      have hi : i ≠ ms.size := by
        intro h; subst h; rw [hn] at hm'; cases hm'; rw [← hnm] at hp; cases hp
      obtain ⟨m, hm, rfl⟩ := hfwd i m' hm' hi
      rw [hparent] at hp
      simp only [if_neg hi]
      exact F.root_depth i ⟨m, hm, hp⟩
    · intro i p hp
      rcases (hpar i p).mp hp with ⟨rfl, rfl⟩ | ⟨hi, hp'⟩
      · have : p ≠ ms.size := by omega
        simp [this]
      · have hplt := F.par_lt i p hp'
        have : p ≠ ms.size := by omega
        simp only [if_neg hi, if_neg this]
        exact F.step_depth i p hp'
    · intro p pm' c hpm'
      rw [hpar c p]
      by_cases hp : p = ms.size
      · subst hp
        rw [hn] at hpm'; cases hpm'
        rw [← hnm]
        simp only [List.not_mem_nil, false_iff]
        rintro (⟨_, h⟩ | ⟨_, h⟩)
        · omega
        · have := F.par_lt c _ h; omega
      · obtain ⟨pm0, hpm0, rfl⟩ := hfwd p pm' hpm' hp
        have hnotin : ¬ ms.size ∈ pm0.children := by
          intro h
          obtain ⟨m, hm, _⟩ := (F.ch_iff p pm0 _ hpm0).mp h
          have := lt_of_get hm; omega
        by_cases hpp : par = p
        · simp only [if_pos hpp, List.mem_append, List.mem_singleton]
          constructor
          · rintro (h | h)
            · have hc := (F.ch_iff p pm0 c hpm0).mp h
              exact Or.inr ⟨by rintro rfl; exact hnotin h, hc⟩
            · exact Or.inl ⟨h, hpp.symm⟩
          · rintro (⟨h, _⟩ | ⟨_, h⟩)
            · exact Or.inr h
            · exact Or.inl ((F.ch_iff p pm0 c hpm0).mpr h)
        · simp only [if_neg hpp]
          constructor
          · intro h
            exact Or.inr ⟨by rintro rfl; exact hnotin h, (F.ch_iff p pm0 c hpm0).mp h⟩
          · rintro (⟨_, h⟩ | ⟨_, h⟩)
            · exact absurd h.symm hpp
            · exact (F.ch_iff p pm0 c hpm0).mpr h
    · intro p pm' hpm'
      by_cases hp : p = ms.size
      · subst hp
        rw [hn] at hpm'; cases hpm'
        rw [← hnm]; simp
      · obtain ⟨pm0, hpm0, rfl⟩ := hfwd p pm' hpm' hp
        have hnd := F.ch_nodup p pm0 hpm0
        have hnotin : ¬ ms.size ∈ pm0.children := by
          intro h
          obtain ⟨m, hm, _⟩ := (F.ch_iff p pm0 _ hpm0).mp h
          have := lt_of_get hm; omega
        split
        · exact List.nodup_append.mpr ⟨hnd, by simp, fun a ha b hb => by simp at hb; subst hb; exact fun h => hnotin (h ▸ ha)⟩
        · exact hnd
  · -- cost clause
    intro i m' p hm' hp
    by_cases hi : i = ms.size
    · subst hi
      rw [hn] at hm'; cases hm'
      rw [← hnm] at hp ⊢
      cases hp
      refine ⟨_, hold par pm hpm, ?_⟩
      simp only [if_true]
      exact hcost
    · obtain ⟨m, hm, rfl⟩ := hfwd i m' hm' hi
      rw [hparent] at hp
      obtain ⟨pm0, hpm0, hc⟩ := hC i m p hm hp
      refine ⟨_, hold p pm0 hpm0, ?_⟩
      have e1 : ∀ (j : Nat) (mm : Motion σ α), (if par = j then { mm with children := mm.children ++ [ms.size] } else mm).cost = mm.cost := by
        intro j mm; split <;> rfl
      have e2 : ∀ (j : Nat) (mm : Motion σ α), (if par = j then { mm with children := mm.children ++ [ms.size] } else mm).incCost = mm.incCost := by
        intro j mm; split <;> rfl
      rw [e1, e1, e2]
      exact hc
  · -- roots
    intro i m' hm' hp
    have hi : i ≠ ms.size := by
      intro h; subst h; rw [hn] at hm'; cases hm'; rw [← hnm] at hp; cases hp
    obtain ⟨m, hm, rfl⟩ := hfwd i m' hm' hi
    rw [hparent] at hp
    have e1 : (if par = i then { m with children := m.children ++ [ms.size] } else m).cost = m.cost := by split <;> rfl
    rw [e1]
    exact hR i m hm hp
  · -- incCost
    intro i m' p pm' hm' hp hpm'
    have est : ∀ (j : Nat) (mm : Motion σ α), (if par = j then { mm with children := mm.children ++ [ms.size] } else mm).state = mm.state := by
      intro j mm; split <;> rfl
    have einc : ∀ (j : Nat) (mm : Motion σ α), (if par = j then { mm with children := mm.children ++ [ms.size] } else mm).incCost = mm.incCost := by
      intro j mm; split <;> rfl
    by_cases hi : i = ms.size
    · subst hi
      rw [hn] at hm'; cases hm'
      rw [← hnm] at hp ⊢
      cases hp
      rw [hold par pm hpm] at hpm'
      cases hpm'
      simp only [if_true]
      exact hinc
    · obtain ⟨m, hm, rfl⟩ := hfwd i m' hm' hi
      rw [hparent] at hp
      have hplt := F.par_lt i p ⟨m, hm, hp⟩
      obtain ⟨pm0, hpm0, rfl⟩ := hfwd p pm' hpm' (by omega)
      rw [einc, est, est]
      exact hI i m p pm0 hm hp hpm0

/-! ### the neighbourhood only contains motions of the tree; the cost caches describe them -/

theorem insertKey_mem {κ : Type} (lt : κ → κ → Bool) (x : κ × Nat) (l : List (κ × Nat)) :
    ∀ y ∈ (insertKey lt x l).1, y = x ∨ y ∈ l := by
  induction l with
  | nil => intro y hy; simp [insertKey] at hy; exact Or.inl hy
  | cons z zs ih =>
    intro y hy
    unfold insertKey at hy
    split at hy
    · simp only [List.mem_cons] at hy ⊢
      rcases hy with h | h | h
      · exact Or.inl h
      · exact Or.inr (Or.inl h)
      · exact Or.inr (Or.inr h)
    · simp only [List.mem_cons] at hy ⊢
      rcases hy with h | h
      · exact Or.inr (Or.inl h)
      · rcases ih y h with h' | h'
        · exact Or.inl h'
        · exact Or.inr (Or.inr h')

theorem sortKeys_mem {κ : Type} (lt : κ → κ → Bool) (l : List (κ × Nat)) : ∀ y ∈ (sortKeys lt l).1, y ∈ l := by
  have gen : ∀ (l : List (κ × Nat)) (acc : List (κ × Nat) × Bool),
      ∀ y ∈ (l.foldl (fun (acc : List (κ × Nat) × Bool) x => ((insertKey lt x acc.1).1, acc.2 || (insertKey lt x acc.1).2)) acc).1,
        y ∈ acc.1 ∨ y ∈ l := by
    intro l
    induction l with
    | nil => intro acc y hy; exact Or.inl hy
    | cons x xs ih =>
      intro acc y hy
      simp only [List.foldl_cons] at hy
      rcases ih _ y hy with h | h
      · rcases insertKey_mem lt x acc.1 y h with h' | h'
        · exact Or.inr (by simp [h'])
        · exact Or.inl h'
      · exact Or.inr (by simp [h])
  intro y hy
  unfold sortKeys at hy
  rcases gen l ([], false) y hy with h | h
  · simp at h
  · exact h

theorem nearestK_lt (sp : Space σ δ) (ms : Ms σ α) (x : σ) (k : Nat) : ∀ ni ∈ (nearestK sp ms x k).1, ni < ms.size := by
  intro ni hni
  unfold nearestK at hni
  simp only [List.mem_map] at hni
  obtain ⟨pr, hpr, rfl⟩ := hni
  have h1 := sortKeys_mem sp.dlt _ pr (List.mem_of_mem_take hpr)
  simp only [List.mem_map] at h1
  obtain ⟨q, hq, rfl⟩ := h1
  have := (List.of_mem_zip hq).1
  simpa using this

theorem getD_map_zip_range {β γ : Type} (nbh : List β) (f : β → γ) (d : γ) :
    ∀ p ∈ (List.range nbh.length).zip nbh, (nbh.map f).getD p.1 d = f p.2 := by
  intro p hp
  obtain ⟨i, hi, hpi⟩ := List.mem_iff_getElem.mp hp
  simp only [List.getElem_zip, List.getElem_range] at hpi
  subst hpi
  simp only [List.length_zip, List.length_range, min_self] at hi
  simp [List.getD_eq_getElem?_getD, hi]

theorem checkMotion_motions (s : St σ α δ) (a b : σ) :
    (s.checkMotion a b).2.motions = s.motions ∧ (s.checkMotion a b).2.fuelOut = s.fuelOut := by
  unfold St.checkMotion
  cases s.answers <;> exact ⟨rfl, rfl⟩

theorem chooseParent_motions (sp : Space σ δ) (ms : Ms σ α) (nmotion : Nat) (x : σ)
    (cands : List (Nat × Nat)) (s : St σ α δ) (valid : List (Nat × Int)) :
    (chooseParent sp ms nmotion x cands s valid).2.2.motions = s.motions ∧
    (chooseParent sp ms nmotion x cands s valid).2.2.fuelOut = s.fuelOut := by
  induction cands generalizing s valid with
  | nil => exact ⟨rfl, rfl⟩
  | cons c rest ih =>
    obtain ⟨i, mi⟩ := c
    unfold chooseParent
    split
    · exact ⟨rfl, rfl⟩
    · split
      · exact ih _ _
      · split
        · simp only []
          split
          · exact checkMotion_motions _ _ _
          · have h1 := checkMotion_motions s (‹Motion σ α›).state x
            have h2 := ih (s.checkMotion (‹Motion σ α›).state x).2 ((i, -1) :: valid)
            exact ⟨h2.1.trans h1.1, h2.2.trans h1.2⟩
        · exact ih _ _

/-- the chosen entry of the caches describes a motion of the tree (or is the pre-computed `nmotion` entry). -/
theorem cache_entry {o : Obj σ α} (sp : Space σ δ) (ms : Ms σ α) (dstate : σ) (k : Nat) (nmotion : Nat) (nm : Motion σ α)
    (hnm : ms[nmotion]? = some nm) (oi : Option Nat) :
    ∃ pm, ms[pickVal oi (nearestK sp ms dstate k).1 nmotion]? = some pm ∧
      pickVal oi (nbhIncs o ms dstate (nearestK sp ms dstate k).1) (o.motionCost nm.state dstate) = o.motionCost pm.state dstate ∧
      pickVal oi (nbhCosts o ms (nearestK sp ms dstate k).1 (nbhIncs o ms dstate (nearestK sp ms dstate k).1))
          (o.combine nm.cost (o.motionCost nm.state dstate)) =
        o.combine pm.cost (o.motionCost pm.state dstate) := by
  have hlt := nearestK_lt sp ms dstate k
  generalize (nearestK sp ms dstate k).1 = nbh at hlt
  cases oi with
  | none => exact ⟨nm, hnm, rfl, rfl⟩
  | some i =>
    simp only [pickVal]
    by_cases hi : i < nbh.length
    · have hni : nbh[i] < ms.size := hlt _ (List.getElem_mem hi)
      obtain ⟨pm, hpm⟩ := get_of_lt hni
      refine ⟨pm, ?_, ?_, ?_⟩
      · simp [List.getD_eq_getElem?_getD, hi, hpm]
      · simp [nbhIncs, List.getD_eq_getElem?_getD, hi, hpm]
      · simp [nbhCosts, nbhIncs, List.getD_eq_getElem?_getD, hi, hpm]
    · have hi' : nbh.length ≤ i := by omega
      refine ⟨nm, ?_, ?_, ?_⟩
      · simp [List.getD_eq_getElem?_getD, hi', hnm]
      · simp [nbhIncs, List.getD_eq_getElem?_getD, hi']
      · simp [nbhCosts, nbhIncs, List.getD_eq_getElem?_getD, hi']

/-- what the theorems need to know about the insertion stage, whichever choose-parent loop produced it: the new motion
hangs under a motion `par` of the old tree with `incCost = motionCost(par, new)` and `cost = combine(par.cost, incCost)`, the
loop changed nothing but the oracle pools / logs, the neighbourhood consists of old motions, and `incs[i]` is
`motionCost(nbh[i], new)` for every neighbour. -/
structure GrowOK (o : Obj σ α) (s : St σ α δ) (dstate : σ) (g : Grown σ α δ) : Prop where
  ex : ∃ (s1 : St σ α δ) (par : Nat) (pm : Motion σ α) (cost inc : α) (t : Bool),
    g.st = insertMotion s1 dstate par cost inc t ∧ g.new = s1.motions.size ∧ s1.motions = s.motions ∧ s1.fuelOut = s.fuelOut ∧
    s1.goalMotions = s.goalMotions ∧ s.motions[par]? = some pm ∧ inc = o.motionCost pm.state dstate ∧ cost = o.combine pm.cost inc
  lt : ∀ p ∈ g.nbhP, p.2 < s.motions.size
  incs : ∀ p ∈ g.nbhP, ∀ nb0 : Motion σ α, s.motions[p.2]? = some nb0 → g.incs.getD p.1 o.identity = o.motionCost nb0.state dstate

theorem checkMotion_frame (s : St σ α δ) (a b : σ) :
    (s.checkMotion a b).2.motions = s.motions ∧ (s.checkMotion a b).2.fuelOut = s.fuelOut ∧
    (s.checkMotion a b).2.goalMotions = s.goalMotions ∧ (s.checkMotion a b).2.staleInc = s.staleInc := by
  unfold St.checkMotion
  cases s.answers <;> exact ⟨rfl, rfl, rfl, rfl⟩

theorem chooseParent_frame (sp : Space σ δ) (ms : Ms σ α) (nmotion : Nat) (x : σ)
    (cands : List (Nat × Nat)) (s : St σ α δ) (valid : List (Nat × Int)) :
    (chooseParent sp ms nmotion x cands s valid).2.2.goalMotions = s.goalMotions ∧
    (chooseParent sp ms nmotion x cands s valid).2.2.staleInc = s.staleInc := by
  induction cands generalizing s valid with
  | nil => exact ⟨rfl, rfl⟩
  | cons c rest ih =>
    obtain ⟨i, mi⟩ := c
    unfold chooseParent
    split
    · exact ⟨rfl, rfl⟩
    · split
      · exact ih _ _
      · split
        · simp only []
          split
          · exact ⟨(checkMotion_frame _ _ _).2.2.1, (checkMotion_frame _ _ _).2.2.2⟩
          · have h1 := checkMotion_frame s (‹Motion σ α›).state x
            have h2 := ih (s.checkMotion (‹Motion σ α›).state x).2 ((i, -1) :: valid)
            exact ⟨h2.1.trans h1.2.2.1, h2.2.trans h1.2.2.2⟩
        · exact ih _ _

/-- the pieces of `growInsertDelayed`, named. -/
theorem growInsertDelayed_spec (o : Obj σ α) (sp : Space σ δ) (s : St σ α δ) (nmotion : Nat) (nm : Motion σ α) (dstate : σ) :
    ∃ cands t,
      growInsertDelayed o sp s nmotion nm dstate =
        { st := insertMotion (chooseParent sp s.motions nmotion dstate cands s []).2.2 dstate
            (pickVal (chooseParent sp s.motions nmotion dstate cands s []).1
              (nearestK sp s.motions dstate (sp.kNearest s.motions.size)).1 nmotion)
            (pickVal (chooseParent sp s.motions nmotion dstate cands s []).1
              (nbhCosts o s.motions (nearestK sp s.motions dstate (sp.kNearest s.motions.size)).1
                (nbhIncs o s.motions dstate (nearestK sp s.motions dstate (sp.kNearest s.motions.size)).1))
              (o.combine nm.cost (o.motionCost nm.state dstate)))
            (pickVal (chooseParent sp s.motions nmotion dstate cands s []).1
              (nbhIncs o s.motions dstate (nearestK sp s.motions dstate (sp.kNearest s.motions.size)).1)
              (o.motionCost nm.state dstate)) t,
          new := (chooseParent sp s.motions nmotion dstate cands s []).2.2.motions.size,
          valid := (chooseParent sp s.motions nmotion dstate cands s []).2.1,
          incs := nbhIncs o s.motions dstate (nearestK sp s.motions dstate (sp.kNearest s.motions.size)).1,
          nbhP := (List.range (nearestK sp s.motions dstate (sp.kNearest s.motions.size)).1.length).zip
            (nearestK sp s.motions dstate (sp.kNearest s.motions.size)).1 } := by
  unfold growInsertDelayed
  exact ⟨_, _, rfl⟩

/-- the default branch (delayed collision checking) meets the specification, unconditionally. -/
theorem growInsertDelayed_ok {o : Obj σ α} (sp : Space σ δ) (s : St σ α δ) (nmotion : Nat) (nm : Motion σ α) (dstate : σ)
    (hnm : s.motions[nmotion]? = some nm) : GrowOK o s dstate (growInsertDelayed o sp s nmotion nm dstate) := by
  obtain ⟨cands, t, hspec⟩ := growInsertDelayed_spec o sp s nmotion nm dstate
  have hcp := chooseParent_motions sp s.motions nmotion dstate cands s []
  have hcf := chooseParent_frame sp s.motions nmotion dstate cands s []
  have hlt := nearestK_lt sp s.motions dstate (sp.kNearest s.motions.size)
  have hce := fun oi => cache_entry (o := o) sp s.motions dstate (sp.kNearest s.motions.size) nmotion nm hnm oi
  generalize nearestK sp s.motions dstate (sp.kNearest s.motions.size) = nk at hspec hlt hce
  generalize chooseParent sp s.motions nmotion dstate cands s [] = cp at hspec hcp hcf
  obtain ⟨pm, hpm, hinc, hcost⟩ := hce cp.1
  rw [hspec]
  refine ⟨⟨cp.2.2, _, pm, _, _, t, rfl, rfl, hcp.1, hcp.2, hcf.1, hpm, hinc, by rw [hinc]; exact hcost⟩, ?_, ?_⟩
  · intro p hp
    exact hlt p.2 (List.of_mem_zip hp).2
  · intro p hp nb0 hnb0
    show (nbhIncs o s.motions dstate nk.1).getD p.1 o.identity = _
    unfold nbhIncs
    rw [getD_map_zip_range _ _ _ p hp, hnb0]

/-! ### the classic choose-parent loop (`delayCC_ = false`) -/

theorem classicStep_frame (o : Obj σ α) (sp : Space σ δ) (ms : Ms σ α) (nmotion : Nat) (x : σ) (inc0 : α) (a : Classic σ α δ)
    (p : Nat × Nat) :
    (classicStep o sp ms nmotion x inc0 a p).st.motions = a.st.motions ∧
    (classicStep o sp ms nmotion x inc0 a p).st.fuelOut = a.st.fuelOut ∧
    (classicStep o sp ms nmotion x inc0 a p).st.goalMotions = a.st.goalMotions ∧
    (classicStep o sp ms nmotion x inc0 a p).st.staleInc = a.st.staleInc := by
  unfold classicStep
  split
  · split <;> exact ⟨rfl, rfl, rfl, rfl⟩
  · split
    · exact ⟨rfl, rfl, rfl, rfl⟩
    · rename_i m _
      simp only []
      split
      · split
        · have h := checkMotion_frame a.st m.state x
          rcases hc : a.st.checkMotion m.state x with ⟨b, s'⟩
          rw [hc] at h
          cases b <;> exact h
        · exact ⟨rfl, rfl, rfl, rfl⟩
      · exact ⟨rfl, rfl, rfl, rfl⟩

theorem foldl_classicStep_frame (o : Obj σ α) (sp : Space σ δ) (ms : Ms σ α) (nmotion : Nat) (x : σ) (inc0 : α)
    (l : List (Nat × Nat)) (a : Classic σ α δ) :
    (l.foldl (classicStep o sp ms nmotion x inc0) a).st.motions = a.st.motions ∧
    (l.foldl (classicStep o sp ms nmotion x inc0) a).st.fuelOut = a.st.fuelOut ∧
    (l.foldl (classicStep o sp ms nmotion x inc0) a).st.goalMotions = a.st.goalMotions ∧
    (l.foldl (classicStep o sp ms nmotion x inc0) a).st.staleInc = a.st.staleInc := by
  induction l generalizing a with
  | nil => exact ⟨rfl, rfl, rfl, rfl⟩
  | cons p rest ih =>
    simp only [List.foldl_cons]
    have h1 := classicStep_frame o sp ms nmotion x inc0 a p
    have h2 := ih (classicStep o sp ms nmotion x inc0 a p)
    exact ⟨h2.1.trans h1.1, h2.2.1.trans h1.2.1, h2.2.2.1.trans h1.2.2.1, h2.2.2.2.trans h1.2.2.2⟩

/-- the guard under which the cache entries written so far are right: always with the current code; with the loop as
coded before fix e1b5ec649 (`classicOld`) only while the ghost `stale` has not been raised. -/
def classicGuard (sp : Space σ δ) (a : Classic σ α δ) : Prop := sp.classicOld = true → a.stale = false

/-- the invariant of the classic loop after the neighbours `pre`: the current parent's cache entries are right, and —
under the guard — so is every `incCosts[k]` written so far. -/
structure ClassicInv (o : Obj σ α) (sp : Space σ δ) (ms : Ms σ α) (x : σ) (a : Classic σ α δ) (pre : List (Nat × Nat)) : Prop where
  par : ∃ pm, ms[a.par]? = some pm ∧ a.inc = o.motionCost pm.state x ∧ a.cost = o.combine pm.cost a.inc
  len : a.incs.length = pre.length
  incs : classicGuard sp a → ∀ (k : Nat) (q : Nat × Nat), pre[k]? = some q → ∀ nb0 : Motion σ α, ms[q.2]? = some nb0 →
    a.incs.getD k o.identity = o.motionCost nb0.state x

theorem classicInv_push {o : Obj σ α} {sp : Space σ δ} {ms : Ms σ α} {x : σ} {a a' : Classic σ α δ} {pre : List (Nat × Nat)}
    {p : Nat × Nat} {v : α}
    (hI : ClassicInv o sp ms x a pre) (hincs : a'.incs = a.incs ++ [v]) (hstale : classicGuard sp a' → classicGuard sp a)
    (hv : classicGuard sp a' → ∀ nb0 : Motion σ α, ms[p.2]? = some nb0 → v = o.motionCost nb0.state x)
    (hpar : ∃ pm, ms[a'.par]? = some pm ∧ a'.inc = o.motionCost pm.state x ∧ a'.cost = o.combine pm.cost a'.inc) :
    ClassicInv o sp ms x a' (pre ++ [p]) := by
  refine ⟨hpar, by rw [hincs]; simp [hI.len], ?_⟩
  intro hs k q hq nb0 hnb0
  have hs0 := hstale hs
  by_cases hk : k < pre.length
  · have hq' : pre[k]? = some q := by rw [List.getElem?_append_left hk] at hq; exact hq
    have h := hI.incs hs0 k q hq' nb0 hnb0
    rw [List.getD_eq_getElem?_getD] at h ⊢
    rw [hincs, List.getElem?_append_left (by rw [hI.len]; exact hk)]
    exact h
  · have hk' : k = pre.length := by
      by_contra hne
      have : (pre ++ [p]).length ≤ k := by simp; omega
      rw [List.getElem?_eq_none this] at hq
      cases hq
    subst hk'
    have hq' : q = p := by
      have : (pre ++ [p])[pre.length]? = some p := by simp
      rw [this] at hq
      exact (Option.some.inj hq).symm
    subst hq'
    rw [List.getD_eq_getElem?_getD, hincs]
    have : (a.incs ++ [v])[pre.length]? = some v := by rw [← hI.len]; simp
    rw [this]
    exact hv hs nb0 hnb0

theorem classicStep_inv {o : Obj σ α} (sp : Space σ δ) (ms : Ms σ α) (nmotion : Nat) (nm : Motion σ α) (x : σ) (a : Classic σ α δ)
    (pre : List (Nat × Nat)) (p : Nat × Nat) (hnm : ms[nmotion]? = some nm) (hI : ClassicInv o sp ms x a pre) :
    ClassicInv o sp ms x (classicStep o sp ms nmotion x (o.motionCost nm.state x) a p) (pre ++ [p]) := by
  unfold classicStep
  split
  · rename_i hp
    split
    · -- before the fix: the CURRENT motion->incCost is cached; right iff nmotion is still the parent
      rename_i hold
      refine classicInv_push hI rfl ?_ ?_ hI.par
      · intro h ho
        have := h ho
        simp only [Bool.or_eq_false_iff] at this
        exact this.1
      · intro h nb0 hnb0
        have := h hold
        simp only [Bool.or_eq_false_iff, decide_eq_false_iff_not, not_not] at this
        obtain ⟨pm, hpm, hinc, _⟩ := hI.par
        rw [this.2, ← hp, hnb0] at hpm
        cases hpm
        exact hinc
    · -- the current code: nmotion's own edge cost, saved before the loop
      refine classicInv_push hI rfl (fun h => h) ?_ hI.par
      intro _ nb0 hnb0
      rw [hp, hnm] at hnb0
      cases hnb0
      rfl
  · split
    · rename_i hnone
      exact classicInv_push hI rfl (fun h => h) (fun _ nb0 hnb0 => by rw [hnone] at hnb0; cases hnb0) hI.par
    · rename_i m hm
      have hv : ∀ nb0 : Motion σ α, ms[p.2]? = some nb0 → o.motionCost m.state x = o.motionCost nb0.state x := by
        intro nb0 hnb0; rw [hm] at hnb0; cases hnb0; rfl
      simp only []
      split
      · split
        · rcases hc : a.st.checkMotion m.state x with ⟨b, s'⟩
          cases b
          · exact classicInv_push hI rfl (fun h => h) (fun _ => hv) hI.par
          · exact classicInv_push hI rfl (fun h => h) (fun _ => hv) ⟨m, hm, rfl, rfl⟩
        · exact classicInv_push hI rfl (fun h => h) (fun _ => hv) hI.par
      · exact classicInv_push hI rfl (fun h => h) (fun _ => hv) hI.par

theorem foldl_classicStep_inv {o : Obj σ α} (sp : Space σ δ) (ms : Ms σ α) (nmotion : Nat) (nm : Motion σ α) (x : σ)
    (hnm : ms[nmotion]? = some nm) (l : List (Nat × Nat)) :
    ∀ (a : Classic σ α δ) (pre : List (Nat × Nat)), ClassicInv o sp ms x a pre →
      ClassicInv o sp ms x (l.foldl (classicStep o sp ms nmotion x (o.motionCost nm.state x)) a) (pre ++ l) := by
  induction l with
  | nil => intro a pre h; simpa using h
  | cons p rest ih =>
    intro a pre h
    simp only [List.foldl_cons]
    have := ih _ _ (classicStep_inv sp ms nmotion nm x a pre p hnm h)
    simpa using this

theorem zip_range_getElem? {β : Type} (nbh : List β) : ∀ p ∈ (List.range nbh.length).zip nbh, ((List.range nbh.length).zip nbh)[p.1]? = some p := by
  intro p hp
  obtain ⟨i, hi, hpi⟩ := List.mem_iff_getElem.mp hp
  simp only [List.getElem_zip, List.getElem_range] at hpi
  subst hpi
  simp only [List.length_zip, List.length_range, min_self] at hi
  simp [hi]

/-- the classic branch meets the specification: with the current code ALWAYS; with the loop as coded before fix e1b5ec649
(`classicOld`) in every pass in which the ghost `staleInc` was not raised. -/
theorem growInsertClassic_ok {o : Obj σ α} (sp : Space σ δ) (s : St σ α δ) (nmotion : Nat) (nm : Motion σ α) (dstate : σ)
    (hnm : s.motions[nmotion]? = some nm)
    (hcl : sp.classicOld = true → (growInsertClassic o sp s nmotion nm dstate).st.staleInc = false) :
    GrowOK o s dstate (growInsertClassic o sp s nmotion nm dstate) := by
  have hlt := nearestK_lt sp s.motions dstate (sp.kNearest s.motions.size)
  unfold growInsertClassic at hcl ⊢
  simp only [] at hcl ⊢
  generalize nearestK sp s.motions dstate (sp.kNearest s.motions.size) = nk at hcl hlt ⊢
  have h0 : ClassicInv o sp s.motions dstate
      ({ par := nmotion, inc := o.motionCost nm.state dstate, cost := o.combine nm.cost (o.motionCost nm.state dstate),
         valid := [], incs := [], st := s, stale := false } : Classic σ α δ) [] :=
    ⟨⟨nm, hnm, rfl, rfl⟩, rfl, fun _ k q hq => by simp at hq⟩
  have hI := foldl_classicStep_inv sp s.motions nmotion nm dstate hnm ((List.range nk.1.length).zip nk.1) _ [] h0
  have hF := foldl_classicStep_frame o sp s.motions nmotion dstate (o.motionCost nm.state dstate) ((List.range nk.1.length).zip nk.1)
    ({ par := nmotion, inc := o.motionCost nm.state dstate, cost := o.combine nm.cost (o.motionCost nm.state dstate),
       valid := [], incs := [], st := s, stale := false } : Classic σ α δ)
  generalize List.foldl (classicStep o sp s.motions nmotion dstate (o.motionCost nm.state dstate))
    ({ par := nmotion, inc := o.motionCost nm.state dstate, cost := o.combine nm.cost (o.motionCost nm.state dstate),
       valid := [], incs := [], st := s, stale := false } : Classic σ α δ) ((List.range nk.1.length).zip nk.1) = a at hcl hI hF ⊢
  simp only [List.nil_append] at hI
  have hst : classicGuard sp a := by
    intro ho
    have : (a.st.staleInc || a.stale) = false := hcl ho
    simp only [Bool.or_eq_false_iff] at this
    exact this.2
  obtain ⟨pm, hpm, hinc, hcost⟩ := hI.par
  refine ⟨⟨{ a.st with staleInc := a.st.staleInc || a.stale }, a.par, pm, a.cost, a.inc, nk.2, rfl, rfl, hF.1, hF.2.1, hF.2.2.1, hpm, hinc,
    hcost⟩, ?_, ?_⟩
  · intro p hp
    exact hlt p.2 (List.of_mem_zip hp).2
  · intro p hp nb0 hnb0
    exact hI.incs hst p.1 p (zip_range_getElem? nk.1 p hp) nb0 hnb0

/-- `growInsert` meets the specification: always with delayed collision checking; with the classic loop in every pass
that did not raise `staleInc`. -/
theorem growInsert_ok {o : Obj σ α} (sp : Space σ δ) (s : St σ α δ) (nmotion : Nat) (nm : Motion σ α) (dstate : σ)
    (hnm : s.motions[nmotion]? = some nm)
    (hcl : sp.delayCC = false → sp.classicOld = true → (growInsert o sp s nmotion nm dstate).st.staleInc = false) :
    GrowOK o s dstate (growInsert o sp s nmotion nm dstate) := by
  unfold growInsert at hcl ⊢
  split
  · exact growInsertDelayed_ok sp s nmotion nm dstate hnm
  · rename_i hd
    have hd' : sp.delayCC = false := by simpa using hd
    have := hcl hd'
    rw [if_neg hd] at this
    exact growInsertClassic_ok sp s nmotion nm dstate hnm this

/-! ### the planner state: every stage keeps the invariant -/

/-- the invariant of a planner state: the motion array is a cost-consistent forest and the fuel of
`updateChildCosts` never ran out. -/
def StInv (o : Obj σ α) (s : St σ α δ) : Prop := TreeInv o s.motions ∧ s.fuelOut = false

theorem rewireCheck_motions (sp : Space σ δ) (valid : List (Nat × Int)) (i : Nat) (s : St σ α δ) (mot nb : Motion σ α) :
    (rewireCheck sp valid i s mot nb).2.motions = s.motions ∧ (rewireCheck sp valid i s mot nb).2.fuelOut = s.fuelOut := by
  unfold rewireCheck
  split
  · split
    · exact checkMotion_motions _ _ _
    · exact ⟨rfl, rfl⟩
  · exact ⟨rfl, rfl⟩

/-- what the rewiring loop maintains, relative to the array `ms0` right after the insertion. -/
def RewInv (o : Obj σ α) (ms0 : Ms σ α) (s : St σ α δ) : Prop :=
  TreeInv o s.motions ∧ SameStates ms0 s.motions ∧ s.fuelOut = false

theorem rewireStep_inv {o : Obj σ α} (L : Laws o) (sp : Space σ δ) (valid : List (Nat × Int)) (i new ni : Nat) (ms0 : Ms σ α)
    (s : St σ α δ) (mot nb : Motion σ α) (inc : α) (chk : Bool) (hJ : RewInv o ms0 s)
    (hn : s.motions[new]? = some mot) (hx : s.motions[ni]? = some nb) (hinc : inc = o.motionCost mot.state nb.state)
    (hb : o.better (o.combine mot.cost inc) nb.cost = true) :
    RewInv o ms0 (match rewireCheck sp valid i s mot nb with
      | (true, s1) => (applyRewire o s1 new ni inc (o.combine mot.cost inc), true)
      | (false, s1) => (s1, chk)).1 := by
  have hc := rewireCheck_motions sp valid i s mot nb
  rcases h : rewireCheck sp valid i s mot nb with ⟨b, s1⟩
  rw [h] at hc
  simp only [] at hc
  cases b
  · exact ⟨by rw [hc.1]; exact hJ.1, by rw [hc.1]; exact hJ.2.1, by rw [hc.2]; exact hJ.2.2⟩
  · have hT1 : TreeInv o s1.motions := by rw [hc.1]; exact hJ.1
    have := applyRewire_treeInv L s1 ni new nb mot inc hT1 (by rw [hc.1]; exact hx) (by rw [hc.1]; exact hn) hinc hb
    refine ⟨this.1, ?_, by rw [this.2.2.1, hc.2]; exact hJ.2.2⟩
    have h2 : SameStates ms0 s1.motions := by rw [hc.1]; exact hJ.2.1
    exact h2.trans this.2.1

theorem rewireOne_inv {o : Obj σ α} (L : Laws o) (sp : Space σ δ) (new : Nat) (valid : List (Nat × Int)) (incs : List α)
    (ms0 : Ms σ α) (dstate : σ) (acc : St σ α δ × Bool) (p : Nat × Nat) (hJ : RewInv o ms0 acc.1)
    (hnew : ∃ m0, ms0[new]? = some m0 ∧ m0.state = dstate)
    (hincs : ∀ nb0 : Motion σ α, ms0[p.2]? = some nb0 → incs.getD p.1 o.identity = o.motionCost nb0.state dstate) :
    RewInv o ms0 (rewireOne o sp new valid incs acc p).1 := by
  unfold rewireOne
  split
  · rename_i mot nb hmot hnb
    split
    · exact hJ
    · split
      · rename_i hb
        refine rewireStep_inv L sp valid p.1 new p.2 ms0 acc.1 mot nb _ acc.2 hJ hmot hnb ?_ hb
        unfold rewireInc
        split
        · rename_i hsym
          -- the cached reverse cost, turned around by symmetry
          obtain ⟨m0, hm0, hst0⟩ := hnew
          obtain ⟨m', hm', hs'⟩ := hJ.2.1.2 new m0 hm0
          rw [hmot] at hm'; cases hm'
          have hlt : p.2 < ms0.size := by rw [← hJ.2.1.1]; exact lt_of_get hnb
          obtain ⟨nb0, hnb0⟩ := get_of_lt hlt
          obtain ⟨nb', hnb', hsn⟩ := hJ.2.1.2 p.2 nb0 hnb0
          rw [hnb] at hnb'; cases hnb'
          rw [hincs nb0 hnb0, ← hsn, ← hst0, ← hs']
          exact L.sym hsym _ _
        · rfl
      · exact hJ
  · exact hJ

theorem foldl_rewireOne_inv {o : Obj σ α} (L : Laws o) (sp : Space σ δ) (new : Nat) (valid : List (Nat × Int)) (incs : List α)
    (ms0 : Ms σ α) (dstate : σ) (hnew : ∃ m0, ms0[new]? = some m0 ∧ m0.state = dstate) :
    ∀ (l : List (Nat × Nat)) (acc : St σ α δ × Bool), RewInv o ms0 acc.1 →
      (∀ p ∈ l, ∀ nb0 : Motion σ α, ms0[p.2]? = some nb0 → incs.getD p.1 o.identity = o.motionCost nb0.state dstate) →
      RewInv o ms0 (l.foldl (rewireOne o sp new valid incs) acc).1 := by
  intro l
  induction l with
  | nil => intro acc h _; exact h
  | cons p rest ih =>
    intro acc hJ hincs
    simp only [List.foldl_cons]
    exact ih _ (rewireOne_inv L sp new valid incs ms0 dstate acc p hJ hnew (hincs p (by simp)))
      (fun p' hp' => hincs p' (by simp [hp']))

theorem insertMotion_inv {o : Obj σ α} (s1 : St σ α δ) (dstate : σ) (par : Nat) (pm : Motion σ α) (cost inc : α) (t : Bool)
    (hT : StInv o s1) (hpm : s1.motions[par]? = some pm) (hinc : inc = o.motionCost pm.state dstate)
    (hcost : cost = o.combine pm.cost inc) :
    StInv o (insertMotion s1 dstate par cost inc t) ∧
    (∃ m0, (insertMotion s1 dstate par cost inc t).motions[s1.motions.size]? = some m0 ∧ m0.state = dstate) ∧
    (∀ (i : Nat) (m : Motion σ α), s1.motions[i]? = some m →
      ∃ m', (insertMotion s1 dstate par cost inc t).motions[i]? = some m' ∧ m'.state = m.state) := by
  have hpl := lt_of_get hpm
  refine ⟨⟨insert_treeInv s1.motions par pm dstate inc cost hT.1 hpm hinc hcost, hT.2⟩, ?_, ?_⟩
  · refine ⟨{ state := dstate, parent := some par, cost := cost, incCost := inc, children := [], inGoal := false }, ?_, rfl⟩
    show ((s1.motions.push _).modify par _)[s1.motions.size]? = _
    rw [insert_get s1.motions _ par hpl]
    simp
  · intro i m hm
    have hne : i ≠ s1.motions.size := by have := lt_of_get hm; omega
    refine ⟨if par = i then { m with children := m.children ++ [s1.motions.size] } else m, ?_, by split <;> rfl⟩
    show ((s1.motions.push _).modify par _)[i]? = _
    rw [insert_get s1.motions _ par hpl, if_neg hne, hm]
    rfl

theorem grow_inv {o : Obj σ α} (L : Laws o) (sp : Space σ δ) (s : St σ α δ) (nmotion : Nat) (nm : Motion σ α) (dstate : σ)
    (hT : StInv o s) (hnm : s.motions[nmotion]? = some nm)
    (hcl : sp.delayCC = false → sp.classicOld = true → (growInsert o sp s nmotion nm dstate).st.staleInc = false) :
    StInv o (grow o sp s nmotion nm dstate).1 := by
  obtain ⟨⟨s1, par, pm, cost, inc, t, hst, hnew, hm1, hf1, _, hpm, hinc, hcost⟩, hlt, hincs⟩ := growInsert_ok (o := o) sp s nmotion nm dstate hnm hcl
  have hT1 : StInv o s1 := ⟨by rw [hm1]; exact hT.1, by rw [hf1]; exact hT.2⟩
  have hins := insertMotion_inv (o := o) s1 dstate par pm cost inc t hT1 (by rw [hm1]; exact hpm) hinc hcost
  unfold grow
  simp only []
  generalize growInsert o sp s nmotion nm dstate = g at hst hnew hlt hincs
  rw [hst, hnew]
  generalize insertMotion s1 dstate par cost inc t = st0 at hins ⊢
  have hJ0 : RewInv o st0.motions st0 := ⟨hins.1.1, SameStates.refl _, hins.1.2⟩
  have hfold := foldl_rewireOne_inv L sp s1.motions.size g.valid g.incs st0.motions dstate
    hins.2.1 g.nbhP (st0, false) hJ0 ?_
  · exact ⟨hfold.1, hfold.2.2⟩
  · -- the cached reverse costs describe the neighbours
    intro p hp nb0 hnb0
    have hp2 : p.2 < s.motions.size := hlt p hp
    obtain ⟨m, hm⟩ := get_of_lt hp2
    obtain ⟨m', hm', hs'⟩ := hins.2.2 p.2 m (by rw [hm1]; exact hm)
    rw [hnb0] at hm'; cases hm'
    rw [hincs p hp m hm, hs']

/-- entry-wise changes that keep state, parent, cost, incCost and children keep the invariant (the `inGoal` flag). -/
theorem map_treeInv {o : Obj σ α} (ms ms' : Ms σ α) (g : Nat → Motion σ α → Motion σ α)
    (hg : ∀ (i : Nat) (m : Motion σ α), strip (g i m) = strip m ∧ (g i m).cost = m.cost)
    (hget : ∀ i : Nat, ms'[i]? = (ms[i]?).map (g i)) (hsize : ms'.size = ms.size) (hT : TreeInv o ms) : TreeInv o ms' := by
  obtain ⟨depth, F, hC, hR, hI⟩ := hT
  have hsh : SameShape ms ms' := ⟨hsize, fun i => by
    rw [hget i]; cases ms[i]? with
    | none => rfl
    | some m => simp [(hg i m).1]⟩
  have fwd : ∀ (i : Nat) (m' : Motion σ α), ms'[i]? = some m' → ∃ m, ms[i]? = some m ∧ m' = g i m := by
    intro i m' h
    rw [hget i] at h
    cases hm : ms[i]? with
    | none => rw [hm] at h; cases h
    | some m => rw [hm] at h; exact ⟨m, rfl, (Option.some.inj h).symm⟩
  refine ⟨depth, F.of_sameShape hsh, ?_, ?_, hI.of_sameShape hsh⟩
  · intro i m' p hm' hp
    obtain ⟨m, hm, rfl⟩ := fwd i m' hm'
    rw [← strip_parent (hg i m).1.symm] at hp
    obtain ⟨pm, hpm, hc⟩ := hC i m p hm hp
    refine ⟨g p pm, by rw [hget p, hpm]; rfl, ?_⟩
    rw [(hg i m).2, (hg p pm).2, strip_inc (hg i m).1]
    exact hc
  · intro i m' hm' hp
    obtain ⟨m, hm, rfl⟩ := fwd i m' hm'
    rw [(hg i m).2]
    exact hR i m hm ((strip_parent (hg i m).1).symm.trans hp)

theorem goalStep_inv {o : Obj σ α} (sp : Space σ δ) (s : St σ α δ) (new : Nat) (chk : Bool) (dstate : σ) (hT : StInv o s) :
    StInv o (goalStep sp s new chk dstate).1 := by
  unfold goalStep
  split
  · refine ⟨?_, hT.2⟩
    refine map_treeInv s.motions _ (fun i m => if new = i then { m with inGoal := true } else m) ?_ ?_ (by simp) hT.1
    · intro i m; split <;> exact ⟨rfl, rfl⟩
    · intro i
      show (s.motions.modify new _)[i]? = _
      rw [Array.getElem?_modify]
      by_cases h : new = i
      · simp [h]
      · cases hm : s.motions[i]? <;> simp [h]
  · exact hT

theorem updateBest_loop_motions (o : Obj σ α) (s : St σ α δ) (gs : List Nat) :
    (updateBest.loop o s gs).motions = s.motions ∧ (updateBest.loop o s gs).fuelOut = s.fuelOut := by
  induction gs generalizing s with
  | nil => exact ⟨rfl, rfl⟩
  | cons g rest ih =>
    unfold updateBest.loop
    split
    · rename_i gm _
      split
      · simp only []
        split
        · exact ⟨rfl, rfl⟩
        · exact ih { s with bestGoal := some g, bestCost := gm.cost }
      · exact ih _
    · exact ih _

theorem updateBest_motions (o : Obj σ α) (s : St σ α δ) :
    (updateBest o s).motions = s.motions ∧ (updateBest o s).fuelOut = s.fuelOut := by
  unfold updateBest
  split
  · split <;> exact ⟨rfl, rfl⟩
  · exact updateBest_loop_motions o _ _

theorem finishIter_inv {o : Obj σ α} (sp : Space σ δ) (s : St σ α δ) (new : Nat) (chk : Bool) (dstate : σ) (hT : StInv o s) :
    StInv o (finishIter o sp s new chk dstate) := by
  unfold finishIter
  have h1 := goalStep_inv (o := o) sp s new chk dstate hT
  have h2 : StInv o (bestStep o (goalStep sp s new chk dstate)) := by
    unfold bestStep
    split
    · have := updateBest_motions o (goalStep sp s new chk dstate).1
      exact ⟨by rw [this.1]; exact h1.1, by rw [this.2]; exact h1.2⟩
    · exact h1
  unfold approxStep
  split
  · exact h2
  · exact h2

theorem drawSample_motions (sp : Space σ δ) (s : St σ α δ) :
    (drawSample sp s).2.motions = s.motions ∧ (drawSample sp s).2.fuelOut = s.fuelOut := by
  unfold drawSample
  split
  · split
    · exact ⟨rfl, rfl⟩
    · simp only []
      split
      · exact ⟨rfl, rfl⟩
      · split <;> exact ⟨rfl, rfl⟩
  · split <;> exact ⟨rfl, rfl⟩

/-! ### the ghost `staleInc` is only written by the classic choose-parent loop -/

theorem rewireCheck_stale (sp : Space σ δ) (valid : List (Nat × Int)) (i : Nat) (s : St σ α δ) (mot nb : Motion σ α) :
    (rewireCheck sp valid i s mot nb).2.staleInc = s.staleInc := by
  unfold rewireCheck
  split
  · split
    · exact (checkMotion_frame _ _ _).2.2.2
    · rfl
  · rfl

theorem rewireOne_stale (o : Obj σ α) (sp : Space σ δ) (new : Nat) (valid : List (Nat × Int)) (incs : List α)
    (acc : St σ α δ × Bool) (p : Nat × Nat) : (rewireOne o sp new valid incs acc p).1.staleInc = acc.1.staleInc := by
  unfold rewireOne
  split
  · rename_i mot nb _ _
    split
    · rfl
    · split
      · have hc := rewireCheck_stale sp valid p.1 acc.1 mot nb
        rcases h : rewireCheck sp valid p.1 acc.1 mot nb with ⟨b, s1⟩
        rw [h] at hc
        cases b
        · exact hc
        · exact hc
      · rfl
  · rfl

theorem foldl_rewireOne_stale (o : Obj σ α) (sp : Space σ δ) (new : Nat) (valid : List (Nat × Int)) (incs : List α)
    (l : List (Nat × Nat)) (acc : St σ α δ × Bool) :
    (l.foldl (rewireOne o sp new valid incs) acc).1.staleInc = acc.1.staleInc := by
  induction l generalizing acc with
  | nil => rfl
  | cons p rest ih =>
    simp only [List.foldl_cons]
    exact (ih _).trans (rewireOne_stale o sp new valid incs acc p)

theorem updateBest_loop_stale (o : Obj σ α) (s : St σ α δ) (gs : List Nat) : (updateBest.loop o s gs).staleInc = s.staleInc := by
  induction gs generalizing s with
  | nil => rfl
  | cons g rest ih =>
    unfold updateBest.loop
    split
    · rename_i gm _
      split
      · simp only []
        split
        · rfl
        · exact ih { s with bestGoal := some g, bestCost := gm.cost }
      · exact ih _
    · exact ih _

theorem updateBest_stale (o : Obj σ α) (s : St σ α δ) : (updateBest o s).staleInc = s.staleInc := by
  unfold updateBest
  split
  · split <;> rfl
  · exact updateBest_loop_stale o _ _

theorem finishIter_stale (o : Obj σ α) (sp : Space σ δ) (s : St σ α δ) (new : Nat) (chk : Bool) (dstate : σ) :
    (finishIter o sp s new chk dstate).staleInc = s.staleInc := by
  unfold finishIter
  have h1 : (goalStep sp s new chk dstate).1.staleInc = s.staleInc := by
    unfold goalStep
    split <;> rfl
  have h2 : (bestStep o (goalStep sp s new chk dstate)).staleInc = s.staleInc := by
    unfold bestStep
    split
    · exact (updateBest_stale o _).trans h1
    · exact h1
  unfold approxStep
  split
  · exact h2
  · exact h2

/-- the flag after the rewiring loop and the solution bookkeeping is the flag right after the insertion stage. -/
theorem grow_finish_stale (o : Obj σ α) (sp : Space σ δ) (s : St σ α δ) (nmotion : Nat) (nm : Motion σ α) (dstate : σ) :
    (finishIter o sp (grow o sp s nmotion nm dstate).1 (grow o sp s nmotion nm dstate).2.1 (grow o sp s nmotion nm dstate).2.2
      dstate).staleInc = (growInsert o sp s nmotion nm dstate).st.staleInc := by
  rw [finishIter_stale]
  unfold grow
  simp only []
  exact foldl_rewireOne_stale o sp _ _ _ _ _

/-- one loop pass keeps the invariant — with the classic choose-parent loop (`delayCC_ = false`) provided the pass did not
raise the ghost `staleInc` (the new motion's `incCost` cached for `nmotion` after a better parent had replaced it). -/
theorem iterate_inv {o : Obj σ α} (L : Laws o) (sp : Space σ δ) (s : St σ α δ) (hT : StInv o s)
    (hcl : sp.delayCC = false → sp.classicOld = true → (iterate o sp s).staleInc = false) : StInv o (iterate o sp s) := by
  unfold iterate at hcl ⊢
  have h1 := drawSample_motions sp ({ s with iterations := s.iterations + 1, queries := [] } : St σ α δ)
  simp only [] at hcl ⊢
  split
  · rename_i s1 hd
    rw [hd] at h1
    exact ⟨by rw [h1.1]; exact hT.1, by rw [h1.2]; exact hT.2⟩
  · rename_i rstate s1 hd
    rw [hd] at h1 hcl
    simp only [] at hcl
    have hs1 : StInv o s1 := ⟨by rw [h1.1]; exact hT.1, by rw [h1.2]; exact hT.2⟩
    split
    · exact hs1
    · rename_i nmotion hn
      rw [hn] at hcl
      simp only [] at hcl
      split
      · exact hs1
      · rename_i nm hnm
        rw [hnm] at hcl
        simp only [] at hcl
        have h2 := checkMotion_motions s1 nm.state (steerTo sp nm rstate)
        split
        · rename_i s2 hc
          rw [hc] at h2
          exact ⟨by rw [h2.1]; exact hs1.1, by rw [h2.2]; exact hs1.2⟩
        · rename_i s2 hc
          rw [hc] at h2 hcl
          simp only [] at hcl
          have hs2 : StInv o s2 := ⟨by rw [h2.1]; exact hs1.1, by rw [h2.2]; exact hs1.2⟩
          exact finishIter_inv sp _ _ _ _ (grow_inv L sp s2 nmotion nm (steerTo sp nm rstate) hs2 (by rw [h2.1]; exact hnm)
            (fun hd ho => by rw [← grow_finish_stale]; exact hcl hd ho))

/-- `addStart`: a new root. -/
theorem addStart_inv {o : Obj σ α} (s : St σ α δ) (x : σ) (hT : StInv o s) : StInv o (s.addStart o x) := by
  refine ⟨?_, hT.2⟩
  obtain ⟨depth, F, hC, hR, hI⟩ := hT.1
  show TreeInv o (s.motions.push _)
  generalize hr : ({ state := x, parent := none, cost := o.identity, incCost := o.identity, children := [], inGoal := false } : Motion σ α) = r
  have hget : ∀ i : Nat, (s.motions.push r)[i]? = if i = s.motions.size then some r else s.motions[i]? := by
    intro i; rw [Array.getElem?_push]
  have hold : ∀ (i : Nat) (m : Motion σ α), s.motions[i]? = some m → (s.motions.push r)[i]? = some m := by
    intro i m hm
    have : i ≠ s.motions.size := by have := lt_of_get hm; omega
    rw [hget, if_neg this]; exact hm
  have hfwd : ∀ (i : Nat) (m : Motion σ α), (s.motions.push r)[i]? = some m → i ≠ s.motions.size → s.motions[i]? = some m := by
    intro i m hm hne; rw [hget, if_neg hne] at hm; exact hm
  have hn : (s.motions.push r)[s.motions.size]? = some r := by rw [hget]; simp
  have hrp : r.parent = none := by rw [← hr]
  have hpar : ∀ i p : Nat, Par (s.motions.push r) i p ↔ Par s.motions i p := by
    intro i p
    constructor
    · rintro ⟨m, hm, hp⟩
      by_cases hi : i = s.motions.size
      · subst hi; rw [hn] at hm; cases hm; rw [hrp] at hp; cases hp
      · exact ⟨m, hfwd i m hm hi, hp⟩
    · rintro ⟨m, hm, hp⟩
      exact ⟨m, hold i m hm, hp⟩
  refine ⟨fun i => if i = s.motions.size then 0 else depth i, ?_, ?_, ?_, ?_⟩
  · constructor
    · intro i p hp
      have := F.par_lt i p ((hpar i p).mp hp)
      simp; omega
    · rintro i ⟨m, hm, hp⟩
      by_cases hi : i = s.motions.size
      · simp [hi]
      · simp only [if_neg hi]
        exact F.root_depth i ⟨m, hfwd i m hm hi, hp⟩
    · intro i p hp
      have hp' := (hpar i p).mp hp
      have h1 := F.par_lt i p hp'
      obtain ⟨m, hm, _⟩ := hp'
      have h2 := lt_of_get hm
      have e1 : i ≠ s.motions.size := by omega
      have e2 : p ≠ s.motions.size := by omega
      simp only [if_neg e1, if_neg e2]
      exact F.step_depth i p ⟨m, hm, ‹_›⟩
    · intro p pm c hpm
      rw [hpar]
      by_cases hp : p = s.motions.size
      · subst hp
        rw [hn] at hpm; cases hpm
        rw [← hr]
        simp only [List.not_mem_nil, false_iff]
        intro h
        have := F.par_lt c _ h
        omega
      · exact F.ch_iff p pm c (hfwd p pm hpm hp)
    · intro p pm hpm
      by_cases hp : p = s.motions.size
      · subst hp; rw [hn] at hpm; cases hpm; rw [← hr]; simp
      · exact F.ch_nodup p pm (hfwd p pm hpm hp)
  · intro i m p hm hp
    by_cases hi : i = s.motions.size
    · subst hi; rw [hn] at hm; cases hm; rw [hrp] at hp; cases hp
    · obtain ⟨pm, hpm, hc⟩ := hC i m p (hfwd i m hm hi) hp
      exact ⟨pm, hold p pm hpm, hc⟩
  · intro i m hm hp
    by_cases hi : i = s.motions.size
    · subst hi; rw [hn] at hm; cases hm; rw [← hr]
    · exact hR i m (hfwd i m hm hi) hp
  · intro i m p pm hm hp hpm
    by_cases hi : i = s.motions.size
    · subst hi; rw [hn] at hm; cases hm; rw [hrp] at hp; cases hp
    · have hm0 := hfwd i m hm hi
      have hplt := F.par_lt i p ⟨m, hm0, hp⟩
      exact hI i m p pm hm0 hp (hfwd p pm hpm (by omega))

theorem init_inv (o : Obj σ α) (sp : Space σ δ) : StInv o (St.init o sp : St σ α δ) := by
  refine ⟨⟨fun _ => 0, ?_, ?_, ?_, ?_⟩, rfl⟩
  · constructor
    · rintro i p ⟨m, hm, _⟩; simp [St.init] at hm
    · intro _ _; rfl
    · rintro i p ⟨m, hm, _⟩; simp [St.init] at hm
    · intro p pm c hpm; simp [St.init] at hpm
    · intro p pm hpm; simp [St.init] at hpm
  · intro i m p hm; simp [St.init] at hm
  · intro i m hm; simp [St.init] at hm
  · intro i m p pm hm; simp [St.init] at hm

theorem applyOp_inv {o : Obj σ α} (L : Laws o) (sp : Space σ δ) (s : St σ α δ) (op : Op σ δ) (hT : StInv o s)
    (hcl : sp.delayCC = false → sp.classicOld = true → (applyOp o sp s op).staleInc = false) :
    StInv o (applyOp o sp s op) := by
  cases op with
  | start x => exact addStart_inv s x hT
  | feed us xs as => exact hT
  | beginSolve => exact hT
  | iter => exact iterate_inv L sp s hT hcl

/-- a history is CLEAN when the classic choose-parent loop AS CODED BEFORE fix e1b5ec649 (if that is the loop in use at
all) never raised the ghost `staleInc` along it.  With the current code (`classicOld = false`: either loop) and with the
default `delayCC_ = true` every history is clean (`clean_of_current`, `clean_of_delayCC`). -/
def Clean (o : Obj σ α) (sp : Space σ δ) (s : St σ α δ) (ops : List (Op σ δ)) : Prop :=
  sp.delayCC = false → sp.classicOld = true → ∀ k : Nat, (run o sp s (ops.take k)).staleInc = false

theorem clean_of_delayCC (o : Obj σ α) (sp : Space σ δ) (s : St σ α δ) (ops : List (Op σ δ)) (h : sp.delayCC = true) :
    Clean o sp s ops := fun hd => by rw [h] at hd; cases hd

theorem clean_of_current (o : Obj σ α) (sp : Space σ δ) (s : St σ α δ) (ops : List (Op σ δ)) (h : sp.classicOld = false) :
    Clean o sp s ops := fun _ ho => by rw [h] at ho; cases ho

theorem Clean.tail {o : Obj σ α} {sp : Space σ δ} {s : St σ α δ} {op : Op σ δ} {rest : List (Op σ δ)}
    (h : Clean o sp s (op :: rest)) : Clean o sp (applyOp o sp s op) rest := fun hd ho k => by
  have := h hd ho (k + 1)
  simpa [run, List.take] using this

theorem Clean.head {o : Obj σ α} {sp : Space σ δ} {s : St σ α δ} {op : Op σ δ} {rest : List (Op σ δ)}
    (h : Clean o sp s (op :: rest)) : sp.delayCC = false → sp.classicOld = true → (applyOp o sp s op).staleInc = false := fun hd ho => by
  have := h hd ho 1
  simpa [run, List.take] using this

theorem Clean.prefix {o : Obj σ α} {sp : Space σ δ} {s : St σ α δ} {ops₁ ops₂ : List (Op σ δ)}
    (h : Clean o sp s (ops₁ ++ ops₂)) : Clean o sp s ops₁ := fun hd ho k => by
  have := h hd ho (min k ops₁.length)
  rw [List.take_append_of_le_length (Nat.min_le_right _ _)] at this
  rw [← List.take_take] at this
  simpa using this

theorem run_inv {o : Obj σ α} (L : Laws o) (sp : Space σ δ) (s : St σ α δ) (ops : List (Op σ δ)) (hT : StInv o s)
    (hc : Clean o sp s ops) : StInv o (run o sp s ops) := by
  induction ops generalizing s with
  | nil => exact hT
  | cons op rest ih => exact ih _ (applyOp_inv L sp s op hT hc.head) hc.tail

/-! ### consequences -/

theorem complete_of_depth {ms : Ms σ α} {depth : Nat → Nat} (F : Forest ms depth) :
    ∀ (fuel i : Nat), i < ms.size → depth i < fuel → Complete ms fuel i := by
  intro fuel
  induction fuel with
  | zero => intro i _ h; omega
  | succ f ih =>
    intro i hi hd
    obtain ⟨m, hm⟩ := get_of_lt hi
    unfold Complete
    rw [hm]
    simp only []
    cases hp : m.parent with
    | none => trivial
    | some p =>
      simp only []
      have hpar : Par ms i p := ⟨m, hm, hp⟩
      have := F.step_depth i p hpar
      exact ih p (F.par_lt i p hpar) (by omega)

theorem TreeInv.costOK {o : Obj σ α} {ms : Ms σ α} (hT : TreeInv o ms) : ∀ j : Nat, CostOK o ms j := by
  obtain ⟨depth, F, hC, hR, hI⟩ := hT
  intro j m hm
  cases hp : m.parent with
  | none => exact hR j m hm hp
  | some p =>
    obtain ⟨pm, hpm, hc⟩ := hC j m p hm hp
    exact ⟨pm, hpm, hI j m p pm hm hp hpm, hc⟩

theorem TreeInv.complete {o : Obj σ α} {ms : Ms σ α} (hT : TreeInv o ms) : ∀ i : Nat, i < ms.size → Complete ms ms.size i := by
  obtain ⟨depth, F, _, _, _⟩ := hT
  intro i hi
  exact complete_of_depth F ms.size i hi (F.depth_lt i hi)

theorem TreeInv.children {o : Obj σ α} {ms : Ms σ α} (hT : TreeInv o ms) :
    ∀ (p : Nat) (pm : Motion σ α) (c : Nat), ms[p]? = some pm →
      (c ∈ pm.children ↔ ∃ cm : Motion σ α, ms[c]? = some cm ∧ cm.parent = some p) ∧ pm.children.Nodup := by
  obtain ⟨depth, F, _, _, _⟩ := hT
  intro p pm c hpm
  exact ⟨F.ch_iff p pm c hpm, F.ch_nodup p pm hpm⟩

end OmplModel.RRTstar
