import OmplModel.Proofs.SpaceDistLaws
/-!
Round 10: the whole legal range of compound weights (`addSubspace` / `setSubspaceWeight` reject only negative
values): the weighted-sum clause in closed form for every weight vector, the extent law for weights `0` or `≥ ε`,
the witness that it FAILS for `0 < w < ε` (the `weights_[i] >= epsilon` guard of
`CompoundStateSpace::getMaximumExtent` drops a component that `distance` still counts), and the extent law for every
non-negative weight vector once the guard is `weights_[i] > 0` (the proposed repair).
-/
namespace OmplModel.SpaceDist
open OmplModel
attribute [-instance] OmplModel.Num.instOfNat

/-! ### closed form of the compound distance -/
/-- the compound `[(w₀, s₀), …, (wₙ₋₁, sₙ₋₁)]` as `addSubspace` builds it -/
def compoundOf : List (ℝ × Space ℝ) → Space ℝ
  | [] => .cnil
  | (w, s) :: cs => .ccons w s (compoundOf cs)

/-- a compound state from its component states -/
def stateOf : List (St ℝ) → St ℝ
  | [] => .cnil
  | a :: as => .ccons a (stateOf as)

/-- `Σᵢ wᵢ · dist sᵢ aᵢ bᵢ` -/
noncomputable def weightedSum : List (ℝ × Space ℝ) → List (St ℝ) → List (St ℝ) → ℝ
  | (w, s) :: cs, a :: as, b :: bs => w * dist s a b + weightedSum cs as bs
  | _, _, _ => 0

theorem isCList_compoundOf : ∀ cs, isCList (compoundOf cs) = true
  | [] => rfl
  | (_, _) :: cs => by simpa [compoundOf, isCList] using isCList_compoundOf cs

theorem dist_compoundOf : ∀ (cs : List (ℝ × Space ℝ)) (as bs : List (St ℝ)),
    dist (compoundOf cs) (stateOf as) (stateOf bs) = weightedSum cs as bs
  | [], as, bs => by cases as <;> cases bs <;> simp [compoundOf, stateOf, dist, weightedSum]
  | (w, s) :: cs, [], bs => by cases bs <;> simp [compoundOf, stateOf, dist, weightedSum]
  | (w, s) :: cs, a :: as, [] => by simp [compoundOf, stateOf, dist, weightedSum]
  | (w, s) :: cs, a :: as, b :: bs => by
    simp only [compoundOf, stateOf, weightedSum]
    rw [dist_ccons w s _ (isCList_compoundOf cs), dist_compoundOf cs as bs]

/-! ### extent: what the guard `weights_[i] >= epsilon` does -/
theorem maxExtent_ccons_drop (w : ℝ) (h t : Space ℝ) (ht : isCList t = true) (hw : w < (eps : ℝ)) :
    maxExtent (.ccons w h t) = maxExtent t := by
  have hw' : ¬ @LE.le ℝ instNumReal.toLE eps w := not_le.mpr hw
  rw [maxExtent, extentAcc_eq t ht, if_neg hw']; simp

/-- one compound step for a weight that is `0` (the component counts neither in the distance nor in the extent) or
`≥ ε` (it counts in both) -/
theorem compound_extent_step0 (w : ℝ) (h t : Space ℝ) (hw : w = 0 ∨ (eps : ℝ) ≤ w) (ht : isCList t = true)
    (Eh : ExtentLaw h) (Et : ExtentLaw t) : ExtentLaw (.ccons w h t) := by
  rcases hw with rfl | hw
  · intro a b ha hb
    obtain ⟨a1, a2, rfl, ha1, ha2⟩ := ccons_shape ha
    obtain ⟨b1, b2, rfl, hb1, hb2⟩ := ccons_shape hb
    rw [dist_ccons 0 h t ht, maxExtent_ccons_drop 0 h t ht eps_pos]
    have := Et a2 b2 ha2 hb2
    linarith
  · exact compound_extent_step w h t hw ht Eh Et

theorem compound_extent_aux0 (sp : Space ℝ) (h : AllLeaves (fun w => w = 0 ∨ (eps : ℝ) ≤ w) ExtentLaw sp) :
    ExtentLaw sp := by
  induction sp with
  | cnil => exact cnil_extent
  | ccons w hd tl ih1 ih2 =>
    obtain ⟨hw, h1, h2, hl⟩ := h
    exact compound_extent_step0 w hd tl hw hl (ih1 h1) (ih2 h2)
  | wrap s ih => exact (wrap_extent_iff s).2 (ih h)
  | _ => exact h

/-- the witness space: `[(1, time [0,1]), (2⁻⁵³, time [0, 2⁶⁰])]` — the second weight is legal (positive) and below
`ε = 2⁻⁵²`; its weighted range is `2⁻⁵³ · 2⁶⁰ = 128` -/
noncomputable def subEpsSpace : Space ℝ :=
  .ccons 1 (.time true 0 1) (.ccons (1 / 2 ^ 53) (.time true 0 (2 ^ 60)) .cnil)

theorem subEps_weight_legal : (0 : ℝ) < 1 / 2 ^ 53 ∧ (1 / 2 ^ 53 : ℝ) < eps := by
  rw [eps_real]; constructor <;> norm_num

theorem subEps_extent : maxExtent subEpsSpace = 1 := by
  have h1 : (eps : ℝ) ≤ 1 := by rw [eps_real]; norm_num
  unfold subEpsSpace
  rw [maxExtent_ccons 1 _ _ rfl h1, maxExtent_ccons_drop _ _ _ rfl subEps_weight_legal.2]
  simp [maxExtent, timeExtent_true_real]

theorem subEps_dist :
    dist subEpsSpace (.ccons (.time 0) (.ccons (.time 0) .cnil)) (.ccons (.time 0) (.ccons (.time (2 ^ 60)) .cnil)) = 128 := by
  unfold subEpsSpace
  rw [dist_ccons _ _ _ rfl, dist_ccons _ _ _ rfl]
  simp only [dist, timeDist_real]
  norm_num

theorem subEps_extent_fails : ¬ ExtentLaw subEpsSpace := by
  intro h
  have := h (.ccons (.time 0) (.ccons (.time 0) .cnil)) (.ccons (.time 0) (.ccons (.time (2 ^ 60)) .cnil))
    (by simp [subEpsSpace, inDom]) (by simp [subEpsSpace, inDom])
  rw [subEps_dist, subEps_extent] at this
  norm_num at this

/-! ### the repaired guard `weights_[i] > 0` -/
/-- `getMaximumExtent` with the guard `weights_[i] > 0.0` in `CompoundStateSpace` (notes/C06-fix-F360.diff); every
other clause as `maxExtent` -/
noncomputable def maxExtentFixed : Space ℝ → ℝ
  | .ccons w h t => (if 0 < w then w * maxExtentFixed h else 0) + maxExtentFixed t
  | .wrap s => maxExtentFixed s
  | s => maxExtent s

/-- the sixth law with the repaired extent -/
def ExtentLawFixed (sp : Space ℝ) : Prop := ∀ a b, inDom sp a → inDom sp b → dist sp a b ≤ maxExtentFixed sp

/-- the leaves' extents are untouched by the repair -/
def LeafExtent (sp : Space ℝ) : Prop := ExtentLaw sp ∧ maxExtentFixed sp = maxExtent sp

theorem compound_extent_fixed_aux (sp : Space ℝ) (h : AllLeaves (fun w => 0 ≤ w) LeafExtent sp) :
    ExtentLawFixed sp := by
  induction sp with
  | cnil => intro a b _ _; simp [dist, maxExtentFixed, maxExtent]
  | ccons w hd tl ih1 ih2 =>
    obtain ⟨hw, h1, h2, hl⟩ := h
    intro a b ha hb
    obtain ⟨a1, a2, rfl, ha1, ha2⟩ := ccons_shape ha
    obtain ⟨b1, b2, rfl, hb1, hb2⟩ := ccons_shape hb
    rw [dist_ccons w hd tl hl, maxExtentFixed]
    have e1 := ih1 h1 a1 b1 ha1 hb1
    have e2 := ih2 h2 a2 b2 ha2 hb2
    split_ifs with hp
    · have := mul_le_mul_of_nonneg_left e1 hw
      linarith
    · have : w = 0 := le_antisymm (not_lt.mp hp) hw
      subst this
      linarith
  | wrap s ih =>
    intro a b ha hb
    simpa [dist, maxExtentFixed] using ih h a b (by simpa [inDom] using ha) (by simpa [inDom] using hb)
  | rv lo hi => intro a b ha hb; rw [h.2]; exact h.1 a b ha hb
  | so2 => intro a b ha hb; rw [h.2]; exact h.1 a b ha hb
  | so3 => intro a b ha hb; rw [h.2]; exact h.1 a b ha hb
  | time bd lo hi => intro a b ha hb; rw [h.2]; exact h.1 a b ha hb
  | disc lo hi => intro a b ha hb; rw [h.2]; exact h.1 a b ha hb
  | torus R r => intro a b ha hb; rw [h.2]; exact h.1 a b ha hb
  | mobius i r => intro a b ha hb; rw [h.2]; exact h.1 a b ha hb
  | klein => intro a b ha hb; rw [h.2]; exact h.1 a b ha hb
  | sphere r => intro a b ha hb; rw [h.2]; exact h.1 a b ha hb

/-- the repair closes the witness: the repaired extent of `subEpsSpace` is `1 + 128` -/
theorem subEps_extent_fixed : maxExtentFixed subEpsSpace = 129 := by
  unfold subEpsSpace
  simp only [maxExtentFixed, maxExtent, timeExtent_true_real]
  norm_num

end OmplModel.SpaceDist
