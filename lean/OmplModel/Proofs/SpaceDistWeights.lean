import OmplModel.Proofs.SpaceDistLaws
/-!
Round 10: the whole legal range of compound weights (`addSubspace` / `setSubspaceWeight` reject only negative
values): the weighted-sum clause in closed form for every weight vector, and the witness that the extent law FAILED for
`0 < w < ε` under the former guard `weights_[i] >= epsilon` of `CompoundStateSpace::getMaximumExtent` (`maxExtentOld`; F360,
fixed by bb83952a6).  The extent law of the code as it stands, for every non-negative weight vector, is
`compound_extent_aux` in SpaceDistLaws.
-/
namespace OmplModel.SpaceDist
open OmplModel
attribute [-instance] OmplModel.Num.instOfNat

/-! ### closed form of the compound distance -/
/-- the compound `[(w₀, s₀), …, (wₙ₋₁, sₙ₋₁)]` as `addSubspace` builds it -/
def compoundOf : List (ℝ × Space ℝ) → Space ℝ
  | [] => .cnil
  | (w, s) :: cs => .ccons w s (compoundOf cs)

/-- a compound state from its component states -/
def stateOf : List (St ℝ) → St ℝ
  | [] => .cnil
  | a :: as => .ccons a (stateOf as)

/-- `Σᵢ wᵢ · dist sᵢ aᵢ bᵢ` -/
noncomputable def weightedSum : List (ℝ × Space ℝ) → List (St ℝ) → List (St ℝ) → ℝ
  | (w, s) :: cs, a :: as, b :: bs => w * dist s a b + weightedSum cs as bs
  | _, _, _ => 0

theorem isCList_compoundOf : ∀ cs, isCList (compoundOf cs) = true
  | [] => rfl
  | (_, _) :: cs => by simpa [compoundOf, isCList] using isCList_compoundOf cs

theorem dist_compoundOf : ∀ (cs : List (ℝ × Space ℝ)) (as bs : List (St ℝ)),
    dist (compoundOf cs) (stateOf as) (stateOf bs) = weightedSum cs as bs
  | [], as, bs => by cases as <;> cases bs <;> simp [compoundOf, stateOf, dist, weightedSum]
  | (w, s) :: cs, [], bs => by cases bs <;> simp [compoundOf, stateOf, dist, weightedSum]
  | (w, s) :: cs, a :: as, [] => by simp [compoundOf, stateOf, dist, weightedSum]
  | (w, s) :: cs, a :: as, b :: bs => by
    simp only [compoundOf, stateOf, weightedSum]
    rw [dist_ccons w s _ (isCList_compoundOf cs), dist_compoundOf cs as bs]

/-- item D: the well-formedness of compound tails (`isCList`) is ESTABLISHED, not assumed, for everything `addSubspace`
builds: the laws of a compound from the laws of its components and positive weights, with no shape hypothesis -/
theorem laws_compoundOf : ∀ (cs : List (ℝ × Space ℝ)), (∀ c ∈ cs, 0 < c.1 ∧ Laws c.2) → Laws (compoundOf cs)
  | [], _ => cnil_laws
  | (w, s) :: cs, h =>
    compound_laws w s (compoundOf cs) (h (w, s) (by simp)).1 (isCList_compoundOf cs) (h (w, s) (by simp)).2
      (laws_compoundOf cs (fun c hc => h c (by simp [hc])))

theorem extent_compoundOf : ∀ (cs : List (ℝ × Space ℝ)), (∀ c ∈ cs, 0 ≤ c.1 ∧ ExtentLaw c.2) → ExtentLaw (compoundOf cs)
  | [], _ => cnil_extent
  | (w, s) :: cs, h =>
    compound_extent_step w s (compoundOf cs) (h (w, s) (by simp)).1 (isCList_compoundOf cs) (h (w, s) (by simp)).2
      (extent_compoundOf cs (fun c hc => h c (by simp [hc])))

/-! ### the FORMER guard `weights_[i] >= epsilon` (before bb83952a6): witness of F360 -/
theorem extentAccOld_eq : ∀ (t : Space ℝ), isCList t = true → ∀ (acc : ℝ),
    extentAccOld acc t = acc + maxExtentOld t := by
  intro t
  induction t with
  | cnil => intro _ acc; simp [extentAccOld, maxExtentOld, maxExtent]
  | ccons w h t _ ih =>
    intro ht acc
    have ht' : isCList t = true := by simpa [isCList] using ht
    rw [extentAccOld, maxExtentOld, ih ht', ih ht']
    split_ifs <;> simp
    ring
  | _ => intro ht; simp [isCList] at ht

theorem maxExtentOld_ccons (w : ℝ) (h t : Space ℝ) (ht : isCList t = true) (hw : (eps : ℝ) ≤ w) :
    maxExtentOld (.ccons w h t) = w * maxExtentOld h + maxExtentOld t := by
  have hw' : @LE.le ℝ instNumReal.toLE eps w := hw
  rw [maxExtentOld, extentAccOld_eq t ht, if_pos hw']; simp

theorem maxExtentOld_ccons_drop (w : ℝ) (h t : Space ℝ) (ht : isCList t = true) (hw : w < (eps : ℝ)) :
    maxExtentOld (.ccons w h t) = maxExtentOld t := by
  have hw' : ¬ @LE.le ℝ instNumReal.toLE eps w := not_le.mpr hw
  rw [maxExtentOld, extentAccOld_eq t ht, if_neg hw']; simp

/-- the witness space: `[(1, time [0,1]), (2⁻⁵³, time [0, 2⁶⁰])]` — the second weight is legal (positive) and below
`ε = 2⁻⁵²`; its weighted range is `2⁻⁵³ · 2⁶⁰ = 128` -/
noncomputable def subEpsSpace : Space ℝ :=
  .ccons 1 (.time true 0 1) (.ccons (1 / 2 ^ 53) (.time true 0 (2 ^ 60)) .cnil)

theorem subEps_weight_legal : (0 : ℝ) < 1 / 2 ^ 53 ∧ (1 / 2 ^ 53 : ℝ) < eps := by
  rw [eps_real]; constructor <;> norm_num

theorem subEps_extent_old : maxExtentOld subEpsSpace = 1 := by
  have h1 : (eps : ℝ) ≤ 1 := by rw [eps_real]; norm_num
  unfold subEpsSpace
  rw [maxExtentOld_ccons 1 _ _ rfl h1, maxExtentOld_ccons_drop _ _ _ rfl subEps_weight_legal.2]
  simp [maxExtentOld, maxExtent, timeExtent_true_real]

theorem subEps_dist :
    dist subEpsSpace (.ccons (.time 0) (.ccons (.time 0) .cnil)) (.ccons (.time 0) (.ccons (.time (2 ^ 60)) .cnil)) = 128 := by
  unfold subEpsSpace
  rw [dist_ccons _ _ _ rfl, dist_ccons _ _ _ rfl]
  simp only [dist, timeDist_real]
  norm_num

/-- with the old guard the extent law failed on the witness -/
theorem subEps_extent_old_fails :
    ¬ (∀ a b, inDom subEpsSpace a → inDom subEpsSpace b → dist subEpsSpace a b ≤ maxExtentOld subEpsSpace) := by
  intro h
  have := h (.ccons (.time 0) (.ccons (.time 0) .cnil)) (.ccons (.time 0) (.ccons (.time (2 ^ 60)) .cnil))
    (by simp [subEpsSpace, inDom]) (by simp [subEpsSpace, inDom])
  rw [subEps_dist, subEps_extent_old] at this
  norm_num at this

/-- the code as it stands (guard `> 0`): the extent of the witness is `1 + 128` -/
theorem subEps_extent : maxExtent subEpsSpace = 129 := by
  unfold subEpsSpace
  rw [maxExtent_ccons _ _ _ rfl (by norm_num), maxExtent_ccons _ _ _ rfl (by norm_num)]
  simp only [maxExtent, timeExtent_true_real]
  norm_num

end OmplModel.SpaceDist
