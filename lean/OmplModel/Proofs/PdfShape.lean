import OmplModel.Model.Pdf
namespace OmplModel.Pdf
variable {α : Type}

def ShapeSizes : Nat → List Nat → Prop
  | n, [] => n = 0
  | n, k :: ks => k = n ∧ 0 < n ∧ (if n = 1 then ks = [] else ShapeSizes ((n + 1) / 2) ks)

/-- the rows above a row of `n ≥ 1` cells -/
def Above (n : Nat) (ks : List Nat) : Prop := if n = 1 then ks = [] else ShapeSizes ((n + 1) / 2) ks

def sizes (t : List (Array α)) : List Nat := t.map Array.size

theorem shapeSizes_cons (n k : Nat) (ks : List Nat) :
    ShapeSizes n (k :: ks) ↔ k = n ∧ 0 < n ∧ Above n ks := Iff.rfl

@[simp] theorem sizes_nil : sizes ([] : List (Array α)) = [] := rfl
@[simp] theorem sizes_cons (r : Array α) (rs) : sizes (r :: rs) = r.size :: sizes rs := rfl

theorem sizes_bump [WOps α] (d : α) : ∀ (rs : List (Array α)) (i : Nat), sizes (bump d rs i) = sizes rs
  | [], _ => rfl
  | r :: rs, i => by simp [bump, sizes_bump d rs]

theorem size_modBack (f : α → α) (r : Array α) : (modBack f r).size = r.size := by simp [modBack]

theorem sizes_map_modBack (f : α → α) (rs : List (Array α)) : sizes (rs.map (modBack f)) = sizes rs := by
  induction rs with
  | nil => rfl
  | cons r rs ih => simp [size_modBack, ih]

theorem above_addRows [WOps α] (w : α) : ∀ (rs : List (Array α)) (prev : Array α) (n : Nat),
    1 ≤ n → prev.size = n + 1 → Above n (sizes rs) → Above (n + 1) (sizes (addRows w prev rs))
  | [], prev, n, hn, hp, ha => by
    unfold Above at ha
    have h1 : n = 1 := by
      by_cases h : n = 1
      · exact h
      · simp [h, ShapeSizes] at ha; omega
    subst h1
    have h0 : prev[0]? = some prev[0] := by simp [hp]
    have h1 : prev[1]? = some prev[1] := by simp [hp]
    simp [addRows, h0, h1, Above, ShapeSizes]
  | r :: rs, prev, n, hn, hp, ha => by
    unfold Above at ha
    have hn1 : n ≠ 1 := by
      intro h; simp [h] at ha
    simp only [hn1, if_false, sizes_cons, shapeSizes_cons] at ha
    obtain ⟨hr, hm, hab⟩ := ha
    unfold addRows
    by_cases hodd : prev.size % 2 = 1
    · simp only [hodd, if_true, sizes_cons]
      unfold Above
      have : n + 1 ≠ 1 := by omega
      simp only [this, if_false, shapeSizes_cons]
      refine ⟨by simp; omega, by omega, ?_⟩
      have := above_addRows w rs (r.push w) ((n + 1) / 2) (by omega) (by simp; omega) hab
      have e : (n + 1 + 1) / 2 = (n + 1) / 2 + 1 := by omega
      rw [e]; exact this
    · simp only [hodd, if_false]
      rw [sizes_map_modBack]
      unfold Above
      have : n + 1 ≠ 1 := by omega
      simp only [this, if_false, sizes_cons, shapeSizes_cons]
      have e : (n + 1 + 1) / 2 = (n + 1) / 2 := by omega
      rw [e]
      exact ⟨hr, hm, hab⟩


theorem popLoop_ne_nil [WOps α] (w : α) (k : Nat) (r : Array α) (rs : List (Array α)) :
    (popLoop w k (r :: rs)).1 ≠ [] := by
  unfold popLoop
  split
  · split <;> simp
  · simp

theorem above_popLoop [WOps α] (w : α) : ∀ (rs : List (Array α)) (n k : Nat), 2 ≤ n → k = n - 1 →
    Above n (sizes rs) →
    Above (n - 1) (sizes (if (popLoop w k rs).2 then (popLoop w k rs).1.dropLast else (popLoop w k rs).1))
  | [], n, k, hn, hk, ha => by
    unfold Above at ha
    have hn1 : n ≠ 1 := by omega
    simp [hn1, ShapeSizes] at ha
    omega
  | r :: rs, n, k, hn, hk, ha => by
    subst hk
    unfold Above at ha
    have hn1 : n ≠ 1 := by omega
    simp only [hn1, if_false, sizes_cons, shapeSizes_cons] at ha
    obtain ⟨hr, hm, hab⟩ := ha
    unfold popLoop
    by_cases h1 : 1 < n - 1
    · simp only [h1, if_true]
      by_cases hev : (n - 1) % 2 = 0
      · simp only [hev, if_true]
        have hps : r.pop.size = (n + 1) / 2 - 1 := by simp [hr]
        have ih := above_popLoop w rs ((n + 1) / 2) r.pop.size (by omega) hps hab
        have hne : n - 1 ≠ 1 := by omega
        have e : (n - 1 + 1) / 2 = (n + 1) / 2 - 1 := by omega
        cases rs with
        | nil =>
          unfold Above at hab
          have : (n + 1) / 2 ≠ 1 := by omega
          simp [this, ShapeSizes] at hab
          omega
        | cons r2 rs2 =>
          have hne2 := popLoop_ne_nil w r.pop.size r2 rs2
          by_cases hf : (popLoop w r.pop.size (r2 :: rs2)).2 = true
          · simp only [hf, if_true] at ih ⊢
            rw [List.dropLast_cons_of_ne_nil hne2]
            unfold Above
            simp only [hne, if_false, sizes_cons, shapeSizes_cons, e]
            exact ⟨hps, by omega, ih⟩
          · simp only [hf, Bool.false_eq_true, if_false] at ih ⊢
            unfold Above
            simp only [hne, if_false, sizes_cons, shapeSizes_cons, e]
            exact ⟨hps, by omega, ih⟩
      · simp only [hev, if_false]
        have hne : n - 1 ≠ 1 := by omega
        unfold Above
        simp only [hne, if_false, Bool.false_eq_true]
        rw [sizes_map_modBack]
        have e : (n - 1 + 1) / 2 = (n + 1) / 2 := by omega
        simp only [sizes_cons, shapeSizes_cons, e]
        exact ⟨hr, hm, hab⟩
    · simp only [h1, if_false, if_true]
      have hn2 : n = 2 := by omega
      subst hn2
      unfold Above at hab
      simp at hab
      cases rs with
      | nil => simp [Above]
      | cons a b => simp [sizes] at hab

/-- shape of the result of the pop phase of `remove` -/
theorem shape_popPhase [WOps α] (w : α) (r0 : Array α) (rs : List (Array α)) (n : Nat) (hn : 2 ≤ n)
    (h : ShapeSizes n (sizes (r0 :: rs))) : ShapeSizes (n - 1) (sizes (popPhase w r0 rs)) := by
  simp only [sizes_cons, shapeSizes_cons] at h
  obtain ⟨hr, _, hab⟩ := h
  have hps : r0.pop.size = n - 1 := by simp [hr]
  have key := above_popLoop w rs n r0.pop.size hn hps hab
  unfold popPhase
  cases rs with
  | nil =>
    unfold Above at hab
    have : n ≠ 1 := by omega
    simp [this, ShapeSizes] at hab
    omega
  | cons r2 rs2 =>
    have hne2 := popLoop_ne_nil w r0.pop.size r2 rs2
    by_cases hf : (popLoop w r0.pop.size (r2 :: rs2)).2 = true
    · simp only [hf, if_true] at key ⊢
      rw [List.dropLast_cons_of_ne_nil hne2]
      simp only [sizes_cons, shapeSizes_cons]
      exact ⟨hps, by omega, key⟩
    · simp only [hf, Bool.false_eq_true, if_false] at key ⊢
      simp only [sizes_cons, shapeSizes_cons]
      exact ⟨hps, by omega, key⟩

/-- `ShapeInv`: `tree_` is empty iff the structure is, row 0 has `n` cells, row `i+1` has
`⌈|row i|/2⌉` cells, the last row has one.  Arithmetic-free: holds for every weight type. -/
def ShapeInv (s : Pdf α) : Prop := ShapeSizes s.data.size (sizes s.tree)

theorem shapeSizes_zero_iff (ks : List Nat) : ShapeSizes 0 ks ↔ ks = [] := by
  cases ks with
  | nil => simp [ShapeSizes]
  | cons k ks => simp [ShapeSizes]

theorem sizes_eq_nil (t : List (Array α)) : sizes t = [] ↔ t = [] := by
  cases t <;> simp [sizes]

theorem shapeInv_empty : ShapeInv (Pdf.empty : Pdf α) := by
  simp [ShapeInv, Pdf.empty, ShapeSizes]

theorem shapeInv_clear (s : Pdf α) : ShapeInv s.clear := by
  simp [ShapeInv, Pdf.clear, ShapeSizes]

theorem shapeInv_add [WOps α] (s : Pdf α) (w : α) (h : ShapeInv s) : ShapeInv (s.add w) := by
  unfold Pdf.add
  split
  · exact h
  · unfold ShapeInv at h ⊢
    simp only [Array.size_push]
    by_cases h0 : s.data.size = 0
    · rw [h0, shapeSizes_zero_iff, sizes_eq_nil] at h
      simp [h0, h, sizes, ShapeSizes]
    · simp only [h0, if_false]
      cases ht : s.tree with
      | nil =>
        rw [ht] at h
        exact absurd ((shapeSizes_zero_iff _).mpr rfl ▸ (by simpa [ShapeSizes] using h) : s.data.size = 0) h0
      | cons r0 rs =>
        rw [ht] at h
        simp only [sizes_cons, shapeSizes_cons] at h ⊢
        obtain ⟨hr, hn, hab⟩ := h
        refine ⟨by simp [hr], by omega, ?_⟩
        exact above_addRows w rs (r0.push w) s.data.size (by omega) (by simp [hr]) hab

theorem shapeInv_update [WOps α] (s : Pdf α) (h : Nat) (w : α) (hs : ShapeInv s) :
    ShapeInv (s.update h w) := by
  unfold Pdf.update
  split
  · exact hs
  · split
    · exact hs
    · split
      · exact hs
      · rename_i r0 rs ht
        split
        · unfold ShapeInv at hs ⊢
          rw [ht] at hs
          simpa [sizes_bump] using hs
        · exact hs

theorem shapeInv_remove [WOps α] (s : Pdf α) (h : Nat) (hs : ShapeInv s) : ShapeInv (s.remove h) := by
  unfold Pdf.remove
  split
  · exact hs
  · rename_i i _
    split
    · rename_i hd
      split
      · simp [ShapeInv, ShapeSizes]
      · rename_i hne1
        split
        · exact hs
        · rename_i r0 rs ht
          have hn2 : 2 ≤ s.data.size := by omega
          unfold ShapeInv at hs
          rw [ht] at hs
          split
          · rename_i hr
            simp only
            split
            · unfold ShapeInv
              simp only [Array.size_pop]
              exact shape_popPhase _ r0 rs _ hn2 hs
            · split
              · unfold ShapeInv
                simp only [Array.size_pop, Array.size_swap]
                apply shape_popPhase _ _ rs _ hn2
                simpa using hs
              · unfold ShapeInv
                simp only [Array.size_pop, Array.size_swap]
                apply shape_popPhase _ _ _ _ hn2
                simpa [sizes_bump] using hs
          · unfold ShapeInv; rw [ht]; exact hs
    · exact hs

theorem shapeInv_step [WOps α] (s : Pdf α) (op : Op α) (hs : ShapeInv s) : ShapeInv (s.step op) := by
  cases op with
  | add w => exact shapeInv_add s w hs
  | update h w => exact shapeInv_update s h w hs
  | remove h => exact shapeInv_remove s h hs
  | clear => exact shapeInv_clear s
  | sample r => exact hs

theorem shapeInv_run [WOps α] (ops : List (Op α)) : ∀ (s : Pdf α), ShapeInv s → ShapeInv (s.run ops) := by
  induction ops with
  | nil => intro s hs; exact hs
  | cons op ops ih => intro s hs; exact ih _ (shapeInv_step s op hs)

/-! ### index safety of the fixed descent: from the shape alone -/

theorem stepDown_lt [WOps α] (c : Array α) (j : Nat) (x : α) (m : Nat) (hm : c.size = m)
    (hj : j < (m + 1) / 2) : (stepDown c j x).1 < m := by
  unfold stepDown
  split
  · split <;> simp <;> omega
  · simp; omega

theorem walk_lt [WOps α] : ∀ (t : List (Array α)) (n : Nat) (x : α), 0 < n → ShapeSizes n (sizes t) →
    (walk t x).1 < n
  | [], n, x, hn, h => by simp [ShapeSizes] at h; omega
  | [_], n, x, hn, h => by simp [walk]; exact hn
  | c :: p :: rs, n, x, hn, h => by
    simp only [sizes_cons, shapeSizes_cons] at h
    obtain ⟨hc, _, hab⟩ := h
    unfold Above at hab
    by_cases h1 : n = 1
    · simp [h1, sizes] at hab
    · simp only [h1, if_false] at hab
      have ih := walk_lt (p :: rs) ((n + 1) / 2) x (by omega) (by simpa using hab)
      unfold walk
      exact stepDown_lt c _ _ n hc ih

theorem total_isSome (t : List (Array α)) (n : Nat) (hn : 0 < n) (h : ShapeSizes n (sizes t)) :
    (total? t).isSome := by
  induction t generalizing n with
  | nil => simp [ShapeSizes] at h; omega
  | cons r rs ih =>
    simp only [sizes_cons, shapeSizes_cons] at h
    obtain ⟨hr, _, hab⟩ := h
    cases rs with
    | nil => simp [total?, hr]; omega
    | cons r2 rs2 =>
      unfold Above at hab
      by_cases h1 : n = 1
      · simp [h1, sizes] at hab
      · simp only [h1, if_false] at hab
        have := ih ((n + 1) / 2) (by omega) hab
        simpa [total?, List.getLast?_cons_cons] using this

theorem above_cons (n k : Nat) (ks : List Nat) :
    Above n (k :: ks) ↔ n ≠ 1 ∧ k = (n + 1) / 2 ∧ 0 < (n + 1) / 2 ∧ Above ((n + 1) / 2) ks := by
  unfold Above
  by_cases h : n = 1
  · simp [h]
  · simp only [h, if_false, shapeSizes_cons, ne_eq, not_false_eq_true, true_and]
    rfl

theorem above_nil (n : Nat) (hn : 0 < n) : Above n [] ↔ n = 1 := by
  unfold Above
  by_cases h : n = 1
  · simp [h]
  · simp [h, ShapeSizes]; omega

end OmplModel.Pdf
