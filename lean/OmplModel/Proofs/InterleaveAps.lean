import OmplModel.Model.InterleaveAps
import OmplModel.Proofs.InterleaveRound2
/-! AnytimePathShortening bookkeeping: once initialised, every report keeps `bestCost_` = min of the stored costs. -/
namespace OmplModel.Interleave

theorem abest_step (a : AStep) (s : AStore) (ha : a.isReport) (h : ABestIsMin s) : ABestIsMin (AStep.apply a s) := by
  obtain ⟨h0, h1, h2⟩ := h
  cases a with
  | init => exact absurd ha (by simp [AStep.isReport])
  | report self c =>
    simp only [AStep.apply]
    cases hb : s.best with
    | nan => exact absurd hb h0
    | inf =>
      -- nothing stored yet (a stored cost would force a value)
      have hempty : s.stored = [] := by
        cases hs : s.stored with
        | nil => rfl
        | cons x xs =>
          obtain ⟨b, hbv, _⟩ := h1 x (by rw [hs]; exact List.mem_cons_self)
          rw [hb] at hbv; cases hbv
      simp only [Best.better, ↓reduceIte, hempty, List.nil_append]
      refine ⟨by simp, ?_, ?_⟩
      · intro c' hc'; simp at hc'; subst hc'; exact ⟨c', rfl, Nat.le_refl _⟩
      · intro b hbv; cases hbv; simp
    | val b =>
      simp only [Best.better]
      by_cases hlt : c < b
      · simp only [hlt, decide_true, ↓reduceIte]
        refine ⟨by simp, ?_, ?_⟩
        · intro c' hc'
          simp only [List.mem_append, List.mem_singleton] at hc'
          rcases hc' with hc' | hc'
          · obtain ⟨b', hb', hle⟩ := h1 c' hc'
            rw [hb] at hb'; cases hb'
            exact ⟨c, rfl, by omega⟩
          · subst hc'; exact ⟨c', rfl, Nat.le_refl _⟩
        · intro b' hb'; cases hb'; simp
      · simp only [hlt, decide_false, Bool.false_eq_true, ↓reduceIte]
        cases self with
        | true => simp only [↓reduceIte]; exact ⟨h0, h1, h2⟩
        | false =>
          simp only [Bool.false_eq_true, ↓reduceIte]
          refine ⟨by simp, ?_, ?_⟩
          · intro c' hc'
            simp only [List.mem_append, List.mem_singleton] at hc'
            rcases hc' with hc' | hc'
            · simpa [hb] using h1 c' hc'
            · subst hc'; exact ⟨b, by simp, by omega⟩
          · intro b' hb'
            exact List.mem_append_left _ (h2 b' (by simpa [hb] using hb'))

end OmplModel.Interleave
