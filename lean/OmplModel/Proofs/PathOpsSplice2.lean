/-
Proofs about the splices of findBetterGoal (`bgSplice`) and perturbPath (`ppSplice`) of
`OmplModel.Model.PathOpsSplice2`.  Core Lean only.

Layout
* list helpers: every intermediate vector is kept in the normal form
  `st.take a ++ M ++ st.drop b` (`M` explicit); one lemma per C++ primitive on that form;
* canonical forms: `bgSplice_snap`, `bgSplice_seg_last`, `bgSplice_seg_mid`, `bgSplice_seg`; the nine
  cases of perturbPath `ppSplice_ff_same`, `ppSplice_ff_1`, `ppSplice_ff_2`, `ppSplice_ff_far`,
  `ppSplice_tt`, `ppSplice_ft_far`, `ppSplice_ft_adj`, `ppSplice_tf_far`, `ppSplice_tf_same`, their
  unions `ppSplice_ff/_ft/_tf` and the uniform `ppSplice_canon`;
* `bgSplice_spec`, `ppSplice_spec`: ends and motions of the result;
* `bgSplice_snap_last_none`, `ppSplice_ft_needs_lt`: what happens outside the side conditions.

Where the C++ gets the side conditions from (line numbers of PathSimplifier.cpp)

findBetterGoal
* `st.length ≥ 2`: `if (path.getStateCount() < 2) return false;` (l. 877).
* `t ≤ dists.back()` (l. 928), so `end = lower_bound(dists, t)` is a valid index `≤ size - 1` (l. 931);
  `start` walks down from `end` while `*start >= t` (l. 933): `start = end` only for `end = 0`,
  otherwise `start = end - 1` (all entries in front of a lower bound are `< t`).  After the two snap
  tests (l. 940-943) either `startIndex = endIndex` (snapped; then `state = states[startIndex]`,
  l. 950) or `endIndex = startIndex + 1 ≤ size - 1` (then `state` is interpolated, l. 955).
* snapped case, `startIndex + 1 < size`: NOT from the index logic (the point can be snapped to the
  last vertex `end = size - 1`) but from the cost test in front of the block (l. 965): for
  `startIndex = size - 1`, `candidateCost = combineCosts(costs.back(), motionCost(state, tempGoal))`
  and `isCostBetterThan(candidateCost, costs.back())` is false for every objective whose
  `combineCosts(c, x)` is never better than `c` (path length: `c + x < c` is false for `x ≥ 0` or NaN;
  min-clearance: `min(c, x) > c` is false).  For an objective without that monotonicity the block
  would write `states[size]`: `bgSplice_snap_last_none`.

perturbPath (`selectAlongPath`, l. 1023-1057, called for `distTo - stepSize/2` and `distTo + stepSize/2`)
* `index ≥ 0` (`idx = true`): `index = pos ∈ [0, size - 1]` (`pos` is a lower bound of a value clamped
  to `≤ dists.back()`, l. 1027-1037, or a smaller index, l. 1040-1043).
* `index = -1` (`idx = false`): the walk-down loop (l. 1040) ran at least once, because
  `dists[pos] - distTo > threshold ≥ 0`; so `pos + 1 ≤ size - 1`, i.e. `posA + 1 < st.length`.
* `posB ≤ posA`: `selectAlongPath` is monotone in `distTo` (lower bounds are monotone; if both have the
  same lower bound `lb` and the larger one is not snapped up to `lb`, neither is the smaller one,
  and both walk down to `lb - 1`), and `stepSize ≥ 0`.
* `idxA = true → posB < posA`:
  - `idxB = true`: `posB ≤ posA` and the `continue` for `index_before == index_after` (l. 565);
  - `idxB = false`: `posB = posA` would put `before` strictly inside `(posB, posB + 1)` at a
    distance `≥ threshold` from `dists[posB]` while `after`, which is not before it, was snapped DOWN
    to `posB` (distance `< threshold`, l. 1042) or up to it (`dists[posB] ≥ distTo_after`):
    impossible.  The code relies on it: its `else` branch (l. 661-665, "`index_after ≤ pos_before + 1`")
    is only right for `index_after = pos_before + 1`, see `ppSplice_ft_needs_lt`.
-/
import OmplModel.Model.PathOpsSplice2
import OmplModel.Proofs.PathOpsDensify

namespace OmplModel.PathOps

variable {σ : Type}

/-! ## list helpers -/

theorem take_len_add (A B : List σ) (j : Nat) : (A ++ B).take (A.length + j) = A ++ B.take j := by
  induction A with
  | nil => simp
  | cons a r ih => simpa [Nat.succ_add] using ih

theorem drop_len_add (A B : List σ) (j : Nat) : (A ++ B).drop (A.length + j) = B.drop j := by
  induction A with
  | nil => simp
  | cons a r ih => simp [Nat.succ_add]

theorem set_mid (A M D : List σ) (d x : σ) (k : Nat) (hk : k = A.length + M.length) :
    (A ++ M ++ d :: D).set k x = A ++ (M ++ [x]) ++ D := by
  subst hk
  simp

theorem insertAt_mid (A M D : List σ) (x : σ) (k i : Nat) (hk : k = A.length + i)
    (hi : i ≤ M.length) :
    insertAt (A ++ M ++ D) k x = A ++ (M.take i ++ x :: M.drop i) ++ D := by
  subst hk
  rw [insertAt, List.append_assoc, take_len_add, drop_len_add, List.take_append_of_le_length hi,
    List.drop_append_of_le_length hi]
  simp

theorem eraseRange_mid (A M D : List σ) (k1 k2 i j : Nat) (hk1 : k1 = A.length + i)
    (hi : i ≤ M.length) (hk2 : k2 = A.length + M.length + j) :
    eraseRange (A ++ M ++ D) k1 k2 = A ++ M.take i ++ D.drop j := by
  subst hk1 hk2
  rw [eraseRange, List.append_assoc, take_len_add, List.take_append_of_le_length hi,
    ← List.append_assoc, ← List.length_append, drop_len_add, List.append_assoc]

theorem length_take_le (st : List σ) (a : Nat) (ha : a ≤ st.length) : (st.take a).length = a := by
  simp [Nat.min_eq_left ha]

theorem eraseRange_left (st R : List σ) (k a : Nat) (hk : k ≤ a) (ha : a ≤ st.length) :
    eraseRange (st.take a ++ R) k a = st.take k ++ R := by
  have hl := length_take_le st a ha
  have h1 : (st.take a ++ R).take k = st.take k := by
    rw [List.take_append_of_le_length (by omega), List.take_take, Nat.min_eq_left hk]
  have h2 : (st.take a ++ R).drop a = R := by
    have := drop_len_add (st.take a) R 0
    rwa [hl, Nat.add_zero, List.drop_zero] at this
  rw [eraseRange, h1, h2]

/-! ### the C++ primitives on the normal form `st.take a ++ M ++ st.drop b` -/

theorem length_nf (st M : List σ) (a b : Nat) (ha : a ≤ st.length) :
    (st.take a ++ M ++ st.drop b).length = a + M.length + (st.length - b) := by
  simp [Nat.min_eq_left ha]
  omega

theorem setChk_st (st : List σ) (k : Nat) (x : σ) (h : k < st.length) :
    setChk st k x = some (st.take k ++ [x] ++ st.drop (k + 1)) := by
  have e : st = st.take k ++ [] ++ st[k] :: st.drop (k + 1) := by simp
  rw [setChk, if_pos h]
  conv => lhs; rw [e]
  rw [set_mid _ _ _ _ _ _ (by simp; omega)]
  simp

theorem setChk_nf (st M : List σ) (a b k : Nat) (x : σ) (hk : k = a + M.length)
    (ha : a ≤ st.length) (hb : b < st.length) :
    setChk (st.take a ++ M ++ st.drop b) k x = some (st.take a ++ (M ++ [x]) ++ st.drop (b + 1)) := by
  rw [setChk, if_pos (by rw [length_nf _ _ _ _ ha]; omega), List.drop_eq_getElem_cons hb,
    set_mid _ _ _ _ _ _ (by rw [length_take_le _ _ ha]; exact hk)]

theorem insertChk_st (st : List σ) (k : Nat) (x : σ) (h : k ≤ st.length) :
    insertChk st k x = some (st.take k ++ [x] ++ st.drop k) := by
  simp [insertChk, insertAt, h]

theorem insertChk_nf (st M : List σ) (a b k i : Nat) (x : σ) (hk : k = a + i) (hi : i ≤ M.length)
    (ha : a ≤ st.length) :
    insertChk (st.take a ++ M ++ st.drop b) k x =
      some (st.take a ++ (M.take i ++ x :: M.drop i) ++ st.drop b) := by
  rw [insertChk, if_pos (by rw [length_nf _ _ _ _ ha]; omega),
    insertAt_mid _ _ _ _ _ i (by rw [length_take_le _ _ ha]; exact hk) hi]

theorem eraseChk_nf (st M : List σ) (a b k1 k2 i j : Nat) (hk1 : k1 = a + i) (hi : i ≤ M.length)
    (hk2 : k2 = a + M.length + j) (ha : a ≤ st.length) (hb : b + j ≤ st.length) :
    eraseChk (st.take a ++ M ++ st.drop b) k1 k2 = some (st.take a ++ M.take i ++ st.drop (b + j)) := by
  rw [eraseChk, if_pos (by rw [length_nf _ _ _ _ ha]; omega),
    eraseRange_mid _ _ _ _ _ i j (by rw [length_take_le _ _ ha]; exact hk1) hi
      (by rw [length_take_le _ _ ha]; exact hk2), List.drop_drop]

/-- `erase(begin + k1, end())` -/
theorem eraseChk_nf_end (st M : List σ) (a b k1 i : Nat) (hk1 : k1 = a + i) (hi : i ≤ M.length)
    (ha : a ≤ st.length) (hb : b ≤ st.length) :
    eraseChk (st.take a ++ M ++ st.drop b) k1 (st.take a ++ M ++ st.drop b).length =
      some (st.take a ++ M.take i) := by
  rw [eraseChk_nf st M a b k1 _ i (st.length - b) hk1 hi (length_nf _ _ _ _ ha) ha (by omega)]
  have : b + (st.length - b) = st.length := by omega
  rw [this, List.drop_length, List.append_nil]

/-- an erase that starts inside the untouched prefix and ends where it ends -/
theorem eraseChk_nf_left (st M : List σ) (a b k : Nat) (hk : k ≤ a) (ha : a ≤ st.length) :
    eraseChk (st.take a ++ M ++ st.drop b) k a = some (st.take k ++ M ++ st.drop b) := by
  rw [eraseChk, if_pos (by rw [length_nf _ _ _ _ ha]; omega), List.append_assoc,
    eraseRange_left _ _ _ _ hk ha, List.append_assoc]

/-! ## findBetterGoal: canonical forms -/

/-- snapped to the vertex `startIndex`: everything behind it is replaced by the goal -/
theorem bgSplice_snap (st : List σ) (s : Nat) (state goal : σ) (h : s + 1 < st.length) :
    bgSplice st s s state goal = some (st.take s ++ [state, goal]) := by
  rw [bgSplice, if_pos rfl, setChk_st st s state (by omega), Option.bind_some,
    setChk_nf st [state] s (s + 1) (s + 1) goal rfl (by omega) h, Option.bind_some,
    eraseChk_nf_end st _ s (s + 1 + 1) (s + 2) 2 rfl (by simp) (by omega) (by omega)]
  simp

/-- interpolated state inside the LAST segment: `path.append(tempGoal)` -/
theorem bgSplice_seg_last (st : List σ) (s : Nat) (state goal : σ) (h : s + 2 = st.length) :
    bgSplice st s (s + 1) state goal = some (st.take (s + 1) ++ [state, goal]) := by
  rw [bgSplice, if_neg (by omega), setChk_st st (s + 1) state (by omega), Option.bind_some,
    if_pos (by rw [length_nf _ _ _ _ (by omega)]; simp; omega)]
  have : st.drop (s + 1 + 1) = [] := List.drop_eq_nil_of_le (by omega)
  rw [this]
  simp

/-- interpolated state inside an earlier segment -/
theorem bgSplice_seg_mid (st : List σ) (s : Nat) (state goal : σ) (h : s + 2 < st.length) :
    bgSplice st s (s + 1) state goal = some (st.take (s + 1) ++ [state, goal]) := by
  rw [bgSplice, if_neg (by omega), setChk_st st (s + 1) state (by omega), Option.bind_some,
    if_neg (by rw [length_nf _ _ _ _ (by omega)]; simp; omega),
    setChk_nf st [state] (s + 1) (s + 1 + 1) (s + 1 + 1) goal rfl (by omega) (by omega),
    Option.bind_some,
    eraseChk_nf_end st _ (s + 1) (s + 1 + 1 + 1) (s + 1 + 2) 2 rfl (by simp) (by omega) (by omega)]
  simp

theorem bgSplice_seg (st : List σ) (s : Nat) (state goal : σ) (h : s + 1 < st.length) :
    bgSplice st s (s + 1) state goal = some (st.take (s + 1) ++ [state, goal]) := by
  by_cases h2 : s + 2 = st.length
  · exact bgSplice_seg_last st s state goal h2
  · exact bgSplice_seg_mid st s state goal (by omega)

/-! ## perturbPath: canonical forms of the nine cases -/

/-- both inside the same segment: three inserts at `pos_before + 1`, last one first -/
theorem ppSplice_ff_same (st : List σ) (p : Nat) (before new after : σ) (h : p + 1 < st.length) :
    ppSplice st p false p false before new after =
      some (st.take (p + 1) ++ [before, new, after] ++ st.drop (p + 1)) := by
  simp only [ppSplice]
  rw [if_pos trivial, insertChk_st st (p + 1) after (by omega), Option.bind_some,
    insertChk_nf st _ (p + 1) (p + 1) (p + 1) 0 new rfl (by simp) (by omega), Option.bind_some,
    insertChk_nf st _ (p + 1) (p + 1) (p + 1) 0 before rfl (by simp) (by omega)]
  simp

/-- adjacent segments: the vertex between them becomes `before` -/
theorem ppSplice_ff_1 (st : List σ) (p : Nat) (before new after : σ) (h : p + 2 < st.length) :
    ppSplice st p false (p + 1) false before new after =
      some (st.take (p + 1) ++ [before, new, after] ++ st.drop (p + 2)) := by
  simp only [ppSplice]
  rw [if_neg (by omega), if_pos trivial, setChk_st st (p + 1) before (by omega), Option.bind_some,
    insertChk_nf st _ (p + 1) (p + 1 + 1) (p + 1 + 1) 1 after rfl (by simp) (by omega),
    Option.bind_some,
    insertChk_nf st _ (p + 1) (p + 1 + 1) (p + 1 + 1) 1 new rfl (by simp) (by omega)]
  simp

/-- one whole segment between them: its two vertices become `before`, `new` -/
theorem ppSplice_ff_2 (st : List σ) (p : Nat) (before new after : σ) (h : p + 3 < st.length) :
    ppSplice st p false (p + 2) false before new after =
      some (st.take (p + 1) ++ [before, new, after] ++ st.drop (p + 3)) := by
  simp only [ppSplice]
  rw [if_neg (by omega), if_neg (by omega), if_pos trivial, setChk_st st (p + 1) before (by omega),
    Option.bind_some,
    setChk_nf st _ (p + 1) (p + 1 + 1) (p + 2) new (by simp) (by omega) (by omega),
    Option.bind_some,
    insertChk_nf st _ (p + 1) (p + 1 + 1 + 1) (p + 2 + 1) 2 after (by omega) (by simp) (by omega)]
  simp

/-- at least three vertices between them: three are overwritten, the rest is erased -/
theorem ppSplice_ff_far (st : List σ) (pB pA : Nat) (before new after : σ) (hBA : pB + 3 ≤ pA)
    (h : pA + 1 < st.length) :
    ppSplice st pB false pA false before new after =
      some (st.take (pB + 1) ++ [before, new, after] ++ st.drop (pA + 1)) := by
  simp only [ppSplice]
  rw [if_neg (by omega), if_neg (by omega), if_neg (by omega),
    setChk_st st (pB + 1) before (by omega), Option.bind_some,
    setChk_nf st _ (pB + 1) (pB + 1 + 1) (pB + 2) new (by simp) (by omega) (by omega),
    Option.bind_some,
    setChk_nf st _ (pB + 1) (pB + 1 + 1 + 1) (pB + 3) after (by simp) (by omega) (by omega),
    Option.bind_some,
    eraseChk_nf st _ (pB + 1) (pB + 1 + 1 + 1 + 1) (pB + 4) (pA + 1) 3 (pA - pB - 3) (by omega)
      (by simp) (by simp; omega) (by omega) (by omega)]
  have : pB + 1 + 1 + 1 + 1 + (pA - pB - 3) = pA + 1 := by omega
  rw [this]
  simp

theorem ppSplice_ff (st : List σ) (pB pA : Nat) (before new after : σ) (hBA : pB ≤ pA)
    (h : pA + 1 < st.length) :
    ppSplice st pB false pA false before new after =
      some (st.take (pB + 1) ++ [before, new, after] ++ st.drop (pA + 1)) := by
  by_cases h0 : pA = pB
  · subst h0; exact ppSplice_ff_same st pA before new after h
  by_cases h1 : pA = pB + 1
  · subst h1; exact ppSplice_ff_1 st pB before new after h
  by_cases h2 : pA = pB + 2
  · subst h2; exact ppSplice_ff_2 st pB before new after h
  exact ppSplice_ff_far st pB pA before new after (by omega) h

/-- both snapped to vertices `pB < pA`: `new` replaces everything strictly between them -/
theorem ppSplice_tt (st : List σ) (pB pA : Nat) (before new after : σ) (hBA : pB < pA)
    (h : pA < st.length) :
    ppSplice st pB true pA true before new after =
      some (st.take (pB + 1) ++ [new] ++ st.drop pA) := by
  simp only [ppSplice]
  rw [insertChk_st st (pB + 1) new (by omega), Option.bind_some,
    eraseChk_nf st _ (pB + 1) (pB + 1) (pB + 2) (pA + 1) 1 (pA - pB - 1) rfl (by simp)
      (by simp; omega) (by omega) (by omega)]
  have : pB + 1 + (pA - pB - 1) = pA := by omega
  rw [this]
  simp

/-- `before` inside `(pB, pB + 1)`, `after` snapped to a vertex `pA > pB + 1` -/
theorem ppSplice_ft_far (st : List σ) (pB pA : Nat) (before new after : σ) (hBA : pB + 1 < pA)
    (h : pA < st.length) :
    ppSplice st pB false pA true before new after =
      some (st.take (pB + 1) ++ [before, new] ++ st.drop pA) := by
  simp only [ppSplice]
  rw [if_pos (by omega), setChk_st st (pB + 1) before (by omega), Option.bind_some,
    insertChk_nf st _ (pB + 1) (pB + 1 + 1) (pB + 2) 1 new rfl (by simp) (by omega),
    Option.bind_some,
    eraseChk_nf st _ (pB + 1) (pB + 1 + 1) (pB + 3) (pA + 1) 2 (pA - pB - 2) rfl (by simp)
      (by simp; omega) (by omega) (by omega)]
  have : pB + 1 + 1 + (pA - pB - 2) = pA := by omega
  rw [this]
  simp

/-- `before` inside `(pB, pB + 1)`, `after` snapped to the vertex `pB + 1` -/
theorem ppSplice_ft_adj (st : List σ) (p : Nat) (before new after : σ) (h : p + 1 < st.length) :
    ppSplice st p false (p + 1) true before new after =
      some (st.take (p + 1) ++ [before, new] ++ st.drop (p + 1)) := by
  simp only [ppSplice]
  rw [if_neg (by omega), insertChk_st st (p + 1) new (by omega), Option.bind_some,
    insertChk_nf st _ (p + 1) (p + 1) (p + 1) 0 before rfl (by simp) (by omega)]
  simp

theorem ppSplice_ft (st : List σ) (pB pA : Nat) (before new after : σ) (hBA : pB < pA)
    (h : pA < st.length) :
    ppSplice st pB false pA true before new after =
      some (st.take (pB + 1) ++ [before, new] ++ st.drop pA) := by
  by_cases h1 : pA = pB + 1
  · subst h1; exact ppSplice_ft_adj st pB before new after h
  · exact ppSplice_ft_far st pB pA before new after (by omega) h

/-- `before` snapped to the vertex `pB`, `after` inside a later segment `(pA, pA + 1)` -/
theorem ppSplice_tf_far (st : List σ) (pB pA : Nat) (before new after : σ) (hBA : pB < pA)
    (h : pA + 1 < st.length) :
    ppSplice st pB true pA false before new after =
      some (st.take (pB + 1) ++ [new, after] ++ st.drop (pA + 1)) := by
  simp only [ppSplice]
  rw [if_pos hBA, setChk_st st pA new (by omega), Option.bind_some,
    insertChk_nf st _ pA (pA + 1) (pA + 1) 1 after rfl (by simp) (by omega), Option.bind_some,
    eraseChk_nf_left st _ pA (pA + 1) (pB + 1) (by omega) (by omega)]
  simp

/-- `before` snapped to the vertex `p`, `after` inside the segment `(p, p + 1)` -/
theorem ppSplice_tf_same (st : List σ) (p : Nat) (before new after : σ) (h : p + 1 < st.length) :
    ppSplice st p true p false before new after =
      some (st.take (p + 1) ++ [new, after] ++ st.drop (p + 1)) := by
  simp only [ppSplice]
  rw [if_neg (by omega), insertChk_st st (p + 1) after (by omega), Option.bind_some,
    insertChk_nf st _ (p + 1) (p + 1) (p + 1) 0 new rfl (by simp) (by omega)]
  simp

theorem ppSplice_tf (st : List σ) (pB pA : Nat) (before new after : σ) (hBA : pB ≤ pA)
    (h : pA + 1 < st.length) :
    ppSplice st pB true pA false before new after =
      some (st.take (pB + 1) ++ [new, after] ++ st.drop (pA + 1)) := by
  by_cases h0 : pA = pB
  · subst h0; exact ppSplice_tf_same st pA before new after h
  · exact ppSplice_tf_far st pB pA before new after (by omega) h

/-- all nine cases at once: the open stretch between vertex `posB` and the first kept vertex behind
`after` is replaced by `[before]? ++ [new] ++ [after]?` -/
theorem ppSplice_canon (st : List σ) (posB posA : Nat) (idxB idxA : Bool) (before new after : σ)
    (hBA : posB ≤ posA) (hA : posA + (if idxA then 0 else 1) < st.length)
    (hlt : idxA = true → posB < posA) :
    ppSplice st posB idxB posA idxA before new after =
      some (st.take (posB + 1) ++
        ((if idxB then [] else [before]) ++ [new] ++ (if idxA then [] else [after])) ++
        st.drop (posA + (if idxA then 0 else 1))) := by
  cases idxB <;> cases idxA <;> simp only [Bool.false_eq_true, if_false, if_true] at hA ⊢
  · rw [ppSplice_ff st posB posA before new after hBA hA]; simp
  · rw [ppSplice_ft st posB posA before new after (hlt rfl) hA]; simp
  · rw [ppSplice_tf st posB posA before new after hBA hA]; simp
  · rw [ppSplice_tt st posB posA before new after (hlt rfl) hA]; simp

/-! ## specifications -/

/-- findBetterGoal's splice.  `hcase`: either snapped (`endIndex = startIndex`, not the last vertex,
`state` is that vertex) or `state` inside the segment `(startIndex, startIndex + 1)`.
The result keeps the first state, ENDS IN `goal`, and every motion is an input motion, the prefix
`(states[startIndex], state)` of the input motion `(states[startIndex], states[startIndex+1])` cut
at `state` (unsnapped case only), or the validated `(state, goal)`. -/
theorem bgSplice_spec (st : List σ) (s e : Nat) (state goal : σ) (hs : s + 1 < st.length)
    (hcase : (e = s ∧ st[s]'(by omega) = state) ∨ e = s + 1) :
    ∃ out, bgSplice st s e state goal = some out ∧ out.head? = st.head? ∧
      out.getLast? = some goal ∧ out.length = e + 2 ∧
      ∀ p ∈ adj out, p ∈ adj st ∨ (e = s + 1 ∧ p = (st[s]'(by omega), state)) ∨ p = (state, goal) := by
  have hsplit : ∀ (x : σ), st[s]'(by omega) = x → ∀ p ∈ adj (st.take (s + 1) ++ [goal]),
      p ∈ adj st ∨ p = (x, goal) := by
    intro x hx p hp
    rcases mem_adj_append _ _ p hp with h | h | ⟨a, b, ha, hb, rfl⟩
    · exact Or.inl (adj_take_subset st _ p h)
    · simp [adj] at h
    · rw [getLast?_take_succ _ _ (by omega), Option.some.injEq] at ha
      simp only [List.head?_cons, Option.some.injEq] at hb
      subst ha hb hx
      exact Or.inr rfl
  rcases hcase with ⟨rfl, hself⟩ | rfl
  · refine ⟨st.take (e + 1) ++ [goal], ?_, ?_, by simp, ?_, ?_⟩
    · rw [bgSplice_snap st e state goal hs, List.take_succ_eq_append_getElem (by omega), hself]
      simp
    · cases st with
      | nil => simp at hs
      | cons a r => simp
    · simp [Nat.min_eq_left (show e + 1 ≤ st.length by omega)]
    · intro p hp
      rcases hsplit state hself p hp with h | h
      · exact Or.inl h
      · exact Or.inr (Or.inr h)
  · refine ⟨st.take (s + 1) ++ [state, goal], bgSplice_seg st s state goal hs, ?_, by simp, ?_, ?_⟩
    · cases st with
      | nil => simp at hs
      | cons a r => simp
    · simp [Nat.min_eq_left (show s + 1 ≤ st.length by omega)]
    · intro p hp
      rcases mem_adj_append _ _ p hp with h | h | ⟨a, b, ha, hb, rfl⟩
      · exact Or.inl (adj_take_subset st _ p h)
      · simp only [adj, List.mem_cons, List.not_mem_nil, or_false] at h
        exact Or.inr (Or.inr h)
      · rw [getLast?_take_succ _ _ (by omega), Option.some.injEq] at ha
        simp only [List.head?_cons, Option.some.injEq] at hb
        subst ha hb
        exact Or.inr (Or.inl ⟨rfl, rfl⟩)

/-- without the self-copy assumption (`state` arbitrary) the snapped case still keeps the first
state as soon as `0 < startIndex`; for `startIndex = 0` the head becomes `state` -/
theorem bgSplice_snap_head (st : List σ) (s : Nat) (state goal : σ) (hs : s + 1 < st.length) :
    ∃ out, bgSplice st s s state goal = some out ∧
      out.head? = if 0 < s then st.head? else some state := by
  refine ⟨_, bgSplice_snap st s state goal hs, ?_⟩
  cases s with
  | zero => simp
  | succ k =>
    cases st with
    | nil => simp at hs
    | cons a r => simp

/-- perturbPath's splice.  The result keeps BOTH ends of the path (no further condition: the stretch
that is replaced lies strictly between vertex `posB` and the first kept vertex, `posA` resp.
`posA + 1`, which exist), and every motion of the result is an input motion, one of the two
validated motions `(before', new)`, `(new, after')`, the prefix `(st[posB], before)` of the input
motion `(st[posB], st[posB+1])` cut at `before`, or the suffix `(after, st[posA+1])` of the input
motion `(st[posA], st[posA+1])` cut at `after`. -/
theorem ppSplice_spec (st : List σ) (posB posA : Nat) (idxB idxA : Bool) (before new after : σ)
    (hBA : posB ≤ posA) (hA : posA + (if idxA then 0 else 1) < st.length)
    (hlt : idxA = true → posB < posA) :
    ∃ out, ppSplice st posB idxB posA idxA before new after = some out ∧
      out.head? = st.head? ∧ out.getLast? = st.getLast? ∧
      out.length + (posA + (if idxA then 0 else 1)) =
        st.length + (posB + 1) + ((if idxB then 0 else 1) + 1 + (if idxA then 0 else 1)) ∧
      ∀ p ∈ adj out, p ∈ adj st ∨
        p = (if idxB then st[posB]'(by split at hA <;> omega) else before, new) ∨
        p = (new, if idxA then st[posA]'(by split at hA <;> omega) else after) ∨
        (idxB = false ∧ p = (st[posB]'(by split at hA <;> omega), before)) ∨
        (idxA = false ∧ ∃ h : posA + 1 < st.length, p = (after, st[posA + 1]'h)) := by
  have hB : posB < st.length := by split at hA <;> omega
  obtain ⟨hh, hl, ha⟩ := splice_aux st posB (posA + (if idxA then 0 else 1))
    ((if idxB then [] else [before]) ++ [new] ++ (if idxA then [] else [after])) hB hA
  refine ⟨_, ppSplice_canon st posB posA idxB idxA before new after hBA hA hlt, hh, hl, ?_, ?_⟩
  · rw [length_nf _ _ _ _ (by omega)]
    cases idxB <;> cases idxA <;> simp at hA ⊢ <;> omega
  · intro p hp
    rcases ha p hp with h | h
    · exact Or.inl h
    · cases idxB <;> cases idxA <;>
        simp only [Bool.false_eq_true, if_false, if_true, List.cons_append, List.nil_append,
          List.append_nil, Nat.add_zero, adj, List.mem_cons, List.not_mem_nil, or_false] at h hA ⊢
      · rcases h with h | h | h | h <;> simp [h, hA]
      · rcases h with h | h | h <;> simp [h]
      · rcases h with h | h | h <;> simp [h, hA]
      · rcases h with h | h <;> simp [h]

/-! ## non-vacuity: each case on a concrete path (states `0..5`; `10`/`11`/`12` = before/new/after,
`7` = interpolated state, `9` = goal) -/

example : bgSplice [0, 1, 2, 3] 1 1 1 9 = some [0, 1, 9] := by decide
example : bgSplice [0, 1, 2, 3] 0 0 0 9 = some [0, 9] := by decide
example : bgSplice [0, 1, 2, 3] 2 3 7 9 = some [0, 1, 2, 7, 9] := by decide
example : bgSplice [0, 1, 2, 3] 0 1 7 9 = some [0, 7, 9] := by decide
example : ppSplice [0, 1, 2, 3, 4, 5] 1 false 1 false 10 11 12 = some [0, 1, 10, 11, 12, 2, 3, 4, 5] := by decide
example : ppSplice [0, 1, 2, 3, 4, 5] 1 false 2 false 10 11 12 = some [0, 1, 10, 11, 12, 3, 4, 5] := by decide
example : ppSplice [0, 1, 2, 3, 4, 5] 1 false 3 false 10 11 12 = some [0, 1, 10, 11, 12, 4, 5] := by decide
example : ppSplice [0, 1, 2, 3, 4, 5] 0 false 4 false 10 11 12 = some [0, 10, 11, 12, 5] := by decide
example : ppSplice [0, 1, 2, 3, 4, 5] 0 true 5 true 0 11 5 = some [0, 11, 5] := by decide
example : ppSplice [0, 1, 2, 3, 4, 5] 1 false 4 true 10 11 4 = some [0, 1, 10, 11, 4, 5] := by decide
example : ppSplice [0, 1, 2, 3, 4, 5] 1 false 2 true 10 11 2 = some [0, 1, 10, 11, 2, 3, 4, 5] := by decide
example : ppSplice [0, 1, 2, 3, 4, 5] 1 true 3 false 1 11 12 = some [0, 1, 11, 12, 4, 5] := by decide
example : ppSplice [0, 1, 2, 3, 4, 5] 1 true 1 false 1 11 12 = some [0, 1, 11, 12, 2, 3, 4, 5] := by decide
/-- the hypotheses of the two specifications are satisfiable -/
example : ∃ out, bgSplice [0, 1, 2, 3] 1 1 1 9 = some out ∧ out.getLast? = some 9 :=
  let ⟨out, h, _, hl, _⟩ := bgSplice_spec [0, 1, 2, 3] 1 1 1 9 (by decide) (Or.inl ⟨rfl, rfl⟩)
  ⟨out, h, hl⟩
example : ∃ out, ppSplice [0, 1, 2, 3, 4, 5] 0 true 5 true 0 11 5 = some out ∧
    out.getLast? = some 5 :=
  let ⟨out, h, _, hl, _⟩ := ppSplice_spec [0, 1, 2, 3, 4, 5] 0 5 true true 0 11 5 (by decide)
    (by decide) (by decide)
  ⟨out, h, hl⟩

/-! ## outside the side conditions -/

/-- snapped to the LAST vertex: `copyState(states[startIndex + 1], tempGoal)` (l. 973) indexes
`states[size]`.  Excluded only by the cost test in front of the block (see the header). -/
theorem bgSplice_snap_last_none : bgSplice [0, 1, 2] 2 2 2 9 = none := by decide

/-- `before` strictly inside `(0, 1)` but `after` snapped to vertex `0` (`index_after = pos_before`,
falls into the `else` of l. 661): the code would keep `(new, states[1]) = (11, 1)`, neither validated
(`checkMotion` saw `(10, 11)` and `(11, 0)`) nor a piece of an input motion.  Not reachable:
`selectAlongPath` is monotone (see the header); this is why `ppSplice_spec` needs `hlt`. -/
theorem ppSplice_ft_needs_lt :
    ppSplice [0, 1, 2] 0 false 0 true 10 11 0 = some [0, 10, 11, 1, 2] := by decide

end OmplModel.PathOps
