import OmplModel.Proofs.SpaceInterpShape
import OmplModel.Proofs.SpaceInterpMobius
/-!
C07, all spaces over ℝ: inductions over `Space ℝ` (arbitrarily nested compounds come from the
`ccons` case).  Side conditions on the space are the Bool predicates below.
-/
open scoped OmplModel.SpaceInterp.RealNum
attribute [-instance] OmplModel.Num.instOfNat

namespace OmplModel.SpaceInterp
open OmplModel OmplModel.Space Real RealNum

/-- no SO(3) and no Klein bottle anywhere inside (the clauses the end-point/bounds theorems exclude) -/
def noSO3Klein {α : Type} : Space α → Bool
  | .so3 => false
  | .klein => false
  | .ccons _ h tl => noSO3Klein h && noSO3Klein tl
  | .wrap s => noSO3Klein s
  | _ => true

/-- the spaces the re-parameterisation theorem covers: R^n, SO(2), time, torus, sphere, and
compounds/wrappers of these (no discrete, SO(3), Mobius, Klein anywhere inside) -/
def reparamOk {α : Type} : Space α → Bool
  | .so3 => false
  | .klein => false
  | .mobius _ _ => false
  | .disc _ _ => false
  | .ccons _ h tl => reparamOk h && reparamOk tl
  | .wrap s => reparamOk s
  | _ => true

/-! ### t = 0 -/

theorem interpolate_zero (sp : Space ℝ) (a b : St ℝ) (hsp : noSO3Klein sp = true)
    (hwa : wellTyped sp a = true) (hwb : wellTyped sp b = true) (hba : inBounds sp a = true) :
    interpolate sp a b 0 = a := by
  induction sp generalizing a b with
  | rv lo hi =>
    obtain ⟨xs, rfl, h1, h2⟩ := wellTyped_rv hwa
    obtain ⟨ys, rfl, h3, _⟩ := wellTyped_rv hwb
    simp only [interpolateW, rvInterp_zero xs ys (by omega)]
  | so2 =>
    obtain ⟨x, rfl⟩ := wellTyped_so2 hwa
    obtain ⟨y, rfl⟩ := wellTyped_so2 hwb
    simp only [inBounds, so2InB_iff] at hba
    simp only [interpolateW, so2Interp_zero hba.1 hba.2]
  | so3 => simp [noSO3Klein] at hsp
  | time bd lo hi =>
    obtain ⟨x, rfl⟩ := wellTyped_time hwa
    obtain ⟨y, rfl⟩ := wellTyped_time hwb
    simp only [interpolateW, lerp_zero]
  | disc lo hi =>
    obtain ⟨x, rfl⟩ := wellTyped_disc hwa
    obtain ⟨y, rfl⟩ := wellTyped_disc hwb
    simp only [interpolateW, discInterp_zero]
  | cnil =>
    rw [wellTyped_cnil hwa, wellTyped_cnil hwb]; simp only [interpolateW]
  | ccons w h tl ih1 ih2 =>
    obtain ⟨ah, at', rfl, ha1, ha2⟩ := wellTyped_ccons hwa
    obtain ⟨bh, bt, rfl, hb1, hb2⟩ := wellTyped_ccons hwb
    simp only [noSO3Klein, inBounds, Bool.and_eq_true] at hsp hba
    simp only [interpolateW, ih1 ah bh hsp.1 ha1 hb1 hba.1, ih2 at' bt hsp.2 ha2 hb2 hba.2]
  | torus R r =>
    obtain ⟨a1, a2, rfl⟩ := wellTyped_torus hwa
    obtain ⟨b1, b2, rfl⟩ := wellTyped_torus hwb
    simp only [inBounds, Bool.and_eq_true, so2InB_iff] at hba
    simp only [interpolateW, so2Interp_zero hba.1.1 hba.1.2, so2Interp_zero hba.2.1 hba.2.2]
  | mobius imax rad =>
    obtain ⟨a1, a2, rfl⟩ := wellTyped_mobius hwa
    obtain ⟨b1, b2, rfl⟩ := wellTyped_mobius hwb
    simp only [inBounds, Bool.and_eq_true, so2InB_iff] at hba
    simp only [interpolateW, mobiusInterp_zero _ _ hba.1.1 hba.1.2]
  | klein => simp [noSO3Klein] at hsp
  | sphere r =>
    obtain ⟨a1, a2, rfl⟩ := wellTyped_sphere hwa
    obtain ⟨b1, b2, rfl⟩ := wellTyped_sphere hwb
    simp only [inBounds, Bool.and_eq_true, so2InB_iff] at hba
    simp only [interpolateW, so2Interp_zero hba.1.1 hba.1.2, lerp_zero]
  | wrap s ih =>
    simp only [noSO3Klein, wellTyped, inBounds] at hsp hwa hwb hba
    simp only [interpolateW]; exact ih a b hsp hwa hwb hba

/-! ### t = 1 -/

theorem interpolate_one (sp : Space ℝ) (a b : St ℝ) (hsp : noSO3Klein sp = true)
    (hwa : wellTyped sp a = true) (hwb : wellTyped sp b = true) (hbb : inBounds sp b = true) :
    interpolate sp a b 1 = b := by
  induction sp generalizing a b with
  | rv lo hi =>
    obtain ⟨xs, rfl, h1, h2⟩ := wellTyped_rv hwa
    obtain ⟨ys, rfl, h3, _⟩ := wellTyped_rv hwb
    simp only [interpolateW, rvInterp_one xs ys (by omega)]
  | so2 =>
    obtain ⟨x, rfl⟩ := wellTyped_so2 hwa
    obtain ⟨y, rfl⟩ := wellTyped_so2 hwb
    simp only [inBounds, so2InB_iff] at hbb
    simp only [interpolateW, so2Interp_one hbb.1 hbb.2]
  | so3 => simp [noSO3Klein] at hsp
  | time bd lo hi =>
    obtain ⟨x, rfl⟩ := wellTyped_time hwa
    obtain ⟨y, rfl⟩ := wellTyped_time hwb
    simp only [interpolateW, lerp_one]
  | disc lo hi =>
    obtain ⟨x, rfl⟩ := wellTyped_disc hwa
    obtain ⟨y, rfl⟩ := wellTyped_disc hwb
    simp only [interpolateW, discInterp_one]
  | cnil =>
    rw [wellTyped_cnil hwa, wellTyped_cnil hwb]; simp only [interpolateW]
  | ccons w h tl ih1 ih2 =>
    obtain ⟨ah, at', rfl, ha1, ha2⟩ := wellTyped_ccons hwa
    obtain ⟨bh, bt, rfl, hb1, hb2⟩ := wellTyped_ccons hwb
    simp only [noSO3Klein, inBounds, Bool.and_eq_true] at hsp hbb
    simp only [interpolateW, ih1 ah bh hsp.1 ha1 hb1 hbb.1, ih2 at' bt hsp.2 ha2 hb2 hbb.2]
  | torus R r =>
    obtain ⟨a1, a2, rfl⟩ := wellTyped_torus hwa
    obtain ⟨b1, b2, rfl⟩ := wellTyped_torus hwb
    simp only [inBounds, Bool.and_eq_true, so2InB_iff] at hbb
    simp only [interpolateW, so2Interp_one hbb.1.1 hbb.1.2, so2Interp_one hbb.2.1 hbb.2.2]
  | mobius imax rad =>
    obtain ⟨a1, a2, rfl⟩ := wellTyped_mobius hwa
    obtain ⟨b1, b2, rfl⟩ := wellTyped_mobius hwb
    simp only [inBounds, Bool.and_eq_true, so2InB_iff] at hbb
    simp only [interpolateW, mobiusInterp_one _ _ hbb.1.1 hbb.1.2]
  | klein => simp [noSO3Klein] at hsp
  | sphere r =>
    obtain ⟨a1, a2, rfl⟩ := wellTyped_sphere hwa
    obtain ⟨b1, b2, rfl⟩ := wellTyped_sphere hwb
    simp only [inBounds, Bool.and_eq_true, so2InB_iff] at hbb
    simp only [interpolateW, so2Interp_one hbb.1.1 hbb.1.2, lerp_one]
  | wrap s ih =>
    simp only [noSO3Klein, wellTyped, inBounds] at hsp hwa hwb hbb
    simp only [interpolateW]; exact ih a b hsp hwa hwb hbb

/-! ### bounds -/

theorem interpolate_inBounds (sp : Space ℝ) (a b : St ℝ) (t : ℝ) (hsp : noSO3Klein sp = true)
    (hwa : wellTyped sp a = true) (hwb : wellTyped sp b = true)
    (hba : inBounds sp a = true) (hbb : inBounds sp b = true) (ht0 : 0 ≤ t) (ht1 : t ≤ 1) :
    inBounds sp (interpolate sp a b t) = true := by
  induction sp generalizing a b with
  | rv lo hi =>
    obtain ⟨xs, rfl, h1, h2⟩ := wellTyped_rv hwa
    obtain ⟨ys, rfl, h3, _⟩ := wellTyped_rv hwb
    simp only [inBounds] at hba hbb
    simp only [interpolateW, inBounds, rvInB_interp hba hbb ht0 ht1]
  | so2 =>
    obtain ⟨x, rfl⟩ := wellTyped_so2 hwa
    obtain ⟨y, rfl⟩ := wellTyped_so2 hwb
    simp only [inBounds, so2InB_iff] at hba hbb
    simp only [interpolateW, inBounds, so2InB_iff]
    exact so2Interp_inB hba.1 hba.2 hbb.1 hbb.2 ht0 ht1
  | so3 => simp [noSO3Klein] at hsp
  | time bd lo hi =>
    obtain ⟨x, rfl⟩ := wellTyped_time hwa
    obtain ⟨y, rfl⟩ := wellTyped_time hwb
    simp only [interpolateW]
    exact timeInB_interp hba hbb ht0 ht1
  | disc lo hi =>
    obtain ⟨x, rfl⟩ := wellTyped_disc hwa
    obtain ⟨y, rfl⟩ := wellTyped_disc hwb
    simp only [inBounds, Bool.and_eq_true, decide_eq_true_eq] at hba hbb
    simp only [interpolateW, inBounds, Bool.and_eq_true, decide_eq_true_eq]
    exact discInterp_inB hba.1 hba.2 hbb.1 hbb.2 ht0 ht1
  | cnil =>
    rw [wellTyped_cnil hwa, wellTyped_cnil hwb]; simp only [interpolateW, inBounds]
  | ccons w h tl ih1 ih2 =>
    obtain ⟨ah, at', rfl, ha1, ha2⟩ := wellTyped_ccons hwa
    obtain ⟨bh, bt, rfl, hb1, hb2⟩ := wellTyped_ccons hwb
    simp only [noSO3Klein, inBounds, Bool.and_eq_true] at hsp hba hbb
    simp only [interpolateW, inBounds, Bool.and_eq_true]
    exact ⟨ih1 ah bh hsp.1 ha1 hb1 hba.1 hbb.1, ih2 at' bt hsp.2 ha2 hb2 hba.2 hbb.2⟩
  | torus R r =>
    obtain ⟨a1, a2, rfl⟩ := wellTyped_torus hwa
    obtain ⟨b1, b2, rfl⟩ := wellTyped_torus hwb
    simp only [inBounds, Bool.and_eq_true, so2InB_iff] at hba hbb
    simp only [interpolateW, inBounds, Bool.and_eq_true, so2InB_iff]
    exact ⟨so2Interp_inB hba.1.1 hba.1.2 hbb.1.1 hbb.1.2 ht0 ht1,
      so2Interp_inB hba.2.1 hba.2.2 hbb.2.1 hbb.2.2 ht0 ht1⟩
  | mobius imax rad =>
    obtain ⟨a1, a2, rfl⟩ := wellTyped_mobius hwa
    obtain ⟨b1, b2, rfl⟩ := wellTyped_mobius hwb
    simp only [inBounds, Bool.and_eq_true] at hba hbb
    simp only [interpolateW, inBounds, Bool.and_eq_true]
    refine ⟨?_, mobiusInterp_inB hba.2 hbb.2 ht0 ht1⟩
    have hu : (mobiusInterp so2Interp a1 a2 b1 b2 t).1 = so2Interp a1 b1 t := by
      by_cases h : |b1 - a1| ≤ π
      · rw [mobiusInterp_short _ _ _ h]
      · rw [mobiusInterp_long _ _ _ h]
    rw [hu]
    rw [so2InB_iff] at hba hbb ⊢
    exact so2Interp_inB hba.1.1 hba.1.2 hbb.1.1 hbb.1.2 ht0 ht1
  | klein => simp [noSO3Klein] at hsp
  | sphere r =>
    obtain ⟨a1, a2, rfl⟩ := wellTyped_sphere hwa
    obtain ⟨b1, b2, rfl⟩ := wellTyped_sphere hwb
    simp only [inBounds, Bool.and_eq_true] at hba hbb
    simp only [interpolateW, inBounds, Bool.and_eq_true]
    refine ⟨?_, rvInB_interp (xs := [a2]) (ys := [b2]) hba.2 hbb.2 ht0 ht1⟩
    rw [so2InB_iff] at hba hbb ⊢
    exact so2Interp_inB hba.1.1 hba.1.2 hbb.1.1 hbb.1.2 ht0 ht1
  | wrap s ih =>
    simp only [noSO3Klein, wellTyped, inBounds] at hsp hwa hwb hba hbb
    simp only [interpolateW, inBounds]; exact ih a b hsp hwa hwb hba hbb

/-! ### re-parameterisation -/

theorem interpolate_reparam (sp : Space ℝ) (a b : St ℝ) (s u : ℝ) (hsp : reparamOk sp = true)
    (hwa : wellTyped sp a = true) (hwb : wellTyped sp b = true)
    (hba : inBounds sp a = true) (hbb : inBounds sp b = true)
    (hs0 : 0 ≤ s) (hs1 : s ≤ 1) (hu0 : 0 ≤ u) (hu1 : u ≤ 1) :
    interpolate sp (interpolate sp a b s) b u = interpolate sp a b (s + (1 - s) * u) := by
  induction sp generalizing a b with
  | rv lo hi =>
    obtain ⟨xs, rfl, h1, h2⟩ := wellTyped_rv hwa
    obtain ⟨ys, rfl, h3, _⟩ := wellTyped_rv hwb
    simp only [interpolateW, rvInterp_reparam]
  | so2 =>
    obtain ⟨x, rfl⟩ := wellTyped_so2 hwa
    obtain ⟨y, rfl⟩ := wellTyped_so2 hwb
    simp only [inBounds, so2InB_iff] at hba hbb
    simp only [interpolateW, so2Interp_reparam hba.1 hba.2 hbb.1 hbb.2 hs0 hs1 hu0 hu1]
  | so3 => simp [reparamOk] at hsp
  | time bd lo hi =>
    obtain ⟨x, rfl⟩ := wellTyped_time hwa
    obtain ⟨y, rfl⟩ := wellTyped_time hwb
    simp only [interpolateW, lerp_reparam]
  | disc lo hi => simp [reparamOk] at hsp
  | cnil =>
    rw [wellTyped_cnil hwa, wellTyped_cnil hwb]; simp only [interpolateW]
  | ccons w h tl ih1 ih2 =>
    obtain ⟨ah, at', rfl, ha1, ha2⟩ := wellTyped_ccons hwa
    obtain ⟨bh, bt, rfl, hb1, hb2⟩ := wellTyped_ccons hwb
    simp only [reparamOk, inBounds, Bool.and_eq_true] at hsp hba hbb
    simp only [interpolateW, ih1 ah bh hsp.1 ha1 hb1 hba.1 hbb.1,
      ih2 at' bt hsp.2 ha2 hb2 hba.2 hbb.2]
  | torus R r =>
    obtain ⟨a1, a2, rfl⟩ := wellTyped_torus hwa
    obtain ⟨b1, b2, rfl⟩ := wellTyped_torus hwb
    simp only [inBounds, Bool.and_eq_true, so2InB_iff] at hba hbb
    simp only [interpolateW, so2Interp_reparam hba.1.1 hba.1.2 hbb.1.1 hbb.1.2 hs0 hs1 hu0 hu1,
      so2Interp_reparam hba.2.1 hba.2.2 hbb.2.1 hbb.2.2 hs0 hs1 hu0 hu1]
  | mobius imax rad => simp [reparamOk] at hsp
  | klein => simp [reparamOk] at hsp
  | sphere r =>
    obtain ⟨a1, a2, rfl⟩ := wellTyped_sphere hwa
    obtain ⟨b1, b2, rfl⟩ := wellTyped_sphere hwb
    simp only [inBounds, Bool.and_eq_true, so2InB_iff] at hba hbb
    simp only [interpolateW, so2Interp_reparam hba.1.1 hba.1.2 hbb.1.1 hbb.1.2 hs0 hs1 hu0 hu1,
      lerp_reparam]
  | wrap s' ih =>
    simp only [reparamOk, wellTyped, inBounds] at hsp hwa hwb hba hbb
    simp only [interpolateW]; exact ih a b hsp hwa hwb hba hbb

/-! ### proportional distance -/

theorem interpolate_dist_prop (sp : Space ℝ) (a b : St ℝ) (t : ℝ) (hsp : geodesic false sp = true)
    (hwa : wellTyped sp a = true) (hwb : wellTyped sp b = true)
    (hba : inBounds sp a = true) (hbb : inBounds sp b = true) (ht0 : 0 ≤ t) (ht1 : t ≤ 1) :
    dist sp a (interpolate sp a b t) = t * dist sp a b := by
  induction sp generalizing a b with
  | rv lo hi =>
    obtain ⟨xs, rfl, h1, h2⟩ := wellTyped_rv hwa
    obtain ⟨ys, rfl, h3, _⟩ := wellTyped_rv hwb
    simp only [interpolateW, dist, sqrt_eq, sqrt_sqSum_interp xs ys ht0]
  | so2 =>
    obtain ⟨x, rfl⟩ := wellTyped_so2 hwa
    obtain ⟨y, rfl⟩ := wellTyped_so2 hwb
    simp only [inBounds, so2InB_iff] at hba hbb
    simp only [interpolateW, dist, so2Interp_dist_prop hba.1 hba.2 hbb.1 hbb.2 ht0 ht1]
  | so3 => simp [geodesic] at hsp
  | time bd lo hi =>
    obtain ⟨x, rfl⟩ := wellTyped_time hwa
    obtain ⟨y, rfl⟩ := wellTyped_time hwb
    simp only [interpolateW, dist, abs_eq, abs_sub_lerp x y ht0]
  | disc lo hi => simp [geodesic] at hsp
  | cnil =>
    rw [wellTyped_cnil hwa, wellTyped_cnil hwb]; simp [dist]
  | ccons w h tl ih1 ih2 =>
    obtain ⟨ah, at', rfl, ha1, ha2⟩ := wellTyped_ccons hwa
    obtain ⟨bh, bt, rfl, hb1, hb2⟩ := wellTyped_ccons hwb
    simp only [geodesic, inBounds, Bool.and_eq_true] at hsp hba hbb
    simp only [interpolateW, dist, ih1 ah bh hsp.1 ha1 hb1 hba.1 hbb.1,
      ih2 at' bt hsp.2 ha2 hb2 hba.2 hbb.2]
    ring
  | torus R r =>
    obtain ⟨a1, a2, rfl⟩ := wellTyped_torus hwa
    obtain ⟨b1, b2, rfl⟩ := wellTyped_torus hwb
    simp only [inBounds, Bool.and_eq_true, so2InB_iff] at hba hbb
    simp only [interpolateW, dist, sqrt_eq,
      so2Interp_dist_prop hba.1.1 hba.1.2 hbb.1.1 hbb.1.2 ht0 ht1,
      so2Interp_dist_prop hba.2.1 hba.2.2 hbb.2.1 hbb.2.2 ht0 ht1]
    have e : t * so2Dist a1 b1 * (t * so2Dist a1 b1) + t * so2Dist a2 b2 * (t * so2Dist a2 b2)
        = t * t * (so2Dist a1 b1 * so2Dist a1 b1 + so2Dist a2 b2 * so2Dist a2 b2) := by ring
    rw [e, Real.sqrt_mul (mul_self_nonneg t), Real.sqrt_mul_self ht0]
  | mobius imax rad => simp [geodesic] at hsp
  | klein => simp [geodesic] at hsp
  | sphere r => simp [geodesic] at hsp
  | wrap s' ih =>
    simp only [geodesic, wellTyped, inBounds] at hsp hwa hwb hba hbb
    simp only [interpolateW, dist]; exact ih a b hsp hwa hwb hba hbb

end OmplModel.SpaceInterp
