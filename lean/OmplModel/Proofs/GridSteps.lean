import OmplModel.Proofs.GridInv
/-!
Every protocol step of the `GridB` model preserves the invariant `Inv`
(helper lemmas for `Props/C13.lean`; core Lean only).
-/
namespace OmplModel.Grid
open OmplModel.Heap

/-- everything except the counters: distinct well-formed coordinates, border flags agree with the counters,
each queue holds exactly the cells of its kind (as (handle, key) pairs, up to order), handles and ids fresh. -/
structure Base (cfg : Cfg) (g : GridB) : Prop where
  nodup : (g.cells.map (·.coord)).Nodup
  len : ∀ c ∈ g.cells, c.coord.length = cfg.dim
  border : ∀ c ∈ g.cells, c.border = decide (c.nbrs < cfg.limit)
  ext : g.external.items.Perm (side (·.border) g.cells)
  int : g.internal.items.Perm (side (fun c => !c.border) g.cells)
  extH : g.external.HandlesOK
  intH : g.internal.HandlesOK
  idlt : ∀ c ∈ g.cells, c.id < g.nextId
  idnd : (g.cells.map (·.id)).Nodup

/-- the counters, while a `createCell` loop has touched the coordinates in `S` -/
def CountUp (cfg : Cfg) (S : List Coord) (cells : List Cell) : Prop :=
  ∀ c ∈ cells, c.nbrs = cnt cfg cells c.coord + (if c.coord ∈ S then 1 else 0)

/-- the counters, while a `remove` loop has touched the coordinates in `S` -/
def CountDn (cfg : Cfg) (S : List Coord) (cells : List Cell) : Prop :=
  ∀ c ∈ cells, c.nbrs + (if c.coord ∈ S then 1 else 0) = cnt cfg cells c.coord

/-- the invariant between protocol steps (`GridNInv` ∧ `GridBInv` of DESIGN 2.13) -/
structure Inv (cfg : Cfg) (g : GridB) : Prop extends Base cfg g where
  count : ∀ c ∈ g.cells, c.nbrs = cnt cfg g.cells c.coord

theorem CountUp.congr {cfg S S' cells} (h : ∀ z, z ∈ S ↔ z ∈ S') (hc : CountUp cfg S cells) :
    CountUp cfg S' cells := by
  intro c hm; have := hc c hm; simp only [h] at this; exact this

theorem CountDn.congr {cfg S S' cells} (h : ∀ z, z ∈ S ↔ z ∈ S') (hc : CountDn cfg S cells) :
    CountDn cfg S' cells := by
  intro c hm; have := hc c hm; simp only [h] at this; exact this

/-! ### rewriting one cell and re-queueing it -/

theorem Base.rewrite {cfg : Cfg} {g : GridB} (hb : Base cfg g) {y : Coord} {c c' : Cell} {E' I' : Heap Key}
    (hget : getCell g.cells y = some c) (hcoord : c'.coord = c.coord) (hid : c'.id = c.id)
    (hbd : c'.border = decide (c'.nbrs < cfg.limit))
    (hE : E'.items.Perm (one (·.border) c' ++ side (·.border) (eraseCoord g.cells y)))
    (hI : I'.items.Perm (one (fun c => !c.border) c' ++ side (fun c => !c.border) (eraseCoord g.cells y)))
    (hEH : E'.HandlesOK) (hIH : I'.HandlesOK) :
    Base cfg { g with cells := setCell g.cells c', external := E', internal := I' } := by
  have hcm := getCell_some_mem hget
  have hcy : c'.coord = y := hcoord.trans hcm.2
  refine ⟨?_, ?_, ?_, ?_, ?_, hEH, hIH, ?_, ?_⟩
  · show ((setCell g.cells c').map (·.coord)).Nodup
    rw [map_coord_setCell]; exact hb.nodup
  · intro d hd
    rcases (mem_setCell hb.nodup hget hcy).1 hd with rfl | ⟨hd', _⟩
    · rw [hcoord]; exact hb.len c hcm.1
    · exact hb.len d hd'
  · intro d hd
    rcases (mem_setCell hb.nodup hget hcy).1 hd with rfl | ⟨hd', _⟩
    · exact hbd
    · exact hb.border d hd'
  · exact hE.trans (side_setCell hb.nodup hget hcy).symm
  · exact hI.trans (side_setCell hb.nodup hget hcy).symm
  · intro d hd
    rcases (mem_setCell hb.nodup hget hcy).1 hd with rfl | ⟨hd', _⟩
    · rw [hid]; exact hb.idlt c hcm.1
    · exact hb.idlt d hd'
  · show ((setCell g.cells c').map (·.id)).Nodup
    have : (setCell g.cells c').map (·.id) = g.cells.map (·.id) := by
      unfold setCell
      rw [List.map_map]
      apply List.map_congr_left
      intro d hd
      simp only [Function.comp]
      split
      · rename_i h
        have hdy : d.coord = y := (by simpa using h : d.coord = c'.coord).trans hcy
        have h1 : getCell g.cells y = some d := (getCell_eq_some_iff hb.nodup).2 ⟨hd, hdy⟩
        rw [hget] at h1
        cases h1
        exact hid
      · rfl
    rw [this]; exact hb.idnd

/-- what all three neighbour-touching code paths do with the queues once the cell has been rewritten from
`c` to `c'` (same handle): stay (`update`), or migrate (`remove` + `insert`, new handle). -/
def requeue (cfg : Cfg) (g : GridB) (c c' : Cell) : GridB :=
  if c'.border then
    if c.border then
      { g with cells := setCell g.cells c', external := g.external.setKey cfg.kltE c'.helem c'.key }
    else
      { g with cells := setCell g.cells { c' with helem := g.external.next }
               internal := g.internal.remove cfg.kltI c'.helem
               external := g.external.insert cfg.kltE c'.key }
  else
    if c.border then
      { g with cells := setCell g.cells { c' with helem := g.internal.next }
               external := g.external.remove cfg.kltE c'.helem
               internal := g.internal.insert cfg.kltI c'.key }
    else
      { g with cells := setCell g.cells c', internal := g.internal.setKey cfg.kltI c'.helem c'.key }

theorem one_true {p : Cell → Bool} {c : Cell} (h : p c = true) : one p c = [(c.helem, c.key)] := by
  simp [one, h]

theorem one_false {p : Cell → Bool} {c : Cell} (h : p c = false) : one p c = [] := by
  simp [one, h]

theorem requeue_spec {cfg : Cfg} {g : GridB} (hb : Base cfg g) {y : Coord} {c c' : Cell}
    (hget : getCell g.cells y = some c) (hcoord : c'.coord = c.coord) (hid : c'.id = c.id)
    (hh : c'.helem = c.helem) (hbd : c'.border = decide (c'.nbrs < cfg.limit)) :
    Base cfg (requeue cfg g c c') ∧
      (∃ h, (requeue cfg g c c').cells = setCell g.cells { c' with helem := h }) ∧
      (requeue cfg g c c').nextId = g.nextId := by
  have hE0 := hb.ext.trans (side_split (p := (·.border)) hb.nodup hget)
  have hI0 := hb.int.trans (side_split (p := fun c => !c.border) hb.nodup hget)
  unfold requeue
  by_cases h' : c'.border = true <;> by_cases h0 : c.border = true
  · -- stays external
    rw [if_pos h', if_pos h0]
    refine ⟨?_, ⟨c'.helem, rfl⟩, rfl⟩
    rw [one_true (p := (·.border)) h0] at hE0
    rw [one_false (p := fun c => !c.border) (by simp [h0])] at hI0
    refine hb.rewrite hget hcoord hid hbd ?_ ?_ (hb.extH.setKey _ _ _) hb.intH
    · rw [one_true (p := (·.border)) h', hh]; exact heap_stay hb.extH hE0
    · rw [one_false (p := fun c => !c.border) (by simp [h'])]; exact hI0
  · -- internal -> external
    have h0' : c.border = false := by simpa using h0
    rw [if_pos h', if_neg h0]
    refine ⟨?_, ⟨g.external.next, rfl⟩, rfl⟩
    rw [one_false (p := (·.border)) h0'] at hE0
    rw [one_true (p := fun c => !c.border) (by simp [h0'])] at hI0
    refine hb.rewrite (c' := { c' with helem := g.external.next }) hget hcoord hid hbd ?_ ?_
      (hb.extH.insert _ _) (hb.intH.remove _ _)
    · rw [one_true (p := (·.border)) (c := { c' with helem := g.external.next }) h']
      exact heap_enter hE0
    · rw [one_false (p := fun c => !c.border) (c := { c' with helem := g.external.next }) (by simp [h'])]
      rw [hh]; exact heap_leave hb.intH hI0
  · -- external -> internal
    have h'' : c'.border = false := by simpa using h'
    rw [if_neg h', if_pos h0]
    refine ⟨?_, ⟨g.internal.next, rfl⟩, rfl⟩
    rw [one_true (p := (·.border)) h0] at hE0
    rw [one_false (p := fun c => !c.border) (by simp [h0])] at hI0
    refine hb.rewrite (c' := { c' with helem := g.internal.next }) hget hcoord hid hbd ?_ ?_
      (hb.extH.remove _ _) (hb.intH.insert _ _)
    · rw [one_false (p := (·.border)) (c := { c' with helem := g.internal.next }) h'']
      rw [hh]; exact heap_leave hb.extH hE0
    · rw [one_true (p := fun c => !c.border) (c := { c' with helem := g.internal.next }) (by simp [h''])]
      exact heap_enter hI0
  · -- stays internal
    have h'' : c'.border = false := by simpa using h'
    have h0' : c.border = false := by simpa using h0
    rw [if_neg h', if_neg h0]
    refine ⟨?_, ⟨c'.helem, rfl⟩, rfl⟩
    rw [one_false (p := (·.border)) h0'] at hE0
    rw [one_true (p := fun c => !c.border) (by simp [h0'])] at hI0
    refine hb.rewrite hget hcoord hid hbd ?_ ?_ hb.extH (hb.intH.setKey _ _ _)
    · rw [one_false (p := (·.border)) h'']; exact hE0
    · rw [one_true (p := fun c => !c.border) (by simp [h'']), hh]; exact heap_stay hb.intH hI0

/-! ### the two neighbour loops as instances of `requeue` -/

def bumpUp (cfg : Cfg) (c : Cell) : Cell :=
  let c1 : Cell := { c with nbrs := c.nbrs + 1, border := if c.border && decide (c.nbrs + 1 ≥ cfg.limit) then false else c.border }
  { c1 with data := cfg.ev c1 }

def bumpDn (cfg : Cfg) (c : Cell) : Cell :=
  let c1 : Cell := { c with nbrs := decr c.nbrs, border := if !c.border && decide (decr c.nbrs < cfg.limit) then true else c.border }
  { c1 with data := cfg.ev c1 }

theorem touchCreate_some {cfg : Cfg} {g : GridB} {x : Coord} {c : Cell} (hget : getCell g.cells x = some c) :
    touchCreate cfg g x =
      (let c2 := bumpUp cfg c
       if c2.border then
         { g with cells := setCell g.cells c2, external := g.external.setKey cfg.kltE c2.helem c2.key }
       else if c.border then
         { g with cells := setCell g.cells { c2 with helem := g.internal.next }
                  external := g.external.remove cfg.kltE c2.helem
                  internal := g.internal.insert cfg.kltI c2.key }
       else
         { g with cells := setCell g.cells c2, internal := g.internal.setKey cfg.kltI c2.helem c2.key }) := by
  unfold touchCreate
  rw [hget]
  rfl

theorem touchCreate_eq {cfg : Cfg} {g : GridB} {x : Coord} {c : Cell} (hget : getCell g.cells x = some c)
    (himp : c.border = false → (bumpUp cfg c).border = false) :
    touchCreate cfg g x = requeue cfg g c (bumpUp cfg c) := by
  rw [touchCreate_some hget]
  unfold requeue
  by_cases h' : (bumpUp cfg c).border = true <;> by_cases h0 : c.border = true
  · simp only [if_pos h', if_pos h0]
  · exfalso; rw [himp (by simpa using h0)] at h'; cases h'
  · simp only [if_neg h', if_pos h0]
  · simp only [if_neg h', if_neg h0]

theorem touchRemove_some {cfg : Cfg} {g : GridB} {x : Coord} {c : Cell} (hget : getCell g.cells x = some c) :
    touchRemove cfg g x =
      (let c2 := bumpDn cfg c
       if c2.border then
         if c.border then
           { g with cells := setCell g.cells c2, external := g.external.setKey cfg.kltE c2.helem c2.key }
         else
           { g with cells := setCell g.cells { c2 with helem := g.external.next }
                    internal := g.internal.remove cfg.kltI c2.helem
                    external := g.external.insert cfg.kltE c2.key }
       else
         { g with cells := setCell g.cells c2, internal := g.internal.setKey cfg.kltI c2.helem c2.key }) := by
  unfold touchRemove
  rw [hget]
  rfl

theorem touchRemove_eq {cfg : Cfg} {g : GridB} {x : Coord} {c : Cell} (hget : getCell g.cells x = some c)
    (himp : c.border = true → (bumpDn cfg c).border = true) :
    touchRemove cfg g x = requeue cfg g c (bumpDn cfg c) := by
  rw [touchRemove_some hget]
  unfold requeue
  by_cases h' : (bumpDn cfg c).border = true <;> by_cases h0 : c.border = true
  · simp only [if_pos h', if_pos h0]
  · simp only [if_pos h', if_neg h0]
  · exfalso; exact h' (himp h0)
  · simp only [if_neg h', if_neg h0]

/-! ### the neighbour loops -/

theorem bumpUp_border {cfg : Cfg} {c : Cell} (hb : c.border = decide (c.nbrs < cfg.limit)) :
    (bumpUp cfg c).border = decide ((bumpUp cfg c).nbrs < cfg.limit) := by
  show (if c.border && decide (c.nbrs + 1 ≥ cfg.limit) then false else c.border) = decide (c.nbrs + 1 < cfg.limit)
  rw [hb]
  by_cases h1 : c.nbrs < cfg.limit <;> by_cases h2 : c.nbrs + 1 < cfg.limit <;> simp [h1, h2] <;> omega

theorem bumpDn_border {cfg : Cfg} {c : Cell} (hb : c.border = decide (c.nbrs < cfg.limit)) (hpos : 0 < c.nbrs) :
    (bumpDn cfg c).border = decide ((bumpDn cfg c).nbrs < cfg.limit) ∧ (bumpDn cfg c).nbrs + 1 = c.nbrs := by
  have hd : decr c.nbrs = c.nbrs - 1 := by unfold decr; rw [if_neg (by omega)]
  refine ⟨?_, ?_⟩
  · show (if !c.border && decide (decr c.nbrs < cfg.limit) then true else c.border) = decide (decr c.nbrs < cfg.limit)
    rw [hb, hd]
    by_cases h1 : c.nbrs < cfg.limit <;> by_cases h2 : c.nbrs - 1 < cfg.limit <;> simp [h1, h2] <;> omega
  · show decr c.nbrs + 1 = c.nbrs
    rw [hd]; omega

theorem getCell_of_has {cells : List Cell} {y : Coord} (h : has cells y = true) : ∃ c, getCell cells y = some c := by
  unfold has at h
  exact Option.isSome_iff_exists.1 h

theorem touchCreate_spec {cfg : Cfg} {g : GridB} {S : List Coord} {y : Coord} (hb : Base cfg g)
    (hc : CountUp cfg S g.cells) (hy : y ∉ S) (hpres : has g.cells y = true) :
    Base cfg (touchCreate cfg g y) ∧ CountUp cfg (y :: S) (touchCreate cfg g y).cells ∧
      (touchCreate cfg g y).cells.map (·.coord) = g.cells.map (·.coord) ∧
      (touchCreate cfg g y).nextId = g.nextId := by
  obtain ⟨c, hget⟩ := getCell_of_has hpres
  have hcm := getCell_some_mem hget
  have hbd := bumpUp_border (cfg := cfg) (hb.border c hcm.1)
  have himp : c.border = false → (bumpUp cfg c).border = false := by
    intro h0
    rw [hbd]
    have := hb.border c hcm.1
    rw [h0] at this
    have h1 : ¬ c.nbrs < cfg.limit := by simpa using this.symm
    show decide (c.nbrs + 1 < cfg.limit) = false
    simp; omega
  rw [touchCreate_eq hget himp]
  obtain ⟨hB, ⟨h, hcells⟩, hn⟩ := requeue_spec (c' := bumpUp cfg c) hb hget rfl rfl rfl hbd
  refine ⟨hB, ?_, ?_, hn⟩
  · rw [hcells]
    intro d hd
    rw [cnt_congr (map_coord_setCell _ _)]
    rcases (mem_setCell hb.nodup hget (c' := { bumpUp cfg c with helem := h }) hcm.2).1 hd with rfl | ⟨hd', hne⟩
    · have := hc c hcm.1
      rw [hcm.2, if_neg hy] at this
      show c.nbrs + 1 = cnt cfg g.cells c.coord + (if c.coord ∈ y :: S then 1 else 0)
      rw [hcm.2, if_pos (by simp)]
      omega
    · have := hc d hd'
      have hiff : (d.coord ∈ y :: S) ↔ d.coord ∈ S := by simp [hne]
      simp only [hiff]; exact this
  · rw [hcells]; exact map_coord_setCell _ _

theorem touchRemove_spec {cfg : Cfg} {g : GridB} {S : List Coord} {y : Coord} (hb : Base cfg g)
    (hc : CountDn cfg S g.cells) (hy : y ∉ S) (hpres : has g.cells y = true) (hpos : 0 < cnt cfg g.cells y) :
    Base cfg (touchRemove cfg g y) ∧ CountDn cfg (y :: S) (touchRemove cfg g y).cells ∧
      (touchRemove cfg g y).cells.map (·.coord) = g.cells.map (·.coord) ∧
      (touchRemove cfg g y).nextId = g.nextId := by
  obtain ⟨c, hget⟩ := getCell_of_has hpres
  have hcm := getCell_some_mem hget
  have hcn : c.nbrs = cnt cfg g.cells y := by
    have := hc c hcm.1
    rw [hcm.2, if_neg hy] at this
    omega
  obtain ⟨hbd, hnb⟩ := bumpDn_border (cfg := cfg) (hb.border c hcm.1) (by omega)
  have himp : c.border = true → (bumpDn cfg c).border = true := by
    intro h0
    rw [hbd]
    have := hb.border c hcm.1
    rw [h0] at this
    have h1 : c.nbrs < cfg.limit := by simpa using this.symm
    simp; omega
  rw [touchRemove_eq hget himp]
  obtain ⟨hB, ⟨h, hcells⟩, hn⟩ := requeue_spec (c' := bumpDn cfg c) hb hget rfl rfl rfl hbd
  refine ⟨hB, ?_, ?_, hn⟩
  · rw [hcells]
    intro d hd
    rw [cnt_congr (map_coord_setCell _ _)]
    rcases (mem_setCell hb.nodup hget (c' := { bumpDn cfg c with helem := h }) hcm.2).1 hd with rfl | ⟨hd', hne⟩
    · show (bumpDn cfg c).nbrs + (if c.coord ∈ y :: S then 1 else 0) = cnt cfg g.cells c.coord
      rw [hcm.2, if_pos (by simp)]
      omega
    · have := hc d hd'
      have hiff : (d.coord ∈ y :: S) ↔ d.coord ∈ S := by simp [hne]
      simp only [hiff]; exact this
  · rw [hcells]; exact map_coord_setCell _ _

theorem fold_create {cfg : Cfg} : ∀ (L S : List Coord) (g : GridB), Base cfg g → CountUp cfg S g.cells →
    L.Nodup → (∀ y ∈ L, y ∉ S) → (∀ y ∈ L, has g.cells y = true) →
    Base cfg (L.foldl (touchCreate cfg) g) ∧ CountUp cfg (L ++ S) (L.foldl (touchCreate cfg) g).cells ∧
      (L.foldl (touchCreate cfg) g).cells.map (·.coord) = g.cells.map (·.coord) ∧
      (L.foldl (touchCreate cfg) g).nextId = g.nextId := by
  intro L
  induction L with
  | nil => intro S g hb hc _ _ _; exact ⟨hb, hc, rfl, rfl⟩
  | cons y L ih =>
    intro S g hb hc nd hS hp
    have nd' := List.nodup_cons.1 nd
    obtain ⟨hB1, hC1, hM1, hN1⟩ := touchCreate_spec hb hc (hS y (by simp)) (hp y (by simp))
    have := ih (y :: S) (touchCreate cfg g y) hB1 hC1 nd'.2
      (by
        intro z hz hm
        rcases List.mem_cons.1 hm with rfl | hm
        · exact nd'.1 hz
        · exact hS z (by simp [hz]) hm)
      (by intro z hz; rw [has_congr hM1]; exact hp z (by simp [hz]))
    obtain ⟨hB2, hC2, hM2, hN2⟩ := this
    refine ⟨hB2, hC2.congr (by
      intro z
      simp only [List.mem_append, List.mem_cons, List.cons_append]
      exact ⟨fun h => by rcases h with h | h | h <;> simp [h], fun h => by rcases h with h | h | h <;> simp [h]⟩), hM2.trans hM1, hN2.trans hN1⟩

theorem fold_remove {cfg : Cfg} : ∀ (L S : List Coord) (g : GridB), Base cfg g → CountDn cfg S g.cells →
    L.Nodup → (∀ y ∈ L, y ∉ S) → (∀ y ∈ L, has g.cells y = true) → (∀ y ∈ L, 0 < cnt cfg g.cells y) →
    Base cfg (L.foldl (touchRemove cfg) g) ∧ CountDn cfg (L ++ S) (L.foldl (touchRemove cfg) g).cells ∧
      (L.foldl (touchRemove cfg) g).cells.map (·.coord) = g.cells.map (·.coord) ∧
      (L.foldl (touchRemove cfg) g).nextId = g.nextId := by
  intro L
  induction L with
  | nil => intro S g hb hc _ _ _ _; exact ⟨hb, hc, rfl, rfl⟩
  | cons y L ih =>
    intro S g hb hc nd hS hp hpos
    have nd' := List.nodup_cons.1 nd
    obtain ⟨hB1, hC1, hM1, hN1⟩ := touchRemove_spec hb hc (hS y (by simp)) (hp y (by simp)) (hpos y (by simp))
    have := ih (y :: S) (touchRemove cfg g y) hB1 hC1 nd'.2
      (by
        intro z hz hm
        rcases List.mem_cons.1 hm with rfl | hm
        · exact nd'.1 hz
        · exact hS z (by simp [hz]) hm)
      (by intro z hz; rw [has_congr hM1]; exact hp z (by simp [hz]))
      (by intro z hz; rw [cnt_congr hM1]; exact hpos z (by simp [hz]))
    obtain ⟨hB2, hC2, hM2, hN2⟩ := this
    refine ⟨hB2, hC2.congr (by
      intro z
      simp only [List.mem_append, List.mem_cons, List.cons_append]
      exact ⟨fun h => by rcases h with h | h | h <;> simp [h], fun h => by rcases h with h | h | h <;> simp [h]⟩), hM2.trans hM1, hN2.trans hN1⟩

/-! ### whole operations -/

theorem side_append (p : Cell → Bool) (a : List Cell) (c : Cell) : side p (a ++ [c]) = side p a ++ one p c := by
  unfold side one
  by_cases h : p c = true <;> simp [List.filter_append, h]

theorem add_inv {cfg : Cfg} {g1 : GridB} {S : List Coord} {cx : Cell} {E' I' : Heap Key} (hb : Base cfg g1)
    (hc : CountUp cfg S g1.cells)
    (hS : ∀ d ∈ g1.cells, (d.coord ∈ S ↔ cx.coord ∈ neighborCoords cfg.dim d.coord))
    (hx : cx.coord.length = cfg.dim) (habs : has g1.cells cx.coord = false)
    (hn : cx.nbrs = cnt cfg g1.cells cx.coord) (hbd : cx.border = decide (cx.nbrs < cfg.limit))
    (hid : cx.id = g1.nextId)
    (hE : E'.items.Perm (one (·.border) cx ++ g1.external.items))
    (hI : I'.items.Perm (one (fun c => !c.border) cx ++ g1.internal.items))
    (hEH : E'.HandlesOK) (hIH : I'.HandlesOK) :
    Inv cfg { cells := g1.cells ++ [cx], external := E', internal := I', nextId := g1.nextId + 1 } := by
  have hxn : cx.coord ∉ g1.cells.map (·.coord) := by
    rw [has_eq_decide_mem] at habs; simpa using habs
  refine ⟨⟨?_, ?_, ?_, ?_, ?_, hEH, hIH, ?_, ?_⟩, ?_⟩
  · show ((g1.cells ++ [cx]).map (·.coord)).Nodup
    rw [List.map_append, List.nodup_append]
    refine ⟨hb.nodup, by simp, ?_⟩
    intro a ha b hb' hab
    simp at hb'
    subst hb'; subst hab
    exact hxn ha
  · intro d hd
    rcases List.mem_append.1 hd with h | h
    · exact hb.len d h
    · simp at h; subst h; exact hx
  · intro d hd
    rcases List.mem_append.1 hd with h | h
    · exact hb.border d h
    · simp at h; subst h; exact hbd
  · show E'.items.Perm (side (·.border) (g1.cells ++ [cx]))
    rw [side_append]
    exact hE.trans ((List.Perm.append_left _ hb.ext).trans List.perm_append_comm)
  · show I'.items.Perm (side (fun c => !c.border) (g1.cells ++ [cx]))
    rw [side_append]
    exact hI.trans ((List.Perm.append_left _ hb.int).trans List.perm_append_comm)
  · intro d hd
    show d.id < g1.nextId + 1
    rcases List.mem_append.1 hd with h | h
    · exact Nat.lt_succ_of_lt (hb.idlt d h)
    · simp at h; subst h; omega
  · show ((g1.cells ++ [cx]).map (·.id)).Nodup
    rw [List.map_append, List.nodup_append]
    refine ⟨hb.idnd, by simp, ?_⟩
    intro a ha b hb' hab
    simp at hb'
    obtain ⟨d, hd, rfl⟩ := List.mem_map.1 ha
    have := hb.idlt d hd
    omega
  · intro d hd
    show d.nbrs = cnt cfg (g1.cells ++ [cx]) d.coord
    rcases List.mem_append.1 hd with h | h
    · rw [cnt_append_absent cfg g1.cells cx d.coord habs (hb.len d h), hc d h]
      have := hS d h
      by_cases hm : d.coord ∈ S
      · rw [if_pos hm, if_pos (this.1 hm)]
      · rw [if_neg hm, if_neg (fun h' => hm (this.2 h'))]
    · simp at h; subst h
      rw [cnt_append_absent cfg g1.cells d d.coord habs hx, if_neg (not_self_mem_neighborCoords hx), hn]
      rfl

theorem erase_inv {cfg : Cfg} {g1 : GridB} {S : List Coord} {x : Coord} {E' I' : Heap Key} (hb : Base cfg g1)
    (hc : CountDn cfg S g1.cells) (hpres : has g1.cells x = true)
    (hS : ∀ d ∈ g1.cells, (d.coord ∈ S ↔ x ∈ neighborCoords cfg.dim d.coord))
    (hE : E'.items.Perm (side (·.border) (eraseCoord g1.cells x)))
    (hI : I'.items.Perm (side (fun c => !c.border) (eraseCoord g1.cells x)))
    (hEH : E'.HandlesOK) (hIH : I'.HandlesOK) :
    Inv cfg { g1 with cells := eraseCoord g1.cells x, external := E', internal := I' } := by
  have hsub : (eraseCoord g1.cells x).Sublist g1.cells := List.filter_sublist
  refine ⟨⟨?_, ?_, ?_, hE, hI, hEH, hIH, ?_, ?_⟩, ?_⟩
  · exact (hsub.map _).nodup hb.nodup
  · intro d hd; exact hb.len d (hsub.subset hd)
  · intro d hd; exact hb.border d (hsub.subset hd)
  · intro d hd; exact hb.idlt d (hsub.subset hd)
  · exact (hsub.map _).nodup hb.idnd
  · intro d hd
    have hd' := hsub.subset hd
    show d.nbrs = cnt cfg (eraseCoord g1.cells x) d.coord
    have h1 := cnt_erase_present cfg g1.cells x d.coord hpres (hb.len d hd')
    have h2 := hc d hd'
    have := hS d hd'
    by_cases hm : d.coord ∈ S
    · rw [if_pos hm] at h2; rw [if_pos (this.1 hm)] at h1; omega
    · rw [if_neg hm] at h2; rw [if_neg (fun h' => hm (this.2 h'))] at h1; omega


theorem nbL_facts {cfg : Cfg} {g : GridB} {x : Coord} (hb : Base cfg g) (hx : x.length = cfg.dim) :
    let L := (neighbors cfg.dim g.cells x).map (·.coord)
    L.Nodup ∧ (∀ y ∈ L, has g.cells y = true) ∧
      (∀ d ∈ g.cells, (d.coord ∈ L ↔ x ∈ neighborCoords cfg.dim d.coord)) ∧ x ∉ L := by
  intro L
  have hL : L = (neighborCoords cfg.dim x).filter (has g.cells) := neighbors_map_coord
  refine ⟨?_, ?_, ?_, ?_⟩
  · rw [hL]; exact (neighborCoords_nodup hx).sublist List.filter_sublist
  · intro y hy; rw [hL] at hy; exact (List.mem_filter.1 hy).2
  · intro d hd
    rw [hL, List.mem_filter]
    constructor
    · intro h; exact neighborCoords_symm hx h.1
    · intro h; exact ⟨neighborCoords_symm (hb.len d hd) h, has_coord_of_mem hd⟩
  · rw [hL, List.mem_filter]; intro h; exact not_self_mem_neighborCoords hx h.1

theorem Inv.countUp {cfg : Cfg} {g : GridB} (hi : Inv cfg g) : CountUp cfg [] g.cells := by
  intro c hc; simp [hi.count c hc]

theorem Inv.countDn {cfg : Cfg} {g : GridB} (hi : Inv cfg g) : CountDn cfg [] g.cells := by
  intro c hc; simp [hi.count c hc]

theorem not_ge_eq_lt (n l : Nat) : (!decide (n ≥ l)) = decide (n < l) := by
  by_cases h : n < l
  · simp [h]
  · simp [h]; omega

theorem newCell_inv {cfg : Cfg} {g : GridB} {x : Coord} {d : Int} (hi : Inv cfg g) (hx : x.length = cfg.dim)
    (habs : has g.cells x = false) : Inv cfg (newCell cfg g x d) := by
  obtain ⟨hnd, hpres, hS, _⟩ := nbL_facts hi.toBase hx
  obtain ⟨hB1, hC1, hM1, hN1⟩ := fold_create ((neighbors cfg.dim g.cells x).map (·.coord)) [] g hi.toBase
    hi.countUp hnd (by simp) hpres
  rw [List.append_nil] at hC1
  have habs1 : has (List.foldl (touchCreate cfg) g ((neighbors cfg.dim g.cells x).map (·.coord))).cells x = false := by
    rw [has_congr hM1]; exact habs
  have hS1 : ∀ d ∈ (List.foldl (touchCreate cfg) g ((neighbors cfg.dim g.cells x).map (·.coord))).cells,
      (d.coord ∈ (neighbors cfg.dim g.cells x).map (·.coord) ↔ x ∈ neighborCoords cfg.dim d.coord) := by
    intro d hd
    have : d.coord ∈ g.cells.map (·.coord) := by rw [← hM1]; exact List.mem_map.2 ⟨d, hd, rfl⟩
    obtain ⟨d', hd', he⟩ := List.mem_map.1 this
    rw [← he]; exact hS d' hd'
  have hcnt : boundaryDims cfg x + (neighbors cfg.dim g.cells x).length
      = cnt cfg (List.foldl (touchCreate cfg) g ((neighbors cfg.dim g.cells x).map (·.coord))).cells x := by
    rw [cnt_congr hM1, cnt_eq_neighbors]; omega
  unfold newCell
  simp only []
  split
  · rename_i hbo
    rw [show addCell _ _ = _ ++ [_] from if_neg (by rw [habs1]; simp)]
    rw [← hN1]
    refine add_inv hB1 hC1 hS1 hx habs1 hcnt (not_ge_eq_lt _ _) rfl ?_ ?_ (hB1.extH.insert _ _) hB1.intH
    · rw [one_true (p := (·.border)) hbo]; exact Heap.items_insert _ _ _
    · rw [one_false (p := fun c => !c.border) (by simp [hbo])]; exact List.Perm.refl _
  · rename_i hbo
    rw [show addCell _ _ = _ ++ [_] from if_neg (by rw [habs1]; simp)]
    rw [← hN1]
    refine add_inv hB1 hC1 hS1 hx habs1 hcnt (not_ge_eq_lt _ _) rfl ?_ ?_ hB1.extH (hB1.intH.insert _ _)
    · rw [one_false (p := (·.border)) (by simpa using hbo)]; exact List.Perm.refl _
    · rw [one_true (p := fun c => !c.border) (by simpa using hbo)]; exact Heap.items_insert _ _ _


theorem removeCell_inv {cfg : Cfg} {g : GridB} {x : Coord} (hi : Inv cfg g) (hpres : has g.cells x = true) :
    Inv cfg (removeCell cfg g x).1 := by
  obtain ⟨c0, hc0, hc0x⟩ := has_iff.1 hpres
  have hx : x.length = cfg.dim := hc0x ▸ hi.len c0 hc0
  obtain ⟨hnd, hpr, hS, _⟩ := nbL_facts hi.toBase hx
  have hpos : ∀ y ∈ (neighbors cfg.dim g.cells x).map (·.coord), 0 < cnt cfg g.cells y := by
    intro y hy
    have hyx : y ∈ neighborCoords cfg.dim x := by
      rw [neighbors_map_coord] at hy; exact (List.mem_filter.1 hy).1
    have hxy := neighborCoords_symm hx hyx
    unfold cnt
    have : 0 < (neighborCoords cfg.dim y).countP (has g.cells) := List.countP_pos_iff.2 ⟨x, hxy, hpres⟩
    omega
  obtain ⟨hB1, hC1, hM1, hN1⟩ := fold_remove ((neighbors cfg.dim g.cells x).map (·.coord)) [] g hi.toBase
    hi.countDn hnd (by simp) hpr hpos
  rw [List.append_nil] at hC1
  have hpres1 : has (List.foldl (touchRemove cfg) g ((neighbors cfg.dim g.cells x).map (·.coord))).cells x = true := by
    rw [has_congr hM1]; exact hpres
  have hS1 : ∀ d ∈ (List.foldl (touchRemove cfg) g ((neighbors cfg.dim g.cells x).map (·.coord))).cells,
      (d.coord ∈ (neighbors cfg.dim g.cells x).map (·.coord) ↔ x ∈ neighborCoords cfg.dim d.coord) := by
    intro d hd
    have : d.coord ∈ g.cells.map (·.coord) := by rw [← hM1]; exact List.mem_map.2 ⟨d, hd, rfl⟩
    obtain ⟨d', hd', he⟩ := List.mem_map.1 this
    rw [← he]; exact hS d' hd'
  obtain ⟨cx, hget⟩ := getCell_of_has hpres1
  have hE0 := hB1.ext.trans (side_split (p := (·.border)) hB1.nodup hget)
  have hI0 := hB1.int.trans (side_split (p := fun c => !c.border) hB1.nodup hget)
  unfold removeCell
  simp only [hget]
  split
  · rename_i hbo
    rw [one_true (p := (·.border)) hbo] at hE0
    rw [one_false (p := fun c => !c.border) (by simp [hbo])] at hI0
    exact erase_inv hB1 hC1 hpres1 hS1 (heap_leave hB1.extH hE0) hI0 (hB1.extH.remove _ _) hB1.intH
  · rename_i hbo
    have hbo' : cx.border = false := by simpa using hbo
    rw [one_false (p := (·.border)) hbo'] at hE0
    rw [one_true (p := fun c => !c.border) (by simp [hbo'])] at hI0
    exact erase_inv hB1 hC1 hpres1 hS1 hE0 (heap_leave hB1.intH hI0) hB1.extH (hB1.intH.remove _ _)

theorem Inv.of_requeue_same {cfg : Cfg} {g : GridB} (hi : Inv cfg g) {y : Coord} {c c' : Cell}
    (hget : getCell g.cells y = some c) (hcoord : c'.coord = c.coord) (hid : c'.id = c.id)
    (hh : c'.helem = c.helem) (hn : c'.nbrs = c.nbrs) (hbo : c'.border = c.border) :
    Inv cfg (requeue cfg g c c') := by
  have hcm := getCell_some_mem hget
  have hbd : c'.border = decide (c'.nbrs < cfg.limit) := by rw [hbo, hn]; exact hi.border c hcm.1
  obtain ⟨hB, ⟨h, hcells⟩, _⟩ := requeue_spec hi.toBase hget hcoord hid hh hbd
  refine ⟨hB, ?_⟩
  rw [hcells]
  intro d hd
  rw [cnt_congr (map_coord_setCell _ _)]
  rcases (mem_setCell hi.nodup hget (c' := { c' with helem := h }) (hcoord.trans hcm.2)).1 hd with rfl | ⟨hd', _⟩
  · show c'.nbrs = cnt cfg g.cells c'.coord
    rw [hn, hcoord]; exact hi.count c hcm.1
  · exact hi.count d hd'

theorem update_inv {cfg : Cfg} {g : GridB} {x : Coord} {d : Int} (hi : Inv cfg g) : Inv cfg (update cfg g x d) := by
  unfold update
  split
  · exact hi
  · rename_i c hget
    have := hi.of_requeue_same (c' := { c with data := cfg.ev { c with data := d } }) hget rfl rfl rfl rfl rfl
    unfold requeue at this
    by_cases hb : c.border = true
    · have hb' : ({ c with data := cfg.ev { c with data := d } } : Cell).border = true := hb
      rw [if_pos hb', if_pos hb] at this
      simp only []
      rw [if_pos hb']
      exact this
    · have hb' : ¬ ({ c with data := cfg.ev { c with data := d } } : Cell).border = true := hb
      rw [if_neg hb', if_neg hb] at this
      simp only []
      rw [if_neg hb']
      exact this

theorem clear_inv {cfg : Cfg} {g : GridB} (hi : Inv cfg g) : Inv cfg (clear g) := by
  refine ⟨⟨by simp [clear], by simp [clear], by simp [clear], ?_, ?_, hi.extH.clear, hi.intH.clear, by simp [clear],
    by simp [clear]⟩, by simp [clear]⟩
  · show g.external.clear.items.Perm (side _ []); rw [Heap.items_clear]; exact List.Perm.refl _
  · show g.internal.clear.items.Perm (side _ []); rw [Heap.items_clear]; exact List.Perm.refl _

theorem empty_inv (cfg : Cfg) : Inv cfg {} := by
  refine ⟨⟨by simp, by simp, by simp, ?_, ?_, Heap.HandlesOK.empty, Heap.HandlesOK.empty, by simp, by simp⟩, by simp⟩
  · exact List.Perm.refl _
  · exact List.Perm.refl _

end OmplModel.Grid
