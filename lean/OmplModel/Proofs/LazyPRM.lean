import OmplModel.Model.LazyPRM
import OmplModel.Proofs.PlannerReport
import OmplModel.Proofs.RRT
/-!
Invariant proofs for the LazyPRM model.  Arithmetic-free.
-/
namespace OmplModel.LazyPRM
open OmplModel.PlannerReport
open OmplModel.RRT (Chain chain_snoc chain_mono chain_getElem)

variable {S D : Type}

/-! ### the component bookkeeping never touches states, liveness, flags, edges or the nn list -/

theorem markComponent_core (r : Roadmap S D) (v c : Nat) :
    (markComponent r v c).states = r.states ∧ (markComponent r v c).alive = r.alive ∧
      (markComponent r v c).vflag = r.vflag ∧ (markComponent r v c).edges = r.edges ∧
      (markComponent r v c).nn = r.nn := ⟨rfl, rfl, rfl, rfl, rfl⟩

theorem checkSame_core (r : Roadmap S D) :
    (checkSame r).states = r.states ∧ (checkSame r).alive = r.alive ∧ (checkSame r).vflag = r.vflag ∧
      (checkSame r).edges = r.edges ∧ (checkSame r).nn = r.nn := ⟨rfl, rfl, rfl, rfl, rfl⟩

theorem checkNone_core (r : Roadmap S D) (c : Nat) :
    (checkNone r c).states = r.states ∧ (checkNone r c).alive = r.alive ∧ (checkNone r c).vflag = r.vflag ∧
      (checkNone r c).edges = r.edges ∧ (checkNone r c).nn = r.nn := ⟨rfl, rfl, rfl, rfl, rfl⟩

theorem uniteComponents_core (r : Roadmap S D) (a b : Nat) :
    (uniteComponents r a b).states = r.states ∧ (uniteComponents r a b).alive = r.alive ∧
      (uniteComponents r a b).vflag = r.vflag ∧ (uniteComponents r a b).edges = r.edges ∧
      (uniteComponents r a b).nn = r.nn := by
  unfold uniteComponents
  simp only
  split
  · exact ⟨rfl, rfl, rfl, rfl, rfl⟩
  · split <;> exact ⟨rfl, rfl, rfl, rfl, rfl⟩

theorem relabelNeighbours_core (c0 : Nat) (l : List Nat) :
    ∀ r : Roadmap S D, (relabelNeighbours c0 l r).states = r.states ∧ (relabelNeighbours c0 l r).alive = r.alive ∧
      (relabelNeighbours c0 l r).vflag = r.vflag ∧ (relabelNeighbours c0 l r).edges = r.edges ∧
      (relabelNeighbours c0 l r).nn = r.nn := by
  induction l with
  | nil => intro r; exact ⟨rfl, rfl, rfl, rfl, rfl⟩
  | cons n rest ih =>
    intro r
    simp only [relabelNeighbours]
    split
    · obtain ⟨a, b, c, d, e⟩ := ih (checkSame (markComponent (freshComp r) n r.compCount))
      exact ⟨a, b, c, d, e⟩
    · exact ih r

/-! ### the invariant on the part of the roadmap the property is about -/

/-- the two directions a roadmap edge may have been validated in -/
def EitherWay (cfg : Cfg S D) (a b : S) : Prop := cfg.checkMotion a b = true ∨ cfg.checkMotion b a = true

structure RInv (cfg : Cfg S D) (r : Roadmap S D) : Prop where
  /-- the parallel arrays have one entry per vertex ever created -/
  sizeA : r.alive.size = r.states.size
  sizeF : r.vflag.size = r.states.size
  /-- edges connect vertices that are in the graph -/
  edgeAlive : ∀ e ∈ r.edges, isAlive r e.u = true ∧ isAlive r e.v = true
  /-- the nearest-neighbour list holds vertices that are in the graph -/
  nnAlive : ∀ n ∈ r.nn, isAlive r n = true
  /-- a vertex marked VALID was answered valid -/
  vflagSound : ∀ (v : Nat) (s : S), r.vflag[v]? = some true → r.states[v]? = some s → cfg.valid s = true
  /-- an edge marked VALID was answered valid by `checkMotion` (for one of the two orders of its end states) -/
  eflagSound : ∀ e ∈ r.edges, e.flag = true → ∀ (a b : S), r.states[e.u]? = some a → r.states[e.v]? = some b →
    EitherWay cfg a b

theorem alive_lt (r : Roadmap S D) (h : r.alive.size = r.states.size) (v : Nat) (hv : isAlive r v = true) :
    v < r.states.size := by
  unfold isAlive at hv
  by_cases hlt : v < r.alive.size
  · omega
  · rw [Array.getElem?_eq_none (by omega)] at hv; simp at hv

theorem alive_state (r : Roadmap S D) (h : r.alive.size = r.states.size) (v : Nat) (hv : isAlive r v = true) :
    ∃ s, r.states[v]? = some s := by
  have := alive_lt r h v hv
  exact ⟨r.states[v], Array.getElem?_eq_getElem this⟩

/-- `r'` extends `r`: every vertex keeps its number and state, and a vertex that has left the graph stays out -/
structure Ext (r r' : Roadmap S D) : Prop where
  states : ∀ (v : Nat) (s : S), r.states[v]? = some s → r'.states[v]? = some s
  dead : ∀ v, v < r.states.size → isAlive r v = false → isAlive r' v = false

theorem Ext.refl (r : Roadmap S D) : Ext r r := ⟨fun _ _ h => h, fun _ _ h => h⟩

theorem Ext.trans {r1 r2 r3 : Roadmap S D} (h12 : Ext r1 r2) (h23 : Ext r2 r3) : Ext r1 r3 := by
  refine ⟨fun v s h => h23.states v s (h12.states v s h), fun v hv hd => ?_⟩
  apply h23.dead v ?_ (h12.dead v hv hd)
  have := h12.states v (r1.states[v]) (Array.getElem?_eq_getElem hv)
  exact (Array.getElem?_eq_some_iff.1 this).1

theorem ext_of_core (r r' : Roadmap S D) (hs : r'.states = r.states) (ha : r'.alive = r.alive) : Ext r r' :=
  ⟨fun v s h => by rw [hs]; exact h, fun v _ h => by unfold isAlive at *; rw [ha]; exact h⟩

theorem rinv_of_core (cfg : Cfg S D) (r r' : Roadmap S D) (h : RInv cfg r) (hs : r'.states = r.states)
    (ha : r'.alive = r.alive) (hf : r'.vflag = r.vflag) (he : r'.edges = r.edges) (hn : r'.nn = r.nn) :
    RInv cfg r' := by
  refine ⟨by rw [ha, hs]; exact h.sizeA, by rw [hf, hs]; exact h.sizeF, ?_, ?_, ?_, ?_⟩
  · intro e hee; rw [he] at hee; unfold isAlive; rw [ha]; exact h.edgeAlive e hee
  · intro n hnn; rw [hn] at hnn; unfold isAlive; rw [ha]; exact h.nnAlive n hnn
  · intro v s h1 h2; rw [hf] at h1; rw [hs] at h2; exact h.vflagSound v s h1 h2
  · intro e hee hfl a b h1 h2; rw [he] at hee; rw [hs] at h1 h2; exact h.eflagSound e hee hfl a b h1 h2

/-! ### addMilestone -/

theorem firstMin_mem (lt : D → D → Bool) (l : List (Nat × D)) (x : Nat × D) (h : firstMin lt l = some x) : x ∈ l := by
  induction l generalizing x with
  | nil => simp [firstMin] at h
  | cons y rest ih =>
    simp only [firstMin] at h
    split at h
    · simp only [Option.some.injEq] at h; subst h; simp
    · next z hz =>
      split at h
      · simp only [Option.some.injEq] at h; subst h
        exact List.mem_cons_of_mem _ (ih z hz)
      · simp only [Option.some.injEq] at h; subst h; simp

theorem selectK_mem (lt : D → D → Bool) (k : Nat) : ∀ (l : List (Nat × D)) (x : Nat × D), x ∈ selectK lt k l → x ∈ l := by
  induction k with
  | zero => intro l x h; simp [selectK] at h
  | succ k ih =>
    intro l x h
    simp only [selectK] at h
    split at h
    · simp at h
    · next y hy =>
      simp only [List.mem_cons] at h
      rcases h with rfl | h
      · exact firstMin_mem lt l _ hy
      · exact List.mem_of_mem_eraseP (ih _ x h)

theorem neighbours_mem_nn (cfg : Cfg S D) (r : Roadmap S D) (s : S) (n : Nat) (h : n ∈ neighbours cfg r s) :
    n ∈ r.nn := by
  unfold neighbours at h
  simp only [List.mem_map] at h
  obtain ⟨x, hx, rfl⟩ := h
  rw [List.mem_reverse] at hx
  have hx2 := (List.dropWhile_sublist _).subset hx
  rw [List.mem_reverse] at hx2
  have hx3 := selectK_mem cfg.lt cfg.k _ x hx2
  simp only [List.mem_filterMap, Option.map_eq_some_iff] at hx3
  obtain ⟨m, hm, _, _, rfl⟩ := hx3
  exact hm

theorem connectAll_spec (cfg : Cfg S D) (m : Nat) (s : S) (l : List Nat) :
    ∀ r : Roadmap S D, RInv cfg r → isAlive r m = true → (∀ n ∈ l, isAlive r n = true) →
      RInv cfg (connectAll cfg m s l r) ∧ (connectAll cfg m s l r).states = r.states ∧
        (connectAll cfg m s l r).alive = r.alive ∧ (connectAll cfg m s l r).vflag = r.vflag ∧
        (connectAll cfg m s l r).nn = r.nn := by
  induction l with
  | nil => intro r h _ _; exact ⟨h, rfl, rfl, rfl, rfl⟩
  | cons n rest ih =>
    intro r h hm hl
    simp only [connectAll]
    split
    · generalize hr1 : addEdge r m n (cfg.cost s (r.states[n]?.getD s)) = r1
      have h1 : RInv cfg r1 := by
        subst hr1
        refine ⟨h.sizeA, h.sizeF, ?_, h.nnAlive, h.vflagSound, ?_⟩
        · intro e he
          simp only [addEdge, List.mem_append, List.mem_singleton] at he
          rcases he with he | rfl
          · exact h.edgeAlive e he
          · exact ⟨hm, hl n (by simp)⟩
        · intro e he hf
          simp only [addEdge, List.mem_append, List.mem_singleton] at he
          rcases he with he | rfl
          · exact h.eflagSound e he hf
          · simp at hf
      have hc1 : r1.states = r.states ∧ r1.alive = r.alive ∧ r1.vflag = r.vflag ∧ r1.nn = r.nn := by
        subst hr1; exact ⟨rfl, rfl, rfl, rfl⟩
      obtain ⟨u1, u2, u3, u4, u5⟩ := uniteComponents_core r1 m n
      have h2 := rinv_of_core cfg r1 (uniteComponents r1 m n) h1 u1 u2 u3 u4 u5
      have ha : ∀ x, isAlive (uniteComponents r1 m n) x = isAlive r x := by
        intro x; unfold isAlive; rw [u2, hc1.2.1]
      obtain ⟨i1, i2, i3, i4, i5⟩ := ih (uniteComponents r1 m n) h2 (by rw [ha]; exact hm)
        (fun x hx => by rw [ha]; exact hl x (List.mem_cons_of_mem _ hx))
      exact ⟨i1, by rw [i2, u1, hc1.1], by rw [i3, u2, hc1.2.1], by rw [i4, u3, hc1.2.2.1], by rw [i5, u5, hc1.2.2.2]⟩
    · exact ih r h hm (fun x hx => hl x (List.mem_cons_of_mem _ hx))

/-- `addMilestone`: the invariant is kept, earlier vertices are untouched, and the new vertex is in the graph with
the given state and an UNKNOWN flag -/
theorem addMilestone_spec (cfg : Cfg S D) (r : Roadmap S D) (s : S) (h : RInv cfg r) :
    RInv cfg (addMilestone cfg r s).1 ∧ Ext r (addMilestone cfg r s).1 ∧
      (addMilestone cfg r s).2 = r.states.size ∧
      (addMilestone cfg r s).1.states = r.states.push s ∧
      isAlive (addMilestone cfg r s).1 (addMilestone cfg r s).2 = true ∧
      (∀ v, v < r.states.size → isAlive (addMilestone cfg r s).1 v = isAlive r v) := by
  unfold addMilestone
  simp only
  generalize hr0 : pushVertex r s = r0
  have halive0 : ∀ v, v < r.states.size → isAlive r0 v = isAlive r v := by
    intro v hv
    subst hr0
    unfold isAlive pushVertex
    simp only
    rw [Array.getElem?_push, if_neg (by rw [h.sizeA]; omega)]
  have hm0 : isAlive r0 r.states.size = true := by
    subst hr0
    unfold isAlive pushVertex
    simp only
    rw [Array.getElem?_push, if_pos (by rw [h.sizeA])]
    rfl
  have hst0 : r0.states = r.states.push s ∧ r0.vflag = r.vflag.push false ∧ r0.edges = r.edges ∧ r0.nn = r.nn ∧
      r0.alive = r.alive.push true := by
    subst hr0; exact ⟨rfl, rfl, rfl, rfl, rfl⟩
  have h0 : RInv cfg r0 := by
    refine ⟨by rw [hst0.2.2.2.2, hst0.1]; simp [h.sizeA], by rw [hst0.2.1, hst0.1]; simp [h.sizeF], ?_, ?_, ?_, ?_⟩
    · intro e he
      rw [hst0.2.2.1] at he
      have := h.edgeAlive e he
      exact ⟨by rw [halive0 _ (alive_lt r h.sizeA _ this.1)]; exact this.1,
             by rw [halive0 _ (alive_lt r h.sizeA _ this.2)]; exact this.2⟩
    · intro n hn
      rw [hst0.2.2.2.1] at hn
      have := h.nnAlive n hn
      rw [halive0 _ (alive_lt r h.sizeA _ this)]; exact this
    · intro v x h1 h2
      rw [hst0.2.1] at h1
      rw [hst0.1] at h2
      rw [Array.getElem?_push] at h1 h2
      split at h1
      · simp at h1
      · split at h2
        · next hv1 hv2 => rw [h.sizeF] at hv1; exact absurd hv2 hv1
        · exact h.vflagSound v x h1 h2
    · intro e he hf a b h1 h2
      rw [hst0.2.2.1] at he
      rw [hst0.1] at h1 h2
      have hal := h.edgeAlive e he
      have hu := alive_lt r h.sizeA _ hal.1
      have hv := alive_lt r h.sizeA _ hal.2
      rw [Array.getElem?_push, if_neg (by omega)] at h1 h2
      exact h.eflagSound e he hf a b h1 h2
  have hnb : ∀ n ∈ neighbours cfg r s, isAlive r0 n = true := by
    intro n hn
    have := h.nnAlive n (neighbours_mem_nn cfg r s n hn)
    rw [halive0 _ (alive_lt r h.sizeA _ this)]; exact this
  obtain ⟨c1, c2, c3, c4, c5⟩ := connectAll_spec cfg r.states.size s (neighbours cfg r s) r0 h0 hm0 hnb
  generalize connectAll cfg r.states.size s (neighbours cfg r s) r0 = r1 at c1 c2 c3 c4 c5
  have hst : r1.states = r.states.push s := by rw [c2]; exact hst0.1
  have hal : ∀ v, isAlive ({ r1 with nn := r1.nn ++ [r.states.size] } : Roadmap S D) v = isAlive r0 v := by
    intro v; unfold isAlive; simp only; rw [c3]
  refine ⟨?_, ?_, trivial, hst, by rw [hal]; exact hm0, fun v hv => by rw [hal, halive0 v hv]⟩
  · refine ⟨c1.sizeA, c1.sizeF, c1.edgeAlive, ?_, c1.vflagSound, c1.eflagSound⟩
    intro n hn
    simp only [List.mem_append, List.mem_singleton] at hn
    rcases hn with hn | rfl
    · exact c1.nnAlive n hn
    · rw [hal]; exact hm0
  · refine ⟨fun v x hx => ?_, fun v hv hd => ?_⟩
    · simp only
      rw [hst, Array.getElem?_push, if_neg (by have := (Array.getElem?_eq_some_iff.1 hx).1; omega)]
      exact hx
    · rw [hal, halive0 v hv]; exact hd

/-! ### constructSolution: the vertex phase -/

def FlagOK (cfg : Cfg S D) (r : Roadmap S D) (vf : Array Bool) : Prop :=
  ∀ (v : Nat) (s : S), vf[v]? = some true → r.states[v]? = some s → cfg.valid s = true

theorem checkVertices_spec (cfg : Cfg S D) (r : Roadmap S D) (l : List Nat) :
    ∀ (vf : Array Bool) (rm : List Nat), FlagOK cfg r vf →
      FlagOK cfg r (checkVertices cfg r l vf rm).1 ∧ (checkVertices cfg r l vf rm).1.size = vf.size ∧
        (∀ v ∈ (checkVertices cfg r l vf rm).2, v ∈ rm ∨ (v ∈ l ∧ ∀ s, r.states[v]? = some s → cfg.valid s = false)) ∧
        ((checkVertices cfg r l vf rm).2 = [] → rm = [] ∧ ∀ pos ∈ l, ∀ s, r.states[pos]? = some s → cfg.valid s = true) := by
  induction l with
  | nil => intro vf rm h; exact ⟨h, rfl, fun v hv => Or.inl hv, fun h2 => ⟨h2, fun _ hp => by simp at hp⟩⟩
  | cons pos rest ih =>
    intro vf rm h
    simp only [checkVertices]
    generalize hok : (vf[pos]?.getD false || (match r.states[pos]? with | some s => cfg.valid s | none => false)) = ok
    cases ok with
    | true =>
      simp only [if_true]
      have hposv : ∀ s, r.states[pos]? = some s → cfg.valid s = true := by
        intro s hs
        simp only [Bool.or_eq_true] at hok
        rcases hok with hk | hk
        · apply h pos s _ hs
          cases hg : vf[pos]? with
          | none => rw [hg] at hk; simp at hk
          | some b => rw [hg] at hk; simp at hk; rw [hk]
        · rw [hs] at hk; exact hk
      have h' : FlagOK cfg r (vf.setIfInBounds pos true) := by
        intro v s h1 h2
        rw [Array.getElem?_setIfInBounds] at h1
        split at h1
        · next heq => subst heq; exact hposv s h2
        · exact h v s h1 h2
      obtain ⟨i1, i2, i3, i4⟩ := ih (vf.setIfInBounds pos true) rm h'
      refine ⟨i1, by rw [i2]; simp, ?_, ?_⟩
      · intro v hv
        rcases i3 v hv with h5 | ⟨h5, h6⟩
        · exact Or.inl h5
        · exact Or.inr ⟨List.mem_cons_of_mem _ h5, h6⟩
      · intro hnil
        obtain ⟨j1, j2⟩ := i4 hnil
        refine ⟨j1, ?_⟩
        intro q hq s hs
        simp only [List.mem_cons] at hq
        rcases hq with rfl | hq
        · exact hposv s hs
        · exact j2 q hq s hs
    | false =>
      simp only [Bool.false_eq_true, if_false]
      have hposv : ∀ s, r.states[pos]? = some s → cfg.valid s = false := by
        intro s hs
        simp only [Bool.or_eq_false_iff] at hok
        have := hok.2
        rw [hs] at this; exact this
      obtain ⟨i1, i2, i3, i4⟩ := ih vf (rm ++ [pos]) h
      refine ⟨i1, i2, ?_, ?_⟩
      · intro v hv
        rcases i3 v hv with h5 | ⟨h5, h6⟩
        · simp only [List.mem_append, List.mem_singleton] at h5
          rcases h5 with h5 | rfl
          · exact Or.inl h5
          · exact Or.inr ⟨by simp, hposv⟩
        · exact Or.inr ⟨List.mem_cons_of_mem _ h5, h6⟩
      · intro hnil
        have := (i4 hnil).1
        simp at this

/-! ### removal of vertices -/

theorem foldl_kill (rm : List Nat) : ∀ (a : Array Bool) (v : Nat),
    (rm.foldl (fun a x => a.setIfInBounds x false) a)[v]?.getD false = (a[v]?.getD false && !rm.contains v) := by
  induction rm with
  | nil => intro a v; simp
  | cons x rest ih =>
    intro a v
    simp only [List.foldl_cons]
    rw [ih, Array.getElem?_setIfInBounds]
    by_cases hxv : x = v
    · subst hxv
      by_cases hlt : x < a.size
      · simp [hlt]
      · simp [hlt, Array.getElem?_eq_none (Nat.le_of_not_lt hlt)]
    · have hvx : ¬ v = x := fun h => hxv h.symm
      simp [hxv, hvx]

theorem foldl_kill_size (rm : List Nat) : ∀ (a : Array Bool),
    (rm.foldl (fun a x => a.setIfInBounds x false) a).size = a.size := by
  induction rm with
  | nil => intro a; rfl
  | cons x rest ih => intro a; simp only [List.foldl_cons]; rw [ih]; simp

theorem removeVertices_spec (cfg : Cfg S D) (r : Roadmap S D) (start : Nat) (rm : List Nat) (h : RInv cfg r) :
    RInv cfg (removeVertices r start rm) ∧ Ext r (removeVertices r start rm) ∧
      (∀ v, isAlive (removeVertices r start rm) v = (isAlive r v && !rm.contains v)) ∧
      (removeVertices r start rm).vflag = r.vflag := by
  unfold removeVertices
  generalize hr1 : killVertices r rm = r1
  have hc : r1.states = r.states ∧ r1.vflag = r.vflag ∧
      r1.alive = rm.foldl (fun a v => a.setIfInBounds v false) r.alive ∧
      r1.edges = r.edges.filter (fun e => !(rm.contains e.u || rm.contains e.v)) ∧
      r1.nn = r.nn.filter (fun n => !rm.contains n) := by subst hr1; exact ⟨rfl, rfl, rfl, rfl, rfl⟩
  have hal : ∀ v, isAlive r1 v = (isAlive r v && !rm.contains v) := by
    intro v; unfold isAlive; rw [hc.2.2.1]; exact foldl_kill rm r.alive v
  have h1 : RInv cfg r1 := by
    refine ⟨by rw [hc.2.2.1, foldl_kill_size, hc.1]; exact h.sizeA, by rw [hc.2.1, hc.1]; exact h.sizeF, ?_, ?_, ?_, ?_⟩
    · intro e he
      rw [hc.2.2.2.1, List.mem_filter] at he
      obtain ⟨he1, he2⟩ := he
      simp only [Bool.not_eq_true', Bool.or_eq_false_iff] at he2
      have := h.edgeAlive e he1
      exact ⟨by rw [hal, this.1, he2.1]; rfl, by rw [hal, this.2, he2.2]; rfl⟩
    · intro n hn
      rw [hc.2.2.2.2, List.mem_filter] at hn
      rw [hal, h.nnAlive n hn.1]
      simpa using hn.2
    · intro v s a b; rw [hc.2.1] at a; rw [hc.1] at b; exact h.vflagSound v s a b
    · intro e he hf a b ha hb
      rw [hc.2.2.2.1, List.mem_filter] at he
      rw [hc.1] at ha hb
      exact h.eflagSound e he.1 hf a b ha hb
  obtain ⟨k1, k2, k3, k4, k5⟩ := relabelNeighbours_core (compOf r start) (formerNeighbours r rm) r1
  refine ⟨rinv_of_core cfg r1 _ h1 k1 k2 k3 k4 k5, ?_, ?_, by show (relabelNeighbours _ _ r1).vflag = _; rw [k3, hc.2.1]⟩
  · refine ⟨fun v s hs => by show (relabelNeighbours _ _ r1).states[v]? = _; rw [k1, hc.1]; exact hs, fun v _ hd => ?_⟩
    show (relabelNeighbours _ _ r1).alive[v]?.getD false = false
    rw [k2]
    have := hal v
    unfold isAlive at this hd
    rw [this, hd]; rfl
  · intro v
    have := hal v
    unfold isAlive at this ⊢
    show (relabelNeighbours _ _ r1).alive[v]?.getD false = _
    rw [k2]; exact this

/-! ### constructSolution: the edge phase -/

theorem EitherWay.symm {cfg : Cfg S D} {a b : S} (h : EitherWay cfg a b) : EitherWay cfg b a := Or.symm h

theorem joins_cases (e : Edge D) (a b : Nat) (h : e.joins a b = true) : (e.u = a ∧ e.v = b) ∨ (e.u = b ∧ e.v = a) := by
  unfold Edge.joins at h
  simp only [Bool.or_eq_true, Bool.and_eq_true, beq_iff_eq] at h
  exact h

theorem checkEdges_spec (cfg : Cfg S D) (pairs : List (Nat × Nat)) :
    ∀ r : Roadmap S D, RInv cfg r →
      RInv cfg (checkEdges cfg pairs r).1 ∧ (checkEdges cfg pairs r).1.states = r.states ∧
        (checkEdges cfg pairs r).1.alive = r.alive ∧ (checkEdges cfg pairs r).1.vflag = r.vflag ∧
        ((checkEdges cfg pairs r).2 = true → ∀ pq ∈ pairs, ∀ (a b : S), r.states[pq.1]? = some a →
          r.states[pq.2]? = some b → EitherWay cfg a b) := by
  induction pairs with
  | nil => intro r h; exact ⟨h, rfl, rfl, rfl, fun _ _ hp => by simp at hp⟩
  | cons pq rest ih =>
    intro r h
    obtain ⟨pos, prevV⟩ := pq
    simp only [checkEdges]
    generalize hok : (edgeFlag r pos prevV || (match r.states[pos]?, r.states[prevV]? with
        | some a, some b => cfg.checkMotion a b
        | _, _ => false)) = ok
    cases ok with
    | true =>
      simp only [if_true]
      have hP : ∀ (a b : S), r.states[pos]? = some a → r.states[prevV]? = some b → EitherWay cfg a b := by
        intro a b ha hb
        simp only [Bool.or_eq_true] at hok
        rcases hok with hk | hk
        · unfold edgeFlag at hk
          split at hk
          · next e0 he0 =>
            have hmem := List.mem_of_find?_eq_some he0
            have hj := List.find?_some he0
            rcases joins_cases e0 pos prevV hj with ⟨h1, h2⟩ | ⟨h1, h2⟩
            · exact h.eflagSound e0 hmem hk a b (by rw [h1]; exact ha) (by rw [h2]; exact hb)
            · exact (h.eflagSound e0 hmem hk b a (by rw [h1]; exact hb) (by rw [h2]; exact ha)).symm
          · simp at hk
        · rw [ha, hb] at hk; exact Or.inl hk
      have h1 : RInv cfg (flagEdge r pos prevV) := by
        refine ⟨h.sizeA, h.sizeF, ?_, h.nnAlive, h.vflagSound, ?_⟩
        · intro e he
          simp only [flagEdge, setEdgeFlag, List.mem_map] at he
          obtain ⟨e1, he1, rfl⟩ := he
          have := h.edgeAlive e1 he1
          split <;> exact this
        · intro e he hf a b ha hb
          simp only [flagEdge, setEdgeFlag, List.mem_map] at he
          obtain ⟨e1, he1, rfl⟩ := he
          split at hf
          · next hj =>
            simp only [hj, if_true] at ha hb
            rcases joins_cases e1 pos prevV hj with ⟨q1, q2⟩ | ⟨q1, q2⟩
            · exact hP a b (by rw [← q1]; exact ha) (by rw [← q2]; exact hb)
            · exact (hP b a (by rw [← q2]; exact hb) (by rw [← q1]; exact ha)).symm
          · next hj =>
            simp only [hj] at ha hb hf
            exact h.eflagSound e1 he1 hf a b ha hb
      obtain ⟨i1, i2, i3, i4, i5⟩ := ih (flagEdge r pos prevV) h1
      refine ⟨i1, i2, i3, i4, ?_⟩
      intro ht q hq a b ha hb
      simp only [List.mem_cons] at hq
      rcases hq with rfl | hq
      · exact hP a b ha hb
      · exact i5 ht q hq a b ha hb
    | false =>
      simp only [Bool.false_eq_true, if_false]
      have hd : RInv cfg (dropEdge r pos prevV) := by
        refine ⟨h.sizeA, h.sizeF, ?_, h.nnAlive, h.vflagSound, ?_⟩
        · intro e he
          simp only [dropEdge, List.mem_filter] at he
          exact h.edgeAlive e he.1
        · intro e he hf a b ha hb
          simp only [dropEdge, List.mem_filter] at he
          exact h.eflagSound e he.1 hf a b ha hb
      refine ⟨rinv_of_core cfg (dropEdge r pos prevV) _ hd rfl rfl rfl rfl rfl, rfl, rfl, rfl, fun hf => by simp at hf⟩

theorem walkOk_alive (r : Roadmap S D) (p : List Nat) (h : walkOk r p = true) : ∀ v ∈ p, isAlive r v = true := by
  induction p with
  | nil => intro v hv; simp at hv
  | cons a rest ih =>
    cases rest with
    | nil => intro v hv; simp only [List.mem_singleton] at hv; subst hv; simpa [walkOk] using h
    | cons b rest' =>
      simp only [walkOk, Bool.and_eq_true] at h
      intro v hv
      simp only [List.mem_cons] at hv
      rcases hv with rfl | hv
      · exact h.1.1
      · exact ih h.2 v (by simpa using hv)

/-- what `constructSolution` guarantees, whatever vertex sequence the oracle hands it -/
theorem constructSolution_spec (cfg : Cfg S D) (r : Roadmap S D) (start : Nat) (p : List Nat) (h : RInv cfg r) :
    RInv cfg (constructSolution cfg r start p).1 ∧ Ext r (constructSolution cfg r start p).1 ∧
      (∀ v, isAlive r v = true → (∀ s, r.states[v]? = some s → cfg.valid s = true) →
        isAlive (constructSolution cfg r start p).1 v = true) ∧
      (∀ path, (constructSolution cfg r start p).2 = some path →
        path = p.filterMap (fun v => r.states[v]?) ∧
        (∀ v ∈ (p.drop 1).dropLast, ∀ s, r.states[v]? = some s → cfg.valid s = true) ∧
        (∀ pq ∈ pairsOf p, ∀ (a b : S), r.states[pq.1]? = some a → r.states[pq.2]? = some b → EitherWay cfg a b)) := by
  unfold constructSolution
  simp only
  obtain ⟨c1, c2, c3, c4⟩ := checkVertices_spec cfg r ((p.drop 1).dropLast.reverse) r.vflag [] h.vflagSound
  generalize checkVertices cfg r ((p.drop 1).dropLast.reverse) r.vflag [] = cv at c1 c2 c3 c4
  have h1 : RInv cfg (withFlags r cv.1) :=
    ⟨h.sizeA, by show cv.1.size = r.states.size; rw [c2]; exact h.sizeF, h.edgeAlive, h.nnAlive, c1, h.eflagSound⟩
  have he1 : Ext r (withFlags r cv.1) := ⟨fun _ _ hs => hs, fun _ _ hd => hd⟩
  split
  · obtain ⟨v1, v2, v3, _⟩ := removeVertices_spec cfg (withFlags r cv.1) start cv.2 h1
    refine ⟨v1, he1.trans v2, ?_, fun path hp => by simp at hp⟩
    intro v hv hval
    rw [v3]
    have hnot : cv.2.contains v = false := by
      cases hc : cv.2.contains v with
      | false => rfl
      | true =>
        have hmem : v ∈ cv.2 := by simpa using hc
        rcases c3 v hmem with hm | ⟨_, hm⟩
        · simp at hm
        · obtain ⟨s, hs⟩ := alive_state r h.sizeA v hv
          have a1 := hm s hs
          have a2 := hval s hs
          rw [a1] at a2; exact absurd a2 (by simp)
    have : isAlive (withFlags r cv.1) v = isAlive r v := rfl
    rw [this, hv, hnot]; rfl
  · next hne =>
    have hnil : cv.2 = [] := by
      cases hcv : cv.2 with
      | nil => rfl
      | cons a b => rw [hcv] at hne; simp at hne
    obtain ⟨_, hinter⟩ := c4 hnil
    obtain ⟨e1, e2, e3, e4, e5⟩ := checkEdges_spec cfg ((pairsOf p).reverse) (withFlags r cv.1) h1
    generalize checkEdges cfg ((pairsOf p).reverse) (withFlags r cv.1) = ce at e1 e2 e3 e4 e5
    have hext : Ext r ce.1 := ext_of_core r ce.1 e2 e3
    have halive : ∀ v, isAlive r v = true → isAlive ce.1 v = true := by
      intro v hv; unfold isAlive at *; rw [e3]; exact hv
    split
    · next hok =>
      refine ⟨e1, hext, fun v hv _ => halive v hv, ?_⟩
      intro path hp
      simp only [Option.some.injEq] at hp
      refine ⟨hp.symm, ?_, ?_⟩
      · intro v hv s hs
        exact hinter v (by simpa using hv) s hs
      · intro pq hpq a b ha hb
        exact e5 hok pq (by simpa using hpq) a b ha hb
    · exact ⟨e1, hext, fun v hv _ => halive v hv, fun path hp => by simp at hp⟩

/-! ### from vertex sequences to state paths -/

theorem path_facts (f : Nat → Option S) (R : S → S → Prop) (P : S → Prop) :
    ∀ p : List Nat, (∀ v ∈ p, ∃ s, f v = some s) →
      (p.filterMap f).head? = p.head?.bind f ∧ (p.filterMap f).getLast? = p.getLast?.bind f ∧
      ((∀ pq ∈ pairsOf p, ∀ (a b : S), f pq.1 = some a → f pq.2 = some b → R a b) → Chain R (p.filterMap f)) ∧
      ((∀ v ∈ p, ∀ s, f v = some s → P s) → ∀ s ∈ p.filterMap f, P s) := by
  intro p
  induction p with
  | nil => intro _; exact ⟨rfl, rfl, fun _ => trivial, fun _ s hs => by simp at hs⟩
  | cons a rest ih =>
    intro hall
    obtain ⟨sa, hsa⟩ := hall a (by simp)
    obtain ⟨i1, i2, i3, i4⟩ := ih (fun v hv => hall v (List.mem_cons_of_mem _ hv))
    have hfm : (a :: rest).filterMap f = sa :: rest.filterMap f := by simp [List.filterMap_cons, hsa]
    rw [hfm]
    refine ⟨by simp [hsa], ?_, ?_, ?_⟩
    · cases rest with
      | nil => simp [hsa]
      | cons b rest' =>
        obtain ⟨sb, hsb⟩ := hall b (by simp)
        have hfm2 : (b :: rest').filterMap f = sb :: rest'.filterMap f := by simp [List.filterMap_cons, hsb]
        rw [hfm2] at i2 ⊢
        rw [List.getLast?_cons_cons, i2]
        simp [List.getLast?_cons_cons]
    · intro hR
      cases rest with
      | nil => simp [Chain]
      | cons b rest' =>
        obtain ⟨sb, hsb⟩ := hall b (by simp)
        have hfm2 : (b :: rest').filterMap f = sb :: rest'.filterMap f := by simp [List.filterMap_cons, hsb]
        have ht := i3 (fun pq hpq => hR pq (by simp [pairsOf, hpq]))
        rw [hfm2] at ht ⊢
        exact ⟨hR (a, b) (by simp [pairsOf]) sa sb hsa hsb, ht⟩
    · intro hP s hs
      simp only [List.mem_cons] at hs
      rcases hs with rfl | hs
      · exact hP a (by simp) _ hsa
      · exact i4 (fun v hv => hP v (List.mem_cons_of_mem _ hv)) s hs

theorem mem_cases (p : List Nat) (a b v : Nat) (ha : p.head? = some a) (hb : p.getLast? = some b) (hv : v ∈ p) :
    v = a ∨ v = b ∨ v ∈ (p.drop 1).dropLast := by
  cases p with
  | nil => simp at hv
  | cons x q =>
    simp only [List.head?_cons, Option.some.injEq] at ha
    subst ha
    simp only [List.mem_cons] at hv
    rcases hv with rfl | hv
    · exact Or.inl rfl
    · have hq : q ≠ [] := by intro h; subst h; simp at hv
      have hlast : q.getLast hq = b := by
        cases q with
        | nil => exact absurd rfl hq
        | cons y q' =>
          rw [List.getLast?_cons_cons] at hb
          rw [List.getLast?_eq_some_getLast (by simp)] at hb
          simpa using hb
      have hsplit := List.dropLast_concat_getLast hq
      rw [← hsplit] at hv
      simp only [List.mem_append, List.mem_singleton] at hv
      rcases hv with hv | hv
      · exact Or.inr (Or.inr (by simpa using hv))
      · exact Or.inr (Or.inl (by rw [hv, hlast]))

/-! ### the planner state -/

def ValidStart (cfg : Cfg S D) (starts : Array S) (s : S) : Prop :=
  ∃ k, ∃ h : k < starts.size, starts[k] = s ∧ cfg.bounds s = true ∧ cfg.valid s = true

def ValidGoal (cfg : Cfg S D) (s : S) : Prop :=
  ∃ k, k < cfg.maxGoalSamples ∧ cfg.goalSample k = s ∧ cfg.bounds s = true ∧ cfg.valid s = true

theorem ValidStart.valid {cfg : Cfg S D} {starts : Array S} {s : S} (h : ValidStart cfg starts s) : cfg.valid s = true := by
  obtain ⟨_, _, _, _, hv⟩ := h; exact hv

theorem ValidGoal.valid {cfg : Cfg S D} {s : S} (h : ValidGoal cfg s) : cfg.valid s = true := by
  obtain ⟨_, _, _, _, hv⟩ := h; exact hv

/-- a truthful LazyPRM report -/
structure RealPath (cfg : Cfg S D) (starts : Array S) (path : List S) : Prop where
  start : ∃ s0, path.head? = some s0 ∧ ValidStart cfg starts s0
  goal : ∃ g, path.getLast? = some g ∧ ValidGoal cfg g
  /-- every state of the path was answered valid by `isValid` -/
  states : ∀ s ∈ path, cfg.valid s = true
  /-- every consecutive pair was answered valid by `checkMotion` (for one of the two orders: a roadmap edge marked VALID
  by an earlier `constructSolution` may be travelled the other way round) -/
  edges : Chain (EitherWay cfg) path

structure StInv (cfg : Cfg S D) (starts : Array S) (st : St S D) : Prop where
  rm : RInv cfg st.rm
  startsOK : ∀ v ∈ st.startM, isAlive st.rm v = true ∧ ∃ s, st.rm.states[v]? = some s ∧ ValidStart cfg starts s
  goalsOK : ∀ v ∈ st.goalM, isAlive st.rm v = true ∧ ∃ s, st.rm.states[v]? = some s ∧ ValidGoal cfg s
  best : ∀ path, st.best = some path → RealPath cfg starts path

/-- milestones with valid states survive an extension that only removes vertices answered invalid -/
theorem keep_ok (cfg : Cfg S D) (P : S → Prop) (hP : ∀ s, P s → cfg.valid s = true) (r r' : Roadmap S D) (l : List Nat)
    (hext : Ext r r')
    (hkeep : ∀ v, isAlive r v = true → (∀ s, r.states[v]? = some s → cfg.valid s = true) → isAlive r' v = true)
    (h : ∀ v ∈ l, isAlive r v = true ∧ ∃ s, r.states[v]? = some s ∧ P s) :
    ∀ v ∈ l, isAlive r' v = true ∧ ∃ s, r'.states[v]? = some s ∧ P s := by
  intro v hv
  obtain ⟨ha, s, hs, hp⟩ := h v hv
  refine ⟨hkeep v ha ?_, s, hext.states v s hs, hp⟩
  intro s' hs'
  rw [hs] at hs'
  simp only [Option.some.injEq] at hs'
  subst hs'
  exact hP s hp

theorem constructLoop_spec (cfg : Cfg S D) (starts : Array S) (startV goalV : Nat) (fuel : Nat) :
    ∀ (st : St S D) (evs : List (Event S)), StInv cfg starts st → startV ∈ st.startM → goalV ∈ st.goalM →
      StInv cfg starts (constructLoop cfg startV goalV fuel st evs).1 ∧
        Ext st.rm (constructLoop cfg startV goalV fuel st evs).1.rm ∧
        (constructLoop cfg startV goalV fuel st evs).1.startM = st.startM ∧
        (constructLoop cfg startV goalV fuel st evs).1.goalM = st.goalM ∧
        (∀ path, (constructLoop cfg startV goalV fuel st evs).2.2 = some path → RealPath cfg starts path) := by
  induction fuel with
  | zero =>
    intro st evs h _ _
    exact ⟨⟨h.rm, h.startsOK, h.goalsOK, h.best⟩, Ext.refl _, rfl, rfl, fun p hp => by simp [constructLoop] at hp⟩
  | succ f ih =>
    intro st evs h hs hg
    have hbad : StInv cfg starts { st with oracleBad := true } := ⟨h.rm, h.startsOK, h.goalsOK, h.best⟩
    simp only [constructLoop]
    split
    · next p rest =>
      split
      · next hpok =>
        obtain ⟨c1, c2, c3, c4⟩ := constructSolution_spec cfg st.rm startV p h.rm
        generalize hcs : constructSolution cfg st.rm startV p = cs at c1 c2 c3 c4
        have hst1 : StInv cfg starts { st with rm := cs.1 } :=
          ⟨c1, keep_ok cfg _ (fun s hp => hp.valid) st.rm cs.1 st.startM c2 c3 h.startsOK,
            keep_ok cfg _ (fun s hp => hp.valid) st.rm cs.1 st.goalM c2 c3 h.goalsOK, h.best⟩
        split
        · next path hpath =>
          refine ⟨hst1, c2, rfl, rfl, ?_⟩
          intro path' hp'
          simp only [Option.some.injEq] at hp'
          subst hp'
          obtain ⟨d1, d2, d3⟩ := c4 path hpath
          unfold pathOk at hpok
          simp only [Bool.and_eq_true, beq_iff_eq, decide_eq_true_eq] at hpok
          obtain ⟨⟨⟨hh, hl⟩, _⟩, hw⟩ := hpok
          have halive := walkOk_alive st.rm p hw
          have hstates : ∀ v ∈ p, ∃ s, st.rm.states[v]? = some s :=
            fun v hv => alive_state st.rm h.rm.sizeA v (halive v hv)
          obtain ⟨f1, f2, f3, f4⟩ := path_facts (fun v => st.rm.states[v]?) (EitherWay cfg) (fun s => cfg.valid s = true) p hstates
          obtain ⟨_, ss, hss, hvs⟩ := h.startsOK startV hs
          obtain ⟨_, sg, hsg, hvg⟩ := h.goalsOK goalV hg
          rw [d1]
          refine ⟨⟨ss, by rw [f1, hh]; exact hss, hvs⟩, ⟨sg, by rw [f2, hl]; exact hsg, hvg⟩, ?_, f3 d3⟩
          apply f4
          intro v hv s hsv
          rcases mem_cases p startV goalV v hh hl hv with rfl | rfl | hmid
          · rw [hss] at hsv; simp only [Option.some.injEq] at hsv; subst hsv; exact hvs.valid
          · rw [hsg] at hsv; simp only [Option.some.injEq] at hsv; subst hsv; exact hvg.valid
          · exact d2 v hmid s hsv
        · split
          · split
            · exact ⟨⟨hst1.rm, hst1.startsOK, hst1.goalsOK, hst1.best⟩, c2, rfl, rfl, fun p hp => by simp at hp⟩
            · obtain ⟨i1, i2, i3, i4, i5⟩ := ih { st with rm := cs.1, ptc := (ptcEvalN st.ptc).2 } rest
                ⟨hst1.rm, hst1.startsOK, hst1.goalsOK, hst1.best⟩ hs hg
              exact ⟨i1, c2.trans i2, i3, i4, i5⟩
          · exact ⟨hst1, c2, rfl, rfl, fun p hp => by simp at hp⟩
      · exact ⟨hbad, Ext.refl _, rfl, rfl, fun p hp => by simp at hp⟩
    · exact ⟨hbad, Ext.refl _, rfl, rfl, fun p hp => by simp at hp⟩

theorem solutionPair_mem (r : Roadmap S D) (sm gm : List Nat) (s g : Nat) (h : solutionPair r sm gm = some (s, g)) :
    s ∈ sm ∧ g ∈ gm := by
  unfold solutionPair at h
  obtain ⟨a, ha, hfa⟩ := List.exists_of_findSome?_eq_some h
  simp only [Option.map_eq_some_iff, Prod.mk.injEq] at hfa
  obtain ⟨b, hb, rfl, rfl⟩ := hfa
  exact ⟨ha, List.mem_of_find?_eq_some hb⟩

theorem addMilestone_keeps (cfg : Cfg S D) (P : S → Prop) (r : Roadmap S D) (s : S) (h : RInv cfg r) (l : List Nat)
    (hl : ∀ v ∈ l, isAlive r v = true ∧ ∃ x, r.states[v]? = some x ∧ P x) :
    ∀ v ∈ l, isAlive (addMilestone cfg r s).1 v = true ∧ ∃ x, (addMilestone cfg r s).1.states[v]? = some x ∧ P x := by
  obtain ⟨_, a2, _, _, _, a6⟩ := addMilestone_spec cfg r s h
  intro v hv
  obtain ⟨ha, x, hx, hp⟩ := hl v hv
  exact ⟨by rw [a6 v (alive_lt r h.sizeA v ha)]; exact ha, x, a2.states v x hx, hp⟩

theorem iterate_spec (cfg : Cfg S D) (starts : Array S) (st : St S D) (s : S) (evs : List (Event S))
    (h : StInv cfg starts st) :
    StInv cfg starts (iterate cfg st s evs).1 ∧ Ext st.rm (iterate cfg st s evs).1.rm ∧
      (iterate cfg st s evs).1.startM = st.startM ∧ (iterate cfg st s evs).1.goalM = st.goalM := by
  unfold iterate
  simp only
  obtain ⟨a1, a2, _, _, _, _⟩ := addMilestone_spec cfg st.rm s h.rm
  have hs1 := addMilestone_keeps cfg _ st.rm s h.rm st.startM h.startsOK
  have hg1 := addMilestone_keeps cfg _ st.rm s h.rm st.goalM h.goalsOK
  generalize addMilestone cfg st.rm s = am at a1 a2 hs1 hg1
  have hst1 : StInv cfg starts { st with rm := am.1, iterations := st.iterations + 1 } := ⟨a1, hs1, hg1, h.best⟩
  split
  · exact ⟨hst1, a2, rfl, rfl⟩
  · next startV goalV hsp =>
    obtain ⟨hsv, hgv⟩ := solutionPair_mem _ _ _ _ _ hsp
    split
    · split
      · exact ⟨⟨a1, hs1, hg1, h.best⟩, a2, rfl, rfl⟩
      · generalize hst2 : (if st.someSolutionFound = true then
            ({ st with rm := am.1, iterations := st.iterations + 1, optSegments := 0 } : St S D)
          else { st with rm := am.1, iterations := st.iterations + 1 }) = st2
        have h2 : StInv cfg starts st2 ∧ st2.rm = am.1 ∧ st2.startM = st.startM ∧ st2.goalM = st.goalM := by
          subst hst2
          split <;> exact ⟨⟨a1, hs1, hg1, h.best⟩, rfl, rfl, rfl⟩
        obtain ⟨c1, c2, c3, c4, c5⟩ := constructLoop_spec cfg starts startV goalV (evs.length + 1) st2 evs h2.1
          (by rw [h2.2.2.1]; exact hsv) (by rw [h2.2.2.2]; exact hgv)
        generalize constructLoop cfg startV goalV (evs.length + 1) st2 evs = cl at c1 c2 c3 c4 c5
        have hext : Ext st.rm cl.1.rm := a2.trans (by rw [← h2.2.1]; exact c2)
        split
        · exact ⟨c1, hext, by rw [c3, h2.2.2.1], by rw [c4, h2.2.2.2]⟩
        · next path hpath =>
          have hreal := c5 path hpath
          split
          · exact ⟨⟨c1.rm, c1.startsOK, c1.goalsOK, fun p hp => by
              simp only [Option.some.injEq] at hp; subst hp; exact hreal⟩, hext, by rw [c3, h2.2.2.1], by rw [c4, h2.2.2.2]⟩
          · split
            · exact ⟨⟨c1.rm, c1.startsOK, c1.goalsOK, fun p hp => by
                simp only [Option.some.injEq] at hp; subst hp; exact hreal⟩, hext, by rw [c3, h2.2.2.1], by rw [c4, h2.2.2.2]⟩
            · exact ⟨⟨c1.rm, c1.startsOK, c1.goalsOK, c1.best⟩, hext, by rw [c3, h2.2.2.1], by rw [c4, h2.2.2.2]⟩
    · exact ⟨hst1, a2, rfl, rfl⟩

theorem loop_spec (cfg : Cfg S D) (starts : Array S) (fuel : Nat) :
    ∀ (st : St S D) (evs : List (Event S)), StInv cfg starts st →
      StInv cfg starts (loop cfg fuel st evs).1 ∧ Ext st.rm (loop cfg fuel st evs).1.rm := by
  induction fuel with
  | zero => intro st evs h; exact ⟨⟨h.rm, h.startsOK, h.goalsOK, h.best⟩, Ext.refl _⟩
  | succ f ih =>
    intro st evs h
    simp only [loop]
    split
    · exact ⟨h, Ext.refl _⟩
    · split
      · exact ⟨⟨h.rm, h.startsOK, h.goalsOK, h.best⟩, Ext.refl _⟩
      · split
        · next s rest =>
          obtain ⟨i1, i2, _, _⟩ := iterate_spec cfg starts { st with ptc := (ptcEvalN st.ptc).2 } s rest
            ⟨h.rm, h.startsOK, h.goalsOK, h.best⟩
          obtain ⟨j1, j2⟩ := ih _ (iterate cfg { st with ptc := (ptcEvalN st.ptc).2 } s rest).2 i1
          exact ⟨j1, i2.trans j2⟩
        · exact ⟨⟨h.rm, h.startsOK, h.goalsOK, h.best⟩, Ext.refl _⟩
        · exact ⟨⟨h.rm, h.startsOK, h.goalsOK, h.best⟩, Ext.refl _⟩

theorem empty_rinv (cfg : Cfg S D) : RInv cfg ({} : Roadmap S D) :=
  ⟨rfl, rfl, fun e he => by simp at he, fun n hn => by simp at hn, fun v s h => by simp at h,
   fun e he => by simp at he⟩

theorem addStarts_spec (cfg : Cfg S D) (starts : Array S) (l : List (Nat × S)) :
    ∀ (r : Roadmap S D) (acc : List Nat), RInv cfg r → (∀ x ∈ l, ValidStart cfg starts x.2) →
      (∀ v ∈ acc, isAlive r v = true ∧ ∃ s, r.states[v]? = some s ∧ ValidStart cfg starts s) →
      RInv cfg (addStarts cfg l r acc).1 ∧
        ∀ v ∈ (addStarts cfg l r acc).2, isAlive (addStarts cfg l r acc).1 v = true ∧
          ∃ s, (addStarts cfg l r acc).1.states[v]? = some s ∧ ValidStart cfg starts s := by
  induction l with
  | nil => intro r acc h _ hacc; exact ⟨h, hacc⟩
  | cons x rest ih =>
    intro r acc h hl hacc
    simp only [addStarts]
    obtain ⟨a1, a2, a3, a4, a5, a6⟩ := addMilestone_spec cfg r x.2 h
    have hk := addMilestone_keeps cfg _ r x.2 h acc hacc
    apply ih _ _ a1 (fun y hy => hl y (List.mem_cons_of_mem _ hy))
    intro v hv
    simp only [List.mem_append, List.mem_singleton] at hv
    rcases hv with hv | rfl
    · exact hk v hv
    · refine ⟨a5, x.2, ?_, hl x (by simp)⟩
      rw [a4, a3, Array.getElem?_push]; simp

end OmplModel.LazyPRM
