import OmplModel.Model.RRTConnectHistory
import OmplModel.Proofs.RRTConnect
/-! Invariant proofs for histories of one RRTConnect object (round 11 of C01).  Arithmetic-free. -/
namespace OmplModel.RRTConnect
open OmplModel.PlannerReport
open OmplModel.RRT (Chain)

variable {S D : Type}

theorem treeInv_mono (Root Root' : S → Prop) (E : S → S → Prop) (hR : ∀ s, Root s → Root' s) (tree : Array (Node S))
    (h : TreeInv Root E tree) : TreeInv Root' E tree := by
  intro i nd hi
  have := h i nd hi
  split
  · next hp => simp only [hp] at this; exact ⟨hR _ this.1, this.2⟩
  · next q hp => simpa only [hp] using this

theorem append_roots_inv (Root : S → Prop) (E : S → S → Prop) (tree : Array (Node S)) (roots : List S)
    (h : TreeInv Root E tree) (hr : ∀ s ∈ roots, Root s) :
    TreeInv Root E (tree ++ (roots.map (fun s => (⟨s, none, s⟩ : Node S))).toArray) := by
  intro i nd hi
  rw [Array.getElem?_append] at hi
  split at hi
  · next hlt =>
    have := h i nd hi
    split
    · next hp => simpa [hp] using this
    · next q hp =>
      simp only [hp] at this
      obtain ⟨h1, np, h2, h3⟩ := this
      refine ⟨h1, np, ?_, h3⟩
      rw [Array.getElem?_append, if_pos (by omega)]
      exact h2
  · simp only [List.getElem?_toArray, List.getElem?_map, Option.map_eq_some_iff] at hi
    obtain ⟨s, hs, rfl⟩ := hi
    exact ⟨hr s (List.mem_of_getElem? hs), rfl⟩

/-- a truthful report of one call -/
def RepReal (cfg : Cfg S D) (starts : Array S) (r : Report S D) : Prop :=
  (r.status.toBool = true →
      (∃ path, r.added = some (path, false, cfg.zero) ∧ r.status = .exactSolution ∧ RealExact cfg starts path) ∨
      (∃ path dif, r.added = some (path, true, dif) ∧ r.status = .approximateSolution ∧
        (∃ s0, path.head? = some s0 ∧ ValidStart cfg starts s0) ∧ Chain (Edge cfg) path ∧
        ∃ last, path.getLast? = some last ∧ dif = cfg.goalDist last)) ∧
    (r.status.toBool = false → r.added = none)

/-- **one `solve()` on an object with a history** keeps both tree invariants and reports truthfully -/
theorem solveFrom_spec (cfg : Cfg S D) (starts : Array S) (pl : Planner S) (ptc : Nat) (script : List S)
    (hS : TreeInv (ValidStart cfg starts) (TreeEdge cfg true) pl.tStart)
    (hG : TreeInv (ValidGoal cfg) (TreeEdge cfg false) pl.tGoal) :
    TreeInv (ValidStart cfg starts) (TreeEdge cfg true) (solveFrom cfg starts pl ptc script).tStart ∧
      TreeInv (ValidGoal cfg) (TreeEdge cfg false) (solveFrom cfg starts pl ptc script).tGoal ∧
      RepReal cfg starts (solveFrom cfg starts pl ptc script) := by
  have hds := (drainStarts_spec cfg.bounds cfg.valid starts (starts.size + 1) pl.pis).1
  have hroots : ∀ s ∈ (drainStarts cfg.bounds cfg.valid starts (starts.size + 1) pl.pis).1.map (fun x => x.2),
      ValidStart cfg starts s := by
    intro s hs
    simp only [List.mem_map] at hs
    obtain ⟨x, hx, rfl⟩ := hs
    obtain ⟨hi, h1, h2, h3, _⟩ := hds x hx
    exact ⟨x.1, hi, h1, h2, h3⟩
  have h0 := append_roots_inv _ _ pl.tStart _ hS hroots
  simp only [List.map_map] at h0
  have hfun : ((fun s => (⟨s, none, s⟩ : Node S)) ∘ fun x : Nat × S => x.2) =
      fun x : Nat × S => (⟨x.2, none, x.2⟩ : Node S) := rfl
  rw [hfun] at h0
  unfold solveFrom RepReal
  simp only
  generalize pl.tStart ++ ((drainStarts cfg.bounds cfg.valid starts (starts.size + 1) pl.pis).1.map
    (fun x => (⟨x.2, none, x.2⟩ : Node S))).toArray = tS0 at h0
  split
  · exact ⟨h0, hG, fun h => by simp [Status.toBool] at h, fun _ => rfl⟩
  · split
    · exact ⟨h0, hG, fun h => by simp [Status.toBool] at h, fun _ => rfl⟩
    · have hinv := loop_inv cfg starts script
        ⟨tS0, pl.tGoal, pl.startTree, (drainStarts cfg.bounds cfg.valid starts (starts.size + 1) pl.pis).2, ptc, none,
          cfg.inf, none, .timeout, false, false⟩
        ⟨h0, hG, fun i h => by simp at h, fun p h => by simp at h, Or.inl rfl⟩
      generalize loop cfg ⟨tS0, pl.tGoal, pl.startTree,
        (drainStarts cfg.bounds cfg.valid starts (starts.size + 1) pl.pis).2, ptc, none, cfg.inf, none, .timeout,
        false, false⟩ script = r at hinv
      refine ⟨hinv.tS, hinv.tG, ?_⟩
      split
      · next path hex =>
        exact ⟨fun _ => Or.inl ⟨path, rfl, rfl, hinv.exact path hex⟩, fun h => by simp [Status.toBool] at h⟩
      · split
        · next i hap =>
          refine ⟨fun _ => Or.inr ⟨_, _, rfl, rfl, ?_⟩, fun h => by simp [Status.toBool] at h⟩
          obtain ⟨nd, h1, h2⟩ := hinv.approx i hap
          obtain ⟨d1, d2, d3, d4⟩ := pathDown_spec cfg starts r.1.tStart hinv.tS i nd h1
          exact ⟨⟨nd.root, d1, d3⟩, d4, ⟨nd.state, d2, h2⟩⟩
        · refine ⟨fun h => ?_, fun _ => rfl⟩
          rcases hinv.status with hs | hs <;> simp [hs, Status.toBool] at h

theorem validStart_push (cfg : Cfg S D) (starts : Array S) (x s : S) (h : ValidStart cfg starts s) :
    ValidStart cfg (starts.push x) s := by
  obtain ⟨k, hk, h1, h2, h3⟩ := h
  refine ⟨k, by simp; omega, ?_, h2, h3⟩
  rw [Array.getElem_push_lt hk]
  exact h1

theorem repReal_mono (cfg : Cfg S D) (a b : Array S) (hab : ∀ s, ValidStart cfg a s → ValidStart cfg b s)
    (r : Report S D) (h : RepReal cfg a r) : RepReal cfg b r := by
  refine ⟨fun hb => ?_, h.2⟩
  rcases h.1 hb with ⟨path, h1, h2, hr⟩ | ⟨path, dif, h1, h2, ⟨s0, h3, h4⟩, h5, h6⟩
  · obtain ⟨s0, g, e1, e2, e3, e4, e5⟩ := hr.ends
    exact Or.inl ⟨path, h1, h2, ⟨⟨s0, g, e1, e2, hab _ e3, e4, e5⟩, hr.edges⟩⟩
  · exact Or.inr ⟨path, dif, h1, h2, ⟨s0, h3, hab _ h4⟩, h5, h6⟩

structure WInv (cfg : Cfg S D) (w : World S D) : Prop where
  tS : TreeInv (ValidStart cfg w.pd.starts) (TreeEdge cfg true) w.planner.tStart
  /-- goal-tree roots are filtered samples of the goal as seen in the current epoch (`shiftGoal`) -/
  tG : TreeInv (ValidGoal (cfg.shiftGoal w.goalBase)) (TreeEdge cfg false) w.planner.tGoal

def FromReport (zero : D) (r : Report S D) (sol : Solution (List S) D) : Prop :=
  ∃ dif, r.added = some (sol.path, sol.approximate, dif) ∧ sol.difference = if sol.approximate then dif else zero

theorem applyOp_spec (cfg : Cfg S D) (w : World S D) (op : Op S D) (h : WInv cfg w) :
    WInv cfg (applyOp cfg w op).1 ∧
      (∀ s, ValidStart cfg w.pd.starts s → ValidStart cfg (applyOp cfg w op).1.pd.starts s) ∧
      (∀ r, (applyOp cfg w op).2 = some r → RepReal (cfg.shiftGoal w.goalBase) (applyOp cfg w op).1.pd.starts r) ∧
      (∀ sol ∈ (applyOp cfg w op).1.pd.solutions,
        sol ∈ w.pd.solutions ∨ ∃ r, (applyOp cfg w op).2 = some r ∧ FromReport cfg.zero r sol) := by
  cases op with
  | solve ptc script =>
    obtain ⟨a, b, c⟩ := solveFrom_spec ((cfg.shiftGoal w.goalBase).withRange w.range) w.pd.starts w.planner ptc script
      h.tS h.tG
    have c' : RepReal (cfg.shiftGoal w.goalBase) w.pd.starts
        (solveFrom ((cfg.shiftGoal w.goalBase).withRange w.range) w.pd.starts w.planner ptc script) := by
      refine ⟨fun hb => ?_, c.2⟩
      rcases c.1 hb with ⟨path, h1, h2, hr⟩ | h3
      · exact Or.inl ⟨path, h1, h2, ⟨hr.ends, hr.edges⟩⟩
      · exact Or.inr h3
    simp only [applyOp]
    refine ⟨⟨?_, ?_⟩, ?_, ?_, ?_⟩
    · split <;> exact a
    · split <;> exact b
    · split <;> exact fun _ hs => hs
    · intro r hr
      simp only [Option.some.injEq] at hr
      subst hr
      split <;> exact c'
    · intro sol hsol
      split at hsol
      · next path approx dif hadd =>
        simp only [addSolutionPath, List.mem_append, List.mem_singleton] at hsol
        rcases hsol with hsol | rfl
        · exact Or.inl hsol
        · exact Or.inr ⟨_, rfl, dif, hadd, rfl⟩
      · exact Or.inl hsol
  | clear =>
    exact ⟨⟨fun i nd hi => by simp [applyOp] at hi, fun i nd hi => by simp [applyOp] at hi⟩, fun _ hs => hs,
      fun r hr => by simp [applyOp] at hr, fun sol hs => Or.inl hs⟩
  | addStart s =>
    exact ⟨⟨treeInv_mono _ _ _ (fun x hx => validStart_push cfg _ s x hx) _ h.tS, h.tG⟩,
      fun x hx => validStart_push cfg _ s x hx, fun r hr => by simp [applyOp] at hr, fun sol hs => Or.inl hs⟩
  | setRange r =>
    exact ⟨⟨h.tS, h.tG⟩, fun _ hs => hs, fun r hr => by simp [applyOp] at hr, fun sol hs => Or.inl hs⟩
  | clearSolutions =>
    exact ⟨⟨h.tS, h.tG⟩, fun _ hs => hs, fun r hr => by simp [applyOp] at hr, fun sol hs => by simp [applyOp] at hs⟩

theorem runOps_spec (cfg : Cfg S D) (ops : List (Op S D)) :
    ∀ w : World S D, WInv cfg w →
      WInv cfg (runOps cfg w ops).1 ∧
        (∀ s, ValidStart cfg w.pd.starts s → ValidStart cfg (runOps cfg w ops).1.pd.starts s) ∧
        (∀ r ∈ (runOps cfg w ops).2, ∃ b, RepReal (cfg.shiftGoal b) (runOps cfg w ops).1.pd.starts r) ∧
        (∀ sol ∈ (runOps cfg w ops).1.pd.solutions,
          sol ∈ w.pd.solutions ∨ ∃ r ∈ (runOps cfg w ops).2, FromReport cfg.zero r sol) := by
  induction ops with
  | nil => intro w h; exact ⟨h, fun _ hs => hs, fun r hr => by simp [runOps] at hr, fun sol hs => Or.inl hs⟩
  | cons op rest ih =>
    intro w h
    obtain ⟨a1, a2, a3, a4⟩ := applyOp_spec cfg w op h
    obtain ⟨b1, b2, b3, b4⟩ := ih _ a1
    simp only [runOps]
    refine ⟨b1, fun s hs => b2 s (a2 s hs), ?_, ?_⟩
    · intro r hr
      rw [List.mem_append] at hr
      rcases hr with hr | hr
      · cases hq : (applyOp cfg w op).2 with
        | none => rw [hq] at hr; simp at hr
        | some q =>
          rw [hq] at hr
          simp only [List.mem_singleton] at hr
          subst hr
          exact ⟨w.goalBase, repReal_mono (cfg.shiftGoal w.goalBase) _ _ (fun s hs => b2 s hs) _ (a3 r hq)⟩
      · exact b3 r hr
    · intro sol hsol
      rcases b4 sol hsol with hs | ⟨r, hr, hf⟩
      · rcases a4 sol hs with hs' | ⟨r, hr, hf⟩
        · exact Or.inl hs'
        · refine Or.inr ⟨r, ?_, hf⟩
          rw [hr]
          simp
      · exact Or.inr ⟨r, List.mem_append_right _ hr, hf⟩

theorem fresh_inv (cfg : Cfg S D) (starts : Array S) (range : D) : WInv cfg (World.fresh starts range) :=
  ⟨fun i nd hi => by simp [World.fresh] at hi, fun i nd hi => by simp [World.fresh] at hi⟩

theorem solve_eq_solveFrom (cfg : Cfg S D) (starts : Array S) (ptc : Nat) (startTree : Bool) (script : List S) :
    solve cfg starts ptc startTree script = solveFrom cfg starts { startTree := startTree } ptc script := by
  unfold solve solveFrom initTree
  simp only [Array.empty_append]
  rfl

end OmplModel.RRTConnect
