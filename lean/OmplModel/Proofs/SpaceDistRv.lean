import OmplModel.Proofs.SpaceDistReal
import Mathlib.Tactic.Linarith
import Mathlib.Tactic.Positivity
import Mathlib.Analysis.SpecialFunctions.Sqrt
/-!
Metric laws of the leaf spaces of the C06 model at `ℝ`: SO(2), time, discrete, R^n, torus.
-/
namespace OmplModel.SpaceDist
open OmplModel
attribute [-instance] OmplModel.Num.instOfNat

/-! ### constants -/
theorem eps_real : (eps : ℝ) = 1 / 4503599627370496 := by
  show ((1 : ℕ) : ℝ) / ((4503599627370496 : ℕ) : ℝ) = 1 / 4503599627370496
  norm_num
theorem eps_pos : (0 : ℝ) < eps := by rw [eps_real]; norm_num
theorem two_real : (two : ℝ) = 2 := by
  show ((2 : ℕ) : ℝ) = 2
  norm_num
theorem eps_two_pos : (0 : ℝ) < eps * two := by rw [two_real]; linarith [eps_pos]

/-! ### SO(2) -/
theorem so2Dist_real (a b : ℝ) :
    so2Dist a b = if Real.pi < |a - b| then 2 * Real.pi - |a - b| else |a - b| := by rfl
theorem so2InBounds_real (a : ℝ) : so2InBounds a = true ↔ (a < Real.pi ∧ -Real.pi ≤ a) := by
  simp only [so2InBounds, Bool.and_eq_true, decide_eq_true_eq]; rfl
theorem so2Equal_real (a b : ℝ) : so2Equal a b = true ↔ |a - b| < eps * 2 := by
  simp only [so2Equal, decide_eq_true_eq]; rfl
theorem so2Equal_false_real (a b : ℝ) : so2Equal a b = false ↔ eps * 2 ≤ |a - b| := by
  rw [← not_lt, ← so2Equal_real]; simp

theorem so2Dist_nonneg (a b : ℝ) (ha : so2InBounds a = true) (hb : so2InBounds b = true) :
    0 ≤ so2Dist a b := by
  rw [so2InBounds_real] at ha hb; rw [so2Dist_real]
  split_ifs with h
  · rcases abs_cases (a - b) with ⟨h1, _⟩ | ⟨h1, _⟩ <;> linarith [ha.1, ha.2, hb.1, hb.2]
  · exact abs_nonneg _

theorem so2Dist_self (a : ℝ) : so2Dist a a = 0 := by
  rw [so2Dist_real, sub_self, abs_zero, if_neg (not_lt.mpr Real.pi_pos.le)]

theorem so2Dist_symm (a b : ℝ) : so2Dist a b = so2Dist b a := by
  rw [so2Dist_real, so2Dist_real, abs_sub_comm]

theorem so2Dist_pos (a b : ℝ) (ha : so2InBounds a = true) (hb : so2InBounds b = true)
    (hne : so2Equal a b = false) : 0 < so2Dist a b := by
  rw [so2InBounds_real] at ha hb; rw [so2Equal_false_real] at hne; rw [so2Dist_real]
  have := eps_pos
  split_ifs with h
  · rcases abs_cases (a - b) with ⟨h1, _⟩ | ⟨h1, _⟩ <;> linarith [ha.1, ha.2, hb.1, hb.2]
  · linarith

theorem so2Dist_le_pi (a b : ℝ) (ha : so2InBounds a = true) (hb : so2InBounds b = true) :
    so2Dist a b ≤ Real.pi := by
  have _ := ha; have _ := hb
  rw [so2Dist_real]
  split_ifs with h
  · linarith
  · linarith

theorem so2Dist_triangle (a b c : ℝ) (ha : so2InBounds a = true) (hb : so2InBounds b = true)
    (hc : so2InBounds c = true) : so2Dist a c ≤ so2Dist a b + so2Dist b c := by
  rw [so2InBounds_real] at ha hb hc
  obtain ⟨ha1, ha2⟩ := ha
  obtain ⟨hb1, hb2⟩ := hb
  obtain ⟨hc1, hc2⟩ := hc
  simp only [so2Dist_real]
  rcases abs_cases (a - b) with ⟨h1, _⟩ | ⟨h1, _⟩ <;>
  rcases abs_cases (b - c) with ⟨h2, _⟩ | ⟨h2, _⟩ <;>
  rcases abs_cases (a - c) with ⟨h3, _⟩ | ⟨h3, _⟩ <;>
  rw [h1, h2, h3] <;> split_ifs <;> linarith

/-! ### time -/
theorem timeDist_real (a b : ℝ) : timeDist a b = |a - b| := rfl
theorem timeEqual_real (a b : ℝ) : timeEqual a b = true ↔ |a - b| < eps * 2 := by
  simp only [timeEqual, decide_eq_true_eq]; rfl
theorem timeEqual_false_real (a b : ℝ) : timeEqual a b = false ↔ eps * 2 ≤ |a - b| := by
  rw [← not_lt, ← timeEqual_real]; simp
theorem timeDist_nonneg (a b : ℝ) : 0 ≤ timeDist a b := by rw [timeDist_real]; exact abs_nonneg _
theorem timeDist_self (a : ℝ) : timeDist a a = 0 := by rw [timeDist_real]; simp
theorem timeDist_symm (a b : ℝ) : timeDist a b = timeDist b a := by
  rw [timeDist_real, timeDist_real, abs_sub_comm]
theorem timeDist_triangle (a b c : ℝ) : timeDist a c ≤ timeDist a b + timeDist b c := by
  simp only [timeDist_real]; exact abs_sub_le a b c
theorem timeDist_pos (a b : ℝ) (hne : timeEqual a b = false) : 0 < timeDist a b := by
  rw [timeEqual_false_real] at hne; rw [timeDist_real]; linarith [eps_pos]
theorem timeExtent_true_real (lo hi : ℝ) : timeExtent true lo hi = hi - lo := rfl
theorem timeExtent_false_real (lo hi : ℝ) : timeExtent false lo hi = 1 := by
  show ((1 : ℕ) : ℝ) = 1
  norm_num
theorem timeDist_le_extent (lo hi a b : ℝ) (ha : lo ≤ a ∧ a ≤ hi) (hb : lo ≤ b ∧ b ≤ hi) :
    timeDist a b ≤ timeExtent true lo hi := by
  rw [timeDist_real, timeExtent_true_real, abs_le]; constructor <;> linarith [ha.1, ha.2, hb.1, hb.2]
theorem time_unbounded_extent_fails : ¬ (∀ a b : ℝ, timeDist a b ≤ timeExtent false 0 0) := by
  intro h
  have := h 0 5
  rw [timeDist_real, timeExtent_false_real] at this
  norm_num at this

/-! ### discrete -/
theorem discDist_real (a b : Int) : (discDist a b : ℝ) = |((a - b : Int) : ℝ)| := by
  show (((a - b).natAbs : Int) : ℝ) = |((a - b : Int) : ℝ)|
  rw [Int.natCast_natAbs, Int.cast_abs]
theorem discExtent_real (lo hi : Int) : (discExtent lo hi : ℝ) = ((hi - lo : Int) : ℝ) := rfl
theorem discDist_nonneg (a b : Int) : 0 ≤ (discDist a b : ℝ) := by
  rw [discDist_real]; exact abs_nonneg _
theorem discDist_self (a : Int) : (discDist a a : ℝ) = 0 := by rw [discDist_real]; simp
theorem discDist_symm (a b : Int) : (discDist a b : ℝ) = discDist b a := by
  rw [discDist_real, discDist_real]; push_cast; exact abs_sub_comm _ _
theorem discDist_triangle (a b c : Int) :
    (discDist a c : ℝ) ≤ discDist a b + discDist b c := by
  simp only [discDist_real]; push_cast; exact abs_sub_le _ _ _
theorem discDist_pos (a b : Int) (h : a ≠ b) : 0 < (discDist a b : ℝ) := by
  rw [discDist_real, abs_pos]
  exact_mod_cast sub_ne_zero.mpr h
theorem discDist_le_extent (lo hi a b : Int) (ha : lo ≤ a ∧ a ≤ hi) (hb : lo ≤ b ∧ b ≤ hi) :
    (discDist a b : ℝ) ≤ discExtent lo hi := by
  rw [discDist_real, discExtent_real, ← Int.cast_abs, Int.cast_le, abs_le]
  constructor <;> linarith [ha.1, ha.2, hb.1, hb.2]

/-! ### R^n -/
/-- the sum of squared differences over the common prefix -/
def sumSq : List ℝ → List ℝ → ℝ
  | x :: xs, y :: ys => (x - y) ^ 2 + sumSq xs ys
  | _, _ => 0

theorem sumSq_cons (x y : ℝ) (xs ys : List ℝ) :
    sumSq (x :: xs) (y :: ys) = (x - y) ^ 2 + sumSq xs ys := rfl
theorem sumSq_nil_left (ys : List ℝ) : sumSq [] ys = 0 := rfl
theorem sumSq_nil_right (xs : List ℝ) : sumSq xs [] = 0 := by cases xs <;> rfl

theorem sumSq_nonneg (xs ys : List ℝ) : 0 ≤ sumSq xs ys := by
  induction xs generalizing ys with
  | nil => simp [sumSq_nil_left]
  | cons x xs ih =>
    cases ys with
    | nil => simp [sumSq_nil_right]
    | cons y ys => rw [sumSq_cons]; have := ih ys; positivity

theorem rvSumSq_cons (x y acc : ℝ) (xs ys : List ℝ) :
    rvSumSq (x :: xs) (y :: ys) acc = rvSumSq xs ys (acc + (x - y) * (x - y)) := rfl

theorem rvSumSq_eq (xs ys : List ℝ) (acc : ℝ) : rvSumSq xs ys acc = acc + sumSq xs ys := by
  induction xs generalizing ys acc with
  | nil => simp [rvSumSq, sumSq_nil_left]
  | cons x xs ih =>
    cases ys with
    | nil => simp [rvSumSq, sumSq_nil_right]
    | cons y ys => rw [rvSumSq_cons, ih, sumSq_cons]; ring

theorem rvDist_real (xs ys : List ℝ) : rvDist xs ys = Real.sqrt (sumSq xs ys) := by
  show Real.sqrt (rvSumSq xs ys ((0 : ℕ) : ℝ)) = _
  rw [rvSumSq_eq]; simp

theorem rvExtent_real (lo hi : List ℝ) : rvExtent lo hi = Real.sqrt (sumSq hi lo) := by
  show Real.sqrt (rvSumSq hi lo ((0 : ℕ) : ℝ)) = _
  rw [rvSumSq_eq]; simp

theorem rvDist_nonneg (xs ys : List ℝ) : 0 ≤ rvDist xs ys := by
  rw [rvDist_real]; exact Real.sqrt_nonneg _

theorem sumSq_self (xs : List ℝ) : sumSq xs xs = 0 := by
  induction xs with
  | nil => rfl
  | cons x xs ih => rw [sumSq_cons, ih]; simp

theorem rvDist_self (xs : List ℝ) : rvDist xs xs = 0 := by
  rw [rvDist_real, sumSq_self, Real.sqrt_zero]

theorem sumSq_symm (xs ys : List ℝ) : sumSq xs ys = sumSq ys xs := by
  induction xs generalizing ys with
  | nil => rw [sumSq_nil_left, sumSq_nil_right]
  | cons x xs ih =>
    cases ys with
    | nil => rw [sumSq_nil_left, sumSq_nil_right]
    | cons y ys => rw [sumSq_cons, sumSq_cons, ih]; ring

theorem rvDist_symm (xs ys : List ℝ) : rvDist xs ys = rvDist ys xs := by
  rw [rvDist_real, rvDist_real, sumSq_symm]

theorem rvEqual_cons (x y : ℝ) (xs ys : List ℝ) :
    rvEqual (x :: xs) (y :: ys) = if eps * 2 < |x - y| then false else rvEqual xs ys := by
  rfl

theorem sumSq_pos_of_rvEqual_false (xs ys : List ℝ) (hne : rvEqual xs ys = false) :
    0 < sumSq xs ys := by
  induction xs generalizing ys with
  | nil => simp [rvEqual] at hne
  | cons x xs ih =>
    cases ys with
    | nil => simp [rvEqual] at hne
    | cons y ys =>
      rw [rvEqual_cons] at hne
      rw [sumSq_cons]
      have h0 := sumSq_nonneg xs ys
      split_ifs at hne with h
      · have : 0 < |x - y| := by linarith [eps_pos]
        have : x - y ≠ 0 := abs_pos.mp this
        have : 0 < (x - y) ^ 2 := by positivity
        linarith
      · have := ih ys hne
        have : 0 ≤ (x - y) ^ 2 := sq_nonneg _
        linarith

theorem rvDist_pos (xs ys : List ℝ) (hl : xs.length = ys.length) (hne : rvEqual xs ys = false) :
    0 < rvDist xs ys := by
  have _ := hl
  rw [rvDist_real, Real.sqrt_pos]; exact sumSq_pos_of_rvEqual_false xs ys hne

theorem rvEqual_self (xs : List ℝ) : rvEqual xs xs = true := by
  induction xs with
  | nil => rfl
  | cons x xs ih =>
    rw [rvEqual_cons, sub_self, abs_zero, if_neg (not_lt.mpr (by linarith [eps_pos])), ih]

/-- 2-D Minkowski -/
theorem mink2 (p a q b : ℝ) :
    Real.sqrt ((p + q) ^ 2 + (a + b) ^ 2) ≤ Real.sqrt (p ^ 2 + a ^ 2) + Real.sqrt (q ^ 2 + b ^ 2) := by
  apply Real.sqrt_le_iff.mpr
  constructor
  · positivity
  · have h1 := Real.sq_sqrt (show 0 ≤ p ^ 2 + a ^ 2 by positivity)
    have h2 := Real.sq_sqrt (show 0 ≤ q ^ 2 + b ^ 2 by positivity)
    have h3 : p * q + a * b ≤ Real.sqrt (p ^ 2 + a ^ 2) * Real.sqrt (q ^ 2 + b ^ 2) := by
      rw [← Real.sqrt_mul (by positivity)]
      apply Real.le_sqrt_of_sq_le
      nlinarith [sq_nonneg (p * b - a * q)]
    nlinarith

/-- Minkowski with an accumulated head: the induction invariant -/
theorem sumSq_triangle_aux (xs ys zs : List ℝ) (h1 : xs.length = ys.length)
    (h2 : ys.length = zs.length) (p q : ℝ) (hp : 0 ≤ p) (hq : 0 ≤ q) :
    Real.sqrt ((p + q) ^ 2 + sumSq xs zs)
      ≤ Real.sqrt (p ^ 2 + sumSq xs ys) + Real.sqrt (q ^ 2 + sumSq ys zs) := by
  induction xs generalizing ys zs p q with
  | nil =>
    cases ys with
    | nil =>
      simp only [sumSq_nil_left, add_zero]
      rw [Real.sqrt_sq hp, Real.sqrt_sq hq, Real.sqrt_sq (by linarith)]
    | cons y ys => simp at h1
  | cons x xs ih =>
    cases ys with
    | nil => simp at h1
    | cons y ys =>
      cases zs with
      | nil => simp at h2
      | cons z zs =>
        simp only [List.length_cons, Nat.add_right_cancel_iff] at h1 h2
        simp only [sumSq_cons]
        have hp' : 0 ≤ Real.sqrt (p ^ 2 + (x - y) ^ 2) := Real.sqrt_nonneg _
        have hq' : 0 ≤ Real.sqrt (q ^ 2 + (y - z) ^ 2) := Real.sqrt_nonneg _
        have key := ih ys zs h1 h2 _ _ hp' hq'
        rw [Real.sq_sqrt (by positivity), Real.sq_sqrt (by positivity)] at key
        have hm := mink2 p (x - y) q (y - z)
        have hxz : (x - y) + (y - z) = x - z := by ring
        rw [hxz] at hm
        have hS := sumSq_nonneg xs zs
        have hm2 : (p + q) ^ 2 + (x - z) ^ 2
            ≤ (Real.sqrt (p ^ 2 + (x - y) ^ 2) + Real.sqrt (q ^ 2 + (y - z) ^ 2)) ^ 2 :=
          (Real.sqrt_le_iff.mp hm).2
        calc Real.sqrt ((p + q) ^ 2 + ((x - z) ^ 2 + sumSq xs zs))
            ≤ Real.sqrt ((Real.sqrt (p ^ 2 + (x - y) ^ 2) + Real.sqrt (q ^ 2 + (y - z) ^ 2)) ^ 2
                + sumSq xs zs) := Real.sqrt_le_sqrt (by linarith)
          _ ≤ _ := key
          _ = _ := by rw [add_assoc, add_assoc]

theorem rvDist_triangle (xs ys zs : List ℝ) (h1 : xs.length = ys.length)
    (h2 : ys.length = zs.length) : rvDist xs zs ≤ rvDist xs ys + rvDist ys zs := by
  simp only [rvDist_real]
  have := sumSq_triangle_aux xs ys zs h1 h2 0 0 le_rfl le_rfl
  simpa using this

/-- exact box membership (with matching dimensions) -/
def rvIn : List ℝ → List ℝ → List ℝ → Prop
  | x :: xs, l :: ls, h :: hs => l ≤ x ∧ x ≤ h ∧ rvIn xs ls hs
  | [], [], [] => True
  | _, _, _ => False

theorem sumSq_le_of_rvIn (xs ys lo hi : List ℝ) (hx : rvIn xs lo hi) (hy : rvIn ys lo hi) :
    sumSq xs ys ≤ sumSq hi lo := by
  induction xs generalizing ys lo hi with
  | nil =>
    rw [sumSq_nil_left]; exact sumSq_nonneg _ _
  | cons x xs ih =>
    cases ys with
    | nil => rw [sumSq_nil_right]; exact sumSq_nonneg _ _
    | cons y ys =>
      cases lo with
      | nil => simp [rvIn] at hx
      | cons l ls =>
        cases hi with
        | nil => simp [rvIn] at hx
        | cons h hs =>
          obtain ⟨hx1, hx2, hx3⟩ := hx
          obtain ⟨hy1, hy2, hy3⟩ := hy
          rw [sumSq_cons, sumSq_cons]
          have := ih ys ls hs hx3 hy3
          have : (x - y) ^ 2 ≤ (h - l) ^ 2 := by
            apply sq_le_sq'  <;> linarith
          linarith

theorem rvDist_le_extent (xs ys lo hi : List ℝ) (hx : rvIn xs lo hi) (hy : rvIn ys lo hi) :
    rvDist xs ys ≤ rvExtent lo hi := by
  rw [rvDist_real, rvExtent_real]
  exact Real.sqrt_le_sqrt (sumSq_le_of_rvIn xs ys lo hi hx hy)

theorem rvInBounds_cons (x l h : ℝ) (xs ls hs : List ℝ) :
    rvInBounds (x :: xs) (l :: ls) (h :: hs)
      = if (decide (h < x - eps) || decide (x + eps < l)) = true then false
        else rvInBounds xs ls hs := by
  rfl

theorem rvIn_inBounds (xs lo hi : List ℝ) (h : rvIn xs lo hi) : rvInBounds xs lo hi = true := by
  induction xs generalizing lo hi with
  | nil => simp [rvInBounds]
  | cons x xs ih =>
    cases lo with
    | nil => simp [rvIn] at h
    | cons l ls =>
      cases hi with
      | nil => simp [rvIn] at h
      | cons hh hs =>
        obtain ⟨h1, h2, h3⟩ := h
        rw [rvInBounds_cons, if_neg, ih ls hs h3]
        have := eps_pos
        simp only [Bool.or_eq_true, decide_eq_true_eq, not_or, not_lt]
        constructor <;> linarith

/-! ### torus -/
theorem torusDist_real (u1 v1 u2 v2 : ℝ) :
    torusDist u1 v1 u2 v2 = Real.sqrt (so2Dist u1 u2 ^ 2 + so2Dist v1 v2 ^ 2) := by
  show Real.sqrt (so2Dist u1 u2 * so2Dist u1 u2 + so2Dist v1 v2 * so2Dist v1 v2) = _
  rw [sq, sq]

theorem cmp2_real (x y : ℝ) : cmp2 x y = x + y := by
  show ((0 : ℕ) : ℝ) + ((1 : ℕ) : ℝ) * x + ((1 : ℕ) : ℝ) * y = x + y
  simp

theorem torusDist_nonneg (u1 v1 u2 v2 : ℝ) : 0 ≤ torusDist u1 v1 u2 v2 := by
  rw [torusDist_real]; exact Real.sqrt_nonneg _

theorem torusDist_self (u v : ℝ) : torusDist u v u v = 0 := by
  rw [torusDist_real, so2Dist_self, so2Dist_self]; simp

theorem torusDist_symm (u1 v1 u2 v2 : ℝ) : torusDist u1 v1 u2 v2 = torusDist u2 v2 u1 v1 := by
  rw [torusDist_real, torusDist_real, so2Dist_symm u1 u2, so2Dist_symm v1 v2]

theorem torusDist_pos (u1 v1 u2 v2 : ℝ) (hu1 : so2InBounds u1 = true) (hv1 : so2InBounds v1 = true)
    (hu2 : so2InBounds u2 = true) (hv2 : so2InBounds v2 = true)
    (hne : (so2Equal u1 u2 && so2Equal v1 v2) = false) : 0 < torusDist u1 v1 u2 v2 := by
  rw [torusDist_real, Real.sqrt_pos]
  have hx := so2Dist_nonneg u1 u2 hu1 hu2
  have hy := so2Dist_nonneg v1 v2 hv1 hv2
  rw [Bool.and_eq_false_iff] at hne
  rcases hne with h | h
  · have := so2Dist_pos u1 u2 hu1 hu2 h
    positivity
  · have := so2Dist_pos v1 v2 hv1 hv2 h
    positivity

theorem torusDist_triangle (u1 v1 u2 v2 u3 v3 : ℝ)
    (hu1 : so2InBounds u1 = true) (hv1 : so2InBounds v1 = true)
    (hu2 : so2InBounds u2 = true) (hv2 : so2InBounds v2 = true)
    (hu3 : so2InBounds u3 = true) (hv3 : so2InBounds v3 = true) :
    torusDist u1 v1 u3 v3 ≤ torusDist u1 v1 u2 v2 + torusDist u2 v2 u3 v3 := by
  simp only [torusDist_real]
  have hx := so2Dist_triangle u1 u2 u3 hu1 hu2 hu3
  have hy := so2Dist_triangle v1 v2 v3 hv1 hv2 hv3
  have hx0 := so2Dist_nonneg u1 u3 hu1 hu3
  have hy0 := so2Dist_nonneg v1 v3 hv1 hv3
  refine le_trans (Real.sqrt_le_sqrt ?_) (mink2 _ _ _ _)
  have := pow_le_pow_left₀ hx0 hx 2
  have := pow_le_pow_left₀ hy0 hy 2
  linarith

theorem torusDist_le_extent (u1 v1 u2 v2 : ℝ)
    (hu1 : so2InBounds u1 = true) (hv1 : so2InBounds v1 = true)
    (hu2 : so2InBounds u2 = true) (hv2 : so2InBounds v2 = true) :
    torusDist u1 v1 u2 v2 ≤ cmp2 Real.pi Real.pi := by
  rw [torusDist_real, cmp2_real]
  have hx0 := so2Dist_nonneg u1 u2 hu1 hu2
  have hy0 := so2Dist_nonneg v1 v2 hv1 hv2
  have hx := so2Dist_le_pi u1 u2 hu1 hu2
  have hy := so2Dist_le_pi v1 v2 hv1 hv2
  rw [Real.sqrt_le_iff]
  constructor
  · linarith [Real.pi_pos]
  · nlinarith [Real.pi_pos]

end OmplModel.SpaceDist
