import OmplModel.Proofs.RSFive
import OmplModel.Proofs.RSWords
/-!
Every candidate of the five-segment family `CCSCC` (the base word of formula 8.11, its timeflip, its
reflection and both — all of `candsCCSCC`) reaches the goal, over ℝ.
-/
namespace OmplModel.RS
open OmplModel OmplModel.Dubins

attribute [-instance] Num.instOfNat

theorem bCCSCC_flip (ty : Nat) (t u v : ℝ) : bCCSCC ty true t u v = (bCCSCC ty false t u v).flip := by
  simp [bCCSCC, sg, RSPath.flip]

theorem LpRmSLmRp_Reaches (x y phi t u v : ℝ) (h : LpRmSLmRp x y phi = some (t, u, v)) :
    Reaches (bCCSCC 16 false t u v) x y phi :=
  rs_LpRmSLmRp_reaches x y phi t u v h

/-- every CCSCC candidate reaches the goal -/
theorem CCSCC_candidates_reach (x y phi L : ℝ) (Q : RSPath ℝ) (h : some (L, Q) ∈ candsCCSCC x y phi) :
    Reaches Q x y phi :=
  reach_four LpRmSLmRp key3 bCCSCC 16 17 LpRmSLmRp_Reaches (fun _ _ _ _ _ => rfl) (fun _ _ _ _ _ _ => rfl)
    bCCSCC_flip rfl x y phi L Q h

end OmplModel.RS
